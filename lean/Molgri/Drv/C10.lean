import Molgri.Drv.Util
import Molgri.Model.Rigid
open Lean Molgri.Drv Molgri.Rigid

namespace Molgri.Drv.C10

/-- positions leave the driver as `⌊x·2^40⌋` (absolute error < 1e-12 Å; the comparison tolerance is 2e-4 Å). -/
def fixJ (x : Rat) : Json := intJ (x * (1099511627776 : Rat)).floor

def v3J (v : V3 Rat) : Json := Json.arr #[fixJ v.x, fixJ v.y, fixJ v.z]

def asAtom (j : Json) : R (Atom Rat) := do
  match ← asArr j with
  | [n, t, m, x, y, z] => pure ⟨← asStr n, ← asStr t, ← asRat m, ⟨← asRat x, ← asRat y, ← asRat z⟩⟩
  | _ => throw "bad atom"

/-- a row of the grid array; any width other than 7 makes scipy's `from_quat` (or the broadcast in `translate`)
raise `ValueError`. -/
def asRow (j : Json) : R (Row Rat) := do
  match ← asList asRat j with
  | [a, b, c, x, y, z, w] => pure ⟨⟨a, b, c⟩, ⟨x, y, z, w⟩⟩
  | _ => throw "ValueError"

def asQuat (j : Json) : R (Quat Rat) := do
  match ← asList asRat j with
  | [x, y, z, w] => pure ⟨x, y, z, w⟩
  | _ => throw "ValueError"

/-- the model has no NaN: a molecule whose masses sum to zero (MDAnalysis returns NaN) is refused by name. -/
def needMass (as : List (Atom Rat)) : R Unit :=
  if totalMass as = 0 then throw "ZeroMass" else pure ()

def readMol (j : Json) (key : String) (centre : Bool) : R (List (Atom Rat)) := do
  let raw ← asList asAtom (← getField j key)
  if centre then do needMass raw; pure (center raw) else pure raw

def atomsJ (as : List (Atom Rat)) : Json :=
  Json.mkObj [("names", listJ Json.str (as.map (·.name))), ("types", listJ Json.str (as.map (·.type))),
              ("masses", listJ ratJ (as.map (·.mass))), ("pos", listJ v3J (as.map (·.pos)))]

def frameJ (f : Frame Rat) : Json := Json.mkObj [("idx", natJ f.idx), ("atoms", atomsJ f.atoms)]

def lift {α} (e : Except String α) : R α := e

/-- run the generator `n` times on the same object. -/
def runGen : Nat → PtState Rat → List (Row Rat) → R (List Json)
  | 0, _, _ => pure []
  | n + 1, st, rows => do
    let (st', fs) ← lift (generate st rows)
    let rest ← runGen n st' rows
    pure (listJ frameJ fs :: rest)

def runGet : Nat → PtState Rat → List (Row Rat) → R (List Json)
  | 0, _, _ => pure []
  | n + 1, st, rows => do
    let (st', p) ← lift (getPt st rows)
    let rest ← runGet n st' rows
    pure (listJ (listJ v3J) p :: rest)

/-- ops
  `rotmat`   {q:[x,y,z,w]}                         ↦ 9 exact entries (row-major)
  `center`   {mol}                                 ↦ centred atoms (OneMoleculeReader)
  `generate` {mol1, mol2, rows, center, runs}      ↦ per run: frames (idx, names, types, masses, positions)
  `getpt`    {mol1, mol2, rows, center, calls}     ↦ per call: positions of every frame
  `writer`   {mol1, mol2, rows}                    ↦ positions of every frame (PtWriter path) -/
def handle (op : String) (j : Json) : R Json := do
  match op with
  | "rotmat" =>
    let q ← asQuat (← getField j "q")
    if q.normSq = 0 then throw "ValueError"
    let M := rotMat q
    pure (listJ ratJ [M.r0.x, M.r0.y, M.r0.z, M.r1.x, M.r1.y, M.r1.z, M.r2.x, M.r2.y, M.r2.z])
  | "center" =>
    pure (atomsJ (← readMol j "mol" true))
  | "generate" =>
    let c ← asBool (← getField j "center")
    let m1 ← readMol j "mol1" c
    let m2 ← readMol j "mol2" c
    let rows ← asList asRow (← getField j "rows")
    let n ← asNat (← getField j "runs")
    if ¬ rows.isEmpty then needMass m2
    pure (Json.arr (← runGen n (PtState.init m1 m2) rows).toArray)
  | "getpt" =>
    let c ← asBool (← getField j "center")
    let m1 ← readMol j "mol1" c
    let m2 ← readMol j "mol2" c
    let rows ← asList asRow (← getField j "rows")
    let n ← asNat (← getField j "calls")
    if ¬ rows.isEmpty then needMass m2
    pure (Json.arr (← runGet n (PtState.init m1 m2) rows).toArray)
  | "writer" =>
    let r1 ← asList asAtom (← getField j "mol1")
    let r2 ← asList asAtom (← getField j "mol2")
    needMass r1; needMass r2
    let rows ← asList asRow (← getField j "rows")
    let (_, p) ← lift (ptWriter r1 r2 rows)
    pure (listJ (listJ v3J) p)
  | _ => throw s!"unknown op {op}"

end Molgri.Drv.C10
