import Molgri.Drv.Util
import Molgri.Model.Assign
open Lean Molgri.Drv Molgri.Assign

namespace Molgri.Drv.C11

def asV3 (j : Json) : R V3 := do
  match ← asList asRat j with
  | [x, y, z] => pure ⟨x, y, z⟩
  | _ => throw "bad V3"

def asQ4 (j : Json) : R Q4 := do
  match ← asList asRat j with
  | [x, y, z, w] => pure ⟨x, y, z, w⟩
  | _ => throw "bad Q4"

def asM3 (j : Json) : R M3 := do
  match ← asList asV3 j with
  | [a, b, c] => pure ⟨a, b, c⟩
  | _ => throw "bad M3"

def v3J (v : V3) : Json := listJ ratJ [v.x, v.y, v.z]
def m3J (m : M3) : Json := listJ v3J [m.r0, m.r1, m.r2]
def i3J (d : I3) : Json := listJ intJ [d.1, d.2.1, d.2.2]
def exJ (r : Except String Json) : Json :=
  match r with
  | .ok v => Json.mkObj [("ok", v)]
  | .error e => Json.mkObj [("err", Json.str e)]

def asI3 (j : Json) : R I3 := do
  match ← asList asInt j with
  | [a, b, c] => pure (a, b, c)
  | _ => throw "bad I3"

/-- everything the harness compares for one frame, plus the margins to the nearest competing cell -/
def frameJ (thr : Rat) (g : Grid) (m : RefMol) (refDir : I3) (outl cart : Bool) (f : Frame) : Json :=
  exJ do
    let r ← assignFrame thr g m refDir outl cart f
    let com := centerOfMass m.masses f.pos
    let u := normalise com f.d
    let tl := g.t.map fun r => absR (r - f.d)
    let ol := if cart then g.o.map (fun o => sqDist o u)
              else (g.o.zip g.oNorm).map (fun on => 1 - V3.dot on.1 u / (on.2 * f.nu))
    let P := rotationFromAxes f.pa m.pa r.dirs refDir
    let bl := (relMats g.b P).map (fun M => -(M3.trace M))
    let outer : Option Rat := match g.t.reverse with
      | last :: prev :: _ => some (last + (1 / 2) * (last - prev))
      | _ => none
    pure (Json.mkObj [
      ("t", optJ natJ r.t), ("o", natJ r.o), ("b", natJ r.b), ("dirs", i3J r.dirs), ("idx", optJ natJ r.idx),
      ("com", v3J com), ("P", m3J P), ("detP", ratJ (M3.det P)),
      ("tgap", optJ ratJ (gapAt tl (argminIdx tl))),
      ("outer", optJ ratJ outer),
      ("ogap", optJ ratJ (gapAt ol r.o)),
      ("bgap", optJ ratJ (gapAt bl r.b)),
      ("signs", listJ i3J (f.pos.map (atomSigns thr f.pa com)))])

/-- ops:
  `traj`     one AssignmentTool call: grid, reference molecule, flags, frames ↦ reference directions + per-frame results
  `between`  {t} ↦ get_between_radii
  `tassign`  {t, d, outliers} ↦ index | null
  `oassign`  {o, onorm, c, d, nu, cartesian} ↦ {o, ogap}
  `dirs`     {signs: [[s,s,s]…]} ↦ _determine_positive_directions on given sign triples
  `compose`  {t|null, o, b, no, nb} ↦ index | null
  `argmin`   {xs} ↦ index -/
def handle (op : String) (j : Json) : R Json := do
  match op with
  | "traj" =>
    let thr ← asRat (← getField j "thr")
    let t ← asList asRat (← getField j "t")
    let o ← asList asV3 (← getField j "o")
    let onorm ← asList asRat (← getField j "onorm")
    let b ← asList asQ4 (← getField j "b")
    let masses ← asList asRat (← getField j "masses")
    let refpos ← asList asV3 (← getField j "refpos")
    let refpa ← asM3 (← getField j "refpa")
    let outl ← asBool (← getField j "outliers")
    let cart ← asBool (← getField j "cartesian")
    let frames ← asList (fun fj => do
      let pos ← asList asV3 (← getField fj "pos")
      let pa ← asM3 (← getField fj "pa")
      let d ← asRat (← getField fj "d")
      let nu ← asRat (← getField fj "nu")
      pure ({ pos := pos, pa := pa, d := d, nu := nu } : Frame)) (← getField j "frames")
    let g : Grid := { t := t, o := o, oNorm := onorm, b := b }
    let m : RefMol := { masses := masses, pos := refpos, pa := refpa }
    let refcom := centerOfMass m.masses m.pos
    let refsigns := m.pos.map (atomSigns thr m.pa refcom)
    match refDirections thr m with
    | .error e =>
      pure (Json.mkObj [("refdir", Json.mkObj [("err", Json.str e)]), ("refcom", v3J refcom),
                        ("refsigns", listJ i3J refsigns), ("frames", Json.arr #[])])
    | .ok rd =>
      pure (Json.mkObj [("refdir", Json.mkObj [("ok", i3J rd)]), ("refcom", v3J refcom),
                        ("refsigns", listJ i3J refsigns),
                        ("frames", listJ (frameJ thr g m rd outl cart) frames)])
  | "between" =>
    let t ← asList asRat (← getField j "t")
    match betweenRadii t with
    | .ok l => pure (listJ ratJ l)
    | .error e => throw e
  | "tassign" =>
    let t ← asList asRat (← getField j "t")
    let d ← asRat (← getField j "d")
    let outl ← asBool (← getField j "outliers")
    match tAssign t d outl with
    | .ok r => pure (optJ natJ r)
    | .error e => throw e
  | "oassign" =>
    let o ← asList asV3 (← getField j "o")
    let onorm ← asList asRat (← getField j "onorm")
    let c ← asV3 (← getField j "c")
    let d ← asRat (← getField j "d")
    let nu ← asRat (← getField j "nu")
    let cart ← asBool (← getField j "cartesian")
    if o = [] then throw "ValueError"
    let u := normalise c d
    let ol := if cart then o.map (fun x => sqDist x u)
              else (o.zip onorm).map (fun on => 1 - V3.dot on.1 u / (on.2 * nu))
    let k := if cart then oAssign o u else oAssignCos (o.zip onorm) u nu
    pure (Json.mkObj [("o", natJ k), ("ogap", optJ ratJ (gapAt ol k))])
  | "dirs" =>
    let s ← asList asI3 (← getField j "signs")
    match positiveDirections s with
    | .ok r => pure (i3J r)
    | .error e => throw e
  | "compose" =>
    let t ← asOpt asNat (← getField j "t")
    let o ← asNat (← getField j "o")
    let b ← asNat (← getField j "b")
    let no ← asNat (← getField j "no")
    let nb ← asNat (← getField j "nb")
    pure (optJ natJ (compose t o b no nb))
  | "argmin" =>
    let xs ← asList asRat (← getField j "xs")
    if xs = [] then throw "ValueError"
    pure (natJ (argminIdx xs))
  | _ => throw s!"unknown op {op}"

end Molgri.Drv.C11
