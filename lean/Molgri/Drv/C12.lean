import Molgri.Drv.Util
import Molgri.Model.Msm
open Lean Molgri.Drv

namespace Molgri.Drv.C12

/-- ops: `msm` {xs: [nat|null], n, tau, noncorr} ↦ dense matrix of "num/den";
         `msm_sparse` (same arguments) ↦ list of [i, j, "num/den"] at the support positions (for large n);
         `windows` {xs, tau, step} ↦ list of pairs. -/
def handle (op : String) (j : Json) : R Json := do
  match op with
  | "msm" =>
    let xs ← asList (asOpt asNat) (← getField j "xs")
    let n ← asNat (← getField j "n")
    let τ ← asNat (← getField j "tau")
    let nc ← asBool (← getField j "noncorr")
    if τ = 0 then throw "ValueError"
    if xs.any (fun x => match x with | some v => decide (v ≥ n) | none => false) then throw "IndexError"
    pure (listJ (listJ ratJ) (Msm.transitionDense xs n τ nc))
  | "msm_sparse" =>
    let xs ← asList (asOpt asNat) (← getField j "xs")
    let n ← asNat (← getField j "n")
    let τ ← asNat (← getField j "tau")
    let nc ← asBool (← getField j "noncorr")
    if τ = 0 then throw "ValueError"
    if xs.any (fun x => match x with | some v => decide (v ≥ n) | none => false) then throw "IndexError"
    pure (listJ (fun (e : Nat × Nat × Rat) => Json.arr #[natJ e.1, natJ e.2.1, ratJ e.2.2]) (Msm.transitionSparse xs n τ nc))
  | "windows" =>
    let xs ← asList (asOpt asNat) (← getField j "xs")
    let τ ← asNat (← getField j "tau")
    let step ← asNat (← getField j "step")
    if τ = 0 ∨ step = 0 then throw "ValueError"
    pure (listJ (fun (p : Nat × Nat) => Json.arr #[natJ p.1, natJ p.2]) (Msm.windows xs τ step))
  | _ => throw s!"unknown op {op}"

end Molgri.Drv.C12
