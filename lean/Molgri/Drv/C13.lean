import Molgri.Drv.Util
import Molgri.Model.Merge
open Lean Molgri.Drv

namespace Molgri.Drv.C13
open Molgri.Merge

/-- the driver runs the model at `α := Int` -/
def matJ (A : Mat Int) : Json := listJ (listJ intJ) A
def groupsJ (g : Groups) : Json := listJ (listJ natJ) g

def parseOp (j : Json) : R Op := do
  let k ← asStr (← getField j "k")
  match k with
  | "merge" => pure (.merge (← asList (asList asNat) (← getField j "J")))
  | "delete" => pure (.delete (← asList asNat (← getField j "R")))
  | _ => throw s!"bad op kind {k}"

/-- runs a history and reports the state after every step; an error is reported with the step it occurred at -/
def runTrace (s : State Int) : List Op → List Json → List Json
  | [], acc => acc.reverse
  | op :: ops, acc =>
    match step s op with
    | .ok s' => runTrace s' ops (Json.mkObj [("A", matJ s'.A), ("idx", optJ groupsJ s'.idx)] :: acc)
    | .error e => (Json.mkObj [("err", Json.str e.name)] :: acc).reverse

/-- ops: `run` {A, idx?, ops} ↦ list of states; `cut` {Q, toJoin?, tooHigh?}; `closure` {J} -/
def handle (op : String) (j : Json) : R Json := do
  match op with
  | "run" =>
    let A ← asList (asList asInt) (← getField j "A")
    let ops ← asList parseOp (← getField j "ops")
    pure (Json.arr (runTrace ⟨A, none⟩ ops []).toArray)
  | "cut" =>
    let Q ← asList (asList asInt) (← getField j "Q")
    let tj ← asOpt (asList (asList asNat)) (← getField j "toJoin")
    let th ← asOpt (asList asNat) (← getField j "tooHigh")
    match cutAndMerge Q tj th with
    | .ok (A, il) => pure (Json.mkObj [("A", matJ A), ("idx", optJ groupsJ il)])
    | .error e => throw e.name
  | "closure" =>
    let J ← asList (asList asNat) (← getField j "J")
    pure (groupsJ (closure J))
  | _ => throw s!"unknown op {op}"

end Molgri.Drv.C13
