import Molgri.Drv.Util
import Molgri.Model.Pipeline
open Lean Molgri.Drv

namespace Molgri.Drv.C14
open Molgri.Pipeline

/-- `np.rint`: round half to even (`Float.round` is C `round`, half away from zero). -/
def rint (y : Float) : Float :=
  let r := Float.round y
  if (r - y).abs == 0.5 then 2 * Float.round (y / 2) else r

/-- `np.round(x, 14)` as numpy computes it: `rint(x * 1e14) / 1e14`. -/
def round14 (x : Float) : Float := rint (x * 1e14) / 1e14

/-- `scipy.constants.k`, `scipy.constants.N_A` (re-validated by the harness on every run, op `consts`). -/
def kB : Float := 1.380649e-23
def NA : Float := 6.02214076e23

def asEnt {K : Type} (f : Json → R K) (j : Json) : R (Ent K) := do
  match (← asArr j) with
  | [r, c, v] => pure ⟨← asNat r, ← asNat c, ← f v⟩
  | _ => throw "bad entry"

def entJ {K : Type} (f : K → Json) (e : Ent K) : Json := Json.arr #[natJ e.row, natJ e.col, f e.val]

def asFmt (j : Json) : R Fmt := do
  match (← asStr j) with
  | "coo" => pure .coo
  | "csr" => pure .csr
  | s => throw s!"bad fmt {s}"

def fmtJ : Fmt → Json
  | .coo => Json.str "coo"
  | .csr => Json.str "csr"

def asSp {K : Type} (f : Json → R K) (j : Json) : R (Sp K) := do
  pure ⟨← asFmt (← getField j "fmt"), ← asNat (← getField j "n"), ← asList (asEnt f) (← getField j "entries")⟩

def spJ {K : Type} (f : K → Json) (s : Sp K) : Json :=
  Json.mkObj [("fmt", fmtJ s.fmt), ("n", natJ s.n), ("entries", listJ (entJ f) s.entries)]

def asSel (j : Json) : R Sel := do
  match (← asStr j) with
  | "adjacency" => pure .adjacency
  | "borders" => pure .borders
  | "distances" => pure .distances
  | s => throw s!"bad sel {s}"

/-- dense view of a list of rows -/
def ofRows {K : Type} [Zero K] (rows : Array (Array K)) : Nat → Nat → K :=
  fun i j => (rows.getD i #[]).getD j 0

def asRows {K : Type} (f : Json → R K) (j : Json) : R (Array (Array K)) := do
  let rows ← asList (asList f) j
  pure (rows.map List.toArray).toArray

def asPaths (j : Json) : R Paths := do
  match (← asList asStr j) with
  | [a, b, c, d, e] => pure ⟨a, b, c, d, e⟩
  | _ => throw "bad paths"

def asSubGrids {K : Type} [Zero K] (f : Json → R K) (j : Json) : R (SubGrids K) := do
  pure {
    nP := ← asNat (← getField j "nP")
    nB := ← asNat (← getField j "nB")
    f := ← f (← getField j "f")
    Pa := ofRows (← asRows f (← getField j "Pa"))
    Pb := ofRows (← asRows f (← getField j "Pb"))
    Pd := ofRows (← asRows f (← getField j "Pd"))
    Ra := ← asList (asEnt f) (← getField j "Ra")
    Rb := ← asList (asEnt f) (← getField j "Rb")
    Rd := ← asList (asEnt f) (← getField j "Rd")
    Vpos := ← asList f (← getField j "Vpos")
    Vrot := ← asList f (← getField j "Vrot")
    positions := ← asList (asList f) (← getField j "positions")
    quats := ← asList (asList f) (← getField j "quats") }

/-- a grid whose five contents are distinguishable tags (file-name logic only) -/
def tagGrid : Grid Nat := ⟨[[1]], [2], ⟨.csr, 3, []⟩, ⟨.csr, 4, []⟩, ⟨.csr, 5, []⟩⟩

def doSave (fs : FS Nat) (kind path : String) : R (FS Nat) :=
  match kind with
  | "grid" => pure (saveFullGrid tagGrid fs path)
  | "volumes" => pure (saveVolumes tagGrid fs path)
  | "borders" => pure (saveBorders tagGrid fs path)
  | "distances" => pure (saveDistances tagGrid fs path)
  | "adjacency" => pure (saveAdjacency tagGrid fs path)
  | _ => throw s!"bad kind {kind}"

/-- tag of what a loader returns, or the name of the exception -/
def doLoad (fs : FS Nat) (kind path : String) : R Json :=
  let wrap {α} (r : Except String α) (tag : α → Nat) : Json :=
    match r with
    | .ok a => natJ (tag a)
    | .error e => Json.mkObj [("err", Json.str e)]
  let npTag (a : NpArray Nat) : Nat :=
    match a with
    | .vec v => v.headD 0
    | .table t => (t.headD []).headD 0
  match kind with
  | "grid" | "volumes" => pure (wrap (loadNpy fs path) npTag)
  | "borders" | "distances" | "adjacency" => pure (wrap (loadSparse fs path) fun s => s.n)
  | _ => throw s!"bad kind {kind}"

/-- ops
`assemble` {nP,nB,f,sel,P:[[rat]],R:[[r,c,rat]]} ↦ stored entries of `_get_N_N(sel)` in storage order (exact);
`volumes`  {f,Vpos,Vrot} ↦ `get_total_volumes` (exact);
`io`       {saves:[[kind,path]], loads:[[kind,path]]} ↦ per load the tag of the content returned or {"err":…};
`rate`     {E,V:[bits],D,T:bits,dist,surf:{fmt,n,entries:[[r,c,bits]]}} ↦ returned csr matrix (Float) or exception;
`pipeline` {sub:{…bits…},paths:[5 str],E,D,T} ↦ the whole pipeline in Float: files written, read back, rate matrix;
`sorteig`  {vals:[[re,im]],cols:[[[re,im]]]} (exact) ↦ {vals, cols, idx};  `consts` ↦ [kB bits, N_A bits]. -/
def handle (op : String) (j : Json) : R Json := do
  match op with
  | "assemble" =>
    let nP ← asNat (← getField j "nP")
    let nB ← asNat (← getField j "nB")
    let f ← asRat (← getField j "f")
    let sel ← asSel (← getField j "sel")
    let P ← asRows asRat (← getField j "P")
    let Rm ← asList (asEnt asRat) (← getField j "R")
    pure (listJ (entJ ratJ) (full nP nB sel f (ofRows P) Rm))
  | "volumes" =>
    let f ← asRat (← getField j "f")
    let vp ← asList asRat (← getField j "Vpos")
    let vr ← asList asRat (← getField j "Vrot")
    pure (listJ ratJ (totalVolumes f vp vr))
  | "io" =>
    let saves ← asList (asList asStr) (← getField j "saves")
    let loads ← asList (asList asStr) (← getField j "loads")
    let mut fs : FS Nat := []
    for s in saves do
      match s with
      | [k, p] => fs ← doSave fs k p
      | _ => throw "bad save"
    let mut outs : List Json := []
    for l in loads do
      match l with
      | [k, p] => outs := outs ++ [← doLoad fs k p]
      | _ => throw "bad load"
    pure (Json.arr outs.toArray)
  | "rate" =>
    let E ← asList asFloatBits (← getField j "E")
    let V ← asList asFloatBits (← getField j "V")
    let D ← asFloatBits (← getField j "D")
    let T ← asFloatBits (← getField j "T")
    let dist ← asSp asFloatBits (← getField j "dist")
    let surf ← asSp asFloatBits (← getField j "surf")
    match getRateMatrix Float.exp round14 kB NA E V dist surf D T with
    | .ok m => pure (spJ floatBitsJ m)
    | .error e => throw e
  | "pipeline" =>
    let sub ← asSubGrids asFloatBits (← getField j "sub")
    let paths ← asPaths (← getField j "paths")
    let E ← asList asFloatBits (← getField j "E")
    let D ← asFloatBits (← getField j "D")
    let T ← asFloatBits (← getField j "T")
    match pipeline Float.exp round14 kB NA sub.toGrid paths [] E D T with
    | .ok m => pure (spJ floatBitsJ m)
    | .error e => throw e
  | "sorteig" =>
    let asC (x : Json) : R (Rat × Rat) := do
      match (← asArr x) with
      | [a, b] => pure (← asRat a, ← asRat b)
      | _ => throw "bad complex"
    let vals ← asList asC (← getField j "vals")
    let cols ← asList (asList asC) (← getField j "cols")
    let (v, c) := sortEig (0 : Rat) vals cols
    pure (Json.mkObj [("vals", listJ ratJ v), ("cols", listJ (listJ ratJ) c),
                      ("idx", listJ natJ (sortIdx (0 : Rat) vals))])
  | "consts" => pure (listJ floatBitsJ [kB, NA])
  | _ => throw s!"unknown op {op}"

end Molgri.Drv.C14
