import Molgri.Drv.Util
import Molgri.Model.CellVolume
open Lean Molgri.Drv Molgri.CellVol

namespace Molgri.Drv.C15

def refJ : Ref → Json
  | .helper h => intJ h
  | .vertex v => intJ (-1 - (v : Int))

def liftE {α} (e : Except String α) : R α := e

/-- A Python float as the exact dyadic number it is: "num/den" with `den` a power of two, or an integer.
    (`Dyadic` is the core type of Lean 4.33; the model is polymorphic in the scalar, and the part run here uses only
    `+ - * <`, so no rounding happens.) -/
def asDy (j : Json) : R Dyadic := do
  let q ← asRat j
  let k := q.den.log2
  if 2 ^ k ≠ q.den then throw s!"not a dyadic rational: {q}"
  pure (Dyadic.ofIntWithPrec q.num (k : Int))

def kindJ : VorKind → Json
  | .rotobj => Json.str "RotobjVoronoi"
  | .halfRotobj => Json.str "HalfRotobjVoronoi"
  | .mikro => Json.str "MikroVoronoi"

/-- ops
  `cells`    {centers, verts, regions, helpers|null, including, atol, rtol, tol}
               ↦ {first, rverts_n, assign, hull, upper}: everything `get_convex_hulls` hands to qhull
                 (helper h ↦ h, reduced vertex v ↦ -1-v) and the upper indices of `centers`
  `rotvol`   {pi, tol, N, grid, areas} ↦ `rotationVolumesOfAreas`
  `fullvol`  {areas}                   ↦ `volumesOfAreas` (`area / 2.0`)
  `halfvol`  {tol, all, grid}          ↦ `halfVolumes`
  `mikro`    {pi, dims, N}             ↦ `mikroVolumes`
  `dispatch` {dims, N}                 ↦ class name
  `upper`    {tol, q}                  ↦ `q_in_upper_sphere` -/
def handle (op : String) (j : Json) : R Json := do
  match op with
  | "cells" =>
    let centers ← asList (asList asDy) (← getField j "centers")
    let verts ← asList (asList asDy) (← getField j "verts")
    let regions ← asList (asList asNat) (← getField j "regions")
    let helpers ← asOpt (asList (asList asDy)) (← getField j "helpers")
    let including ← asBool (← getField j "including")
    let atol ← asDy (← getField j "atol")
    let rtol ← asDy (← getField j "rtol")
    let tol ← asDy (← getField j "tol")
    let (asg, inputs) ← liftE (hullInputsAsg atol rtol including centers verts regions helpers)
    pure (Json.mkObj [
      ("first", listJ natJ (firstOcc verts)),
      ("rverts_n", natJ (reducedVertices verts).length),
      ("assign", listJ natJ asg),
      ("hull", listJ (listJ refJ) inputs),
      ("upper", listJ natJ (upperIdx tol centers))])
  | "rotvol" =>
    let pi ← asRat (← getField j "pi")
    let tol ← asRat (← getField j "tol")
    let N ← asNat (← getField j "N")
    let grid ← asList (asList asRat) (← getField j "grid")
    let areas ← asList asRat (← getField j "areas")
    let v ← liftE (rotationVolumesOfAreas pi tol N grid areas)
    pure (listJ ratJ v)
  | "fullvol" =>
    let areas ← asList asRat (← getField j "areas")
    pure (listJ ratJ (volumesOfAreas areas))
  | "halfvol" =>
    let tol ← asRat (← getField j "tol")
    let grid ← asList (asList asRat) (← getField j "grid")
    let all ← asList asRat (← getField j "all")
    let v ← liftE (halfVolumes tol all grid)
    pure (listJ ratJ v)
  | "mikro" =>
    let pi ← asRat (← getField j "pi")
    let dims ← asNat (← getField j "dims")
    let N ← asNat (← getField j "N")
    let v ← liftE (mikroVolumes pi dims N)
    pure (listJ ratJ v)
  | "dispatch" =>
    let dims ← asNat (← getField j "dims")
    let N ← asNat (← getField j "N")
    pure (kindJ (dispatch dims N))
  | "upper" =>
    let tol ← asRat (← getField j "tol")
    let q ← asList asRat (← getField j "q")
    pure (Json.bool (upper tol q))
  | _ => throw s!"unknown op {op}"

end Molgri.Drv.C15
