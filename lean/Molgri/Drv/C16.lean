import Molgri.Drv.Util
import Molgri.Model.Trans
open Lean Molgri.Drv

namespace Molgri.Drv.C16
open Molgri.Trans

def lift {α} (x : Molgri.Trans.M α) : R α :=
  match x with
  | .ok v => pure v
  | .error e => throw e.name

/-- result of a sub-computation as JSON: {"ok": …} or {"err": name} (so that one op can report several getters) -/
def resJ {α} (f : α → Json) (x : Molgri.Trans.M α) : Json :=
  match x with
  | .ok v => Json.mkObj [("ok", f v)]
  | .error e => Json.mkObj [("err", Json.str e.name)]

/-- ops:
  `parse`      {s}            ↦ grid in Å (list of "num/den"), or the Python exception / "unsupported"
  `values`     {s}            ↦ the values in nm before sort / assertion / unit conversion
  `full`       {s}            ↦ {grid, inc, between, between0, sum}: grid and the three getters chained in the model
  `increments` {r}            ↦ get_increments(r)
  `between`    {r, zero}      ↦ get_between_radii(r, include_zero=zero)
  `literal`    {s}            ↦ {shape, flat} of np.array(literal_eval(s), dtype=float)
-/
def handle (op : String) (j : Json) : R Json := do
  match op with
  | "parse" =>
    let s ← asStr (← getField j "s")
    let g ← lift (parseTrans s.toList)
    pure (listJ ratJ g)
  | "values" =>
    let s ← asStr (← getField j "s")
    let g ← lift (transValues s.toList)
    pure (listJ ratJ g)
  | "full" =>
    let s ← asStr (← getField j "s")
    let g ← lift (parseTrans s.toList)
    pure (Json.mkObj [
      ("grid", listJ ratJ g),
      ("inc", resJ (listJ ratJ) (getIncrements g)),
      ("between", resJ (listJ ratJ) (getBetweenRadii g false)),
      ("between0", resJ (listJ ratJ) (getBetweenRadii g true)),
      ("sum", resJ ratJ (sumIncrementsFromFirst g))])
  | "increments" =>
    let r ← asList asRat (← getField j "r")
    let g ← lift (getIncrements r)
    pure (listJ ratJ g)
  | "between" =>
    let r ← asList asRat (← getField j "r")
    let z ← asBool (← getField j "zero")
    let g ← lift (getBetweenRadii r z)
    pure (listJ ratJ g)
  | "literal" =>
    let s ← asStr (← getField j "s")
    let v ← lift (literalEval s.toList)
    match shape v with
    | none => throw "ValueError"
    | some sh => pure (Json.mkObj [("shape", listJ natJ sh), ("flat", listJ ratJ (flat v))])
  | _ => throw s!"unknown op {op}"

end Molgri.Drv.C16
