import Molgri.Drv.Util
import Molgri.Model.Naming
open Lean Molgri.Drv

namespace Molgri.Drv.C17
open Molgri.Naming

def strJ (t : List Char) : Json := Json.str (String.ofList t)

def errName : Err → String
  | .valueError => "ValueError"
  | .typeError => "TypeError"

def asTok (j : Json) : R Tok := do
  let s ← asStr j
  pure s.toList

def asTables (j : Json) : R Tables := do
  let set3 ← asList asTok (← getField j "set3")
  let set4 ← asList asTok (← getField j "set4")
  let zero3 ← asTok (← getField j "zero3")
  let zero4 ← asTok (← getField j "zero4")
  let defO ← asTok (← getField j "defO")
  let defB ← asTok (← getField j "defB")
  pure { set3, set4, zero3, zero4, defO, defB }

def tablesJ (tb : Tables) : Json :=
  Json.mkObj [("set3", listJ strJ tb.set3), ("set4", listJ strJ tb.set4), ("zero3", strJ tb.zero3),
    ("zero4", strJ tb.zero4), ("defO", strJ tb.defO), ("defB", strJ tb.defB), ("all", listJ strJ tb.all)]

def parseJ (r : Except Err (Tok × Nat)) : R Json :=
  match r with
  | .ok (alg, n) => pure (Json.mkObj [("alg", strJ alg), ("N", natJ n), ("std", strJ (stdName alg n))])
  | .error e => throw (errName e)

def buildName : Build → String
  | .randomS => "RandomSRotations" | .ico => "IcoRotations" | .cube3D => "Cube3DRotations"
  | .zero3D => "ZeroRotations3D" | .randomQ => "RandomQRotations" | .cube4D => "Cube4DRotations"
  | .fulldiv => "FullDivCube4DRotations" | .zero4D => "ZeroRotations4D"

def resJ (r : R Json) : Json :=
  match r with
  | .ok v => Json.mkObj [("ok", v)]
  | .error e => Json.mkObj [("err", Json.str e)]

def scanJ (name : List Char) : R Json :=
  match nameParser shipped name with
  | .ok s => pure (Json.mkObj [("N", optJ natJ s.N), ("algo", optJ strJ s.algo), ("dim", optJ natJ s.dim)])
  | .error e => throw (errName e)

def roleOf (s : String) : Role := if s = "o" then Role.o else Role.b

/-- `o_or_b == "o"` selects the direction branch, every other value the rotation branch (naming.py:117/139). -/
def asRole (j : Json) : R Role := do
  let s ← asStr j
  pure (roleOf s)

/-- ops (names are JSON strings, converted to their code points):
  `parse`     {name, role}            ↦ {alg, N, std} | ValueError      — shipped tables (hard-wired)
  `parse_tb`  {name, role, tables}    ↦ same, with the given tables
  `parse_pre` {name, role}            ↦ the code before ddba0bd (may raise TypeError)
  `all`       {name, roles:[..]}      ↦ {scan: {ok|err}, parse: [{ok|err} per role]} (one line per name, for speed)
  `scan`      {name}                  ↦ {N, algo, dim} of `NameParser(name)` | ValueError
  `shipped`   {}                      ↦ the hard-wired tables and `tablesOk shipped`
  `tables_ok` {tables}                ↦ Bool
  `factory`   {alg, N, role}          ↦ generator class name | ValueError -/
def handle (op : String) (j : Json) : R Json := do
  match op with
  | "parse" =>
    let name ← asTok (← getField j "name")
    let role ← asRole (← getField j "role")
    parseJ (parse shipped name role)
  | "parse_tb" =>
    let name ← asTok (← getField j "name")
    let role ← asRole (← getField j "role")
    let tb ← asTables (← getField j "tables")
    parseJ (parse tb name role)
  | "parse_pre" =>
    let name ← asTok (← getField j "name")
    let role ← asRole (← getField j "role")
    parseJ (parsePre shipped name role)
  | "all" =>
    let name ← asTok (← getField j "name")
    let roles ← asList asStr (← getField j "roles")
    pure (Json.mkObj [("scan", resJ (scanJ name)),
      ("parse", listJ (fun r => resJ (parseJ (parse shipped name (roleOf r)))) roles)])
  | "scan" =>
    let name ← asTok (← getField j "name")
    scanJ name
  | "shipped" =>
    pure (Json.mkObj [("tables", tablesJ shipped), ("ok", Json.bool (tablesOk shipped))])
  | "tables_ok" =>
    let tb ← asTables (← getField j "tables")
    pure (Json.bool (tablesOk tb))
  | "factory" =>
    let alg ← asTok (← getField j "alg")
    let n ← asNat (← getField j "N")
    let role ← asRole (← getField j "role")
    match factory role alg n with
    | .ok b => pure (Json.str (buildName b))
    | .error e => throw (errName e)
  | _ => throw s!"unknown op {op}"

end Molgri.Drv.C17
