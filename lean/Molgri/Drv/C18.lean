import Molgri.Drv.Util
import Molgri.Model.Polytope
open Lean Molgri.Drv

namespace Molgri.Drv.C18
open Molgri.Polytope

def asKind (j : Json) : R Kind := do
  match (← asStr j) with
  | "ico" => pure .ico
  | "cube3" => pure .cube3
  | "cube4" => pure .cube4
  | s => throw s!"unknown kind {s}"

/-- offset table: `sigma[level][position]`; identity where the table has no entry. -/
def sigmaOf (tab : List (List Nat)) : Nat → Nat → Nat → Nat :=
  fun l _ j => match tab[l]? with
    | some row => row.getD j j
    | none => j

def asSigma (j : Json) : R (Nat → Nat → Nat → Nat) := do
  match (← asOpt (asList (asList asNat)) j) with
  | some tab => pure (sigmaOf tab)
  | none => pure (sigmaOf [])

def ptJ (p : Pt) : Json := listJ intJ p
def nodeJ (kind : Kind) (nd : Node) : Json :=
  let nsq : Json := match kind with
    | .ico => let r := phiNormSq nd.pt; Json.arr #[intJ r.1, intJ r.2]
    | _ => intJ (sqd nd.pt (nd.pt.map fun _ => 0))
  Json.arr #[ptJ nd.pt, natJ nd.level, listJ natJ nd.face, natJ nd.idx, nsq]

def halfJ (kind : Kind) (s : St) : List (String × Json) :=
  if kind = .cube4 then
    match getHalf s none with
    | .ok rows => [("half", listJ (fun (nd : Node) => natJ nd.idx) rows)]
    | .error _ => []
  else []

def stateJ (kind : Kind) (full : Bool) (s : St) : Json :=
  if full then
    Json.mkObj [("nodes", listJ (nodeJ kind) s.nodes),
                ("edges", listJ (fun (e : Pt × Pt) => Json.arr #[ptJ e.1, ptJ e.2]) s.edges),
                ("cur", natJ s.cur), ("maxCi", natJ s.maxCi)]
  else
    Json.mkObj ([("idx", listJ (fun (nd : Node) => natJ nd.idx) s.nodes), ("cur", natJ s.cur), ("maxCi", natJ s.maxCi)]
                ++ halfJ kind s)

/-- states after 0, 1, …, K divisions (computed incrementally with the model's own `create` / `divide`). -/
def statesUpTo (σ : Nat → Nat → Nat → Nat) (kind : Kind) : Nat → List St
  | 0 => [create σ kind]
  | k + 1 =>
    match statesUpTo σ kind k with
    | [] => []
    | s :: t => divide σ kind s :: s :: t

def rowsJ (r : Except String (List Node)) : R Json :=
  match r with
  | .ok rows => pure (listJ (fun (nd : Node) => Json.arr #[natJ nd.idx, ptJ nd.pt]) rows)
  | .error e => throw e

/-- one step of a history: `["D"]`, `["O", …]` (read-only observer), `["G", N|null]`, `["H", N|null]`. -/
def histStep (σ : Nat → Nat → Nat → Nat) (kind : Kind) (acc : St × List Json) (op : Json) : R (St × List Json) := do
  let a ← asArr op
  match a with
  | [] => throw "empty op"
  | h :: rest =>
    let name ← asStr h
    let nOpt : R (Option Nat) := match rest with
      | x :: _ => asOpt asNat x
      | [] => pure none
    let wrap (r : R Json) : Json := match r with
      | .ok v => Json.mkObj [("ok", v)]
      | .error e => Json.mkObj [("err", Json.str e)]
    match name with
    | "D" => pure (divide σ kind acc.1, acc.2 ++ [Json.mkObj [("ok", natJ (divide σ kind acc.1).nodes.length)]])
    | "O" => pure (observe acc.1, acc.2 ++ [Json.mkObj [("ok", natJ (observe acc.1).nodes.length)]])
    | "G" => do
      let n ← nOpt
      pure (acc.1, acc.2 ++ [wrap (rowsJ (getNodes acc.1 n))])
    | "H" => do
      let n ← nOpt
      if kind ≠ .cube4 then pure (acc.1, acc.2 ++ [wrap (throw "AttributeError")])
      else pure (acc.1, acc.2 ++ [wrap (rowsJ (getHalf acc.1 n))])
    | s => throw s!"unknown history op {s}"

def handle (op : String) (j : Json) : R Json := do
  match op with
  | "build" =>
    let kind ← asKind (← getField j "kind")
    let K ← asNat (← getField j "levels")
    let σ ← asSigma (← getField j "sigma")
    let full ← asBool (← getField j "full")
    pure (listJ (stateJ kind full) (statesUpTo σ kind K).reverse)
  | "history" =>
    let kind ← asKind (← getField j "kind")
    let σ ← asSigma (← getField j "sigma")
    let ops ← asArr (← getField j "ops")
    let r ← ops.foldlM (histStep σ kind) (create σ kind, [])
    pure (Json.arr r.2.toArray)
  | "lattice" =>
    let kind ← asKind (← getField j "kind")
    let k ← asNat (← getField j "k")
    match kind with
    | .ico => pure (listJ ptJ (dedup (icoLattice k)))
    | .cube3 => pure (listJ ptJ (cubeLattice 3 k))
    | .cube4 => pure (listJ ptJ (cubeLattice 4 k))
  | "upper" =>
    let ps ← asList (asList asInt) (← getField j "pts")
    pure (listJ (fun p => Json.bool (inUpper p)) ps)
  | _ => throw s!"unknown op {op}"

end Molgri.Drv.C18
