import Molgri.Drv.Util
import Molgri.Model.Totality
open Lean Molgri.Drv

namespace Molgri.Drv.C19
open Molgri.Totality

/-- the name the harness gives the Python exception (`core.errname`). -/
def errName : Err → String
  | .valueError => "ValueError"
  | .attributeError => "AttributeError"
  | .indexError => "IndexError"
  | .assertionError => "AssertionError"
  | .typeError => "TypeError"
  | .recursionError => "other:RecursionError"
  | .qhullError => "other:QhullError"

def algOfStr : String → R Alg
  | "randomS" => pure .randomS
  | "cube3D" => pure .cube3D
  | "ico" => pure .ico
  | "randomQ" => pure .randomQ
  | "cube4D" => pure .cube4D
  | "fulldiv" => pure .fulldiv
  | "zero3D" => pure .zero3D
  | "zero4D" => pure .zero4D
  | s => throw s!"unknown algorithm {s}"

def algStr : Alg → String
  | .randomS => "randomS" | .cube3D => "cube3D" | .ico => "ico" | .randomQ => "randomQ"
  | .cube4D => "cube4D" | .fulldiv => "fulldiv" | .zero3D => "zero3D" | .zero4D => "zero4D"

def clsStr : Cls → String
  | .abstractV => "AbstractVoronoi" | .rotobj => "RotobjVoronoi" | .half => "HalfRotobjVoronoi"
  | .mikro => "MikroVoronoi"

def methOfStr : String → R Meth
  | "_calculate_N_N_array" => pure .calcNN
  | "get_voronoi_adjacency" => pure .adjacency
  | "get_center_distances" => pure .centerDistances
  | "get_cell_borders" => pure .cellBorders
  | "get_voronoi_volumes" => pure .volumes
  | s => throw s!"unknown method {s}"

def asScan (j : Json) : R Scan := do
  let z ← asBool (← getField j "zero")
  let a ← asOpt (fun x => do algOfStr (← asStr x)) (← getField j "algo")
  let n ← asOpt asNat (← getField j "num")
  pure ⟨z, a, n⟩

def shapeJ : Shape → Json
  | .vec n => Json.arr #[natJ n]
  | .mat r c => Json.arr #[natJ r, natJ c]

def outJ (r : M Shape) : Json :=
  match r with
  | .ok s => Json.mkObj [("ok", shapeJ s)]
  | .error e => Json.mkObj [("err", Json.str (errName e))]

def optField (j : Json) (k : String) : Option Json :=
  match j.getObjVal? k with
  | .ok .null => none
  | .ok v => some v
  | .error _ => none

def codeOf (j : Json) : R Code :=
  match optField j "code" with
  | none => pure current
  | some v => do
    let s ← asStr v
    if s = "current" then pure current else if s = "pinned" then pure pinned else throw s!"unknown code {s}"

def getterName : Getter → String
  | .array => "get_full_grid_as_array" | .volumes => "get_total_volumes" | .adjacency => "get_full_adjacency"
  | .borders => "get_full_borders" | .distances => "get_full_distances"

/-- ops:
 `fullgrid` {b, o: scan, radii: [rat], cartesian, qhull_ok?: bool, closed?: [nat], hull_fails?: [nat], code?} ↦
      {ctor: "ok"|<error>, n_b, n_o, b_cell, o_cell, getters: {<name>: {ok: shape}|{err: name}}};
      without `qhull_ok`/`closed` the model's default assumption about the geometry library is used;
 `resolve` {role4, scan} ↦ [alg, N];
 `cell` {dim, alg, n, meth, only_upper?: bool} ↦ {cls, out};
 `radial` {radii} ↦ {increments: [rat]|err, between: [rat]|err}. -/
def handle (op : String) (j : Json) : R Json := do
  match op with
  | "fullgrid" =>
    let b ← asScan (← getField j "b")
    let o ← asScan (← getField j "o")
    let radii ← asList asRat (← getField j "radii")
    let cart ← asBool (← getField j "cartesian")
    let code ← codeOf j
    let spec : Spec := ⟨b, o, radii, cart⟩
    let nOguess : Nat := match resolveName false o with | .ok (_, n) => n | .error _ => 0
    let dflt := defaultExt nOguess
    let qh ← match optField j "qhull_ok" with
      | none => pure dflt.qhullOk
      | some v => asBool v
    let closed ← match optField j "closed" with
      | none => pure dflt.closed
      | some v => asList asNat v
    let hf ← match optField j "hull_fails" with
      | none => pure dflt.hullFails
      | some v => asList asNat v
    let ext : Ext := ⟨qh, closed, hf⟩
    match mkFullGrid spec ext with
    | .error e => pure (Json.mkObj [("ctor", Json.str (errName e))])
    | .ok fg =>
      let gs := [Getter.array, .volumes, .adjacency, .borders, .distances]
      pure (Json.mkObj [
        ("ctor", Json.str "ok"),
        ("n_b", natJ fg.b.getN), ("n_o", natJ fg.pos.o.getN), ("n_t", natJ fg.pos.nT),
        ("b_cell", Json.str (clsStr fg.b.cell.cls)), ("o_cell", Json.str (clsStr fg.pos.o.cell.cls)),
        ("getters", Json.mkObj (gs.map fun g => (getterName g, outJ (getter code fg g))))])
  | "resolve" =>
    let role4 ← asBool (← getField j "role4")
    let s ← asScan (← getField j "scan")
    match resolveName role4 s with
    | .ok (a, n) => pure (Json.arr #[Json.str (algStr a), natJ n])
    | .error e => throw (errName e)
  | "cell" =>
    let dim ← asNat (← getField j "dim")
    let alg ← algOfStr (← asStr (← getField j "alg"))
    let n ← asNat (← getField j "n")
    let m ← methOfStr (← asStr (← getField j "meth"))
    let code ← codeOf j
    let ou ← match optField j "only_upper" with
      | none => pure none
      | some v => do pure (some (← asBool v))
    let g ← match (if dim = 3 then create3D alg n else create4D alg n) with
      | .ok g => pure g
      | .error e => throw (errName e)
    pure (Json.mkObj [("cls", Json.str (clsStr g.cell.cls)), ("n", natJ g.getN),
      ("out", outJ (g.fwd code m { onlyUpper := ou }))])
  | "radial" =>
    let radii ← asList asRat (← getField j "radii")
    let f : M (List Rat) → Json := fun r => match r with
      | .ok l => Json.mkObj [("ok", listJ ratJ l)]
      | .error e => Json.mkObj [("err", Json.str (errName e))]
    pure (Json.mkObj [("increments", f (getIncrements radii)), ("between", f (getBetweenRadii radii))])
  | _ => throw s!"unknown op {op}"

end Molgri.Drv.C19
