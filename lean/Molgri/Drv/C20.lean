import Molgri.Drv.Util
import Molgri.Model.Xvg
import Molgri.Model.GridFiles
open Lean Molgri.Drv

namespace Molgri.Drv.C20
open Molgri.Xvg

def strJ (l : List Char) : Json := Json.str (String.ofList l)
def asChars (j : Json) : R (List Char) := do pure (← asStr j).toList

def tableJ (t : Table) : Json :=
  Json.mkObj [("kind", Json.str "xvg"), ("names", listJ strJ t.names), ("lead", natJ t.lead),
              ("rows", listJ (listJ (optJ strJ)) t.rows)]

def csvTableJ (t : CsvTable) : Json :=
  Json.mkObj [("kind", Json.str "csv"), ("names", listJ strJ t.names), ("index", listJ strJ t.index),
              ("rows", listJ (listJ strJ) t.rows)]

/-- a result that may itself be a Python exception, kept inside an `ok` answer -/
def exceptJ {α} (f : α → Json) : Except String α → Json
  | .ok a => Json.mkObj [("ok", f a)]
  | .error e => Json.mkObj [("err", Json.str e)]

def saveOf (m : String) (p : List Char) : Option GridFiles.Save :=
  match m with
  | "save_full_grid" => some (.fullGrid p)
  | "save_volumes" => some (.volumes p)
  | "save_borders_array" => some (.borders p)
  | "save_distances_array" => some (.distances p)
  | "save_adjacency_array" => some (.adjacency p)
  | _ => none

/-- the five getters are represented by the numbers 0..4 -/
def gridIds : GridFiles.Grid Nat Nat :=
  { fullGrid := 0, volumes := 1, borders := 2, distances := 3, adjacency := 4 }

def npLoadedJ : GridFiles.NpLoaded Nat Nat → Json
  | .array a => Json.mkObj [("array", natJ a)]
  | .npzFile s => Json.mkObj [("npzfile", natJ s)]

/-- run a history of writer / reader calls; one answer per reader call -/
def gridRun : GridFiles.FS Nat Nat → List (String × List Char) → List Json → R (List Json)
  | _, [], acc => pure acc.reverse
  | fs, (m, p) :: rest, acc =>
    match saveOf m p with
    | some op => gridRun (GridFiles.write gridIds fs op) rest acc
    | none =>
      match m with
      | "load_full_grid" | "load_volumes" => gridRun fs rest (exceptJ npLoadedJ (GridFiles.npLoad fs p) :: acc)
      | "load_borders_array" | "load_distances_array" | "load_adjacency_array" =>
        gridRun fs rest (exceptJ (fun s => Json.mkObj [("sparse", natJ s)]) (GridFiles.npzLoad fs p) :: acc)
      | _ => throw s!"unknown method {m}"

/-- ops:
  `energy`   {path, lines:[str], col: str|null} ↦ table (+ "col": result of load_single_energy_column)
  `names`    {lines} ↦ column names
  `csvwrite` {names:[str], rows:[[str]]} ↦ lines of the csv file
  `grid`     {ops:[[method, path]]} ↦ one answer per load call -/
def handle (op : String) (j : Json) : R Json := do
  match op with
  | "energy" =>
    let path ← asChars (← getField j "path")
    let lines ← asList asChars (← getField j "lines")
    let col ← asOpt asChars (← getField j "col")
    match loadEnergy path lines with
    | .error e => throw e
    | .ok (.xvg t) =>
      let c : Json := match col with
        | none => Json.null
        | some name => exceptJ (listJ (optJ strJ)) (column t name)
      pure ((tableJ t).setObjVal! "col" c)
    | .ok (.csv t) => pure (csvTableJ t)
  | "names" =>
    let lines ← asList asChars (← getField j "lines")
    match columnNames lines with
    | .error e => throw e
    | .ok ns => pure (listJ strJ ns)
  | "csvwrite" =>
    let names ← asList asChars (← getField j "names")
    let rows ← asList (asList asChars) (← getField j "rows")
    pure (listJ strJ (csvWrite names rows))
  | "grid" =>
    let ops ← asList (fun o => do
      let a ← asArr o
      match a with
      | [m, p] => pure ((← asStr m), (← asChars p))
      | _ => throw "bad grid op") (← getField j "ops")
    let outs ← gridRun [] ops []
    pure (Json.arr outs.toArray)
  | _ => throw s!"unknown op {op}"

end Molgri.Drv.C20
