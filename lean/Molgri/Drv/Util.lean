/-
Line-protocol helpers for the driver.  Only `Lean.Data.Json` (core toolchain) is imported; no Mathlib.
Rationals travel as strings "num/den" (exact images of the Python floats) or as JSON integers.
-/
import Lean.Data.Json
open Lean

namespace Molgri.Drv

abbrev R := Except String

def getField (j : Json) (k : String) : R Json :=
  match j.getObjVal? k with
  | .ok v => pure v
  | .error _ => throw s!"missing field {k}"

def asNat (j : Json) : R Nat :=
  match j.getNat? with
  | .ok v => pure v
  | .error e => throw e

def asInt (j : Json) : R Int :=
  match j.getInt? with
  | .ok v => pure v
  | .error e => throw e

def asBool (j : Json) : R Bool :=
  match j.getBool? with
  | .ok v => pure v
  | .error e => throw e

def asStr (j : Json) : R String :=
  match j.getStr? with
  | .ok v => pure v
  | .error e => throw e

def asArr (j : Json) : R (List Json) :=
  match j.getArr? with
  | .ok v => pure v.toList
  | .error e => throw e

def asList {α} (f : Json → R α) (j : Json) : R (List α) := do
  (← asArr j).mapM f

/-- "num/den", "num" or a JSON integer. -/
def asRat (j : Json) : R Rat :=
  match j with
  | .str s =>
    match s.splitOn "/" with
    | [a] => match a.toInt? with
      | some n => pure (n : Rat)
      | none => throw s!"bad rational {s}"
    | [a, b] => match a.toInt?, b.toNat? with
      | some n, some d => if d = 0 then throw "zero denominator" else pure (mkRat n d)
      | _, _ => throw s!"bad rational {s}"
    | _ => throw s!"bad rational {s}"
  | _ => do let n ← asInt j; pure (n : Rat)

/-- `null` ↦ none. -/
def asOpt {α} (f : Json → R α) (j : Json) : R (Option α) :=
  match j with
  | .null => pure none
  | _ => do let v ← f j; pure (some v)

def ratJ (q : Rat) : Json := Json.str s!"{q.num}/{q.den}"
def natJ (n : Nat) : Json := Json.num (JsonNumber.fromNat n)
def intJ (n : Int) : Json := Json.num (JsonNumber.fromInt n)
def listJ {α} (f : α → Json) (l : List α) : Json := Json.arr (l.map f).toArray
def optJ {α} (f : α → Json) : Option α → Json
  | none => Json.null
  | some a => f a

/-- Float from an exact rational (used only by the Float instances of numeric models). -/
def ratToFloat (q : Rat) : Float :=
  Float.ofInt q.num / Float.ofNat q.den

def asFloat (j : Json) : R Float := do
  let q ← asRat j
  pure (ratToFloat q)

def floatJ (x : Float) : Json := Json.str (toString x)

/-- IEEE-754 bit pattern (a JSON integer) ↦ Float, exact both ways. -/
def asFloatBits (j : Json) : R Float := do
  let n ← asNat j
  pure (Float.ofBits n.toUInt64)

def floatBitsJ (x : Float) : Json := natJ x.toBits.toNat

/-- Handle one protocol line: {"op": ..., ...} ↦ {"ok": value} | {"err": name}. -/
def handleLine (handle : String → Json → R Json) (line : String) : String :=
  let r : R Json := do
    let j ← match Json.parse line with
      | .ok j => pure j
      | .error e => throw s!"parse: {e}"
    let op ← asStr (← getField j "op")
    handle op j
  match r with
  | .ok v => (Json.mkObj [("ok", v)]).compress
  | .error e => (Json.mkObj [("err", Json.str e)]).compress

partial def loop (handle : String → Json → R Json) (h : IO.FS.Stream) (out : IO.FS.Stream) : IO Unit := do
  let line ← h.getLine
  if line.isEmpty then return ()
  let t := line.trimAscii.toString
  if t.isEmpty then loop handle h out else
  out.putStrLn (handleLine handle t)
  loop handle h out

/-- `main` of every per-property driver: one JSON object per stdin line, one JSON line out. -/
def mainLoop (handle : String → Json → R Json) : IO Unit := do
  let out ← IO.getStdout
  loop handle (← IO.getStdin) out
  out.flush

end Molgri.Drv
