/-
Helper lemmas for C11 (frame assignment).  Property theorems are in `Molgri/Props/C11.lean`.
-/
import Molgri.Model.Assign
import Mathlib.Tactic.Ring
import Mathlib.Tactic.Linarith
import Mathlib.Tactic.FieldSimp
import Mathlib.Tactic.LinearCombination
import Mathlib.Algebra.Order.Field.Basic
import Mathlib.Data.Rat.Defs
import Mathlib.Algebra.Order.Field.Rat
import Mathlib.Data.List.Nodup

namespace Molgri.Assign

/-! ### first minimum -/

/-- `i` is the index of the first minimum of `xs` (the meaning of `np.argmin`). -/
def IsFirstMin (xs : List Rat) (i : Nat) : Prop :=
  ∃ v, xs[i]? = some v ∧ (∀ (j : Nat) y, xs[j]? = some y → v ≤ y) ∧ (∀ (j : Nat) y, j < i → xs[j]? = some y → v < y)

theorem argminPair_spec (x : Rat) (xs : List Rat) :
    (x :: xs)[(argminPair x xs).1]? = some (argminPair x xs).2 ∧
    (∀ (j : Nat) y, (x :: xs)[j]? = some y → (argminPair x xs).2 ≤ y) ∧
    (∀ (j : Nat) y, j < (argminPair x xs).1 → (x :: xs)[j]? = some y → (argminPair x xs).2 < y) := by
  induction xs generalizing x with
  | nil =>
    refine ⟨by simp [argminPair], ?_, ?_⟩
    · intro j y h
      cases j with
      | zero => simp at h; simp [argminPair, h]
      | succ j => simp at h
    · intro j y h; simp [argminPair] at h
  | cons y ys ih =>
    obtain ⟨h1, h2, h3⟩ := ih y
    simp only [argminPair]
    split
    · rename_i hlt
      refine ⟨by simpa using h1, ?_, ?_⟩
      · intro j z hz
        cases j with
        | zero => simp at hz; subst hz; exact le_of_lt hlt
        | succ j => exact h2 j z (by simpa using hz)
      · intro j z hj hz
        cases j with
        | zero => simp at hz; subst hz; exact hlt
        | succ j => exact h3 j z (by omega) (by simpa using hz)
    · rename_i hnlt
      have hle : x ≤ (argminPair y ys).2 := not_lt.mp hnlt
      refine ⟨by simp, ?_, ?_⟩
      · intro j z hz
        cases j with
        | zero => simp at hz; subst hz; exact le_refl _
        | succ j => exact le_trans hle (h2 j z (by simpa using hz))
      · intro j z hj hz; omega

theorem argminIdx_isFirstMin (xs : List Rat) (h : xs ≠ []) : IsFirstMin xs (argminIdx xs) := by
  cases xs with
  | nil => exact absurd rfl h
  | cons x xs =>
    obtain ⟨h1, h2, h3⟩ := argminPair_spec x xs
    exact ⟨_, h1, h2, h3⟩

theorem isFirstMin_unique {xs : List Rat} {i k : Nat} (hi : IsFirstMin xs i) (hk : IsFirstMin xs k) : i = k := by
  obtain ⟨v, hv, hvmin, hvfirst⟩ := hi
  obtain ⟨w, hw, hwmin, hwfirst⟩ := hk
  rcases Nat.lt_trichotomy i k with h | h | h
  · have := hwfirst i v h hv
    have := hvmin k w hw
    linarith
  · exact h
  · have := hvfirst k w h hw
    have := hwmin i v hv
    linarith

theorem argminIdx_eq_iff (xs : List Rat) (h : xs ≠ []) (i : Nat) : argminIdx xs = i ↔ IsFirstMin xs i :=
  ⟨fun e => e ▸ argminIdx_isFirstMin xs h, fun hi => isFirstMin_unique (argminIdx_isFirstMin xs h) hi⟩

theorem argminIdx_lt_length (xs : List Rat) (h : xs ≠ []) : argminIdx xs < xs.length := by
  obtain ⟨v, hv, _⟩ := argminIdx_isFirstMin xs h
  exact (List.getElem?_eq_some_iff.mp hv).1

/-- Two score functions that order the elements of a list in the same way select the same index. -/
theorem isFirstMin_map_congr {α} (L : List α) (f g : α → Rat)
    (hord : ∀ a ∈ L, ∀ b ∈ L, (f a < f b ↔ g a < g b)) (i : Nat) :
    IsFirstMin (L.map f) i → IsFirstMin (L.map g) i := by
  rintro ⟨v, hv, hmin, hfirst⟩
  rw [List.getElem?_map] at hv
  cases ha : L[i]? with
  | none => simp [ha] at hv
  | some a =>
    simp [ha] at hv
    subst hv
    have haL : a ∈ L := List.mem_of_getElem? ha
    refine ⟨g a, by simp [List.getElem?_map, ha], ?_, ?_⟩
    · intro j y hy
      rw [List.getElem?_map] at hy
      cases hb : L[j]? with
      | none => simp [hb] at hy
      | some b =>
        simp [hb] at hy; subst hy
        have hbL : b ∈ L := List.mem_of_getElem? hb
        have := hmin j (f b) (by simp [List.getElem?_map, hb])
        by_contra hc
        have : f b < f a := (hord b hbL a haL).mpr (not_le.mp hc)
        linarith
    · intro j y hj hy
      rw [List.getElem?_map] at hy
      cases hb : L[j]? with
      | none => simp [hb] at hy
      | some b =>
        simp [hb] at hy; subst hy
        have hbL : b ∈ L := List.mem_of_getElem? hb
        exact (hord a haL b hbL).mp (hfirst j (f b) hj (by simp [List.getElem?_map, hb]))

theorem argminIdx_map_congr {α} (L : List α) (f g : α → Rat)
    (hord : ∀ a ∈ L, ∀ b ∈ L, (f a < f b ↔ g a < g b)) :
    argminIdx (L.map f) = argminIdx (L.map g) := by
  cases L with
  | nil => rfl
  | cons a L =>
    have hne : ∀ h : α → Rat, (a :: L).map h ≠ [] := by intro h; simp
    rw [argminIdx_eq_iff _ (hne f)]
    exact isFirstMin_map_congr _ g f (fun a ha b hb => (hord a ha b hb).symm) _ (argminIdx_isFirstMin _ (hne g))

theorem argmaxIdx_map {α} (L : List α) (f : α → Rat) : argmaxIdx (L.map f) = argminIdx (L.map fun a => -f a) := by
  unfold argmaxIdx; rw [List.map_map]; rfl

/-- `argmax` is invariant under order-preserving changes of the score. -/
theorem argmaxIdx_map_congr {α} (L : List α) (f g : α → Rat)
    (hord : ∀ a ∈ L, ∀ b ∈ L, (f a < f b ↔ g a < g b)) :
    argmaxIdx (L.map f) = argmaxIdx (L.map g) := by
  rw [argmaxIdx_map, argmaxIdx_map]
  apply argminIdx_map_congr
  intro a ha b hb
  constructor <;> intro h
  · have := (hord b hb a ha).mp (by linarith); linarith
  · have := (hord b hb a ha).mpr (by linarith); linarith

/-- `argmin f = argmax g` when `f` and `g` order the elements oppositely. -/
theorem argminIdx_eq_argmaxIdx {α} (L : List α) (f g : α → Rat)
    (hord : ∀ a ∈ L, ∀ b ∈ L, (f a < f b ↔ g b < g a)) :
    argminIdx (L.map f) = argmaxIdx (L.map g) := by
  rw [argmaxIdx_map]
  apply argminIdx_map_congr
  intro a ha b hb
  rw [hord a ha b hb]
  constructor <;> intro h <;> linarith

/-! ### radial rule -/

theorem absR_le_iff {a b d : Rat} (h : a < b) : absR (a - d) ≤ absR (b - d) ↔ d ≤ (a + b) / 2 := by
  unfold absR
  split <;> split <;> constructor <;> intro h' <;> linarith

theorem absR_lt_iff {a b d : Rat} (h : a < b) : absR (b - d) < absR (a - d) ↔ (a + b) / 2 < d := by
  unfold absR
  split <;> split <;> constructor <;> intro h' <;> linarith

theorem pairwise_getElem? {t : List Rat} (hs : t.Pairwise (· < ·)) {i j : Nat} {a b : Rat} (hij : i < j)
    (ha : t[i]? = some a) (hb : t[j]? = some b) : a < b := by
  obtain ⟨hi, rfl⟩ := List.getElem?_eq_some_iff.mp ha
  obtain ⟨hj, rfl⟩ := List.getElem?_eq_some_iff.mp hb
  exact List.pairwise_iff_getElem.mp hs i j hi hj hij

/-- The first minimum of `|t_j − d|` over strictly increasing radii is the shell between the two midpoints. -/
theorem isFirstMin_radial (t : List Rat) (hs : t.Pairwise (· < ·)) (d : Rat) (k : Nat) (c : Rat) (hc : t[k]? = some c) :
    IsFirstMin (t.map fun r => absR (r - d)) k ↔
      (∀ a, 1 ≤ k → t[k - 1]? = some a → (a + c) / 2 < d) ∧ (∀ b, t[k + 1]? = some b → d ≤ (c + b) / 2) := by
  constructor
  · rintro ⟨v, hv, hmin, hfirst⟩
    rw [List.getElem?_map, hc] at hv
    simp at hv; subst hv
    constructor
    · intro a hk ha
      have hac : a < c := pairwise_getElem? hs (by omega) ha hc
      have := hfirst (k - 1) (absR (a - d)) (by omega) (by simp [List.getElem?_map, ha])
      exact (absR_lt_iff hac).mp this
    · intro b hb
      have hcb : c < b := pairwise_getElem? hs (by omega) hc hb
      have := hmin (k + 1) (absR (b - d)) (by simp [List.getElem?_map, hb])
      exact (absR_le_iff hcb).mp this
  · rintro ⟨hlo, hup⟩
    have hkl : k < t.length := (List.getElem?_eq_some_iff.mp hc).1
    have hmain : ∀ (j : Nat) y, t[j]? = some y → absR (c - d) ≤ absR (y - d) ∧ (j < k → absR (c - d) < absR (y - d)) := by
      intro j y hy
      have hjl : j < t.length := (List.getElem?_eq_some_iff.mp hy).1
      rcases Nat.lt_trichotomy j k with hjk | hjk | hjk
      · -- j < k
        have hk1 : k - 1 < t.length := by omega
        have ha : t[k - 1]? = some t[k - 1] := List.getElem?_eq_getElem hk1
        have h1 := hlo _ (by omega) ha
        have hyc : y < c := pairwise_getElem? hs hjk hy hc
        have hya : y ≤ t[k - 1] := by
          rcases Nat.lt_or_ge j (k - 1) with h | h
          · exact le_of_lt (pairwise_getElem? hs h hy ha)
          · have : j = k - 1 := by omega
            subst this; rw [ha] at hy; simp at hy; exact le_of_eq hy.symm
        have hlt : absR (c - d) < absR (y - d) := (absR_lt_iff hyc).mpr (by linarith)
        exact ⟨le_of_lt hlt, fun _ => hlt⟩
      · subst hjk; rw [hc] at hy; simp at hy; subst hy
        exact ⟨le_refl _, fun h => absurd h (lt_irrefl _)⟩
      · -- k < j
        have hk1 : k + 1 < t.length := by omega
        have hb : t[k + 1]? = some t[k + 1] := List.getElem?_eq_getElem hk1
        have h1 := hup _ hb
        have hcy : c < y := pairwise_getElem? hs hjk hc hy
        have hby : t[k + 1] ≤ y := by
          rcases Nat.lt_or_ge (k + 1) j with h | h
          · exact le_of_lt (pairwise_getElem? hs h hb hy)
          · have : j = k + 1 := by omega
            subst this; rw [hb] at hy; simp at hy; exact le_of_eq hy
        exact ⟨(absR_le_iff hcy).mpr (by linarith), fun h => by omega⟩
    refine ⟨absR (c - d), by simp [List.getElem?_map, hc], ?_, ?_⟩
    · intro j y hy
      rw [List.getElem?_map] at hy
      cases hb : t[j]? with
      | none => simp [hb] at hy
      | some b => simp [hb] at hy; subst hy; exact (hmain j b hb).1
    · intro j y hj hy
      rw [List.getElem?_map] at hy
      cases hb : t[j]? with
      | none => simp [hb] at hy
      | some b => simp [hb] at hy; subst hy; exact (hmain j b hb).2 hj

theorem exists_init_of_two_le (t : List Rat) (hn : 2 ≤ t.length) :
    ∃ init prev last, t = init ++ [prev, last] := by
  cases h : t.reverse with
  | nil => simp at h; subst h; simp at hn
  | cons last r1 =>
    cases r1 with
    | nil =>
      have : t.length = 1 := by rw [← List.length_reverse, h]; rfl
      omega
    | cons prev rest =>
      refine ⟨rest.reverse, prev, last, ?_⟩
      have := congrArg List.reverse h
      simpa using this

theorem tAssign_false_eq (init : List Rat) (prev last d : Rat) :
    tAssign (init ++ [prev, last]) d false =
      .ok (if d > last + (1 / 2) * (last - prev) then none
           else some (argminIdx ((init ++ [prev, last]).map fun r => absR (r - d)))) := by
  unfold tAssign
  have hne : init ++ [prev, last] ≠ [] := by simp
  split
  · rename_i h; exact absurd h hne
  · simp only [Bool.false_eq_true, if_false, List.reverse_append, List.reverse_cons, List.reverse_nil,
      List.nil_append, List.cons_append]
    split <;> rfl

theorem tAssign_true_eq (t : List Rat) (hne : t ≠ []) (d : Rat) :
    tAssign t d true = .ok (some (argminIdx (t.map fun r => absR (r - d)))) := by
  cases t with
  | nil => exact absurd rfl hne
  | cons a r => simp [tAssign]; rfl

/-- Upper boundary of shell `k` as the property states it: the midpoint to the next radius; for the last shell the
last radius plus half the last increment. -/
def shellUpper (t : List Rat) (k : Nat) : Rat :=
  if k + 1 < t.length then (t.getD k 0 + t.getD (k + 1) 0) / 2
  else t.getD k 0 + (t.getD k 0 - t.getD (k - 1) 0) / 2

theorem getD_of_lt (t : List Rat) {k : Nat} (h : k < t.length) : t.getD k 0 = t[k] := by
  simp [List.getD_eq_getElem?_getD, h]

theorem radial_core (t : List Rat) (hs : t.Pairwise (· < ·)) (d : Rat) (k : Nat) (hk : k < t.length) :
    IsFirstMin (t.map fun r => absR (r - d)) k ↔
      (k = 0 ∨ shellUpper t (k - 1) < d) ∧ (k + 1 = t.length ∨ d ≤ shellUpper t k) := by
  rw [isFirstMin_radial t hs d k t[k] (List.getElem?_eq_getElem hk)]
  constructor
  · rintro ⟨hlo, hup⟩
    constructor
    · rcases Nat.eq_zero_or_pos k with h0 | h0
      · exact Or.inl h0
      · right
        have hk1 : k - 1 < t.length := by omega
        have := hlo t[k - 1] h0 (List.getElem?_eq_getElem hk1)
        unfold shellUpper
        rw [if_pos (by omega), getD_of_lt t hk1, show k - 1 + 1 = k by omega, getD_of_lt t hk]
        exact this
    · rcases Nat.lt_or_ge (k + 1) t.length with h1 | h1
      · right
        have := hup t[k + 1] (List.getElem?_eq_getElem h1)
        unfold shellUpper
        rw [if_pos h1, getD_of_lt t hk, getD_of_lt t h1]
        exact this
      · left; omega
  · rintro ⟨hlo, hup⟩
    constructor
    · intro a h1 ha
      rcases hlo with h0 | hlo
      · omega
      · have hk1 : k - 1 < t.length := by omega
        unfold shellUpper at hlo
        rw [if_pos (by omega), getD_of_lt t hk1, show k - 1 + 1 = k by omega, getD_of_lt t hk] at hlo
        rw [List.getElem?_eq_getElem hk1] at ha
        simp at ha; subst ha; exact hlo
    · intro b hb
      have h1 : k + 1 < t.length := (List.getElem?_eq_some_iff.mp hb).1
      rcases hup with h0 | hup
      · omega
      · unfold shellUpper at hup
        rw [if_pos h1, getD_of_lt t hk, getD_of_lt t h1] at hup
        rw [List.getElem?_eq_getElem h1] at hb
        simp at hb; subst hb; exact hup

theorem shellUpper_last (init : List Rat) (prev last : Rat) :
    shellUpper (init ++ [prev, last]) (init.length + 1) = last + (1 / 2) * (last - prev) := by
  unfold shellUpper
  rw [if_neg (by simp)]
  have h1 : (init ++ [prev, last]).getD (init.length + 1) 0 = last := by
    simp [List.getD_eq_getElem?_getD]
  have h2 : (init ++ [prev, last]).getD (init.length + 1 - 1) 0 = prev := by
    simp [List.getD_eq_getElem?_getD]
  rw [h1, h2]; ring

theorem shellUpper_le_last (t : List Rat) (hs : t.Pairwise (· < ·)) (hn : 2 ≤ t.length) (k : Nat) (hk : k < t.length) :
    shellUpper t k ≤ shellUpper t (t.length - 1) := by
  rcases Nat.lt_or_ge (k + 1) t.length with h1 | h1
  · have hl : t.length - 1 < t.length := by omega
    have hl2 : t.length - 1 - 1 < t.length := by omega
    have e1 : shellUpper t k = (t[k] + t[k + 1]) / 2 := by
      unfold shellUpper; rw [if_pos h1, getD_of_lt t hk, getD_of_lt t h1]
    have e2 : shellUpper t (t.length - 1) = t[t.length - 1] + (t[t.length - 1] - t[t.length - 1 - 1]) / 2 := by
      unfold shellUpper; rw [if_neg (by omega), getD_of_lt t hl, getD_of_lt t hl2]
    rw [e1, e2]
    have a1 : t[k] < t[k + 1] := List.pairwise_iff_getElem.mp hs k (k + 1) hk h1 (by omega)
    have a2 : t[k + 1] ≤ t[t.length - 1] := by
      rcases Nat.lt_or_ge (k + 1) (t.length - 1) with h | h
      · exact le_of_lt (List.pairwise_iff_getElem.mp hs (k + 1) (t.length - 1) h1 hl h)
      · have : k + 1 = t.length - 1 := by omega
        simp [this]
    have a3 : t[t.length - 1 - 1] < t[t.length - 1] :=
      List.pairwise_iff_getElem.mp hs _ _ hl2 hl (by omega)
    linarith
  · have : k = t.length - 1 := by omega
    rw [this]

/-! ### between radii (translations.py) -/

/-- consecutive differences `t[k+1] - t[k]` -/
def diffs (t : List Rat) : List Rat := List.zipWith (fun start stop => stop - start) t (t.drop 1)

theorem diffs_length (t : List Rat) : (diffs t).length = t.length - 1 := by
  unfold diffs; simp

theorem diffs_getElem (t : List Rat) (k : Nat) (h : k < (diffs t).length) :
    (diffs t)[k] = t[k + 1]'(by rw [diffs_length] at h; omega) - t[k]'(by rw [diffs_length] at h; omega) := by
  simp only [diffs, List.getElem_zipWith, List.getElem_drop]
  congr 2; omega

theorem increments_eq (a : Rat) (rest : List Rat) : increments (a :: rest) = a :: diffs (a :: rest) := by
  simp [increments, diffs]

/-! ### algebra: chord / dot, trace identity, determinants -/

theorem sqDist_expand (o u : V3) : sqDist o u = V3.normSq o + V3.normSq u - 2 * V3.dot o u := by
  simp only [sqDist, V3.normSq, V3.dot, V3.sub]; ring

theorem trace_rotH (q p : Q4) :
    M3.trace (M3.mul (rotH q) (M3.transpose (rotH p))) = 4 * (Q4.dot q p) ^ 2 - Q4.normSq q * Q4.normSq p := by
  simp only [M3.trace, M3.mul, M3.transpose, rotH, V3.dot, Q4.dot, Q4.normSq]; ring

theorem det_rotH (q : Q4) : M3.det (rotH q) = (Q4.normSq q) ^ 3 := by
  simp only [M3.det, rotH, Q4.normSq, Q4.dot]; ring

theorem det_mul (a b : M3) : M3.det (M3.mul a b) = M3.det a * M3.det b := by
  simp only [M3.det, M3.mul, M3.transpose, V3.dot]; ring

theorem det_transpose (a : M3) : M3.det (M3.transpose a) = M3.det a := by
  simp only [M3.det, M3.transpose]; ring

theorem det_smul (c : Rat) (a : M3) : M3.det (M3.smul c a) = c ^ 3 * M3.det a := by
  simp only [M3.det, M3.smul, V3.smul]; ring

theorem trace_smul_mul (c e : Rat) (a b : M3) :
    M3.trace (M3.mul (M3.smul c a) (M3.transpose (M3.smul e b))) = c * e * M3.trace (M3.mul a (M3.transpose b)) := by
  simp only [M3.trace, M3.mul, M3.transpose, M3.smul, V3.smul, V3.dot]; ring

theorem normSq_pos {q : Q4} (h : q ≠ ⟨0, 0, 0, 0⟩) : 0 < Q4.normSq q := by
  obtain ⟨x, y, z, w⟩ := q
  simp only [Q4.normSq, Q4.dot]
  by_contra hc
  have h0 : x * x + y * y + z * z + w * w = 0 := by nlinarith [mul_self_nonneg x, mul_self_nonneg y, mul_self_nonneg z, mul_self_nonneg w]
  have hx : x = 0 := by nlinarith [mul_self_nonneg x, mul_self_nonneg y, mul_self_nonneg z, mul_self_nonneg w]
  have hy : y = 0 := by nlinarith [mul_self_nonneg x, mul_self_nonneg y, mul_self_nonneg z, mul_self_nonneg w]
  have hz : z = 0 := by nlinarith [mul_self_nonneg x, mul_self_nonneg y, mul_self_nonneg z, mul_self_nonneg w]
  have hw : w = 0 := by nlinarith [mul_self_nonneg x, mul_self_nonneg y, mul_self_nonneg z, mul_self_nonneg w]
  exact h (by rw [hx, hy, hz, hw])

/-- trace identity for the normalised matrices: `tr(R(q) R(p)ᵀ) = 4 (q·p)² / (|q|²|p|²) − 1` -/
theorem trace_rotMat (q p : Q4) (hq : Q4.normSq q ≠ 0) (hp : Q4.normSq p ≠ 0) :
    M3.trace (M3.mul (rotMat q) (M3.transpose (rotMat p))) =
      4 * (Q4.dot q p) ^ 2 / (Q4.normSq q * Q4.normSq p) - 1 := by
  unfold rotMat
  rw [trace_smul_mul, trace_rotH]
  field_simp

theorem det_rotMat (q : Q4) (hq : Q4.normSq q ≠ 0) : M3.det (rotMat q) = 1 := by
  unfold rotMat
  rw [det_smul, det_rotH]
  field_simp

theorem absR_eq_abs (x : Rat) : absR x = |x| := by
  unfold absR
  split
  · rename_i h; rw [abs_of_neg h]
  · rename_i h; rw [abs_of_nonneg (not_lt.mp h)]

/-! ### 3×3 matrix algebra -/

theorem M3.mul_assoc' (a b c : M3) : M3.mul (M3.mul a b) c = M3.mul a (M3.mul b c) := by
  simp only [M3.mul, M3.transpose, V3.dot, M3.mk.injEq, V3.mk.injEq]
  refine ⟨⟨?_, ?_, ?_⟩, ⟨?_, ?_, ?_⟩, ⟨?_, ?_, ?_⟩⟩ <;> ring

theorem M3.mul_one' (a : M3) : M3.mul a M3.one = a := by
  obtain ⟨⟨a00, a01, a02⟩, ⟨a10, a11, a12⟩, ⟨a20, a21, a22⟩⟩ := a
  simp only [M3.mul, M3.transpose, V3.dot, M3.one, M3.mk.injEq, V3.mk.injEq]
  refine ⟨⟨?_, ?_, ?_⟩, ⟨?_, ?_, ?_⟩, ⟨?_, ?_, ?_⟩⟩ <;> ring

theorem M3.transpose_mul (a b : M3) : M3.transpose (M3.mul a b) = M3.mul (M3.transpose b) (M3.transpose a) := by
  simp only [M3.mul, M3.transpose, V3.dot, M3.mk.injEq, V3.mk.injEq]
  refine ⟨⟨?_, ?_, ?_⟩, ⟨?_, ?_, ?_⟩, ⟨?_, ?_, ?_⟩⟩ <;> ring

theorem M3.transpose_transpose (a : M3) : M3.transpose (M3.transpose a) = a := rfl

theorem M3.mul_inv_self (B : M3) (h : M3.det B ≠ 0) : M3.mul B (M3.inv B) = M3.one := by
  obtain ⟨⟨b00, b01, b02⟩, ⟨b10, b11, b12⟩, ⟨b20, b21, b22⟩⟩ := B
  simp only [M3.inv]
  generalize hD : M3.det ⟨⟨b00, b01, b02⟩, ⟨b10, b11, b12⟩, ⟨b20, b21, b22⟩⟩ = D at h ⊢
  simp only [M3.det] at hD
  simp only [M3.mul, M3.transpose, V3.dot, M3.one, M3.mk.injEq, V3.mk.injEq]
  refine ⟨⟨?_, ?_, ?_⟩, ⟨?_, ?_, ?_⟩, ⟨?_, ?_, ?_⟩⟩ <;> field_simp <;> first | linear_combination hD | linear_combination (-1 : Rat) * hD | ring

theorem mul_transpose_inv (A R : M3) (hdet : M3.det A ≠ 0) :
    M3.mul (M3.transpose (M3.mul A (M3.transpose R))) (M3.inv (M3.transpose A)) = R := by
  rw [M3.transpose_mul, M3.transpose_transpose, M3.mul_assoc', M3.mul_inv_self _ (by rw [det_transpose]; exact hdet),
    M3.mul_one']

/-! ### sign fixing -/

/-- componentwise product of sign triples -/
def flip (s d : I3) : I3 := (s.1 * d.1, s.2.1 * d.2.1, s.2.2 * d.2.2)

/-- rows of `m` multiplied by the signs `s` -/
def flipRows (s : I3) (m : M3) : M3 :=
  ⟨V3.smul (s.1 : Rat) m.r0, V3.smul (s.2.1 : Rat) m.r1, V3.smul (s.2.2 : Rat) m.r2⟩

def IsPM (x : Int) : Prop := x = 1 ∨ x = -1
def IsSgn (x : Int) : Prop := x = -1 ∨ x = 0 ∨ x = 1
def SgnTriple (d : I3) : Prop := IsSgn d.1 ∧ IsSgn d.2.1 ∧ IsSgn d.2.2
/-- the sign changes between two right-handed frames with the same axes: an even number of flips -/
def EvenFlip (s : I3) : Prop := IsPM s.1 ∧ IsPM s.2.1 ∧ s.2.2 = s.1 * s.2.1

theorem fixDirections_flip (s d : I3) (hs : EvenFlip s) (hd : SgnTriple d) :
    fixDirections (flip s d) = (fixDirections d).map (flip s) := by
  obtain ⟨s1, s2, s3⟩ := s
  obtain ⟨d1, d2, d3⟩ := d
  obtain ⟨h1, h2, h3⟩ := hs
  obtain ⟨g1, g2, g3⟩ := hd
  simp only at h1 h2 h3 g1 g2 g3
  subst h3
  rcases h1 with rfl | rfl <;> rcases h2 with rfl | rfl <;>
    rcases g1 with rfl | rfl | rfl <;> rcases g2 with rfl | rfl | rfl <;> rcases g3 with rfl | rfl | rfl <;> rfl

theorem zeros_flip (s a : I3) (h1 : IsPM s.1) (h2 : IsPM s.2.1) (h3 : IsPM s.2.2) : zeros (flip s a) = zeros a := by
  obtain ⟨s1, s2, s3⟩ := s
  obtain ⟨a1, a2, a3⟩ := a
  simp only at h1 h2 h3
  rcases h1 with rfl | rfl <;> rcases h2 with rfl | rfl <;> rcases h3 with rfl | rfl <;> simp [zeros, flip]

theorem zeros_le_three (a : I3) : zeros a ≤ 3 := by
  unfold zeros; split <;> split <;> split <;> omega

theorem dirLoop_flip (s : I3) (h1 : IsPM s.1) (h2 : IsPM s.2.1) (h3 : IsPM s.2.2) (L : List I3) (c : I3) (n : Nat) :
    dirLoop (L.map (flip s)) (flip s c) n = flip s (dirLoop L c n) := by
  induction L generalizing c n with
  | nil => rfl
  | cons a L ih =>
    simp only [List.map_cons, dirLoop, zeros_flip s a h1 h2 h3]
    split
    · split <;> rfl
    · split
      · exact ih a _
      · exact ih c _

theorem dirLoop_sgn (L : List I3) (c : I3) (n : Nat) (hL : ∀ a ∈ L, SgnTriple a) (hc : SgnTriple c) :
    SgnTriple (dirLoop L c n) := by
  induction L generalizing c n with
  | nil => exact hc
  | cons a L ih =>
    have ha := hL a (by simp)
    have hL' : ∀ b ∈ L, SgnTriple b := fun b hb => hL b (by simp [hb])
    simp only [dirLoop]
    split
    · split
      · exact ha
      · exact hc
    · split
      · exact ih a _ hL' ha
      · exact ih c _ hL' hc

theorem dirLoop_zeros (L : List I3) (best : I3) (fewest : Nat)
    (hinv : zeros best = fewest ∨ (best = (0, 0, 0) ∧ fewest = 4)) :
    zeros (dirLoop L best fewest) ≤ 1 ↔ (zeros best ≤ 1 ∨ ∃ a ∈ L, zeros a ≤ 1) := by
  induction L generalizing best fewest with
  | nil => simp [dirLoop]
  | cons a L ih =>
    have h3 := zeros_le_three a
    have hb0 : zeros ((0, 0, 0) : I3) = 3 := by decide
    simp only [dirLoop, List.mem_cons, exists_eq_or_imp]
    by_cases hlt : zeros a < fewest
    · simp only [hlt, if_true]
      by_cases h0 : zeros a = 0
      · simp only [h0, if_true]
        constructor
        · intro _; right; left; omega
        · intro _; omega
      · simp only [h0, if_false]
        rw [ih a (zeros a) (Or.inl rfl)]
        constructor
        · rintro (h | h)
          · right; left; exact h
          · right; right; exact h
        · rintro (h | h | h)
          · left
            rcases hinv with hi | ⟨hi, hf⟩
            · omega
            · rw [hi, hb0] at h; omega
          · left; exact h
          · right; exact h
    · simp only [hlt, if_false]
      by_cases h0 : zeros a = 0
      · simp only [h0, if_true]
        rcases hinv with hi | ⟨hi, hf⟩
        · constructor
          · intro h; left; exact h
          · intro _; omega
        · omega
      · simp only [h0, if_false]
        rw [ih best fewest hinv]
        constructor
        · rintro (h | h)
          · left; exact h
          · right; right; exact h
        · rintro (h | h | h)
          · left; exact h
          · left
            rcases hinv with hi | ⟨hi, hf⟩
            · omega
            · omega
          · right; exact h

theorem evenFlip_third {s : I3} (hs : EvenFlip s) : IsPM s.2.2 := by
  obtain ⟨s1, s2, s3⟩ := s
  obtain ⟨h1, h2, h3⟩ := hs
  simp only at h1 h2 h3
  subst h3
  rcases h1 with rfl | rfl <;> rcases h2 with rfl | rfl <;> simp [IsPM]

theorem positiveDirections_flip (s : I3) (hs : EvenFlip s) (L : List I3) (hL : ∀ a ∈ L, SgnTriple a) :
    positiveDirections (L.map (flip s)) = (positiveDirections L).map (flip s) := by
  unfold positiveDirections
  have h0 : ((0, 0, 0) : I3) = flip s (0, 0, 0) := by simp [flip]
  have h1 := dirLoop_flip s hs.1 hs.2.1 (evenFlip_third hs) L (0, 0, 0) 4
  rw [← h0] at h1
  rw [h1]
  exact fixDirections_flip s _ hs (dirLoop_sgn L _ 4 hL (by simp [SgnTriple, IsSgn]))

theorem fixDirections_ok_pm (d e : I3) (hd : SgnTriple d) (h : fixDirections d = .ok e) :
    IsPM e.1 ∧ IsPM e.2.1 ∧ IsPM e.2.2 := by
  obtain ⟨d1, d2, d3⟩ := d
  obtain ⟨g1, g2, g3⟩ := hd
  simp only at g1 g2 g3
  rcases g1 with rfl | rfl | rfl <;> rcases g2 with rfl | rfl | rfl <;> rcases g3 with rfl | rfl | rfl <;>
    simp [fixDirections, zeros, tableLoop, allowedRighthanded, nMatch, pure, Except.pure] at h <;>
    (try subst h) <;> simp [IsPM]

theorem sgnRound_sgn (thr x : Rat) : IsSgn (sgnRound thr x) := by
  unfold sgnRound IsSgn; split
  · simp
  · split <;> simp

theorem sgnRound_pm (thr : Rat) (hthr : 0 ≤ thr) (s : Int) (hs : IsPM s) (x : Rat) :
    sgnRound thr ((s : Rat) * x) = s * sgnRound thr x := by
  rcases hs with rfl | rfl
  · simp
  · simp only [Int.cast_neg, Int.cast_one, neg_mul, one_mul]
    unfold sgnRound
    split <;> split <;> (try split) <;> (try split) <;> first | rfl | (exfalso; linarith)

theorem pm_cast_sq {s : Int} (h : IsPM s) : (s : Rat) * (s : Rat) = 1 := by
  rcases h with rfl | rfl <;> simp

theorem pm_cast_ne {s : Int} (h : IsPM s) : (s : Rat) ≠ 0 := by
  rcases h with rfl | rfl <;> simp

/-- with the frame's directions `s ⊙ d` and the reference's `d`, the column scaling undoes the row flips -/
theorem directionFrame_flip (M : M3) (s d : I3) (h1 : IsPM s.1) (h2 : IsPM s.2.1) (h3 : IsPM s.2.2)
    (g1 : IsPM d.1) (g2 : IsPM d.2.1) (g3 : IsPM d.2.2) :
    directionFrame (flipRows s M) (flip s d) d = M3.transpose M := by
  obtain ⟨s1, s2, s3⟩ := s
  obtain ⟨d1, d2, d3⟩ := d
  obtain ⟨⟨a00, a01, a02⟩, ⟨a10, a11, a12⟩, ⟨a20, a21, a22⟩⟩ := M
  simp only at h1 h2 h3 g1 g2 g3
  have e1 := pm_cast_sq h1; have e2 := pm_cast_sq h2; have e3 := pm_cast_sq h3
  have n1 := pm_cast_ne g1; have n2 := pm_cast_ne g2; have n3 := pm_cast_ne g3
  simp only [directionFrame, flipRows, flip, M3.transpose, V3.smul, M3.mk.injEq, V3.mk.injEq, Int.cast_mul]
  refine ⟨⟨?_, ?_, ?_⟩, ⟨?_, ?_, ?_⟩, ⟨?_, ?_, ?_⟩⟩ <;> field_simp <;>
    first | linear_combination a00 * e1 | linear_combination a01 * e1 | linear_combination a02 * e1
          | linear_combination a10 * e2 | linear_combination a11 * e2 | linear_combination a12 * e2
          | linear_combination a20 * e3 | linear_combination a21 * e3 | linear_combination a22 * e3

theorem rotationFromAxes_recovers (A R : M3) (s d : I3) (hdet : M3.det A ≠ 0)
    (h1 : IsPM s.1) (h2 : IsPM s.2.1) (h3 : IsPM s.2.2) (g1 : IsPM d.1) (g2 : IsPM d.2.1) (g3 : IsPM d.2.2) :
    rotationFromAxes (flipRows s (M3.mul A (M3.transpose R))) A (flip s d) d = R := by
  unfold rotationFromAxes
  rw [directionFrame_flip _ s d h1 h2 h3 g1 g2 g3, mul_transpose_inv A R hdet]

theorem dot_mulVec_mulVec (R : M3) (h : M3.mul (M3.transpose R) R = M3.one) (a v : V3) :
    V3.dot (M3.mulVec R a) (M3.mulVec R v) = V3.dot a v := by
  obtain ⟨⟨r00, r01, r02⟩, ⟨r10, r11, r12⟩, ⟨r20, r21, r22⟩⟩ := R
  obtain ⟨a0, a1, a2⟩ := a
  obtain ⟨v0, v1, v2⟩ := v
  simp only [M3.mul, M3.transpose, M3.one, V3.dot, M3.mk.injEq, V3.mk.injEq] at h
  obtain ⟨⟨h00, h01, h02⟩, ⟨h10, h11, h12⟩, ⟨h20, h21, h22⟩⟩ := h
  simp only [M3.mulVec, V3.dot]
  linear_combination a0 * v0 * h00 + a0 * v1 * h01 + a0 * v2 * h02 + a1 * v0 * h10 + a1 * v1 * h11 + a1 * v2 * h12
    + a2 * v0 * h20 + a2 * v1 * h21 + a2 * v2 * h22

/-- rows of `A Rᵀ` are the rotated axes `R aᵢ` -/
theorem rows_mul_transpose (A R : M3) :
    (M3.mul A (M3.transpose R)).r0 = M3.mulVec R A.r0 ∧ (M3.mul A (M3.transpose R)).r1 = M3.mulVec R A.r1 ∧
    (M3.mul A (M3.transpose R)).r2 = M3.mulVec R A.r2 := by
  simp only [M3.mul, M3.transpose, M3.mulVec, V3.dot, V3.mk.injEq]
  refine ⟨⟨?_, ?_, ?_⟩, ⟨?_, ?_, ?_⟩, ⟨?_, ?_, ?_⟩⟩ <;> ring

theorem dot_smul_left (c : Rat) (a b : V3) : V3.dot (V3.smul c a) b = c * V3.dot a b := by
  simp only [V3.dot, V3.smul]; ring

theorem sub_rigid (R : M3) (T p c : V3) :
    V3.sub (V3.add (M3.mulVec R p) T) (V3.add (M3.mulVec R c) T) = M3.mulVec R (V3.sub p c) := by
  simp only [V3.sub, V3.add, M3.mulVec, V3.dot, V3.mk.injEq]
  refine ⟨?_, ?_, ?_⟩ <;> ring

/-- Exact geometry: in a rigidly moved copy whose principal axes are `sᵢ · R aᵢ`, every atom's sign pattern is the
reference pattern times `s`. -/
theorem atomSigns_rigid (thr : Rat) (hthr : 0 ≤ thr) (A R : M3) (hR : M3.mul (M3.transpose R) R = M3.one)
    (s : I3) (h1 : IsPM s.1) (h2 : IsPM s.2.1) (h3 : IsPM s.2.2) (T com p : V3) :
    atomSigns thr (flipRows s (M3.mul A (M3.transpose R))) (V3.add (M3.mulVec R com) T) (V3.add (M3.mulVec R p) T)
      = flip s (atomSigns thr A com p) := by
  obtain ⟨e0, e1, e2⟩ := rows_mul_transpose A R
  simp only [atomSigns, flipRows, flip, sub_rigid, e0, e1, e2, dot_smul_left, dot_mulVec_mulVec R hR,
    sgnRound_pm thr hthr _ h1, sgnRound_pm thr hthr _ h2, sgnRound_pm thr hthr _ h3]

/-! ### rigid motions -/

/-- a rigid motion `p ↦ R p + T` -/
def rigid (R : M3) (T : V3) (p : V3) : V3 := V3.add (M3.mulVec R p) T

theorem wsum_rigid (R : M3) (T : V3) (ms : List Rat) (ps : List V3) (hlen : ms.length = ps.length) (acc : V3) (w : Rat) :
    (List.zipWith (fun m p => V3.smul m p) ms (ps.map (rigid R T))).foldl V3.add (V3.add (M3.mulVec R acc) (V3.smul w T))
      = V3.add (M3.mulVec R ((List.zipWith (fun m p => V3.smul m p) ms ps).foldl V3.add acc)) (V3.smul (w + ms.sum) T) := by
  induction ms generalizing ps acc w with
  | nil => simp
  | cons m ms ih =>
    cases ps with
    | nil => simp at hlen
    | cons p ps =>
      simp only [List.map_cons, List.zipWith_cons_cons, List.foldl_cons, List.sum_cons]
      have hstep : V3.add (V3.add (M3.mulVec R acc) (V3.smul w T)) (V3.smul m (rigid R T p))
          = V3.add (M3.mulVec R (V3.add acc (V3.smul m p))) (V3.smul (w + m) T) := by
        simp only [rigid, V3.add, V3.smul, M3.mulVec, V3.dot, V3.mk.injEq]
        refine ⟨?_, ?_, ?_⟩ <;> ring
      rw [hstep, ih ps (by simpa using hlen)]
      congr 2; ring

theorem centerOfMass_rigid (R : M3) (T : V3) (ms : List Rat) (ps : List V3) (hlen : ms.length = ps.length)
    (hM : ms.sum ≠ 0) :
    centerOfMass ms (ps.map (rigid R T)) = rigid R T (centerOfMass ms ps) := by
  have h := wsum_rigid R T ms ps hlen ⟨0, 0, 0⟩ 0
  have h0 : V3.add (M3.mulVec R ⟨0, 0, 0⟩) (V3.smul 0 T) = ⟨0, 0, 0⟩ := by
    simp [V3.add, V3.smul, M3.mulVec, V3.dot]
  rw [h0] at h
  unfold centerOfMass
  simp only [h]
  generalize (List.zipWith (fun m p => V3.smul m p) ms ps).foldl V3.add ⟨0, 0, 0⟩ = S
  simp only [rigid, V3.add, V3.smul, M3.mulVec, V3.dot, V3.mk.injEq, zero_add]
  refine ⟨?_, ?_, ?_⟩ <;> field_simp

/-! ### grid points are assigned to themselves -/

theorem rotMat_orthogonal (q : Q4) (hq : Q4.normSq q ≠ 0) :
    M3.mul (M3.transpose (rotMat q)) (rotMat q) = M3.one := by
  obtain ⟨x, y, z, w⟩ := q
  unfold rotMat
  generalize hN : Q4.normSq ⟨x, y, z, w⟩ = N at hq ⊢
  simp only [Q4.normSq, Q4.dot] at hN
  simp only [rotH, M3.smul, V3.smul, M3.mul, M3.transpose, V3.dot, M3.one, M3.mk.injEq, V3.mk.injEq]
  refine ⟨⟨?_, ?_, ?_⟩, ⟨?_, ?_, ?_⟩, ⟨?_, ?_, ?_⟩⟩ <;> field_simp <;> rw [← hN] <;> ring

theorem sqDist_nonneg (a b : V3) : 0 ≤ sqDist a b := by
  simp only [sqDist, V3.normSq, V3.dot, V3.sub]
  nlinarith [mul_self_nonneg (a.x - b.x), mul_self_nonneg (a.y - b.y), mul_self_nonneg (a.z - b.z)]

theorem sqDist_self (a : V3) : sqDist a a = 0 := by
  simp only [sqDist, V3.normSq, V3.dot, V3.sub]; ring

theorem eq_of_sqDist_eq_zero (a b : V3) (h : sqDist a b = 0) : a = b := by
  obtain ⟨a0, a1, a2⟩ := a
  obtain ⟨b0, b1, b2⟩ := b
  simp only [sqDist, V3.normSq, V3.dot, V3.sub] at h
  have h0 : a0 - b0 = 0 := by nlinarith [mul_self_nonneg (a0 - b0), mul_self_nonneg (a1 - b1), mul_self_nonneg (a2 - b2)]
  have h1 : a1 - b1 = 0 := by nlinarith [mul_self_nonneg (a0 - b0), mul_self_nonneg (a1 - b1), mul_self_nonneg (a2 - b2)]
  have h2 : a2 - b2 = 0 := by nlinarith [mul_self_nonneg (a0 - b0), mul_self_nonneg (a1 - b1), mul_self_nonneg (a2 - b2)]
  simp only [V3.mk.injEq]
  exact ⟨by linarith, by linarith, by linarith⟩

theorem oAssign_self (O : List V3) (hnd : O.Nodup) (j : Nat) (hj : j < O.length) : oAssign O O[j] = j := by
  unfold oAssign
  have hne : O.map (fun o => sqDist o O[j]) ≠ [] := by
    intro h; simp at h; subst h; simp at hj
  rw [argminIdx_eq_iff _ hne]
  refine ⟨0, by simp [List.getElem?_map, List.getElem?_eq_getElem hj, sqDist_self], ?_, ?_⟩
  · intro i y hy
    rw [List.getElem?_map] at hy
    cases hb : O[i]? with
    | none => simp [hb] at hy
    | some b => simp [hb] at hy; subst hy; exact sqDist_nonneg _ _
  · intro i y hij hy
    rw [List.getElem?_map] at hy
    cases hb : O[i]? with
    | none => simp [hb] at hy
    | some b =>
      simp [hb] at hy; subst hy
      obtain ⟨hi, rfl⟩ := List.getElem?_eq_some_iff.mp hb
      rcases lt_or_eq_of_le (sqDist_nonneg O[i] O[j]) with h | h
      · exact h
      · have := eq_of_sqDist_eq_zero _ _ h.symm
        have := (List.Nodup.getElem_inj_iff hnd).mp this
        omega

theorem normalise_smul (r : Rat) (hr : r ≠ 0) (o : V3) : normalise (V3.smul r o) r = o := by
  obtain ⟨x, y, z⟩ := o
  simp only [normalise, V3.smul, V3.mk.injEq]
  refine ⟨?_, ?_, ?_⟩ <;> field_simp

/-- strict Cauchy–Schwarz on unit quaternions: `(q·p)² ≤ 1`, with equality only for `p = ±q` -/
theorem dot_sq_le_one (q p : Q4) (hq : Q4.normSq q = 1) (hp : Q4.normSq p = 1) : (Q4.dot q p) ^ 2 ≤ 1 := by
  obtain ⟨a, b, c, d⟩ := q
  obtain ⟨e, f, g, h⟩ := p
  simp only [Q4.normSq, Q4.dot] at *
  nlinarith [sq_nonneg (a * f - b * e), sq_nonneg (a * g - c * e), sq_nonneg (a * h - d * e),
    sq_nonneg (b * g - c * f), sq_nonneg (b * h - d * f), sq_nonneg (c * h - d * g)]

theorem six_sq_zero (a b c d e f : Rat) (h : a ^ 2 + b ^ 2 + c ^ 2 + d ^ 2 + e ^ 2 + f ^ 2 = 0) :
    a = 0 ∧ b = 0 ∧ c = 0 ∧ d = 0 ∧ e = 0 ∧ f = 0 := by
  have ha := sq_nonneg a; have hb := sq_nonneg b; have hc := sq_nonneg c
  have hd := sq_nonneg d; have he := sq_nonneg e; have hf := sq_nonneg f
  refine ⟨?_, ?_, ?_, ?_, ?_, ?_⟩ <;> apply pow_eq_zero_iff (two_ne_zero) |>.mp <;> linarith

def Q4.neg (q : Q4) : Q4 := ⟨-q.x, -q.y, -q.z, -q.w⟩

theorem eq_or_neg_of_dot_sq_eq_one (q p : Q4) (hq : Q4.normSq q = 1) (hp : Q4.normSq p = 1)
    (h : (Q4.dot q p) ^ 2 = 1) : p = q ∨ p = Q4.neg q := by
  obtain ⟨a, b, c, d⟩ := q
  obtain ⟨e, f, g, k⟩ := p
  simp only [Q4.normSq, Q4.dot] at hq hp h
  have hL : (a * f - b * e) ^ 2 + (a * g - c * e) ^ 2 + (a * k - d * e) ^ 2 + (b * g - c * f) ^ 2
      + (b * k - d * f) ^ 2 + (c * k - d * g) ^ 2 = 0 := by
    have : (a * f - b * e) ^ 2 + (a * g - c * e) ^ 2 + (a * k - d * e) ^ 2 + (b * g - c * f) ^ 2
      + (b * k - d * f) ^ 2 + (c * k - d * g) ^ 2
      = (a * a + b * b + c * c + d * d) * (e * e + f * f + g * g + k * k) - (a * e + b * f + c * g + d * k) ^ 2 := by ring
    rw [this, hq, hp, h]; ring
  obtain ⟨m1, m2, m3, m4, m5, m6⟩ := six_sq_zero _ _ _ _ _ _ hL
  set t := a * e + b * f + c * g + d * k with ht
  have pe : e = t * a := by linear_combination (-e) * hq + (-b) * m1 + (-c) * m2 + (-d) * m3 + a * ht
  have pf : f = t * b := by linear_combination (-f) * hq + a * m1 + (-c) * m4 + (-d) * m5 + b * ht
  have pg : g = t * c := by linear_combination (-g) * hq + a * m2 + b * m4 + (-d) * m6 + c * ht
  have pk : k = t * d := by linear_combination (-k) * hq + a * m3 + b * m5 + c * m6 + d * ht
  have ht1 : t = 1 ∨ t = -1 := by
    have : (t - 1) * (t + 1) = 0 := by linear_combination h
    rcases mul_eq_zero.mp this with h1 | h1
    · left; linarith
    · right; linarith
  rcases ht1 with h1 | h1
  · left; rw [pe, pf, pg, pk, h1]; simp
  · right; rw [pe, pf, pg, pk, h1]; simp [Q4.neg]

/-! ### direction and rotation rules -/

theorem o_argmin_iff_argmax_dot (O : List V3) (u : V3) (hunit : ∀ o ∈ O, V3.normSq o = 1) :
    oAssign O u = argmaxIdx (O.map fun o => V3.dot o u) := by
  unfold oAssign
  apply argminIdx_eq_argmaxIdx
  intro a ha b hb
  rw [sqDist_expand, sqDist_expand, hunit a ha, hunit b hb]
  constructor <;> intro h <;> linarith

theorem o_cos_same_index (O : List (V3 × Rat)) (u : V3) (nu : Rat) (hnu : 0 < nu)
    (hunit : ∀ on ∈ O, V3.normSq on.1 = 1 ∧ on.2 = 1) :
    oAssignCos O u nu = oAssign (O.map Prod.fst) u := by
  unfold oAssignCos oAssign
  rw [List.map_map]
  apply argminIdx_map_congr
  intro a ha b hb
  simp only [Function.comp]
  rw [sqDist_expand, sqDist_expand, (hunit a ha).1, (hunit b hb).1, (hunit a ha).2, (hunit b hb).2, one_mul]
  constructor
  · intro h
    have : V3.dot b.1 u / nu < V3.dot a.1 u / nu := by linarith
    have := (div_lt_div_iff_of_pos_right hnu).mp this
    linarith
  · intro h
    have : V3.dot b.1 u / nu < V3.dot a.1 u / nu := (div_lt_div_iff_of_pos_right hnu).mpr (by linarith)
    linarith

theorem b_argmin_angle_iff_argmax_dot (B : List Q4) (p : Q4) (hB : B ≠ [])
    (hq : ∀ q ∈ B, Q4.normSq q ≠ 0) (hp : Q4.normSq p ≠ 0) :
    bAssign B (rotMat p) = .ok (argmaxIdx (B.map fun q => (Q4.dot q p) ^ 2 / Q4.normSq q)) := by
  unfold bAssign relMats
  have hany : (B.map fun q => M3.mul (rotMat q) (M3.transpose (rotMat p))).any (fun m => decide (M3.det m ≤ 0)) = false := by
    rw [List.any_eq_false]
    intro m hm
    obtain ⟨q, hqB, rfl⟩ := List.mem_map.mp hm
    rw [det_mul, det_transpose, det_rotMat q (hq q hqB), det_rotMat p hp]
    simp
  simp only [hany, Bool.false_eq_true, if_false]
  rw [if_neg (by simpa using hB), List.map_map]
  congr 1
  apply argmaxIdx_map_congr
  intro a ha b hb
  simp only [Function.comp]
  have hpp : 0 < Q4.normSq p := lt_of_le_of_ne (by simp only [Q4.normSq, Q4.dot]; nlinarith [mul_self_nonneg p.x, mul_self_nonneg p.y, mul_self_nonneg p.z, mul_self_nonneg p.w]) (Ne.symm hp)
  have key : ∀ q ∈ B, M3.trace (M3.mul (rotMat q) (M3.transpose (rotMat p))) =
      (4 / Q4.normSq p) * ((Q4.dot q p) ^ 2 / Q4.normSq q) - 1 := by
    intro q hqB
    rw [trace_rotMat q p (hq q hqB) hp]
    have := hq q hqB
    field_simp
  rw [key a ha, key b hb]
  have hc : 0 < 4 / Q4.normSq p := by positivity
  constructor
  · intro h
    exact lt_of_mul_lt_mul_left (by linarith) (le_of_lt hc)
  · intro h
    have := mul_lt_mul_of_pos_left h hc
    linarith

theorem b_unit_argmax_absdot (B : List Q4) (p : Q4) (hunit : ∀ q ∈ B, Q4.normSq q = 1) :
    argmaxIdx (B.map fun q => (Q4.dot q p) ^ 2 / Q4.normSq q) = argmaxIdx (B.map fun q => absR (Q4.dot q p)) := by
  apply argmaxIdx_map_congr
  intro a ha b hb
  rw [hunit a ha, hunit b hb, div_one, div_one, absR_eq_abs, absR_eq_abs]
  exact sq_lt_sq

/-! ### radial rule: final forms -/

theorem betweenRadii_eq (t : List Rat) (hs : t.Pairwise (· < ·)) (hn : 2 ≤ t.length) (hpos : ∀ r ∈ t, 0 ≤ r) :
    betweenRadii t = .ok ((List.range t.length).map (shellUpper t)) := by
  cases t with
  | nil => simp at hn
  | cons a rest =>
    have hD : ∀ v ∈ diffs (a :: rest), 0 < v := by
      intro v hv
      obtain ⟨k, hk, rfl⟩ := List.getElem_of_mem hv
      rw [diffs_getElem]
      have hk' := hk; rw [diffs_length] at hk'
      have := List.pairwise_iff_getElem.mp hs k (k + 1) (by omega) (by omega) (by omega)
      linarith
    have hany : (decide ((increments (a :: rest)).headD 0 < 0) ||
        ((increments (a :: rest)).drop 1).any (fun v => decide (v ≤ 0))) = false := by
      rw [increments_eq]
      simp only [List.headD_cons, List.drop_succ_cons, List.drop_zero, Bool.or_eq_false_iff]
      refine ⟨decide_eq_false (not_lt.mpr (hpos a (by simp))), ?_⟩
      rw [List.any_eq_false]
      intro x hx
      simp only [decide_eq_true_eq, not_le]
      exact hD x hx
    unfold betweenRadii
    simp only [hany, Bool.false_eq_true, if_false]
    have hlen : (increments (a :: rest)).length > 1 := by
      rw [increments_eq]; simp [diffs_length]; simp at hn; omega
    rw [if_pos hlen, increments_eq]
    simp only [List.drop_succ_cons, List.drop_zero]
    congr 1
    set t := a :: rest with ht
    have hdl := diffs_length t
    have hne : diffs t ≠ [] := by
      intro h; rw [h] at hdl; simp at hdl; omega
    apply List.ext_getElem
    · simp [hdl]; omega
    · intro k h1 h2
      simp only [List.length_map, List.length_range] at h2
      rw [List.getElem_zipWith, List.getElem_map, List.getElem_map, List.getElem_range]
      rcases Nat.lt_or_ge (k + 1) t.length with hk | hk
      · have hkd : k < (diffs t).length := by omega
        rw [List.getElem_append_left hkd, diffs_getElem]
        unfold shellUpper
        rw [if_pos hk, getD_of_lt t h2, getD_of_lt t hk]
        ring
      · have hk' : k = (diffs t).length := by omega
        have hl : (diffs t).getLast?.getD 0 = t[k] - t[k - 1]'(by omega) := by
          rw [List.getLast?_eq_getElem?, List.getElem?_eq_getElem (by omega)]
          simp only [Option.getD_some]
          rw [diffs_getElem]
          congr 1
          · congr 1; omega
          · congr 1; omega
        rw [List.getElem_append_right (by omega)]
        simp only [hk', Nat.sub_self, List.getElem_cons_zero]
        subst hk'
        simp only [hl]
        unfold shellUpper
        rw [if_neg (by omega), getD_of_lt t h2, getD_of_lt t (by omega)]

theorem nearest_radius_iff_shell (t : List Rat) (hs : t.Pairwise (· < ·)) (hn : 2 ≤ t.length) (d : Rat) (k : Nat) :
    tAssign t d false = .ok (some k) ↔
      k < t.length ∧ (k = 0 ∨ shellUpper t (k - 1) < d) ∧ d ≤ shellUpper t k := by
  obtain ⟨init, prev, last, rfl⟩ := exists_init_of_two_le t hn
  have hlen : (init ++ [prev, last]).length - 1 = init.length + 1 := by simp
  have hne : (init ++ [prev, last]).map (fun r => absR (r - d)) ≠ [] := by simp
  rw [tAssign_false_eq, ← shellUpper_last]
  split
  · rename_i hgt
    constructor
    · intro h; simp at h
    · rintro ⟨hk, _, hup⟩
      have := shellUpper_le_last _ hs hn k hk
      rw [hlen] at this
      linarith
  · rename_i hle
    have hle' := not_lt.mp hle
    constructor
    · intro h
      have hk : argminIdx ((init ++ [prev, last]).map fun r => absR (r - d)) = k := by simpa using h
      have hkl : k < (init ++ [prev, last]).length := by
        have := argminIdx_lt_length _ hne; rw [hk] at this; simpa using this
      have := (radial_core _ hs d k hkl).mp ((argminIdx_eq_iff _ hne k).mp hk)
      refine ⟨hkl, this.1, ?_⟩
      rcases this.2 with h1 | h1
      · have : k = init.length + 1 := by simp at h1; omega
        rw [this]; exact hle'
      · exact h1
    · rintro ⟨hk, hlo, hup⟩
      have := (radial_core _ hs d k hk).mpr ⟨hlo, Or.inr hup⟩
      rw [(argminIdx_eq_iff _ hne k).mpr this]

theorem outlier_bound (t : List Rat) (hn : 2 ≤ t.length) (d : Rat) :
    tAssign t d false = .ok none ↔ shellUpper t (t.length - 1) < d := by
  obtain ⟨init, prev, last, rfl⟩ := exists_init_of_two_le t hn
  have hlen : (init ++ [prev, last]).length - 1 = init.length + 1 := by simp
  rw [tAssign_false_eq, ← shellUpper_last, hlen]
  split
  · rename_i h; simp; exact h
  · rename_i h; simp; exact not_lt.mp h

theorem nearest_radius_with_outliers (t : List Rat) (hs : t.Pairwise (· < ·)) (hne : t ≠ []) (d : Rat) (k : Nat) :
    tAssign t d true = .ok (some k) ↔
      k < t.length ∧ (k = 0 ∨ shellUpper t (k - 1) < d) ∧ (k + 1 = t.length ∨ d ≤ shellUpper t k) := by
  have hne' : t.map (fun r => absR (r - d)) ≠ [] := by simpa using hne
  rw [tAssign_true_eq t hne]
  constructor
  · intro h
    have hk : argminIdx (t.map fun r => absR (r - d)) = k := by simpa using h
    have hkl : k < t.length := by
      have := argminIdx_lt_length _ hne'; rw [hk] at this; simpa using this
    exact ⟨hkl, (radial_core _ hs d k hkl).mp ((argminIdx_eq_iff _ hne' k).mp hk)⟩
  · rintro ⟨hk, h⟩
    rw [(argminIdx_eq_iff _ hne' k).mpr ((radial_core _ hs d k hk).mpr h)]

theorem t_roundtrip_aux (t : List Rat) (hs : t.Pairwise (· < ·)) (hn : 2 ≤ t.length) (k : Nat) (hk : k < t.length) :
    (k = 0 ∨ shellUpper t (k - 1) < t[k]) ∧ t[k] ≤ shellUpper t k := by
  constructor
  · rcases Nat.eq_zero_or_pos k with h0 | h0
    · exact Or.inl h0
    · right
      have hk1 : k - 1 < t.length := by omega
      unfold shellUpper
      rw [if_pos (by omega), getD_of_lt t hk1]
      have : t.getD (k - 1 + 1) 0 = t[k] := by
        rw [getD_of_lt t (by omega)]; congr 1; omega
      rw [this]
      have := List.pairwise_iff_getElem.mp hs (k - 1) k hk1 hk (by omega)
      linarith
  · unfold shellUpper
    split
    · rename_i h1
      rw [getD_of_lt t hk, getD_of_lt t h1]
      have := List.pairwise_iff_getElem.mp hs k (k + 1) hk h1 (by omega)
      linarith
    · have hk1 : k - 1 < t.length := by omega
      rw [getD_of_lt t hk, getD_of_lt t hk1]
      have := List.pairwise_iff_getElem.mp hs (k - 1) k hk1 hk (by omega)
      linarith

theorem bAssign_self (B : List Q4) (hunit : ∀ q ∈ B, Q4.normSq q = 1)
    (hne : ∀ (a c : Nat) (ha : a < B.length) (hc : c < B.length), a ≠ c → B[a] ≠ B[c] ∧ B[a] ≠ Q4.neg B[c])
    (b : Nat) (hb : b < B.length) :
    bAssign B (rotMat B[b]) = .ok b := by
  have hBne : B ≠ [] := by intro h; subst h; simp at hb
  have hpb : Q4.normSq B[b] = 1 := hunit _ (List.getElem_mem hb)
  rw [b_argmin_angle_iff_argmax_dot B B[b] hBne (fun q hq => by rw [hunit q hq]; exact one_ne_zero)
    (by rw [hpb]; exact one_ne_zero)]
  congr 1
  rw [argmaxIdx_map]
  have hne' : B.map (fun q => -((Q4.dot q B[b]) ^ 2 / Q4.normSq q)) ≠ [] := by simpa using hBne
  rw [argminIdx_eq_iff _ hne']
  have hself : Q4.dot B[b] B[b] = 1 := hpb
  refine ⟨-1, ?_, ?_, ?_⟩
  · simp [List.getElem?_map, List.getElem?_eq_getElem hb, hself, hpb]
  · intro i y hy
    rw [List.getElem?_map] at hy
    cases hq : B[i]? with
    | none => simp [hq] at hy
    | some q =>
      simp [hq] at hy; subst hy
      have hqB : q ∈ B := List.mem_of_getElem? hq
      rw [hunit q hqB, div_one]
      have := dot_sq_le_one q B[b] (hunit q hqB) hpb
      linarith
  · intro i y hib hy
    rw [List.getElem?_map] at hy
    cases hq : B[i]? with
    | none => simp [hq] at hy
    | some q =>
      simp [hq] at hy; subst hy
      obtain ⟨hi, rfl⟩ := List.getElem?_eq_some_iff.mp hq
      have hqu := hunit _ (List.getElem_mem hi)
      rw [hqu, div_one]
      have hle := dot_sq_le_one B[i] B[b] hqu hpb
      rcases lt_or_eq_of_le hle with h | h
      · linarith
      · exfalso
        have := hne b i hb hi (by omega)
        rcases eq_or_neg_of_dot_sq_eq_one B[i] B[b] hqu hpb h with h1 | h1
        · exact this.1 h1
        · exact this.2 h1

/-! ### rotation recovery and the pseudotrajectory round trip -/

theorem refSigns_sgn (thr : Rat) (pa : M3) (com : V3) (pos : List V3) :
    ∀ a ∈ pos.map (atomSigns thr pa com), SgnTriple a := by
  intro a ha
  obtain ⟨p, _, rfl⟩ := List.mem_map.mp ha
  exact ⟨sgnRound_sgn _ _, sgnRound_sgn _ _, sgnRound_sgn _ _⟩

theorem positiveDirections_ok_pm (L : List I3) (hL : ∀ a ∈ L, SgnTriple a) (e : I3) (h : positiveDirections L = .ok e) :
    IsPM e.1 ∧ IsPM e.2.1 ∧ IsPM e.2.2 :=
  fixDirections_ok_pm _ e (dirLoop_sgn L _ 4 hL (by simp [SgnTriple, IsSgn])) h

/-- signs seen in a rigidly moved copy with axes `sᵢ R aᵢ` -/
theorem signs_rigid (thr : Rat) (hthr : 0 ≤ thr) (A R : M3) (hR : M3.mul (M3.transpose R) R = M3.one)
    (s : I3) (hs : EvenFlip s) (T : V3) (masses : List Rat) (pos : List V3)
    (hlen : masses.length = pos.length) (hM : masses.sum ≠ 0) :
    (pos.map (rigid R T)).map (atomSigns thr (flipRows s (M3.mul A (M3.transpose R)))
        (centerOfMass masses (pos.map (rigid R T))))
      = (pos.map (atomSigns thr A (centerOfMass masses pos))).map (flip s) := by
  rw [centerOfMass_rigid R T masses pos hlen hM, List.map_map, List.map_map]
  apply List.map_congr_left
  intro p _
  simp only [Function.comp, rigid]
  exact atomSigns_rigid thr hthr A R hR s hs.1 hs.2.1 (evenFlip_third hs) T _ p

theorem sign_fix_recovers (thr : Rat) (hthr : 0 ≤ thr) (m : RefMol) (refDir : I3)
    (hlen : m.masses.length = m.pos.length) (hM : m.masses.sum ≠ 0) (hdetA : M3.det m.pa ≠ 0)
    (href : refDirections thr m = .ok refDir)
    (R : M3) (hR : M3.mul (M3.transpose R) R = M3.one) (T : V3) (s : I3) (hs : EvenFlip s) :
    positiveDirections ((m.pos.map (rigid R T)).map (atomSigns thr (flipRows s (M3.mul m.pa (M3.transpose R)))
        (centerOfMass m.masses (m.pos.map (rigid R T))))) = .ok (flip s refDir) ∧
    rotationFromAxes (flipRows s (M3.mul m.pa (M3.transpose R))) m.pa (flip s refDir) refDir = R := by
  unfold refDirections at href
  simp only at href
  have hsg := refSigns_sgn thr m.pa (centerOfMass m.masses m.pos) m.pos
  obtain ⟨g1, g2, g3⟩ := positiveDirections_ok_pm _ hsg refDir href
  constructor
  · rw [signs_rigid thr hthr m.pa R hR s hs T m.masses m.pos hlen hM, positiveDirections_flip s hs _ hsg, href]
    rfl
  · exact rotationFromAxes_recovers m.pa R s refDir hdetA hs.1 hs.2.1 (evenFlip_third hs) g1 g2 g3

theorem pt_roundtrip (thr : Rat) (hthr : 0 ≤ thr) (g : Grid) (m : RefMol) (refDir : I3)
    (i j b : Nat) (hi : i < g.t.length) (hj : j < g.o.length) (hb : b < g.b.length)
    (ht : g.t.Pairwise (· < ·)) (hnt : 2 ≤ g.t.length) (hpos : ∀ r ∈ g.t, 0 < r)
    (ho : g.o.Nodup)
    (hbu : ∀ q ∈ g.b, Q4.normSq q = 1)
    (hbne : ∀ (a c : Nat) (ha : a < g.b.length) (hc : c < g.b.length), a ≠ c → g.b[a] ≠ g.b[c] ∧ g.b[a] ≠ Q4.neg g.b[c])
    (hlen : m.masses.length = m.pos.length) (hM : m.masses.sum ≠ 0) (hdetA : M3.det m.pa ≠ 0)
    (href : refDirections thr m = .ok refDir)
    (T : V3) (s : I3) (hs : EvenFlip s) (f : Frame)
    (hfpos : f.pos = m.pos.map (rigid (rotMat g.b[b]) T))
    (hcom : rigid (rotMat g.b[b]) T (centerOfMass m.masses m.pos) = V3.smul g.t[i] g.o[j])
    (hd : f.d = g.t[i])
    (hpa : f.pa = flipRows s (M3.mul m.pa (M3.transpose (rotMat g.b[b])))) :
    assignFrame thr g m refDir false true f
      = .ok ⟨some i, j, b, flip s refDir, some ((i * g.o.length + j) * g.b.length + b)⟩ := by
  have hqb : Q4.normSq g.b[b] ≠ 0 := by rw [hbu _ (List.getElem_mem hb)]; exact one_ne_zero
  have hR := rotMat_orthogonal g.b[b] hqb
  obtain ⟨hdirs, hP⟩ := sign_fix_recovers thr hthr m refDir hlen hM hdetA href (rotMat g.b[b]) hR T s hs
  have hcomf : centerOfMass m.masses f.pos = V3.smul g.t[i] g.o[j] := by
    rw [hfpos, centerOfMass_rigid _ _ _ _ hlen hM, hcom]
  have hti : 0 < g.t[i] := hpos _ (List.getElem_mem hi)
  have htA : tAssign g.t f.d false = .ok (some i) := by
    rw [hd, nearest_radius_iff_shell g.t ht hnt]
    exact ⟨hi, t_roundtrip_aux g.t ht hnt i hi⟩
  have hoA : oAssign g.o (normalise (centerOfMass m.masses f.pos) f.d) = j := by
    rw [hcomf, hd, normalise_smul _ (ne_of_gt hti), oAssign_self g.o ho j hj]
  have hbA : bAssign g.b (rotMat g.b[b]) = .ok b := bAssign_self g.b hbu hbne b hb
  rw [← hfpos, ← hpa] at hdirs
  rw [← hpa] at hP
  unfold assignFrame
  simp only [htA, hoA, hdirs, hP, hbA, if_true, bind, Except.bind, pure, Except.pure, compose, Option.map]

theorem assign_eq_membership (thr : Rat) (hthr : 0 ≤ thr) (g : Grid) (m : RefMol) (refDir : I3) (outl : Bool)
    (hB : g.b ≠ []) (hq : ∀ q ∈ g.b, Q4.normSq q ≠ 0) (hou : ∀ o ∈ g.o, V3.normSq o = 1)
    (hlen : m.masses.length = m.pos.length) (hM : m.masses.sum ≠ 0) (hdetA : M3.det m.pa ≠ 0)
    (href : refDirections thr m = .ok refDir)
    (p : Q4) (hp : Q4.normSq p ≠ 0) (T : V3) (s : I3) (hs : EvenFlip s) (f : Frame)
    (hfpos : f.pos = m.pos.map (rigid (rotMat p) T))
    (hpa : f.pa = flipRows s (M3.mul m.pa (M3.transpose (rotMat p))))
    (tk : Option Nat) (htk : tAssign g.t f.d outl = .ok tk) :
    assignFrame thr g m refDir outl true f = .ok
      ⟨tk,
       argmaxIdx (g.o.map fun o => V3.dot o (normalise (rigid (rotMat p) T (centerOfMass m.masses m.pos)) f.d)),
       argmaxIdx (g.b.map fun q => (Q4.dot q p) ^ 2 / Q4.normSq q),
       flip s refDir,
       compose tk
         (argmaxIdx (g.o.map fun o => V3.dot o (normalise (rigid (rotMat p) T (centerOfMass m.masses m.pos)) f.d)))
         (argmaxIdx (g.b.map fun q => (Q4.dot q p) ^ 2 / Q4.normSq q)) g.o.length g.b.length⟩ := by
  have hR := rotMat_orthogonal p hp
  obtain ⟨hdirs, hP⟩ := sign_fix_recovers thr hthr m refDir hlen hM hdetA href (rotMat p) hR T s hs
  have hcomf : centerOfMass m.masses f.pos = rigid (rotMat p) T (centerOfMass m.masses m.pos) := by
    rw [hfpos, centerOfMass_rigid _ _ _ _ hlen hM]
  have hoA := o_argmin_iff_argmax_dot g.o (normalise (centerOfMass m.masses f.pos) f.d) hou
  rw [hcomf] at hoA
  have hbA := b_argmin_angle_iff_argmax_dot g.b p hB hq hp
  rw [← hfpos, ← hpa] at hdirs
  rw [← hpa] at hP
  rw [hcomf] at hdirs
  unfold assignFrame
  simp only [htk, hcomf, hoA, hdirs, hP, hbA, if_true, bind, Except.bind, pure, Except.pure]

theorem zip_unit (O : List V3) (N : List Rat) (hlen : O.length = N.length) (hou : ∀ o ∈ O, V3.normSq o = 1)
    (hN : ∀ n ∈ N, n = 1) :
    (∀ on ∈ O.zip N, V3.normSq on.1 = 1 ∧ on.2 = 1) ∧ (O.zip N).map Prod.fst = O := by
  constructor
  · intro on hon
    obtain ⟨a, b⟩ := on
    have := List.of_mem_zip hon
    exact ⟨hou a this.1, hN b this.2⟩
  · exact List.map_fst_zip (le_of_eq hlen)

theorem assignFrame_metric_independent (thr : Rat) (g : Grid) (m : RefMol) (refDir : I3) (outl : Bool)
    (hou : ∀ o ∈ g.o, V3.normSq o = 1) (hNlen : g.o.length = g.oNorm.length) (hN : ∀ n ∈ g.oNorm, n = 1)
    (f : Frame) (hnu : 0 < f.nu) :
    assignFrame thr g m refDir outl false f = assignFrame thr g m refDir outl true f := by
  obtain ⟨h1, h2⟩ := zip_unit g.o g.oNorm hNlen hou hN
  have := o_cos_same_index (g.o.zip g.oNorm) (normalise (centerOfMass m.masses f.pos) f.d) f.nu hnu h1
  rw [h2] at this
  unfold assignFrame
  simp only [this, Bool.false_eq_true, if_false, if_true]

end Molgri.Assign
