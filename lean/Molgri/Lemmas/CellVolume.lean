/-
Helper lemmas for C15 (rotation-cell volumes).  Property theorems are in `Molgri/Props/C15.lean`.
-/
import Molgri.Model.CellVolume
import Mathlib.Algebra.Order.Field.Basic
import Mathlib.Tactic.Ring
import Mathlib.Tactic.Linarith
import Mathlib.Tactic.FieldSimp
import Mathlib.Data.List.Basic
import Mathlib.Algebra.BigOperators.Group.List.Basic

set_option linter.unusedSectionVars false
namespace Molgri.CellVol

variable {K : Type} [Field K] [LinearOrder K] [IsStrictOrderedRing K]

/-! ### `sgnSq` orders like the identity -/

theorem sgnSq_strictMono : StrictMono (sgnSq : K → K) := by
  intro x y hxy
  unfold sgnSq
  by_cases hx : 0 ≤ x <;> by_cases hy : 0 ≤ y <;> simp only [hx, hy, if_true, if_false]
  · nlinarith
  · exact absurd (le_trans hx hxy.le) hy
  · have hx' : x < 0 := lt_of_not_ge hx
    nlinarith [mul_pos_of_neg_of_neg hx' hx', mul_self_nonneg y]
  · have hx' : x < 0 := lt_of_not_ge hx
    have hy' : y < 0 := lt_of_not_ge hy
    nlinarith

theorem sgnSq_lt_iff {x y : K} : sgnSq x < sgnSq y ↔ x < y := sgnSq_strictMono.lt_iff_lt
theorem sgnSq_le_iff {x y : K} : sgnSq x ≤ sgnSq y ↔ x ≤ y := sgnSq_strictMono.le_iff_le

/-- `sgnSq (d / n) = sgnSq d / n²` for a positive `n`. -/
theorem sgnSq_div {d n : K} (hn : 0 < n) : sgnSq (d / n) = sgnSq d / (n * n) := by
  unfold sgnSq
  have h : 0 ≤ d / n ↔ 0 ≤ d := by
    constructor
    · intro h; have := mul_nonneg h hn.le; rwa [div_mul_cancel₀ _ hn.ne'] at this
    · intro h; exact div_nonneg h hn.le
  by_cases hd : 0 ≤ d
  · rw [if_pos hd, if_pos (h.mpr hd)]; field_simp
  · rw [if_neg hd, if_neg (fun hh => hd (h.mp hh))]; field_simp

/-! ### the `argmin` scan -/

/-- value of a key fraction -/
def kval (a : K × K) : K := a.1 / a.2

theorem keyLt_iff {a b : K × K} (ha : 0 < a.2) (hb : 0 < b.2) : keyLt a b = true ↔ kval a < kval b := by
  unfold keyLt kval
  rw [decide_eq_true_eq, div_lt_div_iff₀ ha hb]

/-- `r` is the first index of a maximal value of `l`. -/
def IsFirstMax (l : List (K × K)) (r : Nat) : Prop :=
  ∃ kr, l[r]? = some kr ∧ (∀ (j : Nat) kj, l[j]? = some kj → kval kj ≤ kval kr) ∧
    (∀ (j : Nat) kj, j < r → l[j]? = some kj → kval kj < kval kr)

theorem argmaxFrom_spec : ∀ (ks pre : List (K × K)) (bi : Nat) (bk : K × K),
    pre[bi]? = some bk → (∀ (j : Nat) kj, pre[j]? = some kj → kval kj ≤ kval bk) →
    (∀ (j : Nat) kj, j < bi → pre[j]? = some kj → kval kj < kval bk) → (∀ a ∈ pre ++ ks, 0 < a.2) →
    IsFirstMax (pre ++ ks) (argmaxFrom ks pre.length bi bk)
  | [], pre, bi, bk, h1, h2, h3, _ => by
    simp only [argmaxFrom, List.append_nil]
    exact ⟨bk, h1, h2, h3⟩
  | k :: ks, pre, bi, bk, h1, h2, h3, hpos => by
    have hbi : bi < pre.length := by
      rcases List.getElem?_eq_some_iff.mp h1 with ⟨h, _⟩; exact h
    have hbkmem : bk ∈ pre := List.mem_of_getElem? h1
    have hbkpos : 0 < bk.2 := hpos bk (List.mem_append_left _ hbkmem)
    have hkpos : 0 < k.2 := hpos k (by simp)
    have hassoc : pre ++ k :: ks = (pre ++ [k]) ++ ks := by simp
    have hlen : (pre ++ [k]).length = pre.length + 1 := by simp
    have hpos' : ∀ a ∈ (pre ++ [k]) ++ ks, 0 < a.2 := by rw [← hassoc]; exact hpos
    unfold argmaxFrom
    by_cases hlt : keyLt bk k = true
    · rw [if_pos hlt, hassoc, ← hlen]
      have hv : kval bk < kval k := (keyLt_iff hbkpos hkpos).mp hlt
      apply argmaxFrom_spec ks (pre ++ [k]) pre.length k
      · simp
      · intro j kj hj
        rw [List.getElem?_append] at hj
        split at hj
        · exact le_trans (h2 j kj hj) hv.le
        · rename_i hge
          have : j - pre.length = 0 ∨ j - pre.length ≥ 1 := by omega
          rcases this with h0 | h0
          · rw [h0] at hj; simp at hj; rw [← hj]
          · rw [List.getElem?_eq_none (by simp; omega)] at hj; cases hj
      · intro j kj hj hjk
        rw [List.getElem?_append_left hj] at hjk
        exact lt_of_le_of_lt (h2 j kj hjk) hv
      · exact hpos'
    · rw [if_neg hlt, hassoc, ← hlen]
      have hv : kval k ≤ kval bk := by
        by_contra hc
        exact hlt ((keyLt_iff hbkpos hkpos).mpr (lt_of_not_ge hc))
      apply argmaxFrom_spec ks (pre ++ [k]) bi bk
      · rw [List.getElem?_append_left hbi]; exact h1
      · intro j kj hj
        rw [List.getElem?_append] at hj
        split at hj
        · exact h2 j kj hj
        · have : j - pre.length = 0 ∨ j - pre.length ≥ 1 := by omega
          rcases this with h0 | h0
          · rw [h0] at hj; simp at hj; rw [← hj]; exact hv
          · rw [List.getElem?_eq_none (by simp; omega)] at hj; cases hj
      · intro j kj hj hjk
        rw [List.getElem?_append_left (by omega)] at hjk
        exact h3 j kj hj hjk
      · exact hpos'

theorem argmaxFirst_spec (l : List (K × K)) (hne : l ≠ []) (hpos : ∀ a ∈ l, 0 < a.2) :
    IsFirstMax l (argmaxFirst l) := by
  cases l with
  | nil => exact absurd rfl hne
  | cons k ks =>
    have := argmaxFrom_spec ks [k] 0 k (by simp) (by
      intro j kj hj
      cases j with
      | zero => simp at hj; rw [hj]
      | succ j => simp at hj) (by intro j kj hj; omega) (by simpa using hpos)
    simpa [argmaxFirst] using this

/-! ### the assignment of one helper point -/

/-- the exact key the scan maximises: `sgn(u·c)(u·c)²/‖c‖²` -/
def ckey (u c : List K) : K := sgnSq (dot u c) / normSq c

/-- `assignOne` returns the first index at which `ckey u` is maximal. -/
theorem assignOne_spec (C : List (List K)) (u : List K) (hne : C ≠ []) (hpos : ∀ c ∈ C, 0 < normSq c) :
    ∃ cr, C[assignOne (withNorms C) u]? = some cr ∧
      (∀ (j : Nat) c, C[j]? = some c → ckey u c ≤ ckey u cr) ∧
      (∀ (j : Nat) c, j < assignOne (withNorms C) u → C[j]? = some c → ckey u c < ckey u cr) := by
  have hl : (withNorms C).map (cosKey u) = C.map (fun c => (sgnSq (dot u c), normSq c)) := by
    unfold withNorms cosKey; rw [List.map_map]; rfl
  have hspec := argmaxFirst_spec ((withNorms C).map (cosKey u)) (by rw [hl]; simpa using hne) (by
    rw [hl]; intro a ha
    rcases List.mem_map.mp ha with ⟨c, hc, rfl⟩
    exact hpos c hc)
  unfold assignOne
  rcases hspec with ⟨kr, h1, h2, h3⟩
  rw [hl] at h1 h2 h3 ⊢
  rw [List.getElem?_map] at h1
  cases hcr : C[argmaxFirst (C.map (fun c => (sgnSq (dot u c), normSq c)))]? with
  | none => rw [hcr] at h1; cases h1
  | some cr =>
    rw [hcr] at h1
    simp only [Option.map_some, Option.some.injEq] at h1
    refine ⟨cr, rfl, ?_, ?_⟩
    · intro j c hj
      have := h2 j (sgnSq (dot u c), normSq c) (by rw [List.getElem?_map, hj]; rfl)
      rw [← h1] at this; exact this
    · intro j c hlt hj
      have := h3 j (sgnSq (dot u c), normSq c) hlt (by rw [List.getElem?_map, hj]; rfl)
      rw [← h1] at this; exact this

/-- The key is the (sign-preserving square of the) cosine similarity up to the common factor `1/‖u‖`. -/
theorem ckey_eq (u c : List K) {n : K} (hn : 0 < n) (hnn : n * n = normSq c) :
    ckey u c = sgnSq (dot u c / n) := by
  unfold ckey; rw [sgnSq_div hn, hnn]

theorem ckey_le_iff (u c c' : List K) {n n' : K} (hn : 0 < n) (hnn : n * n = normSq c)
    (hn' : 0 < n') (hnn' : n' * n' = normSq c') :
    ckey u c ≤ ckey u c' ↔ dot u c / n ≤ dot u c' / n' := by
  rw [ckey_eq u c hn hnn, ckey_eq u c' hn' hnn', sgnSq_le_iff]

theorem ckey_lt_iff (u c c' : List K) {n n' : K} (hn : 0 < n) (hnn : n * n = normSq c)
    (hn' : 0 < n') (hnn' : n' * n' = normSq c') :
    ckey u c < ckey u c' ↔ dot u c / n < dot u c' / n' := by
  rw [ckey_eq u c hn hnn, ckey_eq u c' hn' hnn', sgnSq_lt_iff]

/-! ### squared Euclidean distance -/

/-- `‖u - c‖²` for rows of equal length. -/
def distSq : List K → List K → K
  | x :: xs, y :: ys => (x - y) * (x - y) + distSq xs ys
  | _, _ => 0

theorem distSq_eq : ∀ (u c : List K), u.length = c.length → distSq u c = normSq u - 2 * dot u c + normSq c
  | [], [], _ => by simp [distSq, normSq, dot]
  | x :: xs, y :: ys, h => by
    have ih := distSq_eq xs ys (by simpa using h)
    simp only [distSq, normSq, dot] at ih ⊢
    rw [ih]; ring
  | [], _ :: _, h => by simp at h
  | _ :: _, [], h => by simp at h

theorem dot_neg (u : List K) : ∀ g : List K, dot u (neg g) = -dot u g := by
  induction u with
  | nil => intro g; cases g <;> simp [dot]
  | cons x xs ih =>
    intro g
    cases g with
    | nil => simp [dot, neg]
    | cons y ys =>
      have := ih ys
      simp only [neg, List.map_cons, dot] at this ⊢
      rw [this]; ring

theorem normSq_neg (g : List K) : normSq (neg g) = normSq g := by
  unfold normSq
  induction g with
  | nil => rfl
  | cons y ys ih =>
    simp only [neg, List.map_cons, dot] at ih ⊢
    rw [ih]; ring

/-! ### `cellHelpers`: the boolean-mask selection -/

theorem mem_cellHelpers {helpers : List (List K)} {asg : List Nat} {i h : Nat} {u : List K} :
    (h, u) ∈ cellHelpers helpers asg i ↔ helpers[h]? = some u ∧ asg[h]? = some i := by
  unfold cellHelpers
  rw [List.mem_filterMap]
  constructor
  · rintro ⟨⟨⟨u', a⟩, h'⟩, hmem, heq⟩
    rw [List.mem_zipIdx_iff_getElem?] at hmem
    simp only at heq
    split at heq
    · rename_i hai
      simp only [Option.some.injEq, Prod.mk.injEq] at heq
      rcases heq with ⟨rfl, rfl⟩
      rw [List.getElem?_zip_eq_some] at hmem
      exact ⟨hmem.1, by rw [hmem.2, hai]⟩
    · cases heq
  · rintro ⟨h1, h2⟩
    refine ⟨((u, i), h), ?_, by simp⟩
    rw [List.mem_zipIdx_iff_getElem?, List.getElem?_zip_eq_some]
    exact ⟨h1, h2⟩

/-! ### `mapM` in `Except` -/

theorem mapM_ok_iff {α β : Type} (f : α → Except String β) : ∀ (l : List α) (r : List β),
    l.mapM f = .ok r ↔ List.Forall₂ (fun a b => f a = .ok b) l r
  | [], r => by
    simp only [List.mapM_nil, pure, Except.pure]
    constructor
    · intro h; cases h; exact List.Forall₂.nil
    · intro h; cases h; rfl
  | a :: as, r => by
    rw [List.mapM_cons]
    cases hfa : f a with
    | error e =>
      simp only [bind, Except.bind]
      constructor
      · intro h; cases h
      · intro h; cases h with
        | cons h1 _ => rw [hfa] at h1; cases h1
    | ok b =>
      cases hrest : as.mapM f with
      | error e =>
        simp only [bind, Except.bind]
        constructor
        · intro h; cases h
        · intro h; cases h with
          | cons h1 h2 => rw [← mapM_ok_iff f as] at h2; rw [hrest] at h2; cases h2
      | ok bs =>
        simp only [bind, Except.bind, pure, Except.pure]
        constructor
        · intro h; cases h
          exact List.Forall₂.cons hfa ((mapM_ok_iff f as bs).mp hrest)
        · intro h; cases h with
          | cons h1 h2 =>
            rw [hfa] at h1; cases h1
            rw [← mapM_ok_iff f as, hrest] at h2; cases h2; rfl

theorem mapM_ok_exists {α β : Type} (f : α → Except String β) : ∀ (l : List α),
    (∀ a ∈ l, ∃ b, f a = .ok b) → ∃ r, l.mapM f = .ok r
  | [], _ => ⟨[], rfl⟩
  | a :: as, h => by
    rcases h a (by simp) with ⟨b, hb⟩
    rcases mapM_ok_exists f as (fun x hx => h x (by simp [hx])) with ⟨bs, hbs⟩
    exact ⟨b :: bs, (mapM_ok_iff f _ _).mpr (List.Forall₂.cons hb ((mapM_ok_iff f _ _).mp hbs))⟩

theorem mapM_ok_length {α β : Type} (f : α → Except String β) {l : List α} {r : List β}
    (h : l.mapM f = .ok r) : r.length = l.length :=
  ((mapM_ok_iff f l r).mp h).length_eq.symm

/-! ### `get_reduced_vertices_regions` -/

theorem absK_nonneg (x : K) : 0 ≤ absK x := by
  unfold absK; split <;> linarith

theorem rowClose_self {atol rtol : K} (h0 : 0 ≤ atol) (h1 : 0 ≤ rtol) : ∀ r : List K, rowClose atol rtol r r = true
  | [] => rfl
  | a :: as => by
    have : isclose atol rtol a a = true := by
      unfold isclose
      rw [decide_eq_true_eq, sub_self]
      have : absK (0 : K) = 0 := by unfold absK; simp
      rw [this]
      exact add_nonneg h0 (mul_nonneg h1 (absK_nonneg a))
    simp [rowClose, this, rowClose_self h0 h1 as]

/-- generalised form of `reducedVertices` (rows `vs` following a prefix `pre` of the whole array `all`) -/
theorem reduced_aux (all : List (List K)) : ∀ (vs pre : List (List K)), all = pre ++ vs →
    (∀ v, v ∈ (vs.zipIdx pre.length).filterMap
        (fun (p : List K × Nat) => if (all.take p.2).contains p.1 then none else some p.1) ↔ v ∈ vs ∧ v ∉ pre) ∧
    ((vs.zipIdx pre.length).filterMap
        (fun (p : List K × Nat) => if (all.take p.2).contains p.1 then none else some p.1)).Nodup
  | [], pre, _ => by simp
  | x :: xs, pre, hall => by
    have hall' : all = (pre ++ [x]) ++ xs := by rw [hall]; simp
    have ih := reduced_aux all xs (pre ++ [x]) hall'
    have hlen : (pre ++ [x]).length = pre.length + 1 := by simp
    rw [hlen] at ih
    have htake : all.take pre.length = pre := by rw [hall]; simp
    rw [List.zipIdx_cons, List.filterMap_cons]
    simp only [htake]
    by_cases hx : x ∈ pre
    · have hc : pre.contains x = true := by simpa using hx
      simp only [hc, if_true]
      refine ⟨fun v => ?_, ih.2⟩
      rw [ih.1 v]
      constructor
      · rintro ⟨h1, h2⟩
        exact ⟨List.mem_cons_of_mem _ h1, fun h => h2 (List.mem_append_left _ h)⟩
      · rintro ⟨h1, h2⟩
        rcases List.mem_cons.mp h1 with rfl | h1
        · exact absurd hx h2
        · refine ⟨h1, fun h => ?_⟩
          rcases List.mem_append.mp h with h | h
          · exact h2 h
          · rw [List.mem_singleton] at h; rw [h] at h2; exact h2 hx
    · have hc : pre.contains x = false := by simpa using hx
      simp only [hc]
      refine ⟨fun v => ?_, ?_⟩
      · simp only [Bool.false_eq_true, if_false, List.mem_cons]
        rw [ih.1 v]
        constructor
        · rintro (rfl | ⟨h1, h2⟩)
          · exact ⟨Or.inl rfl, hx⟩
          · exact ⟨Or.inr h1, fun h => h2 (List.mem_append_left _ h)⟩
        · rintro ⟨h1 | h1, h2⟩
          · exact Or.inl h1
          · by_cases hvx : v = x
            · exact Or.inl hvx
            · refine Or.inr ⟨h1, fun h => ?_⟩
              rcases List.mem_append.mp h with h | h
              · exact h2 h
              · rw [List.mem_singleton] at h; exact hvx h
      · simp only [Bool.false_eq_true, if_false]
        rw [List.nodup_cons]
        refine ⟨fun h => ?_, ih.2⟩
        have := ((ih.1 x).mp h).2
        exact this (List.mem_append_right _ (List.mem_singleton.mpr rfl))

theorem mem_reducedVertices (vs : List (List K)) (v : List K) : v ∈ reducedVertices vs ↔ v ∈ vs := by
  have := (reduced_aux vs vs [] (by simp)).1 v
  simp only [List.length_nil, List.not_mem_nil, not_false_eq_true, and_true] at this
  exact this

theorem reducedVertices_nodup (vs : List (List K)) : (reducedVertices vs).Nodup :=
  (reduced_aux vs vs [] (by simp)).2

/-- `firstClose` succeeds on every row of the original array and returns the first close row. -/
theorem firstClose_spec {atol rtol : K} (h0 : 0 ≤ atol) (h1 : 0 ≤ rtol) (vs : List (List K)) (old : List K)
    (hold : old ∈ vs) :
    ∃ k new, firstClose atol rtol (reducedVertices vs) old = .ok k ∧ (reducedVertices vs)[k]? = some new ∧
      rowClose atol rtol old new = true ∧
      ∀ (k' : Nat) new', k' < k → (reducedVertices vs)[k']? = some new' → rowClose atol rtol old new' = false := by
  unfold firstClose
  cases hf : (reducedVertices vs).findIdx? (fun r => rowClose atol rtol old r) with
  | none =>
    rw [List.findIdx?_eq_none_iff] at hf
    have := hf old ((mem_reducedVertices vs old).mpr hold)
    rw [rowClose_self h0 h1] at this; cases this
  | some k =>
    rw [List.findIdx?_eq_some_iff_getElem] at hf
    rcases hf with ⟨hk, hp, hmin⟩
    refine ⟨k, (reducedVertices vs)[k], rfl, by simp [hk], hp, ?_⟩
    intro k' new' hk' hnew
    have hk'' : k' < (reducedVertices vs).length := by omega
    have := hmin k' hk'
    rw [List.getElem?_eq_getElem hk''] at hnew
    cases hnew
    simpa using this

/-- what `reducedRegions` does to one vertex number -/
def RegionEntryOk (atol rtol : K) (vs : List (List K)) (el k : Nat) : Prop :=
  ∃ old new, vs[el]? = some old ∧ (reducedVertices vs)[k]? = some new ∧ rowClose atol rtol old new = true ∧
    ∀ (k' : Nat) new', k' < k → (reducedVertices vs)[k']? = some new' → rowClose atol rtol old new' = false

theorem old2new_spec {atol rtol : K} (h0 : 0 ≤ atol) (h1 : 0 ≤ rtol) (vs : List (List K)) :
    ∃ o2n, old2new atol rtol vs = .ok o2n ∧ o2n.length = vs.length ∧
      ∀ (el : Nat) k, o2n[el]? = some k → RegionEntryOk atol rtol vs el k := by
  unfold old2new
  rcases mapM_ok_exists (firstClose atol rtol (reducedVertices vs)) vs (fun a ha => by
    rcases firstClose_spec h0 h1 vs a ha with ⟨k, _, hk, _⟩; exact ⟨k, hk⟩) with ⟨o2n, ho⟩
  refine ⟨o2n, ho, mapM_ok_length _ ho, ?_⟩
  have hf := (mapM_ok_iff _ _ _).mp ho
  intro el k hk
  have hel : el < o2n.length := (List.getElem?_eq_some_iff.mp hk).1
  have hel' : el < vs.length := by rw [← hf.length_eq] at hel; exact hel
  have hget := List.Forall₂.get hf hel' hel
  simp only [List.get_eq_getElem] at hget
  have hk' : o2n[el] = k := (List.getElem?_eq_some_iff.mp hk).2
  rcases firstClose_spec h0 h1 vs vs[el] (List.getElem_mem hel') with ⟨k2, new, e1, e2, e3, e4⟩
  rw [hget] at e1
  cases e1
  subst hk'
  exact ⟨vs[el], new, by simp [hel'], e2, e3, e4⟩

theorem reducedRegions_spec {atol rtol : K} (h0 : 0 ≤ atol) (h1 : 0 ≤ rtol) (vs : List (List K))
    (regions : List (List Nat)) (hreg : ∀ region ∈ regions, ∀ el ∈ region, el < vs.length) :
    ∃ rr, reducedRegions atol rtol vs regions = .ok rr ∧
      List.Forall₂ (List.Forall₂ (RegionEntryOk atol rtol vs)) regions rr := by
  rcases old2new_spec h0 h1 vs with ⟨o2n, ho, hlen, hspec⟩
  unfold reducedRegions
  rw [ho]
  simp only [bind, Except.bind]
  have key : ∀ region ∈ regions, ∃ r, (region.mapM fun el =>
      match o2n[el]? with
      | some k => (pure k : Except String Nat)
      | none => throw "KeyError") = .ok r := by
    intro region hr
    apply mapM_ok_exists
    intro el hel
    have : el < o2n.length := by rw [hlen]; exact hreg region hr el hel
    exact ⟨o2n[el], by simp [this, pure, Except.pure]⟩
  rcases mapM_ok_exists _ regions key with ⟨rr, hrr⟩
  refine ⟨rr, hrr, ?_⟩
  have hf := (mapM_ok_iff _ _ _).mp hrr
  refine hf.imp ?_
  intro region r hreg'
  have hf2 := (mapM_ok_iff _ _ _).mp hreg'
  refine hf2.imp ?_
  intro el k hk
  cases hget : o2n[el]? with
  | none => rw [hget] at hk; cases hk
  | some k2 =>
    rw [hget] at hk
    cases hk
    exact hspec el _ hget

/-! ### the upper hemisphere -/

theorem upper_aux (tol : K) (all : List K) : ∀ (q pre : List K), all = pre ++ q →
    ((q.zipIdx pre.length).any fun (p : K × Nat) => (all.take p.2).all (small tol) && decide (0 < p.1))
      = (pre.all (small tol) && upperRec tol q)
  | [], pre, _ => by simp [upperRec]
  | x :: xs, pre, hall => by
    have hall' : all = (pre ++ [x]) ++ xs := by rw [hall]; simp
    have ih := upper_aux tol all xs (pre ++ [x]) hall'
    have hlen : (pre ++ [x]).length = pre.length + 1 := by simp
    rw [hlen] at ih
    have htake : all.take pre.length = pre := by rw [hall]; simp
    rw [List.zipIdx_cons, List.any_cons, ih]
    simp only [htake, upperRec, List.all_append, List.all_cons, List.all_nil, Bool.and_true]
    cases pre.all (small tol) <;> cases decide (0 < x) <;> cases small tol x <;> cases upperRec tol xs <;> rfl

theorem upper_eq_upperRec (tol : K) (q : List K) : upper tol q = upperRec tol q := by
  have := upper_aux tol q q [] (by simp)
  simpa [upper] using this

/-- a row that is unambiguously in the upper hemisphere: leading coordinates in `[0, tol]`, then one `> tol`. -/
def StrictUpper (tol : K) : List K → Prop
  | [] => False
  | x :: xs => tol < x ∨ (0 ≤ x ∧ x ≤ tol ∧ StrictUpper tol xs)

theorem strictUpper_spec {tol : K} (ht : 0 ≤ tol) : ∀ q : List K, StrictUpper tol q →
    upperRec tol q = true ∧ upperRec tol (neg q) = false
  | [], h => by cases h
  | x :: xs, h => by
    simp only [neg, List.map_cons, upperRec, small]
    rcases h with h | ⟨h1, h2, h3⟩
    · have hx : 0 < x := lt_of_le_of_lt ht h
      refine ⟨by simp [hx], ?_⟩
      have a : ¬ (0 < -x) := by linarith
      have b : ¬ (-tol ≤ -x) := by linarith
      simp [a, b]
    · have ih := strictUpper_spec ht xs h3
      simp only [neg] at ih
      refine ⟨?_, ?_⟩
      · have a : -tol ≤ x := by linarith
        simp [a, h2, ih.1]
      · have a : ¬ (0 < -x) := by linarith
        simp [a, ih.2]

theorem strictUpper_upper {tol : K} (ht : 0 ≤ tol) (q : List K) (h : StrictUpper tol q) :
    upper tol q = true ∧ upper tol (neg q) = false := by
  rw [upper_eq_upperRec, upper_eq_upperRec]; exact strictUpper_spec ht q h

theorem upperIdx_all (tol : K) : ∀ (A : List (List K)) (k : Nat), (∀ g ∈ A, upper tol g = true) →
    (A.zipIdx k).filterMap (fun (p : List K × Nat) => if upper tol p.1 then some p.2 else none)
      = List.range' k A.length
  | [], _, _ => rfl
  | a :: as, k, h => by
    rw [List.zipIdx_cons, List.filterMap_cons]
    simp only [h a (by simp), if_true, List.length_cons, List.range'_succ]
    rw [upperIdx_all tol as (k + 1) (fun g hg => h g (by simp [hg]))]

theorem upperIdx_none (tol : K) : ∀ (B : List (List K)) (k : Nat), (∀ g ∈ B, upper tol g = false) →
    (B.zipIdx k).filterMap (fun (p : List K × Nat) => if upper tol p.1 then some p.2 else none) = []
  | [], _, _ => rfl
  | b :: bs, k, h => by
    rw [List.zipIdx_cons, List.filterMap_cons]
    simp only [h b (by simp), Bool.false_eq_true, if_false]
    exact upperIdx_none tol bs (k + 1) (fun g hg => h g (by simp [hg]))

/-- the upper indices of a double cover `G ++ -G` of a canonical half `G` are `0 … N-1` -/
theorem upperIdx_double (tol : K) (G : List (List K))
    (hG : ∀ g ∈ G, upper tol g = true ∧ upper tol (neg g) = false) :
    upperIdx tol (G ++ G.map neg) = List.range G.length := by
  unfold upperIdx
  rw [List.zipIdx_append, List.filterMap_append]
  have h1 := upperIdx_all tol G 0 (fun g hg => (hG g hg).1)
  have h2 := upperIdx_none tol (G.map neg) (0 + G.length) (by
    intro g hg
    rcases List.mem_map.mp hg with ⟨g', hg', rfl⟩
    exact (hG g' hg').2)
  rw [h1, h2, List.append_nil, List.range_eq_range']

theorem mapM_range'_get (all : List K) : ∀ (n k : Nat), k + n ≤ all.length →
    (List.range' k n).mapM (getIdx all) = .ok ((all.drop k).take n)
  | 0, k, _ => by simp [pure, Except.pure]
  | n + 1, k, h => by
    have hk : k < all.length := by omega
    rw [List.range'_succ, List.mapM_cons, mapM_range'_get all n (k + 1) (by omega)]
    simp only [getIdx, List.getElem?_eq_getElem hk, bind, Except.bind, pure, Except.pure]
    rw [List.drop_eq_getElem_cons hk, List.take_succ_cons]

end Molgri.CellVol
