/-
Helper lemmas for C02 (full-grid matrices).  Property theorems are in `Molgri/Props/C02.lean`.
-/
import Molgri.Model.FullGrid
import Mathlib.Algebra.BigOperators.Group.Finset.Basic
import Mathlib.Algebra.Order.Field.Basic
import Mathlib.Tactic.Ring
import Mathlib.Tactic.Linarith

namespace Molgri.FullGrid

/-! ### index arithmetic `n_b*i + k` -/

theorem stride_eq {nB i k a : Nat} (hk : k < nB) : nB * i + k = a ↔ a / nB = i ∧ a % nB = k := by
  have hpos : 0 < nB := by omega
  constructor
  · rintro rfl
    rw [Nat.mul_add_div hpos, Nat.mul_add_mod, Nat.div_eq_of_lt hk, Nat.mod_eq_of_lt hk]
    simp
  · rintro ⟨rfl, rfl⟩
    exact Nat.div_add_mod a nB

theorem div_lt_of_lt_mul' {a nP nB : Nat} (h : a < nP * nB) : a / nB < nP := by
  apply Nat.div_lt_of_lt_mul
  rwa [Nat.mul_comm]

theorem eq_of_div_mod {a b nB : Nat} (h1 : a / nB = b / nB) (h2 : a % nB = b % nB) : a = b := by
  rw [← Nat.div_add_mod a nB, ← Nat.div_add_mod b nB, h1, h2]

/-! ### row-major enumeration -/

theorem mem_pairs {n a b : Nat} : (a, b) ∈ pairs n ↔ a < n ∧ b < n := by
  unfold pairs
  simp only [List.mem_flatMap, List.mem_range, List.mem_map, Prod.mk.injEq]
  constructor
  · rintro ⟨r, hr, c, hc, rfl, rfl⟩; exact ⟨hr, hc⟩
  · rintro ⟨ha, hb⟩; exact ⟨a, ha, b, hb, rfl, rfl⟩

/-- Row-major order: rows ascending, inside a row columns ascending. -/
def rowMajorLt (p q : Nat × Nat) : Prop := p.1 < q.1 ∨ (p.1 = q.1 ∧ p.2 < q.2)

theorem pairs_sorted (n : Nat) : (pairs n).Pairwise rowMajorLt := by
  unfold pairs
  rw [List.pairwise_flatMap]
  constructor
  · intro r _
    rw [List.pairwise_map]
    exact List.Pairwise.imp (fun h => Or.inr ⟨rfl, h⟩) List.pairwise_lt_range
  · refine List.Pairwise.imp ?_ List.pairwise_lt_range
    intro r1 r2 h x hx y hy
    simp only [List.mem_map, List.mem_range] at hx hy
    obtain ⟨_, _, rfl⟩ := hx
    obtain ⟨_, _, rfl⟩ := hy
    exact Or.inl h

theorem pairs_nodup (n : Nat) : (pairs n).Nodup := by
  refine List.Pairwise.imp ?_ (pairs_sorted n)
  intro p q h heq
  subst heq
  rcases h with h | ⟨_, h⟩ <;> omega

section
set_option linter.unusedSectionVars false
set_option linter.unusedSimpArgs false
variable {K : Type} [Field K] [DecidableEq K]

/-! ### `toarray` of an entry list -/

theorem dense_eq_sum (es : List (Entry K)) (r c : Nat) :
    dense es r c = (es.map fun e => if e.1 = r ∧ e.2.1 = c then e.2.2 else 0).sum := by
  unfold dense colSum rowOf
  induction es with
  | nil => simp
  | cons e es ih =>
    rw [List.map_cons, List.sum_cons, ← ih]
    by_cases h1 : e.1 = r
    · by_cases h2 : e.2.1 = c
      · simp [h1, h2]
      · simp [h1, h2]
    · simp [h1]

theorem dense_nil (r c : Nat) : dense ([] : List (Entry K)) r c = 0 := by
  simp [dense_eq_sum]

theorem dense_append (A B : List (Entry K)) (r c : Nat) :
    dense (A ++ B) r c = dense A r c + dense B r c := by
  simp [dense_eq_sum, List.sum_append]

theorem dense_flatMap {α : Type} (l : List α) (φ : α → List (Entry K)) (r c : Nat) :
    dense (l.flatMap φ) r c = (l.map fun x => dense (φ x) r c).sum := by
  induction l with
  | nil => simp [dense_nil]
  | cons x l ih => rw [List.flatMap_cons, dense_append, ih, List.map_cons, List.sum_cons]

theorem sum_range_ite (n a : Nat) (g : Nat → K) :
    ((List.range n).map fun i => if i = a then g i else 0).sum = if a < n then g a else 0 := by
  induction n with
  | zero => simp
  | succ n ih =>
    rw [List.range_succ, List.map_append, List.sum_append, ih]
    by_cases h1 : a < n
    · have h2 : n ≠ a := by omega
      have h3 : a < n + 1 := by omega
      simp [h1, h2, h3]
    · by_cases h2 : n = a
      · subst h2; simp
      · have h3 : ¬ a < n + 1 := by omega
        simp [h1, h2, h3]

theorem sum_map_zero {α : Type} (l : List α) : (l.map fun _ => (0 : K)).sum = 0 := by
  induction l with
  | nil => rfl
  | cons x l ih => simp [ih]

theorem sum_map_ite_const {α : Type} (l : List α) (C : Prop) [Decidable C] (g : α → K) :
    (l.map fun x => if C then g x else 0).sum = if C then (l.map g).sum else 0 := by
  by_cases h : C
  · simp [h]
  · simp [h]

/-! ### the row-major scan -/

theorem dense_scanRow (l : List Nat) (g : Nat → Nat → K) (r' r c : Nat) :
    dense (l.filterMap fun c' => if g r' c' = 0 then none else some (r', c', g r' c')) r c
      = (l.map fun c' => if c' = c then (if r' = r then g r' c' else 0) else 0).sum := by
  induction l with
  | nil => simp [dense_nil]
  | cons x l ih =>
    rw [List.map_cons, List.sum_cons, ← ih]
    by_cases h0 : g r' x = 0
    · simp [h0]
    · rw [List.filterMap_cons]
      simp only [h0, if_false]
      rw [show ((r', x, g r' x) :: List.filterMap (fun c' => if g r' c' = 0 then none else some (r', c', g r' c')) l)
          = [(r', x, g r' x)] ++ List.filterMap (fun c' => if g r' c' = 0 then none else some (r', c', g r' c')) l from rfl,
        dense_append]
      congr 1
      rw [dense_eq_sum]
      by_cases h1 : x = c <;> by_cases h2 : r' = r <;> simp [h1, h2]

theorem dense_scan (n : Nat) (g : Nat → Nat → K) (r c : Nat) :
    dense (scan n g) r c = if r < n ∧ c < n then g r c else 0 := by
  unfold scan
  rw [dense_flatMap]
  simp only [dense_scanRow, sum_range_ite]
  by_cases hc : c < n
  · simp only [hc, if_true, and_true]
    exact sum_range_ite n r (fun r' => g r' c)
  · simp [hc, sum_map_zero]

theorem mem_scan {n : Nat} {g : Nat → Nat → K} {a b : Nat} {v : K} :
    (a, b, v) ∈ scan n g ↔ a < n ∧ b < n ∧ v = g a b ∧ g a b ≠ 0 := by
  unfold scan
  simp only [List.mem_flatMap, List.mem_range, List.mem_filterMap]
  constructor
  · rintro ⟨r, hr, c, hc, h⟩
    by_cases h0 : g r c = 0
    · simp [h0] at h
    · simp only [h0, if_false, Option.some.injEq, Prod.mk.injEq] at h
      obtain ⟨rfl, rfl, rfl⟩ := h
      exact ⟨hr, hc, rfl, h0⟩
  · rintro ⟨ha, hb, rfl, h0⟩
    exact ⟨a, ha, b, hb, by simp [h0]⟩

theorem scan_congr {n : Nat} {g g' : Nat → Nat → K} (h : ∀ a, a < n → ∀ b, b < n → g a b = g' a b) :
    scan n g = scan n g' := by
  unfold scan
  apply List.flatMap_congr
  intro r hr
  rw [List.mem_range] at hr
  apply List.filterMap_congr
  intro c hc
  rw [List.mem_range] at hc
  rw [h r hr c hc]

theorem keys_scanRow (l : List Nat) (g : Nat → Nat → K) (r : Nat) :
    (l.filterMap fun c => if g r c = 0 then none else some (r, c, g r c)).map key
      = (l.map fun c => (r, c)).filter (fun p => decide (g p.1 p.2 ≠ 0)) := by
  induction l with
  | nil => rfl
  | cons x l ih =>
    by_cases h0 : g r x = 0
    · simp [List.filterMap_cons, h0, ih]
    · simp [List.filterMap_cons, h0, ih, key]

/-- The stored index sequence of a scan: the row-major enumeration filtered by "value is non-zero". -/
theorem keys_scan (n : Nat) (g : Nat → Nat → K) :
    keys (scan n g) = (pairs n).filter (fun p => decide (g p.1 p.2 ≠ 0)) := by
  unfold keys scan pairs
  rw [List.map_flatMap, List.filter_flatMap]
  apply List.flatMap_congr
  intro r _
  exact keys_scanRow _ g r

theorem addCsr_eq_scan (n : Nat) (A B : List (Entry K)) :
    addCsr n A B = scan n (fun r c => dense A r c + dense B r c) := rfl

/-! ### the two families of entries -/

theorem dense_posBlock (nB i j a b : Nat) (v : K) (hB : 0 < nB) :
    dense ((List.range nB).map fun k => (nB * i + k, nB * j + k, v)) a b
      = if a / nB = i ∧ b / nB = j ∧ a % nB = b % nB then v else 0 := by
  rw [dense_eq_sum, List.map_map]
  have h : ∀ k ∈ List.range nB,
      ((fun e : Entry K => if e.1 = a ∧ e.2.1 = b then e.2.2 else 0) ∘ fun k => (nB * i + k, nB * j + k, v)) k
        = (fun k => if k = a % nB then (if a / nB = i ∧ b / nB = j ∧ a % nB = b % nB then v else 0) else 0) k := by
    intro k hk
    rw [List.mem_range] at hk
    simp only [Function.comp]
    simp only [stride_eq hk]
    by_cases h1 : k = a % nB
    · subst h1
      by_cases h2 : a / nB = i <;> by_cases h3 : b / nB = j <;> by_cases h4 : a % nB = b % nB <;>
        simp [h2, h3, h4, eq_comm]
    · have h1' : ¬ a % nB = k := fun h => h1 h.symm
      simp [h1, h1']
  rw [List.map_congr_left h, sum_range_ite]
  simp [Nat.mod_lt a hB]

theorem dense_posEntries (nP nB : Nat) (sel : Sel) (f : K) (P : Nat → Nat → K) (a b : Nat) (hB : 0 < nB) :
    dense (posEntries nP nB sel f P) a b
      = if a % nB = b % nB ∧ a / nB < nP ∧ b / nB < nP then
          (if P (a / nB) (b / nB) = 0 then 0 else posValue sel f (P (a / nB) (b / nB))) else 0 := by
  unfold posEntries
  rw [dense_flatMap]
  have hin : ∀ i : Nat, dense ((List.range nP).flatMap fun j =>
        let el := P i j
        if el = 0 then []
        else
          let v := posValue sel f el
          (List.range nB).map fun k => (nB * i + k, nB * j + k, v)) a b
      = if i = a / nB then (if a % nB = b % nB ∧ b / nB < nP then
          (if P i (b / nB) = 0 then 0 else posValue sel f (P i (b / nB))) else 0) else 0 := by
    intro i
    rw [dense_flatMap]
    have hj : ∀ j : Nat, dense (let el := P i j
          if el = 0 then []
          else
            let v := posValue sel f el
            (List.range nB).map fun k => (nB * i + k, nB * j + k, v)) a b
        = if j = b / nB then (if a / nB = i ∧ a % nB = b % nB then
            (if P i j = 0 then 0 else posValue sel f (P i j)) else 0) else 0 := by
      intro j
      by_cases h0 : P i j = 0
      · simp [h0, dense_nil]
      · simp only [h0, if_false]
        rw [dense_posBlock _ _ _ _ _ _ hB]
        by_cases h1 : j = b / nB <;> by_cases h2 : a / nB = i <;> by_cases h3 : a % nB = b % nB <;>
          simp [h1, h2, h3, eq_comm]
    simp only [hj]
    rw [sum_range_ite]
    by_cases h1 : i = a / nB <;> by_cases h2 : b / nB < nP <;> by_cases h3 : a % nB = b % nB <;>
      simp [h1, h2, h3, eq_comm]
  simp only [hin]
  rw [sum_range_ite]
  by_cases h1 : a / nB < nP <;> by_cases h2 : b / nB < nP <;> by_cases h3 : a % nB = b % nB <;>
    simp [h1, h2, h3]

theorem dense_shift (nB p : Nat) (Rc : List (Entry K)) (a b : Nat) (_hB : 0 < nB)
    (hb : ∀ e ∈ Rc, e.1 < nB ∧ e.2.1 < nB) :
    dense (Rc.map fun e => (nB * p + e.1, nB * p + e.2.1, e.2.2)) a b
      = if p = a / nB then (if b / nB = a / nB then dense Rc (a % nB) (b % nB) else 0) else 0 := by
  rw [dense_eq_sum, dense_eq_sum, List.map_map]
  have h : ∀ e ∈ Rc,
      ((fun e : Entry K => if e.1 = a ∧ e.2.1 = b then e.2.2 else 0) ∘
          fun e => (nB * p + e.1, nB * p + e.2.1, e.2.2)) e
        = (fun e : Entry K => if p = a / nB ∧ b / nB = a / nB then
            (if e.1 = a % nB ∧ e.2.1 = b % nB then e.2.2 else 0) else 0) e := by
    intro e he
    obtain ⟨h1, h2⟩ := hb e he
    simp only [Function.comp]
    simp only [stride_eq h1, stride_eq h2]
    by_cases h3 : p = a / nB <;> by_cases h4 : b / nB = a / nB <;> by_cases h5 : a % nB = e.1 <;>
      by_cases h6 : b % nB = e.2.1 <;> simp [h3, h4, h5, h6, eq_comm] <;> omega
  rw [List.map_congr_left h, sum_map_ite_const]
  by_cases h3 : p = a / nB <;> by_cases h4 : b / nB = a / nB <;> simp [h3, h4]

theorem dense_rotEntries (nP nB : Nat) (Rc : List (Entry K)) (a b : Nat) (hB : 0 < nB)
    (hb : ∀ e ∈ Rc, e.1 < nB ∧ e.2.1 < nB) :
    dense (rotEntries nP nB Rc) a b
      = if a / nB = b / nB ∧ a / nB < nP then dense Rc (a % nB) (b % nB) else 0 := by
  unfold rotEntries
  rw [dense_flatMap]
  simp only [dense_shift nB _ Rc a b hB hb]
  rw [sum_range_ite]
  by_cases h1 : a / nB < nP <;> by_cases h2 : b / nB = a / nB
  · simp [h1, h2]
  · have h2' : ¬ a / nB = b / nB := fun h => h2 h.symm
    simp [h1, h2, h2']
  · simp [h1, h2]
  · simp [h1, h2]

theorem rotInput_eq (nB : Nat) (R : Nat → Nat → K) :
    rotInput nB R = cooOfDense nB (rotDense nB R) := by
  unfold rotInput rotDense cooOfDense
  by_cases h : nB > 1
  · simp [h]
  · simp only [h, if_false]
    have : nB = 0 ∨ nB = 1 := by omega
    rcases this with rfl | rfl
    · simp [scan]
    · rfl

theorem rotInput_bounds (nB : Nat) (R : Nat → Nat → K) :
    ∀ e ∈ rotInput nB R, e.1 < nB ∧ e.2.1 < nB := by
  intro e he
  rw [rotInput_eq] at he
  obtain ⟨a, b, v⟩ := e
  have := (mem_scan (K := K)).mp he
  exact ⟨this.1, this.2.1⟩

/-- The whole assembly in one line: the returned matrix is the row-major scan (zeros not stored) of the value the
statement assigns to each pair. -/
theorem full_eq_scan_spec (nP nB : Nat) (sel : Sel) (f : K) (P R : Nat → Nat → K) (hP : 1 < nP) (hB : 0 < nB) :
    full nP nB sel f P R = scan (nP * nB) (specVal sel nB f P (rotDense nB R)) := by
  unfold full
  have hP' : nP > 1 := hP
  simp only [hP', if_true]
  rw [addCsr_eq_scan]
  apply scan_congr
  intro a ha b hb
  rw [dense_rotEntries _ _ _ _ _ hB (rotInput_bounds nB R), dense_posEntries _ _ _ _ _ _ _ hB, rotInput_eq]
  unfold cooOfDense
  rw [dense_scan]
  have h1 := div_lt_of_lt_mul' ha
  have h2 := div_lt_of_lt_mul' hb
  have h3 := Nat.mod_lt a hB
  have h4 := Nat.mod_lt b hB
  unfold specVal
  simp [h1, h2, h3, h4]

/-! ### antipode fold -/

/-- first non-zero of two values -/
def fnz (x y : K) : K := if x = 0 then y else x

theorem getD_set_eq (l : List K) (o c : Nat) (v : K) (ho : o < l.length) :
    (l.set o v).getD c 0 = if c = o then v else l.getD c 0 := by
  simp only [List.getD_eq_getElem?_getD, List.getElem?_set]
  by_cases h : c = o
  · subst h; simp [ho]
  · have h' : ¬ o = c := fun e => h e.symm
    simp [h, h']

theorem foldStep_length (opp : Nat → Option Nat) (row : List K) (j : Nat) :
    (foldStep opp row j).length = row.length := by
  unfold foldStep
  simp only
  split
  · rfl
  · split
    · rfl
    · simp

theorem foldRow_inv (m : Nat) (opp : Nat → Option Nat) (o : Nat → Nat) (row : List K) (hlen : row.length = m)
    (ho : ∀ j, j < m → opp j = some (o j)) (hinv : ∀ j, j < m → o (o j) = j)
    (hlt : ∀ j, j < m → o j < m) (hne : ∀ j, j < m → o j ≠ j) :
    ∀ t, t ≤ m → ((List.range t).foldl (foldStep opp) row).length = m ∧
      ∀ c, c < m → ((List.range t).foldl (foldStep opp) row).getD c 0
        = if t ≤ o c then row.getD c 0
          else fnz (row.getD (min c (o c)) 0) (row.getD (max c (o c)) 0) := by
  intro t
  induction t with
  | zero => intro _; exact ⟨by simpa using hlen, fun c _ => by simp⟩
  | succ t ih =>
    intro ht
    have htm : t < m := by omega
    obtain ⟨ihlen, ih'⟩ := ih (by omega)
    rw [List.range_succ, List.foldl_append, List.foldl_cons, List.foldl_nil]
    set cur := (List.range t).foldl (foldStep opp) row with hcur
    refine ⟨by rw [foldStep_length]; exact ihlen, ?_⟩
    intro c hc
    have hcur_t := ih' t htm
    have hcur_c := ih' c hc
    have hot := hne t htm
    have holt := hlt t htm
    have hset : ∀ v : K, (cur.set (o t) v).getD c 0 = if c = o t then v else cur.getD c 0 :=
      fun v => getD_set_eq cur (o t) c v (by rw [ihlen]; exact holt)
    have hstep : foldStep opp cur t = if cur.getD t 0 = 0 then cur else cur.set (o t) (cur.getD t 0) := by
      unfold foldStep
      simp only [ho t htm]
    rw [hstep]
    by_cases hco : c = o t
    · -- `c` is the antipode of the column processed now
      have hoc : o c = t := by rw [hco, hinv t htm]
      rw [hoc] at hcur_c ⊢
      rw [if_pos (le_refl t)] at hcur_c
      have hnle : ¬ t + 1 ≤ t := by omega
      rw [if_neg hnle]
      by_cases hlt' : t < o t
      · -- first visit of the pair: column `t` still has its original value
        have h1 : t ≤ o t := by omega
        rw [if_pos h1] at hcur_t
        have hmin : min c t = t := by omega
        have hmax : max c t = c := by omega
        rw [hmin, hmax, hcur_t]
        unfold fnz
        by_cases h0 : row.getD t 0 = 0
        · rw [if_pos h0, if_pos h0, hcur_c]
        · rw [if_neg h0, if_neg h0, hset, if_pos hco]
      · have h1 : ¬ t ≤ o t := by omega
        rw [if_neg h1] at hcur_t
        have hmin : min c t = c := by omega
        have hmax : max c t = t := by omega
        have hmin2 : min t (o t) = c := by omega
        have hmax2 : max t (o t) = t := by omega
        rw [hmin, hmax]
        rw [hmin2, hmax2] at hcur_t
        by_cases h0 : cur.getD t 0 = 0
        · rw [if_pos h0, hcur_c]
          rw [hcur_t] at h0
          unfold fnz at h0 ⊢
          by_cases hc0 : row.getD c 0 = 0
          · rw [if_pos hc0] at h0 ⊢; rw [h0, hc0]
          · rw [if_neg hc0] at h0; exact absurd h0 hc0
        · rw [if_neg h0, hset, if_pos hco, hcur_t]
    · -- other columns are not touched, and their case of the invariant does not change
      have hoc : o c ≠ t := by
        intro h
        apply hco
        rw [← h, hinv c hc]
      have hiff : (t + 1 ≤ o c) ↔ (t ≤ o c) := by omega
      by_cases h0 : cur.getD t 0 = 0
      · rw [if_pos h0, hcur_c]
        simp only [hiff]
      · rw [if_neg h0, hset, if_neg hco, hcur_c]
        simp only [hiff]

/-- Closed form of one folded row: every column gets the first non-zero of (value at the smaller index of its
antipodal pair, value at the larger index). -/
theorem foldRow_spec (m : Nat) (opp : Nat → Option Nat) (o : Nat → Nat) (row : List K) (hlen : row.length = m)
    (ho : ∀ j, j < m → opp j = some (o j)) (hinv : ∀ j, j < m → o (o j) = j)
    (hlt : ∀ j, j < m → o j < m) (hne : ∀ j, j < m → o j ≠ j) (c : Nat) (hc : c < m) :
    (foldRow m opp row).getD c 0 = fnz (row.getD (min c (o c)) 0) (row.getD (max c (o c)) 0) := by
  unfold foldRow
  rw [(foldRow_inv m opp o row hlen ho hinv hlt hne m (le_refl m)).2 c hc]
  have := hlt c hc
  have h : ¬ m ≤ o c := by omega
  simp [h]

theorem getD_range_map (m : Nat) (g : Nat → K) (c : Nat) (hc : c < m) :
    ((List.range m).map g).getD c 0 = g c := by
  simp [List.getD_eq_getElem?_getD, hc]

end

/-! ### position-major / rotation-minor enumeration -/

theorem getElem?_flatMap_map {α β γ : Type} (φ : α → β → γ) (xs : List α) (ys : List β) (n : Nat) :
    (xs.flatMap fun x => ys.map (φ x))[n]?
      = (xs[n / ys.length]?).bind fun x => (ys[n % ys.length]?).map (φ x) := by
  rcases Nat.eq_zero_or_pos ys.length with h0 | hpos
  · have : ys = [] := List.eq_nil_of_length_eq_zero h0
    subst this
    simp
  · induction xs generalizing n with
    | nil => simp
    | cons x xs ih =>
      rw [List.flatMap_cons]
      by_cases hn : n < ys.length
      · rw [List.getElem?_append_left (by simpa using hn), Nat.div_eq_of_lt hn, Nat.mod_eq_of_lt hn]
        simp
      · have hle : ys.length ≤ n := by omega
        rw [List.getElem?_append_right (by simpa using hle), List.length_map, ih]
        obtain ⟨k, rfl⟩ : ∃ k, n = k + ys.length := ⟨n - ys.length, by omega⟩
        rw [Nat.add_sub_cancel, Nat.add_div_right _ hpos, Nat.add_mod_right, List.getElem?_cons_succ]

theorem length_flatMap_map {α β γ : Type} (φ : α → β → γ) (xs : List α) (ys : List β) :
    (xs.flatMap fun x => ys.map (φ x)).length = xs.length * ys.length := by
  induction xs with
  | nil => simp
  | cons x xs ih => rw [List.flatMap_cons, List.length_append, ih, List.length_map, List.length_cons]; ring

theorem map_eq_range_map {α β : Type} (l : List α) (g : α → β) (d : α) :
    l.map g = (List.range l.length).map fun i => g (l.getD i d) := by
  apply List.ext_getElem?
  intro i
  simp only [List.getElem?_map]
  by_cases h : i < l.length
  · simp [List.getD_eq_getElem?_getD, h]
  · have h' : l.length ≤ i := by omega
    simp [h']

end Molgri.FullGrid
