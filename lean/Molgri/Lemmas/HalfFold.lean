/-
Helper lemmas for C04 (antipode fold).  Property theorems are in `Molgri/Props/C04.lean`.
-/
import Molgri.Model.HalfFold
import Mathlib.Data.Rat.Defs
import Mathlib.Algebra.Order.Field.Rat
import Mathlib.Tactic.Linarith

namespace Molgri.HalfFold

variable {α : Type}

/-- The antipode map is a fixed-point-free involution of `{0,…,n-1}` (every grid point has exactly one
    antipode in the grid, and it is another point). -/
def Invol (n : Nat) (opp : Nat → Option Nat) : Prop :=
  ∀ j, j < n → ∃ k, opp j = some k ∧ k < n ∧ k ≠ j ∧ opp k = some j

/-! ### one step of the inner loop -/

theorem foldStep_length (truthy : α → Bool) (opp : Nat → Option Nat) (r : List α) (j : Nat) :
    (foldStep truthy opp r j).length = r.length := by
  unfold foldStep
  split
  · split
    · split <;> simp
    · rfl
  · rfl

theorem foldStep_getD (truthy : α → Bool) (opp : Nat → Option Nat) (r : List α) (j x : Nat) (d : α) :
    (foldStep truthy opp r j).getD x d =
      if j < r.length ∧ truthy (r.getD j d) = true ∧ opp j = some x ∧ x < r.length
      then r.getD j d else r.getD x d := by
  unfold foldStep
  by_cases hj : j < r.length
  · have h1 : r[j]? = some r[j] := List.getElem?_eq_getElem hj
    have h2 : r.getD j d = r[j] := by simp [List.getD_eq_getElem?_getD, h1]
    rw [h1, h2]
    dsimp only
    by_cases ht : truthy r[j] = true
    · rw [if_pos ht]
      cases ho : opp j with
      | none => simp
      | some k =>
        dsimp only
        by_cases hk : k = x
        · subst hk
          by_cases hx : k < r.length
          · simp [List.getD_eq_getElem?_getD, hj, ht, hx]
          · have : r.set k r[j] = r := by
              apply List.set_eq_of_length_le; omega
            simp [this, hx]
        · have hne : ¬ (some k = some x) := by simpa using hk
          simp only [List.getD_eq_getElem?_getD, List.getElem?_set, hk, if_false, hne, false_and, and_false]
    · rw [if_neg ht]
      simp [ht]
  · have h1 : r[j]? = none := List.getElem?_eq_none (by omega)
    rw [h1]
    simp [hj]

/-! ### the row after `m` columns -/

theorem foldUpTo_succ (truthy : α → Bool) (opp : Nat → Option Nat) (m : Nat) (r : List α) :
    foldUpTo truthy opp (m + 1) r = foldStep truthy opp (foldUpTo truthy opp m r) m := by
  unfold foldUpTo
  rw [List.range_succ, List.foldl_append]
  rfl

theorem foldUpTo_length (truthy : α → Bool) (opp : Nat → Option Nat) (m : Nat) (r : List α) :
    (foldUpTo truthy opp m r).length = r.length := by
  induction m with
  | zero => rfl
  | succ m ih => rw [foldUpTo_succ, foldStep_length, ih]

/-- Closed form of entry `x` of the row after the columns `< m` were visited (`k` = antipode of `x`). -/
def val (truthy : α → Bool) (opp : Nat → Option Nat) (r : List α) (d : α) (m x : Nat) : α :=
  match opp x with
  | none => r.getD x d
  | some k =>
    if x < k then
      if truthy (r.getD x d) then r.getD x d
      else if k < m ∧ truthy (r.getD k d) = true then r.getD k d else r.getD x d
    else if k < m ∧ truthy (r.getD k d) = true then r.getD k d else r.getD x d

theorem foldUpTo_getD (truthy : α → Bool) (opp : Nat → Option Nat) (r : List α) (d : α)
    (hinv : Invol r.length opp) (m : Nat) (hm : m ≤ r.length) :
    ∀ x, x < r.length → (foldUpTo truthy opp m r).getD x d = val truthy opp r d m x := by
  induction m with
  | zero =>
    intro x hx
    obtain ⟨k, hk, _, hne, _⟩ := hinv x hx
    simp only [foldUpTo, List.range_zero, List.foldl_nil, val, hk]
    simp
  | succ m ih =>
    intro x hx
    have ih' := ih (by omega)
    have hmn : m < r.length := by omega
    rw [foldUpTo_succ, foldStep_getD, foldUpTo_length, ih' m hmn, ih' x hx]
    obtain ⟨k, hk, hkn, hkne, hkk⟩ := hinv x hx
    obtain ⟨km, hkm, hkmn, hkmne, hkmk⟩ := hinv m hmn
    by_cases hxm : opp m = some x
    · -- x is the antipode of m
      have hkm' : km = x := by rw [hkm] at hxm; exact Option.some.inj hxm
      subst hkm'
      have hkx : k = m := by rw [hkmk] at hk; exact (Option.some.inj hk).symm
      subst hkx
      simp only [val, hk, hkm]
      generalize r.getD km d = a
      generalize r.getD k d = b
      by_cases hlt : km < k
      · -- x low, m high
        have hn : ¬ k < km := by omega
        by_cases t1 : truthy a = true <;> by_cases t2 : truthy b = true <;>
          simp [hlt, hn, hmn, hx, t1, t2]
      · -- m low, x high
        have hn : k < km := by omega
        by_cases t1 : truthy a = true <;> by_cases t2 : truthy b = true <;>
          simp [hlt, hn, hmn, hx, t1, t2]
    · -- the step does not touch x, and the closed form does not change
      have hkm' : k ≠ m := by
        intro h; subst h; rw [hkk] at hkm; exact hxm (by rw [hkm]; rw [hkm] at hkk; exact hkk.symm ▸ rfl)
      simp only [hxm, false_and, and_false, if_false]
      simp only [val, hk]
      have : (k < m + 1) ↔ (k < m) := by
        constructor <;> intro h <;> omega
      simp only [this]

/-- Closed form of the whole row loop: with `k` the antipode of column `x`,
    the lower index of the pair `{x, k}` has priority when its entry is non-zero. -/
theorem foldRow_getD (truthy : α → Bool) (opp : Nat → Option Nat) (r : List α) (d : α)
    (hinv : Invol r.length opp) (x k : Nat) (hx : x < r.length) (hk : opp x = some k) :
    (foldRow truthy opp r).getD x d =
      if x < k then
        if truthy (r.getD x d) then r.getD x d
        else if truthy (r.getD k d) then r.getD k d else r.getD x d
      else if truthy (r.getD k d) then r.getD k d else r.getD x d := by
  unfold foldRow
  rw [foldUpTo_getD truthy opp r d hinv r.length (Nat.le_refl _) x hx]
  obtain ⟨k', hk', hkn, _, _⟩ := hinv x hx
  have : k' = k := by rw [hk] at hk'; exact (Option.some.inj hk').symm
  subst this
  simp only [val, hk, hkn, true_and]

theorem foldRow_length (truthy : α → Bool) (opp : Nat → Option Nat) (r : List α) :
    (foldRow truthy opp r).length = r.length := foldUpTo_length _ _ _ _

/-! ### matrices -/

/-- Entry `(i, j)` of a matrix given as a list of rows (`d` outside). -/
def ent (A : List (List α)) (d : α) (i j : Nat) : α := (A.getD i []).getD j d

/-- `A` is an `n × n` array. -/
def Square (n : Nat) (A : List (List α)) : Prop := A.length = n ∧ ∀ row ∈ A, row.length = n

theorem foldRow_nil (truthy : α → Bool) (opp : Nat → Option Nat) : foldRow truthy opp ([] : List α) = [] := rfl

theorem foldMat_getD (truthy : α → Bool) (opp : Nat → Option Nat) (A : List (List α)) (i : Nat) :
    (foldMat truthy opp A).getD i [] = foldRow truthy opp (A.getD i []) := by
  unfold foldMat
  by_cases hi : i < A.length
  · simp [List.getD_eq_getElem?_getD, hi]
  · simp [List.getD_eq_getElem?_getD, List.getElem?_eq_none (Nat.le_of_not_lt hi), foldRow_nil]

theorem Square.row_length {n : Nat} {A : List (List α)} (h : Square n A) {i : Nat} (hi : i < n) :
    (A.getD i []).length = n := by
  have hi' : i < A.length := by rw [h.1]; exact hi
  have : A.getD i [] = A[i] := by simp [List.getD_eq_getElem?_getD, hi']
  rw [this]
  exact h.2 _ (List.getElem_mem hi')

theorem foldMat_square (truthy : α → Bool) (opp : Nat → Option Nat) {n : Nat} {A : List (List α)}
    (h : Square n A) : Square n (foldMat truthy opp A) := by
  refine ⟨by simp [foldMat, h.1], ?_⟩
  intro row hrow
  simp only [foldMat, List.mem_map] at hrow
  obtain ⟨r, hr, rfl⟩ := hrow
  rw [foldRow_length]; exact h.2 r hr

/-- Entry formula of the folded matrix (any row `i`, any column `x` with antipode `k`). -/
theorem foldMat_ent (truthy : α → Bool) (opp : Nat → Option Nat) {n : Nat} (A : List (List α)) (d : α)
    (hA : Square n A) (hinv : Invol n opp) (i x k : Nat) (hi : i < n) (hx : x < n) (hk : opp x = some k) :
    ent (foldMat truthy opp A) d i x =
      if x < k then
        if truthy (ent A d i x) then ent A d i x
        else if truthy (ent A d i k) then ent A d i k else ent A d i x
      else if truthy (ent A d i k) then ent A d i k else ent A d i x := by
  unfold ent
  rw [foldMat_getD]
  have hl := hA.row_length hi
  exact foldRow_getD truthy opp _ d (by rw [hl]; exact hinv) x k (by rw [hl]; exact hx) hk

/-! ### extraction by NaN masking -/

theorem pick_map_map {β γ : Type} (xs : List γ) (p : γ → Bool) (f : γ → β) :
    pick (xs.map p) (xs.map f) = (xs.filter p).map f := by
  unfold pick
  rw [List.zip_map']
  induction xs with
  | nil => rfl
  | cons a xs ih =>
    simp only [List.map_cons, List.filterMap_cons, List.filter_cons]
    cases hp : p a <;> simp [ih]

theorem extractUpper_eq_submatrix {n : Nat} (A : List (List α)) (hA : Square n A) (p : Nat → Bool)
    (avail : List Nat) (havail : avail = (List.range n).filter p) :
    extractUpper avail A = submatrix avail A := by
  have hmem : ∀ i, i ∈ avail ↔ i < n ∧ p i = true := by
    intro i; rw [havail]; simp [List.mem_filter]
  have hlen := hA.1
  -- rows of the masked matrix
  let rowM : Nat → List (Option α) := fun i =>
    (List.range n).map fun j => if i ∈ avail ∨ j ∈ avail then (A.getD i [])[j]? else none
  have hM : maskUpper avail A = (List.range n).map rowM := by
    unfold maskUpper
    rw [hlen]
    apply List.map_congr_left
    intro i hi
    have hi' : i < n := List.mem_range.mp hi
    simp only [rowM, hA.row_length hi']
  have hsome : ∀ i j, i < n → j < n → ((A.getD i [])[j]?).isSome = true := by
    intro i j hi hj
    have := hA.row_length hi
    have hj' : j < (A.getD i []).length := by rw [this]; exact hj
    rw [List.getElem?_eq_getElem hj']; rfl
  have hvr : validRows (maskUpper avail A) = (List.range n).map p := by
    rw [hM]; unfold validRows
    rw [List.map_map]
    apply List.map_congr_left
    intro i hi
    have hi' : i < n := List.mem_range.mp hi
    simp only [Function.comp, rowM]
    cases hp : p i
    · -- column i is NaN in row i
      rw [Bool.eq_false_iff]
      intro hall
      rw [List.all_eq_true] at hall
      have := hall _ (List.mem_map.mpr ⟨i, hi, rfl⟩)
      have hn : ¬ (i ∈ avail) := by rw [hmem]; simp [hp]
      simp [hn] at this
    · rw [List.all_eq_true]
      intro o ho
      obtain ⟨j, hj, rfl⟩ := List.mem_map.mp ho
      have hy : i ∈ avail := (hmem i).mpr ⟨hi', hp⟩
      simp only [hy, true_or, if_true]
      exact hsome i j hi' (List.mem_range.mp hj)
  have hvc : validCols A.length (maskUpper avail A) = (List.range n).map p := by
    rw [hM, hlen]; unfold validCols
    apply List.map_congr_left
    intro j hj
    have hj' : j < n := List.mem_range.mp hj
    have hrow : ∀ i, i < n → ((rowM i)[j]?).join =
        if i ∈ avail ∨ j ∈ avail then (A.getD i [])[j]? else none := by
      intro i hi
      simp [rowM, hj']
    cases hp : p j
    · rw [Bool.eq_false_iff]
      intro hall
      rw [List.all_eq_true] at hall
      have := hall _ (List.mem_map.mpr ⟨j, hj, rfl⟩)
      rw [hrow j hj'] at this
      have hn : ¬ (j ∈ avail) := by rw [hmem]; simp [hp]
      simp [hn] at this
    · rw [List.all_eq_true]
      intro row hrow'
      obtain ⟨i, hi, rfl⟩ := List.mem_map.mp hrow'
      have hi' : i < n := List.mem_range.mp hi
      rw [hrow i hi']
      have hy : j ∈ avail := (hmem j).mpr ⟨hj', hp⟩
      simp only [hy, or_true, if_true]
      exact hsome i j hi' hj'
  unfold extractUpper
  simp only [hvr, hvc]
  rw [hM, pick_map_map, ← havail, List.map_map]
  unfold submatrix
  apply List.map_congr_left
  intro i hi
  have hi' : i < n := ((hmem i).mp hi).1
  simp only [Function.comp, rowM]
  rw [pick_map_map, ← havail]
  apply List.map_congr_left
  intro j hj
  have hiA : i < A.length := by rw [hlen]; exact hi'
  simp [hi, List.getD_eq_getElem?_getD, hiA]

/-! ### the antipode map of a double cover `G ++ -G` -/

theorem absQ_nonneg (x : Rat) : 0 ≤ absQ x := by
  unfold absQ; split <;> linarith

theorem isclose_self (a : Rat) : isclose a a = true := by
  unfold isclose
  have h0 : absQ (a - a) = 0 := by
    have : a - a = 0 := sub_self a
    rw [this]; unfold absQ; simp
  have h1 := absQ_nonneg a
  have h2 : (0 : Rat) < atol := by unfold atol; norm_num
  have h3 : (0 : Rat) < rtol := by unfold rtol; norm_num
  rw [h0]
  have : 0 ≤ rtol * absQ a := mul_nonneg (le_of_lt h3) h1
  exact decide_eq_true (by linarith)

theorem rowClose_self (q : List Rat) : rowClose q q = true := by
  unfold rowClose
  induction q with
  | nil => rfl
  | cons a q ih => simp [isclose_self]

theorem negRow_negRow (q : List Rat) : negRow (negRow q) = q := by
  unfold negRow; simp

/-- No earlier row of the grid is `isclose` to a later one (validated on every explored grid): the first
    `isclose` match of a grid row is the row itself. -/
def Sep (grid : List (List Rat)) : Prop :=
  ∀ a b, b < a → a < grid.length → rowClose (grid.getD a []) (grid.getD b []) = false

theorem whichRowIsK_head {grid : List (List Rat)} (hsep : Sep grid) (a : Nat) (ha : a < grid.length) :
    (whichRowIsK grid (grid.getD a [])).head? = some a := by
  unfold whichRowIsK
  rw [List.head?_filter, List.find?_range_eq_some]
  refine ⟨rowClose_self _, List.mem_range.mpr ha, ?_⟩
  intro b hb
  rw [hsep a b hb ha]; rfl

/-- The double cover: `full[:N] = G; full[N+i] = -G[i]`. -/
def cover (G : List (List Rat)) : List (List Rat) := G ++ G.map negRow

theorem cover_length (G : List (List Rat)) : (cover G).length = 2 * G.length := by
  unfold cover; simp; omega

theorem cover_getD_lo (G : List (List Rat)) (d : Nat) (hd : d < G.length) :
    (cover G).getD d [] = G.getD d [] := by
  unfold cover
  simp [List.getD_eq_getElem?_getD, List.getElem?_append_left hd]

theorem cover_getD_hi (G : List (List Rat)) (d : Nat) (hd : d < G.length) :
    (cover G).getD (d + G.length) [] = negRow (G.getD d []) := by
  unfold cover
  have : G.length ≤ d + G.length := by omega
  simp [List.getD_eq_getElem?_getD, hd]

/-- Antipode index in the layout `G ++ -G`. -/
def oppIdx (N d : Nat) : Nat := if d < N then d + N else d - N

theorem cover_neg (G : List (List Rat)) (d : Nat) (hd : d < 2 * G.length) :
    negRow ((cover G).getD d []) = (cover G).getD (oppIdx G.length d) [] := by
  unfold oppIdx
  by_cases h : d < G.length
  · rw [if_pos h, cover_getD_lo G d h, cover_getD_hi G d h]
  · rw [if_neg h]
    have h2 : d - G.length < G.length := by omega
    have h3 : d = (d - G.length) + G.length := by omega
    rw [cover_getD_lo G _ h2]
    conv_lhs => rw [h3]
    rw [cover_getD_hi G _ h2, negRow_negRow]

theorem oppTableOf_len (ms : List (List Nat)) : oppTableOf .len ms = .ok (ms.map List.head?) := by
  unfold oppTableOf
  have : (guardOpp .len) = fun l => (pure (List.head? l) : Except String (Option Nat)) := by
    funext l; rfl
  rw [this]
  exact List.mapM_pure

/-- With the length guard the antipode table of a separated double cover is `d ↦ d ± N` for every `d`. -/
theorem ind2opp_cover (G : List (List Rat)) (hsep : Sep (cover G)) :
    ind2opp .len (cover G) = .ok ((List.range (2 * G.length)).map fun d => some (oppIdx G.length d)) := by
  unfold ind2opp
  rw [oppTableOf_len, List.map_map]
  congr 1
  apply List.ext_getElem
  · simp [cover_length]
  · intro d h1 h2
    have hd : d < 2 * G.length := by simpa using h2
    simp only [List.getElem_map, Function.comp, List.getElem_range]
    have hdc : d < (cover G).length := by rw [cover_length]; exact hd
    have hrow : (cover G)[d] = (cover G).getD d [] := by
      simp [List.getD_eq_getElem?_getD, hdc]
    rw [hrow, cover_neg G d hd]
    apply whichRowIsK_head hsep
    rw [cover_length]; unfold oppIdx; split <;> omega

theorem invol_oppIdx (N : Nat) :
    Invol (2 * N) (oppFn ((List.range (2 * N)).map fun d => some (oppIdx N d))) := by
  intro j hj
  have key : ∀ x, x < 2 * N →
      oppFn ((List.range (2 * N)).map fun d => some (oppIdx N d)) x = some (oppIdx N x) := by
    intro x hx; simp [oppFn, hx]
  have hk : oppIdx N j < 2 * N := by unfold oppIdx; split <;> omega
  refine ⟨oppIdx N j, key j hj, hk, ?_, ?_⟩
  · unfold oppIdx; split <;> omega
  · rw [key _ hk]; congr 1; unfold oppIdx; split <;> split <;> omega

/-- In a double cover whose first half lies in the upper hemisphere and whose second half does not, the
    available (upper) indices are exactly `0 … N-1`. -/
theorem upperIdx_cover (G : List (List Rat))
    (hup : ∀ d, d < G.length → qInUpper (G.getD d []) = true ∧ qInUpper (negRow (G.getD d [])) = false) :
    upperIdx (cover G) = List.range G.length := by
  unfold upperIdx
  rw [cover_length, Nat.two_mul, List.range_add, List.filter_append]
  have h1 : (List.range G.length).filter (fun i => qInUpper ((cover G).getD i [])) = List.range G.length := by
    rw [List.filter_eq_self]
    intro d hd
    have hd' := List.mem_range.mp hd
    rw [cover_getD_lo G d hd']; exact (hup d hd').1
  have h2 : ((List.range G.length).map (G.length + ·)).filter (fun i => qInUpper ((cover G).getD i [])) = [] := by
    rw [List.filter_eq_nil_iff]
    intro x hx
    obtain ⟨d, hd, rfl⟩ := List.mem_map.mp hx
    have hd' := List.mem_range.mp hd
    rw [Nat.add_comm, cover_getD_hi G d hd', (hup d hd').2]; simp
  rw [h1, h2, List.append_nil]

/-! ### soundness of the executable hypothesis validators -/

theorem sep_of_sepB {grid : List (List Rat)} (h : sepB grid = true) : Sep grid := by
  intro a b hba ha
  unfold sepB at h
  rw [List.all_eq_true] at h
  have h1 := h a (List.mem_range.mpr ha)
  rw [List.all_eq_true] at h1
  have h2 := h1 b (List.mem_range.mpr hba)
  simpa using h2

theorem hup_of_hupB {G : List (List Rat)} (h : hupB G = true) :
    ∀ d, d < G.length → qInUpper (G.getD d []) = true ∧ qInUpper (negRow (G.getD d [])) = false := by
  intro d hd
  unfold hupB at h
  rw [List.all_eq_true] at h
  have := h d (List.mem_range.mpr hd)
  simpa using this

theorem entQ_eq_ent (A : List (List Rat)) (i j : Nat) : entQ A i j = ent A 0 i j := rfl

theorem square_of_squareB {n : Nat} {A : List (List Rat)} (h : squareB n A = true) : Square n A := by
  unfold squareB at h
  rw [Bool.and_eq_true, List.all_eq_true] at h
  refine ⟨by simpa using h.1, ?_⟩
  intro row hrow
  simpa using h.2 row hrow

theorem sym_of_symB {n : Nat} {A : List (List Rat)} (h : symB n A = true) :
    ∀ a b, a < n → b < n → ent A 0 a b = ent A 0 b a := by
  intro a b ha hb
  unfold symB at h
  rw [List.all_eq_true] at h
  have h1 := h a (List.mem_range.mpr ha)
  rw [List.all_eq_true] at h1
  have h2 := h1 b (List.mem_range.mpr hb)
  simpa [entQ_eq_ent] using of_decide_eq_true h2

theorem anti_of_antiB {N : Nat} {A : List (List Rat)} (h : antiB N A = true) :
    ∀ a b, a < 2 * N → b < 2 * N → ent A 0 (oppIdx N a) (oppIdx N b) = ent A 0 a b := by
  intro a b ha hb
  unfold antiB at h
  rw [List.all_eq_true] at h
  have h1 := h a (List.mem_range.mpr ha)
  rw [List.all_eq_true] at h1
  have h2 := h1 b (List.mem_range.mpr hb)
  simpa [entQ_eq_ent, oppIdx] using of_decide_eq_true h2

theorem cover_of_coverB {grid : List (List Rat)} (h : coverB grid = true) :
    grid = cover (grid.take (grid.length / 2)) := by
  unfold coverB at h
  simp only [Bool.and_eq_true, decide_eq_true_eq] at h
  unfold cover
  rw [← h.2, List.take_append_drop]

end Molgri.HalfFold
