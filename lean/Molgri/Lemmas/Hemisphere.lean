/-
Helper lemmas for C07 (canonical hemisphere, double cover, half selection, radial projection).
Property theorems are in `Molgri/Props/C07.lean`.
-/
import Molgri.Model.Hemisphere
import Mathlib.Algebra.Order.Field.Basic
import Mathlib.Tactic.Ring
import Mathlib.Tactic.Linarith
import Mathlib.Tactic.FieldSimp
import Mathlib.Data.List.Basic
import Mathlib.Data.List.GetD
import Mathlib.Data.List.Perm.Subperm
import Mathlib.Data.List.Nodup
import Mathlib.Algebra.Order.Field.Rat
import Mathlib.Data.Rat.Defs

set_option linter.unusedSectionVars false
namespace Molgri.Hemi

/-! ### plain list facts -/


theorem filter_range_map_getD {α : Type} (d : α) (p : α → Bool) : ∀ (l : List α),
    ((List.range l.length).filter (fun i => p (l.getD i d))).map (fun i => l.getD i d) = l.filter p
  | [] => rfl
  | x :: xs => by
    have ih := filter_range_map_getD d p xs
    have h2 : (fun i => (x :: xs).getD i d) ∘ Nat.succ = fun i => xs.getD i d := by
      funext i; simp
    have h3 : ((fun i => p ((x :: xs).getD i d)) ∘ Nat.succ) = fun i => p (xs.getD i d) := by
      funext i; simp
    rw [List.length_cons, List.range_succ_eq_map, List.filter_cons, List.filter_map, h3]
    simp only [List.getD_cons_zero]
    by_cases hx : p x = true
    · rw [if_pos hx, List.map_cons, List.map_map, h2, ih, List.getD_cons_zero, List.filter_cons, if_pos hx]
    · rw [if_neg hx, List.map_map, h2, ih, List.filter_cons, if_neg hx]

/-- the first index satisfying `f` in `range n` -/
theorem filter_range_head {n j : Nat} (f : Nat → Bool) (hj : j < n) (hf : f j = true)
    (hlt : ∀ i, i < j → f i = false) : ∃ t, (List.range n).filter f = j :: t := by
  obtain ⟨k, rfl⟩ : ∃ k, n = j + (k + 1) := ⟨n - j - 1, by omega⟩
  rw [List.range_add, List.filter_append]
  have h1 : (List.range j).filter f = [] := by
    rw [List.filter_eq_nil_iff]
    intro i hi; rw [List.mem_range] at hi; simp [hlt i hi]
  rw [h1, List.nil_append, List.range_succ_eq_map, List.map_cons, List.filter_cons]
  simp [hf]

theorem any_and_left {α} (l : List α) (a : Bool) (f : α → Bool) :
    (l.any fun i => a && f i) = (a && l.any f) := by
  induction l with
  | nil => simp
  | cons x xs ih => simp only [List.any_cons, ih]; cases a <;> simp


variable {K : Type} [Field K] [LinearOrder K] [IsStrictOrderedRing K]

/-! ### the hemisphere test -/

theorem small_iff (tol x : K) : small tol x = true ↔ |x| ≤ tol := by
  unfold small
  simp only [Bool.and_eq_true, decide_eq_true_eq, abs_le]

theorem small_zero_iff (x : K) : small 0 x = true ↔ x = 0 := by
  rw [small_iff]; exact abs_nonpos_iff

/-- every coordinate is exactly zero or exceeds the tolerance in size -/
def Gap (tol : K) (q : List K) : Prop := ∀ x ∈ q, x = 0 ∨ tol < |x|
/-- some coordinate is non-zero -/
def NonZero (q : List K) : Prop := ∃ x ∈ q, x ≠ 0

theorem upperRec_gap {tol : K} (ht : 0 ≤ tol) : ∀ {q : List K}, Gap tol q → upperRec tol q = upperRec 0 q
  | [], _ => rfl
  | x :: xs, h => by
    have hx := h x (by simp)
    have ih := upperRec_gap ht (q := xs) (fun y hy => h y (by simp [hy]))
    simp only [upperRec, ih]
    congr 2
    rw [Bool.eq_iff_iff, small_iff, small_zero_iff]
    constructor
    · intro h1
      rcases hx with h0 | h0
      · exact h0
      · exact absurd h1 (not_le.mpr h0)
    · intro h0; simpa [h0] using ht

theorem neg_cons (x : K) (xs : List K) : neg (x :: xs) = -x :: neg xs := rfl

theorem upperRec_neg : ∀ {q : List K}, NonZero q → upperRec 0 (neg q) = !upperRec 0 q
  | [], h => by obtain ⟨x, hx, _⟩ := h; simp at hx
  | x :: xs, h => by
    rw [neg_cons, upperRec, upperRec]
    rcases lt_trichotomy x 0 with hx | hx | hx
    · have h1 : (0:K) < -x := by linarith
      have h2 : ¬ (0 < x) := by linarith
      have h3 : small 0 x = false := by
        rw [Bool.eq_false_iff, Ne, small_zero_iff]; exact ne_of_lt hx
      simp [h1, h2, h3]
    · subst hx
      have hxs : NonZero xs := by
        obtain ⟨y, hy, hy0⟩ := h
        simp only [List.mem_cons] at hy
        rcases hy with rfl | hy
        · exact absurd rfl hy0
        · exact ⟨y, hy, hy0⟩
      have ih := upperRec_neg hxs
      have hs : small (0:K) 0 = true := by rw [small_zero_iff]
      simp [ih, hs]
    · have h1 : ¬ ((0:K) < -x) := by linarith
      have h3 : small 0 (-x) = false := by
        rw [Bool.eq_false_iff, Ne, small_zero_iff]; intro h0; linarith
      simp [h1, hx, h3]

theorem scale_cons (c x : K) (xs : List K) : scale c (x :: xs) = c * x :: scale c xs := rfl

theorem upperRec_scale {c : K} (hc : 0 < c) : ∀ (q : List K), upperRec 0 (scale c q) = upperRec 0 q
  | [] => rfl
  | x :: xs => by
    rw [scale_cons, upperRec, upperRec, upperRec_scale hc xs]
    congr 1
    · simp [mul_pos_iff_of_pos_left hc]
    · congr 1
      rw [Bool.eq_iff_iff, small_zero_iff, small_zero_iff]
      constructor
      · intro h; rcases mul_eq_zero.mp h with h | h
        · exact absurd h (ne_of_gt hc)
        · exact h
      · intro h; simp [h]

theorem upper_cons (tol x : K) (xs : List K) :
    upper tol (x :: xs) = (decide (0 < x) || (small tol x && upper tol xs)) := by
  unfold upper
  simp only [List.length_cons, List.range_succ_eq_map, List.any_cons, List.take_zero, smallAll, List.all_nil,
    Bool.true_and, List.getD_cons_zero, List.any_map]
  congr 1
  rw [← any_and_left]
  congr 1
  funext i
  simp [Function.comp, List.take_succ_cons, List.all_cons, Bool.and_assoc]

theorem upper_eq_rec (tol : K) (q : List K) : upper tol q = upperRec tol q := by
  induction q with
  | nil => simp [upper, upperRec]
  | cons x xs ih => rw [upper_cons, upperRec, ih]

theorem smallAll_take_iff (tol : K) (q : List K) (i : Nat) (hi : i ≤ q.length) :
    smallAll tol (q.take i) = true ↔ ∀ j, j < i → |q.getD j 0| ≤ tol := by
  unfold smallAll
  rw [List.all_eq_true]
  constructor
  · intro h j hj
    have hj' : j < (q.take i).length := by rw [List.length_take]; omega
    have := h ((q.take i)[j]) (List.getElem_mem hj')
    rw [small_iff, List.getElem_take] at this
    rw [List.getD_eq_getElem (l := q) (d := 0) (by omega)]
    exact this
  · intro h x hx
    obtain ⟨j, hj, rfl⟩ := List.getElem_of_mem hx
    rw [List.length_take] at hj
    rw [small_iff, List.getElem_take]
    have := h j (by omega)
    rwa [List.getD_eq_getElem (l := q) (d := 0) (by omega)] at this

theorem upper_spec (tol : K) (q : List K) :
    upper tol q = true ↔ ∃ i, i < q.length ∧ (∀ j, j < i → |q.getD j 0| ≤ tol) ∧ 0 < q.getD i 0 := by
  unfold upper
  rw [List.any_eq_true]
  constructor
  · rintro ⟨i, hi, h⟩
    rw [List.mem_range] at hi
    rw [Bool.and_eq_true, decide_eq_true_eq, smallAll_take_iff tol q i (le_of_lt hi)] at h
    exact ⟨i, hi, h.1, h.2⟩
  · rintro ⟨i, hi, h1, h2⟩
    refine ⟨i, List.mem_range.mpr hi, ?_⟩
    rw [Bool.and_eq_true, decide_eq_true_eq, smallAll_take_iff tol q i (le_of_lt hi)]
    exact ⟨h1, h2⟩


/-! ### norms, scaling, gauges -/

theorem absK_eq (x : K) : absK x = |x| := by
  unfold absK; split
  · rw [abs_of_neg ‹_›]
  · rw [abs_of_nonneg (not_lt.mp ‹_›)]

theorem maxK_eq (a b : K) : maxK a b = max a b := by
  unfold maxK; split
  · rw [max_eq_right (le_of_lt ‹_›)]
  · rw [max_eq_left (not_lt.mp ‹_›)]

theorem supNorm_nonneg : ∀ (p : List K), 0 ≤ supNorm p
  | [] => le_refl _
  | x :: xs => by
    simp only [supNorm, maxK_eq, absK_eq]
    exact le_max_of_le_left (abs_nonneg x)

theorem supNorm_scale {c : K} (hc : 0 ≤ c) : ∀ (p : List K), supNorm (scale c p) = c * supNorm p
  | [] => by simp [supNorm, scale]
  | x :: xs => by
    have ih := supNorm_scale hc xs
    simp only [scale, List.map_cons, supNorm, maxK_eq, absK_eq] at ih ⊢
    rw [ih, abs_mul, abs_of_nonneg hc, mul_max_of_nonneg _ _ hc]

theorem supNorm_neg : ∀ (p : List K), supNorm (neg p) = supNorm p
  | [] => rfl
  | x :: xs => by
    have ih := supNorm_neg xs
    simp only [neg, List.map_cons, supNorm, maxK_eq, absK_eq, abs_neg] at ih ⊢
    rw [ih]

theorem scale_one (p : List K) : scale 1 p = p := by
  unfold scale; simp

theorem scale_scale (a b : K) (p : List K) : scale a (scale b p) = scale (a * b) p := by
  unfold scale; simp [mul_assoc]

theorem scale_neg (c : K) (p : List K) : scale c (neg p) = neg (scale c p) := by
  unfold scale neg; simp

theorem neg_neg' (p : List K) : neg (neg p) = p := by
  unfold neg; simp

theorem neg_eq_scale (p : List K) : neg p = scale (-1) p := by
  unfold scale neg; simp

/-- Radial projection is injective on a level set of a positively homogeneous gauge. -/
theorem gauge_injective (g : List K → K) (hg : ∀ c : K, 0 < c → ∀ p, g (scale c p) = c * g p)
    {x y : List K} {a b : K} (ha : 0 < a) (hb : 0 < b) (hxy : scale a x = scale b y)
    (hgx : g x = g y) (hpos : 0 < g y) : x = y := by
  have h1 : a * g x = b * g y := by rw [← hg a ha, ← hg b hb, hxy]
  rw [hgx] at h1
  have hab : a = b := by
    have := mul_right_cancel₀ (ne_of_gt hpos) h1
    exact this
  subst hab
  have := congrArg (scale a⁻¹) hxy
  rw [scale_scale, scale_scale, inv_mul_cancel₀ (ne_of_gt ha), scale_one, scale_one] at this
  exact this


/-! ### negation, gap validator, closeness, index lists -/

theorem mem_neg_iff {q : List K} {y : K} : y ∈ neg q ↔ ∃ x ∈ q, y = -x := by
  unfold neg; simp only [List.mem_map]; constructor
  · rintro ⟨x, hx, rfl⟩; exact ⟨x, hx, rfl⟩
  · rintro ⟨x, hx, rfl⟩; exact ⟨x, hx, rfl⟩

theorem Gap.neg {tol : K} {q : List K} (h : Gap tol q) : Gap tol (neg q) := by
  intro y hy
  obtain ⟨x, hx, rfl⟩ := mem_neg_iff.mp hy
  rcases h x hx with h0 | h0
  · left; simp [h0]
  · right; rwa [abs_neg]

theorem NonZero.neg {q : List K} (h : NonZero q) : NonZero (neg q) := by
  obtain ⟨x, hx, h0⟩ := h
  exact ⟨-x, mem_neg_iff.mpr ⟨x, hx, rfl⟩, by simpa using h0⟩

theorem upper_neg {tol : K} (ht : 0 ≤ tol) {q : List K} (hg : Gap tol q) (hn : NonZero q) :
    upper tol (neg q) = !upper tol q := by
  rw [upper_eq_rec, upper_eq_rec, upperRec_gap ht hg.neg, upperRec_gap ht hg, upperRec_neg hn]

theorem nonZero_of_upper {tol : K} {q : List K} (h : upper tol q = true) : NonZero q := by
  obtain ⟨i, hi, _, hpos⟩ := (upper_spec tol q).mp h
  refine ⟨q.getD i 0, ?_, ne_of_gt hpos⟩
  rw [List.getD_eq_getElem (l := q) (d := 0) hi]; exact List.getElem_mem hi

theorem neg_injective {p q : List K} (h : neg p = neg q) : p = q := by
  have := congrArg neg h; rwa [neg_neg', neg_neg'] at this

theorem length_neg (p : List K) : (neg p).length = p.length := by unfold neg; simp

theorem gapOk_iff {tol : K} (q : List K) : gapOk tol q = true ↔ Gap tol q := by
  unfold gapOk Gap
  rw [List.all_eq_true]
  refine forall_congr' fun x => forall_congr' fun _ => ?_
  constructor
  · intro h
    by_cases hx : x = 0
    · left; exact hx
    · right
      by_contra hc
      have hs : small tol x = true := (small_iff tol x).mpr (not_lt.mp hc)
      rw [hs] at h
      simp only [Bool.not_true, Bool.false_or, Bool.and_eq_true, Bool.not_eq_true', decide_eq_false_iff_not] at h
      exact hx (le_antisymm (not_lt.mp h.2) (not_lt.mp h.1))
  · rintro (h | h)
    · subst h; simp
    · have hs : small tol x = false := by
        rw [Bool.eq_false_iff, Ne, small_iff]; exact not_le.mpr h
      simp [hs]

theorem isclose_refl {atol rtol : K} (ha : 0 ≤ atol) (hr : 0 ≤ rtol) (a : K) : isclose atol rtol a a = true := by
  unfold isclose
  rw [decide_eq_true_eq, sub_self, absK_eq, absK_eq, abs_zero]
  exact add_nonneg ha (mul_nonneg hr (abs_nonneg a))

theorem rowClose_refl {atol rtol : K} (ha : 0 ≤ atol) (hr : 0 ≤ rtol) : ∀ (r : List K), rowClose atol rtol r r = true
  | [] => rfl
  | x :: xs => by rw [rowClose, isclose_refl ha hr, rowClose_refl ha hr xs]; rfl

theorem mapM_ok {α β : Type} (f : α → Except String β) (g : α → β) :
    ∀ (l : List α), (∀ a ∈ l, f a = .ok (g a)) → l.mapM f = .ok (l.map g)
  | [], _ => rfl
  | a :: l, h => by
    rw [List.mapM_cons, h a (by simp), mapM_ok f g l (fun b hb => h b (by simp [hb]))]
    rfl

theorem upperIdx_pairwise (tol : K) (G : List (List K)) : (upperIdx tol G).Pairwise (· < ·) := by
  unfold upperIdx
  exact List.Pairwise.filter _ List.pairwise_lt_range

theorem mem_upperIdx {tol : K} {G : List (List K)} {i : Nat} :
    i ∈ upperIdx tol G ↔ i < G.length ∧ upper tol (G.getD i []) = true := by
  unfold upperIdx; simp [List.mem_filter]

theorem upperIdx_map_getD (tol : K) (G : List (List K)) :
    (upperIdx tol G).map (fun i => G.getD i []) = G.filter (upper tol) :=
  filter_range_map_getD [] (upper tol) G


/-! ### half selection (`get_half_of_hypercube`) -/

/-- hypothesis of the half selection: no earlier row is `np.isclose` to a later upper row -/
def NoEarlierClose (tol atol rtol : K) (P : List (List K)) : Prop :=
  ∀ i j, i < j → j < P.length → upper tol (P.getD j []) = true →
    rowClose atol rtol (P.getD j []) (P.getD i []) = false

theorem firstRowIsK_self {tol atol rtol : K} (ha : 0 ≤ atol) (hr : 0 ≤ rtol) {P : List (List K)}
    (hsep : NoEarlierClose tol atol rtol P) {j : Nat} (hj : j < P.length) (hu : upper tol (P.getD j []) = true) :
    firstRowIsK atol rtol P (P.getD j []) = .ok j := by
  unfold firstRowIsK whichRowIsK
  obtain ⟨t, ht⟩ := filter_range_head (n := P.length) (j := j)
    (fun i => rowClose atol rtol (P.getD j []) (P.getD i [])) hj (rowClose_refl ha hr _)
    (fun i hi => hsep i j hi hj hu)
  rw [ht]; rfl

theorem selectHalfIdx_eq {tol atol rtol : K} (ha : 0 ≤ atol) (hr : 0 ≤ rtol) {P : List (List K)}
    (hsep : NoEarlierClose tol atol rtol P) (N : Option Nat) :
    selectHalfIdx tol atol rtol P N =
      if N.getD (upperIdx tol P).length > (upperIdx tol P).length then .error "ValueError"
      else .ok ((upperIdx tol P).take (N.getD (upperIdx tol P).length)) := by
  unfold selectHalfIdx
  have h1 : (P.filter (upper tol)).mapM (firstRowIsK atol rtol P)
      = .ok (upperIdx tol P) := by
    rw [← upperIdx_map_getD, List.mapM_map]
    have := mapM_ok (fun i => firstRowIsK atol rtol P (P.getD i [])) id (upperIdx tol P) (by
      intro i hi
      obtain ⟨hi1, hi2⟩ := mem_upperIdx.mp hi
      exact firstRowIsK_self ha hr hsep hi1 hi2)
    rw [List.map_id] at this
    exact this
  have h2 : (upperIdx tol P).mergeSort (fun a b => decide (a ≤ b)) = upperIdx tol P := by
    apply List.mergeSort_of_pairwise
    exact (upperIdx_pairwise tol P).imp (fun h => by simpa using le_of_lt h)
  simp only [h1, bind, Except.bind, h2]
  split <;> rfl


/-! ### double cover -/

theorem doubleCover_ok {N : Nat} {G F : List (List K)} (h : doubleCover N G = .ok F) :
    F = G ++ G.map neg ∧ G.length = N := by
  unfold doubleCover at h
  split at h
  · cases h
  · split at h
    · rename_i hN
      injection h with h
      exact ⟨h.symm, hN⟩
    · split at h <;> cases h

theorem doubleCover_self {G : List (List K)} (h4 : ∀ q ∈ G, q.length = 4) :
    doubleCover G.length G = .ok (G ++ G.map neg) := by
  unfold doubleCover
  have : G.all (fun q => q.length == 4) = true := by
    rw [List.all_eq_true]; intro q hq; simp [h4 q hq]
  simp [this]
  rfl

/-- Good rows: gap hypothesis and upper. -/
theorem filter_upper_cover {tol : K} (ht : 0 ≤ tol) {G : List (List K)}
    (hG : ∀ q ∈ G, Gap tol q ∧ upper tol q = true) :
    (G ++ G.map neg).filter (upper tol) = G := by
  rw [List.filter_append]
  have h1 : G.filter (upper tol) = G := by
    rw [List.filter_eq_self]; intro q hq; exact (hG q hq).2
  have h2 : (G.map neg).filter (upper tol) = [] := by
    rw [List.filter_eq_nil_iff]
    intro r hr
    obtain ⟨q, hq, rfl⟩ := List.mem_map.mp hr
    rw [upper_neg ht (hG q hq).1 (nonZero_of_upper (hG q hq).2), (hG q hq).2]
    simp
  rw [h1, h2, List.append_nil]

theorem filter_range_all {n : Nat} (f : Nat → Bool) (m : Nat) (hm : m ≤ n) (h1 : ∀ i, i < m → f i = true)
    (h2 : ∀ i, m ≤ i → i < n → f i = false) : (List.range n).filter f = List.range m := by
  obtain ⟨k, rfl⟩ : ∃ k, n = m + k := ⟨n - m, by omega⟩
  rw [List.range_add, List.filter_append]
  have a : (List.range m).filter f = List.range m := by
    rw [List.filter_eq_self]; intro i hi; exact h1 i (List.mem_range.mp hi)
  have b : ((List.range k).map (m + ·)).filter f = [] := by
    rw [List.filter_eq_nil_iff]; intro i hi
    obtain ⟨j, hj, rfl⟩ := List.mem_map.mp hi
    rw [List.mem_range] at hj
    simp [h2 (m + j) (by omega) (by omega)]
  rw [a, b, List.append_nil]

theorem upperIdx_cover {tol : K} (ht : 0 ≤ tol) {G : List (List K)}
    (hG : ∀ q ∈ G, Gap tol q ∧ upper tol q = true) :
    upperIdx tol (G ++ G.map neg) = List.range G.length := by
  unfold upperIdx
  apply filter_range_all _ _ (by simp)
  · intro i hi
    rw [List.getD_eq_getElem (hn := by simp; omega), List.getElem_append_left hi]
    exact (hG _ (List.getElem_mem hi)).2
  · intro i h1 h2
    simp only [List.length_append, List.length_map] at h2
    rw [List.getD_eq_getElem (hn := by simp; omega), List.getElem_append_right (by omega), List.getElem_map]
    have hm := List.getElem_mem (l := G) (n := i - G.length) (by omega)
    rw [upper_neg ht (hG _ hm).1 (nonZero_of_upper (hG _ hm).2), (hG _ hm).2]
    rfl

/-! ### one of each antipodal pair -/

theorem half_mem_iff {tol : K} (ht : 0 ≤ tol) {P : List (List K)} (hneg : ∀ p ∈ P, neg p ∈ P)
    (hgap : ∀ p ∈ P, Gap tol p ∧ NonZero p) {p : List K} (hp : p ∈ P) :
    p ∈ P.filter (upper tol) ↔ neg p ∉ P.filter (upper tol) := by
  simp only [List.mem_filter, hp, hneg p hp, true_and, upper_neg ht (hgap p hp).1 (hgap p hp).2]
  cases upper tol p <;> simp

theorem half_length {tol : K} (ht : 0 ≤ tol) {P : List (List K)} (hnd : P.Nodup) (hneg : ∀ p ∈ P, neg p ∈ P)
    (hgap : ∀ p ∈ P, Gap tol p ∧ NonZero p) :
    2 * (P.filter (upper tol)).length = P.length := by
  have hsum := List.length_eq_length_filter_add (l := P) (upper tol)
  set H := P.filter (upper tol) with hH
  set H' := P.filter (fun p => !upper tol p) with hH'
  have hinj : Function.Injective (neg : List K → List K) := fun a b h => neg_injective h
  have h1 : (H.map neg).length ≤ H'.length := by
    apply List.Subperm.length_le
    apply List.Nodup.subperm (List.Nodup.map hinj (List.Nodup.filter _ hnd))
    intro r hr
    obtain ⟨p, hp, rfl⟩ := List.mem_map.mp hr
    rw [List.mem_filter] at hp
    rw [hH', List.mem_filter]
    refine ⟨hneg p hp.1, ?_⟩
    rw [upper_neg ht (hgap p hp.1).1 (hgap p hp.1).2, hp.2]; rfl
  have h2 : (H'.map neg).length ≤ H.length := by
    apply List.Subperm.length_le
    apply List.Nodup.subperm (List.Nodup.map hinj (List.Nodup.filter _ hnd))
    intro r hr
    obtain ⟨p, hp, rfl⟩ := List.mem_map.mp hr
    rw [List.mem_filter] at hp
    rw [hH, List.mem_filter]
    refine ⟨hneg p hp.1, ?_⟩
    rw [upper_neg ht (hgap p hp.1).1 (hgap p hp.1).2]
    simpa using hp.2
  rw [List.length_map] at h1 h2
  omega


/-! ### radial projection of polytope nodes -/

/-- `proj` (the normalisation `p ↦ p/‖p‖`) is a positive radial scaling on the rows of `P`. -/
def RadialOn (proj : List K → List K) (P : List (List K)) : Prop :=
  ∀ p ∈ P, ∃ c : K, 0 < c ∧ proj p = scale c p

/-- `g` is positively homogeneous (a gauge: sup-norm for the cube, max of face functionals for the icosahedron). -/
def Homogeneous (g : List K → K) : Prop := ∀ c : K, 0 < c → ∀ p, g (scale c p) = c * g p

theorem supNorm_homogeneous : Homogeneous (supNorm : List K → K) :=
  fun _ hc p => supNorm_scale (le_of_lt hc) p

theorem proj_injOn {g : List K → K} (hg : Homogeneous g) {P : List (List K)} {r : K} (hr : 0 < r)
    (hP : ∀ p ∈ P, g p = r) {proj : List K → List K} (hproj : RadialOn proj P)
    {x y : List K} (hx : x ∈ P) (hy : y ∈ P) (h : proj x = proj y) : x = y := by
  obtain ⟨a, ha, hax⟩ := hproj x hx
  obtain ⟨b, hb, hby⟩ := hproj y hy
  rw [hax, hby] at h
  exact gauge_injective g hg ha hb h (by rw [hP x hx, hP y hy]) (by rw [hP y hy]; exact hr)

theorem proj_antipodal {g : List K → K} (hg : Homogeneous g) (hsym : ∀ p, g (neg p) = g p)
    {P : List (List K)} {r : K} (hr : 0 < r)
    (hP : ∀ p ∈ P, g p = r) {proj : List K → List K} (hproj : RadialOn proj P)
    {x y : List K} (hx : x ∈ P) (hy : y ∈ P) (h : proj x = neg (proj y)) : x = neg y := by
  obtain ⟨a, ha, hax⟩ := hproj x hx
  obtain ⟨b, hb, hby⟩ := hproj y hy
  rw [hax, hby, ← scale_neg] at h
  exact gauge_injective g hg ha hb h (by rw [hsym, hP x hx, hP y hy]) (by rw [hsym, hP y hy]; exact hr)

theorem map_proj_nodup {g : List K → K} (hg : Homogeneous g) {P : List (List K)} {r : K} (hr : 0 < r)
    (hP : ∀ p ∈ P, g p = r) (hnd : P.Nodup) {proj : List K → List K} (hproj : RadialOn proj P)
    {L : List (List K)} (hL : L.Sublist P) : (L.map proj).Nodup := by
  apply List.Nodup.map_on _ (hnd.sublist hL)
  intro x hx y hy h
  exact proj_injOn hg hr hP hproj (hL.subset hx) (hL.subset hy) h

theorem upper_scale_of_gap {tol : K} (ht : 0 ≤ tol) {c : K} (hc : 0 < c) {p : List K} (hg : Gap tol p) :
    upper 0 (scale c p) = upper tol p := by
  rw [upper_eq_rec, upper_eq_rec, upperRec_scale hc, upperRec_gap ht hg]

theorem upper_of_gap {tol : K} (ht : 0 ≤ tol) {p : List K} (hg : Gap tol p) : upper tol p = upper 0 p := by
  rw [upper_eq_rec, upper_eq_rec, upperRec_gap ht hg]

/-! ### `while len(nodes) < N: divide_edges()` -/

theorem divisionsNeeded_spec (count : Nat → Nat) (N : Nat) : ∀ (fuel s : Nat),
    (∀ l, l < s → count l < N) → (∃ l, s ≤ l ∧ l ≤ s + fuel ∧ N ≤ count l) →
    N ≤ count (divisionsNeeded count N fuel s) ∧ ∀ l, l < divisionsNeeded count N fuel s → count l < N
  | 0, s, hlt, ⟨l, h1, h2, h3⟩ => by
    have : l = s := by omega
    subst this
    exact ⟨h3, hlt⟩
  | fuel + 1, s, hlt, ⟨l, h1, h2, h3⟩ => by
    unfold divisionsNeeded
    split
    · rename_i hs
      apply divisionsNeeded_spec count N fuel (s + 1)
      · intro l' hl'
        rcases Nat.lt_succ_iff_lt_or_eq.mp hl' with h | h
        · exact hlt l' h
        · rw [h]; exact hs
      · refine ⟨l, ?_, by omega, h3⟩
        rcases Nat.eq_or_lt_of_le h1 with h | h
        · subst h; omega
        · omega
    · rename_i hs
      exact ⟨by omega, hlt⟩

theorem getNodes_some {nodes : List (List K)} {N : Nat} (h : N ≤ nodes.length) :
    getNodes nodes (some N) = .ok (nodes.take N) := by
  unfold getNodes
  simp only [Option.getD_some]
  rw [if_neg (by omega)]; rfl

theorem getNodes_too_many {nodes : List (List K)} {N : Nat} (h : nodes.length < N) :
    getNodes nodes (some N) = .error "ValueError" := by
  unfold getNodes
  simp only [Option.getD_some]
  rw [if_pos (by omega)]; rfl


/-! ### gauge of a solid given by face functionals -/

theorem dot_scale (c : K) : ∀ (n p : List K), dot n (scale c p) = c * dot n p
  | [], _ => by simp [dot]
  | _ :: _, [] => by simp [dot, scale]
  | x :: xs, y :: ys => by
    have ih := dot_scale c xs ys
    simp only [scale, List.map_cons, dot] at ih ⊢
    rw [ih]; ring

theorem gaugeOf_homogeneous (ns : List (List K)) : Homogeneous (gaugeOf ns) := by
  intro c hc p
  cases ns with
  | nil => simp [gaugeOf]
  | cons n rest =>
    simp only [gaugeOf]
    have key : ∀ (rest : List (List K)) (acc : K),
        rest.foldl (fun m n' => maxK m (dot n' (scale c p))) (c * acc)
          = c * rest.foldl (fun m n' => maxK m (dot n' p)) acc := by
      intro rest
      induction rest with
      | nil => intro acc; rfl
      | cons r rs ih =>
        intro acc
        simp only [List.foldl_cons]
        rw [dot_scale, maxK_eq, ← mul_max_of_nonneg _ _ (le_of_lt hc), ← maxK_eq, ih]
    rw [dot_scale, key]


/-! ### the exact cube lattice -/

theorem mem_coords (m : Nat) (x : Int) :
    x ∈ ((List.range (2 * m + 1)).map fun (i : Nat) => (i : Int) - (m : Int)) ↔ -(m : Int) ≤ x ∧ x ≤ m := by
  simp only [List.mem_map, List.mem_range]
  constructor
  · rintro ⟨i, hi, rfl⟩; omega
  · rintro ⟨h1, h2⟩
    refine ⟨(x + m).toNat, by omega, by omega⟩

theorem mem_boxPoints (m : Nat) : ∀ (d : Nat) (p : List Int),
    p ∈ boxPoints m d ↔ p.length = d ∧ ∀ x ∈ p, -(m : Int) ≤ x ∧ x ≤ m
  | 0, p => by
    simp only [boxPoints, List.mem_singleton]
    constructor
    · rintro rfl; simp
    · rintro ⟨h, _⟩; exact List.length_eq_zero_iff.mp h
  | d + 1, p => by
    simp only [boxPoints, List.mem_flatMap]
    constructor
    · rintro ⟨x, hx, hp⟩
      obtain ⟨q, hq, rfl⟩ := List.mem_map.mp hp
      rw [mem_coords] at hx
      obtain ⟨hl, hb⟩ := (mem_boxPoints m d q).mp hq
      refine ⟨by simp [hl], ?_⟩
      intro y hy
      rcases List.mem_cons.mp hy with rfl | hy
      · exact hx
      · exact hb y hy
    · rintro ⟨hl, hb⟩
      cases p with
      | nil => simp at hl
      | cons x q =>
        refine ⟨x, (mem_coords m x).mpr (hb x (by simp)), List.mem_map.mpr ⟨q, ?_, rfl⟩⟩
        exact (mem_boxPoints m d q).mpr ⟨by simpa using hl, fun y hy => hb y (by simp [hy])⟩

theorem nodup_coords (m : Nat) : ((List.range (2 * m + 1)).map fun (i : Nat) => (i : Int) - (m : Int)).Nodup := by
  apply List.Nodup.map _ List.nodup_range
  intro a b h; simp only at h; omega

theorem nodup_boxPoints (m : Nat) : ∀ d, (boxPoints m d).Nodup
  | 0 => by simp [boxPoints]
  | d + 1 => by
    simp only [boxPoints]
    rw [List.nodup_flatMap]
    constructor
    · intro x _
      exact List.Nodup.map (fun a b h => by simpa using h) (nodup_boxPoints m d)
    · apply List.Pairwise.imp _ (nodup_coords m)
      intro a b hab
      simp only [Function.onFun]
      rw [List.disjoint_left]
      intro p hp hq
      obtain ⟨q1, _, rfl⟩ := List.mem_map.mp hp
      obtain ⟨q2, _, h⟩ := List.mem_map.mp hq
      injection h with h1 _
      exact hab h1.symm

theorem mem_cubeLattice (d m : Nat) (p : List Int) :
    p ∈ cubeLattice d m ↔ (p.length = d ∧ ∀ x ∈ p, -(m : Int) ≤ x ∧ x ≤ m) ∧ supNorm p = (m : Int) := by
  unfold cubeLattice
  rw [List.mem_filter, mem_boxPoints]
  simp

theorem nodup_cubeLattice (d m : Nat) : (cubeLattice d m).Nodup :=
  (nodup_boxPoints m d).filter _

/-! ### casting integer points into an ordered field -/

/-- integer point as a point over `K` -/
def castPt (p : List Int) : List K := List.map (fun (x : Int) => (Int.cast x : K)) p

theorem castPt_injective : Function.Injective (castPt : List Int → List K) := by
  intro p q h
  unfold castPt at h
  exact (List.map_injective_iff.mpr (fun a b hab => by exact_mod_cast hab)) h

theorem absK_cast (x : Int) : absK (x : K) = ((absK x : Int) : K) := by
  unfold absK
  by_cases h : x < 0
  · have : (x : K) < 0 := by exact_mod_cast h
    simp [h, this]
  · have : ¬ (x : K) < 0 := by exact_mod_cast h
    simp [h, this]

theorem maxK_cast (a b : Int) : maxK (a : K) (b : K) = ((maxK a b : Int) : K) := by
  unfold maxK
  by_cases h : a < b
  · have : (a : K) < b := by exact_mod_cast h
    simp [h, this]
  · have : ¬ (a : K) < b := by exact_mod_cast h
    simp [h, this]

theorem supNorm_cast : ∀ (p : List Int), supNorm (castPt p : List K) = ((supNorm p : Int) : K)
  | [] => by simp [supNorm, castPt]
  | x :: xs => by
    have ih : supNorm (castPt xs : List K) = ((supNorm xs : Int) : K) := supNorm_cast xs
    simp only [castPt, List.map_cons, supNorm] at ih ⊢
    rw [ih, absK_cast, maxK_cast]

theorem castPt_neg (p : List Int) : (castPt (p.map (fun x => -x)) : List K) = neg (castPt p) := by
  unfold castPt neg
  rw [List.map_map, List.map_map]
  apply List.map_congr_left
  intro x _; simp

theorem neg_mem_cubeLattice {d m : Nat} {p : List Int} (hp : p ∈ cubeLattice d m) :
    p.map (fun x => -x) ∈ cubeLattice d m := by
  rw [mem_cubeLattice] at hp ⊢
  obtain ⟨⟨hl, hb⟩, hs⟩ := hp
  refine ⟨⟨by simp [hl], ?_⟩, ?_⟩
  · intro y hy
    obtain ⟨x, hx, rfl⟩ := List.mem_map.mp hy
    have := hb x hx; omega
  · have h1 : ((supNorm (p.map (fun x => -x)) : Int) : ℚ) = ((supNorm p : Int) : ℚ) := by
      rw [← supNorm_cast, ← supNorm_cast, castPt_neg, supNorm_neg]
    have : supNorm (p.map (fun x => -x)) = supNorm p := by exact_mod_cast h1
    rw [this, hs]

theorem gap_zero (q : List K) : Gap 0 q := by
  intro x _
  by_cases h : x = 0
  · left; exact h
  · right; exact abs_pos.mpr h


theorem rowClose_zero_eq : ∀ (k r : List K), rowClose 0 0 k r = true → k = r
  | [], [], _ => rfl
  | [], _ :: _, h => by simp [rowClose] at h
  | _ :: _, [], h => by simp [rowClose] at h
  | a :: as, b :: bs, h => by
    rw [rowClose, Bool.and_eq_true] at h
    have h1 : a = b := by
      have := h.1
      unfold isclose at this
      rw [decide_eq_true_eq, absK_eq, absK_eq] at this
      have h0 : |a - b| ≤ 0 := by simpa using this
      exact sub_eq_zero.mp (abs_nonpos_iff.mp h0)
    rw [h1, rowClose_zero_eq as bs h.2]

/-- With exact comparison (`atol = rtol = 0`) a duplicate-free node list satisfies the half-selection hypothesis. -/
theorem noEarlierClose_of_nodup (tol : K) {P : List (List K)} (hnd : P.Nodup) : NoEarlierClose tol 0 0 P := by
  intro i j hij hj _
  by_contra hc
  rw [Bool.not_eq_false] at hc
  have := rowClose_zero_eq _ _ hc
  rw [List.getD_eq_getElem (hn := hj), List.getD_eq_getElem (hn := by omega)] at this
  have := (List.Nodup.getElem_inj_iff hnd).mp this
  omega


end Molgri.Hemi
