/-
Helper lemmas for C08 (history state machine).  Property theorems are in `Molgri/Props/C08.lean`.
-/
import Molgri.Model.History
import Mathlib.Data.List.Basic
import Mathlib.Data.List.Induction
import Mathlib.Data.List.Nodup

set_option linter.unusedSectionVars false

namespace Molgri.History

variable {Γ Pt W O R : Type} [DecidableEq Pt]

/-! ### the generator state that enters a constructor is never read -/

theorem endOfDivision_rng (rng : Rng R W) (r r' : R) (P : Poly Γ Pt) :
    endOfDivision rng r P = endOfDivision rng r' P := rfl

theorem newPoly_rng (ext : Ext Γ Pt W O) (rng : Rng R W) (r r' : R) (k : PolyKind) :
    newPoly ext rng r k = newPoly ext rng r' k := rfl

theorem divideEdges_rng (ext : Ext Γ Pt W O) (rng : Rng R W) (r r' : R) (P : Poly Γ Pt) :
    divideEdges ext rng r P = divideEdges ext rng r' P := rfl

theorem rotobjInit_rng (ext : Ext Γ Pt W O) (rng : Rng R W) (r r' : R) (dim : Nat) (grid : List Pt) :
    rotobjInit ext rng r dim grid = rotobjInit ext rng r' dim grid := rfl

theorem attachVoronoi_rng (ext : Ext Γ Pt W O) (rng : Rng R W) (r r' : R) (dim N : Nat) (grid : List Pt) :
    (attachVoronoi ext rng r dim N grid).2 = (attachVoronoi ext rng r' dim N grid).2 := by
  unfold attachVoronoi
  split
  · rfl
  · split <;> rfl

theorem genGrid_rng (ext : Ext Γ Pt W O) (rng : Rng R W) (r r' : R) (a : Alg) (N : Nat) :
    (genGrid ext rng r a N).2 = (genGrid ext rng r' a N).2 := by
  cases a
  case zero3D => rfl
  case zero4D => unfold genGrid; simp only; split <;> rfl
  case fulldiv => unfold genGrid; simp only; split <;> rfl
  all_goals rfl


theorem createGrid_rng (ext : Ext Γ Pt W O) (rng : Rng R W) (r r' : R) (a : Alg) (N : Nat) :
    (createGrid ext rng r a N).2 = (createGrid ext rng r' a N).2 := by
  unfold createGrid
  have h := genGrid_rng ext rng r r' a N
  generalize genGrid ext rng r a N = x at h ⊢
  generalize genGrid ext rng r' a N = y at h ⊢
  obtain ⟨x1, x2⟩ := x
  obtain ⟨y1, y2⟩ := y
  simp only at h
  subst h
  cases x2 with
  | error e => rfl
  | ok v =>
    obtain ⟨n, poly, grid⟩ := v
    simp only [attachVoronoi_rng ext rng x1 y1]

/-- `self.N` after generation: the zero grids overwrite it with 1. -/
def normN : Alg → Nat → Nat
  | .zero3D, _ => 1
  | .zero4D, _ => 1
  | _, N => N

theorem normN_idem (a : Alg) (N : Nat) : normN a (normN a N) = normN a N := by
  cases a <;> rfl

theorem genGrid_normN (ext : Ext Γ Pt W O) (rng : Rng R W) (r : R) (a : Alg) (N : Nat) :
    genGrid ext rng r a (normN a N) = genGrid ext rng r a N := by
  cases a <;> rfl

theorem genGrid_N (ext : Ext Γ Pt W O) (rng : Rng R W) (r : R) (a : Alg) (N n : Nat)
    (p : Option (Poly Γ Pt)) (g : List Pt) (h : (genGrid ext rng r a N).2 = .ok (n, p, g)) : n = normN a N := by
  cases a <;> simp only [genGrid, normN] at h ⊢
  case zero3D => simp only [Except.ok.injEq, Prod.mk.injEq] at h; exact h.1.symm
  case randomS => simp only [Except.ok.injEq, Prod.mk.injEq] at h; exact h.1.symm
  all_goals
    repeat' split at h
    all_goals first
      | (simp only [Except.ok.injEq, Prod.mk.injEq] at h; exact h.1.symm)
      | (exact absurd h (by simp))

theorem createGrid_normN (ext : Ext Γ Pt W O) (rng : Rng R W) (r : R) (a : Alg) (N : Nat) :
    createGrid ext rng r a (normN a N) = createGrid ext rng r a N := by
  unfold createGrid
  rw [genGrid_normN]

theorem createGrid_fields (ext : Ext Γ Pt W O) (rng : Rng R W) (r : R) (a : Alg) (N : Nat) (G : Grid Γ Pt)
    (h : (createGrid ext rng r a N).2 = .ok G) : G.alg = a ∧ G.N = normN a N := by
  unfold createGrid at h
  have hN := genGrid_N ext rng r a N
  generalize genGrid ext rng r a N = x at h hN
  obtain ⟨x1, x2⟩ := x
  cases x2 with
  | error e => simp at h
  | ok v =>
    obtain ⟨n, poly, grid⟩ := v
    simp only [Except.ok.injEq] at h
    subst h
    exact ⟨rfl, hN n poly grid rfl⟩

/-- A created object is the canonical object of its own `(gen_algorithm, N)` fields, whatever the generator state was. -/
theorem createGrid_canon (ext : Ext Γ Pt W O) (rng : Rng R W) (r r' : R) (a : Alg) (N : Nat) (G : Grid Γ Pt)
    (h : (createGrid ext rng r a N).2 = .ok G) : (createGrid ext rng r' G.alg G.N).2 = .ok G := by
  obtain ⟨h1, h2⟩ := createGrid_fields ext rng r a N G h
  rw [h1, h2, createGrid_normN, createGrid_rng ext rng r' r, h]

/-- The Voronoi object of a created grid is what `gen_grid` attaches to its array in ANY generator state. -/
theorem createGrid_vor (ext : Ext Γ Pt W O) (rng : Rng R W) (r r' : R) (a : Alg) (N : Nat) (G : Grid Γ Pt)
    (h : (createGrid ext rng r a N).2 = .ok G) : G.vor = (attachVoronoi ext rng r' G.dim G.N G.grid).2 := by
  unfold createGrid at h
  generalize genGrid ext rng r a N = x at h
  obtain ⟨x1, x2⟩ := x
  cases x2 with
  | error e => simp at h
  | ok v =>
    obtain ⟨n, poly, grid⟩ := v
    simp only [Except.ok.injEq] at h
    subst h
    exact attachVoronoi_rng ext rng x1 r' (dimOf a) n grid

/-! ### getters: the only state they change is the filtered helper-point list -/

/-- `G` is the object `G₀` up to the in-place filtering of the half object's helper points (and the polytope). -/
def GridSim (ext : Ext Γ Pt W O) (G G₀ : Grid Γ Pt) : Prop :=
  G.alg = G₀.alg ∧ G.N = G₀.N ∧ G.dim = G₀.dim ∧ G.grid = G₀.grid ∧
  G.vor.kind = G₀.vor.kind ∧ G.vor.dim = G₀.vor.dim ∧ G.vor.grid = G₀.vor.grid ∧
  G.vor.addFull = G₀.vor.addFull ∧ G.vor.nPoints = G₀.vor.nPoints ∧
  (G.vor.add = G₀.vor.add ∨ (G.vor.kind = .half4 ∧ G.vor.add = G₀.vor.add.filter ext.upper))

theorem GridSim.refl (ext : Ext Γ Pt W O) (G : Grid Γ Pt) : GridSim ext G G :=
  ⟨rfl, rfl, rfl, rfl, rfl, rfl, rfl, rfl, rfl, Or.inl rfl⟩

theorem callGetter_sim (ext : Ext Γ Pt W O) (G G₀ : Grid Γ Pt) (g : Getter) (h : GridSim ext G G₀) :
    (callGetter ext G g).2 = (callGetter ext G₀ g).2 ∧ GridSim ext (callGetter ext G g).1 G₀ := by
  obtain ⟨alg, N, dim, grid, poly, ⟨k, vd, vg, add, addF, np⟩⟩ := G
  obtain ⟨alg0, N0, dim0, grid0, poly0, ⟨k0, vd0, vg0, add0, addF0, np0⟩⟩ := G₀
  obtain ⟨h1, h2, h3, h4, h5, h6, h7, h8, h9, h10⟩ := h
  simp only at h1 h2 h3 h4 h5 h6 h7 h8 h9 h10
  subst h1 h2 h3 h4 h5 h6 h7 h8 h9
  rcases h10 with rfl | ⟨hk, rfl⟩
  · cases g <;> cases k <;>
      simp [callGetter, GridSim]
  · subst hk
    cases g <;> simp [callGetter, GridSim, List.filter_filter]


/-! ### polytopes: the core (graph, node table, level, max index) and the cache -/

/-- Equality of two polytope objects up to the `current_nodes` cache. -/
def SameCore (P Q : Poly Γ Pt) : Prop :=
  P.kind = Q.kind ∧ P.g = Q.g ∧ P.nodes = Q.nodes ∧ P.level = Q.level ∧ P.maxCi = Q.maxCi

theorem SameCore.refl (P : Poly Γ Pt) : SameCore P P := ⟨rfl, rfl, rfl, rfl, rfl⟩

theorem SameCore.symm {P Q : Poly Γ Pt} (h : SameCore P Q) : SameCore Q P :=
  ⟨h.1.symm, h.2.1.symm, h.2.2.1.symm, h.2.2.2.1.symm, h.2.2.2.2.symm⟩

theorem SameCore.trans {P Q S : Poly Γ Pt} (h : SameCore P Q) (h' : SameCore Q S) : SameCore P S :=
  ⟨h.1.trans h'.1, h.2.1.trans h'.2.1, h.2.2.1.trans h'.2.2.1, h.2.2.2.1.trans h'.2.2.2.1, h.2.2.2.2.trans h'.2.2.2.2⟩

/-- The cache is usable: its count never exceeds the node count, and when it equals the (non-zero) node count the
cached list is the sorted node list of the CURRENT node table. -/
def CacheOk (P : Poly Γ Pt) : Prop :=
  P.cache.2 ≤ P.nodes.length ∧
  (P.cache.2 = P.nodes.length → P.nodes.length ≠ 0 → ∃ s, P.cache.1 = some s ∧ sortByCi P.nodes = .ok s)

theorem divideEdges_core (ext : Ext Γ Pt W O) (rng : Rng R W) (r r' : R) (P Q : Poly Γ Pt) (h : SameCore P Q) :
    SameCore (divideEdges ext rng r P).2 (divideEdges ext rng r' Q).2 := by
  obtain ⟨k, g, nodes, level, maxCi, cache⟩ := P
  obtain ⟨k', g', nodes', level', maxCi', cache'⟩ := Q
  obtain ⟨h1, h2, h3, h4, h5⟩ := h
  simp only at h1 h2 h3 h4 h5
  subst h1 h2 h3 h4 h5
  exact ⟨rfl, rfl, rfl, rfl, rfl⟩

theorem divideEdges_cache (ext : Ext Γ Pt W O) (rng : Rng R W) (r : R) (P : Poly Γ Pt) :
    (divideEdges ext rng r P).2.cache = P.cache := rfl

theorem divideEdges_kind (ext : Ext Γ Pt W O) (rng : Rng R W) (r : R) (P : Poly Γ Pt) :
    (divideEdges ext rng r P).2.kind = P.kind := rfl

theorem divideEdges_level (ext : Ext Γ Pt W O) (rng : Rng R W) (r : R) (P : Poly Γ Pt) :
    (divideEdges ext rng r P).2.level = P.level + 1 := rfl

/-- The canonical polytope of kind `k` after `d` subdivisions, built in a fresh process (`seed 0`), never read. -/
def canonPoly (ext : Ext Γ Pt W O) (rng : Rng R W) (k : PolyKind) : Nat → Poly Γ Pt
  | 0 => (newPoly ext rng (rng.seed 0) k).2
  | d + 1 => (divideEdges ext rng (rng.seed 0) (canonPoly ext rng k d)).2

theorem canonPoly_kind (ext : Ext Γ Pt W O) (rng : Rng R W) (k : PolyKind) (d : Nat) :
    (canonPoly ext rng k d).kind = k := by
  induction d with
  | zero => rfl
  | succ d ih => simp only [canonPoly, divideEdges_kind, ih]

theorem canonPoly_level (ext : Ext Γ Pt W O) (rng : Rng R W) (k : PolyKind) (d : Nat) :
    (canonPoly ext rng k d).level = d + 1 := by
  induction d with
  | zero => rfl
  | succ d ih => simp only [canonPoly, divideEdges_level, ih]

theorem canonPoly_cache (ext : Ext Γ Pt W O) (rng : Rng R W) (k : PolyKind) (d : Nat) :
    (canonPoly ext rng k d).cache = (none, 0) := by
  induction d with
  | zero => rfl
  | succ d ih => simp only [canonPoly, divideEdges_cache, ih]

theorem canonPoly_cacheOk (ext : Ext Γ Pt W O) (rng : Rng R W) (k : PolyKind) (d : Nat) :
    CacheOk (canonPoly ext rng k d) := by
  unfold CacheOk
  rw [canonPoly_cache]
  refine ⟨Nat.zero_le _, ?_⟩
  intro h h'
  exact absurd h.symm h'

/-- Every subdivision of a canonical polytope adds at least one node (so that a node count identifies a level). -/
def Grows (ext : Ext Γ Pt W O) (rng : Rng R W) : Prop :=
  ∀ k d, (canonPoly ext rng k d).nodes.length < (canonPoly ext rng k (d + 1)).nodes.length

/-- What `_get_attributes_array_sorted_by_index` returns as a function of the node table alone. -/
def sortedPure (nodes : List (Node Pt)) : Except Err (List Pt) :=
  if nodes.length = 0 then .ok [] else sortByCi nodes

theorem sortedNodes_nodes (P : Poly Γ Pt) : SameCore (sortedNodes P).1 P := by
  unfold sortedNodes
  simp only
  split
  · exact SameCore.refl P
  · split
    · split <;> exact SameCore.refl P
    · split
      · exact ⟨rfl, rfl, rfl, rfl, rfl⟩
      · exact SameCore.refl P

theorem sortedNodes_res (P : Poly Γ Pt) (h : CacheOk P) : (sortedNodes P).2 = sortedPure P.nodes := by
  unfold sortedNodes sortedPure
  simp only
  split
  · rfl
  · rename_i hn
    split
    · rename_i hc
      obtain ⟨s, hs1, hs2⟩ := h.2 hc hn
      rw [hs1]
      simp only [hs2]
    · split
      · rename_i s hs; simp only [hs]
      · rename_i e he; simp only [he]

theorem sortedNodes_cacheOk (P : Poly Γ Pt) (h : CacheOk P) : CacheOk (sortedNodes P).1 := by
  unfold sortedNodes
  simp only
  split
  · exact h
  · split
    · split <;> exact h
    · split
      · rename_i s hs
        exact ⟨Nat.le_refl _, fun _ _ => ⟨s, rfl, hs⟩⟩
      · exact h

/-- `get_nodes(N, projection)` as a function of the node table alone. -/
def getNodesPure (nodes : List (Node Pt)) (N : Option Nat) (proj : Bool) : Except Err (List Pt) :=
  let n := N.getD nodes.length
  if n > nodes.length then .error .valueError
  else
    match sortedPure nodes with
    | .error e => .error e
    | .ok s =>
      if proj then
        match mapE (lookupProj nodes) s with
        | .error e => .error e
        | .ok rows => .ok (rows.take n)
      else .ok (s.take n)

theorem getNodes_core (P : Poly Γ Pt) (N : Option Nat) (proj : Bool) : SameCore (getNodes P N proj).1 P := by
  unfold getNodes
  simp only
  split
  · exact SameCore.refl P
  · split
    · exact sortedNodes_nodes P
    · split
      · split <;> exact sortedNodes_nodes P
      · exact sortedNodes_nodes P

theorem getNodes_cacheOk (P : Poly Γ Pt) (N : Option Nat) (proj : Bool) (h : CacheOk P) :
    CacheOk (getNodes P N proj).1 := by
  unfold getNodes
  simp only
  split
  · exact h
  · split
    · exact sortedNodes_cacheOk P h
    · split
      · split <;> exact sortedNodes_cacheOk P h
      · exact sortedNodes_cacheOk P h

theorem getNodes_res (P : Poly Γ Pt) (N : Option Nat) (proj : Bool) (h : CacheOk P) :
    (getNodes P N proj).2 = getNodesPure P.nodes N proj := by
  unfold getNodes getNodesPure
  simp only
  have hn : (sortedNodes P).1.nodes = P.nodes := (sortedNodes_nodes P).2.2.1
  rw [← sortedNodes_res P h, hn]
  generalize sortedNodes P = sp
  obtain ⟨P', res⟩ := sp
  by_cases hN : N.getD P.nodes.length > P.nodes.length
  · simp only [hN, if_true]
  · simp only [hN, if_false]
    cases res with
    | error e => rfl
    | ok s =>
      simp only
      cases proj
      · rfl
      · simp only [if_true]
        cases mapE (lookupProj P.nodes) s <;> rfl

/-- `get_half_of_hypercube(projection, N)` as a function of the kind and the node table alone. -/
def halfPure (ext : Ext Γ Pt W O) (kind : PolyKind) (nodes : List (Node Pt)) (N : Option Nat) (proj : Bool) :
    Except Err (List Pt) :=
  if kind ≠ .cube4D then .error .attributeError else
  match getNodesPure nodes none true with
  | .error e => .error e
  | .ok projected =>
    let allCi := sortBy id ((projected.filter ext.upper).map (fun u => projected.findIdx (fun q => q == u)))
    let n := N.getD allCi.length
    if n > allCi.length then .error .valueError
    else
      match getNodesPure nodes none proj with
      | .error e => .error e
      | .ok rows =>
        match pick rows allCi with
        | .error e => .error e
        | .ok sel => .ok (sel.take n)

theorem half_core (ext : Ext Γ Pt W O) (P : Poly Γ Pt) (N : Option Nat) (proj : Bool) :
    SameCore (halfOfHypercube ext P N proj).1 P := by
  unfold halfOfHypercube
  have h1 := getNodes_core P none true
  have h2 := getNodes_core (getNodes P none true).1 none proj
  simp only
  split
  · exact SameCore.refl P
  · split
    · exact h1
    · split
      · exact h1
      · split
        · exact h2.trans h1
        · split <;> exact h2.trans h1

theorem half_cacheOk (ext : Ext Γ Pt W O) (P : Poly Γ Pt) (N : Option Nat) (proj : Bool) (h : CacheOk P) :
    CacheOk (halfOfHypercube ext P N proj).1 := by
  unfold halfOfHypercube
  have h1 := getNodes_cacheOk P none true h
  have h2 := getNodes_cacheOk (getNodes P none true).1 none proj h1
  simp only
  split
  · exact h
  · split
    · exact h1
    · split
      · exact h1
      · split
        · exact h2
        · split <;> exact h2

theorem half_res (ext : Ext Γ Pt W O) (P : Poly Γ Pt) (N : Option Nat) (proj : Bool) (h : CacheOk P) :
    (halfOfHypercube ext P N proj).2 = halfPure ext P.kind P.nodes N proj := by
  unfold halfOfHypercube halfPure
  have h1 := getNodes_cacheOk P none true h
  have hn : (getNodes P none true).1.nodes = P.nodes := (getNodes_core P none true).2.2.1
  simp only
  rw [← getNodes_res P none true h, ← hn, ← getNodes_res _ none proj h1]
  by_cases hk : P.kind ≠ .cube4D
  · rw [if_pos hk, if_pos hk]
  · rw [if_neg hk, if_neg hk]
    generalize getNodes P none true = p1
    obtain ⟨P1, r1⟩ := p1
    cases r1 with
    | error e => rfl
    | ok projected =>
      simp only
      split
      · rfl
      · generalize getNodes P1 none proj = p2
        obtain ⟨P2, r2⟩ := p2
        cases r2 with
        | error e => rfl
        | ok rows =>
          simp only
          cases pick rows (sortBy id (List.map (fun u => List.findIdx (fun q => q == u) projected)
            (List.filter ext.upper projected))) <;> rfl


/-! ### the invariant of reachable states -/

/-- A live polytope is, up to its cache, the canonical polytope of its kind and level, and its cache is usable. -/
def PolyOk (ext : Ext Γ Pt W O) (rng : Rng R W) (P : Poly Γ Pt) : Prop :=
  ∃ d, SameCore P (canonPoly ext rng P.kind d) ∧ CacheOk P

/-- A live grid object is, up to the in-place filter, the canonical object of its `(gen_algorithm, N)`. -/
def GridOk (ext : Ext Γ Pt W O) (rng : Rng R W) (G : Grid Γ Pt) : Prop :=
  ∃ G₀, (createGrid ext rng (rng.seed 0) G.alg G.N).2 = .ok G₀ ∧ GridSim ext G G₀

def PolysOk (ext : Ext Γ Pt W O) (rng : Rng R W) (s : State Γ Pt R) : Prop := ∀ P ∈ s.polys, PolyOk ext rng P
def GridsOk (ext : Ext Γ Pt W O) (rng : Rng R W) (s : State Γ Pt R) : Prop := ∀ G ∈ s.grids, GridOk ext rng G

theorem PolyOk.level {ext : Ext Γ Pt W O} {rng : Rng R W} {P : Poly Γ Pt} {d : Nat}
    (h : SameCore P (canonPoly ext rng P.kind d)) : P.level = d + 1 := by
  rw [h.2.2.2.1, canonPoly_level]

theorem newPoly_ok (ext : Ext Γ Pt W O) (rng : Rng R W) (r : R) (k : PolyKind) :
    PolyOk ext rng (newPoly ext rng r k).2 :=
  ⟨0, SameCore.refl _, canonPoly_cacheOk ext rng k 0⟩

theorem divide_ok (ext : Ext Γ Pt W O) (rng : Rng R W) (hg : Grows ext rng) (r : R) (P : Poly Γ Pt)
    (h : PolyOk ext rng P) : PolyOk ext rng (divideEdges ext rng r P).2 := by
  obtain ⟨d, hc, hk⟩ := h
  refine ⟨d + 1, ?_, ?_⟩
  · rw [divideEdges_kind]
    exact divideEdges_core ext rng r (rng.seed 0) P _ hc
  · have hlen : P.nodes.length < (divideEdges ext rng r P).2.nodes.length := by
      have h1 := (divideEdges_core ext rng r (rng.seed 0) P _ hc).2.2.1
      rw [h1, hc.2.2.1]
      exact hg P.kind d
    unfold CacheOk
    rw [divideEdges_cache]
    refine ⟨Nat.le_of_lt (Nat.lt_of_le_of_lt hk.1 hlen), ?_⟩
    intro h1
    have := hk.1
    omega

theorem getNodes_ok (ext : Ext Γ Pt W O) (rng : Rng R W) (P : Poly Γ Pt) (N : Option Nat) (proj : Bool)
    (h : PolyOk ext rng P) : PolyOk ext rng (getNodes P N proj).1 := by
  obtain ⟨d, hc, hk⟩ := h
  have h1 := getNodes_core P N proj
  refine ⟨d, ?_, getNodes_cacheOk P N proj hk⟩
  rw [h1.1]
  exact h1.trans hc

theorem half_ok (ext : Ext Γ Pt W O) (rng : Rng R W) (P : Poly Γ Pt) (N : Option Nat) (proj : Bool)
    (h : PolyOk ext rng P) : PolyOk ext rng (halfOfHypercube ext P N proj).1 := by
  obtain ⟨d, hc, hk⟩ := h
  have h1 := half_core ext P N proj
  refine ⟨d, ?_, half_cacheOk ext P N proj hk⟩
  rw [h1.1]
  exact h1.trans hc

theorem createGrid_ok (ext : Ext Γ Pt W O) (rng : Rng R W) (r : R) (a : Alg) (N : Nat) (G : Grid Γ Pt)
    (h : (createGrid ext rng r a N).2 = .ok G) : GridOk ext rng G :=
  ⟨G, createGrid_canon ext rng r (rng.seed 0) a N G h, GridSim.refl ext G⟩

theorem callGetter_ok (ext : Ext Γ Pt W O) (rng : Rng R W) (G : Grid Γ Pt) (g : Getter) (h : GridOk ext rng G) :
    GridOk ext rng (callGetter ext G g).1 := by
  obtain ⟨G₀, h1, h2⟩ := h
  have h3 := (callGetter_sim ext G G₀ g h2).2
  refine ⟨G₀, ?_, h3⟩
  rw [h3.1, h3.2.1, ← h2.1, ← h2.2.1]
  exact h1

theorem step_gridsOk (ext : Ext Γ Pt W O) (rng : Rng R W) (s : State Γ Pt R) (op : Op)
    (h : GridsOk ext rng s) : GridsOk ext rng (step ext rng s op).1 := by
  cases op with
  | reseed k => exact h
  | draw k => exact h
  | newPoly k => exact h
  | divide i => simp only [step]; split <;> exact h
  | nodes i N proj => simp only [step]; split <;> exact h
  | half i N proj => simp only [step]; split <;> exact h
  | grid a N =>
    simp only [step]
    split
    · exact h
    · rename_i G hG
      intro G' hG'
      simp only [List.mem_append, List.mem_singleton] at hG'
      rcases hG' with hG' | rfl
      · exact h G' hG'
      · exact createGrid_ok ext rng s.rng a N G' hG
  | get i g =>
    simp only [step]
    split
    · exact h
    · rename_i G hG
      intro G' hG'
      rcases List.mem_or_eq_of_mem_set hG' with hG' | rfl
      · exact h G' hG'
      · exact callGetter_ok ext rng G g (h G (List.mem_of_getElem? hG))
  | regen i =>
    simp only [step]
    split
    · exact h
    · rename_i G hG
      intro G' hG'
      rcases List.mem_or_eq_of_mem_set hG' with hG' | rfl
      · exact h G' hG'
      · obtain ⟨G₀, h1, h2⟩ := h G (List.mem_of_getElem? hG)
        refine ⟨G₀, h1, h2.1, h2.2.1, h2.2.2.1, h2.2.2.2.1, ?_⟩
        have hv := createGrid_vor ext rng (rng.seed 0) s.rng G.alg G.N G₀ h1
        simp only
        rw [h2.2.2.1, h2.2.1, h2.2.2.2.1, ← hv]
        exact ⟨rfl, rfl, rfl, rfl, rfl, Or.inl rfl⟩

theorem step_polysOk (ext : Ext Γ Pt W O) (rng : Rng R W) (hg : Grows ext rng) (s : State Γ Pt R) (op : Op)
    (h : PolysOk ext rng s) : PolysOk ext rng (step ext rng s op).1 := by
  cases op with
  | reseed k => exact h
  | draw k => exact h
  | newPoly k =>
    intro P hP
    simp only [step, List.mem_append, List.mem_singleton] at hP
    rcases hP with hP | rfl
    · exact h P hP
    · exact newPoly_ok ext rng s.rng k
  | divide i =>
    simp only [step]
    split
    · exact h
    · rename_i P hP
      intro P' hP'
      rcases List.mem_or_eq_of_mem_set hP' with hP' | rfl
      · exact h P' hP'
      · exact divide_ok ext rng hg s.rng P (h P (List.mem_of_getElem? hP))
  | nodes i N proj =>
    simp only [step]
    split
    · exact h
    · rename_i P hP
      intro P' hP'
      rcases List.mem_or_eq_of_mem_set hP' with hP' | rfl
      · exact h P' hP'
      · exact getNodes_ok ext rng P N proj (h P (List.mem_of_getElem? hP))
  | half i N proj =>
    simp only [step]
    split
    · exact h
    · rename_i P hP
      intro P' hP'
      rcases List.mem_or_eq_of_mem_set hP' with hP' | rfl
      · exact h P' hP'
      · exact half_ok ext rng P N proj (h P (List.mem_of_getElem? hP))
  | grid a N => simp only [step]; split <;> exact h
  | get i g => simp only [step]; split <;> exact h
  | regen i => simp only [step]; split <;> exact h

theorem run_snoc (ext : Ext Γ Pt W O) (rng : Rng R W) (r₀ : R) (ops : List Op) (op : Op) :
    run ext rng r₀ (ops ++ [op]) =
      ((step ext rng (run ext rng r₀ ops).1 op).1, (run ext rng r₀ ops).2 ++ [(step ext rng (run ext rng r₀ ops).1 op).2]) := by
  unfold run
  rw [List.foldl_append]
  rfl

theorem run_length (ext : Ext Γ Pt W O) (rng : Rng R W) (r₀ : R) (ops : List Op) :
    (run ext rng r₀ ops).2.length = ops.length := by
  induction ops using List.reverseRecOn with
  | nil => rfl
  | append_singleton ops op ih => rw [run_snoc]; simp [ih]

theorem run_gridsOk (ext : Ext Γ Pt W O) (rng : Rng R W) (r₀ : R) (ops : List Op) :
    GridsOk ext rng (run ext rng r₀ ops).1 := by
  induction ops using List.reverseRecOn with
  | nil => intro G hG; simp [run] at hG
  | append_singleton ops op ih => rw [run_snoc]; exact step_gridsOk ext rng _ op ih

theorem run_polysOk (ext : Ext Γ Pt W O) (rng : Rng R W) (hg : Grows ext rng) (r₀ : R) (ops : List Op) :
    PolysOk ext rng (run ext rng r₀ ops).1 := by
  induction ops using List.reverseRecOn with
  | nil => intro G hG; simp [run] at hG
  | append_singleton ops op ih => rw [run_snoc]; exact step_polysOk ext rng hg _ op ih


theorem set_of_getElem? {α : Type} {l : List α} {i : Nat} {a : α} (h : l[i]? = some a) : l.set i a = l := by
  apply List.ext_getElem?
  intro j
  rw [List.getElem?_set]
  by_cases hij : i = j
  · subst hij
    have : i < l.length := by
      rcases Nat.lt_or_ge i l.length with h' | h'
      · exact h'
      · rw [List.getElem?_eq_none h'] at h; cases h
    simp only [this, if_true]
    exact h.symm
  · simp [hij]

theorem callGetter_fields (ext : Ext Γ Pt W O) (G : Grid Γ Pt) (g : Getter) :
    (callGetter ext G g).1.alg = G.alg ∧ (callGetter ext G g).1.N = G.N := by
  obtain ⟨alg, N, dim, grid, poly, ⟨k, vd, vg, add, addF, np⟩⟩ := G
  cases g <;> cases k <;> simp [callGetter]


/-! ### the stable insertion sort -/

theorem insertBy_perm {α : Type} (key : α → Nat) (a : α) (l : List α) : (insertBy key a l).Perm (a :: l) := by
  induction l with
  | nil => exact List.Perm.refl _
  | cons b l ih =>
    unfold insertBy
    split
    · exact List.Perm.refl _
    · exact ((List.Perm.cons b ih).trans (List.Perm.swap a b l))

theorem sortBy_perm {α : Type} (key : α → Nat) (l : List α) : (sortBy key l).Perm l := by
  induction l with
  | nil => exact List.Perm.refl _
  | cons a l ih => exact (insertBy_perm key a _).trans (List.Perm.cons a ih)

theorem insertBy_pairwise {α : Type} (key : α → Nat) (a : α) (l : List α)
    (h : l.Pairwise (fun x y => key x ≤ key y)) : (insertBy key a l).Pairwise (fun x y => key x ≤ key y) := by
  induction l with
  | nil => exact List.pairwise_singleton _ _
  | cons b l ih =>
    unfold insertBy
    have hb : ∀ {x}, x ∈ l → key b ≤ key x := fun hx => List.rel_of_pairwise_cons h hx
    split
    · rename_i hab
      refine List.Pairwise.cons ?_ h
      intro x hx
      rcases List.mem_cons.mp hx with rfl | hx
      · exact hab
      · exact Nat.le_trans hab (hb hx)
    · rename_i hab
      refine List.Pairwise.cons ?_ (ih h.of_cons)
      intro x hx
      rcases List.mem_cons.mp ((insertBy_perm key a l).subset hx) with rfl | hx
      · omega
      · exact hb hx

theorem sortBy_pairwise {α : Type} (key : α → Nat) (l : List α) :
    (sortBy key l).Pairwise (fun x y => key x ≤ key y) := by
  induction l with
  | nil => exact List.Pairwise.nil
  | cons a l ih => exact insertBy_pairwise key a _ ih

/-- A list that is a permutation of `l` and sorted by an injective key is `sortBy key l`. -/
theorem sortBy_unique {α : Type} (key : α → Nat) (l l' : List α) (hp : l'.Perm l)
    (hs : l'.Pairwise (fun x y => key x ≤ key y))
    (hinj : ∀ a ∈ l, ∀ b ∈ l, key a = key b → a = b) : sortBy key l = l' := by
  refine List.Perm.eq_of_pairwise (le := fun x y => key x ≤ key y) ?_ (sortBy_pairwise key l) hs
    ((sortBy_perm key l).trans hp.symm)
  intro a b ha hb h1 h2
  exact hinj a ((sortBy_perm key l).subset ha) b (hp.subset hb) (Nat.le_antisymm h1 h2)

/-- Sorting a concatenation whose first part has the smaller keys sorts the parts. -/
theorem sortBy_append {α : Type} (key : α → Nat) (l₁ l₂ : List α)
    (hlt : ∀ a ∈ l₁, ∀ b ∈ l₂, key a ≤ key b)
    (hinj : ∀ a ∈ l₁ ++ l₂, ∀ b ∈ l₁ ++ l₂, key a = key b → a = b) :
    sortBy key (l₁ ++ l₂) = sortBy key l₁ ++ sortBy key l₂ := by
  apply sortBy_unique key _ _ ((sortBy_perm key l₁).append (sortBy_perm key l₂)) _ hinj
  rw [List.pairwise_append]
  refine ⟨sortBy_pairwise key l₁, sortBy_pairwise key l₂, ?_⟩
  intro a ha b hb
  exact hlt a ((sortBy_perm key l₁).subset ha) b ((sortBy_perm key l₂).subset hb)


/-! ### the node table: insertion, permanent index -/

/-- The node `_add_polytope_point` creates for a new key. -/
def mkNode (ext : Ext Γ Pt W O) (lvl : Nat) (p : Pt) : Node Pt :=
  { key := p, level := lvl, proj := ext.proj p, ci := none }

def keys (nodes : List (Node Pt)) : List Pt := nodes.map (·.key)

/-- Nodes added at the current level: distinct keys, each still exactly as created. -/
def NewOk (ext : Ext Γ Pt W O) (lvl : Nat) (extra : List (Node Pt)) : Prop :=
  (keys extra).Nodup ∧ ∀ e ∈ extra, e = mkNode ext lvl e.key

theorem any_key (nodes : List (Node Pt)) (p : Pt) :
    nodes.any (fun nd => nd.key == p) = true ↔ p ∈ keys nodes := by
  simp only [List.any_eq_true, beq_iff_eq, keys, List.mem_map]

theorem addNode_new (ext : Ext Γ Pt W O) (lvl : Nat) (nodes extra : List (Node Pt)) (p : Pt)
    (hp : p ∉ keys nodes) (he : NewOk ext lvl extra) :
    ∃ extra', addNode ext lvl (nodes ++ extra) p = nodes ++ extra' ∧ NewOk ext lvl extra' ∧
      ∀ q, q ∈ keys extra' ↔ (q ∈ keys extra ∨ q = p) := by
  by_cases hpe : p ∈ keys extra
  · refine ⟨extra, ?_, he, fun q => ⟨Or.inl, fun h => h.elim id (fun h => h ▸ hpe)⟩⟩
    unfold addNode
    have hany : (nodes ++ extra).any (fun nd => nd.key == p) = true := by
      rw [any_key]; simp only [keys, List.map_append, List.mem_append]; exact Or.inr hpe
    rw [if_pos hany, List.map_append]
    congr 1
    · conv => rhs; rw [← List.map_id nodes]
      apply List.map_congr_left
      intro nd hnd
      have : nd.key ≠ p := fun h => hp (h ▸ List.mem_map_of_mem (f := fun n : Node Pt => n.key) hnd)
      simp [this]
    · conv => rhs; rw [← List.map_id extra]
      apply List.map_congr_left
      intro e hee
      by_cases hk : e.key = p
      · have h1 := he.2 e hee
        simp only [hk, if_true, id]
        rw [h1]
        simp [mkNode, hk]
      · simp [hk]
  · refine ⟨extra ++ [mkNode ext lvl p], ?_, ⟨?_, ?_⟩, ?_⟩
    · unfold addNode
      have hany : ¬ (nodes ++ extra).any (fun nd => nd.key == p) = true := by
        rw [any_key]; simp only [keys, List.map_append, List.mem_append]
        rintro (h | h)
        · exact hp h
        · exact hpe h
      rw [if_neg hany, List.append_assoc]
      rfl
    · simp only [keys, List.map_append, List.map_cons, List.map_nil]
      rw [List.nodup_append]
      refine ⟨he.1, List.pairwise_singleton _ _, ?_⟩
      intro a ha b hb
      simp only [List.mem_singleton] at hb
      subst hb
      intro hab
      exact hpe (hab ▸ ha)
    · intro e hee
      rcases List.mem_append.mp hee with h | h
      · exact he.2 e h
      · simp only [List.mem_singleton] at h; subst h; rfl
    · intro q
      simp only [keys, List.map_append, List.map_cons, List.map_nil, List.mem_append, List.mem_singleton]
      constructor
      · rintro (h | h)
        · exact Or.inl h
        · exact Or.inr h
      · rintro (h | h)
        · exact Or.inl h
        · exact Or.inr h

theorem foldl_addNode_new (ext : Ext Γ Pt W O) (lvl : Nat) (nodes : List (Node Pt)) (pts : List Pt) :
    ∀ (extra : List (Node Pt)), (∀ p ∈ pts, p ∉ keys nodes) → NewOk ext lvl extra →
    ∃ extra', pts.foldl (addNode ext lvl) (nodes ++ extra) = nodes ++ extra' ∧ NewOk ext lvl extra' ∧
      ∀ q, q ∈ keys extra' ↔ (q ∈ keys extra ∨ q ∈ pts) := by
  induction pts with
  | nil =>
    intro extra _ he
    exact ⟨extra, rfl, he, fun q => by simp⟩
  | cons p pts ih =>
    intro extra hp he
    obtain ⟨e1, h1, h2, h3⟩ := addNode_new ext lvl nodes extra p (hp p List.mem_cons_self) he
    obtain ⟨e2, h4, h5, h6⟩ := ih e1 (fun q hq => hp q (List.mem_cons_of_mem _ hq)) h2
    refine ⟨e2, ?_, h5, ?_⟩
    · rw [List.foldl_cons, h1, h4]
    · intro q
      rw [h6, h3]
      simp only [List.mem_cons]
      constructor
      · rintro ((h | h) | h)
        · exact Or.inl h
        · exact Or.inr (Or.inl h)
        · exact Or.inr (Or.inr h)
      · rintro (h | h | h)
        · exact Or.inl (Or.inl h)
        · exact Or.inl (Or.inr h)
        · exact Or.inr h


/-- One `central_index` assignment seen from a single node. -/
def upd (p : Pt) (c : Nat) (nd : Node Pt) : Node Pt := if nd.key = p then { nd with ci := some c } else nd

/-- All assignments of `_end_of_divison` seen from a single node. -/
def updAll (base : Nat) : List (Pt × Nat) → Node Pt → Node Pt
  | [], nd => nd
  | (p, i) :: rest, nd => updAll base rest (upd p (base + i) nd)

theorem assignCi_eq_map (base : Nat) (l : List (Pt × Nat)) :
    ∀ nodes : List (Node Pt), assignCi base nodes l = nodes.map (updAll base l) := by
  induction l with
  | nil => intro nodes; simp [assignCi, updAll]
  | cons pi rest ih =>
    intro nodes
    obtain ⟨p, i⟩ := pi
    simp only [assignCi, ih, setCi, List.map_map]
    apply List.map_congr_left
    intro nd _
    simp [updAll, upd]

theorem upd_key (p : Pt) (c : Nat) (nd : Node Pt) :
    (upd p c nd).key = nd.key ∧ (upd p c nd).level = nd.level ∧ (upd p c nd).proj = nd.proj := by
  unfold upd; split <;> exact ⟨rfl, rfl, rfl⟩

theorem updAll_key (base : Nat) (l : List (Pt × Nat)) :
    ∀ nd : Node Pt, (updAll base l nd).key = nd.key ∧ (updAll base l nd).level = nd.level ∧
      (updAll base l nd).proj = nd.proj := by
  induction l with
  | nil => intro nd; exact ⟨rfl, rfl, rfl⟩
  | cons pi rest ih =>
    intro nd
    obtain ⟨p, i⟩ := pi
    have h1 := ih (upd p (base + i) nd)
    have h2 := upd_key p (base + i) nd
    simp only [updAll]
    exact ⟨h1.1.trans h2.1, h1.2.1.trans h2.2.1, h1.2.2.trans h2.2.2⟩

theorem updAll_notMem (base : Nat) (l : List (Pt × Nat)) :
    ∀ nd : Node Pt, nd.key ∉ l.map Prod.fst → updAll base l nd = nd := by
  induction l with
  | nil => intro nd _; rfl
  | cons pi rest ih =>
    intro nd h
    obtain ⟨p, i⟩ := pi
    simp only [List.map_cons, List.mem_cons, not_or] at h
    simp only [updAll]
    have : upd p (base + i) nd = nd := by unfold upd; rw [if_neg h.1]
    rw [this]
    exact ih nd h.2

theorem updAll_mem (base : Nat) (l : List (Pt × Nat)) (hnd : (l.map Prod.fst).Nodup) :
    ∀ (nd : Node Pt) (i : Nat), (nd.key, i) ∈ l → (updAll base l nd).ci = some (base + i) := by
  induction l with
  | nil => intro nd i h; cases h
  | cons pj rest ih =>
    intro nd i h
    obtain ⟨p, j⟩ := pj
    simp only [List.map_cons, List.nodup_cons] at hnd
    simp only [updAll]
    rcases List.mem_cons.mp h with h | h
    · simp only [Prod.mk.injEq] at h
      obtain ⟨h1, h2⟩ := h
      subst h1 h2
      have hk : (upd nd.key (base + i) nd).key ∉ rest.map Prod.fst := by
        rw [(upd_key _ _ _).1]; exact hnd.1
      rw [updAll_notMem base rest _ hk]
      simp [upd]
    · have hne : nd.key ≠ p := by
        intro heq
        apply hnd.1
        rw [← heq]
        exact List.mem_map_of_mem (f := Prod.fst) h
      have : upd p (base + j) nd = nd := by unfold upd; rw [if_neg hne]
      rw [this]
      exact ih hnd.2 nd i h

/-! ### applying a permutation -/

theorem filterMap_range_getElem? {α : Type} (l : List α) :
    (List.range l.length).filterMap (fun i => l[i]?) = l := by
  induction l with
  | nil => rfl
  | cons a l ih =>
    rw [List.length_cons, List.range_succ_eq_map, List.filterMap_cons]
    simp only [List.getElem?_cons_zero, List.filterMap_map]
    congr 1

theorem applyPerm_perm {α : Type} (σ : List Nat) (l : List α) (h : σ.Perm (List.range l.length)) :
    (applyPerm σ l).Perm l := by
  unfold applyPerm
  have := List.Perm.filterMap (fun i => l[i]?) h
  rwa [filterMap_range_getElem?] at this


/-! ### invariant of the node table and the effect of one `_end_of_divison` -/

/-- `np.random.shuffle` permutes. -/
def ShufflePerm (rng : Rng R W) : Prop := ∀ r n, (rng.shuffle r n).2.Perm (List.range n)

/-- Keys are distinct; every node was created below the current level and has a permanent index below `maxCi`;
indices are distinct. -/
structure PolyInv (P : Poly Γ Pt) : Prop where
  nodupKeys : (keys P.nodes).Nodup
  lvl : ∀ nd ∈ P.nodes, nd.level < P.level
  ci : ∀ nd ∈ P.nodes, ∃ c, nd.ci = some c ∧ c < P.maxCi
  ciInj : ∀ a ∈ P.nodes, ∀ b ∈ P.nodes, a.ci = b.ci → a = b

theorem nodup_keys_inj {l : List (Node Pt)} (h : (keys l).Nodup) {a b : Node Pt} (ha : a ∈ l) (hb : b ∈ l)
    (hk : a.key = b.key) : a = b :=
  List.inj_on_of_nodup_map h ha hb hk

theorem endOfDivision_spec (ext : Ext Γ Pt W O) (rng : Rng R W) (hs : ShufflePerm rng) (r : R)
    (kind : PolyKind) (g : Γ) (nodes extra : List (Node Pt)) (lvl base : Nat) (cache : Option (List Pt) × Nat)
    (hlv : ∀ nd ∈ nodes, nd.level < lvl) (he : NewOk ext lvl extra)
    (hdis : ∀ p ∈ keys extra, p ∉ keys nodes) :
    ∃ extra', (endOfDivision rng r { kind := kind, g := g, nodes := nodes ++ extra, level := lvl, maxCi := base,
                                      cache := cache }).2 =
        { kind := kind, g := g, nodes := nodes ++ extra', level := lvl + 1, maxCi := base + extra.length,
          cache := cache } ∧
      keys extra' = keys extra ∧
      (∀ e ∈ extra', e.level = lvl ∧ e.proj = ext.proj e.key ∧
        ∃ c, e.ci = some c ∧ base ≤ c ∧ c < base + extra.length) ∧
      (∀ a ∈ extra', ∀ b ∈ extra', a.ci = b.ci → a = b) := by
  -- the nodes of the current level are exactly `extra`
  have hnew : ((nodes ++ extra).filter (fun nd => nd.level == lvl)).map (·.key) = keys extra := by
    rw [List.filter_append]
    have h1 : nodes.filter (fun nd => nd.level == lvl) = [] := by
      rw [List.filter_eq_nil_iff]
      intro nd hnd
      have := hlv nd hnd
      simp only [beq_iff_eq]; omega
    have h2 : extra.filter (fun nd => nd.level == lvl) = extra := by
      rw [List.filter_eq_self]
      intro e hee
      rw [he.2 e hee]; simp [mkNode]
    rw [h1, h2, List.nil_append]; rfl
  let σ := (rng.shuffle (rng.seed 15) (keys extra).length).2
  let sh := applyPerm σ (keys extra)
  have hshp : sh.Perm (keys extra) := applyPerm_perm σ (keys extra) (hs _ _)
  have hshn : sh.Nodup := hshp.nodup_iff.mpr he.1
  have hlen : sh.length = extra.length := by rw [hshp.length_eq]; simp [keys]
  let l := sh.zipIdx
  have hl1 : l.map Prod.fst = sh := List.zipIdx_map_fst 0 sh
  have hl1n : (l.map Prod.fst).Nodup := by rw [hl1]; exact hshn
  let extra' := extra.map (updAll base l)
  have hnodes : nodes.map (updAll base l) = nodes := by
    conv => rhs; rw [← List.map_id nodes]
    apply List.map_congr_left
    intro nd hnd
    apply updAll_notMem
    rw [hl1]
    intro hmem
    exact hdis nd.key (hshp.subset hmem) (List.mem_map_of_mem (f := fun n : Node Pt => n.key) hnd)
  have hidx : ∀ e ∈ extra, ∃ i, i < sh.length ∧ sh[i]? = some e.key ∧ (updAll base l e).ci = some (base + i) := by
    intro e hee
    have hmem : e.key ∈ sh := hshp.symm.subset (List.mem_map_of_mem (f := fun n : Node Pt => n.key) hee)
    obtain ⟨i, hi, hget⟩ := List.getElem_of_mem hmem
    have hget' : sh[i]? = some e.key := by rw [List.getElem?_eq_getElem hi, hget]
    refine ⟨i, hi, hget', ?_⟩
    apply updAll_mem base l hl1n e i
    exact List.mk_mem_zipIdx_iff_getElem?.mpr hget'
  refine ⟨extra', ?_, ?_, ?_, ?_⟩
  · unfold endOfDivision
    simp only [hnew]
    have h1 : assignCi base (nodes ++ extra) (applyPerm (rng.shuffle (rng.seed 15) (keys extra).length).2 (keys extra)).zipIdx
        = nodes ++ extra' := by
      rw [assignCi_eq_map, List.map_append]
      show nodes.map (updAll base l) ++ extra.map (updAll base l) = nodes ++ extra'
      rw [hnodes]
    rw [h1]
    show _ = _
    congr 1
    show base + sh.length = base + extra.length
    rw [hlen]
  · show keys (extra.map (updAll base l)) = keys extra
    simp only [keys, List.map_map]
    apply List.map_congr_left
    intro e _
    exact (updAll_key base l e).1
  · intro e' he'
    obtain ⟨e, hee, rfl⟩ := List.mem_map.mp he'
    obtain ⟨i, hi, _, hci⟩ := hidx e hee
    refine ⟨?_, ?_, base + i, hci, Nat.le_add_right _ _, by omega⟩
    · rw [(updAll_key base l e).2.1, he.2 e hee]; rfl
    · rw [(updAll_key base l e).2.2, (updAll_key base l e).1, he.2 e hee]; rfl
  · intro a' ha' b' hb' hab
    obtain ⟨a, haa, rfl⟩ := List.mem_map.mp ha'
    obtain ⟨b, hbb, rfl⟩ := List.mem_map.mp hb'
    obtain ⟨i, _, hgi, hci⟩ := hidx a haa
    obtain ⟨j, _, hgj, hcj⟩ := hidx b hbb
    rw [hci, hcj] at hab
    have hij : i = j := by simp only [Option.some.injEq] at hab; omega
    subst hij
    rw [hgi] at hgj
    have : a = b := nodup_keys_inj he.1 haa hbb (Option.some.inj hgj)
    rw [this]


theorem NewOk.nil (ext : Ext Γ Pt W O) (lvl : Nat) : NewOk ext lvl ([] : List (Node Pt)) :=
  ⟨List.nodup_nil, fun _ h => by cases h⟩

theorem keys_append (a b : List (Node Pt)) : keys (a ++ b) = keys a ++ keys b := by
  simp [keys]

/-- Effect of one subdivision on a node table satisfying the invariant, when every new point is a new key. -/
theorem divideEdges_spec (ext : Ext Γ Pt W O) (rng : Rng R W) (hs : ShufflePerm rng) (r : R) (P : Poly Γ Pt)
    (hinv : PolyInv P) (hfresh : ∀ p ∈ (ext.divide P.kind P.g).2, p ∉ keys P.nodes) :
    ∃ extra', (divideEdges ext rng r P).2.nodes = P.nodes ++ extra' ∧ PolyInv (divideEdges ext rng r P).2 ∧
      (divideEdges ext rng r P).2.maxCi = P.maxCi + extra'.length ∧
      (∀ e ∈ extra', ∃ c, e.ci = some c ∧ P.maxCi ≤ c) ∧
      (∀ q, q ∈ keys extra' ↔ q ∈ (ext.divide P.kind P.g).2) ∧
      (∀ e ∈ extra', e.proj = ext.proj e.key) := by
  obtain ⟨extra, h1, h2, h3⟩ := foldl_addNode_new ext P.level P.nodes (ext.divide P.kind P.g).2 [] hfresh
    (NewOk.nil ext P.level)
  rw [List.append_nil] at h1
  have hdis : ∀ p ∈ keys extra, p ∉ keys P.nodes := by
    intro p hp
    rcases (h3 p).mp hp with h | h
    · cases h
    · exact hfresh p h
  obtain ⟨extra', h4, h5, h6, h7⟩ := endOfDivision_spec ext rng hs r P.kind (ext.divide P.kind P.g).1 P.nodes extra
    P.level P.maxCi P.cache hinv.lvl h2 hdis
  have hlen : extra'.length = extra.length := by
    have := congrArg List.length h5; simpa [keys] using this
  have hdiv : (divideEdges ext rng r P).2 =
      { kind := P.kind, g := (ext.divide P.kind P.g).1, nodes := P.nodes ++ extra',
        level := P.level + 1, maxCi := P.maxCi + extra.length, cache := P.cache } := by
    unfold divideEdges
    simp only [h1]
    exact h4
  refine ⟨extra', by rw [hdiv], ?_, by rw [hdiv, hlen], ?_, ?_, fun e hee => (h6 e hee).2.1⟩
  · rw [hdiv]
    constructor
    · simp only [keys_append, h5]
      rw [List.nodup_append]
      refine ⟨hinv.nodupKeys, h2.1, ?_⟩
      intro a ha b hb hab
      exact hdis b hb (hab ▸ ha)
    · intro nd hnd
      rcases List.mem_append.mp hnd with h | h
      · have := hinv.lvl nd h; simp only; omega
      · have := (h6 nd h).1; simp only; omega
    · intro nd hnd
      rcases List.mem_append.mp hnd with h | h
      · obtain ⟨c, hc1, hc2⟩ := hinv.ci nd h
        exact ⟨c, hc1, by simp only; omega⟩
      · obtain ⟨_, _, c, hc1, _, hc3⟩ := h6 nd h
        exact ⟨c, hc1, hc3⟩
    · intro a ha b hb hab
      rcases List.mem_append.mp ha with ha | ha <;> rcases List.mem_append.mp hb with hb | hb
      · exact hinv.ciInj a ha b hb hab
      · obtain ⟨c, hc1, hc2⟩ := hinv.ci a ha
        obtain ⟨_, _, c', hc1', hc2', _⟩ := h6 b hb
        rw [hc1, hc1'] at hab
        simp only [Option.some.injEq] at hab
        omega
      · obtain ⟨c, hc1, hc2⟩ := hinv.ci b hb
        obtain ⟨_, _, c', hc1', hc2', _⟩ := h6 a ha
        rw [hc1, hc1'] at hab
        simp only [Option.some.injEq] at hab
        omega
      · exact h7 a ha b hb hab
  · intro e hee
    obtain ⟨_, _, c, hc1, hc2, _⟩ := h6 e hee
    exact ⟨c, hc1, hc2⟩
  · intro q
    rw [h5, h3]
    constructor
    · rintro (h | h)
      · cases h
      · exact h
    · exact Or.inr

theorem newPoly_inv' (ext : Ext Γ Pt W O) (rng : Rng R W) (hs : ShufflePerm rng) (r : R) (k : PolyKind) :
    PolyInv (newPoly ext rng r k).2 ∧ ∀ nd ∈ (newPoly ext rng r k).2.nodes, nd.proj = ext.proj nd.key := by
  obtain ⟨extra, h1, h2, h3⟩ := foldl_addNode_new ext 0 [] (ext.init k).2 [] (fun _ _ h => by cases h)
    (NewOk.nil ext 0)
  rw [List.append_nil, List.nil_append] at h1
  obtain ⟨extra', h4, h5, h6, h7⟩ := endOfDivision_spec ext rng hs r k (ext.init k).1 [] extra
    0 0 (none, 0) (fun _ h => by cases h) h2 (fun _ _ h => by cases h)
  have hnp : (newPoly ext rng r k).2 =
      { kind := k, g := (ext.init k).1, nodes := [] ++ extra',
        level := 0 + 1, maxCi := 0 + extra.length, cache := (none, 0) } := by
    unfold newPoly
    simp only [h1]
    rw [← h4, List.nil_append]
  rw [hnp]
  refine ⟨?_, ?_⟩
  · constructor
    · simp only [List.nil_append, h5]; exact h2.1
    · intro nd hnd
      simp only [List.nil_append] at hnd
      have := (h6 nd hnd).1; simp only; omega
    · intro nd hnd
      simp only [List.nil_append] at hnd
      obtain ⟨_, _, c, hc1, _, hc3⟩ := h6 nd hnd
      exact ⟨c, hc1, hc3⟩
    · intro a ha b hb hab
      simp only [List.nil_append] at ha hb
      exact h7 a ha b hb hab
  · intro nd hnd
    simp only [List.nil_append] at hnd
    exact (h6 nd hnd).2.1

theorem newPoly_inv (ext : Ext Γ Pt W O) (rng : Rng R W) (hs : ShufflePerm rng) (r : R) (k : PolyKind) :
    PolyInv (newPoly ext rng r k).2 := (newPoly_inv' ext rng hs r k).1

/-- Every subdivision of a canonical polytope creates only new keys, and at least one. -/
structure Fresh (ext : Ext Γ Pt W O) (rng : Rng R W) : Prop where
  fresh : ∀ k d, ∀ p ∈ (ext.divide k (canonPoly ext rng k d).g).2, p ∉ keys (canonPoly ext rng k d).nodes
  nonempty : ∀ k d, (ext.divide k (canonPoly ext rng k d).g).2 ≠ []

theorem canonPoly_inv (ext : Ext Γ Pt W O) (rng : Rng R W) (hs : ShufflePerm rng) (hf : Fresh ext rng)
    (k : PolyKind) (d : Nat) : PolyInv (canonPoly ext rng k d) := by
  induction d with
  | zero => exact newPoly_inv ext rng hs _ k
  | succ d ih =>
    have hk := canonPoly_kind ext rng k d
    obtain ⟨_, _, h, _⟩ := divideEdges_spec ext rng hs (rng.seed 0) (canonPoly ext rng k d) ih
      (by rw [hk]; exact hf.fresh k d)
    exact h

/-- The node table of the next level: the old table, unchanged, followed by the new nodes with larger indices. -/
theorem canonPoly_succ (ext : Ext Γ Pt W O) (rng : Rng R W) (hs : ShufflePerm rng) (hf : Fresh ext rng)
    (k : PolyKind) (d : Nat) :
    ∃ extra', (canonPoly ext rng k (d + 1)).nodes = (canonPoly ext rng k d).nodes ++ extra' ∧ extra' ≠ [] ∧
      (∀ e ∈ extra', ∃ c, e.ci = some c ∧ (canonPoly ext rng k d).maxCi ≤ c) := by
  have hk := canonPoly_kind ext rng k d
  obtain ⟨extra', h1, _, _, h3, h4, _⟩ := divideEdges_spec ext rng hs (rng.seed 0) (canonPoly ext rng k d)
    (canonPoly_inv ext rng hs hf k d) (by rw [hk]; exact hf.fresh k d)
  refine ⟨extra', h1, ?_, h3⟩
  intro he
  have hne := hf.nonempty k d
  obtain ⟨p, hp⟩ := List.exists_mem_of_ne_nil _ hne
  have := (h4 p).mpr (by rw [hk]; exact hp)
  rw [he] at this
  cases this

theorem fresh_grows (ext : Ext Γ Pt W O) (rng : Rng R W) (hs : ShufflePerm rng) (hf : Fresh ext rng) :
    Grows ext rng := by
  intro k d
  obtain ⟨extra', h1, h2, _⟩ := canonPoly_succ ext rng hs hf k d
  rw [h1, List.length_append]
  have : 0 < extra'.length := List.length_pos_of_ne_nil h2
  omega


/-! ### sorted node list of `nodes ++ extra'` -/

def ciKey (nd : Node Pt) : Nat := nd.ci.getD 0

/-- The sorted keys when every node has an index. -/
def sortedKeys (nodes : List (Node Pt)) : List Pt := (sortBy ciKey nodes).map (·.key)

theorem sortByCi_ok (nodes : List (Node Pt)) (h : ∀ nd ∈ nodes, ∃ c, nd.ci = some c) :
    sortByCi nodes = .ok (sortedKeys nodes) := by
  unfold sortByCi
  have : nodes.all (fun nd => nd.ci.isSome) = true := by
    rw [List.all_eq_true]
    intro nd hnd
    obtain ⟨c, hc⟩ := h nd hnd
    simp [hc]
  rw [if_pos this]
  rfl

theorem sortedPure_eq (nodes : List (Node Pt)) : sortedPure nodes = sortByCi nodes := by
  unfold sortedPure
  split
  · rename_i h
    have : nodes = [] := List.eq_nil_of_length_eq_zero h
    subst this
    rfl
  · rfl

theorem sortedKeys_length (nodes : List (Node Pt)) : (sortedKeys nodes).length = nodes.length := by
  unfold sortedKeys
  rw [List.length_map, (sortBy_perm ciKey nodes).length_eq]

theorem sortedKeys_mem (nodes : List (Node Pt)) (k : Pt) : k ∈ sortedKeys nodes ↔ k ∈ keys nodes := by
  unfold sortedKeys keys
  exact ((sortBy_perm ciKey nodes).map _).mem_iff

theorem sortedKeys_append (nodes extra : List (Node Pt)) (base : Nat)
    (h1 : ∀ nd ∈ nodes, ∃ c, nd.ci = some c ∧ c < base)
    (h2 : ∀ e ∈ extra, ∃ c, e.ci = some c ∧ base ≤ c)
    (hinj : ∀ a ∈ nodes ++ extra, ∀ b ∈ nodes ++ extra, a.ci = b.ci → a = b) :
    sortedKeys (nodes ++ extra) = sortedKeys nodes ++ sortedKeys extra := by
  unfold sortedKeys
  rw [sortBy_append, List.map_append]
  · intro a ha b hb
    obtain ⟨c, hc1, hc2⟩ := h1 a ha
    obtain ⟨c', hc1', hc2'⟩ := h2 b hb
    simp only [ciKey, hc1, hc1', Option.getD_some]
    omega
  · intro a ha b hb hab
    apply hinj a ha b hb
    have hsome : ∀ x ∈ nodes ++ extra, ∃ c, x.ci = some c := by
      intro x hx
      rcases List.mem_append.mp hx with h | h
      · obtain ⟨c, hc, _⟩ := h1 x h; exact ⟨c, hc⟩
      · obtain ⟨c, hc, _⟩ := h2 x h; exact ⟨c, hc⟩
    obtain ⟨c, hc⟩ := hsome a ha
    obtain ⟨c', hc'⟩ := hsome b hb
    simp only [ciKey, hc, hc', Option.getD_some] at hab
    rw [hc, hc', hab]

/-! ### `mapE` and projection look-up -/

theorem mapE_append {α β : Type} (f : α → Except Err β) (a b : List α) :
    mapE f (a ++ b) = match mapE f a with
      | .error e => .error e
      | .ok ra => match mapE f b with
        | .error e => .error e
        | .ok rb => .ok (ra ++ rb) := by
  induction a with
  | nil =>
    simp only [List.nil_append, mapE]
    cases mapE f b <;> rfl
  | cons x a ih =>
    simp only [List.cons_append, mapE]
    cases hx : f x with
    | error e => rfl
    | ok y =>
      simp only
      rw [ih]
      cases mapE f a with
      | error e => rfl
      | ok ra =>
        simp only
        cases mapE f b <;> rfl

theorem mapE_congr {α β : Type} (f g : α → Except Err β) (l : List α) (h : ∀ x ∈ l, f x = g x) :
    mapE f l = mapE g l := by
  induction l with
  | nil => rfl
  | cons x l ih =>
    simp only [mapE]
    rw [h x List.mem_cons_self, ih (fun y hy => h y (List.mem_cons_of_mem _ hy))]

theorem mapE_ok {α β : Type} (f : α → Except Err β) (l : List α) (h : ∀ x ∈ l, ∃ y, f x = .ok y) :
    ∃ ys, mapE f l = .ok ys ∧ ys.length = l.length := by
  induction l with
  | nil => exact ⟨[], rfl, rfl⟩
  | cons x l ih =>
    obtain ⟨y, hy⟩ := h x List.mem_cons_self
    obtain ⟨ys, hys, hl⟩ := ih (fun z hz => h z (List.mem_cons_of_mem _ hz))
    refine ⟨y :: ys, ?_, by simp [hl]⟩
    simp only [mapE, hy, hys]

theorem lookupProj_ok (nodes : List (Node Pt)) (k : Pt) (h : k ∈ keys nodes) :
    ∃ y, lookupProj nodes k = .ok y := by
  unfold lookupProj
  cases hf : nodes.find? (fun nd => nd.key == k) with
  | some nd => exact ⟨nd.proj, rfl⟩
  | none =>
    rw [List.find?_eq_none] at hf
    obtain ⟨nd, hnd, hk⟩ := List.mem_map.mp h
    have := hf nd hnd
    simp [hk] at this

theorem lookupProj_append (nodes extra : List (Node Pt)) (k : Pt) (h : k ∈ keys nodes) :
    lookupProj (nodes ++ extra) k = lookupProj nodes k := by
  unfold lookupProj
  rw [List.find?_append]
  cases hf : nodes.find? (fun nd => nd.key == k) with
  | some nd => rfl
  | none =>
    rw [List.find?_eq_none] at hf
    obtain ⟨nd, hnd, hk⟩ := List.mem_map.mp h
    have := hf nd hnd
    simp [hk] at this

/-- `get_nodes` of the subdivided polytope returns the same first `N` rows, for `N` up to the old node count. -/
theorem getNodesPure_append (nodes extra : List (Node Pt)) (base : Nat) (N : Nat) (proj : Bool)
    (h1 : ∀ nd ∈ nodes, ∃ c, nd.ci = some c ∧ c < base)
    (h2 : ∀ e ∈ extra, ∃ c, e.ci = some c ∧ base ≤ c)
    (hinj : ∀ a ∈ nodes ++ extra, ∀ b ∈ nodes ++ extra, a.ci = b.ci → a = b)
    (hN : N ≤ nodes.length) :
    getNodesPure (nodes ++ extra) (some N) proj = getNodesPure nodes (some N) proj := by
  have hsome : ∀ x ∈ nodes ++ extra, ∃ c, x.ci = some c := by
    intro x hx
    rcases List.mem_append.mp hx with h | h
    · obtain ⟨c, hc, _⟩ := h1 x h; exact ⟨c, hc⟩
    · obtain ⟨c, hc, _⟩ := h2 x h; exact ⟨c, hc⟩
  unfold getNodesPure
  simp only [Option.getD_some]
  have hN' : ¬ N > (nodes ++ extra).length := by rw [List.length_append]; omega
  have hN'' : ¬ N > nodes.length := by omega
  rw [if_neg hN', if_neg hN'', sortedPure_eq, sortedPure_eq, sortByCi_ok _ hsome,
    sortByCi_ok nodes (fun nd hnd => (h1 nd hnd).imp (fun _ h => h.1)),
    sortedKeys_append nodes extra base h1 h2 hinj]
  simp only
  have hlen := sortedKeys_length nodes
  cases proj
  · simp only [Bool.false_eq_true, if_false]
    rw [List.take_append_of_le_length (by omega)]
  · simp only [if_true]
    rw [mapE_append]
    have hc : mapE (lookupProj (nodes ++ extra)) (sortedKeys nodes) = mapE (lookupProj nodes) (sortedKeys nodes) := by
      apply mapE_congr
      intro k hk
      exact lookupProj_append nodes extra k ((sortedKeys_mem nodes k).mp hk)
    rw [hc]
    obtain ⟨ra, hra, hla⟩ := mapE_ok (lookupProj nodes) (sortedKeys nodes)
      (fun k hk => lookupProj_ok nodes k ((sortedKeys_mem nodes k).mp hk))
    obtain ⟨rb, hrb, _⟩ := mapE_ok (lookupProj (nodes ++ extra)) (sortedKeys extra)
      (fun k hk => lookupProj_ok _ k (by
        rw [keys_append]; exact List.mem_append_right _ ((sortedKeys_mem extra k).mp hk)))
    rw [hra, hrb]
    simp only
    rw [List.take_append_of_le_length (by omega)]

theorem getNodesPure_take (nodes : List (Node Pt)) (N N' : Nat) (proj : Bool) (g' : List Pt) (hN : N ≤ N')
    (h : getNodesPure nodes (some N') proj = .ok g') : getNodesPure nodes (some N) proj = .ok (g'.take N) := by
  unfold getNodesPure at h ⊢
  simp only [Option.getD_some] at h ⊢
  by_cases h1 : N' > nodes.length
  · rw [if_pos h1] at h; cases h
  · rw [if_neg h1] at h
    have h2 : ¬ N > nodes.length := by omega
    rw [if_neg h2]
    cases hs : sortedPure nodes with
    | error e => rw [hs] at h; cases h
    | ok s =>
      rw [hs] at h
      simp only at h ⊢
      cases proj
      · simp only [Bool.false_eq_true, if_false, Except.ok.injEq] at h ⊢
        rw [← h, List.take_take, Nat.min_eq_left hN]
      · simp only [if_true] at h ⊢
        cases hm : mapE (lookupProj nodes) s with
        | error e => rw [hm] at h; cases h
        | ok rows =>
          rw [hm] at h
          simp only [Except.ok.injEq] at h ⊢
          rw [← h, List.take_take, Nat.min_eq_left hN]


/-! ### level monotonicity on canonical polytopes -/

theorem canon_getNodes_mono (ext : Ext Γ Pt W O) (rng : Rng R W) (hs : ShufflePerm rng) (hf : Fresh ext rng)
    (k : PolyKind) (d N : Nat) (proj : Bool) (hN : N ≤ (canonPoly ext rng k d).nodes.length) (m : Nat) :
    (canonPoly ext rng k d).nodes.length ≤ (canonPoly ext rng k (d + m)).nodes.length ∧
    getNodesPure (canonPoly ext rng k (d + m)).nodes (some N) proj
      = getNodesPure (canonPoly ext rng k d).nodes (some N) proj := by
  induction m with
  | zero => exact ⟨Nat.le_refl _, rfl⟩
  | succ m ih =>
    obtain ⟨extra', h1, _, h3⟩ := canonPoly_succ ext rng hs hf k (d + m)
    have hinv := canonPoly_inv ext rng hs hf k (d + m)
    have hinv' := canonPoly_inv ext rng hs hf k (d + m + 1)
    rw [← Nat.add_assoc, h1]
    refine ⟨by rw [List.length_append]; omega, ?_⟩
    rw [getNodesPure_append _ extra' (canonPoly ext rng k (d + m)).maxCi N proj hinv.ci h3
      (by rw [← h1]; exact hinv'.ciInj) (by omega)]
    exact ih.2

theorem sortByCi_length (nodes : List (Node Pt)) (s : List Pt) (h : sortByCi nodes = .ok s) :
    s.length = nodes.length := by
  unfold sortByCi at h
  split at h
  · simp only [Except.ok.injEq] at h
    rw [← h, List.length_map, (sortBy_perm _ nodes).length_eq]
  · cases h

theorem getNodesPure_none_length (nodes : List (Node Pt)) (rows : List Pt)
    (h : getNodesPure nodes none false = .ok rows) : rows.length = nodes.length := by
  unfold getNodesPure at h
  simp only [Option.getD_none, gt_iff_lt, Nat.lt_irrefl, if_false, Bool.false_eq_true] at h
  rw [sortedPure_eq] at h
  cases hs : sortByCi nodes with
  | error e => rw [hs] at h; cases h
  | ok s =>
    rw [hs] at h
    simp only [Except.ok.injEq] at h
    rw [← h, List.length_take, sortByCi_length nodes s hs, Nat.min_self]

/-- The `while len(get_nodes()) < N: divide_edges()` loop, when it ends, ends on a canonical polytope with a usable
cache and at least `N` nodes. -/
theorem growUntil_nodes_spec (ext : Ext Γ Pt W O) (rng : Rng R W) (hg : Grows ext rng) (N : Nat) :
    ∀ (fuel : Nat) (r : R) (P : Poly Γ Pt), PolyOk ext rng P →
    ∀ (r' : R) (P' : Poly Γ Pt),
      growUntil ext rng (fun P => getNodes P none false) N fuel r P = (r', P', .ok ()) →
      PolyOk ext rng P' ∧ P'.kind = P.kind ∧ N ≤ P'.nodes.length := by
  intro fuel
  induction fuel with
  | zero =>
    intro r P _ r' P' h
    simp only [growUntil, Prod.mk.injEq] at h
    exact absurd h.2.2 (by simp)
  | succ fuel ih =>
    intro r P hP r' P' h
    simp only [growUntil] at h
    have hok := getNodes_ok ext rng P none false hP
    have hcore := getNodes_core P none false
    obtain ⟨d, hc, hk⟩ := hP
    have hres := getNodes_res P none false hk
    cases hrows : (getNodes P none false).2 with
    | error e =>
      rw [hrows] at h
      simp only [Prod.mk.injEq] at h
      exact absurd h.2.2 (by simp)
    | ok rows =>
      rw [hrows] at h
      simp only at h
      by_cases hlt : rows.length < N
      · rw [if_pos hlt] at h
        have := ih _ _ (divide_ok ext rng hg r _ hok) r' P' h
        refine ⟨this.1, ?_, this.2.2⟩
        rw [this.2.1, divideEdges_kind, hcore.1]
      · rw [if_neg hlt] at h
        simp only [Prod.mk.injEq] at h
        obtain ⟨_, h2, _⟩ := h
        subst h2
        refine ⟨hok, hcore.1, ?_⟩
        rw [hcore.2.2.1]
        rw [hres] at hrows
        rw [← getNodesPure_none_length P.nodes rows hrows]
        omega

def kindOf3 (a : Alg) : PolyKind := if a = .ico then .ico else .cube3D

/-- The common body of `IcoAndCube3DRotations._gen_grid` for polytope kind `k`. -/
def gen3 (ext : Ext Γ Pt W O) (rng : Rng R W) (r : R) (k : PolyKind) (N : Nat) :
    R × Except Err (Nat × Option (Poly Γ Pt) × List Pt) :=
  let p0 := newPoly ext rng r k
  let gr := growUntil ext rng (fun P => getNodes P none false) N (N + 1) p0.1 p0.2
  match gr.2.2 with
  | .error e => (gr.1, .error e)
  | .ok _ =>
    let res := getNodes gr.2.1 (some N) true
    match res.2 with
    | .error e => (gr.1, .error e)
    | .ok rows => (gr.1, .ok (N, some res.1, rows))

theorem genGrid_ico (ext : Ext Γ Pt W O) (rng : Rng R W) (r : R) (N : Nat) :
    genGrid ext rng r .ico N = gen3 ext rng r .ico N := rfl

theorem genGrid_cube3D (ext : Ext Γ Pt W O) (rng : Rng R W) (r : R) (N : Nat) :
    genGrid ext rng r .cube3D N = gen3 ext rng r .cube3D N := rfl

theorem gen3_spec (ext : Ext Γ Pt W O) (rng : Rng R W) (hg : Grows ext rng) (k : PolyKind)
    (r : R) (N n : Nat) (p : Option (Poly Γ Pt)) (g : List Pt)
    (h : (gen3 ext rng r k N).2 = .ok (n, p, g)) :
    ∃ d, N ≤ (canonPoly ext rng k d).nodes.length ∧
      getNodesPure (canonPoly ext rng k d).nodes (some N) true = .ok g := by
  unfold gen3 at h
  simp only at h
  generalize hgr : growUntil ext rng (fun P => getNodes P none false) N (N + 1)
    (newPoly ext rng r k).1 (newPoly ext rng r k).2 = gr at h
  obtain ⟨r', P', res⟩ := gr
  cases res with
  | error e => cases h
  | ok u =>
    cases u
    simp only at h
    obtain ⟨hP', hkind, hN⟩ := growUntil_nodes_spec ext rng hg N (N + 1) _ _ (newPoly_ok ext rng r k) r' P' hgr
    obtain ⟨d, hc, hk⟩ := hP'
    have hk' : P'.kind = k := by rw [hkind]; rfl
    have hres := getNodes_res P' (some N) true hk
    rw [hc.2.2.1, hk'] at hres
    refine ⟨d, ?_, ?_⟩
    · rw [← hk', ← hc.2.2.1]; exact hN
    · cases hq : (getNodes P' (some N) true).2 with
      | error e => rw [hq] at h; cases h
      | ok rows =>
        rw [hq] at h
        simp only [Except.ok.injEq, Prod.mk.injEq] at h
        rw [← hres, hq, h.2.2]


/-! ### the half selection of the hypercube -/

theorem canonPoly_projOk (ext : Ext Γ Pt W O) (rng : Rng R W) (hs : ShufflePerm rng) (hf : Fresh ext rng)
    (k : PolyKind) (d : Nat) : ∀ nd ∈ (canonPoly ext rng k d).nodes, nd.proj = ext.proj nd.key := by
  induction d with
  | zero => exact (newPoly_inv' ext rng hs _ k).2
  | succ d ih =>
    have hk := canonPoly_kind ext rng k d
    obtain ⟨extra', h1, _, _, _, _, h6⟩ := divideEdges_spec ext rng hs (rng.seed 0) (canonPoly ext rng k d)
      (canonPoly_inv ext rng hs hf k d) (by rw [hk]; exact hf.fresh k d)
    intro nd hnd
    have hn : (canonPoly ext rng k (d + 1)).nodes = (canonPoly ext rng k d).nodes ++ extra' := h1
    rw [hn] at hnd
    rcases List.mem_append.mp hnd with h | h
    · exact ih nd h
    · exact h6 nd h

/-- The projected rows in index order. -/
def projRows (nodes : List (Node Pt)) : List Pt := (sortBy ciKey nodes).map (·.proj)

theorem lookupProj_self (nodes : List (Node Pt)) (hn : (keys nodes).Nodup) (nd : Node Pt) (hnd : nd ∈ nodes) :
    lookupProj nodes nd.key = .ok nd.proj := by
  unfold lookupProj
  cases hf : nodes.find? (fun x => x.key == nd.key) with
  | some nd' =>
    have h1 := List.find?_some hf
    have h2 := List.mem_of_find?_eq_some hf
    simp only [beq_iff_eq] at h1
    rw [nodup_keys_inj hn h2 hnd h1]
  | none =>
    rw [List.find?_eq_none] at hf
    have := hf nd hnd
    simp at this

theorem mapE_lookup (nodes : List (Node Pt)) (hn : (keys nodes).Nodup) (L : List (Node Pt))
    (hL : ∀ nd ∈ L, nd ∈ nodes) :
    mapE (lookupProj nodes) (L.map (·.key)) = .ok (L.map (·.proj)) := by
  induction L with
  | nil => rfl
  | cons a L ih =>
    simp only [List.map_cons, mapE]
    rw [lookupProj_self nodes hn a (hL a List.mem_cons_self), ih (fun nd h => hL nd (List.mem_cons_of_mem _ h))]

theorem getNodesPure_all (nodes : List (Node Pt)) (hn : (keys nodes).Nodup)
    (hc : ∀ nd ∈ nodes, ∃ c, nd.ci = some c) (proj : Bool) :
    getNodesPure nodes none proj = .ok (if proj then projRows nodes else sortedKeys nodes) := by
  unfold getNodesPure
  simp only [Option.getD_none, gt_iff_lt, Nat.lt_irrefl, if_false]
  rw [sortedPure_eq, sortByCi_ok nodes hc]
  simp only
  cases proj
  · simp only [Bool.false_eq_true, if_false]
    rw [List.take_of_length_le (by rw [sortedKeys_length]; exact Nat.le_refl _)]
  · simp only [if_true]
    unfold sortedKeys
    rw [mapE_lookup nodes hn _ (fun nd h => (sortBy_perm ciKey nodes).subset h)]
    simp only
    rw [List.take_of_length_le (by rw [List.length_map, (sortBy_perm ciKey nodes).length_eq]; exact Nat.le_refl _)]
    rfl

/-- `all_ci` of `get_half_of_hypercube`: sorted first positions of the upper rows. -/
def halfIdx (ext : Ext Γ Pt W O) (P : List Pt) : List Nat :=
  sortBy id ((P.filter ext.upper).map (fun u => P.findIdx (fun q => q == u)))

theorem halfIdx_lt (ext : Ext Γ Pt W O) (P : List Pt) : ∀ i ∈ halfIdx ext P, i < P.length := by
  intro i hi
  have hi' := (sortBy_perm id _).subset hi
  obtain ⟨u, hu, rfl⟩ := List.mem_map.mp hi'
  apply List.findIdx_lt_length_of_exists
  exact ⟨u, (List.mem_filter.mp hu).1, by simp⟩

theorem halfIdx_append (ext : Ext Γ Pt W O) (P Q : List Pt) (hdis : ∀ u ∈ Q, u ∉ P) :
    ∃ B, halfIdx ext (P ++ Q) = halfIdx ext P ++ B ∧ ∀ i ∈ B, P.length ≤ i ∧ i < (P ++ Q).length := by
  let B0 := (Q.filter ext.upper).map (fun u => (P ++ Q).findIdx (fun q => q == u))
  have hA : (P.filter ext.upper).map (fun u => (P ++ Q).findIdx (fun q => q == u))
      = (P.filter ext.upper).map (fun u => P.findIdx (fun q => q == u)) := by
    apply List.map_congr_left
    intro u hu
    have hlt : P.findIdx (fun q => q == u) < P.length :=
      List.findIdx_lt_length_of_exists ⟨u, (List.mem_filter.mp hu).1, by simp⟩
    rw [List.findIdx_append, if_pos hlt]
  have hB : ∀ i ∈ B0, P.length ≤ i ∧ i < (P ++ Q).length := by
    intro i hi
    obtain ⟨u, hu, rfl⟩ := List.mem_map.mp hi
    have huQ := (List.mem_filter.mp hu).1
    constructor
    · rw [List.findIdx_append]
      have : P.findIdx (fun q => q == u) = P.length := by
        rw [List.findIdx_eq_length]
        intro x hx
        simp only [beq_eq_false_iff_ne, ne_eq]
        intro hxu
        exact hdis u huQ (hxu ▸ hx)
      rw [this, if_neg (Nat.lt_irrefl _)]
      omega
    · apply List.findIdx_lt_length_of_exists
      exact ⟨u, List.mem_append_right _ huQ, by simp⟩
  refine ⟨sortBy id B0, ?_, ?_⟩
  · unfold halfIdx
    rw [List.filter_append, List.map_append, hA]
    apply sortBy_append
    · intro a ha b hb
      have h1 : a < P.length := by
        obtain ⟨u, hu, rfl⟩ := List.mem_map.mp ha
        exact List.findIdx_lt_length_of_exists ⟨u, (List.mem_filter.mp hu).1, by simp⟩
      have h2 := (hB b hb).1
      simp only [id]; omega
    · intro a _ b _ hab
      exact hab
  · intro i hi
    exact hB i ((sortBy_perm id B0).subset hi)

theorem pick_ok {α : Type} (rows : List α) (idx : List Nat) (h : ∀ i ∈ idx, i < rows.length) :
    ∃ sel, pick rows idx = .ok sel ∧ sel.length = idx.length := by
  unfold pick
  apply mapE_ok
  intro i hi
  have := h i hi
  rw [List.getElem?_eq_getElem this]
  exact ⟨_, rfl⟩

theorem pick_idx_append {α : Type} (rows : List α) (A B : List Nat) :
    pick rows (A ++ B) = match pick rows A with
      | .error e => .error e
      | .ok ra => match pick rows B with
        | .error e => .error e
        | .ok rb => .ok (ra ++ rb) := by
  unfold pick
  exact mapE_append _ A B

theorem pick_append {α : Type} (rows rows2 : List α) (A B : List Nat) (hA : ∀ i ∈ A, i < rows.length)
    (hB : ∀ i ∈ B, i < (rows ++ rows2).length) :
    ∃ selA selB, pick rows A = .ok selA ∧ selA.length = A.length ∧
      pick (rows ++ rows2) (A ++ B) = .ok (selA ++ selB) := by
  obtain ⟨selA, h1, h2⟩ := pick_ok rows A hA
  obtain ⟨selB, h3, _⟩ := pick_ok (rows ++ rows2) B hB
  refine ⟨selA, selB, h1, h2, ?_⟩
  have hc : pick (rows ++ rows2) A = pick rows A := by
    unfold pick
    apply mapE_congr
    intro i hi
    rw [List.getElem?_append_left (hA i hi)]
  rw [pick_idx_append, hc, h1, h3]

/-- One subdivision does not change the first `N` rows of the half selection, `N` up to the old number of rows. -/
theorem halfPure_append (ext : Ext Γ Pt W O) (nodes extra : List (Node Pt)) (base N : Nat) (proj : Bool)
    (hn : (keys (nodes ++ extra)).Nodup)
    (h1 : ∀ nd ∈ nodes, ∃ c, nd.ci = some c ∧ c < base)
    (h2 : ∀ e ∈ extra, ∃ c, e.ci = some c ∧ base ≤ c)
    (hinj : ∀ a ∈ nodes ++ extra, ∀ b ∈ nodes ++ extra, a.ci = b.ci → a = b)
    (hpn : ((nodes ++ extra).map (·.proj)).Nodup)
    (hN : N ≤ (halfIdx ext (projRows nodes)).length) :
    halfPure ext .cube4D (nodes ++ extra) (some N) proj = halfPure ext .cube4D nodes (some N) proj := by
  have hsome : ∀ x ∈ nodes ++ extra, ∃ c, x.ci = some c := by
    intro x hx
    rcases List.mem_append.mp hx with h | h
    · obtain ⟨c, hc, _⟩ := h1 x h; exact ⟨c, hc⟩
    · obtain ⟨c, hc, _⟩ := h2 x h; exact ⟨c, hc⟩
  have hn1 : (keys nodes).Nodup := by
    rw [keys_append] at hn; exact (List.nodup_append.mp hn).1
  have hs1 : ∀ nd ∈ nodes, ∃ c, nd.ci = some c := fun nd h => (h1 nd h).imp (fun _ h => h.1)
  have hsort : sortBy ciKey (nodes ++ extra) = sortBy ciKey nodes ++ sortBy ciKey extra := by
    apply sortBy_append
    · intro a ha b hb
      obtain ⟨c, hc1, hc2⟩ := h1 a ha
      obtain ⟨c', hc1', hc2'⟩ := h2 b hb
      simp only [ciKey, hc1, hc1', Option.getD_some]; omega
    · intro a ha b hb hab
      apply hinj a ha b hb
      obtain ⟨c, hc⟩ := hsome a ha
      obtain ⟨c', hc'⟩ := hsome b hb
      simp only [ciKey, hc, hc', Option.getD_some] at hab
      rw [hc, hc', hab]
  have hP : projRows (nodes ++ extra) = projRows nodes ++ projRows extra := by
    unfold projRows; rw [hsort, List.map_append]
  have hK : sortedKeys (nodes ++ extra) = sortedKeys nodes ++ sortedKeys extra := by
    unfold sortedKeys; rw [hsort, List.map_append]
  have hdis : ∀ u ∈ projRows extra, u ∉ projRows nodes := by
    intro u hu hu'
    have hu1 : u ∈ extra.map (·.proj) := ((sortBy_perm ciKey extra).map _).subset hu
    have hu2 : u ∈ nodes.map (·.proj) := ((sortBy_perm ciKey nodes).map _).subset hu'
    rw [List.map_append, List.nodup_append] at hpn
    exact hpn.2.2 u hu2 u hu1 rfl
  obtain ⟨B, hB1, hB2⟩ := halfIdx_append ext (projRows nodes) (projRows extra) hdis
  unfold halfPure
  simp only [ne_eq, not_true_eq_false, if_false, Option.getD_some]
  rw [getNodesPure_all _ hn hsome true, getNodesPure_all _ hn1 hs1 true,
    getNodesPure_all _ hn hsome proj, getNodesPure_all _ hn1 hs1 proj]
  simp only [if_true]
  have hidx : sortBy id (List.map (fun u => List.findIdx (fun q => q == u) (projRows (nodes ++ extra)))
      (List.filter ext.upper (projRows (nodes ++ extra)))) = halfIdx ext (projRows nodes) ++ B := by
    rw [← hB1, hP]; rfl
  have hidx0 : sortBy id (List.map (fun u => List.findIdx (fun q => q == u) (projRows nodes))
      (List.filter ext.upper (projRows nodes))) = halfIdx ext (projRows nodes) := rfl
  rw [hidx, hidx0]
  have hN1 : ¬ N > (halfIdx ext (projRows nodes) ++ B).length := by rw [List.length_append]; omega
  have hN2 : ¬ N > (halfIdx ext (projRows nodes)).length := by omega
  rw [if_neg hN1, if_neg hN2]
  -- the rows that are indexed
  have hrows : (if proj = true then projRows (nodes ++ extra) else sortedKeys (nodes ++ extra))
      = (if proj = true then projRows nodes else sortedKeys nodes)
        ++ (if proj = true then projRows extra else sortedKeys extra) := by
    cases proj
    · simp only [Bool.false_eq_true, if_false]; exact hK
    · simp only [if_true]; exact hP
  rw [hrows]
  have hlenrows : (if proj = true then projRows nodes else sortedKeys nodes).length = (projRows nodes).length := by
    cases proj
    · simp only [Bool.false_eq_true, if_false]
      rw [sortedKeys_length]; unfold projRows
      rw [List.length_map, (sortBy_perm ciKey nodes).length_eq]
    · rfl
  have hlenrows2 : (if proj = true then projRows extra else sortedKeys extra).length = (projRows extra).length := by
    cases proj
    · simp only [Bool.false_eq_true, if_false]
      rw [sortedKeys_length]; unfold projRows
      rw [List.length_map, (sortBy_perm ciKey extra).length_eq]
    · rfl
  obtain ⟨selA, selB, hp1, hp2, hp3⟩ := pick_append (if proj = true then projRows nodes else sortedKeys nodes)
    (if proj = true then projRows extra else sortedKeys extra) (halfIdx ext (projRows nodes)) B
    (by intro i hi; rw [hlenrows]; exact halfIdx_lt ext _ i hi)
    (by intro i hi; rw [List.length_append, hlenrows, hlenrows2, ← List.length_append]; exact (hB2 i hi).2)
  rw [hp3, hp1]
  simp only
  rw [List.take_append_of_le_length (by omega)]

theorem halfPure_take (ext : Ext Γ Pt W O) (nodes : List (Node Pt)) (N N' : Nat) (proj : Bool) (g' : List Pt)
    (hN : N ≤ N') (h : halfPure ext .cube4D nodes (some N') proj = .ok g') :
    halfPure ext .cube4D nodes (some N) proj = .ok (g'.take N) := by
  unfold halfPure at h ⊢
  simp only [ne_eq, not_true_eq_false, if_false, Option.getD_some] at h ⊢
  cases hp : getNodesPure nodes none true with
  | error e => rw [hp] at h; cases h
  | ok projected =>
    rw [hp] at h
    simp only at h ⊢
    split at h
    · cases h
    · rename_i hle
      rw [if_neg (by omega)]
      cases hr : getNodesPure nodes none proj with
      | error e => rw [hr] at h; cases h
      | ok rows =>
        rw [hr] at h
        simp only at h ⊢
        cases hs : pick rows (sortBy id (List.map (fun u => List.findIdx (fun q => q == u) projected)
            (List.filter ext.upper projected))) with
        | error e => rw [hs] at h; cases h
        | ok sel =>
          rw [hs] at h
          simp only [Except.ok.injEq] at h ⊢
          rw [← h, List.take_take, Nat.min_eq_left hN]

theorem projRows_append (nodes extra : List (Node Pt)) (base : Nat)
    (h1 : ∀ nd ∈ nodes, ∃ c, nd.ci = some c ∧ c < base)
    (h2 : ∀ e ∈ extra, ∃ c, e.ci = some c ∧ base ≤ c)
    (hinj : ∀ a ∈ nodes ++ extra, ∀ b ∈ nodes ++ extra, a.ci = b.ci → a = b) :
    projRows (nodes ++ extra) = projRows nodes ++ projRows extra := by
  have hsome : ∀ x ∈ nodes ++ extra, ∃ c, x.ci = some c := by
    intro x hx
    rcases List.mem_append.mp hx with h | h
    · obtain ⟨c, hc, _⟩ := h1 x h; exact ⟨c, hc⟩
    · obtain ⟨c, hc, _⟩ := h2 x h; exact ⟨c, hc⟩
  unfold projRows
  rw [sortBy_append, List.map_append]
  · intro a ha b hb
    obtain ⟨c, hc1, hc2⟩ := h1 a ha
    obtain ⟨c', hc1', hc2'⟩ := h2 b hb
    simp only [ciKey, hc1, hc1', Option.getD_some]; omega
  · intro a ha b hb hab
    apply hinj a ha b hb
    obtain ⟨c, hc⟩ := hsome a ha
    obtain ⟨c', hc'⟩ := hsome b hb
    simp only [ciKey, hc, hc', Option.getD_some] at hab
    rw [hc, hc', hab]

/-- Distinct nodes of a canonical polytope have distinct projections (C07's claim, a hypothesis here). -/
def ProjNodup (ext : Ext Γ Pt W O) (rng : Rng R W) : Prop :=
  ∀ k d, ((keys (canonPoly ext rng k d).nodes).map ext.proj).Nodup

theorem canon_proj_nodup (ext : Ext Γ Pt W O) (rng : Rng R W) (hs : ShufflePerm rng) (hf : Fresh ext rng)
    (hp : ProjNodup ext rng) (k : PolyKind) (d : Nat) :
    ((canonPoly ext rng k d).nodes.map (·.proj)).Nodup := by
  have h := hp k d
  have : (canonPoly ext rng k d).nodes.map (·.proj) = (keys (canonPoly ext rng k d).nodes).map ext.proj := by
    unfold keys
    rw [List.map_map]
    apply List.map_congr_left
    intro nd hnd
    exact canonPoly_projOk ext rng hs hf k d nd hnd
  rw [this]; exact h

/-- Number of rows of the half selection. -/
def halfCount (ext : Ext Γ Pt W O) (nodes : List (Node Pt)) : Nat := (halfIdx ext (projRows nodes)).length

theorem canon_half_mono (ext : Ext Γ Pt W O) (rng : Rng R W) (hs : ShufflePerm rng) (hf : Fresh ext rng)
    (hp : ProjNodup ext rng) (d N : Nat) (proj : Bool)
    (hN : N ≤ halfCount ext (canonPoly ext rng .cube4D d).nodes) (m : Nat) :
    halfCount ext (canonPoly ext rng .cube4D d).nodes ≤ halfCount ext (canonPoly ext rng .cube4D (d + m)).nodes ∧
    halfPure ext .cube4D (canonPoly ext rng .cube4D (d + m)).nodes (some N) proj
      = halfPure ext .cube4D (canonPoly ext rng .cube4D d).nodes (some N) proj := by
  induction m with
  | zero => exact ⟨Nat.le_refl _, rfl⟩
  | succ m ih =>
    obtain ⟨extra', h1, _, h3⟩ := canonPoly_succ ext rng hs hf .cube4D (d + m)
    have hinv := canonPoly_inv ext rng hs hf .cube4D (d + m)
    have hinv' := canonPoly_inv ext rng hs hf .cube4D (d + m + 1)
    have hpn := canon_proj_nodup ext rng hs hf hp .cube4D (d + m + 1)
    rw [← Nat.add_assoc]
    have hinj : ∀ a ∈ (canonPoly ext rng .cube4D (d + m)).nodes ++ extra',
        ∀ b ∈ (canonPoly ext rng .cube4D (d + m)).nodes ++ extra', a.ci = b.ci → a = b := by
      rw [← h1]; exact hinv'.ciInj
    have hPr := projRows_append _ extra' (canonPoly ext rng .cube4D (d + m)).maxCi hinv.ci h3 hinj
    have hdis : ∀ u ∈ projRows extra', u ∉ projRows (canonPoly ext rng .cube4D (d + m)).nodes := by
      intro u hu hu'
      have hu1 : u ∈ extra'.map (·.proj) := ((sortBy_perm ciKey extra').map _).subset hu
      have hu2 : u ∈ (canonPoly ext rng .cube4D (d + m)).nodes.map (·.proj) :=
        ((sortBy_perm ciKey _).map _).subset hu'
      rw [h1, List.map_append, List.nodup_append] at hpn
      exact hpn.2.2 u hu2 u hu1 rfl
    obtain ⟨B, hB1, _⟩ := halfIdx_append ext _ _ hdis
    have hcount : halfCount ext (canonPoly ext rng .cube4D (d + m)).nodes
        ≤ halfCount ext (canonPoly ext rng .cube4D (d + m + 1)).nodes := by
      unfold halfCount
      rw [h1, hPr, hB1, List.length_append]; omega
    refine ⟨Nat.le_trans ih.1 hcount, ?_⟩
    rw [h1, halfPure_append ext _ extra' (canonPoly ext rng .cube4D (d + m)).maxCi N proj
      (by rw [← h1]; exact hinv'.nodupKeys) hinv.ci h3 hinj (by rw [← h1]; exact hpn)
      (Nat.le_trans hN ih.1)]
    exact ih.2

theorem halfPure_none_length (ext : Ext Γ Pt W O) (nodes : List (Node Pt)) (hn : (keys nodes).Nodup)
    (hc : ∀ nd ∈ nodes, ∃ c, nd.ci = some c) (rows : List Pt)
    (h : halfPure ext .cube4D nodes none false = .ok rows) : rows.length = halfCount ext nodes := by
  unfold halfPure at h
  simp only [ne_eq, not_true_eq_false, if_false, Option.getD_none, gt_iff_lt, Nat.lt_irrefl] at h
  rw [getNodesPure_all nodes hn hc true, getNodesPure_all nodes hn hc false] at h
  simp only [if_true, Bool.false_eq_true, if_false] at h
  have hidx0 : sortBy id (List.map (fun u => List.findIdx (fun q => q == u) (projRows nodes))
      (List.filter ext.upper (projRows nodes))) = halfIdx ext (projRows nodes) := rfl
  rw [hidx0] at h
  obtain ⟨sel, hs1, hs2⟩ := pick_ok (sortedKeys nodes) (halfIdx ext (projRows nodes)) (by
    intro i hi
    rw [sortedKeys_length]
    have := halfIdx_lt ext _ i hi
    unfold projRows at this
    rwa [List.length_map, (sortBy_perm ciKey nodes).length_eq] at this)
  rw [hs1] at h
  simp only [Except.ok.injEq] at h
  rw [← h, List.length_take, hs2]
  unfold halfCount
  omega

theorem growUntil_half_spec (ext : Ext Γ Pt W O) (rng : Rng R W) (hg : Grows ext rng) (N : Nat) :
    ∀ (fuel : Nat) (r : R) (P : Poly Γ Pt), PolyOk ext rng P →
    ∀ (r' : R) (P' : Poly Γ Pt),
      growUntil ext rng (fun P => halfOfHypercube ext P none false) N fuel r P = (r', P', .ok ()) →
      PolyOk ext rng P' ∧ P'.kind = P.kind ∧
        ∃ rows, halfPure ext P'.kind P'.nodes none false = .ok rows ∧ N ≤ rows.length := by
  intro fuel
  induction fuel with
  | zero =>
    intro r P _ r' P' h
    simp only [growUntil, Prod.mk.injEq] at h
    exact absurd h.2.2 (by simp)
  | succ fuel ih =>
    intro r P hP r' P' h
    simp only [growUntil] at h
    have hok := half_ok ext rng P none false hP
    have hcore := half_core ext P none false
    obtain ⟨d, hc, hk⟩ := hP
    have hres := half_res ext P none false hk
    cases hrows : (halfOfHypercube ext P none false).2 with
    | error e =>
      rw [hrows] at h
      simp only [Prod.mk.injEq] at h
      exact absurd h.2.2 (by simp)
    | ok rows =>
      rw [hrows] at h
      simp only at h
      by_cases hlt : rows.length < N
      · rw [if_pos hlt] at h
        have := ih _ _ (divide_ok ext rng hg r _ hok) r' P' h
        refine ⟨this.1, ?_, this.2.2⟩
        rw [this.2.1, divideEdges_kind, hcore.1]
      · rw [if_neg hlt] at h
        simp only [Prod.mk.injEq] at h
        obtain ⟨_, h2, _⟩ := h
        subst h2
        refine ⟨hok, hcore.1, rows, ?_, by omega⟩
        rw [hcore.1, hcore.2.2.1, ← hres, hrows]

/-- The body of `Cube4DRotations._gen_grid` + `SphereGrid4Dim._gen_grid`. -/
def gen4 (ext : Ext Γ Pt W O) (rng : Rng R W) (r : R) (N : Nat) :
    R × Except Err (Nat × Option (Poly Γ Pt) × List Pt) :=
  let p0 := newPoly ext rng r .cube4D
  let gr := growUntil ext rng (fun P => halfOfHypercube ext P none false) N (N + 1) p0.1 p0.2
  match gr.2.2 with
  | .error e => (gr.1, .error e)
  | .ok _ =>
    let res := halfOfHypercube ext gr.2.1 (some N) true
    match res.2 with
    | .error e => (gr.1, .error e)
    | .ok rows =>
      match doubleCover ext N rows with
      | .ok g => (gr.1, .ok (N, some res.1, g))
      | .error e => (gr.1, .error e)

theorem genGrid_cube4D (ext : Ext Γ Pt W O) (rng : Rng R W) (r : R) (N : Nat) :
    genGrid ext rng r .cube4D N = gen4 ext rng r N := rfl

theorem gen4_spec (ext : Ext Γ Pt W O) (rng : Rng R W) (hs : ShufflePerm rng) (hf : Fresh ext rng)
    (r : R) (N n : Nat) (p : Option (Poly Γ Pt)) (g : List Pt)
    (h : (gen4 ext rng r N).2 = .ok (n, p, g)) :
    ∃ d rows, N ≤ halfCount ext (canonPoly ext rng .cube4D d).nodes ∧
      halfPure ext .cube4D (canonPoly ext rng .cube4D d).nodes (some N) true = .ok rows ∧
      rows.length = N ∧ g = rows ++ rows.map ext.neg := by
  have hg := fresh_grows ext rng hs hf
  unfold gen4 at h
  simp only at h
  generalize hgr : growUntil ext rng (fun P => halfOfHypercube ext P none false) N (N + 1)
    (newPoly ext rng r .cube4D).1 (newPoly ext rng r .cube4D).2 = gr at h
  obtain ⟨r', P', res⟩ := gr
  cases res with
  | error e => cases h
  | ok u =>
    cases u
    simp only at h
    obtain ⟨hP', hkind, rows0, hrows0, hN⟩ :=
      growUntil_half_spec ext rng hg N (N + 1) _ _ (newPoly_ok ext rng r .cube4D) r' P' hgr
    obtain ⟨d, hc, hk⟩ := hP'
    have hk' : P'.kind = .cube4D := by rw [hkind]; rfl
    have hres := half_res ext P' (some N) true hk
    rw [hc.2.2.1, hk'] at hres
    rw [hk', hc.2.2.1, hk'] at hrows0
    have hinv := canonPoly_inv ext rng hs hf .cube4D d
    have hlen0 := halfPure_none_length ext _ hinv.nodupKeys (fun nd h => (hinv.ci nd h).imp (fun _ h => h.1))
      rows0 hrows0
    cases hq : (halfOfHypercube ext P' (some N) true).2 with
    | error e => rw [hq] at h; cases h
    | ok rows =>
      rw [hq] at h
      simp only at h
      unfold doubleCover at h
      by_cases hl : rows.length = N
      · rw [if_pos hl] at h
        simp only [Except.ok.injEq, Prod.mk.injEq] at h
        refine ⟨d, rows, by omega, ?_, hl, h.2.2.symm⟩
        rw [← hres, hq]
      · rw [if_neg hl] at h
        cases h

/-! ### `fulldiv` -/

theorem mapE_length {α β : Type} (f : α → Except Err β) :
    ∀ (l : List α) (ys : List β), mapE f l = .ok ys → ys.length = l.length := by
  intro l
  induction l with
  | nil => intro ys h; simp only [mapE, Except.ok.injEq] at h; subst h; rfl
  | cons a l ih =>
    intro ys h
    simp only [mapE] at h
    cases hfa : f a with
    | error e => rw [hfa] at h; cases h
    | ok b =>
      rw [hfa] at h
      simp only at h
      cases hm : mapE f l with
      | error e => rw [hm] at h; cases h
      | ok bs =>
        rw [hm] at h
        simp only [Except.ok.injEq] at h
        rw [← h, List.length_cons, List.length_cons, ih bs hm]

theorem halfPure_none_take (ext : Ext Γ Pt W O) (nodes : List (Node Pt)) (N : Nat) (proj : Bool) (rows : List Pt)
    (h : halfPure ext .cube4D nodes none proj = .ok rows) (hN : N ≤ rows.length) :
    halfPure ext .cube4D nodes (some N) proj = .ok (rows.take N) := by
  unfold halfPure at h ⊢
  simp only [ne_eq, not_true_eq_false, if_false, Option.getD_some, Option.getD_none, gt_iff_lt,
    Nat.lt_irrefl] at h ⊢
  cases hp : getNodesPure nodes none true with
  | error e => rw [hp] at h; cases h
  | ok projected =>
    rw [hp] at h
    simp only at h ⊢
    cases hr : getNodesPure nodes none proj with
    | error e => rw [hr] at h; cases h
    | ok rws =>
      rw [hr] at h
      simp only at h ⊢
      cases hs : pick rws (sortBy id (List.map (fun u => List.findIdx (fun q => q == u) projected)
          (List.filter ext.upper projected))) with
      | error e => rw [hs] at h; cases h
      | ok sel =>
        rw [hs] at h
        simp only [Except.ok.injEq] at h
        have hl := mapE_length _ _ _ hs
        have hrows : rows = sel := by rw [← h, List.take_of_length_le (by omega)]
        subst hrows
        rw [if_neg (by omega)]

theorem halfPure_none_count (ext : Ext Γ Pt W O) (nodes : List (Node Pt)) (hn : (keys nodes).Nodup)
    (hc : ∀ nd ∈ nodes, ∃ c, nd.ci = some c) (proj : Bool) (rows : List Pt)
    (h : halfPure ext .cube4D nodes none proj = .ok rows) : rows.length = halfCount ext nodes := by
  unfold halfPure at h
  simp only [ne_eq, not_true_eq_false, if_false, Option.getD_none, gt_iff_lt, Nat.lt_irrefl] at h
  rw [getNodesPure_all nodes hn hc true, getNodesPure_all nodes hn hc proj] at h
  simp only [if_true] at h
  have hidx0 : sortBy id (List.map (fun u => List.findIdx (fun q => q == u) (projRows nodes))
      (List.filter ext.upper (projRows nodes))) = halfIdx ext (projRows nodes) := rfl
  rw [hidx0] at h
  cases hs : pick (if proj = true then projRows nodes else sortedKeys nodes) (halfIdx ext (projRows nodes)) with
  | error e => rw [hs] at h; cases h
  | ok sel =>
    rw [hs] at h
    simp only [Except.ok.injEq] at h
    have hl := mapE_length _ _ _ hs
    rw [← h, List.length_take, hl]
    unfold halfCount
    omega

theorem divideTimes_ok (ext : Ext Γ Pt W O) (rng : Rng R W) (hg : Grows ext rng) :
    ∀ (k : Nat) (r : R) (P : Poly Γ Pt), PolyOk ext rng P →
      PolyOk ext rng (divideTimes ext rng k r P).2 ∧ (divideTimes ext rng k r P).2.kind = P.kind ∧
        (divideTimes ext rng k r P).2.level = P.level + k := by
  intro k
  induction k with
  | zero => intro r P h; exact ⟨h, rfl, rfl⟩
  | succ k ih =>
    intro r P h
    simp only [divideTimes]
    have := ih (divideEdges ext rng r P).1 (divideEdges ext rng r P).2 (divide_ok ext rng hg r P h)
    refine ⟨this.1, ?_, ?_⟩
    · rw [this.2.1, divideEdges_kind]
    · rw [this.2.2, divideEdges_level]; omega

/-- The body of `FullDivCube4DRotations` + `SphereGrid4Dim._gen_grid`. -/
def genF (ext : Ext Γ Pt W O) (rng : Rng R W) (r : R) (N : Nat) :
    R × Except Err (Nat × Option (Poly Γ Pt) × List Pt) :=
  if N ∈ fulldivAllowed then
    let p0 := newPoly ext rng r .cube4D
    let dv := divideTimes ext rng (fulldivAllowed.idxOf N) p0.1 p0.2
    let res := halfOfHypercube ext dv.2 none true
    match res.2 with
    | .error e => (dv.1, .error e)
    | .ok rows =>
      match doubleCover ext N rows with
      | .ok g => (dv.1, .ok (N, some res.1, g))
      | .error e => (dv.1, .error e)
  else (r, .error .valueError)

theorem genGrid_fulldiv (ext : Ext Γ Pt W O) (rng : Rng R W) (r : R) (N : Nat) :
    genGrid ext rng r .fulldiv N = genF ext rng r N := rfl

theorem genF_spec (ext : Ext Γ Pt W O) (rng : Rng R W) (hs : ShufflePerm rng) (hf : Fresh ext rng)
    (r : R) (N n : Nat) (p : Option (Poly Γ Pt)) (g : List Pt)
    (h : (genF ext rng r N).2 = .ok (n, p, g)) :
    ∃ d rows, N ≤ halfCount ext (canonPoly ext rng .cube4D d).nodes ∧
      halfPure ext .cube4D (canonPoly ext rng .cube4D d).nodes (some N) true = .ok rows ∧
      rows.length = N ∧ g = rows ++ rows.map ext.neg := by
  have hg := fresh_grows ext rng hs hf
  unfold genF at h
  split at h
  · simp only at h
    obtain ⟨hP', hkind, _⟩ := divideTimes_ok ext rng hg (fulldivAllowed.idxOf N) (newPoly ext rng r .cube4D).1
      (newPoly ext rng r .cube4D).2 (newPoly_ok ext rng r .cube4D)
    generalize (divideTimes ext rng (fulldivAllowed.idxOf N) (newPoly ext rng r .cube4D).1
      (newPoly ext rng r .cube4D).2) = dv at h hP' hkind
    obtain ⟨r', P'⟩ := dv
    simp only at h hP' hkind
    obtain ⟨d, hc, hk⟩ := hP'
    have hk' : P'.kind = .cube4D := by rw [hkind]; rfl
    have hres := half_res ext P' none true hk
    rw [hc.2.2.1, hk'] at hres
    have hinv := canonPoly_inv ext rng hs hf .cube4D d
    cases hq : (halfOfHypercube ext P' none true).2 with
    | error e => rw [hq] at h; cases h
    | ok rows =>
      rw [hq] at h
      simp only at h
      unfold doubleCover at h
      by_cases hl : rows.length = N
      · rw [if_pos hl] at h
        simp only [Except.ok.injEq, Prod.mk.injEq] at h
        rw [hq] at hres
        have hcount := halfPure_none_count ext _ hinv.nodupKeys (fun nd h => (hinv.ci nd h).imp (fun _ h => h.1))
          true rows hres.symm
        refine ⟨d, rows, by omega, ?_, hl, h.2.2.symm⟩
        have := halfPure_none_take ext _ N true rows hres.symm (by omega)
        rw [this, List.take_of_length_le (by omega)]
      · rw [if_neg hl] at h
        cases h
  · cases h

/-! ### a concrete instance (for the non-vacuity examples) -/

/-- Points are numbers; level 0 has the points 0,1,2; each subdivision hands the next two unused numbers (one of them
twice, like the two face diagonals of a cube that share their midpoint) to `_add_polytope_point`. -/
def toyExt : Ext Nat Nat Unit (List Nat) where
  init _ := (3, [0, 1, 2])
  divide _ g := (g + 2, [g, g + 1, g])
  proj p := p + 1000
  upper p := p % 2 == 0
  neg p := p + 5000
  sphere _ n := List.range n
  quat _ n := List.range n
  zero3 := 7
  zero4 := 8
  dense3 _ _ := [1, 2, 3]
  dense4 _ := [1, 2, 3, 4]
  arr l := l
  areas l := l
  hullVol _ g a := g ++ a
  hulls _ g a := g ++ a
  nn _ _ g := g
  mikroVol d n := [d, n]
  mikroNN n := [n]

/-- A generator whose `shuffle` reverses. -/
def toyRng : Rng Nat Unit where
  seed s := s
  shuffle r n := (r + 1, (List.range n).reverse)
  draw r k := (r + k, ())

theorem toy_shufflePerm : ShufflePerm toyRng := fun _ n => List.reverse_perm (List.range n)

theorem toy_inv (k : PolyKind) (d : Nat) :
    PolyInv (canonPoly toyExt toyRng k d) ∧
      ∀ q ∈ keys (canonPoly toyExt toyRng k d).nodes, q < (canonPoly toyExt toyRng k d).g := by
  induction d with
  | zero =>
    refine ⟨newPoly_inv toyExt toyRng toy_shufflePerm _ k, ?_⟩
    cases k <;> decide
  | succ d ih =>
    obtain ⟨hinv, hlt⟩ := ih
    have hfresh : ∀ p ∈ (toyExt.divide (canonPoly toyExt toyRng k d).kind (canonPoly toyExt toyRng k d).g).2,
        p ∉ keys (canonPoly toyExt toyRng k d).nodes := by
      intro p hp hmem
      have h1 := hlt p hmem
      have hp' : p ∈ [(canonPoly toyExt toyRng k d).g, (canonPoly toyExt toyRng k d).g + 1,
        (canonPoly toyExt toyRng k d).g] := hp
      simp only [List.mem_cons, List.not_mem_nil, or_false] at hp'
      omega
    obtain ⟨extra', h1, h2, _, _, h5, _⟩ := divideEdges_spec toyExt toyRng toy_shufflePerm (toyRng.seed 0) _ hinv hfresh
    refine ⟨h2, ?_⟩
    intro q hq
    have hg : (canonPoly toyExt toyRng k (d + 1)).g = (canonPoly toyExt toyRng k d).g + 2 := rfl
    rw [hg]
    have hn : (canonPoly toyExt toyRng k (d + 1)).nodes = (canonPoly toyExt toyRng k d).nodes ++ extra' := h1
    rw [hn, keys_append] at hq
    rcases List.mem_append.mp hq with h | h
    · have := hlt q h; omega
    · have hq' : q ∈ [(canonPoly toyExt toyRng k d).g, (canonPoly toyExt toyRng k d).g + 1,
        (canonPoly toyExt toyRng k d).g] := (h5 q).mp h
      simp only [List.mem_cons, List.not_mem_nil, or_false] at hq'
      omega

theorem toy_fresh : Fresh toyExt toyRng where
  fresh k d := by
    intro p hp hmem
    have h1 := (toy_inv k d).2 p hmem
    have hp' : p ∈ [(canonPoly toyExt toyRng k d).g, (canonPoly toyExt toyRng k d).g + 1,
      (canonPoly toyExt toyRng k d).g] := hp
    simp only [List.mem_cons, List.not_mem_nil, or_false] at hp'
    omega
  nonempty k d := by
    intro h
    have : [(canonPoly toyExt toyRng k d).g, (canonPoly toyExt toyRng k d).g + 1,
      (canonPoly toyExt toyRng k d).g] = [] := h
    cases this

theorem toy_projNodup : ProjNodup toyExt toyRng := by
  intro k d
  apply List.Nodup.map _ (toy_inv k d).1.nodupKeys
  intro a b hab
  have : a + 1000 = b + 1000 := hab
  omega

/-- A degenerate geometry whose "subdivision" only re-labels an existing point (no new node): the node count does not
identify the level any more. Used to show that the hypothesis `Grows` of the history theorem is needed. -/
def staleExt : Ext Nat Nat Unit (List Nat) := { toyExt with divide := fun _ g => (g, [2]) }

end Molgri.History
