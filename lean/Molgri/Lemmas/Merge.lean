/-
Helper lemmas for C13 (merging / deleting cells).  Property theorems are in `Molgri/Props/C13.lean`.
-/
import Molgri.Model.Merge
import Mathlib.Data.List.Basic
import Mathlib.Data.List.Pairwise
import Mathlib.Data.List.GetD
import Mathlib.Data.List.Nodup
import Mathlib.Data.List.Induction
import Mathlib.Data.List.Perm.Basic
import Mathlib.Algebra.BigOperators.Group.List.Basic
import Mathlib.Tactic.Abel
import Mathlib.Tactic.Linarith

namespace Molgri.Merge

-- the scalars: any additive commutative group (the code only uses `+`, `-`, `0`)
variable {α : Type} [AddCommGroup α]

/-! ### sums -/

theorem foldl_add (l : List α) (a : α) : l.foldl (· + ·) a = a + l.sum := by
  induction l generalizing a with
  | nil => simp
  | cons x xs ih => simp [List.foldl_cons, ih, add_assoc]

theorem intSum_eq_sum (l : List α) : intSum l = l.sum := by
  unfold intSum; rw [foldl_add]; simp

/-! ### dimensions -/

@[simp] theorem length_mergeMat (A : Mat α) (G : Groups) :
    (mergeMat A G).length = (toKeep A.length (flatMerged G)).length := by
  simp [mergeMat]

@[simp] theorem length_mergeIdx (il : Groups) (G : Groups) :
    (mergeIdx il G).length = (toKeep il.length (flatMerged G)).length := by
  simp [mergeIdx]

@[simp] theorem length_singletons (n : Nat) : (singletons n).length = n := by
  simp [singletons]

theorem mergeCells_dim {A : Mat α} {J : Groups} {idx : Option Groups} {A' : Mat α} {il' : Groups}
    (h : mergeCells A J idx = .ok (A', il')) : il'.length = A'.length := by
  unfold mergeCells at h
  cases idx with
  | none =>
    simp only at h
    split at h
    · cases h
    · split at h
      · cases h
      · cases h; simp
  | some il =>
    simp only at h
    split at h
    · cases h
    · rename_i hl
      cases h
      simp only [length_mergeIdx, length_mergeMat]
      have : il.length = A.length := by simpa using hl
      rw [this]

theorem deleteCells_dim (A : Mat α) (R : List Nat) (idx : Option Groups) :
    (deleteCells A R idx).2.length = (deleteCells A R idx).1.length := by
  simp [deleteCells, normalize, subMat]

/-! ### sorting and de-duplication -/

theorem perm_insertAsc (x : Nat) (l : List Nat) : (insertAsc x l).Perm (x :: l) := by
  induction l with
  | nil => simp [insertAsc]
  | cons y ys ih =>
    unfold insertAsc
    split
    · exact List.Perm.refl _
    · exact (List.Perm.cons y ih).trans (List.Perm.swap x y ys)

theorem perm_sortAsc (l : List Nat) : (sortAsc l).Perm l := by
  induction l with
  | nil => simp [sortAsc]
  | cons x xs ih =>
    have : sortAsc (x :: xs) = insertAsc x (sortAsc xs) := rfl
    rw [this]
    exact (perm_insertAsc x _).trans (List.Perm.cons x ih)

theorem mem_sortAsc {x : Nat} {l : List Nat} : x ∈ sortAsc l ↔ x ∈ l := (perm_sortAsc l).mem_iff

theorem sorted_insertAsc (x : Nat) (l : List Nat) (h : l.Pairwise (· ≤ ·)) :
    (insertAsc x l).Pairwise (· ≤ ·) := by
  induction l with
  | nil => simp [insertAsc]
  | cons y ys ih =>
    unfold insertAsc
    split
    · rename_i hxy
      refine List.Pairwise.cons ?_ h
      intro z hz
      rcases List.mem_cons.mp hz with rfl | hz
      · exact hxy
      · exact Nat.le_trans hxy (List.rel_of_pairwise_cons h hz)
    · rename_i hxy
      refine List.Pairwise.cons ?_ (ih (List.Pairwise.of_cons h))
      intro z hz
      rcases List.mem_cons.mp ((perm_insertAsc x ys).mem_iff.mp hz) with rfl | hz
      · omega
      · exact List.rel_of_pairwise_cons h hz

theorem sorted_sortAsc (l : List Nat) : (sortAsc l).Pairwise (· ≤ ·) := by
  induction l with
  | nil => simp [sortAsc]
  | cons x xs ih => exact sorted_insertAsc x _ ih

theorem mem_dedupAsc {x : Nat} : ∀ {l : List Nat}, x ∈ dedupAsc l ↔ x ∈ l
  | [] => by simp [dedupAsc]
  | [y] => by simp [dedupAsc]
  | y :: z :: zs => by
    have ih := @mem_dedupAsc x (z :: zs)
    unfold dedupAsc
    split
    · rename_i h; subst h
      rw [ih]; simp
    · simp only [List.mem_cons, ih]

theorem strict_dedupAsc : ∀ {l : List Nat}, l.Pairwise (· ≤ ·) → (dedupAsc l).Pairwise (· < ·)
  | [], _ => by simp [dedupAsc]
  | [y], _ => by simp [dedupAsc]
  | y :: z :: zs, h => by
    have ih := strict_dedupAsc (List.Pairwise.of_cons h)
    unfold dedupAsc
    split
    · exact ih
    · rename_i hne
      refine List.Pairwise.cons ?_ ih
      intro w hw
      rw [mem_dedupAsc] at hw
      have h1 : y ≤ z := List.rel_of_pairwise_cons h (by simp)
      have h2 : z ≤ w := by
        rcases List.mem_cons.mp hw with rfl | hw
        · exact Nat.le_refl _
        · exact List.rel_of_pairwise_cons (List.Pairwise.of_cons h) hw
      omega

theorem mem_uniqueAsc {x : Nat} {l : List Nat} : x ∈ uniqueAsc l ↔ x ∈ l := by
  unfold uniqueAsc; rw [mem_dedupAsc, mem_sortAsc]

theorem strict_uniqueAsc (l : List Nat) : (uniqueAsc l).Pairwise (· < ·) :=
  strict_dedupAsc (sorted_sortAsc l)

/-! ### entries of the merged matrix and block sums -/

/-- sum of the original entries over a pair of groups of cells -/
def blockSum (M : Nat → Nat → α) (g h : List Nat) : α :=
  (g.map fun c => (h.map fun d => M c d).sum).sum

theorem blockSum_perm {M : Nat → Nat → α} {g g' h h' : List Nat} (hg : g.Perm g') (hh : h.Perm h') :
    blockSum M g h = blockSum M g' h' := by
  unfold blockSum
  have : ∀ c, (h.map fun d => M c d).sum = (h'.map fun d => M c d).sum :=
    fun c => (hh.map _).sum_eq
  simp only [this]
  exact (hg.map _).sum_eq

theorem blockSum_flatMap_left (M : Nat → Nat → α) (f : Nat → List Nat) (rs h : List Nat) :
    blockSum M (rs.flatMap f) h = (rs.map fun r => blockSum M (f r) h).sum := by
  unfold blockSum
  induction rs with
  | nil => simp
  | cons r rs ih => simp [List.flatMap_cons, List.map_append, List.sum_append, ih]

theorem blockSum_flatMap_right (M : Nat → Nat → α) (f : Nat → List Nat) (g ss : List Nat) :
    blockSum M g (ss.flatMap f) = (ss.map fun s => blockSum M g (f s)).sum := by
  unfold blockSum
  induction ss with
  | nil => simp
  | cons s ss ih =>
    simp only [List.flatMap_cons, List.map_append, List.sum_append, List.map_cons, List.sum_cons]
    rw [← ih]
    clear ih
    induction g with
    | nil => simp
    | cons c cs ihc => simp only [List.map_cons, List.sum_cons, ihc]; abel

theorem entry_map_map (keep : List Nat) (f : Nat → Nat → α) {i j : Nat} (hi : i < keep.length) (hj : j < keep.length) :
    entry (keep.map fun a => keep.map fun b => f a b) i j = f keep[i] keep[j] := by
  unfold entry
  simp [List.getD_eq_getElem?_getD, hi, hj]

theorem entry_mergeMat (A : Mat α) (G : Groups) {i j : Nat}
    (hi : i < (toKeep A.length (flatMerged G)).length) (hj : j < (toKeep A.length (flatMerged G)).length) :
    entry (mergeMat A G) i j =
      ((grpOf G (toKeep A.length (flatMerged G))[i]).map fun r =>
        ((grpOf G (toKeep A.length (flatMerged G))[j]).map fun s => entry A r s).sum).sum := by
  unfold mergeMat
  rw [entry_map_map _ _ hi hj]
  simp only [intSum_eq_sum]

theorem getD_mergeIdx (il : Groups) (G : Groups) {i : Nat} (hi : i < (toKeep il.length (flatMerged G)).length) :
    (mergeIdx il G).getD i [] =
      sortAsc ((grpOf G (toKeep il.length (flatMerged G))[i]).flatMap fun r => il.getD r []) := by
  unfold mergeIdx
  simp [List.getD_eq_getElem?_getD, hi]

/-- **Exact lumping by a merge**: if every entry of `A` is the block sum of the original matrix over the
groups of the index list, the same holds after the merge, for any row groups `G`. -/
theorem mergeMat_blockSum (M : Nat → Nat → α) (A : Mat α) (il : Groups) (G : Groups) (hl : il.length = A.length)
    (hA : ∀ r s, entry A r s = blockSum M (il.getD r []) (il.getD s []))
    {i j : Nat} (hi : i < (mergeMat A G).length) (hj : j < (mergeMat A G).length) :
    entry (mergeMat A G) i j = blockSum M ((mergeIdx il G).getD i []) ((mergeIdx il G).getD j []) := by
  rw [length_mergeMat] at hi hj
  rw [entry_mergeMat A G hi hj]
  have hi' : i < (toKeep il.length (flatMerged G)).length := by rw [hl]; exact hi
  have hj' : j < (toKeep il.length (flatMerged G)).length := by rw [hl]; exact hj
  rw [getD_mergeIdx il G hi', getD_mergeIdx il G hj']
  rw [blockSum_perm (perm_sortAsc _) (perm_sortAsc _)]
  rw [blockSum_flatMap_left]
  simp only [blockSum_flatMap_right, hA, hl]

/-! ### connected components (`merge_sublists`) -/

/-- two groups have no common member -/
def Disj (a b : List Nat) : Prop := ∀ x, x ∈ a → x ∉ b

theorem Disj.symm {a b : List Nat} (h : Disj a b) : Disj b a := fun x hb ha => h x ha hb

theorem intersects_iff {a b : List Nat} : intersects a b = true ↔ ∃ x, x ∈ a ∧ x ∈ b := by
  unfold intersects
  simp [List.any_eq_true]

theorem intersects_false_iff {a b : List Nat} : intersects a b = false ↔ Disj a b := by
  rw [← Bool.not_eq_true, intersects_iff]
  unfold Disj
  constructor
  · intro h x ha hb; exact h ⟨x, ha, hb⟩
  · rintro h ⟨x, ha, hb⟩; exact h x ha hb

/-- pairwise disjoint, every group strictly ascending and non-empty -/
structure Comps (G : Groups) : Prop where
  disj : G.Pairwise Disj
  strict : ∀ g ∈ G, g.Pairwise (· < ·)
  nonempty : ∀ g ∈ G, g ≠ []

instance : Std.Symm Disj := ⟨fun _ _ h => Disj.symm h⟩

theorem disj_of_mem_of_ne {G : Groups} (h : G.Pairwise Disj) {a b : List Nat} (ha : a ∈ G) (hb : b ∈ G)
    (hne : a ≠ b) : Disj a b :=
  List.Pairwise.forall h ha hb hne

theorem comps_addList {comps : Groups} (hc : Comps comps) (L : List Nat) (hL : L ≠ []) :
    Comps (addList comps L) := by
  unfold addList
  refine ⟨?_, ?_, ?_⟩
  · refine List.Pairwise.cons ?_ (hc.disj.filter _)
    intro c hcm
    rw [List.mem_filter] at hcm
    obtain ⟨hcG, hmiss⟩ := hcm
    have hLc : Disj L c := by
      rw [← intersects_false_iff]; simpa using hmiss
    intro x hx hxc
    rw [mem_uniqueAsc, List.mem_append] at hx
    rcases hx with hx | hx
    · exact hLc x hx hxc
    · rw [List.mem_flatten] at hx
      obtain ⟨g, hg, hxg⟩ := hx
      rw [List.mem_filter] at hg
      have hne : g ≠ c := by
        rintro rfl
        rw [hg.2] at hmiss; simp at hmiss
      exact disj_of_mem_of_ne hc.disj hg.1 hcG hne x hxg hxc
  · intro g hg
    rcases List.mem_cons.mp hg with rfl | hg
    · exact strict_uniqueAsc _
    · exact hc.strict g (List.mem_filter.mp hg).1
  · intro g hg
    rcases List.mem_cons.mp hg with rfl | hg
    · intro h0
      obtain ⟨x, xs, rfl⟩ := List.exists_cons_of_ne_nil hL
      have : x ∈ uniqueAsc (x :: xs ++ (List.filter (intersects (x :: xs)) comps).flatten) := by
        rw [mem_uniqueAsc]; simp
      rw [h0] at this; simp at this
    · exact hc.nonempty g (List.mem_filter.mp hg).1

theorem comps_foldl_addList (J : Groups) (hJ : ∀ L ∈ J, L ≠ []) {comps : Groups} (hc : Comps comps) :
    Comps (J.foldl addList comps) := by
  induction J generalizing comps with
  | nil => exact hc
  | cons L J ih =>
    rw [List.foldl_cons]
    exact ih (fun L' h => hJ L' (List.mem_cons_of_mem _ h)) (comps_addList hc L (hJ L (by simp)))

/-- the components computed by `merge_sublists` are pairwise disjoint, strictly ascending and non-empty -/
theorem comps_closure (J : Groups) (hJ : ∀ L ∈ J, L ≠ []) : Comps (closure J) :=
  comps_foldl_addList J hJ ⟨List.Pairwise.nil, by simp, by simp⟩

/-- no cell is lost or invented by taking components -/
theorem mem_flatten_addList (comps : Groups) (L : List Nat) (x : Nat) :
    x ∈ (addList comps L).flatten ↔ x ∈ L ∨ x ∈ comps.flatten := by
  unfold addList
  simp only [List.flatten_cons, List.mem_append, mem_uniqueAsc, List.mem_flatten, List.mem_filter]
  constructor
  · rintro ((h | ⟨g, ⟨hg, _⟩, hx⟩) | ⟨g, ⟨hg, _⟩, hx⟩)
    · exact Or.inl h
    · exact Or.inr ⟨g, hg, hx⟩
    · exact Or.inr ⟨g, hg, hx⟩
  · rintro (h | ⟨g, hg, hx⟩)
    · exact Or.inl (Or.inl h)
    · by_cases hi : intersects L g = true
      · exact Or.inl (Or.inr ⟨g, ⟨hg, hi⟩, hx⟩)
      · exact Or.inr ⟨g, ⟨hg, by simpa using hi⟩, hx⟩

theorem mem_flatten_closure (J : Groups) (x : Nat) : x ∈ (closure J).flatten ↔ x ∈ J.flatten := by
  unfold closure
  have : ∀ (comps : Groups), x ∈ (J.foldl addList comps).flatten ↔ x ∈ J.flatten ∨ x ∈ comps.flatten := by
    induction J with
    | nil => intro comps; simp
    | cons L J ih =>
      intro comps
      rw [List.foldl_cons, ih, mem_flatten_addList]
      simp only [List.flatten_cons, List.mem_append]
      tauto
  rw [this]; simp

/-! ### rows kept and rows merged -/

theorem mem_toKeep {n : Nat} {gone : List Nat} {r : Nat} : r ∈ toKeep n gone ↔ r < n ∧ r ∉ gone := by
  unfold toKeep; simp [List.mem_filter]

theorem sorted_toKeep (n : Nat) (gone : List Nat) : (toKeep n gone).Pairwise (· < ·) := by
  unfold toKeep
  exact List.Pairwise.filter _ List.pairwise_lt_range

theorem nodup_toKeep (n : Nat) (gone : List Nat) : (toKeep n gone).Nodup :=
  (sorted_toKeep n gone).imp (fun h => Nat.ne_of_lt h)

theorem mem_grpOf {G : Groups} {a x : Nat} :
    x ∈ grpOf G a ↔ x = a ∨ ∃ g ∈ G, g.head? = some a ∧ x ∈ g.tail := by
  unfold grpOf
  simp only [List.mem_cons, List.mem_flatMap, List.mem_filter, decide_eq_true_eq]
  constructor
  · rintro (h | ⟨g, ⟨hg, hh⟩, hx⟩)
    · exact Or.inl h
    · exact Or.inr ⟨g, hg, hh, hx⟩
  · rintro (h | ⟨g, hg, hh, hx⟩)
    · exact Or.inl h
    · exact Or.inr ⟨g, ⟨hg, hh⟩, hx⟩

theorem mem_flatMerged {G : Groups} {x : Nat} : x ∈ flatMerged G ↔ ∃ g ∈ G, x ∈ g.tail := by
  unfold flatMerged; simp [List.mem_flatMap]

theorem mem_of_mem_tail {g : List Nat} {x : Nat} (h : x ∈ g.tail) : x ∈ g := List.mem_of_mem_tail h

theorem mem_of_head? {g : List Nat} {a : Nat} (h : g.head? = some a) : a ∈ g := by
  cases g with
  | nil => simp at h
  | cons y ys => simp at h; simp [h]

/-- row groups of different surviving rows do not overlap -/
theorem grpOf_disj {G : Groups} (hG : Comps G) {a b : Nat} (hab : a ≠ b)
    (ha : a ∉ flatMerged G) (hb : b ∉ flatMerged G) : Disj (grpOf G a) (grpOf G b) := by
  intro x hxa hxb
  rw [mem_grpOf] at hxa hxb
  rcases hxa with rfl | ⟨g, hg, hga, hxg⟩ <;> rcases hxb with rfl | ⟨g', hg', hgb, hxg'⟩
  · exact hab rfl
  · exact ha (mem_flatMerged.mpr ⟨g', hg', hxg'⟩)
  · exact hb (mem_flatMerged.mpr ⟨g, hg, hxg⟩)
  · have hne : g ≠ g' := by
      rintro rfl
      rw [hga] at hgb; exact hab (Option.some.inj hgb)
    exact disj_of_mem_of_ne hG.disj hg hg' hne x (mem_of_mem_tail hxg) (mem_of_mem_tail hxg')

/-- members of a row group other than the surviving row are strictly larger than it -/
theorem lt_of_mem_grpOf {G : Groups} (hG : Comps G) {a x : Nat} (hx : x ∈ grpOf G a) : x = a ∨ a < x := by
  rw [mem_grpOf] at hx
  rcases hx with rfl | ⟨g, hg, hga, hxg⟩
  · exact Or.inl rfl
  · right
    cases g with
    | nil => simp at hga
    | cons y ys =>
      simp at hga; subst hga
      exact List.rel_of_pairwise_cons (hG.strict _ hg) hxg

/-! ### off-diagonal lumping (valid also after deletions, which reset the diagonal) -/

@[simp] theorem blockSum_nil_left (M : Nat → Nat → α) (h : List Nat) : blockSum M [] h = 0 := by
  simp [blockSum]

@[simp] theorem blockSum_nil_right (M : Nat → Nat → α) (g : List Nat) : blockSum M g [] = 0 := by
  unfold blockSum
  induction g with
  | nil => simp
  | cons c cs ih => simp

theorem entry_of_row_ge {A : Mat α} {i j : Nat} (h : A.length ≤ i) : entry A i j = 0 := by
  unfold entry
  rw [List.getD_eq_default _ _ h]; simp

theorem entry_of_col_ge {A : Mat α} {i j : Nat} (h : ∀ row ∈ A, row.length ≤ j) : entry A i j = 0 := by
  unfold entry
  by_cases hi : i < A.length
  · have : A.getD i [] = A[i] := by simp [List.getD_eq_getElem?_getD, hi]
    rw [this, List.getD_eq_default _ _ (h _ (List.getElem_mem hi))]
  · rw [List.getD_eq_default _ _ (Nat.le_of_not_lt hi)]; simp

theorem getElem_toKeep_ne {n : Nat} {gone : List Nat} {i j : Nat} (hi : i < (toKeep n gone).length)
    (hj : j < (toKeep n gone).length) (hij : i ≠ j) : (toKeep n gone)[i] ≠ (toKeep n gone)[j] := by
  intro h
  exact hij ((List.Nodup.getElem_inj_iff (nodup_toKeep n gone)).mp h)

theorem mergeMat_blockSum_off (M : Nat → Nat → α) (A : Mat α) (il : Groups) (G : Groups)
    (hl : il.length = A.length) (hG : Comps G)
    (hA : ∀ r s, r ≠ s → entry A r s = blockSum M (il.getD r []) (il.getD s []))
    {i j : Nat} (hij : i ≠ j) :
    entry (mergeMat A G) i j = blockSum M ((mergeIdx il G).getD i []) ((mergeIdx il G).getD j []) := by
  by_cases hi : i < (toKeep A.length (flatMerged G)).length
  · by_cases hj : j < (toKeep A.length (flatMerged G)).length
    · rw [entry_mergeMat A G hi hj]
      have hi' : i < (toKeep il.length (flatMerged G)).length := by rw [hl]; exact hi
      have hj' : j < (toKeep il.length (flatMerged G)).length := by rw [hl]; exact hj
      rw [getD_mergeIdx il G hi', getD_mergeIdx il G hj']
      rw [blockSum_perm (perm_sortAsc _) (perm_sortAsc _)]
      rw [blockSum_flatMap_left]
      simp only [blockSum_flatMap_right, hl]
      have hne := getElem_toKeep_ne hi hj hij
      have hai := (mem_toKeep.mp (List.getElem_mem hi)).2
      have haj := (mem_toKeep.mp (List.getElem_mem hj)).2
      have hd := grpOf_disj hG hne hai haj
      apply congrArg
      apply List.map_congr_left
      intro r hr
      apply congrArg
      apply List.map_congr_left
      intro s hs
      exact hA r s (fun h => hd r hr (h ▸ hs))
    · have hj' : (toKeep il.length (flatMerged G)).length ≤ j := by rw [hl]; omega
      have h1 : (mergeIdx il G).getD j [] = [] := by
        rw [List.getD_eq_default]; simpa using hj'
      rw [h1, blockSum_nil_right]
      apply entry_of_col_ge
      intro row hrow
      unfold mergeMat at hrow
      simp only [List.mem_map] at hrow
      obtain ⟨a, _, rfl⟩ := hrow
      simp; omega
  · have hi' : (toKeep il.length (flatMerged G)).length ≤ i := by rw [hl]; omega
    have h1 : (mergeIdx il G).getD i [] = [] := by
      rw [List.getD_eq_default]; simpa using hi'
    rw [h1, blockSum_nil_left]
    apply entry_of_row_ge
    simp; omega

/-- after a merge the groups of the index list are still pairwise disjoint -/
theorem mergeIdx_disj (il : Groups) (G : Groups) (hG : Comps G) (hil : il.Pairwise Disj) :
    (mergeIdx il G).Pairwise Disj := by
  unfold mergeIdx
  rw [List.pairwise_map]
  refine (sorted_toKeep il.length (flatMerged G)).imp_of_mem ?_
  intro a b ha hb hab x hxa hxb
  rw [mem_sortAsc, List.mem_flatMap] at hxa hxb
  obtain ⟨r, hr, hxr⟩ := hxa
  obtain ⟨s, hs, hxs⟩ := hxb
  have hd := grpOf_disj hG (Nat.ne_of_lt hab) (mem_toKeep.mp ha).2 (mem_toKeep.mp hb).2
  have hrs : r ≠ s := fun h => hd r hr (h ▸ hs)
  -- x lies in two different groups of the old index list
  have hr' : r < il.length := by
    by_contra hlt
    rw [List.getD_eq_default _ _ (Nat.le_of_not_lt hlt)] at hxr; simp at hxr
  have hs' : s < il.length := by
    by_contra hlt
    rw [List.getD_eq_default _ _ (Nat.le_of_not_lt hlt)] at hxs; simp at hxs
  have e1 : il.getD r [] = il[r] := by simp [List.getD_eq_getElem?_getD, hr']
  have e2 : il.getD s [] = il[s] := by simp [List.getD_eq_getElem?_getD, hs']
  rw [e1] at hxr; rw [e2] at hxs
  rcases Nat.lt_or_gt_of_ne hrs with h | h
  · exact (List.pairwise_iff_getElem.mp hil) r s hr' hs' h x hxr hxs
  · exact (List.pairwise_iff_getElem.mp hil) s r hs' hr' h x hxs hxr

/-! ### deletion and re-normalisation -/

/-- every row has as many entries as there are rows -/
def Square {α : Type} (A : Mat α) : Prop := ∀ row ∈ A, row.length = A.length

theorem square_mergeMat (A : Mat α) (G : Groups) : Square (mergeMat A G) := by
  intro row hrow
  unfold mergeMat at hrow ⊢
  simp only [List.mem_map] at hrow
  obtain ⟨a, _, rfl⟩ := hrow
  simp

theorem square_subMat (A : Mat α) (keep : List Nat) : Square (subMat A keep) := by
  intro row hrow
  unfold subMat at hrow ⊢
  simp only [List.mem_map] at hrow
  obtain ⟨a, _, rfl⟩ := hrow
  simp

theorem getD_range_map (row : List α) : (List.range row.length).map (fun j => row.getD j 0) = row := by
  apply List.ext_getElem
  · simp
  · intro i h1 h2
    simp [List.getD_eq_getElem?_getD] at h1 ⊢
    simp [h2]

theorem sum_range_update (f : Nat → α) (S : α) (i m : Nat) (hi : i < m) :
    ((List.range m).map (fun j => if i = j then f j - S else f j)).sum = ((List.range m).map f).sum - S := by
  induction m with
  | zero => omega
  | succ m ih =>
    rw [List.range_succ, List.map_append, List.map_append, List.sum_append, List.sum_append]
    by_cases h : i = m
    · subst h
      have : ((List.range i).map (fun j => if i = j then f j - S else f j)) = (List.range i).map f := by
        apply List.map_congr_left
        intro j hj
        have : i ≠ j := by rw [List.mem_range] at hj; omega
        simp [this]
      rw [this]; simp; abel
    · have hi' : i < m := by omega
      rw [ih hi']; simp [h]; abel

theorem length_normalize (A : Mat α) : (normalize A).length = A.length := by simp [normalize]

theorem getD_normalize (A : Mat α) {i : Nat} (hi : i < A.length) :
    (normalize A).getD i [] =
      (List.range (A.getD i []).length).map fun j =>
        if i = j then (A.getD i []).getD j 0 - intSum (A.getD i []) else (A.getD i []).getD j 0 := by
  unfold normalize
  simp [List.getD_eq_getElem?_getD, hi]

/-- `sqra_normalize` makes every row of a square matrix sum to zero -/
theorem rowSum_normalize (A : Mat α) (hsq : Square A) (i : Nat) : ((normalize A).getD i []).sum = 0 := by
  by_cases hi : i < A.length
  · rw [getD_normalize A hi]
    have hrow : A.getD i [] = A[i] := by simp [List.getD_eq_getElem?_getD, hi]
    have hlen : (A.getD i []).length = A.length := by rw [hrow]; exact hsq _ (List.getElem_mem hi)
    rw [sum_range_update (fun j => (A.getD i []).getD j 0) _ i _ (by rw [hlen]; exact hi)]
    rw [getD_range_map, intSum_eq_sum]; abel
  · rw [List.getD_eq_default _ _ (by rw [length_normalize]; omega)]; simp

/-- `sqra_normalize` only touches the diagonal -/
theorem entry_normalize_off (A : Mat α) {i j : Nat} (hij : i ≠ j) : entry (normalize A) i j = entry A i j := by
  unfold entry
  by_cases hi : i < A.length
  · rw [getD_normalize A hi]
    generalize A.getD i [] = row
    by_cases hj : j < row.length
    · rw [List.getD_eq_getElem _ _ (by simpa using hj)]
      simp [hij]
    · have h1 : row.getD j 0 = 0 := List.getD_eq_default _ _ (by omega)
      rw [h1]
      exact List.getD_eq_default _ _ (by simp; omega)
  · have h1 : (normalize A).getD i [] = [] := List.getD_eq_default _ _ (by rw [length_normalize]; omega)
    have h2 : A.getD i [] = [] := List.getD_eq_default _ _ (by omega)
    rw [h1, h2]

theorem entry_subMat (A : Mat α) (keep : List Nat) {i j : Nat} (hi : i < keep.length) (hj : j < keep.length) :
    entry (subMat A keep) i j = entry A keep[i] keep[j] := by
  unfold subMat
  exact entry_map_map keep (fun a b => entry A a b) hi hj

theorem getD_map_getD (il : Groups) (keep : List Nat) (i : Nat) :
    (keep.map fun a => il.getD a []).getD i [] = if h : i < keep.length then il.getD keep[i] [] else [] := by
  split
  · rename_i h
    rw [List.getD_eq_getElem _ _ (by simpa using h)]; simp
  · rename_i h
    exact List.getD_eq_default _ _ (by simp; omega)

/-- off-diagonal lumping survives a deletion (selection of rows/columns, then diagonal reset) -/
theorem select_blockSum_off (M : Nat → Nat → α) (A : Mat α) (il : Groups) (keep : List Nat) (hk : keep.Nodup)
    (hA : ∀ r s, r ≠ s → entry A r s = blockSum M (il.getD r []) (il.getD s []))
    {i j : Nat} (hij : i ≠ j) :
    entry (normalize (subMat A keep)) i j =
      blockSum M ((keep.map fun a => il.getD a []).getD i []) ((keep.map fun a => il.getD a []).getD j []) := by
  rw [entry_normalize_off _ hij, getD_map_getD, getD_map_getD]
  by_cases hi : i < keep.length
  · by_cases hj : j < keep.length
    · rw [dif_pos hi, dif_pos hj, entry_subMat A keep hi hj]
      exact hA _ _ (fun h => hij ((List.Nodup.getElem_inj_iff hk).mp h))
    · rw [dif_neg hj, blockSum_nil_right]
      apply entry_of_col_ge
      intro row hrow
      rw [square_subMat A keep row hrow]; simp [subMat]; omega
  · rw [dif_neg hi, blockSum_nil_left]
    apply entry_of_row_ge
    simp [subMat]; omega

theorem select_disj (il : Groups) (n : Nat) (gone : List Nat) (hn : n = il.length) (hil : il.Pairwise Disj) :
    ((toKeep n gone).map fun a => il.getD a []).Pairwise Disj := by
  rw [List.pairwise_map]
  refine (sorted_toKeep n gone).imp_of_mem ?_
  intro a b ha hb hab
  have ha' : a < il.length := by rw [← hn]; exact (mem_toKeep.mp ha).1
  have hb' : b < il.length := by rw [← hn]; exact (mem_toKeep.mp hb).1
  rw [List.getD_eq_getElem _ _ ha', List.getD_eq_getElem _ _ hb']
  exact (List.pairwise_iff_getElem.mp hil) a b ha' hb' hab

/-! ### zero row sums survive a merge: the row groups partition the rows -/

theorem head_mem_toKeep {G : Groups} (hG : Comps G) {n : Nat} (hn : ∀ g ∈ G, ∀ x ∈ g, x < n)
    {g : List Nat} (hg : g ∈ G) {a : Nat} (ha : g.head? = some a) : a ∈ toKeep n (flatMerged G) := by
  rw [mem_toKeep]
  refine ⟨hn g hg a (mem_of_head? ha), ?_⟩
  intro hmem
  obtain ⟨g', hg', hag'⟩ := mem_flatMerged.mp hmem
  by_cases he : g = g'
  · subst he
    cases g with
    | nil => simp at ha
    | cons y ys =>
      simp at ha; subst ha
      have := List.rel_of_pairwise_cons (hG.strict _ hg) hag'
      omega
  · exact disj_of_mem_of_ne hG.disj hg hg' he a (mem_of_head? ha) (mem_of_mem_tail hag')

theorem mem_flatMap_grpOf {G : Groups} (hG : Comps G) {n : Nat} (hn : ∀ g ∈ G, ∀ x ∈ g, x < n) (x : Nat) :
    x ∈ (toKeep n (flatMerged G)).flatMap (grpOf G) ↔ x < n := by
  rw [List.mem_flatMap]
  constructor
  · rintro ⟨a, ha, hx⟩
    rcases mem_grpOf.mp hx with rfl | ⟨g, hg, _, hxg⟩
    · exact (mem_toKeep.mp ha).1
    · exact hn g hg x (mem_of_mem_tail hxg)
  · intro hx
    by_cases hm : x ∈ flatMerged G
    · obtain ⟨g, hg, hxg⟩ := mem_flatMerged.mp hm
      cases hgc : g with
      | nil => subst hgc; simp at hxg
      | cons a ys =>
        subst hgc
        exact ⟨a, head_mem_toKeep hG hn hg rfl, mem_grpOf.mpr (Or.inr ⟨_, hg, rfl, hxg⟩)⟩
    · exact ⟨x, mem_toKeep.mpr ⟨hx, hm⟩, mem_grpOf.mpr (Or.inl rfl)⟩

theorem nodup_grpOf {G : Groups} (hG : Comps G) {a : Nat} (ha : a ∉ flatMerged G) : (grpOf G a).Nodup := by
  unfold grpOf
  rw [List.nodup_cons]
  constructor
  · intro h
    apply ha
    rw [List.mem_flatMap] at h
    obtain ⟨g, hg, hag⟩ := h
    exact mem_flatMerged.mpr ⟨g, (List.mem_filter.mp hg).1, hag⟩
  · rw [List.nodup_flatMap]
    constructor
    · intro g hg
      have hs := hG.strict g (List.mem_filter.mp hg).1
      exact (hs.imp (fun h => Nat.ne_of_lt h)).tail
    · refine (hG.disj.filter _).imp ?_
      intro g g' hd x hx hx'
      exact hd x (mem_of_mem_tail hx) (mem_of_mem_tail hx')

theorem perm_flatMap_grpOf {G : Groups} (hG : Comps G) {n : Nat} (hn : ∀ g ∈ G, ∀ x ∈ g, x < n) :
    ((toKeep n (flatMerged G)).flatMap (grpOf G)).Perm (List.range n) := by
  rw [List.perm_ext_iff_of_nodup]
  · intro x; rw [mem_flatMap_grpOf hG hn, List.mem_range]
  · rw [List.nodup_flatMap]
    constructor
    · intro a ha; exact nodup_grpOf hG (mem_toKeep.mp ha).2
    · refine (sorted_toKeep n (flatMerged G)).imp_of_mem ?_
      intro a b ha hb hab x hx hx'
      exact grpOf_disj hG (Nat.ne_of_lt hab) (mem_toKeep.mp ha).2 (mem_toKeep.mp hb).2 x hx hx'
  · exact List.nodup_range

theorem sum_swap (l g : List Nat) (F : Nat → Nat → α) :
    (l.map fun b => (g.map fun r => F r b).sum).sum = (g.map fun r => (l.map fun b => F r b).sum).sum := by
  induction l with
  | nil => simp
  | cons b l ih =>
    simp only [List.map_cons, List.sum_cons, ih]
    rw [← List.sum_map_add]

theorem sum_flatMap (l : List Nat) (f : Nat → List Nat) (g : Nat → α) :
    ((l.flatMap f).map g).sum = (l.map fun b => ((f b).map g).sum).sum := by
  induction l with
  | nil => simp
  | cons b l ih => simp [List.flatMap_cons, List.map_append, List.sum_append, ih]

theorem sum_entries_row (A : Mat α) (hsq : Square A) (r : Nat) :
    ((List.range A.length).map fun s => entry A r s).sum = (A.getD r []).sum := by
  by_cases hr : r < A.length
  · have hrow : A.getD r [] = A[r] := List.getD_eq_getElem _ _ hr
    have hlen : (A.getD r []).length = A.length := by rw [hrow]; exact hsq _ (List.getElem_mem hr)
    unfold entry
    rw [← hlen, getD_range_map]
  · have : A.getD r [] = [] := List.getD_eq_default _ _ (by omega)
    unfold entry
    rw [this]; simp

/-- a merge keeps zero row sums -/
theorem rowSum_mergeMat (A : Mat α) (G : Groups) (hG : Comps G) (hn : ∀ g ∈ G, ∀ x ∈ g, x < A.length)
    (hsq : Square A) (hz : ∀ r, (A.getD r []).sum = 0) (i : Nat) : ((mergeMat A G).getD i []).sum = 0 := by
  by_cases hi : i < (toKeep A.length (flatMerged G)).length
  · unfold mergeMat
    rw [List.getD_eq_getElem _ _ (by simpa using hi)]
    simp only [List.getElem_map, intSum_eq_sum]
    rw [sum_swap]
    have : ∀ r, ((toKeep A.length (flatMerged G)).map fun b => ((grpOf G b).map fun s => entry A r s).sum).sum = 0 := by
      intro r
      rw [← sum_flatMap]
      rw [((perm_flatMap_grpOf hG hn).map _).sum_eq, sum_entries_row A hsq, hz]
    simp [this]
  · exact (by rw [List.getD_eq_default _ _ (by simp; omega)]; simp)

/-! ### symmetry -/

theorem entry_mergeMat_symm (A : Mat α) (G : Groups) (hs : ∀ r s, entry A r s = entry A s r) (i j : Nat) :
    entry (mergeMat A G) i j = entry (mergeMat A G) j i := by
  by_cases hi : i < (toKeep A.length (flatMerged G)).length
  · by_cases hj : j < (toKeep A.length (flatMerged G)).length
    · rw [entry_mergeMat A G hi hj, entry_mergeMat A G hj hi, sum_swap]
      simp only [hs]
    · rw [entry_of_row_ge (A := mergeMat A G) (i := j) (by simp; omega)]
      apply entry_of_col_ge
      intro row hrow
      rw [square_mergeMat A G row hrow]; simp; omega
  · rw [entry_of_row_ge (A := mergeMat A G) (i := i) (by simp; omega)]
    symm
    apply entry_of_col_ge
    intro row hrow
    rw [square_mergeMat A G row hrow]; simp; omega

theorem entry_select_symm (A : Mat α) (keep : List Nat) (hs : ∀ r s, entry A r s = entry A s r) (i j : Nat) :
    entry (normalize (subMat A keep)) i j = entry (normalize (subMat A keep)) j i := by
  by_cases hij : i = j
  · rw [hij]
  · rw [entry_normalize_off _ hij, entry_normalize_off _ (Ne.symm hij)]
    by_cases hi : i < keep.length
    · by_cases hj : j < keep.length
      · rw [entry_subMat A keep hi hj, entry_subMat A keep hj hi, hs]
      · rw [entry_of_row_ge (A := subMat A keep) (i := j) (by simp [subMat]; omega)]
        apply entry_of_col_ge
        intro row hrow
        rw [square_subMat A keep row hrow]; simp [subMat]; omega
    · rw [entry_of_row_ge (A := subMat A keep) (i := i) (by simp [subMat]; omega)]
      symm
      apply entry_of_col_ge
      intro row hrow
      rw [square_subMat A keep row hrow]; simp [subMat]; omega

/-! ### re-indexing stays inside the matrix -/

theorem mem_findIdx {il : Groups} {c k : Nat} : k ∈ findIdx il c ↔ k < il.length ∧ c ∈ il.getD k [] := by
  unfold findIdx; simp [List.mem_filter]

theorem mem_rowsOf {il : Groups} {L : List Nat} {k : Nat} :
    k ∈ rowsOf il L ↔ k < il.length ∧ ∃ c ∈ L, c ∈ il.getD k [] := by
  unfold rowsOf
  rw [mem_uniqueAsc, List.mem_flatMap]
  constructor
  · rintro ⟨c, hc, hk⟩
    exact ⟨(mem_findIdx.mp hk).1, c, hc, (mem_findIdx.mp hk).2⟩
  · rintro ⟨hk, c, hc, hm⟩
    exact ⟨c, hc, mem_findIdx.mpr ⟨hk, hm⟩⟩

/-- selection by index equals filteabel the list -/
theorem filter_range_map {α : Type} (d : α) (l : List α) (q : Nat → Bool) (p : α → Bool)
    (h : ∀ k (hk : k < l.length), q k = p l[k]) :
    ((List.range l.length).filter q).map (fun k => l.getD k d) = l.filter p := by
  induction l using List.reverseRecOn with
  | nil => simp
  | append_singleton l x ih =>
    rw [List.length_append, List.length_singleton, List.range_succ, List.filter_append, List.map_append,
      List.filter_append]
    have h1 : ((List.range l.length).filter q).map (fun k => (l ++ [x]).getD k d)
        = ((List.range l.length).filter q).map (fun k => l.getD k d) := by
      apply List.map_congr_left
      intro k hk
      have hk' : k < l.length := List.mem_range.mp (List.mem_filter.mp hk).1
      rw [List.getD_eq_getElem _ _ (by simp; omega), List.getD_eq_getElem _ _ hk']
      exact List.getElem_append_left hk'
    rw [h1, ih (fun k hk => by
      have := h k (by simp; omega)
      rw [this]; congr 1; exact List.getElem_append_left hk)]
    congr 1
    have hq := h l.length (by simp)
    have hx : (l ++ [x])[l.length]'(by simp) = x := by simp
    rw [hx] at hq
    simp only [List.filter_cons, List.filter_nil, hq]
    split
    · simp
    · simp

end Molgri.Merge
