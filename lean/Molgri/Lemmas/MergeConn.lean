/-
C13, third layer: the components computed by `merge_sublists` are exactly the connected components of the
"share a join list" graph.
-/
import Molgri.Lemmas.MergeGood
import Mathlib.Logic.Relation

namespace Molgri.Merge

/-- two rows / cells occur together in one join list -/
def Link (J : Groups) (x y : Nat) : Prop := ∃ L ∈ J, x ∈ L ∧ y ∈ L

theorem Link.symm {J : Groups} {x y : Nat} (h : Link J x y) : Link J y x := by
  obtain ⟨L, hL, hx, hy⟩ := h; exact ⟨L, hL, hy, hx⟩

/-- connected through a chain of join lists -/
def Conn (J : Groups) : Nat → Nat → Prop := Relation.ReflTransGen (Link J)

theorem Conn.symm {J : Groups} {x y : Nat} (h : Conn J x y) : Conn J y x :=
  have : Std.Symm (Link J) := ⟨fun _ _ h => Link.symm h⟩
  (Relation.ReflTransGen.stdSymm (r := Link J)).symm _ _ h

theorem Conn.trans {J : Groups} {x y z : Nat} (h1 : Conn J x y) (h2 : Conn J y z) : Conn J x z :=
  Relation.ReflTransGen.trans h1 h2

theorem Conn.of_link {J : Groups} {x y : Nat} (h : Link J x y) : Conn J x y :=
  Relation.ReflTransGen.single h

/-! ### soundness: members of one component are connected -/

theorem addList_sound (J : Groups) {comps : Groups} (L : List Nat) (hL : L ∈ J)
    (hc : ∀ g ∈ comps, ∀ x ∈ g, ∀ y ∈ g, Conn J x y) :
    ∀ g ∈ addList comps L, ∀ x ∈ g, ∀ y ∈ g, Conn J x y := by
  intro g hg x hx y hy
  unfold addList at hg
  rcases List.mem_cons.mp hg with rfl | hg
  · -- every member of the new component is connected to every member of `L`
    have toL : ∀ z, z ∈ uniqueAsc (L ++ (comps.filter (intersects L)).flatten) → ∀ w ∈ L, Conn J z w := by
      intro z hz w hw
      rw [mem_uniqueAsc, List.mem_append] at hz
      rcases hz with hz | hz
      · exact Conn.of_link ⟨L, hL, hz, hw⟩
      · obtain ⟨h, hh, hzh⟩ := List.mem_flatten.mp hz
        obtain ⟨hhc, hint⟩ := List.mem_filter.mp hh
        obtain ⟨u, huL, huh⟩ := intersects_iff.mp hint
        exact (hc h hhc z hzh u huh).trans (Conn.of_link ⟨L, hL, huL, hw⟩)
    -- pick a member of L reachable from x, then go to y
    have hxm := hx
    rw [mem_uniqueAsc, List.mem_append] at hxm
    rcases hxm with hxL | hxh
    · exact (toL y hy x hxL).symm
    · obtain ⟨h, hh, hxh'⟩ := List.mem_flatten.mp hxh
      obtain ⟨_, hint⟩ := List.mem_filter.mp hh
      obtain ⟨u, huL, _⟩ := intersects_iff.mp hint
      exact (toL x hx u huL).trans (toL y hy u huL).symm
  · exact hc g (List.mem_filter.mp hg).1 x hx y hy

theorem foldl_addList_sound (J J' : Groups) (hsub : ∀ L ∈ J', L ∈ J) {comps : Groups}
    (hc : ∀ g ∈ comps, ∀ x ∈ g, ∀ y ∈ g, Conn J x y) :
    ∀ g ∈ J'.foldl addList comps, ∀ x ∈ g, ∀ y ∈ g, Conn J x y := by
  induction J' generalizing comps with
  | nil => exact hc
  | cons L J' ih =>
    rw [List.foldl_cons]
    exact ih (fun L' h => hsub L' (List.mem_cons_of_mem _ h)) (addList_sound J L (hsub L (by simp)) hc)

/-- members of one computed component are connected by a chain of join lists -/
theorem closure_sound (J : Groups) : ∀ g ∈ closure J, ∀ x ∈ g, ∀ y ∈ g, Conn J x y :=
  foldl_addList_sound J J (fun _ h => h) (by simp)

/-! ### completeness: every join list lies inside one component -/

theorem addList_covers {comps : Groups} (L L' : List Nat)
    (h : L' = L ∨ ∃ g ∈ comps, ∀ x ∈ L', x ∈ g) : ∃ g ∈ addList comps L, ∀ x ∈ L', x ∈ g := by
  unfold addList
  rcases h with rfl | ⟨g, hg, hsub⟩
  · exact ⟨_, List.mem_cons_self, fun x hx => by rw [mem_uniqueAsc]; simp [hx]⟩
  · by_cases hi : intersects L g = true
    · refine ⟨_, List.mem_cons_self, fun x hx => ?_⟩
      rw [mem_uniqueAsc, List.mem_append]
      exact Or.inr (List.mem_flatten.mpr ⟨g, List.mem_filter.mpr ⟨hg, hi⟩, hsub x hx⟩)
    · exact ⟨g, List.mem_cons_of_mem _ (List.mem_filter.mpr ⟨hg, by simpa using hi⟩), hsub⟩

theorem foldl_addList_covers (J' : Groups) {comps : Groups} (L' : List Nat)
    (h : L' ∈ J' ∨ ∃ g ∈ comps, ∀ x ∈ L', x ∈ g) : ∃ g ∈ J'.foldl addList comps, ∀ x ∈ L', x ∈ g := by
  induction J' generalizing comps with
  | nil =>
    rcases h with h | h
    · simp at h
    · exact h
  | cons L J' ih =>
    rw [List.foldl_cons]
    apply ih
    rcases h with h | h
    · rcases List.mem_cons.mp h with rfl | h
      · exact Or.inr (addList_covers L' L' (Or.inl rfl))
      · exact Or.inl h
    · exact Or.inr (addList_covers L L' (Or.inr h))

/-- every join list is contained in one computed component -/
theorem closure_covers (J : Groups) {L : List Nat} (hL : L ∈ J) : ∃ g ∈ closure J, ∀ x ∈ L, x ∈ g :=
  foldl_addList_covers J L (Or.inl hL)

/-- connected members are in the same computed component (or are the same member) -/
theorem closure_complete (J : Groups) (hJ : ∀ L ∈ J, L ≠ []) {x y : Nat} (h : Conn J x y) :
    x = y ∨ ∃ g ∈ closure J, x ∈ g ∧ y ∈ g := by
  induction h with
  | refl => exact Or.inl rfl
  | @tail b c _ hbc ih =>
    obtain ⟨L, hL, hbL, hcL⟩ := hbc
    obtain ⟨g, hg, hsub⟩ := closure_covers J hL
    rcases ih with rfl | ⟨g', hg', hxg', hbg'⟩
    · exact Or.inr ⟨g, hg, hsub _ hbL, hsub c hcL⟩
    · -- g and g' share `b`, hence are the same component
      have : g' = g := by
        by_contra hne
        exact disj_of_mem_of_ne (comps_closure J hJ).disj hg' hg hne b hbg' (hsub b hbL)
      subst this
      exact Or.inr ⟨g', hg', hxg', hsub c hcL⟩

end Molgri.Merge
