/-
C13, second layer: the index list stays a list of non-empty, strictly ascending, pairwise disjoint groups
ordered by their smallest member.
-/
import Molgri.Lemmas.Merge

namespace Molgri.Merge

/-- what the property says about the index list -/
structure Good (il : Groups) : Prop where
  disj : il.Pairwise Disj
  nonempty : ∀ g ∈ il, g ≠ []
  strict : ∀ g ∈ il, g.Pairwise (· < ·)
  heads : il.Pairwise (fun g h => g.headD 0 < h.headD 0)

theorem headD_le_of_strict {g : List Nat} (hs : g.Pairwise (· < ·)) {x : Nat} (hx : x ∈ g) : g.headD 0 ≤ x := by
  cases g with
  | nil => simp at hx
  | cons y ys =>
    simp only [List.headD_cons]
    rcases List.mem_cons.mp hx with rfl | hx
    · exact Nat.le_refl _
    · exact Nat.le_of_lt (List.rel_of_pairwise_cons hs hx)

theorem headD_mem {g : List Nat} (h : g ≠ []) : g.headD 0 ∈ g := by
  cases g with
  | nil => exact absurd rfl h
  | cons y ys => simp

theorem headD_le_of_sorted {g : List Nat} (hs : g.Pairwise (· ≤ ·)) {x : Nat} (hx : x ∈ g) : g.headD 0 ≤ x := by
  cases g with
  | nil => simp at hx
  | cons y ys =>
    simp only [List.headD_cons]
    rcases List.mem_cons.mp hx with rfl | hx
    · exact Nat.le_refl _
    · exact List.rel_of_pairwise_cons hs hx

/-- the head of a sorted permutation of `l` is a lower bound of `l` that belongs to `l` -/
theorem headD_sortAsc {l : List Nat} (h : l ≠ []) :
    (sortAsc l).headD 0 ∈ l ∧ ∀ x ∈ l, (sortAsc l).headD 0 ≤ x := by
  have hne : sortAsc l ≠ [] := by
    intro h0
    have := (perm_sortAsc l).length_eq
    rw [h0] at this
    exact h (List.eq_nil_of_length_eq_zero this.symm)
  exact ⟨mem_sortAsc.mp (headD_mem hne), fun x hx => headD_le_of_sorted (sorted_sortAsc l) (mem_sortAsc.mpr hx)⟩

theorem strict_of_sorted_nodup {l : List Nat} (hs : l.Pairwise (· ≤ ·)) (hn : l.Nodup) : l.Pairwise (· < ·) := by
  induction l with
  | nil => exact List.Pairwise.nil
  | cons x xs ih =>
    rw [List.pairwise_cons] at hs ⊢
    rw [List.nodup_cons] at hn
    refine ⟨fun y hy => ?_, ih hs.2 hn.2⟩
    have := hs.1 y hy
    have hne : x ≠ y := fun h => hn.1 (h ▸ hy)
    omega

theorem getD_mem_of_lt (il : Groups) {r : Nat} (hr : r < il.length) : il.getD r [] ∈ il := by
  rw [List.getD_eq_getElem _ _ hr]; exact List.getElem_mem hr

theorem disj_getD_of_ne {il : Groups} (hd : il.Pairwise Disj) {r s : Nat} (hrs : r ≠ s) :
    Disj (il.getD r []) (il.getD s []) := by
  by_cases hr : r < il.length
  · by_cases hs : s < il.length
    · rw [List.getD_eq_getElem _ _ hr, List.getD_eq_getElem _ _ hs]
      rcases Nat.lt_or_gt_of_ne hrs with h | h
      · exact (List.pairwise_iff_getElem.mp hd) r s hr hs h
      · exact ((List.pairwise_iff_getElem.mp hd) s r hs hr h).symm
    · rw [List.getD_eq_default (l := il) (d := []) (Nat.le_of_not_lt hs)]
      intro x _ hx; simp at hx
  · rw [List.getD_eq_default (l := il) (d := []) (Nat.le_of_not_lt hr)]
    intro x hx; simp at hx

/-- heads of the old groups increase with the row number -/
theorem headD_getD_lt {il : Groups} (hh : il.Pairwise (fun g h => g.headD 0 < h.headD 0)) {r s : Nat}
    (hrs : r < s) (hs : s < il.length) : (il.getD r []).headD 0 < (il.getD s []).headD 0 := by
  have hr : r < il.length := by omega
  rw [List.getD_eq_getElem _ _ hr, List.getD_eq_getElem _ _ hs]
  exact (List.pairwise_iff_getElem.mp hh) r s hr hs hrs

/-- **a merge keeps the index list good** -/
theorem good_mergeIdx (il G : Groups) (hil : Good il) (hG : Comps G) (hn : ∀ g ∈ G, ∀ x ∈ g, x < il.length) :
    Good (mergeIdx il G) := by
  -- facts about one new group
  have key : ∀ a ∈ toKeep il.length (flatMerged G),
      let g' := sortAsc ((grpOf G a).flatMap fun r => il.getD r [])
      g' ≠ [] ∧ g'.Pairwise (· < ·) ∧ g'.headD 0 = (il.getD a []).headD 0 := by
    intro a ha g'
    have ha' : a < il.length := (mem_toKeep.mp ha).1
    have haG : a ∉ flatMerged G := (mem_toKeep.mp ha).2
    have hane : il.getD a [] ≠ [] := hil.nonempty _ (getD_mem_of_lt il ha')
    have hflat_ne : ((grpOf G a).flatMap fun r => il.getD r []) ≠ [] := by
      intro h0
      have : (il.getD a []).headD 0 ∈ ((grpOf G a).flatMap fun r => il.getD r []) :=
        List.mem_flatMap.mpr ⟨a, mem_grpOf.mpr (Or.inl rfl), headD_mem hane⟩
      rw [h0] at this; simp at this
    have hrange : ∀ r ∈ grpOf G a, r < il.length := by
      intro r hr
      rcases mem_grpOf.mp hr with rfl | ⟨g, hg, _, hrg⟩
      · exact ha'
      · exact hn g hg r (mem_of_mem_tail hrg)
    refine ⟨?_, ?_, ?_⟩
    · intro h0
      have := (perm_sortAsc ((grpOf G a).flatMap fun r => il.getD r [])).length_eq
      rw [show sortAsc _ = g' from rfl, h0] at this
      exact hflat_ne (List.eq_nil_of_length_eq_zero this.symm)
    · apply strict_of_sorted_nodup (sorted_sortAsc _)
      rw [(perm_sortAsc _).nodup_iff, List.nodup_flatMap]
      constructor
      · intro r hr
        exact (hil.strict _ (getD_mem_of_lt il (hrange r hr))).imp (fun h => Nat.ne_of_lt h)
      · refine (nodup_grpOf hG haG).imp ?_
        intro r s hrs x hx hx'
        exact disj_getD_of_ne hil.disj hrs x hx hx'
    · obtain ⟨hmem, hmin⟩ := headD_sortAsc hflat_ne
      apply Nat.le_antisymm
      · exact hmin _ (List.mem_flatMap.mpr ⟨a, mem_grpOf.mpr (Or.inl rfl), headD_mem hane⟩)
      · obtain ⟨r, hr, hxr⟩ := List.mem_flatMap.mp hmem
        have hr' := hrange r hr
        have h1 : (il.getD r []).headD 0 ≤ g'.headD 0 :=
          headD_le_of_strict (hil.strict _ (getD_mem_of_lt il hr')) hxr
        rcases lt_of_mem_grpOf hG hr with rfl | hlt
        · exact h1
        · exact Nat.le_trans (Nat.le_of_lt (headD_getD_lt hil.heads hlt hr')) h1
  refine ⟨mergeIdx_disj il G hG hil.disj, ?_, ?_, ?_⟩
  · intro g hg
    unfold mergeIdx at hg
    obtain ⟨a, ha, rfl⟩ := List.mem_map.mp hg
    exact (key a ha).1
  · intro g hg
    unfold mergeIdx at hg
    obtain ⟨a, ha, rfl⟩ := List.mem_map.mp hg
    exact (key a ha).2.1
  · unfold mergeIdx
    rw [List.pairwise_map]
    refine (sorted_toKeep il.length (flatMerged G)).imp_of_mem ?_
    intro a b ha hb hab
    rw [(key a ha).2.2, (key b hb).2.2]
    exact headD_getD_lt hil.heads hab (mem_toKeep.mp hb).1

/-- **a deletion keeps the index list good** -/
theorem good_select (il : Groups) (gone : List Nat) (hil : Good il) :
    Good ((toKeep il.length gone).map fun a => il.getD a []) := by
  refine ⟨select_disj il _ gone rfl hil.disj, ?_, ?_, ?_⟩
  · intro g hg
    obtain ⟨a, ha, rfl⟩ := List.mem_map.mp hg
    exact hil.nonempty _ (getD_mem_of_lt il (mem_toKeep.mp ha).1)
  · intro g hg
    obtain ⟨a, ha, rfl⟩ := List.mem_map.mp hg
    exact hil.strict _ (getD_mem_of_lt il (mem_toKeep.mp ha).1)
  · rw [List.pairwise_map]
    refine (sorted_toKeep il.length gone).imp_of_mem ?_
    intro a b _ hb hab
    exact headD_getD_lt hil.heads hab (mem_toKeep.mp hb).1

theorem good_singletons (n : Nat) : Good (singletons n) := by
  unfold singletons
  refine ⟨?_, ?_, ?_, ?_⟩
  · rw [List.pairwise_map]
    refine List.pairwise_lt_range.imp ?_
    intro a b hab x hxa hxb
    simp at hxa hxb; omega
  · intro g hg; obtain ⟨a, _, rfl⟩ := List.mem_map.mp hg; simp
  · intro g hg; obtain ⟨a, _, rfl⟩ := List.mem_map.mp hg; simp
  · rw [List.pairwise_map]
    exact List.pairwise_lt_range.imp (fun h => by simpa using h)

end Molgri.Merge
