/-
C13, fifth layer: a good index list is determined by its partition; consequences for the order and redundancy
of join lists and for one-shot versus step-wise merging.
-/
import Molgri.Lemmas.MergeSpec

namespace Molgri.Merge

theorem eq_of_strict_of_mem_iff {l₁ l₂ : List Nat} (h₁ : l₁.Pairwise (· < ·)) (h₂ : l₂.Pairwise (· < ·))
    (h : ∀ x, x ∈ l₁ ↔ x ∈ l₂) : l₁ = l₂ := by
  apply List.Perm.eq_of_pairwise (le := (· < ·)) (fun a b _ _ hab hba => by omega) h₁ h₂
  rw [List.perm_ext_iff_of_nodup (h₁.imp (fun h => Nat.ne_of_lt h)) (h₂.imp (fun h => Nat.ne_of_lt h))]
  exact h

theorem good_tail {g : List Nat} {t : Groups} (h : Good (g :: t)) : Good t :=
  ⟨h.disj.of_cons, fun g' hg' => h.nonempty g' (List.mem_cons_of_mem _ hg'),
    fun g' hg' => h.strict g' (List.mem_cons_of_mem _ hg'), h.heads.of_cons⟩

/-- in a good list the head of the first group is a lower bound of all cells -/
theorem headD_first_le {g : List Nat} {t : Groups} (h : Good (g :: t)) {x : Nat} {g' : List Nat}
    (hg' : g' ∈ g :: t) (hx : x ∈ g') : g.headD 0 ≤ x := by
  have h1 : g'.headD 0 ≤ x := headD_le_of_strict (h.strict g' hg') hx
  rcases List.mem_cons.mp hg' with rfl | ht
  · exact h1
  · have := List.rel_of_pairwise_cons h.heads ht
    omega

/-- **A good index list is determined by the partition it represents.** -/
theorem good_ext : ∀ {il₁ il₂ : Groups}, Good il₁ → Good il₂ →
    (∀ c d, SameGroup il₁ c d ↔ SameGroup il₂ c d) → il₁ = il₂
  | [], [], _, _, _ => rfl
  | [], g₂ :: t₂, _, h₂, h => by
    exfalso
    have hne := h₂.nonempty g₂ (by simp)
    have : SameGroup (g₂ :: t₂) (g₂.headD 0) (g₂.headD 0) := ⟨g₂, by simp, headD_mem hne, headD_mem hne⟩
    obtain ⟨g, hg, _⟩ := (h _ _).mpr this
    simp at hg
  | g₁ :: t₁, [], h₁, _, h => by
    exfalso
    have hne := h₁.nonempty g₁ (by simp)
    have : SameGroup (g₁ :: t₁) (g₁.headD 0) (g₁.headD 0) := ⟨g₁, by simp, headD_mem hne, headD_mem hne⟩
    obtain ⟨g, hg, _⟩ := (h _ _).mp this
    simp at hg
  | g₁ :: t₁, g₂ :: t₂, h₁, h₂, h => by
    have hne₁ := h₁.nonempty g₁ (by simp)
    have hne₂ := h₂.nonempty g₂ (by simp)
    have hm₁ : g₁.headD 0 ∈ g₁ := headD_mem hne₁
    have hm₂ : g₂.headD 0 ∈ g₂ := headD_mem hne₂
    -- the two smallest cells coincide
    have hle₂₁ : g₂.headD 0 ≤ g₁.headD 0 := by
      obtain ⟨g, hg, hx, _⟩ := (h _ _).mp ⟨g₁, by simp, hm₁, hm₁⟩
      exact headD_first_le h₂ hg hx
    have hle₁₂ : g₁.headD 0 ≤ g₂.headD 0 := by
      obtain ⟨g, hg, hx, _⟩ := (h _ _).mpr ⟨g₂, by simp, hm₂, hm₂⟩
      exact headD_first_le h₁ hg hx
    have hm : g₁.headD 0 = g₂.headD 0 := Nat.le_antisymm hle₁₂ hle₂₁
    -- membership in the first group = being grouped with the smallest cell
    have mem₁ : ∀ x, x ∈ g₁ ↔ SameGroup (g₁ :: t₁) (g₁.headD 0) x := by
      intro x
      constructor
      · intro hx; exact ⟨g₁, by simp, hm₁, hx⟩
      · rintro ⟨g, hg, hmg, hxg⟩
        rcases List.mem_cons.mp hg with rfl | ht
        · exact hxg
        · exact absurd hmg (List.rel_of_pairwise_cons h₁.disj ht _ hm₁)
    have mem₂ : ∀ x, x ∈ g₂ ↔ SameGroup (g₂ :: t₂) (g₂.headD 0) x := by
      intro x
      constructor
      · intro hx; exact ⟨g₂, by simp, hm₂, hx⟩
      · rintro ⟨g, hg, hmg, hxg⟩
        rcases List.mem_cons.mp hg with rfl | ht
        · exact hxg
        · exact absurd hmg (List.rel_of_pairwise_cons h₂.disj ht _ hm₂)
    have hg : g₁ = g₂ := by
      apply eq_of_strict_of_mem_iff (h₁.strict g₁ (by simp)) (h₂.strict g₂ (by simp))
      intro x
      rw [mem₁, mem₂, h, hm]
    subst hg
    -- the tails represent the same partition
    have ht : t₁ = t₂ := by
      apply good_ext (good_tail h₁) (good_tail h₂)
      intro c d
      constructor
      · rintro ⟨g, hg, hc, hd⟩
        obtain ⟨g', hg', hc', hd'⟩ := (h c d).mp ⟨g, List.mem_cons_of_mem _ hg, hc, hd⟩
        rcases List.mem_cons.mp hg' with rfl | ht
        · exact absurd hc (List.rel_of_pairwise_cons h₁.disj hg _ hc')
        · exact ⟨g', ht, hc', hd'⟩
      · rintro ⟨g, hg, hc, hd⟩
        obtain ⟨g', hg', hc', hd'⟩ := (h c d).mpr ⟨g, List.mem_cons_of_mem _ hg, hc, hd⟩
        rcases List.mem_cons.mp hg' with rfl | ht
        · exact absurd hc (List.rel_of_pairwise_cons h₂.disj hg _ hc')
        · exact ⟨g', ht, hc', hd'⟩
    rw [ht]

/-! ### the row lists built by `merge_matrix_cells` link exactly what the specification links -/

theorem link_rows_some (il J : Groups) (r s : Nat) :
    Link ((J.map (rowsOf il)).filter (fun ρ => !ρ.isEmpty)) r s ↔ RowLink il J r s := by
  unfold Link RowLink
  constructor
  · rintro ⟨ρ, hρ, hr, hs⟩
    obtain ⟨L, hL, rfl⟩ := List.mem_map.mp (List.mem_filter.mp hρ).1
    exact ⟨L, hL, mem_rowsOf.mp hr, mem_rowsOf.mp hs⟩
  · rintro ⟨L, hL, hr, hs⟩
    refine ⟨rowsOf il L, List.mem_filter.mpr ⟨List.mem_map.mpr ⟨L, hL, rfl⟩, ?_⟩, mem_rowsOf.mpr hr, mem_rowsOf.mpr hs⟩
    have : r ∈ rowsOf il L := mem_rowsOf.mpr hr
    cases hrows : rowsOf il L with
    | nil => rw [hrows] at this; simp at this
    | cons _ _ => simp

theorem getD_singletons' (n r : Nat) : (singletons n).getD r [] = if r < n then [r] else [] := by
  unfold singletons
  split
  · rename_i h
    rw [List.getD_eq_getElem _ _ (by simpa using h)]; simp
  · rename_i h
    exact List.getD_eq_default _ _ (by simp; omega)

theorem link_rows_none (n : Nat) (J : Groups) (hr : ∀ L ∈ J, ∀ c ∈ L, c < n) (r s : Nat) :
    Link J r s ↔ RowLink (singletons n) J r s := by
  unfold Link RowLink
  simp only [length_singletons, getD_singletons']
  constructor
  · rintro ⟨L, hL, hrL, hsL⟩
    have h1 := hr L hL r hrL
    have h2 := hr L hL s hsL
    exact ⟨L, hL, ⟨h1, r, hrL, by simp [h1]⟩, ⟨h2, s, hsL, by simp [h2]⟩⟩
  · rintro ⟨L, hL, ⟨h1, c, hcL, hc⟩, ⟨h2, d, hdL, hd⟩⟩
    simp [h1] at hc; simp [h2] at hd
    subst hc; subst hd
    exact ⟨L, hL, hcL, hdL⟩

/-- **What `merge_matrix_cells` does to the groups**: cells `c`, `d` share a group afterwards exactly when `c` is
present and `c`, `d` are related by the equivalence generated by "same group before" and "listed in one join list,
both present". -/
theorem mergeCells_spec {α : Type} [Add α] [Zero α] {A : Mat α} {J : Groups} {idx : Option Groups} {A' : Mat α}
    {il' : Groups}
    (h : mergeCells A J idx = .ok (A', il')) (hlen : (idx.getD (singletons A.length)).length = A.length)
    (hgood : Good (idx.getD (singletons A.length))) (c d : Nat) :
    SameGroup il' c d ↔
      (Present (idx.getD (singletons A.length)) c ∧ Joined (idx.getD (singletons A.length)) J c d) := by
  unfold mergeCells at h
  cases idx with
  | none =>
    simp only at h
    split at h
    · cases h
    · rename_i hne
      split at h
      · cases h
      · rename_i hrange
        cases h
        have hJ : ∀ L ∈ J, L ≠ [] := by
          intro L hL h0
          apply hne
          rw [List.any_eq_true]; exact ⟨L, hL, by simp [h0]⟩
        have hr : ∀ L ∈ J, ∀ c ∈ L, c < A.length := by
          intro L hL c hc
          by_contra hge
          apply hrange
          rw [List.any_eq_true]
          refine ⟨L, hL, ?_⟩
          rw [List.any_eq_true]
          exact ⟨c, hc, by simpa using Nat.le_of_not_lt hge⟩
        simp only [Option.getD_none] at hgood ⊢
        exact sameGroup_merge_iff (singletons A.length) J J hgood hJ
          (by simpa using hr) (link_rows_none A.length J hr) c d
  | some il =>
    simp only at h
    split at h
    · cases h
    · cases h
      simp only [Option.getD_some] at hgood hlen ⊢
      refine sameGroup_merge_iff il J _ hgood ?_ ?_ (link_rows_some il J) c d
      · intro L hL h0
        have := (List.mem_filter.mp hL).2
        simp [h0] at this
      · intro ρ hρ x hx
        obtain ⟨L, _, rfl⟩ := List.mem_map.mp (List.mem_filter.mp hρ).1
        exact (mem_rowsOf.mp hx).1

end Molgri.Merge
