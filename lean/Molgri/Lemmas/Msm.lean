/-
Helper lemmas for C12 (MSM).  Property theorems are in `Molgri/Props/C12.lean`.
-/
import Molgri.Model.Msm
import Mathlib.Algebra.BigOperators.Group.Finset.Basic
import Mathlib.Algebra.Order.BigOperators.Group.Finset
import Mathlib.Algebra.BigOperators.Field
import Mathlib.Data.Rat.Defs
import Mathlib.Algebra.Order.Field.Rat
import Mathlib.Data.List.Count
import Mathlib.Data.Finset.Card
import Mathlib.Tactic.Ring
import Mathlib.Tactic.Linarith
import Mathlib.Tactic.FieldSimp

namespace Molgri.Msm

/-! ### Python's `range(0, n, step)` -/

theorem mem_pyRange {n step k : Nat} (hs : 0 < step) :
    k ∈ pyRange n step ↔ k < n ∧ step ∣ k := by
  unfold pyRange
  simp only [List.mem_map, List.mem_range]
  constructor
  · rintro ⟨a, ha, rfl⟩
    refine ⟨?_, Dvd.intro_left a rfl⟩
    have h1 : a + 1 ≤ (n + step - 1) / step := ha
    rw [Nat.le_div_iff_mul_le hs, Nat.succ_mul] at h1
    omega
  · rintro ⟨hk, a, rfl⟩
    refine ⟨a, ?_, Nat.mul_comm _ _⟩
    show a + 1 ≤ (n + step - 1) / step
    rw [Nat.le_div_iff_mul_le hs, Nat.succ_mul, Nat.mul_comm]
    omega

theorem nodup_pyRange {n step : Nat} (hs : 0 < step) : (pyRange n step).Nodup := by
  unfold pyRange
  refine List.Nodup.map ?_ List.nodup_range
  intro a b h
  exact Nat.eq_of_mul_eq_mul_right hs h

/-! ### the accumulation loop equals plain counting -/

theorem foldl_addWindow (ws : List (Nat × Nat)) (M : Nat → Nat → Nat) (i j : Nat) :
    ws.foldl addWindow M i j = M i j + cnt ws i j + cnt ws j i := by
  induction ws generalizing M with
  | nil => simp [cnt]
  | cons w ws ih =>
    rw [List.foldl_cons, ih]
    obtain ⟨a, b⟩ := w
    simp only [addWindow, bump, cnt, List.count_cons, Prod.mk.injEq, beq_iff_eq]
    grind

theorem countMat_eq (ws : List (Nat × Nat)) (i j : Nat) :
    countMat ws i j = cnt ws i j + cnt ws j i := by
  unfold countMat
  rw [foldl_addWindow]; simp

theorem countMat_symm (ws : List (Nat × Nat)) (i j : Nat) : countMat ws i j = countMat ws j i := by
  rw [countMat_eq, countMat_eq, Nat.add_comm]

theorem rowSum_eq_sum (M : Nat → Nat → Nat) (n i : Nat) :
    rowSum M n i = ∑ j ∈ Finset.range n, M i j := by
  unfold rowSum
  induction n with
  | zero => simp
  | succ n ih => rw [List.range_succ, List.map_append, List.sum_append, ih, Finset.sum_range_succ]; simp

theorem entry_le_rowSum (M : Nat → Nat → Nat) {n j : Nat} (i : Nat) (hj : j < n) : M i j ≤ rowSum M n i := by
  rw [rowSum_eq_sum]
  exact Finset.single_le_sum (f := fun j => M i j) (fun _ _ => Nat.zero_le _) (Finset.mem_range.mpr hj)

end Molgri.Msm
