/-
Helper lemmas about `Molgri.Naming` (C17): the string primitives (`splitU`, `hasSub`, digits), the candidate
selector `pick`, the three scans and the role branch.  No Mathlib import is needed.
-/
import Molgri.Model.Naming

namespace Molgri.Naming

/-! ### `splitU` -/

theorem splitU_ne_nil (s : List Char) : splitU s ≠ [] := by
  induction s with
  | nil => simp [splitU]
  | cons c cs ih =>
    unfold splitU
    split
    · simp
    · split <;> simp

/-- a name without underscore is one token -/
theorem splitU_of_not_mem {s : List Char} (h : '_' ∉ s) : splitU s = [s] := by
  induction s with
  | nil => rfl
  | cons c cs ih =>
    have hc : c ≠ '_' := by intro e; exact h (by simp [e])
    have hcs : '_' ∉ cs := by intro e; exact h (by simp [e])
    unfold splitU
    rw [if_neg hc, ih hcs]

/-- `(a + "_" + rest).split("_") = [a] + rest.split("_")` when `a` has no underscore -/
theorem splitU_append {a : List Char} (rest : List Char) (h : '_' ∉ a) :
    splitU (a ++ '_' :: rest) = a :: splitU rest := by
  induction a with
  | nil => simp [splitU]
  | cons c cs ih =>
    have hc : c ≠ '_' := by intro e; exact h (by simp [e])
    have hcs : '_' ∉ cs := by intro e; exact h (by simp [e])
    show splitU (c :: (cs ++ '_' :: rest)) = _
    rw [splitU, if_neg hc, ih hcs]

/-! ### `hasSub` (the Python `in` on strings) -/

theorem hasSub_iff_infix (pat s : List Char) : hasSub pat s = true ↔ pat <:+: s := by
  induction s with
  | nil =>
    simp only [hasSub, List.isPrefixOf_iff_prefix]
    constructor
    · intro h; exact h.isInfix
    · intro h
      have := List.eq_nil_of_infix_nil h
      subst this; exact List.nil_prefix
  | cons c cs ih =>
    simp only [hasSub, Bool.or_eq_true, List.isPrefixOf_iff_prefix, ih]
    rw [List.infix_cons_iff]

theorem isPrefixOf_cut {c : Char} (ys : List Char) :
    ∀ (pat xs : List Char), c ∉ pat → pat.isPrefixOf (xs ++ c :: ys) = pat.isPrefixOf xs := by
  intro pat xs
  induction xs generalizing pat with
  | nil =>
    intro h
    cases pat with
    | nil => simp
    | cons p ps =>
      have : p ≠ c := by intro e; exact h (by simp [e])
      simp [List.isPrefixOf, this]
  | cons x xs ih =>
    intro h
    cases pat with
    | nil => simp
    | cons p ps =>
      have hps : c ∉ ps := by intro e; exact h (by simp [e])
      simp only [List.cons_append, List.isPrefixOf, ih ps hps]

/-- an occurrence of `pat` cannot straddle a character that `pat` does not contain -/
theorem hasSub_cut {c : Char} {pat : List Char} (xs ys : List Char) (hc : c ∉ pat) (hne : pat ≠ []) :
    hasSub pat (xs ++ c :: ys) = (hasSub pat xs || hasSub pat ys) := by
  obtain ⟨p, ps, rfl⟩ := List.exists_cons_of_ne_nil hne
  have hp : p ≠ c := by intro e; exact hc (by simp [e])
  induction xs with
  | nil => simp [hasSub, List.isPrefixOf, hp]
  | cons x xs ih =>
    show hasSub (p :: ps) (x :: (xs ++ c :: ys)) = _
    have h1 := isPrefixOf_cut (c := c) ys (p :: ps) (x :: xs) hc
    simp only [List.cons_append] at h1
    simp only [hasSub, h1, ih, Bool.or_assoc]

theorem mem_of_hasSub {pat s : List Char} (h : hasSub pat s = true) : ∀ p ∈ pat, p ∈ s := by
  intro p hp
  exact ((hasSub_iff_infix pat s).1 h).subset hp

/-! ### digits -/

theorem isNumeric_iff (t : Tok) : isNumeric t = true ↔ t ≠ [] ∧ ∀ c ∈ t, c.isDigit = true := by
  unfold isNumeric
  cases t <;> simp

theorem natStr_numeric (n : Nat) : isNumeric (natStr n) = true := by
  rw [isNumeric_iff]
  exact ⟨Nat.toDigits_ne_nil, fun c hc => Nat.isDigit_of_mem_toDigits (by decide) (by decide) hc⟩

theorem pyInt_natStr (n : Nat) : pyInt (natStr n) = n := Nat.ofDigitChars_ten_toDigits

theorem not_mem_of_numeric {t : Tok} (h : isNumeric t = true) {c : Char} (hc : c.isDigit = false) : c ∉ t := by
  intro hm
  have := ((isNumeric_iff t).1 h).2 c hm
  simp [hc] at this

theorem numeric_not_dimTag {t : Tok} (h : isNumeric t = true) : isDimTag t = false := by
  unfold isDimTag
  split
  · rename_i a b
    have hb := ((isNumeric_iff _).1 h).2 b (by simp)
    cases hbd : (b == 'd')
    · rfl
    · have : b = 'd' := by simpa using hbd
      subst this
      exact absurd hb (by decide)
  · rfl

theorem dimTag_not_numeric {t : Tok} (h : isDimTag t = true) : isNumeric t = false := by
  cases hn : isNumeric t
  · rfl
  · rw [numeric_not_dimTag hn] at h; exact absurd h (by decide)

theorem numeric_no_zeroKw {t : Tok} (h : isNumeric t = true) : hasSub zeroKw t = false := by
  cases hs : hasSub zeroKw t
  · rfl
  · exact absurd (mem_of_hasSub hs 'z' (by simp [zeroKw])) (not_mem_of_numeric h (by decide))

/-! ### `pick` -/

theorem pick_total {α : Type} (l : List α) : pick l = .error .valueError ∨ ∃ o, pick l = .ok o := by
  unfold pick
  split
  · exact Or.inr ⟨_, rfl⟩
  · exact Or.inr ⟨_, rfl⟩
  · exact Or.inl rfl

theorem pick_two {α : Type} {l : List α} (h : 2 ≤ l.length) : pick l = .error .valueError := by
  match l, h with
  | _ :: _ :: _, _ => rfl

theorem pick_ok_iff {α : Type} {l : List α} {o : Option α} :
    pick l = .ok o ↔ (l = [] ∧ o = none) ∨ (∃ a, l = [a] ∧ o = some a) := by
  unfold pick
  split
  · simp [eq_comm]
  · simp [eq_comm]
  · simp

/-! ### the scans -/

theorem findNumber_total (name : List Char) :
    findNumber name = .error .valueError ∨ ∃ n, findNumber name = .ok n := pick_total _

theorem findAlgorithm_total (tb : Tables) (name : List Char) :
    findAlgorithm tb name = .error .valueError ∨ ∃ a, findAlgorithm tb name = .ok a := pick_total _

/-- a found algorithm is an entry of `ALL_GRID_ALGORITHMS` and one of the tokens -/
theorem findAlgorithm_some {tb : Tables} {name : List Char} {a : Tok} (h : findAlgorithm tb name = .ok (some a)) :
    a ∈ tb.all ∧ (splitU name).filter (fun t => tb.all.contains t) = [a] := by
  unfold findAlgorithm at h
  rcases pick_ok_iff.1 h with ⟨_, h2⟩ | ⟨a', h1, h2⟩
  · cases h2
  · cases h2
    have : a ∈ (splitU name).filter (fun t => tb.all.contains t) := by rw [h1]; simp
    have := (List.mem_filter.1 this).2
    exact ⟨by simpa using this, h1⟩

theorem mapM_pyIntExc_dimTags (l : List Tok) (h : ∀ t ∈ l, isDimTag t = true) :
    l.mapM pyIntExc = (if l = [] then .ok [] else .error .valueError : Except Err (List Nat)) := by
  cases l with
  | nil => rfl
  | cons t ts =>
    have ht := dimTag_not_numeric (h t (by simp))
    simp [List.mapM_cons, pyIntExc, ht, bind, Except.bind]

/-- `_find_dimensions` either finds no tag (`None`) or raises `ValueError` (from `int("3d")`) -/
theorem findDim_eq (name : List Char) :
    findDim name = if (splitU name).filter isDimTag = [] then .ok none else .error .valueError := by
  unfold findDim
  rw [mapM_pyIntExc_dimTags _ (fun t ht => (List.mem_filter.1 ht).2)]
  split <;> rfl

/-! ### `parseWith` in terms of the scans -/

theorem parseWith_of_scans {e : Err} {tb : Tables} {name : List Char} {role : Role} {n : Option Nat} {a : Option Tok}
    {d : Option Nat} (hn : findNumber name = .ok n) (ha : findAlgorithm tb name = .ok a) (hd : findDim name = .ok d) :
    parseWith e tb name role
      = roleBranch e (tb.roleSet role) (tb.zero role) (tb.dflt role) (hasSub zeroKw name) n a := by
  unfold parseWith nameParser
  simp only [hn, ha, hd, bind, Except.bind, pure, Except.pure]
  cases role <;> rfl

theorem parseWith_number_err {e e' : Err} {tb : Tables} {name : List Char} {role : Role}
    (hn : findNumber name = .error e') : parseWith e tb name role = .error e' := by
  unfold parseWith nameParser
  simp only [hn, bind, Except.bind]

theorem parseWith_alg_err {e e' : Err} {tb : Tables} {name : List Char} {role : Role} {n : Option Nat}
    (hn : findNumber name = .ok n) (ha : findAlgorithm tb name = .error e') : parseWith e tb name role = .error e' := by
  unfold parseWith nameParser
  simp only [hn, ha, bind, Except.bind]

theorem parseWith_dim_err {e e' : Err} {tb : Tables} {name : List Char} {role : Role} {n : Option Nat} {a : Option Tok}
    (hn : findNumber name = .ok n) (ha : findAlgorithm tb name = .ok a) (hd : findDim name = .error e') :
    parseWith e tb name role = .error e' := by
  unfold parseWith nameParser
  simp only [hn, ha, hd, bind, Except.bind]

/-- Either one of the scans raised `ValueError`, or all three returned and the role branch decides. -/
theorem parseWith_cases (e : Err) (tb : Tables) (name : List Char) (role : Role) :
    parseWith e tb name role = .error .valueError ∨
    ∃ n a, findNumber name = .ok n ∧ findAlgorithm tb name = .ok a ∧ findDim name = .ok none ∧
      parseWith e tb name role
        = roleBranch e (tb.roleSet role) (tb.zero role) (tb.dflt role) (hasSub zeroKw name) n a := by
  rcases findNumber_total name with hn | ⟨n, hn⟩
  · exact Or.inl (parseWith_number_err hn)
  rcases findAlgorithm_total tb name with ha | ⟨a, ha⟩
  · exact Or.inl (parseWith_alg_err hn ha)
  have hd := findDim_eq name
  split at hd
  · exact Or.inr ⟨n, a, hn, ha, hd, parseWith_of_scans hn ha hd⟩
  · exact Or.inl (parseWith_dim_err hn ha hd)

/-! ### the role branch -/

/-- The decision table of one role branch (repaired code): every accepted outcome is `(zero, 1)` or an element of the
role's set (the scanned algorithm or the default) with `N ≥ 2`. -/
theorem roleBranch_spec {set : List Tok} {zero dflt : Tok} (zeroIn : Bool) (N : Option Nat) (algo : Option Tok)
    (hd : dflt ∈ set) :
    roleBranch .valueError set zero dflt zeroIn N algo = .error .valueError ∨
    roleBranch .valueError set zero dflt zeroIn N algo = .ok (zero, 1) ∨
    ∃ alg n, roleBranch .valueError set zero dflt zeroIn N algo = .ok (alg, n) ∧ 2 ≤ n ∧ alg ∈ set ∧ N = some n ∧
      zeroIn = false ∧ (algo = some alg ∨ (algo = none ∧ alg = dflt)) := by
  unfold roleBranch
  cases zeroIn <;> cases N <;> cases algo <;> simp
  all_goals (try (split <;> simp_all))
  all_goals (try (split <;> simp_all))
  all_goals (try (split <;> simp_all))
  all_goals (try omega)
  · right; exact ⟨_, _, ⟨rfl, rfl⟩, by omega, hd, rfl, rfl⟩
  · exact ⟨_, _, ⟨rfl, rfl⟩, by omega, by assumption, rfl, rfl⟩

/-- the role branch returns `N = 1` only if the scanned number, when there is one, is 1 -/
theorem roleBranch_ok_one {e : Err} {set : List Tok} {zero dflt alg : Tok} {zeroIn : Bool} {m : Nat} {a : Option Tok}
    (hp : roleBranch e set zero dflt zeroIn (some m) a = .ok (alg, 1)) : m = 1 := by
  by_cases hm : m = 1
  · exact hm
  · exfalso
    unfold roleBranch at hp
    cases zeroIn <;> cases a <;> simp [hm] at hp
    all_goals (repeat (split at hp)) <;> simp_all

/-! ### the side conditions on the tables, as propositions -/

/-- `tablesOk` unpacked (see the doc comment of `tablesOk`). -/
structure TablesOk (tb : Tables) : Prop where
  defO_mem : tb.defO ∈ tb.set3
  defB_mem : tb.defB ∈ tb.set4
  zero3_not3 : tb.zero3 ∉ tb.set3
  zero3_not4 : tb.zero3 ∉ tb.set4
  zero4_not3 : tb.zero4 ∉ tb.set3
  zero4_not4 : tb.zero4 ∉ tb.set4
  disjoint : ∀ a ∈ tb.set3, a ∉ tb.set4
  zero_ne : tb.zero3 ≠ tb.zero4
  tok : ∀ a ∈ tb.all, tokOk a = true
  zero3_kw : hasSub zeroKw tb.zero3 = true
  zero4_kw : hasSub zeroKw tb.zero4 = true
  set3_kw : ∀ a ∈ tb.set3, hasSub zeroKw a = false
  set4_kw : ∀ a ∈ tb.set4, hasSub zeroKw a = false

theorem tablesOk_iff (tb : Tables) : tablesOk tb = true ↔ TablesOk tb := by
  unfold tablesOk
  simp only [Bool.and_eq_true, List.all_eq_true, bne_iff_ne, ne_eq,
    Bool.not_eq_eq_eq_not, Bool.not_true, decide_eq_true_eq, decide_eq_false_iff_not, List.elem_eq_mem]
  constructor
  · rintro ⟨⟨⟨⟨⟨⟨⟨⟨⟨⟨⟨⟨h1, h2⟩, h3⟩, h4⟩, h5⟩, h6⟩, h7⟩, h8⟩, h9⟩, h10⟩, h11⟩, h12⟩, h13⟩
    exact ⟨h1, h2, h3, h4, h5, h6, h7, h8, h9, h10, h11, h12, h13⟩
  · intro h
    exact ⟨⟨⟨⟨⟨⟨⟨⟨⟨⟨⟨⟨h.1, h.2⟩, h.3⟩, h.4⟩, h.5⟩, h.6⟩, h.7⟩, h.8⟩, h.9⟩, h.10⟩, h.11⟩, h.12⟩, h.13⟩

theorem Tables.roleSet_sub_all (tb : Tables) (r : Role) {a : Tok} (ha : a ∈ tb.roleSet r) : a ∈ tb.all := by
  cases r <;> simp_all [Tables.all, Tables.roleSet]

theorem Tables.zero_mem_all (tb : Tables) (r : Role) : tb.zero r ∈ tb.all := by
  cases r <;> simp [Tables.all, Tables.zero]

namespace TablesOk
variable {tb : Tables} (h : TablesOk tb)
include h

theorem dflt_mem (r : Role) : tb.dflt r ∈ tb.roleSet r := by cases r; exact h.defO_mem; exact h.defB_mem

theorem zero_not_mem (r : Role) : tb.zero r ∉ tb.roleSet r := by cases r; exact h.zero3_not3; exact h.zero4_not4

/-- neither zero name lies in either role set -/
theorem zero_not_mem' (r r' : Role) : tb.zero r ∉ tb.roleSet r' := by
  cases r <;> cases r'
  · exact h.zero3_not3
  · exact h.zero3_not4
  · exact h.zero4_not3
  · exact h.zero4_not4

theorem zero_kw (r : Role) : hasSub zeroKw (tb.zero r) = true := by cases r; exact h.zero3_kw; exact h.zero4_kw

theorem set_kw (r : Role) {a : Tok} (ha : a ∈ tb.roleSet r) : hasSub zeroKw a = false := by
  cases r; exact h.set3_kw a ha; exact h.set4_kw a ha

theorem other_role {r r' : Role} (hr : r ≠ r') {a : Tok} (ha : a ∈ tb.roleSet r) : a ∉ tb.roleSet r' := by
  cases r <;> cases r'
  · exact absurd rfl hr
  · exact h.disjoint a ha
  · intro h3; exact h.disjoint a h3 ha
  · exact absurd rfl hr

end TablesOk

/-! ### accepted outcomes -/

/-- All the ways a name is accepted (repaired code, good tables): the zero algorithm with `N = 1`, or `N ≥ 2` read from
the name's only number, no `zero` substring, and the algorithm either the name's only algorithm token (which lies in
the role's set) or, in its absence, the role's default. -/
theorem parse_ok_cases {tb : Tables} (h : TablesOk tb) {name : List Char} {role : Role} {alg : Tok} {N : Nat}
    (hp : parse tb name role = .ok (alg, N)) :
    (alg = tb.zero role ∧ N = 1) ∨
    (2 ≤ N ∧ alg ∈ tb.roleSet role ∧ findNumber name = .ok (some N) ∧ hasSub zeroKw name = false ∧
      (findAlgorithm tb name = .ok (some alg) ∨ (findAlgorithm tb name = .ok none ∧ alg = tb.dflt role))) := by
  unfold parse at hp
  rcases parseWith_cases .valueError tb name role with he | ⟨n, a, hn, ha, _, hb⟩
  · rw [he] at hp; cases hp
  · rw [hb] at hp
    rcases roleBranch_spec (zero := tb.zero role) (hasSub zeroKw name) n a (h.dflt_mem role) with he | hz | ⟨alg', n', hk, h2, hmem, hN, hzi, halg⟩
    · rw [he] at hp; cases hp
    · rw [hz] at hp; cases hp; exact Or.inl ⟨rfl, rfl⟩
    · rw [hk] at hp; cases hp
      refine Or.inr ⟨h2, hmem, by rw [hn, hN], hzi, ?_⟩
      rcases halg with h1 | ⟨h1, h2⟩
      · exact Or.inl (by rw [ha, h1])
      · exact Or.inr ⟨by rw [ha, h1], h2⟩

/-! ### the scans on a standard name `alg_N` -/

theorem tokOk_iff (t : Tok) : tokOk t = true ↔ '_' ∉ t ∧ isNumeric t = false ∧ isDimTag t = false := by
  unfold tokOk
  simp [and_assoc]

/-- an all-digit token is no table entry -/
theorem numeric_not_mem_all {tb : Tables} (h : TablesOk tb) {t : Tok} (ht : isNumeric t = true) : t ∉ tb.all := by
  intro hm
  have := ((tokOk_iff t).1 (h.tok t hm)).2.1
  rw [ht] at this; cases this

theorem scans_stdName {tb : Tables} (h : TablesOk tb) {alg : Tok} (ha : alg ∈ tb.all) (n : Nat) :
    findNumber (stdName alg n) = .ok (some n) ∧ findAlgorithm tb (stdName alg n) = .ok (some alg) ∧
    findDim (stdName alg n) = .ok none ∧ hasSub zeroKw (stdName alg n) = hasSub zeroKw alg := by
  obtain ⟨hu, hnum, hdim⟩ := (tokOk_iff alg).1 (h.tok alg ha)
  have hsN := natStr_numeric n
  have hsplit : splitU (stdName alg n) = [alg, natStr n] := by
    unfold stdName
    rw [splitU_append _ hu, splitU_of_not_mem (not_mem_of_numeric hsN (by decide))]
  have hnall : (tb.all.contains (natStr n)) = false := by
    have := numeric_not_mem_all h hsN
    simpa using this
  have haall : (tb.all.contains alg) = true := by simpa using ha
  refine ⟨?_, ?_, ?_, ?_⟩
  · unfold findNumber
    rw [hsplit]
    simp [List.filter, hnum, hsN, pyInt_natStr, pick]
  · unfold findAlgorithm
    rw [hsplit]
    simp only [List.filter, haall, hnall, pick]
  · rw [findDim_eq, hsplit]
    simp [List.filter, hdim, numeric_not_dimTag hsN]
  · unfold stdName
    rw [hasSub_cut _ _ (by decide) (by decide), numeric_no_zeroKw hsN, Bool.or_false]

/-- every standard name of a role is a fixed point of the parser of that role -/
theorem parse_stdName {tb : Tables} (h : TablesOk tb) (role : Role) :
    parse tb (stdName (tb.zero role) 1) role = .ok (tb.zero role, 1) ∧
    ∀ alg ∈ tb.roleSet role, ∀ n, 2 ≤ n → parse tb (stdName alg n) role = .ok (alg, n) := by
  constructor
  · obtain ⟨h1, h2, h3, h4⟩ := scans_stdName h (tb.zero_mem_all role) 1
    unfold parse
    rw [parseWith_of_scans h1 h2 h3, h4, h.zero_kw role]
    simp [roleBranch]
  · intro alg ha n hn
    obtain ⟨h1, h2, h3, h4⟩ := scans_stdName h (tb.roleSet_sub_all role ha) n
    unfold parse
    rw [parseWith_of_scans h1 h2 h3, h4, h.set_kw role ha]
    have h1' : n ≠ 1 := by omega
    have h0 : ¬ n ≤ 0 := by omega
    simp [roleBranch, ha, h1', h0]

end Molgri.Naming
