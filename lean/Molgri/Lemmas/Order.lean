/-
Helper lemmas for C09 (row order of the full grid).  Property theorems are in `Molgri/Props/C09.lean`.
-/
import Molgri.Model.Order
import Mathlib.Data.List.Sort
import Mathlib.Algebra.Order.Field.Basic
import Mathlib.Tactic.FieldSimp
import Mathlib.Tactic.Linarith
import Mathlib.Tactic.Ring
import Mathlib.Algebra.Order.Field.Rat

namespace Molgri.Order

/-! ### indexing into a concatenation of equally long blocks -/

theorem getElem?_flatMap_const {α β} (f : α → List β) (k : Nat) (hk : 0 < k) :
    ∀ (l : List α) (n : Nat), (∀ x ∈ l, (f x).length = k) →
      (l.flatMap f)[n]? = (l[n / k]?).bind (fun x => (f x)[n % k]?) := by
  intro l
  induction l with
  | nil => intro n _; simp
  | cons x xs ih =>
    intro n h
    have hx : (f x).length = k := h x (by simp)
    have hxs : ∀ y ∈ xs, (f y).length = k := fun y hy => h y (by simp [hy])
    rw [List.flatMap_cons]
    by_cases hn : n < k
    · rw [List.getElem?_append_left (by omega), Nat.div_eq_of_lt hn, Nat.mod_eq_of_lt hn]
      simp
    · have hn' : k ≤ n := by omega
      rw [List.getElem?_append_right (by omega), hx, ih (n - k) hxs]
      have h1 : n / k = (n - k) / k + 1 := by
        rw [← Nat.add_div_right _ hk]; congr 1; omega
      have h2 : n % k = (n - k) % k := by
        rw [Nat.mod_eq_sub_mod hn']
      rw [h1, h2]; simp

theorem length_flatMap_const {α β} (f : α → List β) (k : Nat) :
    ∀ (l : List α), (∀ x ∈ l, (f x).length = k) → (l.flatMap f).length = l.length * k := by
  intro l
  induction l with
  | nil => intro _; simp
  | cons x xs ih =>
    intro h
    rw [List.flatMap_cons, List.length_append, h x (by simp), ih (fun y hy => h y (by simp [hy]))]
    simp [Nat.succ_mul]; omega

/-! ### tile, repeat -/

theorem tile_eq_flatMap {α} (l : List α) (k : Nat) : tile l k = (List.replicate k ()).flatMap (fun _ => l) := by
  unfold tile
  induction k with
  | zero => simp
  | succ k ih => simp [List.replicate_succ, ih]

theorem tile_succ {α} (l : List α) (k : Nat) : tile l (k + 1) = l ++ tile l k := by
  simp [tile, List.replicate_succ]

theorem length_tile {α} (l : List α) (k : Nat) : (tile l k).length = k * l.length := by
  rw [tile_eq_flatMap, length_flatMap_const _ l.length _ (fun _ _ => rfl)]; simp

theorem length_repeatEach {α} (l : List α) (k : Nat) : (repeatEach l k).length = l.length * k := by
  unfold repeatEach
  exact length_flatMap_const _ k l (fun _ _ => by simp)

theorem getElem?_tile {α} (l : List α) (k n : Nat) (hn : n < k * l.length) :
    (tile l k)[n]? = l[n % l.length]? := by
  have hl : 0 < l.length := by
    rcases Nat.eq_zero_or_pos l.length with h | h
    · rw [h] at hn; omega
    · exact h
  rw [tile_eq_flatMap, getElem?_flatMap_const _ l.length hl _ _ (fun _ _ => rfl)]
  have : n / l.length < k := by
    rw [Nat.div_lt_iff_lt_mul hl]; exact hn
  rw [List.getElem?_replicate, if_pos this]; simp

theorem getElem?_repeatEach {α} (l : List α) (k n : Nat) (hk : 0 < k) :
    (repeatEach l k)[n]? = l[n / k]? := by
  unfold repeatEach
  rw [getElem?_flatMap_const _ k hk _ _ (fun _ _ => by simp)]
  cases l[n / k]? with
  | none => rfl
  | some x => simp [Nat.mod_lt _ hk]

theorem repeatEach_cons {α} (x : α) (l : List α) (k : Nat) :
    repeatEach (x :: l) k = List.replicate k x ++ repeatEach l k := by
  simp [repeatEach]

theorem map_repeatEach {α β} (g : α → β) (l : List α) (k : Nat) :
    (repeatEach l k).map g = repeatEach (l.map g) k := by
  induction l with
  | nil => simp [repeatEach]
  | cons x xs ih => rw [repeatEach_cons, List.map_append, ih, List.map_cons, repeatEach_cons]; simp

/-! ### `_t_and_o_2_positions` -/

theorem zipWith_replicate_right' {α β γ} (f : α → β → γ) (l : List α) (b : β) :
    List.zipWith f l (List.replicate l.length b) = l.map (fun a => f a b) := by
  induction l with
  | nil => simp
  | cons x xs ih => simp [List.replicate_succ, ih]

/-- tile/repeat/multiply is the shell-major enumeration: for every radius, every direction scaled by it. -/
theorem positions_eq_flatMap {K} [Mul K] (dirs : List (List K)) (radii : List K) :
    positions dirs radii = radii.flatMap (fun r => dirs.map (fun d => d.map (· * r))) := by
  unfold positions
  induction radii with
  | nil => simp [tile, repeatEach]
  | cons r rs ih =>
    rw [List.length_cons, tile_succ, repeatEach_cons, List.zipWith_append (by simp), ih,
      zipWith_replicate_right', List.flatMap_cons]

theorem length_positions {K} [Mul K] (dirs : List (List K)) (radii : List K) :
    (positions dirs radii).length = radii.length * dirs.length := by
  rw [positions_eq_flatMap, length_flatMap_const _ dirs.length _ (fun _ _ => by simp)]

theorem getElem?_positions {K} [Mul K] (dirs : List (List K)) (radii : List K) (p : Nat) (hd : 0 < dirs.length) :
    (positions dirs radii)[p]? =
      (radii[p / dirs.length]?).bind (fun r => (dirs[p % dirs.length]?).map (fun d => d.map (· * r))) := by
  rw [positions_eq_flatMap, getElem?_flatMap_const _ dirs.length hd _ _ (fun _ _ => by simp)]
  simp

theorem positionsScalar_eq_flatMap {K} [Mul K] (o t : List K) :
    positionsScalar o t = t.flatMap (fun r => o.map (fun a => a * r)) := by
  unfold positionsScalar
  induction t with
  | nil => simp [tile, repeatEach]
  | cons r rs ih =>
    rw [List.length_cons, tile_succ, repeatEach_cons, List.zipWith_append (by simp), ih,
      zipWith_replicate_right', List.flatMap_cons]

theorem getElem?_positionsScalar {K} [Mul K] (o t : List K) (p : Nat) (ho : 0 < o.length) :
    (positionsScalar o t)[p]? = (t[p / o.length]?).bind (fun r => (o[p % o.length]?).map (fun a => a * r)) := by
  rw [positionsScalar_eq_flatMap, getElem?_flatMap_const _ o.length ho _ _ (fun _ _ => by simp)]
  simp

/-! ### the full array -/

theorem length_fullArray {K} (pos quats : List (List K)) :
    (fullArray pos quats).length = pos.length * quats.length := by
  unfold fullArray
  exact length_flatMap_const _ quats.length _ (fun _ _ => by simp)

theorem getElem?_fullArray {K} (pos quats : List (List K)) (n : Nat) (hq : 0 < quats.length) :
    (fullArray pos quats)[n]? =
      (pos[n / quats.length]?).bind (fun p => (quats[n % quats.length]?).map (fun q => p ++ q)) := by
  unfold fullArray
  rw [getElem?_flatMap_const _ quats.length hq _ _ (fun _ _ => by simp)]
  simp

/-! ### the loop of `get_full_grid_as_array` as written -/

theorem loop_flatten {K} (pos quats : List (List K)) (st : List (Option (List K)) × Nat) :
    pos.foldlM (fun st p => quats.foldlM (fun st q => writeRow st (p ++ q)) st) st
      = (fullArray pos quats).foldlM writeRow st := by
  induction pos generalizing st with
  | nil => simp [fullArray]
  | cons p ps ih =>
    simp only [fullArray, List.flatMap_cons, List.foldlM_cons, List.foldlM_append, List.foldlM_map] at ih ⊢
    congr 1
    funext st'
    exact ih st'

set_option linter.unnecessarySeqFocus false in
theorem writeAll_spec {K} (rows : List (List K)) :
    ∀ (done : List (List K)) (m : Nat),
      rows.foldlM writeRow ((done.map some ++ List.replicate m none : List (Option (List K))), done.length)
        = if rows.length ≤ m then
            .ok ((done ++ rows).map some ++ List.replicate (m - rows.length) none, done.length + rows.length)
          else .error "IndexError" := by
  induction rows with
  | nil => intro done m; simp; rfl
  | cons r rs ih =>
    intro done m
    rw [List.foldlM_cons]
    cases m with
    | zero =>
      simp [writeRow]
      rfl
    | succ m' =>
      have hw : writeRow ((done.map some ++ List.replicate (m' + 1) none : List (Option (List K))), done.length) r
          = .ok (((done ++ [r]).map some ++ List.replicate m' none : List (Option (List K))), (done ++ [r]).length) := by
        unfold writeRow
        simp [List.replicate_succ]
      rw [hw]
      show (rs.foldlM writeRow _) = _
      rw [ih (done ++ [r]) m']
      simp only [List.length_cons, List.length_append, List.length_nil, Nat.add_le_add_iff_right, List.append_assoc,
        List.cons_append, List.nil_append, Nat.add_sub_add_right]
      split <;> simp <;> omega

/-! ### integer index arrays -/

/-- numpy's reading of an integer index into an axis of length `n`: a negative index counts from the end. -/
def wrapIdx (n : Nat) (i : Int) : Nat := (if i < 0 then i + (n : Int) else i).toNat

/-- the index is acceptable for an axis of length `n` -/
def InRange (n : Nat) (i : Int) : Prop := -(n : Int) ≤ i ∧ i < (n : Int)

instance (n : Nat) (i : Int) : Decidable (InRange n i) := by unfold InRange; infer_instance

theorem wrapIdx_lt {n : Nat} {i : Int} (h : InRange n i) : wrapIdx n i < n := by
  unfold wrapIdx InRange at *; split <;> omega

theorem wrapIdx_ofNat (n k : Nat) : wrapIdx n (Int.ofNat k) = k := by
  unfold wrapIdx
  have : ¬ ((Int.ofNat k) < 0) := by simp
  rw [if_neg this]; rfl

theorem wrapIdx_natCast (n k : Nat) : wrapIdx n (k : Int) = k := wrapIdx_ofNat n k

theorem npGet_ok {α} (a : List α) (i : Int) (x : α) (h : InRange a.length i)
    (hx : a[wrapIdx a.length i]? = some x) : npGet a i = .ok x := by
  unfold npGet
  unfold wrapIdx at hx
  unfold InRange at h
  simp only
  rw [if_pos (by split <;> omega), hx]

theorem npGet_err {α} (a : List α) (i : Int) (h : ¬ InRange a.length i) : npGet a i = .error "IndexError" := by
  unfold npGet
  unfold InRange at h
  simp only
  rw [if_neg (by split <;> omega)]

theorem npTake_ok {α} (a : List α) (f : Int → α) (idx : List Int) (h : ∀ i ∈ idx, npGet a i = .ok (f i)) :
    npTake a idx = .ok (idx.map f) := by
  unfold npTake
  induction idx with
  | nil => rfl
  | cons i is ih =>
    rw [List.mapM_cons, h i (by simp), ih (fun j hj => h j (by simp [hj]))]
    rfl

theorem npTake_err {α} (a : List α) (idx : List Int) (h : ∃ i ∈ idx, ¬ InRange a.length i) :
    npTake a idx = .error "IndexError" := by
  unfold npTake
  induction idx with
  | nil => simp at h
  | cons i is ih =>
    rw [List.mapM_cons]
    by_cases hi : InRange a.length i
    · have : ∃ j ∈ is, ¬ InRange a.length j := by
        obtain ⟨j, hj, hj'⟩ := h
        rcases List.mem_cons.mp hj with rfl | hj
        · exact absurd hi hj'
        · exact ⟨j, hj, hj'⟩
      have hlt := wrapIdx_lt hi
      rw [ih this, npGet_ok a i a[wrapIdx a.length i] hi (List.getElem?_eq_getElem hlt)]
      rfl
    · rw [npGet_err a i hi]; rfl

/-! ### sorting the indices returned by `np.unique` gives the first occurrences in ascending order -/

theorem pairwise_lt_firstOcc {κ} [DecidableEq κ] (keys : List κ) : (firstOcc keys).Pairwise (· < ·) := by
  unfold firstOcc
  exact List.Pairwise.sublist List.filter_sublist List.pairwise_lt_range

/-- Whatever order `np.unique` lists the rows in (`le`), sorting its index output restores the ascending
first-occurrence indices. -/
theorem sortNat_npUniqueIdx {κ} [DecidableEq κ] (le : κ → κ → Bool) (keys : List κ) :
    sortNat (npUniqueIdx le keys) = firstOcc keys := by
  unfold sortNat npUniqueIdx
  generalize hcmp : (fun (i j : Nat) =>
    match keys[i]?, keys[j]? with
    | some a, some b => le a b
    | _, _ => true) = cmp
  have hperm : (((firstOcc keys).mergeSort cmp).mergeSort (fun a b => decide (a ≤ b))).Perm (firstOcc keys) :=
    (List.mergeSort_perm ((firstOcc keys).mergeSort cmp) (fun a b => decide (a ≤ b))).trans
      (List.mergeSort_perm (firstOcc keys) cmp)
  refine List.Perm.eq_of_pairwise (le := fun a b => a ≤ b) (fun _ _ _ _ h1 h2 => Nat.le_antisymm h1 h2) ?_ ?_ hperm
  · have := List.pairwise_mergeSort (le := fun (a b : Nat) => decide (a ≤ b))
      (fun a b c h1 h2 => by simp at *; omega) (fun a b => by simp; omega)
      ((firstOcc keys).mergeSort cmp)
    simpa using this
  · exact (pairwise_lt_firstOcc keys).imp (fun h => Nat.le_of_lt h)

/-! ### the index formulation of the de-duplication equals the obvious recursive one -/

/-- keep an element iff its key has not been seen; `seen` = keys of everything before. -/
def dedupRec {α κ} [DecidableEq κ] (key : α → κ) : List κ → List α → List α
  | _, [] => []
  | seen, x :: xs =>
    if key x ∈ seen then dedupRec key (seen ++ [key x]) xs else x :: dedupRec key (seen ++ [key x]) xs

theorem dedupRec_cons {α κ} [DecidableEq κ] (key : α → κ) (seen : List κ) (x : α) (xs : List α) :
    dedupRec key seen (x :: xs) =
      if key x ∈ seen then dedupRec key (seen ++ [key x]) xs else x :: dedupRec key (seen ++ [key x]) xs := rfl

theorem firstOcc_aux {α κ} [DecidableEq κ] (key : α → κ) (l : List α) :
    ∀ pre : List α,
      ((List.range' pre.length l.length).filter (isFirst ((pre ++ l).map key))).filterMap ((pre ++ l)[·]?)
        = dedupRec key (pre.map key) l := by
  induction l with
  | nil => intro pre; simp [dedupRec]
  | cons x xs ih =>
    intro pre
    have hfirst : isFirst ((pre ++ x :: xs).map key) pre.length = !((pre.map key).contains (key x)) := by
      unfold isFirst
      simp
    have hrest := ih (pre ++ [x])
    simp only [List.append_assoc, List.cons_append, List.nil_append, List.length_append, List.length_cons,
      List.length_nil, Nat.zero_add, List.map_append, List.map_cons, List.map_nil] at hrest
    rw [List.length_cons, List.range'_succ, List.filter_cons, hfirst]
    unfold dedupRec
    by_cases hm : key x ∈ pre.map key
    · have : (pre.map key).contains (key x) = true := by simpa using hm
      rw [this, if_pos hm]
      simp only [Bool.not_true, Bool.false_eq_true, if_false]
      rw [← hrest]; simp
    · have : (pre.map key).contains (key x) = false := by simpa using hm
      rw [this, if_neg hm]
      simp only [Bool.not_false, if_true, List.filterMap_cons]
      have hx : (pre ++ x :: xs)[pre.length]? = some x := by simp
      rw [hx, ← hrest]; simp

theorem dedupKeepFirst_eq_rec {α κ} [DecidableEq κ] (le : κ → κ → Bool) (key : α → κ) (l : List α) :
    dedupKeepFirst le key l = dedupRec key [] l := by
  unfold dedupKeepFirst takeRows
  rw [sortNat_npUniqueIdx]
  have := firstOcc_aux key l []
  simpa [firstOcc, List.range_eq_range'] using this

/-! ### properties of the recursive de-duplication -/

theorem dedupRec_congr {α κ} [DecidableEq κ] (key : α → κ) (l : List α) :
    ∀ s1 s2 : List κ, (∀ k, k ∈ s1 ↔ k ∈ s2) → dedupRec key s1 l = dedupRec key s2 l := by
  induction l with
  | nil => intros; rfl
  | cons x xs ih =>
    intro s1 s2 h
    unfold dedupRec
    have h' : ∀ k, k ∈ s1 ++ [key x] ↔ k ∈ s2 ++ [key x] := by
      intro k; simp [h k]
    rw [ih _ _ h']
    by_cases hm : key x ∈ s1
    · rw [if_pos hm, if_pos ((h _).mp hm)]
    · rw [if_neg hm, if_neg (fun hc => hm ((h _).mpr hc))]

theorem dedupRec_replicate {α κ} [DecidableEq κ] (key : α → κ) (x : α) (rest : List α) :
    ∀ (j : Nat) (seen : List κ), key x ∈ seen →
      dedupRec key seen (List.replicate j x ++ rest) = dedupRec key seen rest := by
  intro j
  induction j with
  | zero => intro seen _; simp
  | succ j ih =>
    intro seen h
    rw [List.replicate_succ, List.cons_append, dedupRec_cons]
    rw [if_pos h, ih _ (by simp [h])]
    exact dedupRec_congr key rest _ _ (by intro k; simp; intro hk; rw [hk]; exact h)

/-- repeating every row changes nothing -/
theorem dedupRec_repeatEach {α κ} [DecidableEq κ] (key : α → κ) (k : Nat) (hk : 0 < k) (l : List α) :
    ∀ seen : List κ, dedupRec key seen (repeatEach l k) = dedupRec key seen l := by
  obtain ⟨k', rfl⟩ : ∃ k', k = k' + 1 := ⟨k - 1, by omega⟩
  induction l with
  | nil => intro seen; simp [repeatEach]
  | cons x xs ih =>
    intro seen
    rw [repeatEach_cons, List.replicate_succ, List.cons_append, dedupRec_cons, dedupRec_cons]
    rw [dedupRec_replicate key x _ k' _ (by simp), ih]

theorem dedupRec_append {α κ} [DecidableEq κ] (key : α → κ) (l m : List α) :
    ∀ seen : List κ, dedupRec key seen (l ++ m) = dedupRec key seen l ++ dedupRec key (seen ++ l.map key) m := by
  induction l with
  | nil => intro seen; simp [dedupRec]
  | cons x xs ih =>
    intro seen
    rw [List.cons_append, dedupRec_cons, dedupRec_cons, ih]
    split <;> simp

theorem dedupRec_all_seen {α κ} [DecidableEq κ] (key : α → κ) (m : List α) :
    ∀ seen : List κ, (∀ y ∈ m, key y ∈ seen) → dedupRec key seen m = [] := by
  induction m with
  | nil => intros; rfl
  | cons y ys ih =>
    intro seen h
    unfold dedupRec
    rw [if_pos (h y (by simp))]
    exact ih _ (fun z hz => by simp [h z (by simp [hz])])

theorem dedupRec_nodup {α κ} [DecidableEq κ] (key : α → κ) (l : List α) :
    ∀ seen : List κ, (l.map key).Nodup → (∀ x ∈ l, key x ∉ seen) → dedupRec key seen l = l := by
  induction l with
  | nil => intros; rfl
  | cons x xs ih =>
    intro seen hnd hs
    unfold dedupRec
    rw [List.map_cons, List.nodup_cons] at hnd
    rw [if_neg (hs x (by simp)), ih _ hnd.2]
    intro y hy
    simp only [List.mem_append, List.mem_singleton, not_or]
    refine ⟨hs y (by simp [hy]), ?_⟩
    intro hc
    exact hnd.1 (hc ▸ List.mem_map_of_mem hy)

theorem mem_tile {α} {l : List α} {k : Nat} {y : α} (h : y ∈ tile l k) : y ∈ l := by
  unfold tile at h
  simp only [List.mem_flatten, List.mem_replicate] at h
  obtain ⟨l', ⟨_, rfl⟩, hy⟩ := h
  exact hy

theorem mem_repeatEach {α} {l : List α} {k : Nat} {y : α} (h : y ∈ repeatEach l k) : y ∈ l := by
  unfold repeatEach at h
  simp only [List.mem_flatMap, List.mem_replicate] at h
  obtain ⟨x, hx, _, rfl⟩ := h
  exact hx

/-- `dedupKeepFirst (tile l k) = l` -/
theorem dedup_tile {α κ} [DecidableEq κ] (le : κ → κ → Bool) (key : α → κ) (l : List α) (k : Nat) (hk : 0 < k)
    (hnd : (l.map key).Nodup) : dedupKeepFirst le key (tile l k) = l := by
  obtain ⟨k', rfl⟩ : ∃ k', k = k' + 1 := ⟨k - 1, by omega⟩
  rw [dedupKeepFirst_eq_rec, tile_succ, dedupRec_append, dedupRec_nodup key l [] hnd (by simp),
    dedupRec_all_seen]
  · simp
  · intro y hy
    simpa using List.mem_map_of_mem (mem_tile hy)

/-- `dedupKeepFirst (repeatEach l k) = dedupKeepFirst l` -/
theorem dedup_repeatEach {α κ} [DecidableEq κ] (le : κ → κ → Bool) (key : α → κ) (l : List α) (k : Nat) (hk : 0 < k) :
    dedupKeepFirst le key (repeatEach l k) = dedupKeepFirst le key l := by
  rw [dedupKeepFirst_eq_rec, dedupKeepFirst_eq_rec, dedupRec_repeatEach key k hk]

/-! ### general specification of the order-preserving de-duplication (all inputs) -/

theorem dedupRec_sublist {α κ} [DecidableEq κ] (key : α → κ) (l : List α) :
    ∀ seen : List κ, (dedupRec key seen l).Sublist l := by
  induction l with
  | nil => intro _; simp [dedupRec]
  | cons x xs ih =>
    intro seen
    unfold dedupRec
    split
    · exact (ih _).trans (List.sublist_cons_self x xs)
    · exact (ih _).cons_cons x

theorem dedupRec_keys {α κ} [DecidableEq κ] (key : α → κ) (l : List α) :
    ∀ seen : List κ, ((dedupRec key seen l).map key).Nodup ∧
      (∀ x ∈ dedupRec key seen l, key x ∉ seen) ∧
      (∀ x ∈ l, key x ∈ seen ∨ key x ∈ (dedupRec key seen l).map key) := by
  induction l with
  | nil => intro _; simp [dedupRec]
  | cons x xs ih =>
    intro seen
    obtain ⟨h1, h2, h3⟩ := ih (seen ++ [key x])
    unfold dedupRec
    by_cases hm : key x ∈ seen
    · rw [if_pos hm]
      refine ⟨h1, fun y hy hc => h2 y hy (by simp [hc]), ?_⟩
      intro y hy
      rcases List.mem_cons.mp hy with rfl | hy
      · exact Or.inl hm
      · rcases h3 y hy with h | h
        · rcases List.mem_append.mp h with h | h
          · exact Or.inl h
          · left; rw [List.mem_singleton.mp h]; exact hm
        · exact Or.inr h
    · rw [if_neg hm]
      refine ⟨?_, ?_, ?_⟩
      · rw [List.map_cons, List.nodup_cons]
        refine ⟨?_, h1⟩
        intro hc
        obtain ⟨y, hy, hk⟩ := List.mem_map.mp hc
        exact h2 y hy (by simp [hk])
      · intro y hy
        rcases List.mem_cons.mp hy with rfl | hy
        · exact hm
        · exact fun hc => h2 y hy (by simp [hc])
      · intro y hy
        rcases List.mem_cons.mp hy with rfl | hy
        · right; simp
        · rcases h3 y hy with h | h
          · rcases List.mem_append.mp h with h | h
            · exact Or.inl h
            · right; rw [List.mem_singleton.mp h]; simp
          · right; simp [h]

/-! ### `np.unique` of a 1-D array -/

theorem repeatEach_replicate {α} (x : α) (a b : Nat) :
    repeatEach (List.replicate a x) b = List.replicate (a * b) x := by
  induction a with
  | zero => simp [repeatEach]
  | succ a ih =>
    rw [List.replicate_succ, repeatEach_cons, ih, Nat.succ_mul, Nat.add_comm, List.replicate_add]

theorem repeatEach_append {α} (l m : List α) (k : Nat) :
    repeatEach (l ++ m) k = repeatEach l k ++ repeatEach m k := by
  simp [repeatEach]

theorem repeatEach_repeatEach {α} (l : List α) (a b : Nat) :
    repeatEach (repeatEach l a) b = repeatEach l (a * b) := by
  induction l with
  | nil => simp [repeatEach]
  | cons x xs ih => rw [repeatEach_cons, repeatEach_append, repeatEach_replicate, ih, repeatEach_cons]

theorem squeezeAux_replicate {α} [DecidableEq α] (x : α) (rest : List α) (j : Nat) :
    squeezeAux x (List.replicate j x ++ rest) = squeezeAux x rest := by
  induction j with
  | zero => simp
  | succ j ih => rw [List.replicate_succ, List.cons_append, squeezeAux, if_pos rfl, ih]

theorem squeezeAux_repeatEach {α} [DecidableEq α] (k : Nat) (l : List α) :
    ∀ x : α, (x :: l).Pairwise (· ≠ ·) → squeezeAux x (repeatEach l (k + 1)) = l := by
  induction l with
  | nil => intro x _; simp [repeatEach, squeezeAux]
  | cons y ys ih =>
    intro x h
    rw [List.pairwise_cons] at h
    have hxy : y ≠ x := fun hc => h.1 y (by simp) hc.symm
    rw [repeatEach_cons, List.replicate_succ, List.cons_append, squeezeAux, if_neg hxy, squeezeAux_replicate,
      ih y h.2]

theorem squeeze_repeatEach {α} [DecidableEq α] (k : Nat) (hk : 0 < k) (l : List α) (h : l.Pairwise (· ≠ ·)) :
    squeeze (repeatEach l k) = l := by
  obtain ⟨k', rfl⟩ : ∃ k', k = k' + 1 := ⟨k - 1, by omega⟩
  cases l with
  | nil => simp [repeatEach, squeeze]
  | cons x xs =>
    rw [repeatEach_cons, List.replicate_succ, List.cons_append, squeeze, squeezeAux_replicate,
      squeezeAux_repeatEach k' xs x h]

theorem pairwise_le_repeatEach {K} [LinearOrder K] (l : List K) (k : Nat) (h : l.Pairwise (· < ·)) :
    (repeatEach l k).Pairwise (· ≤ ·) := by
  induction l with
  | nil => simp [repeatEach]
  | cons x xs ih =>
    rw [List.pairwise_cons] at h
    rw [repeatEach_cons, List.pairwise_append]
    refine ⟨?_, ih h.2, ?_⟩
    · rw [List.pairwise_replicate]; right; exact le_refl x
    · intro a ha b hb
      rw [List.mem_replicate] at ha
      rw [ha.2]
      exact le_of_lt (h.1 b (mem_repeatEach hb))

/-- every value `k ≥ 1` times, values strictly increasing: `np.unique` returns the values. -/
theorem npUnique1_repeatEach {K} [LinearOrder K] (l : List K) (k : Nat) (hk : 0 < k) (h : l.Pairwise (· < ·)) :
    npUnique1 (repeatEach l k) = l := by
  unfold npUnique1 sortK
  have hs : (repeatEach l k).Pairwise (fun a b => decide (a ≤ b) = true) := by
    simpa using pairwise_le_repeatEach l k h
  rw [List.mergeSort_of_pairwise hs]
  exact squeeze_repeatEach k hk l (h.imp (fun h => ne_of_lt h))

/-- the sort in `TranslationParser`: the result is ascending and a permutation of the input -/
theorem sortK_sorted {K} [LinearOrder K] (l : List K) : (sortK l).Pairwise (· ≤ ·) := by
  unfold sortK
  have := List.pairwise_mergeSort (le := fun (a b : K) => decide (a ≤ b))
    (fun a b c h1 h2 => by simp at *; exact le_trans h1 h2) (fun a b => by simp; exact le_total a b) l
  simpa using this

theorem sortK_perm {K} [LE K] [DecidableLE K] (l : List K) : (sortK l).Perm l := List.mergeSort_perm _ _

theorem sortK_of_sorted {K} [LinearOrder K] (l : List K) (h : l.Pairwise (· ≤ ·)) : sortK l = l := by
  unfold sortK
  exact List.mergeSort_of_pairwise (by simpa using h)

theorem sortK_eq_of_perm_sorted {K} [LinearOrder K] (l s : List K) (hp : l.Perm s) (hs : s.Pairwise (· ≤ ·)) :
    sortK l = s :=
  List.Perm.eq_of_pairwise (le := fun a b => a ≤ b) (fun _ _ _ _ h1 h2 => le_antisymm h1 h2)
    (sortK_sorted l) hs ((sortK_perm l).trans hp)

/-! ### structure of the columns of the full array -/

theorem map_take_fullArray {K} (pos quats : List (List K)) (m : Nat) (hp : ∀ p ∈ pos, p.length = m) :
    (fullArray pos quats).map (·.take m) = repeatEach pos quats.length := by
  unfold fullArray repeatEach
  rw [List.map_flatMap]
  apply List.flatMap_congr
  intro p hp'
  rw [List.map_map]
  have : ∀ q : List K, ((fun r => List.take m r) ∘ (fun q => p ++ q)) q = p := by
    intro q; simp [hp p hp']
  rw [List.map_congr_left (fun q _ => this q)]
  simp

theorem map_drop_fullArray {K} (pos quats : List (List K)) (m : Nat) (hp : ∀ p ∈ pos, p.length = m) :
    (fullArray pos quats).map (·.drop m) = tile quats pos.length := by
  unfold fullArray
  rw [tile_eq_flatMap, List.map_flatMap]
  induction pos with
  | nil => simp
  | cons p ps ih =>
    rw [List.flatMap_cons, List.length_cons, List.replicate_succ, List.flatMap_cons,
      ih (fun q hq => hp q (by simp [hq]))]
    congr 1
    rw [List.map_map]
    have : ∀ q : List K, ((fun r => List.drop m r) ∘ (fun q => p ++ q)) q = q := by
      intro q; simp [hp p (by simp)]
    rw [List.map_congr_left (fun q _ => this q)]
    simp

theorem length_of_mem_positions {K} [Mul K] (dirs : List (List K)) (radii : List K) (m : Nat)
    (hd : ∀ d ∈ dirs, d.length = m) : ∀ p ∈ positions dirs radii, p.length = m := by
  intro p hp
  rw [positions_eq_flatMap] at hp
  simp only [List.mem_flatMap, List.mem_map] at hp
  obtain ⟨r, _, d, hd', rfl⟩ := hp
  simp [hd d hd']

theorem flatMap_const_eq_tile {α β} (l : List β) (m : List α) : l.flatMap (fun _ => m) = tile m l.length := by
  induction l with
  | nil => simp [tile]
  | cons x xs ih => rw [List.flatMap_cons, ih, List.length_cons, tile_succ]

/-! ### Euclidean norm of a scaled unit vector -/

/-- sum of squares of a row -/
def sumsq {K} [Mul K] [Add K] [OfNat K 0] (v : List K) : K := (v.map (fun x => x * x)).sum

theorem sumsq_scale {K} [Field K] (d : List K) (r : K) : sumsq (d.map (· * r)) = r * r * sumsq d := by
  unfold sumsq
  induction d with
  | nil => simp
  | cons x xs ih =>
    simp only [List.map_cons, List.sum_cons] at ih ⊢
    rw [ih]; ring

theorem norm_scaled_unit {K} [Field K] [LinearOrder K] [IsStrictOrderedRing K] (norm : List K → K)
    (d : List K) (r : K) (hr : 0 < r) (hu : sumsq d = 1)
    (hn : 0 ≤ norm (d.map (· * r)) ∧ norm (d.map (· * r)) * norm (d.map (· * r)) = sumsq (d.map (· * r))) :
    norm (d.map (· * r)) = r := by
  obtain ⟨h0, h1⟩ := hn
  rw [sumsq_scale, hu, mul_one] at h1
  rcases mul_self_eq_mul_self_iff.mp h1 with h | h
  · exact h
  · linarith

theorem normalise_scaled {K} [Field K] (d : List K) (r : K) (hr : r ≠ 0) :
    normaliseRow r (d.map (· * r)) = d := by
  unfold normaliseRow
  rw [List.map_map]
  conv => rhs; rw [← List.map_id d]
  apply List.map_congr_left
  intro x _
  simp [hr]

/-! ### `np.round(·, 8)` at `Rat` -/

theorem roundHalfEven_err (q : Rat) : |((roundHalfEven q : Int) : Rat) - q| ≤ 1/2 := by
  have h1 := Rat.floor_le q
  have h2 := Rat.lt_floor_add_one q
  rw [abs_le]
  unfold roundHalfEven
  simp only
  push_cast at h2 ⊢
  split
  · constructor <;> linarith
  · split
    · constructor <;> linarith
    · split
      · constructor <;> linarith
      · constructor <;> linarith

theorem round8_err (x : Rat) : |round8 x - x| ≤ 1/200000000 := by
  have h := roundHalfEven_err (x * 100000000)
  rw [abs_le] at h ⊢
  unfold round8
  obtain ⟨ha, hb⟩ := h
  constructor
  · rw [le_sub_iff_add_le, le_div_iff₀ (by norm_num)]; linarith
  · rw [sub_le_iff_le_add, div_le_iff₀ (by norm_num)]; linarith

theorem round8_separates (x y : Rat) (h : x + 1/100000000 < y) : round8 x < round8 y := by
  have hx := (abs_le.mp (round8_err x)).2
  have hy := (abs_le.mp (round8_err y)).1
  linarith

end Molgri.Order
