/-
List-level helper lemmas for C14 (model `Molgri/Model/Pipeline.lean`).
Property theorems are in `Molgri/Props/C14.lean`.
-/
import Molgri.Model.Pipeline
import Mathlib.Algebra.BigOperators.Group.Finset.Basic
import Mathlib.Algebra.BigOperators.Ring.Finset
import Mathlib.Algebra.Order.BigOperators.Group.Finset
import Mathlib.Algebra.Order.Field.Basic
import Mathlib.Data.List.Nodup
import Mathlib.Data.List.ProdSigma
import Mathlib.Tactic.Ring
import Mathlib.Tactic.Linarith
import Mathlib.Tactic.FieldSimp

namespace Molgri.Pipeline

/-! ### index arithmetic `n_b * i + k` -/

theorem decomp_iff {nB i k a : Nat} (hk : k < nB) : nB * i + k = a ↔ i = a / nB ∧ k = a % nB := by
  constructor
  · intro h
    subst h
    have hpos : 0 < nB := by omega
    refine ⟨?_, ?_⟩
    · rw [Nat.mul_add_div hpos, Nat.div_eq_of_lt hk, Nat.add_zero]
    · rw [Nat.mul_add_mod, Nat.mod_eq_of_lt hk]
  · rintro ⟨rfl, rfl⟩
    exact Nat.div_add_mod a nB

theorem div_lt_of_lt_mul {a nP nB : Nat} (h : a < nP * nB) : a / nB < nP := by
  rw [Nat.mul_comm] at h
  exact Nat.div_lt_of_lt_mul h

/-! ### all index pairs -/

theorem pairs_eq_product (n : Nat) : pairs n = (List.range n) ×ˢ (List.range n) := rfl

theorem mem_pairs {n a b : Nat} : (a, b) ∈ pairs n ↔ a < n ∧ b < n := by
  rw [pairs_eq_product, List.mem_product, List.mem_range, List.mem_range]

theorem nodup_pairs (n : Nat) : (pairs n).Nodup := by
  rw [pairs_eq_product]
  exact List.Nodup.product List.nodup_range List.nodup_range

section field
variable {K : Type} [Field K]

/-! ### dense view, row sums -/

theorem list_sum_range (n : Nat) (f : Nat → K) : ((List.range n).map f).sum = ∑ k ∈ Finset.range n, f k := by
  induction n with
  | zero => simp
  | succ n ih => rw [List.range_succ, List.map_append, List.sum_append, ih, Finset.sum_range_succ]; simp

@[simp] theorem dense_nil (i j : Nat) : dense ([] : Mat K) i j = 0 := rfl

theorem dense_cons (e : Ent K) (m : Mat K) (i j : Nat) :
    dense (e :: m) i j = (if e.row = i ∧ e.col = j then e.val else 0) + dense m i j := by
  unfold dense colSum rowOf
  by_cases h1 : e.row = i
  · by_cases h2 : e.col = j
    · simp [h1, h2]
    · simp [h1, h2]
  · simp [h1]

theorem dense_append (m₁ m₂ : Mat K) (i j : Nat) : dense (m₁ ++ m₂) i j = dense m₁ i j + dense m₂ i j := by
  induction m₁ with
  | nil => simp
  | cons e m ih => rw [List.cons_append, dense_cons, dense_cons, ih, add_assoc]

theorem dense_flatMap {α : Type} (l : List α) (f : α → Mat K) (i j : Nat) :
    dense (l.flatMap f) i j = (l.map fun x => dense (f x) i j).sum := by
  induction l with
  | nil => simp
  | cons x l ih => rw [List.flatMap_cons, dense_append, ih, List.map_cons, List.sum_cons]

theorem dense_map {α : Type} (l : List α) (f : α → Ent K) (i j : Nat) :
    dense (l.map f) i j = (l.map fun x => if (f x).row = i ∧ (f x).col = j then (f x).val else 0).sum := by
  induction l with
  | nil => simp
  | cons x l ih => rw [List.map_cons, dense_cons, ih, List.map_cons, List.sum_cons]

theorem dense_eq_zero_of_not_mem {m : Mat K} {i j : Nat} (h : (i, j) ∉ idx m) : dense m i j = 0 := by
  induction m with
  | nil => rfl
  | cons e m ih =>
    rw [dense_cons]
    have h1 : ¬ (e.row = i ∧ e.col = j) := by
      rintro ⟨rfl, rfl⟩
      exact h (by simp [idx, ix])
    have h2 : (i, j) ∉ idx m := fun hm => h (by simp only [idx, List.map_cons, List.mem_cons]; exact Or.inr hm)
    rw [if_neg h1, ih h2, add_zero]

theorem dense_eq_of_mem_nodup {m : Mat K} (hnd : (idx m).Nodup) {e : Ent K} (he : e ∈ m) :
    dense m e.row e.col = e.val := by
  induction m with
  | nil => simp at he
  | cons a m ih =>
    simp only [idx, List.map_cons, List.nodup_cons] at hnd
    rw [dense_cons]
    rcases List.mem_cons.mp he with rfl | hm
    · rw [if_pos ⟨rfl, rfl⟩, dense_eq_zero_of_not_mem hnd.1, add_zero]
    · have hne : ¬ (a.row = e.row ∧ a.col = e.col) := by
        rintro ⟨h1, h2⟩
        apply hnd.1
        have : ix a = ix e := by simp [ix, h1, h2]
        rw [this]
        exact List.mem_map.mpr ⟨e, hm, rfl⟩
      rw [if_neg hne, zero_add]
      exact ih hnd.2 hm

theorem rowSum_cons (e : Ent K) (m : Mat K) (i : Nat) :
    rowSum (e :: m) i = (if e.row = i then e.val else 0) + rowSum m i := by
  unfold rowSum rowOf
  by_cases h : e.row = i
  · simp [h]
  · simp [h]

/-- a row sum is the sum of the dense entries of that row when all stored columns are `< n` -/
theorem rowSum_eq_sum_dense (m : Mat K) (n i : Nat) (hc : ∀ e ∈ m, e.col < n) :
    rowSum m i = ∑ j ∈ Finset.range n, dense m i j := by
  induction m with
  | nil => simp [rowSum, rowOf]
  | cons e m ih =>
    have hcl : ∀ x ∈ m, x.col < n := fun x hx => hc x (List.mem_cons_of_mem _ hx)
    have he : e.col < n := hc e List.mem_cons_self
    rw [rowSum_cons, ih hcl]
    simp only [dense_cons, Finset.sum_add_distrib]
    congr 1
    by_cases hr : e.row = i
    · simp [hr, he]
    · simp [hr]

/-! ### canonical scan = the layout of every `A + B` result -/

section scan
variable [DecidableEq K]

/-- row-major scan of a dense function keeping the non-zero cells -/
def scan (n : Nat) (g : Nat → Nat → K) : Mat K :=
  (pairs n).filterMap fun p => if g p.1 p.2 == 0 then none else some ⟨p.1, p.2, g p.1 p.2⟩

theorem addCsr_eq_scan (n : Nat) (A B : Mat K) :
    addCsr n A B = scan n (fun r c => dense A r c + dense B r c) := by
  unfold addCsr scan pairs
  rw [List.filterMap_flatMap]
  congr 1
  funext r
  rw [List.filterMap_map]
  rfl

theorem idx_scan (n : Nat) (g : Nat → Nat → K) :
    idx (scan n g) = (pairs n).filter fun p => g p.1 p.2 != 0 := by
  unfold idx scan
  rw [List.map_filterMap, ← List.filterMap_eq_filter]
  congr 1
  funext p
  by_cases h : g p.1 p.2 = 0
  · simp [h, Option.guard]
  · simp [h, ix, Option.guard]

theorem nodup_idx_scan (n : Nat) (g : Nat → Nat → K) : (idx (scan n g)).Nodup := by
  rw [idx_scan]
  exact (nodup_pairs n).filter _

theorem mem_idx_scan {n : Nat} {g : Nat → Nat → K} {a b : Nat} :
    (a, b) ∈ idx (scan n g) ↔ a < n ∧ b < n ∧ g a b ≠ 0 := by
  rw [idx_scan, List.mem_filter, mem_pairs]
  simp [and_assoc]

theorem mem_scan {n : Nat} {g : Nat → Nat → K} {e : Ent K} :
    e ∈ scan n g ↔ e.row < n ∧ e.col < n ∧ g e.row e.col ≠ 0 ∧ e.val = g e.row e.col := by
  unfold scan
  rw [List.mem_filterMap]
  constructor
  · rintro ⟨⟨a, b⟩, hp, h⟩
    rw [mem_pairs] at hp
    by_cases hz : g a b = 0
    · simp [hz] at h
    · simp only [beq_iff_eq, hz, if_false, Option.some.injEq] at h
      subst h
      exact ⟨hp.1, hp.2, hz, rfl⟩
  · rintro ⟨h1, h2, h3, h4⟩
    refine ⟨(e.row, e.col), mem_pairs.mpr ⟨h1, h2⟩, ?_⟩
    simp only [beq_iff_eq, h3, if_false, Option.some.injEq]
    cases e
    simp_all

theorem dense_scan (n : Nat) (g : Nat → Nat → K) (i j : Nat) :
    dense (scan n g) i j = if i < n ∧ j < n then g i j else 0 := by
  by_cases h : i < n ∧ j < n ∧ g i j ≠ 0
  · obtain ⟨h1, h2, h3⟩ := h
    have hm : (⟨i, j, g i j⟩ : Ent K) ∈ scan n g := mem_scan.mpr ⟨h1, h2, h3, rfl⟩
    have := dense_eq_of_mem_nodup (nodup_idx_scan n g) hm
    simp only at this
    rw [this, if_pos ⟨h1, h2⟩]
  · have hn : (i, j) ∉ idx (scan n g) := fun hm => h (mem_idx_scan.mp hm)
    rw [dense_eq_zero_of_not_mem hn]
    by_cases h12 : i < n ∧ j < n
    · rw [if_pos h12]
      by_contra hc
      exact h ⟨h12.1, h12.2, fun h0 => hc h0.symm⟩
    · rw [if_neg h12]

/-- all stored columns of a scan are inside the matrix -/
theorem scan_cols {n : Nat} {g : Nat → Nat → K} : ∀ e ∈ scan n g, e.col < n :=
  fun _ he => (mem_scan.mp he).2.1

end scan


/-! ### `_get_N_N`: dense view of the two summands -/

theorem sum_range_single (n c : Nat) (F : Nat → K) (h : ∀ k < n, k ≠ c → F k = 0) :
    ∑ k ∈ Finset.range n, F k = if c < n then F c else 0 := by
  by_cases hc : c < n
  · rw [if_pos hc]
    exact Finset.sum_eq_single_of_mem c (Finset.mem_range.mpr hc)
      (fun k hk hne => h k (Finset.mem_range.mp hk) hne)
  · rw [if_neg hc]
    apply Finset.sum_eq_zero
    intro k hk
    have hk' := Finset.mem_range.mp hk
    exact h k hk' (fun he => hc (he ▸ hk'))

theorem dense_ite_nil (c : Prop) [Decidable c] (l : Mat K) (a b : Nat) :
    dense (if c then [] else l) a b = if c then 0 else dense l a b := by
  split <;> simp

/-- one block of the rotation part -/
theorem dense_rotShift (nB p : Nat) (R : Mat K) (hR : ∀ e ∈ R, e.row < nB ∧ e.col < nB) (a b : Nat) :
    dense (R.map fun e => (⟨nB * p + e.row, nB * p + e.col, e.val⟩ : Ent K)) a b
      = if a / nB = p ∧ b / nB = p then dense R (a % nB) (b % nB) else 0 := by
  induction R with
  | nil => simp
  | cons e R ih =>
    have hR' : ∀ x ∈ R, x.row < nB ∧ x.col < nB := fun x hx => hR x (List.mem_cons_of_mem _ hx)
    obtain ⟨h1, h2⟩ := hR e List.mem_cons_self
    rw [List.map_cons, dense_cons, ih hR', dense_cons]
    simp only [decomp_iff h1, decomp_iff h2]
    by_cases hp : a / nB = p ∧ b / nB = p
    · obtain ⟨rfl, hp2⟩ := hp
      simp [hp2]
    · have hn : ¬ ((p = a / nB ∧ e.row = a % nB) ∧ (p = b / nB ∧ e.col = b % nB)) := by
        rintro ⟨⟨h3, _⟩, ⟨h4, _⟩⟩
        exact hp ⟨h3.symm, h4.symm⟩
      simp only [if_neg hp, if_neg hn, add_zero]

theorem dense_rotEntries (nP nB : Nat) (R : Mat K) (hR : ∀ e ∈ R, e.row < nB ∧ e.col < nB) (a b : Nat) :
    dense (rotEntries nP nB R) a b
      = if a / nB = b / nB ∧ a / nB < nP then dense R (a % nB) (b % nB) else 0 := by
  unfold rotEntries
  rw [dense_flatMap, list_sum_range]
  simp only [dense_rotShift nB _ R hR a b]
  rw [sum_range_single nP (a / nB)]
  · by_cases h : a / nB = b / nB ∧ a / nB < nP
    · rw [if_pos h.2, if_pos ⟨rfl, h.1.symm⟩, if_pos h]
    · rw [if_neg h]
      split
      · rw [if_neg]; rintro ⟨_, h2⟩; exact h ⟨h2.symm, by assumption⟩
      · rfl
  · intro k _ hne
    rw [if_neg]; rintro ⟨h1, _⟩; exact hne h1.symm

/-- one block of the position part -/
theorem dense_posBlock (nB i j : Nat) (v : K) (a b : Nat) :
    dense ((List.range nB).map fun k => (⟨nB * i + k, nB * j + k, v⟩ : Ent K)) a b
      = if 0 < nB ∧ i = a / nB ∧ j = b / nB ∧ a % nB = b % nB then v else 0 := by
  rw [dense_map, list_sum_range]
  simp only
  rw [sum_range_single nB (a % nB)]
  · by_cases hpos : 0 < nB
    · have hm : a % nB < nB := Nat.mod_lt _ hpos
      rw [if_pos hm]
      simp only [decomp_iff hm]
      simp [hpos]
    · have : nB = 0 := by omega
      subst this
      simp
  · intro k hk hne
    rw [if_neg]
    rintro ⟨h1, _⟩
    exact hne ((decomp_iff hk).mp h1).2

section assembly
variable [DecidableEq K]

theorem dense_posEntries (nP nB : Nat) (sel : Sel) (f : K) (P : Nat → Nat → K) (a b : Nat) :
    dense (posEntries nP nB sel f P) a b
      = if 0 < nB ∧ a % nB = b % nB ∧ a / nB < nP ∧ b / nB < nP ∧ P (a / nB) (b / nB) ≠ 0
        then posValue sel f (P (a / nB) (b / nB)) else 0 := by
  unfold posEntries
  rw [dense_flatMap, list_sum_range]
  simp only [dense_flatMap, list_sum_range, beq_iff_eq, dense_ite_nil, dense_posBlock]
  rw [sum_range_single nP (a / nB)]
  · by_cases ha : a / nB < nP
    · rw [if_pos ha, sum_range_single nP (b / nB)]
      · by_cases hb : b / nB < nP
        · rw [if_pos hb]
          by_cases hP : P (a / nB) (b / nB) = 0
          · rw [if_pos hP, if_neg]; rintro ⟨_, _, _, _, h⟩; exact h hP
          · rw [if_neg hP]
            by_cases hc : 0 < nB ∧ a % nB = b % nB
            · rw [if_pos ⟨hc.1, rfl, rfl, hc.2⟩, if_pos ⟨hc.1, hc.2, ha, hb, hP⟩]
            · rw [if_neg, if_neg]
              · rintro ⟨h1, h2, _⟩; exact hc ⟨h1, h2⟩
              · rintro ⟨h1, _, _, h2⟩; exact hc ⟨h1, h2⟩
        · rw [if_neg hb, if_neg]; rintro ⟨_, _, _, h, _⟩; exact hb h
      · intro k _ hne
        split
        · rfl
        · rw [if_neg]; rintro ⟨_, _, h, _⟩; exact hne h
    · rw [if_neg ha, if_neg]; rintro ⟨_, _, h, _⟩; exact ha h
  · intro k _ hne
    apply Finset.sum_eq_zero
    intro j _
    split
    · rfl
    · rw [if_neg]; rintro ⟨_, h, _⟩; exact hne h

/-- what the statement says about the pair `(a, b)`: same position ⇒ the rotation entry, same rotation ⇒ the (kept)
position entry with its factor -/
def specVal (nB : Nat) (sel : Sel) (f : K) (P : Nat → Nat → K) (R : Mat K) (a b : Nat) : K :=
  (if a / nB = b / nB then dense (rotInput nB R) (a % nB) (b % nB) else 0)
  + (if a % nB = b % nB ∧ P (a / nB) (b / nB) ≠ 0 then posValue sel f (P (a / nB) (b / nB)) else 0)

omit [Field K] [DecidableEq K] in
theorem rotInput_bounds {nB : Nat} {R : Mat K} (hR : ∀ e ∈ R, e.row < nB ∧ e.col < nB) :
    ∀ e ∈ rotInput nB R, e.row < nB ∧ e.col < nB := by
  unfold rotInput
  split
  · exact hR
  · simp

theorem full_eq_scan (nP nB : Nat) (sel : Sel) (f : K) (P : Nat → Nat → K) (R : Mat K) (hP : 1 < nP) :
    full nP nB sel f P R = scan (nP * nB) (fun r c =>
      dense (rotEntries nP nB (rotInput nB R)) r c + dense (posEntries nP nB sel f P) r c) := by
  unfold full
  simp only [hP, if_true]
  rw [addCsr_eq_scan]

/-- the two summands at a pair inside the matrix -/
theorem full_summands (nP nB : Nat) (sel : Sel) (f : K) (P : Nat → Nat → K) (R : Mat K)
    (hR : ∀ e ∈ R, e.row < nB ∧ e.col < nB) {a b : Nat} (ha : a < nP * nB) (hb : b < nP * nB) :
    dense (rotEntries nP nB (rotInput nB R)) a b + dense (posEntries nP nB sel f P) a b
      = specVal nB sel f P R a b := by
  have hpos : 0 < nB := by
    rcases Nat.eq_zero_or_pos nB with h | h
    · subst h; simp at ha
    · exact h
  have ha' := div_lt_of_lt_mul ha
  have hb' := div_lt_of_lt_mul hb
  rw [dense_rotEntries nP nB _ (rotInput_bounds hR), dense_posEntries]
  unfold specVal
  congr 1
  · by_cases h : a / nB = b / nB
    · rw [if_pos ⟨h, ha'⟩, if_pos h]
    · rw [if_neg (fun hh => h hh.1), if_neg h]
  · by_cases h : a % nB = b % nB ∧ P (a / nB) (b / nB) ≠ 0
    · rw [if_pos ⟨hpos, h.1, ha', hb', h.2⟩, if_pos h]
    · rw [if_neg (fun hh => h ⟨hh.2.1, hh.2.2.2.2⟩), if_neg h]

end assembly


/-! ### `get_rate_matrix`: the zip over two storage orders -/

omit [Field K] in
/-- every entry of a zip carries the index of an entry of the left list -/
theorem mem_zipWith_ix {w : Nat → Nat → K → K → K} {A : Mat K} {xs : List K} {e : Ent K}
    (he : e ∈ List.zipWith (fun a x => (⟨a.row, a.col, w a.row a.col a.val x⟩ : Ent K)) A xs) :
    ∃ a ∈ A, e.row = a.row ∧ e.col = a.col := by
  induction A generalizing xs with
  | nil => simp at he
  | cons a A ih =>
    cases xs with
    | nil => simp at he
    | cons x xs =>
      simp only [List.zipWith_cons_cons, List.mem_cons] at he
      rcases he with h | h
      · exact ⟨a, List.mem_cons_self, by simp [h]⟩
      · obtain ⟨b, hb, hh⟩ := ih h
        exact ⟨b, List.mem_cons_of_mem _ hb, hh⟩

/-- **Alignment lemma.**  If the two entry lists carry the same index sequence without repetition, zipping their
data computes, at every position of the pattern, `w` of the two matrix values there. -/
theorem dense_zipWith (w : Nat → Nat → K → K → K) (i j : Nat) :
    ∀ (A B : Mat K), idx A = idx B → (idx A).Nodup →
      dense (List.zipWith (fun a x => (⟨a.row, a.col, w a.row a.col a.val x⟩ : Ent K)) A (dataOf B)) i j
        = if (i, j) ∈ idx A then w i j (dense A i j) (dense B i j) else 0 := by
  intro A
  induction A with
  | nil => intro B _ _; simp [idx]
  | cons a A ih =>
    intro B hB hnd
    cases B with
    | nil => simp [idx] at hB
    | cons b B =>
      simp only [idx, List.map_cons, List.cons.injEq] at hB
      obtain ⟨hab, hAB⟩ := hB
      simp only [idx, List.map_cons, List.nodup_cons] at hnd
      obtain ⟨hna, hndA⟩ := hnd
      have hbr : b.row = a.row := by have := congrArg Prod.fst hab; simpa [ix] using this.symm
      have hbc : b.col = a.col := by have := congrArg Prod.snd hab; simpa [ix] using this.symm
      simp only [dataOf, List.map_cons, List.zipWith_cons_cons]
      rw [dense_cons, dense_cons, dense_cons]
      have ih' := ih B hAB hndA
      simp only [dataOf] at ih'
      rw [ih']
      simp only [idx, List.map_cons, List.mem_cons]
      by_cases h : a.row = i ∧ a.col = j
      · obtain ⟨h1, h2⟩ := h
        have hA0 : (i, j) ∉ idx A := by
          intro hm; apply hna
          have : ix a = (i, j) := by simp [ix, h1, h2]
          rw [this]; exact hm
        have hB0 : (i, j) ∉ idx B := by
          intro hm; apply hA0; unfold idx; rw [hAB]; exact hm
        rw [dense_eq_zero_of_not_mem hA0, dense_eq_zero_of_not_mem hB0]
        have hA0' : (i, j) ∉ List.map ix A := hA0
        simp [hbr, hbc, h1, h2, hA0', ix]
      · have hb : ¬ (b.row = i ∧ b.col = j) := by rw [hbr, hbc]; exact h
        have hne : (i, j) ≠ ix a := by
          intro he
          apply h
          simp only [ix, Prod.mk.injEq] at he
          exact ⟨he.1.symm, he.2.symm⟩
        simp only [if_neg h, if_neg hb, zero_add, hne, false_or]
        rfl

section sqra
variable [LT K] [DecidableLT K]

/-- value written at a stored position `(r, c)` with surface value `s` and distance value `x` -/
def entryVal (exp rnd : K → K) (kB NA T D : K) (V E : Nat → K) (r c : Nat) (s x : K) : K :=
  D * s / x / V r * exp (rnd (capf (E r - E c)) * 1000 / (2 * kB * NA * T))

theorem offDiag_eq (exp rnd : K → K) (kB NA T D : K) (S : Mat K) (hd : List K) (V E : Nat → K) :
    offDiag exp rnd kB NA T D S hd V E
      = List.zipWith (fun a x => (⟨a.row, a.col, entryVal exp rnd kB NA T D V E a.row a.col a.val x⟩ : Ent K)) S hd := by
  simp [offDiag, List.map_zipWith, List.zipWith_map_left, entryVal]

theorem offDiag_cols {exp rnd : K → K} {kB NA T D : K} {S : Mat K} {hd : List K} {V E : Nat → K} {n : Nat}
    (hc : ∀ e ∈ S, e.col < n) : ∀ e ∈ offDiag exp rnd kB NA T D S hd V E, e.col < n := by
  intro e he
  rw [offDiag_eq] at he
  obtain ⟨a, ha, _, h2⟩ := mem_zipWith_ix (w := entryVal exp rnd kB NA T D V E) he
  rw [h2]; exact hc a ha

end sqra

theorem dense_diagEntries (n : Nat) (t : Mat K) (i j : Nat) :
    dense (diagEntries n t) i j = if i = j ∧ i < n then -(rowSum t i) else 0 := by
  unfold diagEntries
  rw [dense_map, list_sum_range]
  simp only
  rw [sum_range_single n i]
  · by_cases h : i = j ∧ i < n
    · rw [if_pos h.2, if_pos ⟨rfl, h.1⟩, if_pos h]
    · rw [if_neg h]
      split
      · rw [if_neg]; rintro ⟨_, h2⟩; exact h ⟨h2, by assumption⟩
      · rfl
  · intro k _ hne
    rw [if_neg]; rintro ⟨h1, _⟩; exact hne h1


/-! ### `get_total_volumes` -/

omit [Field K] in
theorem totalVolumes_length [Mul K] (f : K) (Vp Vr : List K) :
    (totalVolumes f Vp Vr).length = Vp.length * Vr.length := by
  unfold totalVolumes
  induction Vp with
  | nil => simp
  | cons p Vp ih => rw [List.flatMap_cons, List.length_append, ih, List.length_map, List.length_cons]; ring

/-- **grid order of the volumes**: cell `n_b·p + k` has volume `Vpos[p]·f³·Vrot[k]` -/
theorem totalVolumes_get (f : K) (Vp Vr : List K) (p k : Nat) (hp : p < Vp.length) (hk : k < Vr.length) :
    (totalVolumes f Vp Vr)[Vr.length * p + k]? = some (Vp[p] * (f * f * f) * Vr[k]) := by
  unfold totalVolumes
  induction Vp generalizing p with
  | nil => simp at hp
  | cons v Vp ih =>
    rw [List.flatMap_cons]
    cases p with
    | zero =>
      rw [Nat.mul_zero, Nat.zero_add, List.getElem?_append_left (by simpa using hk)]
      simp [hk]
    | succ p =>
      have hp' : p < Vp.length := by simpa using hp
      rw [List.getElem?_append_right (by simp; nlinarith)]
      have : Vr.length * (p + 1) + k - (List.map (fun b => v * (f * f * f) * b) Vr).length = Vr.length * p + k := by
        rw [List.length_map, Nat.mul_succ]; omega
      rw [this, ih p hp']
      simp

theorem totalVolumes_ne (f : K) (Vp Vr : List K) (hf : f ≠ 0) (hp : ∀ v ∈ Vp, v ≠ 0) (hr : ∀ v ∈ Vr, v ≠ 0) :
    ∀ v ∈ totalVolumes f Vp Vr, v ≠ 0 := by
  intro v hv
  unfold totalVolumes at hv
  rw [List.mem_flatMap] at hv
  obtain ⟨a, ha, hv⟩ := hv
  rw [List.mem_map] at hv
  obtain ⟨b, hb, rfl⟩ := hv
  exact mul_ne_zero (mul_ne_zero (hp a ha) (mul_ne_zero (mul_ne_zero hf hf) hf)) (hr b hb)

omit [Field K] in
theorem getD_mem_of_lt [Zero K] (l : List K) {i : Nat} (hi : i < l.length) : l.getD i 0 ∈ l := by
  rw [List.getD_eq_getElem?_getD, List.getElem?_eq_getElem hi]
  exact List.getElem_mem hi

/-! ### files -/

omit [Field K] in
theorem read_write_same (fs : FS K) (p : String) (b : Blob K) : (fs.write p b).read p = some b := by
  simp [FS.write, FS.read]

omit [Field K] in
theorem read_write_other (fs : FS K) {p q : String} (b : Blob K) (h : q ≠ p) : (fs.write p b).read q = fs.read q := by
  simp [FS.write, FS.read, h]

end field

/-! ### sorting of the eigenpairs -/
section order
variable {F : Type} [LinearOrder F]

omit [LinearOrder F] in
theorem insertBy_perm (le : Nat → Nat → Bool) (a : Nat) (l : List Nat) : (insertBy le a l).Perm (a :: l) := by
  induction l with
  | nil => exact List.Perm.refl _
  | cons b l ih =>
    unfold insertBy
    split
    · exact List.Perm.refl _
    · exact (List.Perm.cons b ih).trans (List.Perm.swap a b l)

omit [LinearOrder F] in
theorem isortBy_perm (le : Nat → Nat → Bool) (l : List Nat) : (isortBy le l).Perm l := by
  induction l with
  | nil => exact List.Perm.refl _
  | cons a l ih => exact (insertBy_perm le a _).trans (List.Perm.cons a ih)

omit [LinearOrder F] in
theorem insertBy_sorted (le : Nat → Nat → Bool) (htot : ∀ a b, le a b = true ∨ le b a = true)
    (htr : ∀ a b c, le a b = true → le b c = true → le a c = true) (a : Nat) (l : List Nat)
    (h : l.Pairwise (fun x y => le x y = true)) : (insertBy le a l).Pairwise (fun x y => le x y = true) := by
  induction l with
  | nil => exact List.pairwise_singleton _ _
  | cons b l ih =>
    rw [List.pairwise_cons] at h
    unfold insertBy
    by_cases hab : le a b = true
    · rw [if_pos hab, List.pairwise_cons]
      refine ⟨?_, List.pairwise_cons.mpr h⟩
      intro x hx
      rcases List.mem_cons.mp hx with rfl | hx
      · exact hab
      · exact htr _ _ _ hab (h.1 x hx)
    · rw [if_neg hab, List.pairwise_cons]
      refine ⟨?_, ih h.2⟩
      intro x hx
      rcases List.mem_cons.mp ((insertBy_perm le a l).mem_iff.mp hx) with rfl | hx
      · exact (htot x b).resolve_left hab
      · exact h.1 x hx

omit [LinearOrder F] in
theorem isortBy_sorted (le : Nat → Nat → Bool) (htot : ∀ a b, le a b = true ∨ le b a = true)
    (htr : ∀ a b c, le a b = true → le b c = true → le a c = true) (l : List Nat) :
    (isortBy le l).Pairwise (fun x y => le x y = true) := by
  induction l with
  | nil => exact List.Pairwise.nil
  | cons a l ih => exact insertBy_sorted le htot htr a _ ih

theorem argsortAsc_perm (vals : List F) (d : F) : (argsortAsc vals d).Perm (List.range vals.length) :=
  isortBy_perm _ _

theorem argsortAsc_sorted (vals : List F) (d : F) :
    (argsortAsc vals d).Pairwise (fun a b => vals.getD a d ≤ vals.getD b d) := by
  have h := isortBy_sorted (fun a b => decide (vals.getD a d ≤ vals.getD b d))
    (by intro a b; simp only [decide_eq_true_eq]; exact le_total _ _)
    (by intro a b c hab hbc; simp only [decide_eq_true_eq] at *; exact le_trans hab hbc)
    (List.range vals.length)
  unfold argsortAsc
  simpa using h

theorem sortIdx_perm (d : F) (vals : List (F × F)) : (sortIdx d vals).Perm (List.range vals.length) := by
  unfold sortIdx
  have := argsortAsc_perm (vals.map (·.1)) d
  rw [List.length_map] at this
  exact (List.reverse_perm _).trans this

theorem sortIdx_sorted (d : F) (vals : List (F × F)) :
    (sortIdx d vals).Pairwise (fun a b => (vals.map (·.1)).getD b d ≤ (vals.map (·.1)).getD a d) := by
  unfold sortIdx
  rw [List.pairwise_reverse]
  exact argsortAsc_sorted _ d

theorem sortEig_fst (d : F) (vals : List (F × F)) (cols : List (List (F × F))) :
    (sortEig d vals cols).1 = (sortIdx d vals).map fun k => (vals.map (·.1)).getD k d := rfl

theorem sortEig_snd (d : F) (vals : List (F × F)) (cols : List (List (F × F))) :
    (sortEig d vals cols).2 = (sortIdx d vals).map fun k => (cols.map fun c => c.map (·.1)).getD k [] := rfl

omit [LinearOrder F] in
theorem range_map_getD_zip {α β : Type} (l₁ : List α) (l₂ : List β) (d₁ : α) (d₂ : β) (h : l₂.length = l₁.length) :
    (List.range l₁.length).map (fun k => (l₁.getD k d₁, l₂.getD k d₂)) = l₁.zip l₂ := by
  apply List.ext_getElem
  · simp [h]
  · intro k h1 h2
    simp only [List.length_map, List.length_range] at h1
    have h3 : k < l₂.length := by omega
    simp [List.getD_eq_getElem?_getD, h1, h3]

end order

end Molgri.Pipeline
