/-
Helper lemmas for C06 (Cartesian position mode).  Property theorems are in `Molgri/Props/C06.lean`.

Contents
  * the order of `arctan2` decided on the argument pairs (`rank`, `angLe`): total, transitive; three directions in
    angular order are in counter-clockwise cyclic order (`sorted_triple_ccw`);
  * plane geometry (`det2`, `orient2`, `InTri`), `sorted_triple_oriented`: the core of `orderKey_cyclic`;
  * `np.argmax`, `np.argsort` (`argsortKeys` is a permutation, its keys are pairwise sorted);
  * `order_points` in plane coordinates (`planeKeys`, `orderPoints2`) and `orderPoints2_oriented`;
  * the fan of `get_polygon_area` in plane coordinates (`fanDets_sum` = shoelace identity);
  * a plane in space (`Frame`): `order_points` / `get_polygon_area` of an embedded polygon are those of its plane
    coordinates (`alphaKeys_emb`, `orderPoints_emb`, `fanArea_emb`).
-/
import Molgri.Model.Polygon
import Mathlib.Algebra.Order.Field.Basic
import Mathlib.Tactic.Ring
import Mathlib.Tactic.Linarith
import Mathlib.Tactic.FieldSimp
import Mathlib.Tactic.LinearCombination

set_option linter.unusedSectionVars false

namespace Molgri.Polygon
variable {K : Type} [Field K] [LinearOrder K] [IsStrictOrderedRing K]

/-! ### the order of `arctan2` without `arctan2` -/

theorem rank_le_three (k : K × K) : rank k ≤ 3 := by
  unfold rank; split_ifs <;> omega

theorem rank_eq_zero {k : K × K} : rank k = 0 ↔ k.1 < 0 := by
  unfold rank; split_ifs <;> simp_all

theorem rank_eq_two {k : K × K} : rank k = 2 ↔ 0 < k.1 := by
  unfold rank; split_ifs with h1 h2 h3 <;> simp_all
  exact le_of_lt h1

theorem rank_eq_one {k : K × K} : rank k = 1 ↔ k.1 = 0 ∧ 0 ≤ k.2 := by
  unfold rank; split_ifs with h1 h2 h3
  · simp; intro h; exact absurd h1 (by rw [h]; exact lt_irrefl _)
  · simp; intro h; exact absurd h2 (by rw [h]; exact lt_irrefl _)
  · simp; intro _; exact h3
  · simp; exact ⟨le_antisymm (not_lt.mp h2) (not_lt.mp h1), not_lt.mp h3⟩

theorem rank_eq_three {k : K × K} : rank k = 3 ↔ k.1 = 0 ∧ k.2 < 0 := by
  unfold rank; split_ifs with h1 h2 h3
  · simp; intro h; exact absurd h1 (by rw [h]; exact lt_irrefl _)
  · simp; intro h; exact absurd h2 (by rw [h]; exact lt_irrefl _)
  · simp; exact ⟨le_antisymm (not_lt.mp h2) (not_lt.mp h1), h3⟩
  · simp; intro _; exact not_lt.mp h3

theorem angLe_iff (a b : K × K) :
    angLe a b = true ↔ rank a < rank b ∨ (rank a = rank b ∧ (rank a = 1 ∨ rank a = 3 ∨ 0 ≤ kdet a b)) := by
  unfold angLe
  simp only [Bool.or_eq_true, Bool.and_eq_true, decide_eq_true_eq, beq_iff_eq, Bool.not_eq_true', decide_eq_false_iff_not,
    not_lt, or_assoc]

/-- Plücker relation, `y`-component: `det(a,b)·y_c + det(b,c)·y_a + det(c,a)·y_b = 0`. -/
theorem kdet_plucker (a b c : K × K) : kdet a b * c.1 + kdet b c * a.1 + kdet c a * b.1 = 0 := by
  unfold kdet; ring

theorem kdet_antisymm (a b : K × K) : kdet b a = - kdet a b := by unfold kdet; ring

theorem angLe_total (a b : K × K) : (angLe a b || angLe b a) = true := by
  rw [Bool.or_eq_true, angLe_iff, angLe_iff]
  rcases lt_trichotomy (rank a) (rank b) with h | h | h
  · exact Or.inl (Or.inl h)
  · rcases le_total 0 (kdet a b) with hk | hk
    · exact Or.inl (Or.inr ⟨h, Or.inr (Or.inr hk)⟩)
    · refine Or.inr (Or.inr ⟨h.symm, Or.inr (Or.inr ?_)⟩)
      rw [kdet_antisymm]; linarith
  · exact Or.inr (Or.inl h)

theorem angLe_trans (a b c : K × K) (hab : angLe a b = true) (hbc : angLe b c = true) : angLe a c = true := by
  rw [angLe_iff] at *
  rcases hab with hab | ⟨hab, hab'⟩
  · rcases hbc with hbc | ⟨hbc, _⟩
    · exact Or.inl (lt_trans hab hbc)
    · exact Or.inl (hbc ▸ hab)
  · rcases hbc with hbc | ⟨hbc, hbc'⟩
    · exact Or.inl (hab ▸ hbc)
    · refine Or.inr ⟨hab.trans hbc, ?_⟩
      rcases hab' with h | h | h
      · exact Or.inl h
      · exact Or.inr (Or.inl h)
      · rcases hbc' with h' | h' | h'
        · exact Or.inl (hab ▸ h')
        · exact Or.inr (Or.inl (hab ▸ h'))
        · -- same open half plane (or an axis)
          have h3 := rank_le_three a
          by_cases r1 : rank a = 1
          · exact Or.inl r1
          by_cases r3 : rank a = 3
          · exact Or.inr (Or.inl r3)
          refine Or.inr (Or.inr ?_)
          have hp := kdet_plucker a b c
          rw [kdet_antisymm a c] at hp
          by_cases r0 : rank a = 0
          · have ya := rank_eq_zero.mp r0
            have yb := rank_eq_zero.mp (hab ▸ r0)
            have yc := rank_eq_zero.mp (hbc ▸ hab ▸ r0)
            by_contra hneg
            rw [not_le] at hneg
            nlinarith [mul_nonneg_of_nonpos_of_nonpos (neg_nonpos.mpr h) yc.le, mul_pos_of_neg_of_neg hneg yb,
              mul_nonneg_of_nonpos_of_nonpos (neg_nonpos.mpr h') ya.le]
          · have r2 : rank a = 2 := by omega
            have ya := rank_eq_two.mp r2
            have yb := rank_eq_two.mp (hab ▸ r2)
            have yc := rank_eq_two.mp (hbc ▸ hab ▸ r2)
            by_contra hneg
            rw [not_le] at hneg
            nlinarith [mul_nonneg h yc.le, mul_pos_of_neg_of_neg hneg (neg_neg_of_pos yb), mul_nonneg h' ya.le]



/-- A pair in angular order whose determinant is negative (the second is more than a half turn ahead of the first):
the first lies in the open lower half plane, the second in the open upper half plane or on the negative x-axis. -/
theorem angLe_kdet_neg {u v : K × K} (h : angLe u v = true) (hd : kdet u v < 0) :
    u.1 < 0 ∧ (0 < v.1 ∨ (v.1 = 0 ∧ v.2 < 0)) := by
  rw [angLe_iff] at h
  have hu3 := rank_le_three u
  have hv3 := rank_le_three v
  have key : rank u = 0 ∧ 2 ≤ rank v := by
    rcases h with h | ⟨h, h'⟩
    · -- different classes
      by_cases r0 : rank u = 0
      · refine ⟨r0, ?_⟩
        by_contra hlt
        have r1 : rank v = 1 := by omega
        have yu := rank_eq_zero.mp r0
        obtain ⟨yv, xv⟩ := rank_eq_one.mp r1
        unfold kdet at hd
        rw [yv] at hd
        nlinarith [mul_nonneg xv (neg_nonneg.mpr yu.le)]
      · exfalso
        by_cases r1 : rank u = 1
        · obtain ⟨yu, xu⟩ := rank_eq_one.mp r1
          have yv : 0 ≤ v.1 := by
            by_cases r2 : rank v = 2
            · exact (rank_eq_two.mp r2).le
            · have r3 : rank v = 3 := by omega
              exact (rank_eq_three.mp r3).1.ge
          unfold kdet at hd
          rw [yu] at hd
          nlinarith [mul_nonneg xu yv]
        · have r2 : rank u = 2 := by omega
          have r3 : rank v = 3 := by omega
          have yu := rank_eq_two.mp r2
          obtain ⟨yv, xv⟩ := rank_eq_three.mp r3
          unfold kdet at hd
          rw [yv] at hd
          nlinarith [mul_pos_of_neg_of_neg xv (neg_neg_of_pos yu)]
    · exfalso
      rcases h' with r1 | r3 | hk
      · obtain ⟨yu, _⟩ := rank_eq_one.mp r1
        obtain ⟨yv, _⟩ := rank_eq_one.mp (h ▸ r1)
        unfold kdet at hd; rw [yu, yv] at hd; simp at hd
      · obtain ⟨yu, _⟩ := rank_eq_three.mp r3
        obtain ⟨yv, _⟩ := rank_eq_three.mp (h ▸ r3)
        unfold kdet at hd; rw [yu, yv] at hd; simp at hd
      · exact absurd hd (not_lt.mpr hk)
  refine ⟨rank_eq_zero.mp key.1, ?_⟩
  by_cases r2 : rank v = 2
  · exact Or.inl (rank_eq_two.mp r2)
  · exact Or.inr (rank_eq_three.mp (by omega))

/-- **Three directions in angular order are in counter-clockwise cyclic order**: of the three consecutive determinants
`det(u,v)`, `det(v,w)`, `det(w,u)` at most one is negative. -/
theorem sorted_triple_ccw {u v w : K × K} (huv : angLe u v = true) (hvw : angLe v w = true) :
    (0 ≤ kdet u v ∧ 0 ≤ kdet v w) ∨ (0 ≤ kdet v w ∧ 0 ≤ kdet w u) ∨ (0 ≤ kdet w u ∧ 0 ≤ kdet u v) := by
  have huw := angLe_trans u v w huv hvw
  by_cases hp : 0 ≤ kdet u v
  · by_cases hq : 0 ≤ kdet v w
    · exact Or.inl ⟨hp, hq⟩
    · by_cases hr : 0 ≤ kdet w u
      · exact Or.inr (Or.inr ⟨hr, hp⟩)
      · exfalso
        rw [not_le] at hq hr
        obtain ⟨yv, hw⟩ := angLe_kdet_neg hvw hq
        -- u is before v, v in the lower half plane: u too
        have yu : u.1 < 0 := by
          rw [angLe_iff] at huv
          have r0 := rank_eq_zero.mpr yv
          have : rank u = 0 := by rcases huv with h | ⟨h, _⟩ <;> omega
          exact rank_eq_zero.mp this
        have hpl := kdet_plucker u v w
        rcases hw with yw | ⟨yw, xw⟩
        · nlinarith [mul_nonneg hp yw.le, mul_pos_of_neg_of_neg hq yu, mul_pos_of_neg_of_neg hr yv]
        · unfold kdet at hr; rw [yw] at hr
          nlinarith [mul_pos_of_neg_of_neg xw yu]
  · rw [not_le] at hp
    obtain ⟨yu, hv⟩ := angLe_kdet_neg huv hp
    by_cases hq : 0 ≤ kdet v w
    · by_cases hr : 0 ≤ kdet w u
      · exact Or.inr (Or.inl ⟨hq, hr⟩)
      · exfalso
        rw [not_le] at hr
        -- w is after v; v has class ≥ 2, hence w too
        rw [angLe_iff] at hvw
        have hv3 := rank_le_three v
        have hw3 := rank_le_three w
        have rv : 2 ≤ rank v := by
          rcases hv with h | h
          · exact (rank_eq_two.mpr h).ge
          · have := rank_eq_three.mpr h; omega
        have hpl := kdet_plucker u v w
        by_cases rw3 : rank w = 3
        · obtain ⟨yw, xw⟩ := rank_eq_three.mp rw3
          unfold kdet at hr; rw [yw] at hr
          nlinarith [mul_pos_of_neg_of_neg xw yu]
        · have rw2 : rank w = 2 := by rcases hvw with h | ⟨h, _⟩ <;> omega
          have rv2 : rank v = 2 := by rcases hvw with h | ⟨h, _⟩ <;> omega
          have yw := rank_eq_two.mp rw2
          have yv := rank_eq_two.mp rv2
          nlinarith [mul_pos_of_neg_of_neg hp (neg_neg_of_pos yw), mul_nonneg hq (neg_nonneg.mpr yu.le),
            mul_pos_of_neg_of_neg hr (neg_neg_of_pos yv)]
    · exfalso
      rw [not_le] at hq
      obtain ⟨yv, _⟩ := angLe_kdet_neg hvw hq
      rcases hv with h | h
      · exact absurd yv (not_lt.mpr h.le)
      · exact absurd yv (by rw [h.1]; exact lt_irrefl _)



/-! ### plane geometry: points and vectors of the plane are pairs `(x, y)` -/

/-- 2×2 determinant (twice the signed area of the triangle `0, a, b`). -/
def det2 (a b : K × K) : K := a.1 * b.2 - a.2 * b.1
def dot2 (a b : K × K) : K := a.1 * b.1 + a.2 * b.2
/-- orientation of the triangle `u, v, w`: twice its signed area, positive when counter-clockwise. -/
def orient2 (u v w : K × K) : K := det2 (v - u) (w - u)

theorem orient2_eq (u v w : K × K) : orient2 u v w = det2 u v + det2 v w + det2 w u := by
  unfold orient2 det2; simp only [Prod.fst_sub, Prod.snd_sub]; ring

/-- `v` lies in the triangle spanned by the origin (the centre), `u` and `w`, but not on the edge `uw`. -/
def InTri (v u w : K × K) : Prop :=
  ∃ α β : K, 0 ≤ α ∧ 0 ≤ β ∧ α + β < 1 ∧ v = (α * u.1 + β * w.1, α * u.2 + β * w.2)

/-- If `u, v, w` are in cyclic order for the orientation `σ` at `v` and `v` is not inside the triangle `0, u, w`, the
triangle `u, v, w` has orientation `σ` (or is degenerate). -/
theorem oriented_of_not_inTri {σ : K} {u v w : K × K} (hp : 0 ≤ σ * det2 u v) (hq : 0 ≤ σ * det2 v w)
    (hv : ¬ InTri v u w) : 0 ≤ σ * orient2 u v w := by
  rw [orient2_eq]
  by_contra hneg
  rw [not_le] at hneg
  apply hv
  have hr : σ * det2 w u < 0 := by nlinarith
  have hr' : 0 < σ * (-det2 w u) := by linarith
  have hσ : σ ≠ 0 := by rintro rfl; simp at hr
  have hrne : det2 w u ≠ 0 := by rintro h; rw [h] at hr; simp at hr
  have hnr : -det2 w u ≠ 0 := neg_ne_zero.mpr hrne
  refine ⟨det2 v w / (-det2 w u), det2 u v / (-det2 w u), ?_, ?_, ?_, ?_⟩
  · have : det2 v w / (-det2 w u) = (σ * det2 v w) / (σ * (-det2 w u)) := by field_simp
    rw [this]; exact div_nonneg hq hr'.le
  · have : det2 u v / (-det2 w u) = (σ * det2 u v) / (σ * (-det2 w u)) := by field_simp
    rw [this]; exact div_nonneg hp hr'.le
  · have : det2 v w / (-det2 w u) + det2 u v / (-det2 w u)
        = (σ * det2 v w + σ * det2 u v) / (σ * (-det2 w u)) := by field_simp; ring
    rw [this, div_lt_one hr']; linarith
  · ext
    · simp only; field_simp; unfold det2; ring
    · simp only; field_simp; unfold det2; ring

/-- the two arguments of `arctan2` for a vertex with centred plane coordinates `a` (first vertex `b`, signed length `δ`
of the reference normal): `(s, c) = (δ · det(a, b), a · b)`. -/
def planeKey (δ : K) (b a : K × K) : K × K := (δ * det2 a b, dot2 a b)

theorem kdet_planeKey (δ : K) (b a1 a2 : K × K) :
    kdet (planeKey δ b a1) (planeKey δ b a2) = (-δ) * dot2 b b * det2 a1 a2 := by
  unfold kdet planeKey det2 dot2; simp only; ring

/-- **Core of `orderKey_cyclic`.**  Three vertices whose `arctan2` keys are in sorted order, none of which lies inside the
triangle formed by the centre and the other two, form a triangle of orientation `−δ` (one sign for the whole polygon). -/
theorem sorted_triple_oriented {δ : K} {b u v w : K × K} (hb : 0 < dot2 b b)
    (huv : angLe (planeKey δ b u) (planeKey δ b v) = true) (hvw : angLe (planeKey δ b v) (planeKey δ b w) = true)
    (h1 : ¬ InTri v u w) (h2 : ¬ InTri w v u) (h3 : ¬ InTri u w v) :
    0 ≤ (-δ) * orient2 u v w := by
  have key : ∀ a1 a2 : K × K, 0 ≤ kdet (planeKey δ b a1) (planeKey δ b a2) → 0 ≤ (-δ) * det2 a1 a2 := by
    intro a1 a2 h
    rw [kdet_planeKey] at h
    by_contra hneg
    rw [not_le] at hneg
    nlinarith [mul_pos_of_neg_of_neg hneg (neg_neg_of_pos hb)]
  rcases sorted_triple_ccw huv hvw with ⟨p, q⟩ | ⟨q, r⟩ | ⟨r, p⟩
  · exact oriented_of_not_inTri (key _ _ p) (key _ _ q) h1
  · have := oriented_of_not_inTri (key _ _ q) (key _ _ r) h2
    rw [orient2_eq] at this ⊢; linarith
  · have := oriented_of_not_inTri (key _ _ r) (key _ _ p) h3
    rw [orient2_eq] at this ⊢; linarith



/-! ### `np.argmax` -/

theorem argmaxAux_spec (full pre t : List K) (best : K) (bi : Nat) (hfull : full = pre ++ t)
    (hbi : full[bi]? = some best) (hpre : ∀ x ∈ pre, x ≤ best) :
    ∃ v, full[argmaxAux best bi pre.length t]? = some v ∧ ∀ x ∈ full, x ≤ v := by
  induction t generalizing pre best bi with
  | nil =>
    refine ⟨best, by simpa [argmaxAux] using hbi, ?_⟩
    intro x hx; rw [hfull] at hx; simp at hx; exact hpre x hx
  | cons a t ih =>
    unfold argmaxAux
    have hlen : (pre ++ [a]).length = pre.length + 1 := by simp
    split_ifs with h
    · have := ih (pre ++ [a]) a pre.length (by simp [hfull]) (by simp [hfull]) (by
        intro x hx; simp at hx; rcases hx with hx | hx
        · exact (hpre x hx).trans h.le
        · exact hx.le)
      rwa [hlen] at this
    · have := ih (pre ++ [a]) best bi (by simp [hfull]) hbi (by
        intro x hx; simp at hx; rcases hx with hx | hx
        · exact hpre x hx
        · rw [hx]; exact not_lt.mp h)
      rwa [hlen] at this

/-- `np.argmax` returns a position of a maximum. -/
theorem argmaxFirst_spec (l : List K) (hl : l ≠ []) :
    ∃ v, l[argmaxFirst l]? = some v ∧ ∀ x ∈ l, x ≤ v := by
  cases l with
  | nil => exact absurd rfl hl
  | cons a t =>
    unfold argmaxFirst
    have := argmaxAux_spec (a :: t) [a] t a 0 rfl rfl (by simp)
    simpa using this

/-! ### `np.argsort` of the keys -/

theorem insertBy_perm {α : Type} (le : α → α → Bool) (a : α) (l : List α) : (insertBy le a l).Perm (a :: l) := by
  induction l with
  | nil => simp [insertBy]
  | cons b t ih =>
    unfold insertBy
    split_ifs
    · exact List.Perm.refl _
    · exact (List.Perm.cons b ih).trans (List.Perm.swap a b t)

theorem isortBy_perm {α : Type} (le : α → α → Bool) (l : List α) : (isortBy le l).Perm l := by
  induction l with
  | nil => simp [isortBy]
  | cons a t ih => exact (insertBy_perm le a _).trans (List.Perm.cons a ih)

theorem insertBy_pairwise {α : Type} {le : α → α → Bool} (trans : ∀ a b c, le a b = true → le b c = true → le a c = true)
    (total : ∀ a b, (le a b || le b a) = true) (a : α) (l : List α) (hl : l.Pairwise fun x y => le x y = true) :
    (insertBy le a l).Pairwise fun x y => le x y = true := by
  induction l with
  | nil => simp [insertBy]
  | cons b t ih =>
    unfold insertBy
    rw [List.pairwise_cons] at hl
    split_ifs with h
    · refine List.Pairwise.cons ?_ (List.Pairwise.cons hl.1 hl.2)
      intro x hx
      rcases List.mem_cons.mp hx with rfl | hx
      · exact h
      · exact trans _ _ _ h (hl.1 x hx)
    · have hba : le b a = true := by
        have := total a b
        rw [Bool.or_eq_true] at this
        rcases this with h' | h'
        · exact absurd h' h
        · exact h'
      refine List.Pairwise.cons ?_ (ih hl.2)
      intro x hx
      rcases List.mem_cons.mp ((insertBy_perm le a t).mem_iff.mp hx) with rfl | hx
      · exact hba
      · exact hl.1 x hx

theorem isortBy_pairwise {α : Type} {le : α → α → Bool} (trans : ∀ a b c, le a b = true → le b c = true → le a c = true)
    (total : ∀ a b, (le a b || le b a) = true) (l : List α) : (isortBy le l).Pairwise fun x y => le x y = true := by
  induction l with
  | nil => simp [isortBy]
  | cons a t ih => exact insertBy_pairwise trans total a _ ih

/-- the sorted list of `(key, index)` pairs behind `argsortKeys`. -/
def sortedPairs (keys : List (K × K)) : List ((K × K) × Nat) :=
  isortBy (fun a b => angLe a.1 b.1) keys.zipIdx

theorem argsortKeys_eq (keys : List (K × K)) : argsortKeys keys = (sortedPairs keys).map (·.2) := rfl

theorem sortedPairs_pairwise (keys : List (K × K)) :
    (sortedPairs keys).Pairwise fun a b => angLe a.1 b.1 = true :=
  isortBy_pairwise (le := fun (a b : (K × K) × Nat) => angLe a.1 b.1)
    (fun a b c => angLe_trans a.1 b.1 c.1) (fun a b => angLe_total a.1 b.1) keys.zipIdx

theorem sortedPairs_perm (keys : List (K × K)) : (sortedPairs keys).Perm keys.zipIdx :=
  isortBy_perm _ _

theorem mem_sortedPairs {keys : List (K × K)} {x : (K × K) × Nat} (hx : x ∈ sortedPairs keys) :
    keys[x.2]? = some x.1 :=
  List.mem_zipIdx_iff_getElem?.mp ((sortedPairs_perm keys).mem_iff.mp hx)

/-- **`np.argsort` returns a permutation**: every vertex index occurs exactly once. -/
theorem argsortKeys_perm (keys : List (K × K)) : (argsortKeys keys).Perm (List.range keys.length) := by
  rw [argsortKeys_eq]
  have h := (sortedPairs_perm keys).map (·.2)
  have h2 : keys.zipIdx.map (·.2) = List.range keys.length := by
    have := List.zipIdx_map_snd (l := keys) 0
    rw [List.range_eq_range']; exact this
  rw [h2] at h; exact h

theorem argsortKeys_nodup (keys : List (K × K)) : (argsortKeys keys).Nodup :=
  (argsortKeys_perm keys).nodup_iff.mpr List.nodup_range

/-- the comparison of `arctan2` keys looks at the determinant only inside an open half plane: two keys of angle 0
(`s = 0`, `c ≥ 0`, e.g. the literal `alphas = [0]` of the first vertex and its geometric key) are interchangeable. -/
theorem angLe_congr {a a' b b' : K × K} (ha : a = a' ∨ (rank a = 1 ∧ rank a' = 1))
    (hb : b = b' ∨ (rank b = 1 ∧ rank b' = 1)) : angLe a b = angLe a' b' := by
  rcases ha with rfl | ⟨ha, ha'⟩ <;> rcases hb with rfl | ⟨hb, hb'⟩
  · rfl
  · rw [Bool.eq_iff_iff, angLe_iff, angLe_iff, hb, hb']
    constructor <;> (rintro (h | ⟨h, _⟩); exact Or.inl h; exact Or.inr ⟨h, Or.inl h⟩)
  · rw [Bool.eq_iff_iff, angLe_iff, angLe_iff, ha, ha']
    constructor <;> (rintro (h | ⟨h, _⟩); exact Or.inl h; exact Or.inr ⟨h, Or.inl rfl⟩)
  · rw [Bool.eq_iff_iff, angLe_iff, angLe_iff, ha, ha', hb, hb']
    simp

/-! ### `order_points` in plane coordinates -/

/-- centroid of plane points. -/
def mean2 (ps : List (K × K)) : K × K :=
  ((ps.map Prod.fst).sum / (ps.length : K), (ps.map Prod.snd).sum / (ps.length : K))

/-- signed lengths of `all_normals` (multiples of the unit normal of the plane). -/
def normalDets (ps : List (K × K)) : List K :=
  match ps with
  | [] => []
  | f :: rest => rest.map fun p => det2 (f - mean2 ps) (p - mean2 ps)

/-- signed length of `normal_vector`. -/
def delta (ps : List (K × K)) : K :=
  (normalDets ps).getD (argmaxFirst ((normalDets ps).map fun d => d * d)) 0

/-- `alphas` in plane coordinates. -/
def planeKeys (ps : List (K × K)) : List (K × K) :=
  match ps with
  | [] => []
  | f :: rest =>
    if delta ps * delta ps = 0 then (0, 0) :: rest.map fun _ => (0, 0)
    else (0, 0) :: rest.map fun p => planeKey (delta ps) (f - mean2 ps) (p - mean2 ps)

/-- `order_points` in plane coordinates. -/
def orderPoints2 (ps : List (K × K)) : List (K × K) :=
  (argsortKeys (planeKeys ps)).map fun i => ps.getD i 0

theorem planeKeys_length (ps : List (K × K)) : (planeKeys ps).length = ps.length := by
  cases ps with
  | nil => rfl
  | cons f rest => unfold planeKeys; split_ifs <;> simp

/-- If some vertex is not collinear with the first vertex and the centroid, the reference normal does not vanish. -/
theorem delta_ne_zero {ps : List (K × K)} (h : ∃ d ∈ normalDets ps, d ≠ 0) : delta ps ≠ 0 := by
  obtain ⟨d, hd, hd0⟩ := h
  have hne : (normalDets ps).map (fun d => d * d) ≠ [] := by
    intro h0; rw [List.map_eq_nil_iff] at h0; rw [h0] at hd; simp at hd
  obtain ⟨v, hv, hmax⟩ := argmaxFirst_spec _ hne
  have hdv : d * d ≤ v := hmax _ (List.mem_map_of_mem hd)
  rw [List.getElem?_map] at hv
  unfold delta
  cases hg : (normalDets ps)[argmaxFirst ((normalDets ps).map fun d => d * d)]? with
  | none => rw [hg] at hv; simp at hv
  | some e =>
    rw [hg] at hv; simp at hv
    rw [List.getD_eq_getElem?_getD, hg]; simp
    rintro rfl
    have : 0 < d * d := mul_self_pos.mpr hd0
    rw [← hv] at hdv; simp at hdv; linarith

theorem delta_mem_or {ps : List (K × K)} : delta ps = 0 ∨ delta ps ∈ normalDets ps := by
  unfold delta
  rw [List.getD_eq_getElem?_getD]
  cases hg : (normalDets ps)[argmaxFirst ((normalDets ps).map fun d => d * d)]? with
  | none => left; simp
  | some e => right; simp; exact List.mem_of_getElem? hg

theorem first_ne_mean_of_delta {f : K × K} {rest : List (K × K)} (h : delta (f :: rest) ≠ 0) :
    0 < dot2 (f - mean2 (f :: rest)) (f - mean2 (f :: rest)) := by
  rcases delta_mem_or (ps := f :: rest) with h0 | hm
  · exact absurd h0 h
  · unfold normalDets at hm
    simp only [List.mem_map] at hm
    obtain ⟨p, _, hp⟩ := hm
    by_contra hle
    rw [not_lt] at hle
    unfold dot2 at hle
    have h1 : (f - mean2 (f :: rest)).1 = 0 := by nlinarith [mul_self_nonneg (f - mean2 (f :: rest)).1, mul_self_nonneg (f - mean2 (f :: rest)).2]
    have h2 : (f - mean2 (f :: rest)).2 = 0 := by nlinarith [mul_self_nonneg (f - mean2 (f :: rest)).1, mul_self_nonneg (f - mean2 (f :: rest)).2]
    apply h; rw [← hp]; unfold det2; rw [h1, h2]; ring

/-- every key is, up to the interchangeable angle-0 keys, the geometric key of its vertex. -/
theorem planeKeys_getElem? {f : K × K} {rest : List (K × K)} (hδ : delta (f :: rest) ≠ 0) {i : Nat} {k : K × K}
    (hk : (planeKeys (f :: rest))[i]? = some k) :
    ∃ p, (f :: rest)[i]? = some p ∧
      let κ := planeKey (delta (f :: rest)) (f - mean2 (f :: rest)) (p - mean2 (f :: rest))
      (k = κ ∨ (rank k = 1 ∧ rank κ = 1)) := by
  have hδ2 : ¬ (delta (f :: rest) * delta (f :: rest) = 0) := by
    intro h; exact hδ (mul_self_eq_zero.mp h)
  simp only [planeKeys, if_neg hδ2] at hk
  cases i with
  | zero =>
    simp at hk
    refine ⟨f, by simp, Or.inr ⟨?_, ?_⟩⟩
    · rw [← hk, rank_eq_one]; simp
    · rw [rank_eq_one]; unfold planeKey det2 dot2; simp only
      constructor
      · ring
      · nlinarith [mul_self_nonneg (f - mean2 (f :: rest)).1, mul_self_nonneg (f - mean2 (f :: rest)).2]
  | succ i =>
    simp only [List.getElem?_cons_succ, List.getElem?_map] at hk
    cases hp : rest[i]? with
    | none => rw [hp] at hk; simp at hk
    | some p =>
      rw [hp] at hk; simp at hk
      exact ⟨p, by simp [hp], Or.inl hk.symm⟩

/-- The vertices are in convex position around their centroid `m`: no vertex lies inside the triangle formed by `m` and two
other vertices (open towards the edge between those two).  Every strictly convex polygon satisfies this; the condition
does not depend on the order in which the vertices are listed. -/
def ConvexPos (ps : List (K × K)) : Prop :=
  ∀ i j k : Nat, ∀ u v w : K × K, ps[i]? = some u → ps[j]? = some v → ps[k]? = some w → i ≠ j → j ≠ k → i ≠ k →
    ¬ InTri (v - mean2 ps) (u - mean2 ps) (w - mean2 ps)

theorem orient2_sub (u v w m : K × K) : orient2 (u - m) (v - m) (w - m) = orient2 u v w := by
  unfold orient2 det2; simp only [Prod.fst_sub, Prod.snd_sub]; ring

/-- **`orderKey_cyclic` in plane coordinates**: after `order_points`, every three vertices taken in list order form a
triangle of one and the same orientation (that of `−δ`): the list is a traversal of the convex polygon along its boundary. -/
theorem orderPoints2_oriented (ps : List (K × K)) (hδ : delta ps ≠ 0) (hc : ConvexPos ps) (x y z : K × K)
    (hsub : [x, y, z].Sublist (orderPoints2 ps)) : 0 ≤ (-(delta ps)) * orient2 x y z := by
  cases ps with
  | nil => simp [orderPoints2, planeKeys, argsortKeys, isortBy] at hsub
  | cons f rest =>
  unfold orderPoints2 at hsub
  rw [argsortKeys_eq, List.map_map] at hsub
  obtain ⟨l', hl', hmap⟩ := List.sublist_map_iff.mp hsub
  match l', hmap with
  | [X, Y, Z], hmap =>
    simp only [List.map_cons, List.map_nil, Function.comp, List.cons.injEq, and_true] at hmap
    obtain ⟨hx, hy, hz⟩ := hmap
    have hpw := (sortedPairs_pairwise (planeKeys (f :: rest))).sublist hl'
    simp only [List.pairwise_cons, List.mem_cons, List.not_mem_nil, or_false, forall_eq_or_imp, forall_eq,
      List.Pairwise.nil, and_true, IsEmpty.forall_iff, implies_true] at hpw
    obtain ⟨⟨hXY, hXZ⟩, hYZ⟩ := hpw
    have hnd : ([X, Y, Z].map (·.2)).Nodup := by
      have := argsortKeys_nodup (planeKeys (f :: rest))
      rw [argsortKeys_eq] at this
      exact this.sublist (hl'.map _)
    simp only [List.map_cons, List.map_nil, List.nodup_cons, List.mem_cons, List.not_mem_nil, or_false, not_or,
      List.nodup_nil, and_true] at hnd
    obtain ⟨⟨hXY', hXZ'⟩, hYZ', _⟩ := hnd
    obtain ⟨u, hu, hku⟩ := planeKeys_getElem? hδ (mem_sortedPairs (hl'.subset (by simp : X ∈ [X, Y, Z])))
    obtain ⟨v, hv, hkv⟩ := planeKeys_getElem? hδ (mem_sortedPairs (hl'.subset (by simp : Y ∈ [X, Y, Z])))
    obtain ⟨w, hw, hkw⟩ := planeKeys_getElem? hδ (mem_sortedPairs (hl'.subset (by simp : Z ∈ [X, Y, Z])))
    have ex : x = u := by rw [hx, List.getD_eq_getElem?_getD, hu]; rfl
    have ey : y = v := by rw [hy, List.getD_eq_getElem?_getD, hv]; rfl
    have ez : z = w := by rw [hz, List.getD_eq_getElem?_getD, hw]; rfl
    rw [ex, ey, ez, ← orient2_sub u v w (mean2 (f :: rest))]
    have hb := first_ne_mean_of_delta hδ
    refine sorted_triple_oriented hb ?_ ?_ ?_ ?_ ?_
    · rw [← angLe_congr hku hkv]; exact hXY
    · rw [← angLe_congr hkv hkw]; exact hYZ
    · exact hc _ _ _ u v w hu hv hw hXY' hYZ' hXZ'
    · exact hc _ _ _ v w u hv hw hu hYZ' (Ne.symm hXZ') (Ne.symm hXY')
    · exact hc _ _ _ w u v hw hu hv (Ne.symm hXZ') hXY' (Ne.symm hYZ')



/-! ### the fan of `get_polygon_area` in plane coordinates -/

/-- determinants of the fan triangles: `det(P₀ − P_k, P_{k+1} − P_k)`, `k = 1 … n−2`. -/
def fanDets : List (K × K) → List K
  | [] => []
  | q0 :: rest => (rest.zip rest.tail).map fun qq => det2 (q0 - qq.1) (qq.2 - qq.1)

/-- `Σ det(q_i, q_{i+1})` along an open chain. -/
def chain : List (K × K) → K
  | a :: b :: t => det2 a b + chain (b :: t)
  | _ => 0

/-- the shoelace sum `Σ (x_i y_{i+1} − x_{i+1} y_i)` over the closed polygon (twice its signed area). -/
def shoelace : List (K × K) → K
  | [] => 0
  | q0 :: rest => chain (q0 :: rest) + det2 (rest.getLastD q0) q0

theorem fanDets_sum_aux (q0 q1 : K × K) (t : List (K × K)) :
    (((q1 :: t).zip t).map fun qq => det2 (q0 - qq.1) (qq.2 - qq.1)).sum
      = -(det2 q0 q1 + chain (q1 :: t) + det2 (t.getLastD q1) q0) := by
  induction t generalizing q1 with
  | nil => simp [chain, det2]; ring
  | cons q2 t ih =>
    rw [List.zip_cons_cons, List.map_cons, List.sum_cons, ih q2]
    simp only [chain, List.getLastD_cons]
    unfold det2; simp only [Prod.fst_sub, Prod.snd_sub]; ring

/-- **Fan identity** (all lists): the signed fan triangles add up to the shoelace sum (with the sign of the code's
cross product `(P₀ − P_k) × (P_{k+1} − P_k)`). -/
theorem fanDets_sum (qs : List (K × K)) : (fanDets qs).sum = -shoelace qs := by
  cases qs with
  | nil => simp [fanDets, shoelace]
  | cons q0 rest =>
    cases rest with
    | nil => simp [fanDets, shoelace, chain, det2]; ring
    | cons q1 t =>
      simp only [fanDets, List.tail_cons, shoelace, chain, List.getLastD_cons]
      rw [fanDets_sum_aux]

theorem sum_abs_of_oriented {σ : K} (hσ : σ ≠ 0) (l : List K) (h : ∀ d ∈ l, 0 ≤ σ * d) :
    (l.map fun d => |d|).sum = |l.sum| := by
  rcases lt_or_gt_of_ne hσ with hs | hs
  · have hall : ∀ d ∈ l, d ≤ 0 := fun d hd => by
      by_contra hpos; rw [not_le] at hpos; nlinarith [h d hd, mul_neg_of_neg_of_pos hs hpos]
    have hsum : l.sum ≤ 0 := by
      clear h
      induction l with
      | nil => simp
      | cons a t ih =>
        rw [List.sum_cons]
        have := hall a (by simp)
        have := ih (fun d hd => hall d (by simp [hd]))
        linarith
    rw [abs_of_nonpos hsum]
    clear h hsum
    induction l with
    | nil => simp
    | cons a t ih =>
      rw [List.map_cons, List.sum_cons, List.sum_cons, ih (fun d hd => hall d (by simp [hd])),
        abs_of_nonpos (hall a (by simp))]; ring
  · have hall : ∀ d ∈ l, 0 ≤ d := fun d hd => by
      by_contra hneg; rw [not_le] at hneg; nlinarith [h d hd, mul_neg_of_pos_of_neg hs hneg]
    have hsum : 0 ≤ l.sum := by
      clear h
      induction l with
      | nil => simp
      | cons a t ih =>
        rw [List.sum_cons]
        have := hall a (by simp)
        have := ih (fun d hd => hall d (by simp [hd]))
        linarith
    rw [abs_of_nonneg hsum]
    clear h hsum
    induction l with
    | nil => simp
    | cons a t ih =>
      rw [List.map_cons, List.sum_cons, List.sum_cons, ih (fun d hd => hall d (by simp [hd])),
        abs_of_nonneg (hall a (by simp))]

/-- the two further vertices of a fan triangle are consecutive in the list. -/
theorem sublist_of_mem_zip_tail {α : Type} {a b : α} : ∀ {l : List α}, (a, b) ∈ l.zip l.tail → [a, b].Sublist l
  | [], h => by simp at h
  | [_], h => by simp at h
  | x :: y :: t, h => by
    simp only [List.tail_cons, List.zip_cons_cons, List.mem_cons, Prod.mk.injEq] at h
    rcases h with ⟨rfl, rfl⟩ | h
    · exact (List.Sublist.cons_cons _ (List.Sublist.cons_cons _ (List.nil_sublist _)))
    · exact List.Sublist.cons _ (sublist_of_mem_zip_tail (l := y :: t) (by simpa using h))

/-- If every three vertices in list order have orientation `σ` (the list walks along a convex polygon), all fan
determinants have the sign of `−σ`… (the code's cross product is the negative of the orientation). -/
theorem fanDets_oriented {σ : K} (qs : List (K × K))
    (h : ∀ x y z, [x, y, z].Sublist qs → 0 ≤ σ * orient2 x y z) : ∀ d ∈ fanDets qs, 0 ≤ (-σ) * d := by
  cases qs with
  | nil => simp [fanDets]
  | cons q0 rest =>
    intro d hd
    simp only [fanDets, List.mem_map] at hd
    obtain ⟨⟨a, b⟩, hab, rfl⟩ := hd
    have hs := sublist_of_mem_zip_tail hab
    have := h q0 a b (List.Sublist.cons_cons _ hs)
    have e : det2 (q0 - a) (b - a) = - orient2 q0 a b := by
      unfold orient2 det2; simp only [Prod.fst_sub, Prod.snd_sub]; ring
    simp only [e]; linarith



/-! ### a plane in space: orthonormal frame, embedding of plane coordinates -/

theorem V3.ext' {a b : V3 K} (h1 : a.x = b.x) (h2 : a.y = b.y) (h3 : a.z = b.z) : a = b := by
  cases a; cases b; simp_all

/-- A plane in ℝ³: a point `o` of the plane and two vectors `e1`, `e2` spanning its directions. -/
structure Frame (K : Type) where
  o : V3 K
  e1 : V3 K
  e2 : V3 K

namespace Frame
variable (F : Frame K)

/-- `e1`, `e2` are orthonormal (`F.Orthonormal`). -/
def Orthonormal : Prop := V3.dot F.e1 F.e1 = 1 ∧ V3.dot F.e2 F.e2 = 1 ∧ V3.dot F.e1 F.e2 = 0

/-- the vector `a.1 · e1 + a.2 · e2`. -/
def lin (a : K × K) : V3 K := (V3.smul a.1 F.e1).add (V3.smul a.2 F.e2)
/-- the point of the plane with plane coordinates `p`. -/
def emb (p : K × K) : V3 K := F.o.add (F.lin p)
/-- the unit normal `e1 × e2`. -/
def W : V3 K := V3.cross F.e1 F.e2

theorem sub_emb (p q : K × K) : (F.emb p).sub (F.emb q) = F.lin (p - q) := by
  apply V3.ext' <;> simp [emb, lin, V3.sub, V3.add, V3.smul] <;> ring

theorem cross_lin (a b : K × K) : V3.cross (F.lin a) (F.lin b) = V3.smul (det2 a b) F.W := by
  apply V3.ext' <;> simp [lin, W, V3.cross, V3.add, V3.smul, det2] <;> ring

theorem dot_lin (h : F.Orthonormal) (a b : K × K) : V3.dot (F.lin a) (F.lin b) = dot2 a b := by
  obtain ⟨h1, h2, h3⟩ := h
  simp only [V3.dot] at h1 h2 h3
  simp only [lin, V3.dot, V3.add, V3.smul, dot2]
  linear_combination (a.1 * b.1) * h1 + (a.2 * b.2) * h2 + (a.1 * b.2 + a.2 * b.1) * h3

theorem dot_W (h : F.Orthonormal) : V3.dot F.W F.W = 1 := by
  obtain ⟨h1, h2, h3⟩ := h
  simp only [V3.dot] at h1 h2 h3
  simp only [W, V3.dot, V3.cross]
  linear_combination (F.e2.x * F.e2.x + F.e2.y * F.e2.y + F.e2.z * F.e2.z) * h1 + h2
    - (F.e1.x * F.e2.x + F.e1.y * F.e2.y + F.e1.z * F.e2.z) * h3

theorem dot_smul_W (h : F.Orthonormal) (c d : K) : V3.dot (V3.smul c F.W) (V3.smul d F.W) = c * d := by
  have := F.dot_W h
  simp only [V3.dot, V3.smul] at this ⊢
  linear_combination (c * d) * this

theorem nrm2_smul_W (h : F.Orthonormal) (d : K) : V3.nrm2 (V3.smul d F.W) = d * d := F.dot_smul_W h d d

theorem zero_eq_smul_W : (V3.zero : V3 K) = V3.smul 0 F.W := by
  apply V3.ext' <;> simp [V3.zero, V3.smul]

theorem vsum_emb (ps : List (K × K)) :
    vsum (ps.map F.emb) = (V3.smul (ps.length : K) F.o).add (F.lin ((ps.map Prod.fst).sum, (ps.map Prod.snd).sum)) := by
  induction ps with
  | nil => apply V3.ext' <;> simp [vsum, V3.zero, V3.smul, V3.add, lin]
  | cons p t ih =>
    simp only [List.map_cons, vsum, List.foldr_cons] at ih ⊢
    rw [ih]
    apply V3.ext' <;> simp [emb, lin, V3.add, V3.smul] <;> ring

theorem mean_emb (ps : List (K × K)) (hne : ps ≠ []) : mean (ps.map F.emb) = F.emb (mean2 ps) := by
  have hn : (ps.length : K) ≠ 0 := by
    have : 0 < ps.length := List.length_pos_iff.mpr hne
    exact_mod_cast this.ne'
  unfold mean
  rw [vsum_emb, List.length_map]
  apply V3.ext' <;> simp [emb, lin, V3.add, V3.smul, V3.sdiv, mean2] <;> field_simp

end Frame

/-! ### `order_points` of an embedded plane polygon, computed in plane coordinates -/

theorem allNormals_emb (F : Frame K) (ps : List (K × K)) :
    allNormals (ps.map F.emb) = (normalDets ps).map fun d => V3.smul d F.W := by
  cases ps with
  | nil => simp [allNormals, normalDets]
  | cons f rest =>
    have hm := F.mean_emb (f :: rest) (by simp)
    simp only [List.map_cons] at hm
    simp only [allNormals, normalDets, List.map_cons, List.map_map, hm, Frame.sub_emb]
    apply List.map_congr_left
    intro p _
    simp only [Function.comp, Frame.sub_emb, Frame.cross_lin]

theorem normalVector_emb (F : Frame K) (h : F.Orthonormal) (ps : List (K × K)) :
    normalVector (ps.map F.emb) = V3.smul (delta ps) F.W := by
  unfold normalVector delta
  simp only [allNormals_emb, List.map_map]
  have e : (V3.nrm2 ∘ fun d => V3.smul d F.W) = fun d : K => d * d := by
    funext d; exact F.nrm2_smul_W h d
  rw [e, F.zero_eq_smul_W, List.getD_eq_getElem?_getD, List.getD_eq_getElem?_getD, List.getElem?_map]
  cases (normalDets ps)[argmaxFirst ((normalDets ps).map fun d => d * d)]? <;> simp

/-- **the `arctan2` arguments of an embedded polygon are those of its plane coordinates.** -/
theorem alphaKeys_emb (F : Frame K) (h : F.Orthonormal) (ps : List (K × K)) :
    alphaKeys (ps.map F.emb) = planeKeys ps := by
  cases ps with
  | nil => simp [alphaKeys, planeKeys]
  | cons f rest =>
    have hm := F.mean_emb (f :: rest) (by simp)
    have hn := normalVector_emb F h (f :: rest)
    simp only [List.map_cons] at hm hn
    simp only [alphaKeys, planeKeys, List.map_cons, hn, hm, F.nrm2_smul_W h, List.map_map]
    split_ifs
    · rfl
    · congr 1
      apply List.map_congr_left
      intro p _
      simp only [Function.comp, alphaKey, Frame.sub_emb, Frame.cross_lin, F.dot_smul_W h, F.dot_lin h, planeKey]
      rw [mul_comm]

theorem orderIdx_emb (F : Frame K) (h : F.Orthonormal) (ps : List (K × K)) :
    orderIdx (ps.map F.emb) = argsortKeys (planeKeys ps) := by
  unfold orderIdx
  rw [alphaKeys_emb F h, List.length_map]
  split_ifs with h1
  · match ps, h1 with
    | [p], _ => simp [planeKeys, argsortKeys, List.zipIdx, isortBy, insertBy]
  · rfl

/-- **`order_points` of a plane polygon is `order_points` of its plane coordinates.** -/
theorem orderPoints_emb (F : Frame K) (h : F.Orthonormal) (ps : List (K × K)) :
    orderPoints (ps.map F.emb) = (orderPoints2 ps).map F.emb := by
  unfold orderPoints orderPoints2
  rw [orderIdx_emb F h, List.map_map]
  apply List.map_congr_left
  intro i hi
  have hlt : i < ps.length := by
    have := (argsortKeys_perm (planeKeys ps)).mem_iff.mp hi
    rw [planeKeys_length] at this; simpa using this
  simp [List.getD_eq_getElem?_getD, List.getElem?_map, List.getElem?_eq_getElem hlt]

/-! ### `get_polygon_area` of an embedded plane polygon -/

theorem fanCrosses_emb (F : Frame K) (qs : List (K × K)) :
    fanCrosses (qs.map F.emb) = (fanDets qs).map fun d => V3.smul d F.W := by
  cases qs with
  | nil => simp [fanCrosses, fanDets]
  | cons q0 rest =>
    simp only [List.map_cons, fanCrosses, fanDets, List.map_map, ← List.map_tail, List.zip_map]
    apply List.map_congr_left
    intro qq _
    simp only [Function.comp, Prod.map, Frame.sub_emb, Frame.cross_lin]

theorem absK_eq_abs (a : K) : absK a = |a| := by
  unfold absK; split_ifs with h
  · exact (abs_of_neg h).symm
  · exact (abs_of_nonneg (not_lt.mp h)).symm

/-- A Euclidean norm: non-negative, and its square is the sum of the squared components. -/
def IsNorm (nrm : V3 K → K) : Prop := (∀ v, 0 ≤ nrm v) ∧ ∀ v, nrm v * nrm v = V3.nrm2 v

theorem nrm_smul_W {nrm : V3 K → K} (hn : IsNorm nrm) (F : Frame K) (h : F.Orthonormal) (d : K) :
    nrm (V3.smul d F.W) = |d| := by
  have h2 := hn.2 (V3.smul d F.W)
  rw [F.nrm2_smul_W h, ← abs_mul_abs_self d] at h2
  exact (mul_self_inj_of_nonneg (hn.1 _) (abs_nonneg d)).mp h2

/-- `get_polygon_area` of an embedded polygon is half the sum of the absolute fan determinants. -/
theorem fanArea_emb {nrm : V3 K → K} (hn : IsNorm nrm) (F : Frame K) (h : F.Orthonormal) (qs : List (K × K)) :
    fanArea nrm (qs.map F.emb) = ((fanDets qs).map fun d => |d|).sum / 2 := by
  unfold fanArea
  rw [fanCrosses_emb, List.map_map, ← List.sum_eq_foldr]
  have e : ((fun v => absK (nrm v) / (1 + 1)) ∘ fun d => V3.smul d F.W) = fun d : K => |d| / 2 := by
    funext d
    simp only [Function.comp, nrm_smul_W hn F h, absK_eq_abs, abs_abs]
    norm_num
  rw [e]
  induction fanDets qs with
  | nil => simp
  | cons a t ih => simp only [List.map_cons, List.sum_cons, ih]; ring


/-! ### every vertex exactly once -/

theorem alphaKeys_length (ps : List (V3 K)) : (alphaKeys ps).length = ps.length := by
  cases ps with
  | nil => rfl
  | cons f rest => simp only [alphaKeys]; split_ifs <;> simp

theorem orderIdx_perm (ps : List (V3 K)) : (orderIdx ps).Perm (List.range ps.length) := by
  unfold orderIdx
  split_ifs with h
  · rw [h]; simp [List.range_succ]
  · rw [← alphaKeys_length]; exact argsortKeys_perm _

theorem map_getD_range {α : Type} (l : List α) (d : α) : (List.range l.length).map (fun i => l.getD i d) = l := by
  apply List.ext_getElem
  · simp
  · intro i h1 h2
    simp at h1
    simp [List.getD_eq_getElem?_getD, List.getElem?_eq_getElem h1]

theorem orderPoints2_perm (ps : List (K × K)) : (orderPoints2 ps).Perm ps := by
  unfold orderPoints2
  have h := (argsortKeys_perm (planeKeys ps)).map fun i => ps.getD i 0
  rw [planeKeys_length, map_getD_range] at h
  exact h

/-! ### Euclidean norm -/

theorem nrm_eq_of_nrm2_eq {nrm : V3 K → K} (hn : IsNorm nrm) {v w : V3 K} (h : V3.nrm2 v = V3.nrm2 w) :
    nrm v = nrm w := by
  apply (mul_self_inj_of_nonneg (hn.1 v) (hn.1 w)).mp
  rw [hn.2, hn.2, h]

theorem nrm2_sub_comm (p q : V3 K) : V3.nrm2 (p.sub q) = V3.nrm2 (q.sub p) := by
  simp only [V3.nrm2, V3.dot, V3.sub]; ring

theorem nrm2_pos_of_ne {p q : V3 K} (h : p ≠ q) : 0 < V3.nrm2 (p.sub q) := by
  simp only [V3.nrm2, V3.dot, V3.sub]
  by_contra hle
  rw [not_lt] at hle
  apply h
  have h1 := mul_self_nonneg (p.x - q.x)
  have h2 := mul_self_nonneg (p.y - q.y)
  have h3 := mul_self_nonneg (p.z - q.z)
  apply V3.ext'
  · have : (p.x - q.x) * (p.x - q.x) = 0 := by linarith
    exact sub_eq_zero.mp (mul_self_eq_zero.mp this)
  · have : (p.y - q.y) * (p.y - q.y) = 0 := by linarith
    exact sub_eq_zero.mp (mul_self_eq_zero.mp this)
  · have : (p.z - q.z) * (p.z - q.z) = 0 := by linarith
    exact sub_eq_zero.mp (mul_self_eq_zero.mp this)

theorem nrm_pos_of_ne {nrm : V3 K → K} (hn : IsNorm nrm) {p q : V3 K} (h : p ≠ q) : 0 < nrm (p.sub q) := by
  have h2 := nrm2_pos_of_ne h
  rw [← hn.2] at h2
  rcases (hn.1 (p.sub q)).lt_or_eq with hlt | heq
  · exact hlt
  · rw [← heq] at h2; simp at h2

/-! ### loops over the adjacency entries (`List.mapM` in `Except`) -/

theorem mapM_ok {α β : Type} (f : α → Except String β) :
    ∀ (l : List α) (r : List β), l.mapM f = .ok r →
      r.length = l.length ∧ ∀ (k : Nat) (a : α), l[k]? = some a → ∃ b, f a = .ok b ∧ r[k]? = some b
  | [], r, h => by
    simp only [List.mapM_nil, pure, Except.pure, Except.ok.injEq] at h
    subst h; simp
  | a :: t, r, h => by
    rw [List.mapM_cons] at h
    cases hfa : f a with
    | error e => rw [hfa] at h; simp [bind, Except.bind] at h
    | ok b =>
      rw [hfa] at h
      cases ht : t.mapM f with
      | error e => rw [ht] at h; simp [bind, Except.bind] at h
      | ok bs =>
        rw [ht] at h
        simp only [bind, Except.bind, pure, Except.pure, Except.ok.injEq] at h
        subst h
        obtain ⟨hl, hk⟩ := mapM_ok f t bs ht
        refine ⟨by simp [hl], ?_⟩
        intro k x hx
        cases k with
        | zero => simp at hx; subst hx; exact ⟨b, hfa, by simp⟩
        | succ k => simp at hx; simpa using hk k x hx

/-! ### the extended point set -/

theorem positions_append (o : List (V3 K)) (t : List K) (x : K) :
    positions o (t ++ [x]) = positions o t ++ o.map (V3.smul x) := by
  simp [positions, List.flatMap_append]

theorem positions_length (o : List (V3 K)) (t : List K) : (positions o t).length = t.length * o.length := by
  induction t with
  | nil => simp [positions]
  | cons a t ih =>
    simp only [positions, List.flatMap_cons, List.length_append, List.length_map, List.length_cons] at ih ⊢
    rw [ih, Nat.succ_mul, Nat.add_comm]

/-- row `k·n_o + i` of `_t_and_o_2_positions` is `o[i] * t[k]`. -/
theorem positions_getElem? (o : List (V3 K)) (t : List K) (k i : Nat) (hi : i < o.length) :
    (positions o t)[k * o.length + i]? = (t[k]?).bind fun r => (o[i]?).map (V3.smul r) := by
  induction t generalizing k with
  | nil => simp [positions]
  | cons a t ih =>
    simp only [positions, List.flatMap_cons] at ih ⊢
    cases k with
    | zero =>
      rw [List.getElem?_append_left (by simpa using hi)]
      simp
    | succ k =>
      rw [List.getElem?_append_right (by simp [Nat.succ_mul]; omega)]
      have : (k + 1) * o.length + i - (List.map (V3.smul a) o).length = k * o.length + i := by
        simp [Nat.succ_mul]; omega
      rw [this, ih]
      simp

theorem lastIncrement_single (a : K) : lastIncrement [a] = some a := rfl

theorem lastIncrement_append_two (t : List K) (p l : K) : lastIncrement (t ++ [p, l]) = some (l - p) := by
  induction t with
  | nil => rfl
  | cons a t ih =>
    cases t with
    | nil => simp [lastIncrement]
    | cons b t' =>
      have : lastIncrement (a :: b :: t' ++ [p, l]) = lastIncrement (b :: t' ++ [p, l]) := by
        simp only [List.cons_append]
        cases h : t' ++ [p, l] with
        | nil => simp at h
        | cons c u => simp [lastIncrement]
      rw [this]; exact ih

/-! ### border polygons -/

theorem sharedIdx_comm (nV : Nat) (rr cr : List Int) : sharedIdx nV rr cr = sharedIdx nV cr rr := by
  unfold sharedIdx; congr 1; funext i; exact Bool.and_comm _ _

theorem regionOf_error {v : Vor K} {p : Nat} {e : String} (h : regionOf v p = .error e) : e = "IndexError" := by
  unfold regionOf at h
  split at h
  · simpa [throw, throwThe, MonadExceptOf.throw] using h.symm
  · split at h
    · simpa [throw, throwThe, MonadExceptOf.throw] using h.symm
    · simp [pure, Except.pure] at h

theorem borderPolygon_comm (v : Vor K) (row col : Nat) : borderPolygon v row col = borderPolygon v col row := by
  unfold borderPolygon
  cases h1 : regionOf v row with
  | error e1 =>
    cases h2 : regionOf v col with
    | error e2 => simp [bind, Except.bind, regionOf_error h1, regionOf_error h2]
    | ok cr => simp [bind, Except.bind]
  | ok rr =>
    cases h2 : regionOf v col with
    | error e2 => simp [bind, Except.bind]
    | ok cr => simp [bind, Except.bind, pure, Except.pure, sharedIdx_comm]

/-! ### strictly convex position implies `ConvexPos` -/

/-- Every vertex is an exposed point: a line separates it strictly from all other vertices (`ℓ` is the normal of the line). -/
def StrictlyConvex (ps : List (K × K)) : Prop :=
  ∀ (j : Nat) (v : K × K), ps[j]? = some v →
    ∃ ℓ : K × K, ∀ (i : Nat) (u : K × K), ps[i]? = some u → i ≠ j → dot2 ℓ u < dot2 ℓ v

theorem list_sum_le_of_le (l : List K) (L : K) (h : ∀ x ∈ l, x ≤ L) : l.sum ≤ l.length * L := by
  induction l with
  | nil => simp
  | cons a t ih =>
    have h1 := h a (by simp)
    have h2 := ih (fun x hx => h x (by simp [hx]))
    simp only [List.sum_cons, List.length_cons, Nat.cast_add, Nat.cast_one]
    linarith

theorem list_sum_lt_of_le_of_lt (l : List K) (L : K) (h : ∀ x ∈ l, x ≤ L) (hlt : ∃ x ∈ l, x < L) :
    l.sum < l.length * L := by
  induction l with
  | nil => obtain ⟨x, hx, _⟩ := hlt; simp at hx
  | cons a t ih =>
    simp only [List.sum_cons, List.length_cons, Nat.cast_add, Nat.cast_one]
    obtain ⟨x, hx, hxL⟩ := hlt
    have ha := h a (by simp)
    have ht := list_sum_le_of_le t L (fun y hy => h y (by simp [hy]))
    rcases List.mem_cons.mp hx with rfl | hx
    · linarith
    · have := ih (fun y hy => h y (by simp [hy])) ⟨x, hx, hxL⟩
      linarith

theorem dot2_mean2 (ℓ : K × K) (ps : List (K × K)) :
    dot2 ℓ (mean2 ps) = (ps.map (dot2 ℓ)).sum / (ps.length : K) := by
  have : (ps.map (dot2 ℓ)).sum = ℓ.1 * (ps.map Prod.fst).sum + ℓ.2 * (ps.map Prod.snd).sum := by
    induction ps with
    | nil => simp
    | cons p t ih => simp only [List.map_cons, List.sum_cons, ih, dot2]; ring
  rw [this]; simp only [dot2, mean2]; ring

/-- **A strictly convex polygon satisfies `ConvexPos`** (with respect to its own centroid), whatever the order of its
vertices: the hypothesis of `orderKey_cyclic` is the textbook notion. -/
theorem convexPos_of_strictlyConvex (ps : List (K × K)) (h : StrictlyConvex ps) : ConvexPos ps := by
  intro i j k u v w hi hj hk hij hjk hik
  rintro ⟨α, β, hα, hβ, hαβ, heq⟩
  obtain ⟨ℓ, hℓ⟩ := h j v hj
  have ha := hℓ i u hi hij
  have hb := hℓ k w hk (Ne.symm hjk)
  -- the centroid lies strictly below the supporting line
  have hn : (0 : K) < ps.length := by
    have := (List.getElem?_eq_some_iff.mp hj).1
    exact_mod_cast (Nat.zero_lt_of_lt this)
  have hμ : dot2 ℓ (mean2 ps) < dot2 ℓ v := by
    rw [dot2_mean2, div_lt_iff₀ hn, mul_comm]
    have := list_sum_lt_of_le_of_lt (ps.map (dot2 ℓ)) (dot2 ℓ v) (by
      intro x hx
      obtain ⟨p, hp, rfl⟩ := List.mem_map.mp hx
      obtain ⟨m, hm⟩ := List.getElem?_of_mem hp
      by_cases hmj : m = j
      · subst hmj; rw [hj] at hm; cases hm; exact le_refl _
      · exact (hℓ m p hm hmj).le)
      ⟨dot2 ℓ u, List.mem_map.mpr ⟨u, List.mem_of_getElem? hi, rfl⟩, ha⟩
    rwa [List.length_map] at this
  -- apply ℓ to the barycentric relation
  have h1 := congrArg Prod.fst heq
  have h2 := congrArg Prod.snd heq
  simp only [Prod.fst_sub, Prod.snd_sub] at h1 h2
  have hlin : dot2 ℓ v - dot2 ℓ (mean2 ps)
      = α * (dot2 ℓ u - dot2 ℓ (mean2 ps)) + β * (dot2 ℓ w - dot2 ℓ (mean2 ps)) := by
    simp only [dot2]
    linear_combination ℓ.1 * h1 + ℓ.2 * h2
  have g : 0 < dot2 ℓ v - dot2 ℓ (mean2 ps) := by linarith
  nlinarith [mul_le_mul_of_nonneg_left (show dot2 ℓ u - dot2 ℓ (mean2 ps) ≤ dot2 ℓ v - dot2 ℓ (mean2 ps) by linarith) hα,
    mul_le_mul_of_nonneg_left (show dot2 ℓ w - dot2 ℓ (mean2 ps) ≤ dot2 ℓ v - dot2 ℓ (mean2 ps) by linarith) hβ,
    mul_pos g (show 0 < 1 - (α + β) by linarith)]

end Molgri.Polygon
