/-
Helper lemmas about the polytope model (`Molgri/Model/Polytope.lean`) that hold for every polytope class:
coordinates as functions, `add_node` / midpoint insertion, index assignment, edge passes.
-/
import Molgri.Model.Polytope
namespace Molgri.Polytope


/-! ### coordinates as functions -/
def co (p : Pt) (i : Nat) : Int := p.getD i 0

theorem co_dbl (p : Pt) (i : Nat) : co (dbl p) i = 2 * co p i := by
  unfold co dbl
  induction p generalizing i with
  | nil => simp
  | cons a t ih => cases i <;> simp_all

theorem co_neg (p : Pt) (i : Nat) : co (neg p) i = - co p i := by
  unfold co neg
  induction p generalizing i with
  | nil => simp
  | cons a t ih => cases i <;> simp_all

theorem co_mid (p q : Pt) (i : Nat) (h : p.length = q.length) : co (mid p q) i = co p i + co q i := by
  unfold co mid
  induction p generalizing q i with
  | nil => cases q <;> simp_all
  | cons a t ih =>
    cases q with
    | nil => simp at h
    | cons b u =>
      cases i with
      | zero => simp
      | succ n => simp at h; simpa using ih u n h

@[simp] theorem len_dbl (p : Pt) : (dbl p).length = p.length := by simp [dbl]
@[simp] theorem len_neg (p : Pt) : (neg p).length = p.length := by simp [neg]
theorem len_mid (p q : Pt) (h : p.length = q.length) : (mid p q).length = p.length := by simp [mid, h]

theorem pt_ext (p q : Pt) (h : p.length = q.length) (hc : ∀ i, i < p.length → co p i = co q i) : p = q := by
  induction p generalizing q with
  | nil => cases q <;> simp_all
  | cons a t ih =>
    cases q with
    | nil => simp at h
    | cons b u =>
      have h0 := hc 0 (by simp)
      simp [co] at h0
      subst h0
      congr 1
      apply ih u (by simpa using h)
      intro i hi
      have := hc (i+1) (by simpa using hi)
      simpa [co] using this

theorem dbl_inj {p q : Pt} (h : dbl p = dbl q) : p = q := by
  have hl : p.length = q.length := by simpa using congrArg List.length h
  apply pt_ext p q hl
  intro i _
  have := congrArg (fun r => co r i) h
  simp [co_dbl] at this
  omega


theorem hasNode_iff (l : List Node) (p : Pt) : hasNode l p = true ↔ p ∈ l.map (·.pt) := by
  simp [hasNode, List.any_eq_true]

theorem addNode_pts (l : List Node) (nd : Node) :
    (addNode l nd).map (·.pt) = if nd.pt ∈ l.map (·.pt) then l.map (·.pt) else l.map (·.pt) ++ [nd.pt] := by
  unfold addNode
  by_cases h : hasNode l nd.pt = true
  · have h' := (hasNode_iff l nd.pt).1 h
    rw [if_pos h, if_pos h']
    rw [List.map_map]
    apply List.map_congr_left
    intro a _
    by_cases ha : a.pt = nd.pt <;> simp [ha]
  · have h' : ¬ nd.pt ∈ l.map (·.pt) := fun hh => h ((hasNode_iff l nd.pt).2 hh)
    rw [if_neg h, if_neg h']
    simp

theorem mem_addNode_pts (l : List Node) (nd : Node) (p : Pt) :
    p ∈ (addNode l nd).map (·.pt) ↔ p ∈ l.map (·.pt) ∨ p = nd.pt := by
  rw [addNode_pts]
  split
  · constructor
    · intro h; exact Or.inl h
    · rintro (h | h)
      · exact h
      · subst h; assumption
  · simp

theorem nodup_addNode_pts (l : List Node) (nd : Node) (h : (l.map (·.pt)).Nodup) :
    ((addNode l nd).map (·.pt)).Nodup := by
  rw [addNode_pts]
  split
  · exact h
  · rename_i hn
    rw [List.nodup_append]
    refine ⟨h, by simp, ?_⟩
    intro a ha b hb
    simp at hb
    subst hb
    intro hab
    subst hab
    exact hn ha

theorem mem_addNode (l : List Node) (nd x : Node) (hx : x ∈ addNode l nd) :
    x ∈ l ∨ x = nd ∨ ∃ n ∈ l, n.pt = nd.pt ∧ x = { n with level := nd.level, face := nd.face } := by
  unfold addNode at hx
  split at hx
  · simp only [List.mem_map] at hx
    obtain ⟨n, hn, rfl⟩ := hx
    by_cases h : n.pt = nd.pt
    · right; right; exact ⟨n, hn, h, by simp [h]⟩
    · left; simpa [h] using hn
  · simp at hx
    rcases hx with h | h
    · exact Or.inl h
    · exact Or.inr (Or.inl h)

/-- a midpoint that is no old node only touches the part appended so far. -/
theorem addNode_append (l0 ex : List Node) (nd : Node) (h : nd.pt ∉ l0.map (·.pt)) :
    addNode (l0 ++ ex) nd = l0 ++ addNode ex nd := by
  have h0 : hasNode l0 nd.pt = false := by
    cases hh : hasNode l0 nd.pt
    · rfl
    · exact absurd ((hasNode_iff _ _).1 hh) h
  unfold addNode
  have : hasNode (l0 ++ ex) nd.pt = hasNode ex nd.pt := by
    simp [hasNode, List.any_append] at h0 ⊢
    intro x hx hxe
    exact absurd hxe (h0 x hx)
  rw [this]
  split
  · rw [List.map_append]
    congr 1
    conv => rhs; rw [← List.map_id l0]
    apply List.map_congr_left
    intro a ha
    have : a.pt ≠ nd.pt := by
      intro hh; apply h; rw [← hh]; exact List.mem_map_of_mem ha
    simp [this]
  · simp

section fold
variable {α : Type} (f : α → Node)

theorem foldl_addNode_append (l0 : List Node) (es : List α) (ex : List Node)
    (h : ∀ e ∈ es, (f e).pt ∉ l0.map (·.pt)) :
    es.foldl (fun acc e => addNode acc (f e)) (l0 ++ ex) = l0 ++ es.foldl (fun acc e => addNode acc (f e)) ex := by
  induction es generalizing ex with
  | nil => rfl
  | cons e t ih =>
    simp only [List.foldl_cons]
    rw [addNode_append l0 ex (f e) (h e (by simp))]
    exact ih _ (fun e' he' => h e' (by simp [he']))

theorem foldl_addNode_pts (es : List α) (ex : List Node) (p : Pt) :
    p ∈ (es.foldl (fun acc e => addNode acc (f e)) ex).map (·.pt) ↔ p ∈ ex.map (·.pt) ∨ ∃ e ∈ es, p = (f e).pt := by
  induction es generalizing ex with
  | nil => simp
  | cons e t ih =>
    simp only [List.foldl_cons]
    rw [ih, mem_addNode_pts]
    constructor
    · rintro ((h | h) | ⟨e', he', h⟩)
      · exact Or.inl h
      · exact Or.inr ⟨e, by simp, h⟩
      · exact Or.inr ⟨e', by simp [he'], h⟩
    · rintro (h | ⟨e', he', h⟩)
      · exact Or.inl (Or.inl h)
      · simp at he'
        rcases he' with rfl | he'
        · exact Or.inl (Or.inr h)
        · exact Or.inr ⟨e', he', h⟩

theorem foldl_addNode_nodup (es : List α) (ex : List Node) (h : (ex.map (·.pt)).Nodup) :
    ((es.foldl (fun acc e => addNode acc (f e)) ex).map (·.pt)).Nodup := by
  induction es generalizing ex with
  | nil => exact h
  | cons e t ih => exact ih _ (nodup_addNode_pts ex (f e) h)

theorem foldl_addNode_all (Q : Node → Prop) (es : List α) (ex : List Node)
    (h0 : ∀ x ∈ ex, Q x) (h1 : ∀ e ∈ es, Q (f e))
    (h2 : ∀ n e, Q n → e ∈ es → n.pt = (f e).pt → Q { n with level := (f e).level, face := (f e).face }) :
    ∀ x ∈ es.foldl (fun acc e => addNode acc (f e)) ex, Q x := by
  induction es generalizing ex with
  | nil => exact h0
  | cons e t ih =>
    simp only [List.foldl_cons]
    apply ih
    · intro x hx
      rcases mem_addNode ex (f e) x hx with h | h | ⟨n, hn, hp, rfl⟩
      · exact h0 x h
      · subst h; exact h1 e (by simp)
      · exact h2 n e (h0 n hn) (by simp) hp
    · intro e' he'; exact h1 e' (by simp [he'])
    · intro n e' hn he'; exact h2 n e' hn (by simp [he'])
end fold

/-- the node `_add_average_point_and_edges` adds for the edge `e`. -/
def midNode (s : St) (e : Pt × Pt) : Node :=
  ⟨mid e.1 e.2, s.cur, interFace (faceOf s.nodes e.1) (faceOf s.nodes e.2), 0⟩
/-- the new nodes of a division in order of first appearance. -/
def extraNodes (s : St) : List Node := s.edges.foldl (fun ex e => addNode ex (midNode s e)) []
/-- no midpoint coincides with an existing node. -/
def Fresh (s : St) : Prop := ∀ e ∈ s.edges, ∀ nd ∈ s.nodes, mid e.1 e.2 ≠ dbl nd.pt

def dblNode (nd : Node) : Node := { nd with pt := dbl nd.pt }

theorem addMid_nodes (s : St) (h : Fresh s) :
    (addMidEdgeNodes s).nodes = s.nodes.map dblNode ++ extraNodes s := by
  unfold addMidEdgeNodes extraNodes
  simp only
  have := foldl_addNode_append (midNode s) (s.nodes.map dblNode) s.edges [] (by
    intro e he hm
    simp only [List.map_map, List.mem_map] at hm
    obtain ⟨nd, hnd, hh⟩ := hm
    exact h e he nd hnd hh.symm)
  rw [List.append_nil] at this
  exact this

theorem extraNodes_spec (s : St) :
    (∀ x ∈ extraNodes s, x.level = s.cur ∧ x.idx = 0 ∧ ∃ e ∈ s.edges, x.pt = mid e.1 e.2 ∧
        x.face = interFace (faceOf s.nodes e.1) (faceOf s.nodes e.2)) ∧
    (∀ p, p ∈ (extraNodes s).map (·.pt) ↔ ∃ e ∈ s.edges, p = mid e.1 e.2) ∧
    ((extraNodes s).map (·.pt)).Nodup := by
  refine ⟨?_, ?_, ?_⟩
  · apply foldl_addNode_all (midNode s)
    · simp
    · intro e he; exact ⟨rfl, rfl, e, he, rfl, rfl⟩
    · rintro n e ⟨h1, h2, _⟩ he hp
      exact ⟨rfl, h2, e, he, hp, rfl⟩
  · intro p
    have := foldl_addNode_pts (midNode s) s.edges [] p
    simpa [midNode, extraNodes] using this
  · exact foldl_addNode_nodup (midNode s) s.edges [] (by simp)



/-- what `_end_of_divison` keeps of a node. -/
def SameBut (lvl : Nat) (nd x : Node) : Prop :=
  x.pt = nd.pt ∧ x.level = nd.level ∧ x.face = nd.face ∧ (nd.level ≠ lvl → x.idx = nd.idx)

theorem mem_assignGo (σ : Nat → Nat) (lvl base : Nat) (l : List Node) (j : Nat) (x : Node)
    (hx : x ∈ assignGo σ lvl base l j) : ∃ nd ∈ l, SameBut lvl nd x := by
  induction l generalizing j with
  | nil => simp [assignGo] at hx
  | cons a t ih =>
    unfold assignGo at hx
    split at hx
    · rcases List.mem_cons.1 hx with rfl | h
      · exact ⟨a, by simp, rfl, rfl, rfl, fun h => absurd ‹_› h⟩
      · obtain ⟨nd, hnd, hs⟩ := ih _ h
        exact ⟨nd, by simp [hnd], hs⟩
    · rcases List.mem_cons.1 hx with rfl | h
      · exact ⟨x, by simp, rfl, rfl, rfl, fun _ => rfl⟩
      · obtain ⟨nd, hnd, hs⟩ := ih _ h
        exact ⟨nd, by simp [hnd], hs⟩

theorem assignGo_mem (σ : Nat → Nat) (lvl base : Nat) (l : List Node) (j : Nat) (nd : Node)
    (hnd : nd ∈ l) : ∃ x ∈ assignGo σ lvl base l j, SameBut lvl nd x := by
  induction l generalizing j with
  | nil => simp at hnd
  | cons a t ih =>
    unfold assignGo
    split
    · rcases List.mem_cons.1 hnd with rfl | h
      · exact ⟨_, List.mem_cons_self, rfl, rfl, rfl, fun h => absurd ‹_› h⟩
      · obtain ⟨x, hx, hs⟩ := ih (j + 1) h
        exact ⟨x, List.mem_cons_of_mem _ hx, hs⟩
    · rcases List.mem_cons.1 hnd with rfl | h
      · exact ⟨nd, by simp, rfl, rfl, rfl, fun _ => rfl⟩
      · obtain ⟨x, hx, hs⟩ := ih j h
        exact ⟨x, List.mem_cons_of_mem _ hx, hs⟩

theorem assignGo_map_pt (σ : Nat → Nat) (lvl base : Nat) (l : List Node) (j : Nat) :
    (assignGo σ lvl base l j).map (·.pt) = l.map (·.pt) := by
  induction l generalizing j with
  | nil => simp [assignGo]
  | cons a t ih => unfold assignGo; split <;> simp [ih]

theorem assignGo_map_level (σ : Nat → Nat) (lvl base : Nat) (l : List Node) (j : Nat) :
    (assignGo σ lvl base l j).map (·.level) = l.map (·.level) := by
  induction l generalizing j with
  | nil => simp [assignGo]
  | cons a t ih => unfold assignGo; split <;> simp [ih]

theorem assignGo_of_ne (σ : Nat → Nat) (lvl base : Nat) (l : List Node) (j : Nat)
    (h : ∀ nd ∈ l, nd.level ≠ lvl) : assignGo σ lvl base l j = l := by
  induction l generalizing j with
  | nil => simp [assignGo]
  | cons a t ih =>
    unfold assignGo
    have ha := h a (by simp)
    simp only [ha, if_false]
    rw [ih _ (fun nd hnd => h nd (by simp [hnd]))]

theorem assignGo_append_of_ne (σ : Nat → Nat) (lvl base : Nat) (a b : List Node) (j : Nat)
    (h : ∀ nd ∈ a, nd.level ≠ lvl) :
    assignGo σ lvl base (a ++ b) j = a ++ assignGo σ lvl base b j := by
  induction a generalizing j with
  | nil => simp
  | cons x t ih =>
    have hx := h x (by simp)
    simp only [List.cons_append]
    rw [assignGo]
    simp only [hx, if_false]
    rw [ih _ (fun nd hnd => h nd (by simp [hnd]))]

theorem assignGo_all_idx (σ : Nat → Nat) (lvl base : Nat) (l : List Node) (j : Nat)
    (h : ∀ nd ∈ l, nd.level = lvl) :
    (assignGo σ lvl base l j).map (·.idx) = (List.range' j l.length).map (fun i => base + σ i) := by
  induction l generalizing j with
  | nil => simp [assignGo]
  | cons a t ih =>
    have ha := h a (by simp)
    rw [assignGo]
    simp only [ha, if_true, List.map_cons, List.length_cons, List.range'_succ]
    rw [ih _ (fun nd hnd => h nd (by simp [hnd]))]

theorem filter_level_append (old extra : List Node) (c : Nat) (h1 : ∀ nd ∈ old, nd.level < c)
    (h2 : ∀ nd ∈ extra, nd.level = c) :
    (old ++ extra).filter (fun nd => nd.level == c) = extra := by
  rw [List.filter_append]
  have : old.filter (fun nd => nd.level == c) = [] := by
    rw [List.filter_eq_nil_iff]
    intro a ha
    have := h1 a ha
    simp; omega
  rw [this, List.nil_append, List.filter_eq_self]
  intro a ha
  simp [h2 a ha]

/-- the shuffle is a permutation, whatever the level and the number of new nodes. -/
def PermFam (σ : Nat → Nat → Nat → Nat) : Prop := ∀ l n, ((List.range n).map (σ l n)).Perm (List.range n)

/-- index bookkeeping invariant of a polytope object between two divisions. -/
structure Good (s : St) : Prop where
  lvl : ∀ nd ∈ s.nodes, nd.level < s.cur
  perm : (s.nodes.map (·.idx)).Perm (List.range s.maxCi)
  mono : ∀ a ∈ s.nodes, ∀ b ∈ s.nodes, a.level < b.level → a.idx < b.idx
  nodup : (s.nodes.map (·.pt)).Nodup

theorem endOfDivision_nodes (σ : Nat → Nat → Nat → Nat) (s : St) (old extra : List Node)
    (hn : s.nodes = old ++ extra) (h1 : ∀ nd ∈ old, nd.level < s.cur) (h2 : ∀ nd ∈ extra, nd.level = s.cur) :
    (endOfDivision σ s).nodes = old ++ assignGo (σ s.cur extra.length) s.cur s.maxCi extra 0
    ∧ (endOfDivision σ s).maxCi = s.maxCi + extra.length := by
  unfold endOfDivision newCount
  simp only
  rw [hn, filter_level_append old extra s.cur h1 h2]
  refine ⟨?_, rfl⟩
  apply assignGo_append_of_ne
  intro nd hnd
  have := h1 nd hnd
  omega

theorem good_endOfDivision (σ : Nat → Nat → Nat → Nat) (hσ : PermFam σ) (s : St) (old extra : List Node)
    (hn : s.nodes = old ++ extra) (h1 : ∀ nd ∈ old, nd.level < s.cur) (h2 : ∀ nd ∈ extra, nd.level = s.cur)
    (hp : (old.map (·.idx)).Perm (List.range s.maxCi))
    (hm : ∀ a ∈ old, ∀ b ∈ old, a.level < b.level → a.idx < b.idx)
    (hd : ((old ++ extra).map (·.pt)).Nodup) : Good (endOfDivision σ s) := by
  obtain ⟨e1, e2⟩ := endOfDivision_nodes σ s old extra hn h1 h2
  have hcur : (endOfDivision σ s).cur = s.cur + 1 := rfl
  have hidx := assignGo_all_idx (σ s.cur extra.length) s.cur s.maxCi extra 0 h2
  -- indices of the new nodes lie in [maxCi, maxCi + n)
  have hnew : ∀ x ∈ assignGo (σ s.cur extra.length) s.cur s.maxCi extra 0,
      x.level = s.cur ∧ s.maxCi ≤ x.idx := by
    intro x hx
    have hxi : x.idx ∈ (assignGo (σ s.cur extra.length) s.cur s.maxCi extra 0).map (·.idx) :=
      List.mem_map_of_mem hx
    rw [hidx] at hxi
    simp only [List.mem_map] at hxi
    obtain ⟨i, _, hi⟩ := hxi
    have hl : x.level ∈ (assignGo (σ s.cur extra.length) s.cur s.maxCi extra 0).map (·.level) :=
      List.mem_map_of_mem hx
    rw [assignGo_map_level] at hl
    simp only [List.mem_map] at hl
    obtain ⟨nd, hnd, hl⟩ := hl
    refine ⟨by rw [← hl]; exact h2 nd hnd, by omega⟩
  have hold : ∀ a ∈ old, a.idx < s.maxCi := by
    intro a ha
    have : a.idx ∈ List.range s.maxCi := hp.subset (List.mem_map_of_mem ha)
    simpa using this
  constructor
  · intro nd hnd
    rw [e1] at hnd
    rw [hcur]
    rcases List.mem_append.1 hnd with h | h
    · have := h1 nd h; omega
    · have := (hnew nd h).1; omega
  · rw [← List.range_eq_range'] at hidx
    rw [e1, e2, List.map_append, hidx]
    have : List.range (s.maxCi + extra.length) = List.range s.maxCi ++ List.range' s.maxCi extra.length := by
      rw [List.range_add, List.range'_eq_map_range]
    rw [this]
    refine List.Perm.append hp ?_
    have h3 := (hσ s.cur extra.length).map (fun i => s.maxCi + i)
    rw [List.map_map] at h3
    rw [List.range'_eq_map_range]
    exact h3
  · intro a ha b hb hab
    rw [e1] at ha hb
    rcases List.mem_append.1 ha with ha | ha <;> rcases List.mem_append.1 hb with hb | hb
    · exact hm a ha b hb hab
    · have := hold a ha; have := (hnew b hb).2; omega
    · have := h1 b hb; have := (hnew a ha).1; omega
    · have := (hnew a ha).1; have := (hnew b hb).1; omega
  · rw [e1, List.map_append, assignGo_map_pt, ← List.map_append]
    exact hd



/-- `p`–`q` is an edge of the (undirected) graph. -/
def E (s : St) (p q : Pt) : Prop := (p, q) ∈ s.edges ∨ (q, p) ∈ s.edges

theorem E_symm {s : St} {p q : Pt} (h : E s p q) : E s q p := h.symm

theorem hasEdge_iff (es : List (Pt × Pt)) (a b : Pt) :
    hasEdge es a b = true ↔ (a, b) ∈ es ∨ (b, a) ∈ es := by
  simp only [hasEdge, List.any_eq_true, Bool.or_eq_true, Bool.and_eq_true, beq_iff_eq]
  constructor
  · rintro ⟨⟨x, y⟩, hm, (⟨h1, h2⟩ | ⟨h1, h2⟩)⟩
    · left; simp at h1 h2; subst h1; subst h2; exact hm
    · right; simp at h1 h2; subst h1; subst h2; exact hm
  · rintro (h | h)
    · exact ⟨(a, b), h, Or.inl ⟨rfl, rfl⟩⟩
    · exact ⟨(b, a), h, Or.inr ⟨rfl, rfl⟩⟩

theorem mem_pairs {α : Type} (l : List α) (a b : α) (h : (a, b) ∈ pairs l) : a ∈ l ∧ b ∈ l := by
  induction l with
  | nil => simp [pairs] at h
  | cons x t ih =>
    simp only [pairs, List.mem_append, List.mem_map] at h
    rcases h with ⟨y, hy, he⟩ | h
    · simp at he; obtain ⟨rfl, rfl⟩ := he; simp [hy]
    · have := ih h; simp [this.1, this.2]

theorem pairs_of_mem {α : Type} (l : List α) (a b : α) (ha : a ∈ l) (hb : b ∈ l) (hab : a ≠ b) :
    (a, b) ∈ pairs l ∨ (b, a) ∈ pairs l := by
  induction l with
  | nil => simp at ha
  | cons x t ih =>
    simp only [pairs, List.mem_append, List.mem_map]
    rcases List.mem_cons.1 ha with rfl | ha' <;> rcases List.mem_cons.1 hb with rfl | hb'
    · exact absurd rfl hab
    · left; left; exact ⟨b, hb', rfl⟩
    · right; left; exact ⟨a, ha', rfl⟩
    · rcases ih ha' hb' with h | h
      · left; right; exact h
      · right; right; exact h

/-- the eligibility test of `_add_edges_of_len` for two nodes. -/
def Elig (test : Pt → Pt → Bool) (onlyFace : Bool) (a b : Node) : Prop :=
  (onlyFace = true → ∃ f, f ∈ a.face ∧ f ∈ b.face) ∧ test a.pt b.pt = true

theorem interFace_mem (a b : List Nat) (f : Nat) : f ∈ interFace a b ↔ f ∈ a ∧ f ∈ b := by
  simp [interFace]

theorem interFace_nonempty (a b : List Nat) : (interFace a b).isEmpty = false ↔ ∃ f, f ∈ a ∧ f ∈ b := by
  rw [List.isEmpty_eq_false_iff_exists_mem]
  simp [interFace_mem]

theorem mem_addEdgesOfLen (test : Pt → Pt → Bool) (lvl : Nat) (onlyFace : Bool) (s : St) (e : Pt × Pt) :
    e ∈ (addEdgesOfLen test lvl onlyFace s).edges ↔
      e ∈ s.edges ∨ ∃ a b, (a, b) ∈ pairs (s.nodes.filter (fun nd => nd.level == lvl)) ∧
        Elig test onlyFace a b ∧ ¬ E s a.pt b.pt ∧ e = (a.pt, b.pt) := by
  unfold addEdgesOfLen Elig E
  simp only [List.mem_append, List.mem_map, List.mem_filter, Bool.and_eq_true, Bool.or_eq_true,
    Bool.not_eq_true', Prod.exists]
  constructor
  · rintro (h | ⟨a, b, ⟨hp, ⟨hf, ht⟩, he⟩, rfl⟩)
    · exact Or.inl h
    · refine Or.inr ⟨a, b, hp, ⟨?_, ht⟩, ?_, rfl⟩
      · intro ho
        rcases hf with hf | hf
        · simp [ho] at hf
        · exact (interFace_nonempty _ _).1 hf
      · intro hh
        have := (hasEdge_iff s.edges a.pt b.pt).2 hh
        simp [this] at he
  · rintro (h | ⟨a, b, hp, ⟨hf, ht⟩, hne, rfl⟩)
    · exact Or.inl h
    · refine Or.inr ⟨a, b, ⟨hp, ⟨?_, ht⟩, ?_⟩, rfl⟩
      · cases onlyFace
        · left; rfl
        · right; exact (interFace_nonempty _ _).2 (hf rfl)
      · cases hh : hasEdge s.edges a.pt b.pt
        · rfl
        · exact absurd ((hasEdge_iff _ _ _).1 hh) hne

@[simp] theorem addEdgesOfLen_nodes (test : Pt → Pt → Bool) (lvl : Nat) (onlyFace : Bool) (s : St) :
    (addEdgesOfLen test lvl onlyFace s).nodes = s.nodes := rfl
@[simp] theorem addEdgesOfLen_cur (test : Pt → Pt → Bool) (lvl : Nat) (onlyFace : Bool) (s : St) :
    (addEdgesOfLen test lvl onlyFace s).cur = s.cur := rfl
@[simp] theorem addEdgesOfLen_maxCi (test : Pt → Pt → Bool) (lvl : Nat) (onlyFace : Bool) (s : St) :
    (addEdgesOfLen test lvl onlyFace s).maxCi = s.maxCi := rfl

theorem elig_symm (test : Pt → Pt → Bool) (hsym : ∀ p q, test p q = test q p) (onlyFace : Bool) (a b : Node)
    (h : Elig test onlyFace a b) : Elig test onlyFace b a := by
  obtain ⟨h1, h2⟩ := h
  exact ⟨fun ho => let ⟨f, hf⟩ := h1 ho; ⟨f, hf.2, hf.1⟩, by rw [hsym]; exact h2⟩

/-- set-level effect of one `_add_edges_of_len` pass: nothing but eligible pairs of the level is added … -/
theorem E_addEdgesOfLen_elim (test : Pt → Pt → Bool) (hsym : ∀ p q, test p q = test q p) (lvl : Nat)
    (onlyFace : Bool) (s : St) (p q : Pt) (h : E (addEdgesOfLen test lvl onlyFace s) p q) :
    E s p q ∨ ∃ a b, a ∈ s.nodes ∧ b ∈ s.nodes ∧ a.level = lvl ∧ b.level = lvl ∧ a.pt = p ∧ b.pt = q ∧
        Elig test onlyFace a b := by
  unfold E at h
  rw [mem_addEdgesOfLen, mem_addEdgesOfLen] at h
  rcases h with (h | ⟨a, b, hp, he, _, heq⟩) | (h | ⟨a, b, hp, he, _, heq⟩)
  · exact Or.inl (Or.inl h)
  · right
    have hm := mem_pairs _ _ _ hp
    simp only [List.mem_filter, beq_iff_eq] at hm
    simp only [Prod.mk.injEq] at heq
    exact ⟨a, b, hm.1.1, hm.2.1, hm.1.2, hm.2.2, heq.1.symm, heq.2.symm, he⟩
  · exact Or.inl (Or.inr h)
  · right
    have hm := mem_pairs _ _ _ hp
    simp only [List.mem_filter, beq_iff_eq] at hm
    simp only [Prod.mk.injEq] at heq
    exact ⟨b, a, hm.2.1, hm.1.1, hm.2.2, hm.1.2, heq.2.symm, heq.1.symm, elig_symm test hsym onlyFace a b he⟩

theorem E_addEdgesOfLen_mono (test : Pt → Pt → Bool) (lvl : Nat) (onlyFace : Bool) (s : St) (p q : Pt)
    (h : E s p q) : E (addEdgesOfLen test lvl onlyFace s) p q := by
  unfold E at h ⊢
  rw [mem_addEdgesOfLen, mem_addEdgesOfLen]
  rcases h with h | h
  · exact Or.inl (Or.inl h)
  · exact Or.inr (Or.inl h)

/-- … and every eligible pair of the level becomes (or already is) an edge. -/
theorem E_addEdgesOfLen_intro (test : Pt → Pt → Bool) (hsym : ∀ p q, test p q = test q p) (lvl : Nat)
    (onlyFace : Bool) (s : St) (a b : Node) (ha : a ∈ s.nodes) (hb : b ∈ s.nodes) (hla : a.level = lvl)
    (hlb : b.level = lvl) (hne : a.pt ≠ b.pt) (he : Elig test onlyFace a b) :
    E (addEdgesOfLen test lvl onlyFace s) a.pt b.pt := by
  by_cases hE : E s a.pt b.pt
  · exact E_addEdgesOfLen_mono test lvl onlyFace s _ _ hE
  · have hab : a ≠ b := fun h => hne (by rw [h])
    have ha' : a ∈ s.nodes.filter (fun nd => nd.level == lvl) := by simp [ha, hla]
    have hb' : b ∈ s.nodes.filter (fun nd => nd.level == lvl) := by simp [hb, hlb]
    unfold E
    rw [mem_addEdgesOfLen, mem_addEdgesOfLen]
    rcases pairs_of_mem _ a b ha' hb' hab with h | h
    · exact Or.inl (Or.inr ⟨a, b, h, he, hE, rfl⟩)
    · exact Or.inr (Or.inr ⟨b, a, h, elig_symm test hsym onlyFace a b he, fun hh => hE hh.symm, rfl⟩)

theorem mem_addMid_edges (s : St) (e : Pt × Pt) :
    e ∈ (addMidEdgeNodes s).edges ↔ ∃ e0 ∈ s.edges, e = (mid e0.1 e0.2, dbl e0.1) ∨ e = (mid e0.1 e0.2, dbl e0.2) := by
  simp [addMidEdgeNodes, List.mem_flatMap]

theorem mid_comm (a b : Pt) : mid a b = mid b a := by
  unfold mid
  induction a generalizing b with
  | nil => cases b <;> simp
  | cons x t ih =>
    cases b with
    | nil => simp
    | cons y u => simp [Int.add_comm, ih u]

theorem E_addMid (s : St) (p q : Pt) :
    E (addMidEdgeNodes s) p q ↔ ∃ a b, E s a b ∧ ((p = mid a b ∧ q = dbl a) ∨ (q = mid a b ∧ p = dbl a)) := by
  unfold E
  rw [mem_addMid_edges, mem_addMid_edges]
  constructor
  · rintro (⟨⟨x, y⟩, he, (h | h)⟩ | ⟨⟨x, y⟩, he, (h | h)⟩) <;> simp only [Prod.mk.injEq] at h
    · exact ⟨x, y, Or.inl he, Or.inl h⟩
    · exact ⟨y, x, Or.inr he, Or.inl ⟨by rw [mid_comm]; exact h.1, h.2⟩⟩
    · exact ⟨x, y, Or.inl he, Or.inr h⟩
    · exact ⟨y, x, Or.inr he, Or.inr ⟨by rw [mid_comm]; exact h.1, h.2⟩⟩
  · rintro ⟨a, b, (he | he), (⟨h1, h2⟩ | ⟨h1, h2⟩)⟩
    · exact Or.inl ⟨(a, b), he, Or.inl (by simp [h1, h2])⟩
    · exact Or.inr ⟨(a, b), he, Or.inl (by simp [h1, h2])⟩
    · exact Or.inl ⟨(b, a), he, Or.inr (by simp [h1, h2, mid_comm a b])⟩
    · exact Or.inr ⟨(b, a), he, Or.inr (by simp [h1, h2, mid_comm a b])⟩

end Molgri.Polytope
