/-
Geometry of the cube / hypercube subdivision (C18): the boundary lattice `Lat`, lattice adjacency `Adj`,
and the arithmetic facts behind the induction step of `cube_nodes_eq_lattice`.
-/
import Molgri.Lemmas.Polytope
import Mathlib.Tactic.Linarith
import Mathlib.Data.List.Nodup
namespace Molgri.Polytope


/-- `p` is a point of the spacing-2 lattice on the boundary of the cube `[-W, W]^d`. -/
def Lat (d : Nat) (W : Int) (p : Pt) : Prop :=
  p.length = d ∧ (∀ i, i < d → -W ≤ co p i ∧ co p i ≤ W ∧ co p i % 2 = W % 2) ∧
    ∃ i, i < d ∧ (co p i = W ∨ co p i = -W)

/-- two distinct lattice points on a common facet, one lattice step apart in every coordinate. -/
def Adj (d : Nat) (W : Int) (p q : Pt) : Prop :=
  Lat d W p ∧ Lat d W q ∧ p ≠ q ∧ (∀ i, i < d → co p i - co q i ≤ 2 ∧ co q i - co p i ≤ 2) ∧
    ∃ i, i < d ∧ co p i = co q i ∧ (co p i = W ∨ co p i = -W)

theorem Adj.symm {d : Nat} {W : Int} {p q : Pt} (h : Adj d W p q) : Adj d W q p := by
  obtain ⟨h1, h2, h3, h4, i, hi, h5, h6⟩ := h
  exact ⟨h2, h1, fun h => h3 h.symm, fun j hj => ⟨(h4 j hj).2, (h4 j hj).1⟩, i, hi, h5.symm, by omega⟩

theorem lat_dbl {d : Nat} {W : Int} {p : Pt} (h : Lat d W p) : Lat d (2 * W) (dbl p) := by
  obtain ⟨h1, h2, i, hi, h3⟩ := h
  refine ⟨by simpa using h1, ?_, i, hi, ?_⟩
  · intro j hj
    have := h2 j hj
    rw [co_dbl]; omega
  · rw [co_dbl]; omega

theorem lat_mid {d : Nat} {W : Int} {p q : Pt} (h : Adj d W p q) : Lat d (2 * W) (mid p q) := by
  obtain ⟨⟨l1, b1, _⟩, ⟨l2, b2, _⟩, _, h4, i, hi, h5, h6⟩ := h
  have hl : p.length = q.length := by omega
  refine ⟨by rw [len_mid p q hl]; exact l1, ?_, i, hi, ?_⟩
  · intro j hj
    have := b1 j hj; have := b2 j hj
    rw [co_mid p q j hl]; omega
  · rw [co_mid p q i hl]; omega

theorem exists_co_ne {p q : Pt} (hl : p.length = q.length) (h : p ≠ q) : ∃ i, i < p.length ∧ co p i ≠ co q i := by
  by_cases hh : ∃ i, i < p.length ∧ co p i ≠ co q i
  · exact hh
  · exfalso; apply h
    apply pt_ext p q hl
    intro i hi
    by_cases hc : co p i = co q i
    · exact hc
    · exact absurd ⟨i, hi, hc⟩ hh

/-- a midpoint of an edge is never an old lattice point (`Fresh`). -/
theorem mid_ne_dbl {d : Nat} {W : Int} {p q c : Pt} (h : Adj d W p q) (hc : Lat d W c) : mid p q ≠ dbl c := by
  obtain ⟨⟨l1, b1, _⟩, ⟨l2, b2, _⟩, hne, h4, _⟩ := h
  have hl : p.length = q.length := by omega
  obtain ⟨i, hi, hci⟩ := exists_co_ne hl hne
  intro he
  have h1 := congrArg (fun r => co r i) he
  simp only [co_mid p q i hl, co_dbl] at h1
  have := b1 i (by omega); have := b2 i (by omega); have := hc.2.1 i (by omega); have := h4 i (by omega)
  omega

/-- lower / upper neighbour on the coarse lattice of half a fine coordinate. -/
def lo (W t : Int) : Int := if (t / 2) % 2 = W % 2 then t / 2 else t / 2 - 1
def hi (W t : Int) : Int := if (t / 2) % 2 = W % 2 then t / 2 else t / 2 + 1

theorem co_map (f : Int → Int) (p : Pt) (i : Nat) (h : i < p.length) : co (p.map f) i = f (co p i) := by
  unfold co
  induction p generalizing i with
  | nil => simp at h
  | cons a t ih =>
    cases i with
    | zero => simp
    | succ n => simpa using ih n (by simpa using h)

/-- every point of the fine lattice is an old point or the midpoint of an edge. -/
theorem lat_split {d : Nat} {W : Int} {x : Pt} (h : Lat d (2 * W) x) :
    (∃ y, Lat d W y ∧ x = dbl y) ∨ (∃ p q, Adj d W p q ∧ x = mid p q) := by
  obtain ⟨hl, hb, j, hj, hf⟩ := h
  have hlo : ∀ i, i < d → co (x.map (lo W)) i = lo W (co x i) := fun i hi => co_map _ _ _ (by omega)
  have hhi : ∀ i, i < d → co (x.map (hi W)) i = hi W (co x i) := fun i hi => co_map _ _ _ (by omega)
  have hmid : x = mid (x.map (lo W)) (x.map (hi W)) := by
    apply pt_ext
    · rw [len_mid _ _ (by simp)]; simp
    · intro i hi'
      rw [co_mid _ _ _ (by simp), hlo i (by omega), hhi i (by omega)]
      have := hb i (by omega)
      unfold lo hi; split <;> omega
  have hL1 : Lat d W (x.map (lo W)) := by
    refine ⟨by simpa using hl, ?_, j, hj, ?_⟩
    · intro i hi'
      have := hb i hi'
      rw [hlo i hi']; unfold lo; split <;> omega
    · have := hb j hj
      rw [hlo j hj]; unfold lo; split <;> omega
  have hL2 : Lat d W (x.map (hi W)) := by
    refine ⟨by simpa using hl, ?_, j, hj, ?_⟩
    · intro i hi'
      have := hb i hi'
      rw [hhi i hi']; unfold hi; split <;> omega
    · have := hb j hj
      rw [hhi j hj]; unfold hi; split <;> omega
  by_cases heq : x.map (lo W) = x.map (hi W)
  · left
    refine ⟨x.map (lo W), hL1, ?_⟩
    apply pt_ext
    · simp
    · intro i hi'
      have h1 := congrArg (fun r => co r i) heq
      simp only [hlo i (by omega), hhi i (by omega)] at h1
      rw [co_dbl, hlo i (by omega)]
      have := hb i (by omega)
      revert h1; unfold lo hi; split <;> intro h1 <;> omega
  · right
    refine ⟨x.map (lo W), x.map (hi W), ⟨hL1, hL2, heq, ?_, j, hj, ?_⟩, hmid⟩
    · intro i hi'
      rw [hlo i hi', hhi i hi']; unfold lo hi; split <;> omega
    · have := hb j hj
      rw [hlo j hj, hhi j hj]; unfold lo hi; split <;> omega

/-- the two halves of an edge are edges of the fine lattice. -/
theorem adj_mid_dbl {d : Nat} {W : Int} {a b : Pt} (h : Adj d W a b) : Adj d (2 * W) (mid a b) (dbl a) := by
  have hm := lat_mid h
  have hd := lat_dbl h.1
  obtain ⟨⟨l1, b1, _⟩, ⟨l2, b2, _⟩, hne, h4, i, hi, h5, h6⟩ := h
  have hl : a.length = b.length := by omega
  refine ⟨hm, hd, ?_, ?_, i, hi, ?_, ?_⟩
  · intro he
    apply hne
    apply pt_ext a b hl
    intro j hj
    have := congrArg (fun r => co r j) he
    simp only [co_mid a b j hl, co_dbl] at this
    omega
  · intro j hj
    have := h4 j hj
    rw [co_mid a b j hl, co_dbl]; omega
  · rw [co_mid a b i hl, co_dbl]; omega
  · rw [co_mid a b i hl]; omega

def sub (p q : Pt) : Pt := List.zipWith (· - ·) p q

theorem co_sub (p q : Pt) (i : Nat) (h : p.length = q.length) : co (sub p q) i = co p i - co q i := by
  unfold co sub
  induction p generalizing q i with
  | nil => cases q <;> simp_all
  | cons a t ih =>
    cases q with
    | nil => simp at h
    | cons b u =>
      cases i with
      | zero => simp
      | succ n => simp at h; simpa using ih u n h

/-- a fine-lattice neighbour `y` of an old point `2c` is the midpoint of the edge from `c` to `y - c`. -/
theorem adj_dbl_split {d : Nat} {W : Int} {c y : Pt} (hc : Lat d W c) (h : Adj d (2 * W) (dbl c) y) :
    Adj d W c (sub y c) ∧ y = mid c (sub y c) := by
  obtain ⟨_, ⟨ly, by_, _⟩, hne, h4, i, hi, h5, h6⟩ := h
  obtain ⟨lc, bc, fc⟩ := hc
  have hl : y.length = c.length := by omega
  have hs : (sub y c).length = d := by simp [sub]; omega
  have hco : ∀ j, co (sub y c) j = co y j - co c j := fun j => co_sub y c j hl
  have hmid : y = mid c (sub y c) := by
    apply pt_ext
    · rw [len_mid _ _ (by omega)]; omega
    · intro j hj
      rw [co_mid _ _ _ (by omega), hco]; omega
  simp only [co_dbl] at h4 h5 h6
  refine ⟨⟨⟨lc, bc, fc⟩, ⟨hs, ?_, i, hi, ?_⟩, ?_, ?_, i, hi, ?_, ?_⟩, hmid⟩
  · intro j hj
    have := bc j hj; have := by_ j hj; have := h4 j hj
    rw [hco]; omega
  · have := bc i hi; have := by_ i hi
    rw [hco]; omega
  · intro he
    apply hne
    apply pt_ext
    · simp; omega
    · intro j hj
      have := congrArg (fun r => co r j) he
      simp only [hco] at this
      rw [co_dbl]; omega
  · intro j hj
    have := h4 j hj; have := bc j hj; have := by_ j hj
    rw [hco]; omega
  · rw [hco]; omega
  · have := bc i hi
    omega



theorem len3 (p : Pt) (h : p.length = 3) : ∃ a b c, p = [a, b, c] := by
  match p, h with
  | [a, b, c], _ => exact ⟨a, b, c, rfl⟩
theorem len4 (p : Pt) (h : p.length = 4) : ∃ a b c d, p = [a, b, c, d] := by
  match p, h with
  | [a, b, c, d], _ => exact ⟨a, b, c, d, rfl⟩

theorem sq_small (u : Int) (h : u * u ≤ 15) : -3 ≤ u ∧ u ≤ 3 := by
  constructor <;> nlinarith

theorem all_lt3 (P : Nat → Prop) : (∀ i, i < 3 → P i) ↔ P 0 ∧ P 1 ∧ P 2 := by
  constructor
  · intro h; exact ⟨h 0 (by omega), h 1 (by omega), h 2 (by omega)⟩
  · rintro ⟨h0, h1, h2⟩ i hi
    match i, hi with
    | 0, _ => exact h0
    | 1, _ => exact h1
    | 2, _ => exact h2
theorem all_lt4 (P : Nat → Prop) : (∀ i, i < 4 → P i) ↔ P 0 ∧ P 1 ∧ P 2 ∧ P 3 := by
  constructor
  · intro h; exact ⟨h 0 (by omega), h 1 (by omega), h 2 (by omega), h 3 (by omega)⟩
  · rintro ⟨h0, h1, h2, h3⟩ i hi
    match i, hi with
    | 0, _ => exact h0
    | 1, _ => exact h1
    | 2, _ => exact h2
    | 3, _ => exact h3
theorem ex_lt3 (P : Nat → Prop) : (∃ i, i < 3 ∧ P i) ↔ P 0 ∨ P 1 ∨ P 2 := by
  constructor
  · rintro ⟨i, hi, h⟩
    match i, hi with
    | 0, _ => exact Or.inl h
    | 1, _ => exact Or.inr (Or.inl h)
    | 2, _ => exact Or.inr (Or.inr h)
  · rintro (h | h | h)
    · exact ⟨0, by omega, h⟩
    · exact ⟨1, by omega, h⟩
    · exact ⟨2, by omega, h⟩
theorem ex_lt4 (P : Nat → Prop) : (∃ i, i < 4 ∧ P i) ↔ P 0 ∨ P 1 ∨ P 2 ∨ P 3 := by
  constructor
  · rintro ⟨i, hi, h⟩
    match i, hi with
    | 0, _ => exact Or.inl h
    | 1, _ => exact Or.inr (Or.inl h)
    | 2, _ => exact Or.inr (Or.inr (Or.inl h))
    | 3, _ => exact Or.inr (Or.inr (Or.inr h))
  · rintro (h | h | h | h)
    · exact ⟨0, by omega, h⟩
    · exact ⟨1, by omega, h⟩
    · exact ⟨2, by omega, h⟩
    · exact ⟨3, by omega, h⟩

/-- squared distance 4 or 8 between points with even coordinate differences = one lattice step in sup norm. -/
theorem near3_fwd (p q : Pt) (hp : p.length = 3) (hq : q.length = 3)
    (hev : ∀ i, i < 3 → (co p i - co q i) % 2 = 0) (h : sqd p q = 4 ∨ sqd p q = 8) :
    p ≠ q ∧ ∀ i, i < 3 → co p i - co q i ≤ 2 ∧ co q i - co p i ≤ 2 := by
  obtain ⟨a, b, c, rfl⟩ := len3 p hp
  obtain ⟨a', b', c', rfl⟩ := len3 q hq
  rw [all_lt3] at hev ⊢
  simp only [co, List.getD_cons_zero, List.getD_cons_succ, sqd, List.zipWith_cons_cons, List.zipWith_nil_right,
    List.sum_cons, List.sum_nil] at *
  have h1 := mul_self_nonneg (a - a')
  have h2 := mul_self_nonneg (b - b')
  have h3 := mul_self_nonneg (c - c')
  have ha := sq_small (a - a') (by omega)
  have hb := sq_small (b - b') (by omega)
  have hc := sq_small (c - c') (by omega)
  refine ⟨?_, by omega, by omega, by omega⟩
  intro he
  simp only [List.cons.injEq, and_true] at he
  obtain ⟨rfl, rfl, rfl⟩ := he
  simp at h


theorem near3_bwd (p q : Pt) (hp : p.length = 3) (hq : q.length = 3)
    (hev : ∀ i, i < 3 → (co p i - co q i) % 2 = 0) (hne : p ≠ q)
    (hd : ∀ i, i < 3 → co p i - co q i ≤ 2 ∧ co q i - co p i ≤ 2) (hf : ∃ i, i < 3 ∧ co p i = co q i) :
    sqd p q = 4 ∨ sqd p q = 8 := by
  obtain ⟨a, b, c, rfl⟩ := len3 p hp
  obtain ⟨a', b', c', rfl⟩ := len3 q hq
  rw [all_lt3] at hev hd
  rw [ex_lt3] at hf
  simp only [co, List.getD_cons_zero, List.getD_cons_succ, sqd, List.zipWith_cons_cons, List.zipWith_nil_right,
    List.sum_cons, List.sum_nil] at *
  have hu : a - a' = -2 ∨ a - a' = 0 ∨ a - a' = 2 := by omega
  have hv : b - b' = -2 ∨ b - b' = 0 ∨ b - b' = 2 := by omega
  have hw : c - c' = -2 ∨ c - c' = 0 ∨ c - c' = 2 := by omega
  have hne' : ¬ (a - a' = 0 ∧ b - b' = 0 ∧ c - c' = 0) := by
    rintro ⟨h1, h2, h3⟩
    apply hne
    have : a = a' := by omega
    have : b = b' := by omega
    have : c = c' := by omega
    subst_vars; rfl
  rcases hu with hu | hu | hu <;> rcases hv with hv | hv | hv <;> rcases hw with hw | hw | hw <;>
    rw [hu, hv, hw] <;> omega

theorem near4_fwd (p q : Pt) (hp : p.length = 4) (hq : q.length = 4)
    (hev : ∀ i, i < 4 → (co p i - co q i) % 2 = 0) (h : sqd p q = 4 ∨ sqd p q = 8 ∨ sqd p q = 12) :
    p ≠ q ∧ ∀ i, i < 4 → co p i - co q i ≤ 2 ∧ co q i - co p i ≤ 2 := by
  obtain ⟨a, b, c, d, rfl⟩ := len4 p hp
  obtain ⟨a', b', c', d', rfl⟩ := len4 q hq
  rw [all_lt4] at hev ⊢
  simp only [co, List.getD_cons_zero, List.getD_cons_succ, sqd, List.zipWith_cons_cons, List.zipWith_nil_right,
    List.sum_cons, List.sum_nil] at *
  have h1 := mul_self_nonneg (a - a')
  have h2 := mul_self_nonneg (b - b')
  have h3 := mul_self_nonneg (c - c')
  have h4 := mul_self_nonneg (d - d')
  have ha := sq_small (a - a') (by omega)
  have hb := sq_small (b - b') (by omega)
  have hc := sq_small (c - c') (by omega)
  have hd := sq_small (d - d') (by omega)
  refine ⟨?_, by omega, by omega, by omega, by omega⟩
  intro he
  simp only [List.cons.injEq, and_true] at he
  obtain ⟨rfl, rfl, rfl, rfl⟩ := he
  simp at h

theorem near4_bwd (p q : Pt) (hp : p.length = 4) (hq : q.length = 4)
    (hev : ∀ i, i < 4 → (co p i - co q i) % 2 = 0) (hne : p ≠ q)
    (hd : ∀ i, i < 4 → co p i - co q i ≤ 2 ∧ co q i - co p i ≤ 2) (hf : ∃ i, i < 4 ∧ co p i = co q i) :
    sqd p q = 4 ∨ sqd p q = 8 ∨ sqd p q = 12 := by
  obtain ⟨a, b, c, d, rfl⟩ := len4 p hp
  obtain ⟨a', b', c', d', rfl⟩ := len4 q hq
  rw [all_lt4] at hev hd
  rw [ex_lt4] at hf
  simp only [co, List.getD_cons_zero, List.getD_cons_succ, sqd, List.zipWith_cons_cons, List.zipWith_nil_right,
    List.sum_cons, List.sum_nil] at *
  have hu : a - a' = -2 ∨ a - a' = 0 ∨ a - a' = 2 := by omega
  have hv : b - b' = -2 ∨ b - b' = 0 ∨ b - b' = 2 := by omega
  have hw : c - c' = -2 ∨ c - c' = 0 ∨ c - c' = 2 := by omega
  have hx : d - d' = -2 ∨ d - d' = 0 ∨ d - d' = 2 := by omega
  have hne' : ¬ (a - a' = 0 ∧ b - b' = 0 ∧ c - c' = 0 ∧ d - d' = 0) := by
    rintro ⟨h1, h2, h3, h4⟩
    apply hne
    have : a = a' := by omega
    have : b = b' := by omega
    have : c = c' := by omega
    have : d = d' := by omega
    subst_vars; rfl
  rcases hu with hu | hu | hu <;> rcases hv with hv | hv | hv <;> rcases hw with hw | hw | hw <;>
    rcases hx with hx | hx | hx <;> rw [hu, hv, hw, hx] <;> omega

end Molgri.Polytope
