/-
The cube / hypercube induction of C18: facets, `_add_edges_of_len` passes, the invariant `Geo`, its base case
(finite tables, `decide +kernel`), the induction step `geo_step` and the statements for every level.
-/
import Molgri.Lemmas.PolytopeCube
import Mathlib.Tactic.Ring
namespace Molgri.Polytope
/-! ### facets -/

/-- face number ↦ (axis, positive side) -/
abbrev FaceTab := List (Nat × Bool)
def cube3Tab : FaceTab := [(0, false), (2, false), (1, false), (0, true), (2, true), (1, true)]
def cube4Tab : FaceTab :=
  [(0, false), (1, false), (2, false), (3, false), (3, true), (2, true), (1, true), (0, true)]

def sgn (W : Int) (pos : Bool) : Int := if pos then W else -W

/-- the point lies on facet number `f` of the cube of half width `W`. -/
def OnFace (tab : FaceTab) (W : Int) (f : Nat) (p : Pt) : Prop :=
  ∃ ax pos, tab[f]? = some (ax, pos) ∧ co p ax = sgn W pos

/-- the `face` attribute of the node is exactly the set of facets the point lies on. -/
def FaceOK (tab : FaceTab) (W : Int) (nd : Node) : Prop := ∀ f, f ∈ nd.face ↔ OnFace tab W f nd.pt

structure TabOK (d : Nat) (tab : FaceTab) : Prop where
  valid : ∀ (f ax : Nat) (pos : Bool), tab[f]? = some (ax, pos) → ax < d
  onto : ∀ i : Nat, i < d → ∀ pos : Bool, ∃ f : Nat, tab[f]? = some (i, pos)

theorem tabOK3 : TabOK 3 cube3Tab := by
  constructor
  · intro f ax pos h
    have : (ax, pos) ∈ cube3Tab := List.mem_of_getElem? h
    simp [cube3Tab] at this
    omega
  · intro i hi pos
    match i, hi, pos with
    | 0, _, false => exact ⟨0, rfl⟩
    | 0, _, true => exact ⟨3, rfl⟩
    | 1, _, false => exact ⟨2, rfl⟩
    | 1, _, true => exact ⟨5, rfl⟩
    | 2, _, false => exact ⟨1, rfl⟩
    | 2, _, true => exact ⟨4, rfl⟩

theorem tabOK4 : TabOK 4 cube4Tab := by
  constructor
  · intro f ax pos h
    have : (ax, pos) ∈ cube4Tab := List.mem_of_getElem? h
    simp [cube4Tab] at this
    omega
  · intro i hi pos
    match i, hi, pos with
    | 0, _, false => exact ⟨0, rfl⟩
    | 0, _, true => exact ⟨7, rfl⟩
    | 1, _, false => exact ⟨1, rfl⟩
    | 1, _, true => exact ⟨6, rfl⟩
    | 2, _, false => exact ⟨2, rfl⟩
    | 2, _, true => exact ⟨5, rfl⟩
    | 3, _, false => exact ⟨3, rfl⟩
    | 3, _, true => exact ⟨4, rfl⟩

theorem faceOK_dbl {tab : FaceTab} {W : Int} {nd : Node} (h : FaceOK tab W nd) : FaceOK tab (2 * W) (dblNode nd) := by
  intro f
  rw [show (dblNode nd).face = nd.face from rfl, h f]
  unfold OnFace
  constructor
  · rintro ⟨ax, pos, h1, h2⟩
    refine ⟨ax, pos, h1, ?_⟩
    rw [show (dblNode nd).pt = dbl nd.pt from rfl, co_dbl]
    revert h2; unfold sgn; split <;> intro h2 <;> omega
  · rintro ⟨ax, pos, h1, h2⟩
    refine ⟨ax, pos, h1, ?_⟩
    rw [show (dblNode nd).pt = dbl nd.pt from rfl, co_dbl] at h2
    revert h2; unfold sgn; split <;> intro h2 <;> omega

/-- the face of a midpoint is the intersection of the faces of the end points. -/
theorem faceOK_mid {d : Nat} {tab : FaceTab} (ht : TabOK d tab) {W : Int} {a b x : Node}
    (ha : FaceOK tab W a) (hb : FaceOK tab W b) (hla : Lat d W a.pt) (hlb : Lat d W b.pt)
    (hp : x.pt = mid a.pt b.pt) (hf : x.face = interFace a.face b.face) : FaceOK tab (2 * W) x := by
  intro f
  have hl : a.pt.length = b.pt.length := by rw [hla.1, hlb.1]
  rw [hf, interFace_mem, ha f, hb f, hp]
  unfold OnFace
  constructor
  · rintro ⟨⟨ax, pos, h1, h2⟩, ⟨ax', pos', h1', h2'⟩⟩
    rw [h1] at h1'
    simp only [Option.some.injEq, Prod.mk.injEq] at h1'
    obtain ⟨rfl, rfl⟩ := h1'
    refine ⟨ax, pos, h1, ?_⟩
    rw [co_mid _ _ _ hl]
    revert h2 h2'; unfold sgn; split <;> intro h2 h2' <;> omega
  · rintro ⟨ax, pos, h1, h2⟩
    have hax := ht.valid f ax pos h1
    have := hla.2.1 ax hax; have := hlb.2.1 ax hax
    rw [co_mid _ _ _ hl] at h2
    refine ⟨⟨ax, pos, h1, ?_⟩, ⟨ax, pos, h1, ?_⟩⟩ <;>
      (revert h2; unfold sgn; split <;> intro h2 <;> omega)

/-- common face attribute ⇔ common facet. -/
theorem common_face_iff {d : Nat} {tab : FaceTab} (ht : TabOK d tab) {W : Int} {a b : Node}
    (ha : FaceOK tab W a) (hb : FaceOK tab W b) :
    (∃ f, f ∈ a.face ∧ f ∈ b.face) ↔ ∃ i, i < d ∧ co a.pt i = co b.pt i ∧ (co a.pt i = W ∨ co a.pt i = -W) := by
  constructor
  · rintro ⟨f, h1, h2⟩
    obtain ⟨ax, pos, e1, c1⟩ := (ha f).1 h1
    obtain ⟨ax', pos', e2, c2⟩ := (hb f).1 h2
    rw [e1] at e2
    simp only [Option.some.injEq, Prod.mk.injEq] at e2
    obtain ⟨rfl, rfl⟩ := e2
    refine ⟨ax, ht.valid f ax pos e1, by rw [c1, c2], ?_⟩
    rw [c1]; unfold sgn; split <;> simp
  · rintro ⟨i, hi, h1, h2 | h2⟩
    · obtain ⟨f, hf⟩ := ht.onto i hi true
      exact ⟨f, (ha f).2 ⟨i, true, hf, by simp [sgn, h2]⟩, (hb f).2 ⟨i, true, hf, by simp [sgn, ← h1, h2]⟩⟩
    · obtain ⟨f, hf⟩ := ht.onto i hi false
      exact ⟨f, (ha f).2 ⟨i, false, hf, by simp [sgn, h2]⟩, (hb f).2 ⟨i, false, hf, by simp [sgn, ← h1, h2]⟩⟩

/-! ### the passes of `_add_edges_of_len` after a division -/

def passes (lens : List Int) (lvl : Nat) (s : St) : St :=
  lens.foldl (fun s l => addEdgesOfLen (isLen l) lvl true s) s

@[simp] theorem passes_nodes (lens : List Int) (lvl : Nat) (s : St) : (passes lens lvl s).nodes = s.nodes := by
  unfold passes
  induction lens generalizing s with
  | nil => rfl
  | cons l t ih => simp only [List.foldl_cons]; rw [ih]; rfl
@[simp] theorem passes_cur (lens : List Int) (lvl : Nat) (s : St) : (passes lens lvl s).cur = s.cur := by
  unfold passes
  induction lens generalizing s with
  | nil => rfl
  | cons l t ih => simp only [List.foldl_cons]; rw [ih]; rfl
@[simp] theorem passes_maxCi (lens : List Int) (lvl : Nat) (s : St) : (passes lens lvl s).maxCi = s.maxCi := by
  unfold passes
  induction lens generalizing s with
  | nil => rfl
  | cons l t ih => simp only [List.foldl_cons]; rw [ih]; rfl

theorem sqd_comm (p q : Pt) : sqd p q = sqd q p := by
  unfold sqd
  induction p generalizing q with
  | nil => cases q <;> simp
  | cons a t ih =>
    cases q with
    | nil => simp
    | cons b u =>
      simp only [List.zipWith_cons_cons, List.sum_cons]
      rw [ih u]; ring

theorem isLen_symm (l : Int) (p q : Pt) : isLen l p q = isLen l q p := by
  unfold isLen; rw [sqd_comm]

theorem passes_mono (lens : List Int) (lvl : Nat) (s : St) (p q : Pt) (h : E s p q) : E (passes lens lvl s) p q := by
  unfold passes
  induction lens generalizing s with
  | nil => exact h
  | cons l t ih =>
    simp only [List.foldl_cons]
    exact ih _ (E_addEdgesOfLen_mono _ _ _ _ _ _ h)

theorem passes_elim (lens : List Int) (lvl : Nat) (s : St) (p q : Pt) (h : E (passes lens lvl s) p q) :
    E s p q ∨ ∃ a b, a ∈ s.nodes ∧ b ∈ s.nodes ∧ a.level = lvl ∧ b.level = lvl ∧ a.pt = p ∧ b.pt = q ∧
      (∃ f, f ∈ a.face ∧ f ∈ b.face) ∧ ∃ l ∈ lens, sqd p q = l := by
  unfold passes at h
  induction lens generalizing s with
  | nil => exact Or.inl h
  | cons l t ih =>
    simp only [List.foldl_cons] at h
    rcases ih _ h with h' | ⟨a, b, ha, hb, hla, hlb, hpa, hpb, hf, l', hl', hs⟩
    · rcases E_addEdgesOfLen_elim _ (isLen_symm l) _ _ _ _ _ h' with h'' | ⟨a, b, ha, hb, hla, hlb, hpa, hpb, hf, ht⟩
      · exact Or.inl h''
      · refine Or.inr ⟨a, b, ha, hb, hla, hlb, hpa, hpb, hf rfl, l, by simp, ?_⟩
        simpa [isLen, hpa, hpb] using ht
    · exact Or.inr ⟨a, b, ha, hb, hla, hlb, hpa, hpb, hf, l', by simp [hl'], hs⟩

theorem passes_intro (lens : List Int) (lvl : Nat) (s : St) (a b : Node) (ha : a ∈ s.nodes) (hb : b ∈ s.nodes)
    (hla : a.level = lvl) (hlb : b.level = lvl) (hne : a.pt ≠ b.pt) (hf : ∃ f, f ∈ a.face ∧ f ∈ b.face)
    (l : Int) (hl : l ∈ lens) (hs : sqd a.pt b.pt = l) : E (passes lens lvl s) a.pt b.pt := by
  unfold passes
  induction lens generalizing s with
  | nil => simp at hl
  | cons l' t ih =>
    simp only [List.foldl_cons]
    rcases List.mem_cons.1 hl with rfl | hl'
    · apply passes_mono
      exact E_addEdgesOfLen_intro _ (isLen_symm l) _ _ _ a b ha hb hla hlb hne ⟨fun _ => hf, by simp [isLen, hs]⟩
    · exact ih _ (by simpa using ha) (by simpa using hb) hl'



/-! ### the invariant -/

theorem faceOf_spec (nodes : List Node) (nd : Node) (hnd : nd ∈ nodes) (hd : (nodes.map (·.pt)).Nodup) :
    faceOf nodes nd.pt = nd.face := by
  unfold faceOf
  induction nodes with
  | nil => simp at hnd
  | cons a t ih =>
    simp only [List.map_cons, List.nodup_cons] at hd
    rw [List.find?_cons]
    by_cases h : a.pt = nd.pt
    · simp only [h, beq_self_eq_true]
      rcases List.mem_cons.1 hnd with rfl | h'
      · rfl
      · exfalso; apply hd.1; rw [h]; exact List.mem_map_of_mem h'
    · have : (a.pt == nd.pt) = false := by simpa using h
      simp only [this]
      rcases List.mem_cons.1 hnd with rfl | h'
      · exact absurd rfl h
      · exact ih h' hd.2

/-- the sqd tests of the passes characterise one sup-norm lattice step (for points with even differences). -/
structure NearOK (d : Nat) (lens : List Int) : Prop where
  fwd : ∀ p q : Pt, p.length = d → q.length = d → (∀ i, i < d → (co p i - co q i) % 2 = 0) →
    (∃ l ∈ lens, sqd p q = l) → p ≠ q ∧ ∀ i, i < d → co p i - co q i ≤ 2 ∧ co q i - co p i ≤ 2
  bwd : ∀ p q : Pt, p.length = d → q.length = d → (∀ i, i < d → (co p i - co q i) % 2 = 0) → p ≠ q →
    (∀ i, i < d → co p i - co q i ≤ 2 ∧ co q i - co p i ≤ 2) → (∃ i, i < d ∧ co p i = co q i) →
    ∃ l ∈ lens, sqd p q = l

theorem nearOK3 : NearOK 3 [4, 8] := by
  constructor
  · intro p q hp hq hev h
    exact near3_fwd p q hp hq hev (by simpa using h)
  · intro p q hp hq hev hne hd hf
    simpa using near3_bwd p q hp hq hev hne hd hf

theorem nearOK4 : NearOK 4 [4, 8, 12] := by
  constructor
  · intro p q hp hq hev h
    exact near4_fwd p q hp hq hev (by simpa using h)
  · intro p q hp hq hev hne hd hf
    simpa using near4_bwd p q hp hq hev hne hd hf

/-- geometric invariant of the cube / hypercube graph after a division: half width `W`, spacing 2. -/
structure Geo (d : Nat) (tab : FaceTab) (W : Int) (s : St) : Prop where
  lvl : ∀ nd ∈ s.nodes, nd.level < s.cur
  nodup : (s.nodes.map (·.pt)).Nodup
  nodes : ∀ p, p ∈ s.nodes.map (·.pt) ↔ Lat d W p
  edges : ∀ p q, E s p q ↔ Adj d W p q
  faces : ∀ nd ∈ s.nodes, FaceOK tab W nd

theorem Geo.fresh {d : Nat} {tab : FaceTab} {W : Int} {s : St} (h : Geo d tab W s) : Fresh s := by
  intro e he nd hnd
  have hadj : Adj d W e.1 e.2 := (h.edges e.1 e.2).1 (Or.inl he)
  exact mid_ne_dbl hadj ((h.nodes nd.pt).1 (List.mem_map_of_mem hnd))

/-- node list after `divide_edges` up to the index assignment: old nodes (doubled unit) then the new ones. -/
theorem divided_nodes (σ : Nat → Nat → Nat → Nat) (s : St) (hf : Fresh s) (hl : ∀ nd ∈ s.nodes, nd.level < s.cur) :
    (endOfDivision σ (addMidEdgeNodes s)).nodes =
      s.nodes.map dblNode ++ assignGo (σ s.cur (extraNodes s).length) s.cur s.maxCi (extraNodes s) 0 ∧
    (endOfDivision σ (addMidEdgeNodes s)).maxCi = s.maxCi + (extraNodes s).length := by
  have h := endOfDivision_nodes σ (addMidEdgeNodes s) (s.nodes.map dblNode) (extraNodes s) (addMid_nodes s hf)
    (by
      intro nd hnd
      simp only [List.mem_map] at hnd
      obtain ⟨n, hn, rfl⟩ := hnd
      exact hl n hn)
    (by
      intro nd hnd
      exact ((extraNodes_spec s).1 nd hnd).1)
  exact h



theorem Geo.mem_new_iff {d : Nat} {tab : FaceTab} {W : Int} {s : St} (h : Geo d tab W s) (p : Pt) :
    p ∈ (extraNodes s).map (·.pt) ↔ ∃ a b, Adj d W a b ∧ p = mid a b := by
  rw [(extraNodes_spec s).2.1 p]
  constructor
  · rintro ⟨e, he, rfl⟩
    exact ⟨e.1, e.2, (h.edges e.1 e.2).1 (Or.inl he), rfl⟩
  · rintro ⟨a, b, hab, rfl⟩
    rcases (h.edges a b).2 hab with he | he
    · exact ⟨(a, b), he, rfl⟩
    · exact ⟨(b, a), he, mid_comm a b⟩

theorem Geo.mem_old_iff {d : Nat} {tab : FaceTab} {W : Int} {s : St} (h : Geo d tab W s) (p : Pt) :
    p ∈ (s.nodes.map dblNode).map (·.pt) ↔ ∃ c, Lat d W c ∧ p = dbl c := by
  simp only [List.map_map, List.mem_map, Function.comp]
  constructor
  · rintro ⟨nd, hnd, rfl⟩
    exact ⟨nd.pt, (h.nodes nd.pt).1 (List.mem_map_of_mem hnd), rfl⟩
  · rintro ⟨c, hc, rfl⟩
    obtain ⟨nd, hnd, rfl⟩ := List.mem_map.1 ((h.nodes c).2 hc)
    exact ⟨nd, hnd, rfl⟩

theorem lat_even {d : Nat} {W : Int} {p q : Pt} (hp : Lat d (2 * W) p) (hq : Lat d (2 * W) q) :
    ∀ i, i < d → (co p i - co q i) % 2 = 0 := by
  intro i hi
  have := hp.2.1 i hi; have := hq.2.1 i hi
  omega

/-- **Induction step.**  One `divide_edges` of the cube classes maps the invariant at half width `W` to
the invariant at half width `2W` (same physical cube, halved spacing). -/
theorem geo_step {d : Nat} {tab : FaceTab} {lens : List Int} (ht : TabOK d tab) (hn : NearOK d lens)
    (σ : Nat → Nat → Nat → Nat) {W : Int} {s : St} (h : Geo d tab W s) :
    Geo d tab (2 * W) (passes lens s.cur (endOfDivision σ (addMidEdgeNodes s))) := by
  have hf := h.fresh
  obtain ⟨hnodes, _⟩ := divided_nodes σ s hf h.lvl
  obtain ⟨hex1, hex2, hex3⟩ := extraNodes_spec s
  have hcur : (endOfDivision σ (addMidEdgeNodes s)).cur = s.cur + 1 := rfl
  have hedges : ∀ p q, E (endOfDivision σ (addMidEdgeNodes s)) p q ↔ E (addMidEdgeNodes s) p q := fun _ _ => Iff.rfl
  have hpts : (endOfDivision σ (addMidEdgeNodes s)).nodes.map (·.pt) =
      (s.nodes.map dblNode).map (·.pt) ++ (extraNodes s).map (·.pt) := by
    rw [hnodes, List.map_append, assignGo_map_pt]
  -- nodes
  have hN : ∀ p, p ∈ (endOfDivision σ (addMidEdgeNodes s)).nodes.map (·.pt) ↔ Lat d (2 * W) p := by
    intro p
    rw [hpts, List.mem_append, h.mem_old_iff, h.mem_new_iff]
    constructor
    · rintro (⟨c, hc, rfl⟩ | ⟨a, b, hab, rfl⟩)
      · exact lat_dbl hc
      · exact lat_mid hab
    · intro hp
      rcases lat_split hp with ⟨y, hy, rfl⟩ | ⟨a, b, hab, rfl⟩
      · exact Or.inl ⟨y, hy, rfl⟩
      · exact Or.inr ⟨a, b, hab, rfl⟩
  -- levels
  have hLold : ∀ nd ∈ s.nodes.map dblNode, nd.level < s.cur := by
    intro nd hnd
    obtain ⟨n, hn', rfl⟩ := List.mem_map.1 hnd
    exact h.lvl n hn'
  have hLnew : ∀ x ∈ assignGo (σ s.cur (extraNodes s).length) s.cur s.maxCi (extraNodes s) 0,
      x.level = s.cur ∧ ∃ nd ∈ extraNodes s, x.pt = nd.pt ∧ x.face = nd.face := by
    intro x hx
    obtain ⟨nd, hnd, h1, h2, h3, _⟩ := mem_assignGo _ _ _ _ _ _ hx
    exact ⟨by rw [h2]; exact (hex1 nd hnd).1, nd, hnd, h1, h3⟩
  -- faces
  have hF : ∀ nd ∈ (endOfDivision σ (addMidEdgeNodes s)).nodes, FaceOK tab (2 * W) nd := by
    intro nd hnd
    rw [hnodes] at hnd
    rcases List.mem_append.1 hnd with hnd | hnd
    · obtain ⟨n, hn', rfl⟩ := List.mem_map.1 hnd
      exact faceOK_dbl (h.faces n hn')
    · obtain ⟨_, x, hx, hp, hfc⟩ := hLnew nd hnd
      obtain ⟨_, _, e, he, hpe, hfe⟩ := hex1 x hx
      have hadj : Adj d W e.1 e.2 := (h.edges e.1 e.2).1 (Or.inl he)
      obtain ⟨A, hA, hAp⟩ := List.mem_map.1 ((h.nodes e.1).2 hadj.1)
      obtain ⟨B, hB, hBp⟩ := List.mem_map.1 ((h.nodes e.2).2 hadj.2.1)
      have fA := faceOf_spec s.nodes A hA h.nodup
      have fB := faceOf_spec s.nodes B hB h.nodup
      rw [hAp] at fA; rw [hBp] at fB
      apply faceOK_mid ht (h.faces A hA) (h.faces B hB) (by rw [hAp]; exact hadj.1) (by rw [hBp]; exact hadj.2.1)
      · rw [hp, hpe, hAp, hBp]
      · rw [hfc, hfe, fA, fB]
  constructor
  · -- lvl
    intro nd hnd
    rw [passes_nodes, hnodes] at hnd
    rw [passes_cur, hcur]
    rcases List.mem_append.1 hnd with hnd | hnd
    · have := hLold nd hnd; omega
    · have := (hLnew nd hnd).1; omega
  · -- nodup
    rw [passes_nodes, hpts, List.nodup_append]
    refine ⟨?_, hex3, ?_⟩
    · rw [List.map_map]
      have : ((fun nd : Node => nd.pt) ∘ dblNode) = (dbl ∘ fun nd : Node => nd.pt) := rfl
      rw [this, ← List.map_map]
      exact List.Nodup.map (fun _ _ hh => dbl_inj hh) h.nodup
    · intro a ha b hb hab
      subst hab
      obtain ⟨c, hc, rfl⟩ := (h.mem_old_iff a).1 ha
      obtain ⟨p, q, hpq, he⟩ := (h.mem_new_iff _).1 hb
      exact mid_ne_dbl hpq hc he.symm
  · -- nodes
    intro p; rw [passes_nodes]; exact hN p
  · -- edges
    intro x y
    constructor
    · intro hE
      rcases passes_elim lens s.cur _ x y hE with h1 | ⟨a, b, ha, hb, _, _, rfl, rfl, hfc, hl⟩
      · rw [hedges, E_addMid] at h1
        obtain ⟨a, b, hab, (⟨rfl, rfl⟩ | ⟨rfl, rfl⟩)⟩ := h1
        · exact adj_mid_dbl ((h.edges a b).1 hab)
        · exact (adj_mid_dbl ((h.edges a b).1 hab)).symm
      · have la := (hN a.pt).1 (List.mem_map_of_mem ha)
        have lb := (hN b.pt).1 (List.mem_map_of_mem hb)
        obtain ⟨hne, hsup⟩ := hn.fwd a.pt b.pt la.1 lb.1 (lat_even la lb) hl
        exact ⟨la, lb, hne, hsup, (common_face_iff ht (hF a ha) (hF b hb)).1 hfc⟩
    · intro hadj
      have hx := (hN x).2 hadj.1
      have hy := (hN y).2 hadj.2.1
      rw [hpts, List.mem_append] at hx hy
      rcases hx with hx | hx
      · obtain ⟨c, hc, rfl⟩ := (h.mem_old_iff x).1 hx
        obtain ⟨h1, h2⟩ := adj_dbl_split hc hadj
        apply passes_mono
        rw [hedges, E_addMid]
        exact ⟨c, sub y c, (h.edges _ _).2 h1, Or.inr ⟨h2, rfl⟩⟩
      · rcases hy with hy | hy
        · obtain ⟨c, hc, rfl⟩ := (h.mem_old_iff y).1 hy
          obtain ⟨h1, h2⟩ := adj_dbl_split hc hadj.symm
          apply passes_mono
          rw [hedges, E_addMid]
          exact ⟨c, sub x c, (h.edges _ _).2 h1, Or.inl ⟨h2, rfl⟩⟩
        · -- both new
          rw [← assignGo_map_pt (σ s.cur (extraNodes s).length) s.cur s.maxCi (extraNodes s) 0] at hx hy
          obtain ⟨a, ha, rfl⟩ := List.mem_map.1 hx
          obtain ⟨b, hb, rfl⟩ := List.mem_map.1 hy
          have ha' : a ∈ (endOfDivision σ (addMidEdgeNodes s)).nodes := by rw [hnodes]; exact List.mem_append_right _ ha
          have hb' : b ∈ (endOfDivision σ (addMidEdgeNodes s)).nodes := by rw [hnodes]; exact List.mem_append_right _ hb
          obtain ⟨l, hl, hs⟩ := hn.bwd a.pt b.pt hadj.1.1 hadj.2.1.1 (lat_even hadj.1 hadj.2.1) hadj.2.2.1
            hadj.2.2.2.1 (let ⟨i, hi, h5, _⟩ := hadj.2.2.2.2; ⟨i, hi, h5⟩)
          exact passes_intro lens s.cur _ a b ha' hb' (hLnew a ha).1 (hLnew b hb).1 hadj.2.2.1
            ((common_face_iff ht (hF a ha') (hF b hb')).2 hadj.2.2.2.2) l hl hs
  · -- faces
    intro nd hnd
    rw [passes_nodes] at hnd
    exact hF nd hnd



/-! ### base case: the level-0 cube / hypercube -/

instance (d : Nat) (W : Int) (p : Pt) : Decidable (Lat d W p) := by unfold Lat; infer_instance
instance (d : Nat) (W : Int) (p q : Pt) : Decidable (Adj d W p q) := by unfold Adj; infer_instance
instance (s : St) (p q : Pt) : Decidable (E s p q) := by unfold E; infer_instance

/-- computable form of `FaceOK`. -/
def faceOKB (tab : FaceTab) (W : Int) (nd : Node) : Bool :=
  nd.face.all (fun f => decide (f < tab.length)) &&
  (List.range tab.length).all (fun f => match tab[f]? with
    | some (ax, pos) => decide (f ∈ nd.face) == decide (co nd.pt ax = sgn W pos)
    | none => true)

theorem faceOKB_sound (tab : FaceTab) (W : Int) (nd : Node) (h : faceOKB tab W nd = true) : FaceOK tab W nd := by
  simp only [faceOKB, Bool.and_eq_true, List.all_eq_true, decide_eq_true_eq, List.mem_range] at h
  obtain ⟨h1, h2⟩ := h
  intro f
  unfold OnFace
  constructor
  · intro hf
    have hlt := h1 f hf
    have := h2 f hlt
    rw [List.getElem?_eq_getElem hlt] at this ⊢
    generalize tab[f] = e at this ⊢
    obtain ⟨ax, pos⟩ := e
    simp only [beq_iff_eq, decide_eq_decide] at this
    exact ⟨ax, pos, rfl, this.1 hf⟩
  · rintro ⟨ax, pos, he, hc⟩
    have hlt : f < tab.length := by
      by_contra hh
      rw [List.getElem?_eq_none (by omega)] at he
      simp at he
    have := h2 f hlt
    rw [he] at this
    simp only [beq_iff_eq, decide_eq_decide] at this
    exact this.2 hc

/-- the graph built by `_create_level0` before `_end_of_divison`. -/
def pre : Kind → St
  | .ico => addEdgesOfLen isPhiLen 0 false (emptySt (mkVertices icoVertices icoFaces))
  | .cube3 => addEdgesOfLen (isLen 8) 0 true (addEdgesOfLen (isLen 4) 0 false
      (emptySt (mkVertices cube3Vertices cube3Faces)))
  | .cube4 => addEdgesOfLen (isLen 12) 0 false (addEdgesOfLen (isLen 8) 0 false
      (addEdgesOfLen (isLen 4) 0 false (emptySt (mkVertices cube4Vertices cube4Faces))))

theorem create_eq (σ : Nat → Nat → Nat → Nat) (kind : Kind) : create σ kind = endOfDivision σ (pre kind) := by
  cases kind <;> rfl

/-- the finitely many facts about a level-0 graph from which the invariant at half width 1 follows. -/
structure BaseOK (d : Nat) (tab : FaceTab) (s : St) : Prop where
  cur : s.cur = 0
  maxCi : s.maxCi = 0
  lvl : ∀ nd ∈ s.nodes, nd.level = 0
  nodup : (s.nodes.map (·.pt)).Nodup
  lat : ∀ p ∈ s.nodes.map (·.pt), Lat d 1 p
  complete : ∀ p, Lat d 1 p → p ∈ s.nodes.map (·.pt)
  adj : ∀ e ∈ s.edges, Adj d 1 e.1 e.2
  edges : ∀ p ∈ s.nodes.map (·.pt), ∀ q ∈ s.nodes.map (·.pt), Adj d 1 p q → E s p q
  faces : ∀ nd ∈ s.nodes, faceOKB tab 1 nd = true

theorem unit_coord (x : Int) (h : -1 ≤ x ∧ x ≤ 1 ∧ x % 2 = 1 % 2) : x = -1 ∨ x = 1 := by omega

theorem baseOK3 : BaseOK 3 cube3Tab (pre .cube3) := by
  refine ⟨rfl, rfl, by decide +kernel, by decide +kernel, by decide +kernel, ?_, by decide +kernel,
    by decide +kernel, by decide +kernel⟩
  intro p hp
  obtain ⟨a, b, c, rfl⟩ := len3 p hp.1
  have hb := hp.2.1
  rw [all_lt3] at hb
  simp only [co, List.getD_cons_zero, List.getD_cons_succ] at hb
  rcases unit_coord a hb.1 with rfl | rfl <;> rcases unit_coord b hb.2.1 with rfl | rfl <;>
    rcases unit_coord c hb.2.2 with rfl | rfl <;> decide +kernel

theorem baseOK4 : BaseOK 4 cube4Tab (pre .cube4) := by
  refine ⟨rfl, rfl, by decide +kernel, by decide +kernel, by decide +kernel, ?_, by decide +kernel,
    by decide +kernel, by decide +kernel⟩
  intro p hp
  obtain ⟨a, b, c, e, rfl⟩ := len4 p hp.1
  have hb := hp.2.1
  rw [all_lt4] at hb
  simp only [co, List.getD_cons_zero, List.getD_cons_succ] at hb
  rcases unit_coord a hb.1 with rfl | rfl <;> rcases unit_coord b hb.2.1 with rfl | rfl <;>
    rcases unit_coord c hb.2.2.1 with rfl | rfl <;> rcases unit_coord e hb.2.2.2 with rfl | rfl <;> decide +kernel

theorem geo_base {d : Nat} {tab : FaceTab} {s : St} (hb : BaseOK d tab s) (σ : Nat → Nat → Nat → Nat) :
    Geo d tab 1 (endOfDivision σ s) := by
  obtain ⟨hn, _⟩ := endOfDivision_nodes σ s [] s.nodes (by simp) (by simp) (by
    intro nd hnd; rw [hb.cur]; exact hb.lvl nd hnd)
  rw [List.nil_append] at hn
  have hpts : (endOfDivision σ s).nodes.map (·.pt) = s.nodes.map (·.pt) := by rw [hn, assignGo_map_pt]
  have hE : ∀ p q, E (endOfDivision σ s) p q ↔ E s p q := fun _ _ => Iff.rfl
  constructor
  · intro nd hnd
    rw [hn] at hnd
    obtain ⟨n, hn', _, h2, _⟩ := mem_assignGo _ _ _ _ _ _ hnd
    rw [h2, hb.lvl n hn']
    show 0 < s.cur + 1
    omega
  · rw [hpts]; exact hb.nodup
  · intro p
    rw [hpts]
    exact ⟨hb.lat p, hb.complete p⟩
  · intro p q
    rw [hE]
    constructor
    · rintro (h | h)
      · exact hb.adj _ h
      · exact (hb.adj _ h).symm
    · intro h
      exact hb.edges p (hb.complete p h.1) q (hb.complete q h.2.1) h
  · intro nd hnd
    rw [hn] at hnd
    obtain ⟨n, hn', h1, _, h3, _⟩ := mem_assignGo _ _ _ _ _ _ hnd
    have := faceOKB_sound tab 1 n (hb.faces n hn')
    intro f
    rw [h3, h1]
    exact this f



/-! ### iteration -/

def cubeDim : Kind → Nat
  | .cube4 => 4
  | _ => 3
def cubeTab : Kind → FaceTab
  | .cube4 => cube4Tab
  | _ => cube3Tab
def cubeLens : Kind → List Int
  | .cube4 => [4, 8, 12]
  | _ => [4, 8]
def IsCube (kind : Kind) : Prop := kind = .cube3 ∨ kind = .cube4

theorem divide_cube (σ : Nat → Nat → Nat → Nat) (kind : Kind) (hk : IsCube kind) (s : St) :
    divide σ kind s = passes (cubeLens kind) s.cur (endOfDivision σ (addMidEdgeNodes s)) := by
  rcases hk with rfl | rfl
  · show passes [4, 8] (s.cur + 1 - 1) _ = _
    rw [Nat.add_sub_cancel]; rfl
  · show passes [4, 8, 12] (s.cur + 1 - 1) _ = _
    rw [Nat.add_sub_cancel]; rfl

theorem cube_tabOK (kind : Kind) (hk : IsCube kind) : TabOK (cubeDim kind) (cubeTab kind) := by
  rcases hk with rfl | rfl
  · exact tabOK3
  · exact tabOK4
theorem cube_nearOK (kind : Kind) (hk : IsCube kind) : NearOK (cubeDim kind) (cubeLens kind) := by
  rcases hk with rfl | rfl
  · exact nearOK3
  · exact nearOK4
theorem cube_baseOK (kind : Kind) (hk : IsCube kind) : BaseOK (cubeDim kind) (cubeTab kind) (pre kind) := by
  rcases hk with rfl | rfl
  · exact baseOK3
  · exact baseOK4

/-- **The invariant holds after every number of divisions**, for every offset table `σ` (permutation or not). -/
theorem geo_iter (σ : Nat → Nat → Nat → Nat) (kind : Kind) (hk : IsCube kind) (k : Nat) :
    Geo (cubeDim kind) (cubeTab kind) ((2 : Int) ^ k) (iter σ kind k) := by
  induction k with
  | zero =>
    show Geo _ _ _ (create σ kind)
    rw [create_eq]
    simpa using geo_base (cube_baseOK kind hk) σ
  | succ k ih =>
    show Geo _ _ _ (divide σ kind (iter σ kind k))
    rw [divide_cube σ kind hk, pow_succ, mul_comm]
    exact geo_step (cube_tabOK kind hk) (cube_nearOK kind hk) σ ih

/-! ### index bookkeeping for every polytope class -/

theorem good_base (σ : Nat → Nat → Nat → Nat) (hσ : PermFam σ) (s : St) (hc : s.cur = 0) (hm : s.maxCi = 0)
    (hl : ∀ nd ∈ s.nodes, nd.level = 0) (hd : (s.nodes.map (·.pt)).Nodup) : Good (endOfDivision σ s) := by
  apply good_endOfDivision σ hσ s [] s.nodes (by simp) (by simp) (by intro nd hnd; rw [hc]; exact hl nd hnd)
    (by simp [hm]) (by simp) (by simpa using hd)

theorem good_of_eq {s s' : St} (h : Good s) (hn : s'.nodes = s.nodes) (hc : s'.cur = s.cur) (hm : s'.maxCi = s.maxCi) :
    Good s' := by
  constructor
  · rw [hn, hc]; exact h.lvl
  · rw [hn, hm]; exact h.perm
  · rw [hn]; exact h.mono
  · rw [hn]; exact h.nodup

theorem good_step (σ : Nat → Nat → Nat → Nat) (hσ : PermFam σ) (s : St) (h : Good s) (hf : Fresh s) :
    Good (endOfDivision σ (addMidEdgeNodes s)) := by
  obtain ⟨hex1, hex2, hex3⟩ := extraNodes_spec s
  apply good_endOfDivision σ hσ (addMidEdgeNodes s) (s.nodes.map dblNode) (extraNodes s) (addMid_nodes s hf)
  · intro nd hnd
    obtain ⟨n, hn, rfl⟩ := List.mem_map.1 hnd
    exact h.lvl n hn
  · intro nd hnd; exact (hex1 nd hnd).1
  · rw [List.map_map]
    exact h.perm
  · intro a ha b hb
    obtain ⟨a', ha', rfl⟩ := List.mem_map.1 ha
    obtain ⟨b', hb', rfl⟩ := List.mem_map.1 hb
    exact h.mono a' ha' b' hb'
  · rw [List.map_append, List.nodup_append]
    refine ⟨?_, hex3, ?_⟩
    · rw [List.map_map]
      have : ((fun nd : Node => nd.pt) ∘ dblNode) = (dbl ∘ fun nd : Node => nd.pt) := rfl
      rw [this, ← List.map_map]
      exact List.Nodup.map (fun _ _ hh => dbl_inj hh) h.nodup
    · intro a ha b hb hab
      subst hab
      obtain ⟨n, hn, rfl⟩ := List.mem_map.1 ha
      obtain ⟨n', hn', rfl⟩ := List.mem_map.1 hn
      obtain ⟨e, he, hpe⟩ := (hex2 _).1 hb
      exact hf e he n' hn' hpe.symm

/-- one division keeps every node: same index, level and face; coordinates in the halved unit. -/
theorem step_keeps (σ : Nat → Nat → Nat → Nat) (s : St) (hf : Fresh s) (hl : ∀ nd ∈ s.nodes, nd.level < s.cur)
    (nd : Node) (hnd : nd ∈ s.nodes) : dblNode nd ∈ (endOfDivision σ (addMidEdgeNodes s)).nodes := by
  rw [(divided_nodes σ s hf hl).1]
  exact List.mem_append_left _ (List.mem_map_of_mem hnd)

theorem good_iter_cube (σ : Nat → Nat → Nat → Nat) (hσ : PermFam σ) (kind : Kind) (hk : IsCube kind) (k : Nat) :
    Good (iter σ kind k) := by
  induction k with
  | zero =>
    show Good (create σ kind)
    rw [create_eq]
    have hb := cube_baseOK kind hk
    exact good_base σ hσ _ hb.cur hb.maxCi hb.lvl hb.nodup
  | succ k ih =>
    show Good (divide σ kind (iter σ kind k))
    rw [divide_cube σ kind hk]
    exact good_of_eq (good_step σ hσ _ ih (geo_iter σ kind hk k).fresh) (by simp) (by simp) (by simp)

theorem smul_one (p : Pt) : smul 1 p = p := by simp [smul]
theorem dbl_smul (c : Int) (p : Pt) : dbl (smul c p) = smul (2 * c) p := by
  simp [dbl, smul, List.map_map, mul_assoc]

theorem keeps_iter_cube (σ : Nat → Nat → Nat → Nat) (kind : Kind) (hk : IsCube kind) (k m : Nat) (nd : Node)
    (hnd : nd ∈ (iter σ kind k).nodes) :
    ∃ nd' ∈ (iter σ kind (k + m)).nodes, nd'.pt = smul ((2 : Int) ^ m) nd.pt ∧ nd'.idx = nd.idx ∧
      nd'.level = nd.level ∧ nd'.face = nd.face := by
  induction m with
  | zero => exact ⟨nd, hnd, by simp [smul_one], rfl, rfl, rfl⟩
  | succ m ih =>
    obtain ⟨nd', hnd', h1, h2, h3, h4⟩ := ih
    refine ⟨dblNode nd', ?_, ?_, h2, h3, h4⟩
    · show dblNode nd' ∈ (divide σ kind (iter σ kind (k + m))).nodes
      rw [divide_cube σ kind hk, passes_nodes]
      have hg := geo_iter σ kind hk (k + m)
      exact step_keeps σ _ hg.fresh hg.lvl nd' hnd'
    · show dbl nd'.pt = _
      rw [h1, dbl_smul, pow_succ, mul_comm]

end Molgri.Polytope
