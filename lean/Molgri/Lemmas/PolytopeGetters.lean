/-
Getter lemmas for C18: `get_nodes` rows are in index order, `get_half_of_hypercube` is the filter of those rows by
`q_in_upper_sphere`, and `q_in_upper_sphere` means "first non-zero coordinate positive".
-/
import Molgri.Lemmas.PolytopeCubeInv
namespace Molgri.Polytope
/-! ### getters -/

theorem insertByIdx_perm (nd : Node) (l : List Node) : (insertByIdx nd l).Perm (nd :: l) := by
  induction l with
  | nil => simp [insertByIdx]
  | cons a t ih =>
    unfold insertByIdx
    split
    · exact List.Perm.refl _
    · exact (List.Perm.cons a ih).trans (List.Perm.swap nd a t)

theorem sortByIdx_perm (l : List Node) : (sortByIdx l).Perm l := by
  unfold sortByIdx
  induction l with
  | nil => simp
  | cons a t ih =>
    simp only [List.foldr_cons]
    exact (insertByIdx_perm a _).trans (List.Perm.cons a ih)

theorem insertByIdx_sorted (nd : Node) (l : List Node) (h : l.Pairwise (fun a b => a.idx ≤ b.idx)) :
    (insertByIdx nd l).Pairwise (fun a b => a.idx ≤ b.idx) := by
  induction l with
  | nil => simp [insertByIdx]
  | cons a t ih =>
    unfold insertByIdx
    rw [List.pairwise_cons] at h
    split
    · rename_i hlt
      rw [List.pairwise_cons]
      refine ⟨?_, List.pairwise_cons.2 h⟩
      intro b hb
      rcases List.mem_cons.1 hb with rfl | hb
      · omega
      · have := h.1 b hb; omega
    · rename_i hge
      rw [List.pairwise_cons]
      refine ⟨?_, ih h.2⟩
      intro b hb
      have := (insertByIdx_perm nd t).subset hb
      rcases List.mem_cons.1 this with rfl | hb'
      · omega
      · exact h.1 b hb'

theorem sortByIdx_sorted (l : List Node) : (sortByIdx l).Pairwise (fun a b => a.idx ≤ b.idx) := by
  unfold sortByIdx
  induction l with
  | nil => simp
  | cons a t ih => simp only [List.foldr_cons]; exact insertByIdx_sorted a _ ih

/-- rows of `get_nodes()`: row `i` carries index `i`. -/
theorem sortByIdx_idx {s : St} (h : Good s) : (sortByIdx s.nodes).map (·.idx) = List.range s.maxCi := by
  have hp : ((sortByIdx s.nodes).map (·.idx)).Perm (List.range s.maxCi) := ((sortByIdx_perm s.nodes).map _).trans h.perm
  apply List.Perm.eq_of_pairwise (le := (· ≤ ·)) _ _ List.pairwise_le_range hp
  · intro a b _ _ h1 h2; omega
  · rw [List.pairwise_map]; exact sortByIdx_sorted _

theorem Good.length_eq {s : St} (h : Good s) : s.nodes.length = s.maxCi := by
  have := h.perm.length_eq
  simpa using this

theorem insertNat_sorted_id (n : Nat) (l : List Nat) (h : (n :: l).Pairwise (· ≤ ·)) : insertNat n l = n :: l := by
  cases l with
  | nil => rfl
  | cons a t =>
    unfold insertNat
    rw [List.pairwise_cons] at h
    have := h.1 a (by simp)
    split
    · rfl
    · have : n = a := by omega
      subst this
      rw [insertNat_sorted_id n t (by
        rw [List.pairwise_cons] at h ⊢
        exact h.2)]

theorem sortNat_sorted_id (l : List Nat) (h : l.Pairwise (· ≤ ·)) : sortNat l = l := by
  unfold sortNat
  induction l with
  | nil => rfl
  | cons a t ih =>
    simp only [List.foldr_cons]
    rw [ih (List.pairwise_cons.1 h).2]
    exact insertNat_sorted_id a t h

/-- the recursive reading of `q_in_upper_sphere`: the first non-zero coordinate is positive. -/
def upperRec : Pt → Bool
  | [] => false
  | x :: t => if 0 < x then true else if x = 0 then upperRec t else false

theorem upperAt_succ (x : Int) (t : Pt) (i : Nat) : upperAt (x :: t) (i + 1) = (x == 0 && upperAt t i) := by
  simp [upperAt, Bool.and_assoc]

theorem inUpper_eq_upperRec (p : Pt) : inUpper p = upperRec p := by
  induction p with
  | nil => rfl
  | cons x t ih =>
    unfold inUpper upperRec
    rw [List.length_cons, List.range_succ_eq_map, List.any_cons, List.any_map]
    have h1 : upperAt (x :: t) 0 = decide (0 < x) := by simp [upperAt]
    have h2 : ((List.range t.length).any ((upperAt (x :: t)) ∘ Nat.succ)) = (x == 0 && inUpper t) := by
      unfold inUpper
      induction (List.range t.length) with
      | nil => simp
      | cons a l ihl =>
        simp only [List.any_cons, Function.comp, ihl, upperAt_succ]
        cases (x == 0) <;> simp
    rw [h1, h2, ih]
    by_cases hx : 0 < x
    · simp [hx]
    · by_cases h0 : x = 0
      · simp [h0]
      · simp [hx, h0]

theorem upperRec_neg (p : Pt) (h : ∃ x ∈ p, x ≠ 0) : upperRec (neg p) = !upperRec p := by
  induction p with
  | nil => simp at h
  | cons x t ih =>
    simp only [neg, List.map_cons, upperRec]
    by_cases hx : 0 < x
    · have : ¬ (0 < -x) := by omega
      have : ¬ (-x = 0) := by omega
      simp [*]; omega
    · by_cases h0 : x = 0
      · subst h0
        have ht : ∃ y ∈ t, y ≠ 0 := by
          obtain ⟨y, hy, hne⟩ := h
          rcases List.mem_cons.1 hy with rfl | hy
          · exact absurd rfl hne
          · exact ⟨y, hy, hne⟩
        have := ih ht
        simp only [neg] at this
        simp [this]
      · have : 0 < -x := by omega
        simp [*]; omega



theorem rows_getElem_idx {rows : List Node} {n : Nat} (h : rows.map (·.idx) = List.range n) (i : Nat)
    (hi : i < rows.length) : rows[i].idx = i := by
  have h1 : (rows.map (·.idx))[i]'(by simpa using hi) = i := by
    simp only [h]; simp
  simpa using h1

theorem rowOf_eq {rows : List Node} {n : Nat} (h : rows.map (·.idx) = List.range n)
    (hd : (rows.map (·.pt)).Nodup) (nd : Node) (hnd : nd ∈ rows) :
    rowOf rows nd.pt = nd.idx ∧ rows[nd.idx]? = some nd := by
  obtain ⟨i, hi, rfl⟩ := List.mem_iff_getElem.1 hnd
  have hidx := rows_getElem_idx h i hi
  rw [hidx]
  refine ⟨?_, by simp [hi]⟩
  unfold rowOf
  rw [List.findIdx_eq hi]
  refine ⟨by simp, ?_⟩
  intro j hji
  have hj : j < rows.length := by omega
  simp only [beq_eq_false_iff_ne, ne_eq]
  intro he
  have h1 : (rows.map (·.pt))[j]'(by simpa using hj) = (rows.map (·.pt))[i]'(by simpa using hi) := by
    simpa using he
  have := (List.Nodup.getElem_inj_iff hd).1 h1
  omega

/-- `get_half_of_hypercube()` returns, in index order, the rows of `get_nodes()` that lie in the upper half. -/
theorem getHalf_eq {s : St} (h : Good s) :
    getHalf s none = .ok ((sortByIdx s.nodes).filter (fun nd => inUpper nd.pt)) := by
  have hidx := sortByIdx_idx h
  have hd : ((sortByIdx s.nodes).map (·.pt)).Nodup := ((sortByIdx_perm s.nodes).map _).nodup_iff.2 h.nodup
  unfold getHalf
  simp only
  congr 1
  have hsub : ∀ nd ∈ (sortByIdx s.nodes).filter (fun nd => inUpper nd.pt), nd ∈ sortByIdx s.nodes :=
    fun nd hnd => (List.mem_filter.1 hnd).1
  have h1 : ((sortByIdx s.nodes).filter (fun nd => inUpper nd.pt)).map (fun nd => rowOf (sortByIdx s.nodes) nd.pt)
      = ((sortByIdx s.nodes).filter (fun nd => inUpper nd.pt)).map (·.idx) := by
    apply List.map_congr_left
    intro nd hnd
    exact (rowOf_eq hidx hd nd (hsub nd hnd)).1
  rw [h1]
  have h2 : (((sortByIdx s.nodes).filter (fun nd => inUpper nd.pt)).map (·.idx)).Pairwise (· ≤ ·) := by
    have hs : (((sortByIdx s.nodes).filter (fun nd => inUpper nd.pt)).map (·.idx)).Sublist
        ((sortByIdx s.nodes).map (·.idx)) := (List.filter_sublist).map _
    rw [hidx] at hs
    exact List.Pairwise.sublist hs List.pairwise_le_range
  rw [sortNat_sorted_id _ h2, List.filterMap_map]
  have h3 : ∀ nd ∈ (sortByIdx s.nodes).filter (fun nd => inUpper nd.pt),
      ((fun i => (sortByIdx s.nodes)[i]?) ∘ fun nd : Node => nd.idx) nd = some nd := by
    intro nd hnd
    exact (rowOf_eq hidx hd nd (hsub nd hnd)).2
  rw [List.filterMap_congr h3, List.filterMap_some]

end Molgri.Polytope
