/-
Icosahedron geometry for C18: barycentric lattice on the twenty faces (`LatI`, `AdjI`), the weight of every vertex
in a lattice point and its uniqueness across faces, and the arithmetic facts behind the induction step.
-/
import Molgri.Lemmas.PolytopeCubeInv
namespace Molgri.Polytope
/-! ### icosahedron: barycentric lattice on the twenty faces -/

/-- vertex number ↦ coordinates `[a₁,b₁,a₂,b₂,a₃,b₃]`. -/
def vtx (v : Nat) : Pt := icoVertices.getD v []

/-- `i·A + j·B + l·C` for vertex numbers `A B C`. -/
def comb (A B C : Nat) (i j l : Int) : Pt := add3 (smul i (vtx A)) (smul j (vtx B)) (smul l (vtx C))

def IsFace (A B C : Nat) : Prop := [A, B, C] ∈ icoFaces

theorem vtx_len (v : Nat) (h : v < 12) : (vtx v).length = 6 := by
  have : ∀ v, v < 12 → (vtx v).length = 6 := by decide
  exact this v h

def faceWf : List Nat → Bool
  | [A, B, C] => decide (A < 12) && decide (B < 12) && decide (C < 12) && decide (A ≠ B) && decide (A ≠ C) && decide (B ≠ C)
  | _ => false

theorem isFace_lt {A B C : Nat} (h : IsFace A B C) : A < 12 ∧ B < 12 ∧ C < 12 ∧ A ≠ B ∧ A ≠ C ∧ B ≠ C := by
  have hall : icoFaces.all faceWf = true := by decide
  have := List.all_eq_true.1 hall _ h
  simpa [faceWf, and_assoc] using this

theorem co_smul (c : Int) (p : Pt) (t : Nat) : co (smul c p) t = c * co p t := by
  unfold co smul
  induction p generalizing t with
  | nil => simp
  | cons a u ih => cases t <;> simp_all

theorem len_smul (c : Int) (p : Pt) : (smul c p).length = p.length := by simp [smul]

theorem co_add3 (p q r : Pt) (t : Nat) (h1 : p.length = q.length) (h2 : q.length = r.length) :
    co (add3 p q r) t = co p t + co q t + co r t := by
  unfold add3
  have := co_mid (mid p q) r t (by rw [len_mid p q h1]; omega)
  unfold mid at this
  rw [this]
  have := co_mid p q t h1
  unfold mid at this
  rw [this]

theorem len_add3 (p q r : Pt) (h1 : p.length = q.length) (h2 : q.length = r.length) :
    (add3 p q r).length = p.length := by
  simp [add3, h1, h2]

theorem len_comb {A B C : Nat} (h : IsFace A B C) (i j l : Int) : (comb A B C i j l).length = 6 := by
  obtain ⟨hA, hB, hC, _⟩ := isFace_lt h
  unfold comb
  rw [len_add3 _ _ _ (by simp [len_smul, vtx_len, hA, hB]) (by simp [len_smul, vtx_len, hB, hC])]
  simp [len_smul, vtx_len, hA]

theorem co_comb {A B C : Nat} (h : IsFace A B C) (i j l : Int) (t : Nat) :
    co (comb A B C i j l) t = i * co (vtx A) t + j * co (vtx B) t + l * co (vtx C) t := by
  obtain ⟨hA, hB, hC, _⟩ := isFace_lt h
  unfold comb
  have h1 : (smul i (vtx A)).length = (smul j (vtx B)).length := by simp [len_smul, vtx_len, hA, hB]
  have h2 : (smul j (vtx B)).length = (smul l (vtx C)).length := by simp [len_smul, vtx_len, hB, hC]
  rw [co_add3 _ _ _ t h1 h2]
  simp [co_smul]

theorem comb_ext {A B C : Nat} (h : IsFace A B C) (i j l : Int) (p : Pt) (hp : p.length = 6)
    (hc : ∀ t, t < 6 → co p t = i * co (vtx A) t + j * co (vtx B) t + l * co (vtx C) t) : p = comb A B C i j l := by
  apply pt_ext
  · rw [hp, len_comb h]
  · intro t ht
    rw [co_comb h, hc t (by omega)]

theorem dbl_comb {A B C : Nat} (h : IsFace A B C) (i j l : Int) :
    dbl (comb A B C i j l) = comb A B C (2 * i) (2 * j) (2 * l) := by
  apply comb_ext h
  · simp [len_comb h]
  · intro t _
    rw [co_dbl, co_comb h]; ring

theorem mid_comb {A B C : Nat} (h : IsFace A B C) (i j l i' j' l' : Int) :
    mid (comb A B C i j l) (comb A B C i' j' l') = comb A B C (i + i') (j + j') (l + l') := by
  have hl : (comb A B C i j l).length = (comb A B C i' j' l').length := by rw [len_comb h, len_comb h]
  apply comb_ext h
  · rw [len_mid _ _ hl, len_comb h]
  · intro t _
    rw [co_mid _ _ _ hl, co_comb h, co_comb h]; ring

/-- lattice of frequency `2^k` on the faces, in the unit of level `k`. -/
def LatI (k : Nat) (p : Pt) : Prop :=
  ∃ A B C, IsFace A B C ∧ ∃ i j l : Int, 0 ≤ i ∧ 0 ≤ j ∧ 0 ≤ l ∧ i + j + l = 2 ^ k ∧ p = comb A B C i j l

/-- one step of the triangular lattice in barycentric coordinates. -/
def UnitStep (a b c : Int) : Prop :=
  a + b + c = 0 ∧ -1 ≤ a ∧ a ≤ 1 ∧ -1 ≤ b ∧ b ≤ 1 ∧ -1 ≤ c ∧ c ≤ 1 ∧ (a ≠ 0 ∨ b ≠ 0)

/-- neighbours in the triangulation of a face. -/
def AdjI (k : Nat) (p q : Pt) : Prop :=
  ∃ A B C, IsFace A B C ∧ ∃ i j l i' j' l' : Int, 0 ≤ i ∧ 0 ≤ j ∧ 0 ≤ l ∧ 0 ≤ i' ∧ 0 ≤ j' ∧ 0 ≤ l' ∧
    i + j + l = 2 ^ k ∧ i' + j' + l' = 2 ^ k ∧ p = comb A B C i j l ∧ q = comb A B C i' j' l' ∧
    UnitStep (i' - i) (j' - j) (l' - l)

theorem AdjI.symm {k : Nat} {p q : Pt} (h : AdjI k p q) : AdjI k q p := by
  obtain ⟨A, B, C, hF, i, j, l, i', j', l', h1, h2, h3, h4, h5, h6, s1, s2, rfl, rfl, hu⟩ := h
  refine ⟨A, B, C, hF, i', j', l', i, j, l, h4, h5, h6, h1, h2, h3, s2, s1, rfl, rfl, ?_⟩
  unfold UnitStep at hu ⊢; omega

theorem AdjI.left {k : Nat} {p q : Pt} (h : AdjI k p q) : LatI k p := by
  obtain ⟨A, B, C, hF, i, j, l, i', j', l', h1, h2, h3, h4, h5, h6, s1, s2, rfl, rfl, hu⟩ := h
  exact ⟨A, B, C, hF, i, j, l, h1, h2, h3, s1, rfl⟩
theorem AdjI.right {k : Nat} {p q : Pt} (h : AdjI k p q) : LatI k q := h.symm.left

theorem latI_dbl {k : Nat} {p : Pt} (h : LatI k p) : LatI (k + 1) (dbl p) := by
  obtain ⟨A, B, C, hF, i, j, l, h1, h2, h3, hs, rfl⟩ := h
  refine ⟨A, B, C, hF, 2 * i, 2 * j, 2 * l, by omega, by omega, by omega, ?_, dbl_comb hF i j l⟩
  rw [pow_succ]; omega

theorem latI_mid {k : Nat} {p q : Pt} (h : AdjI k p q) : LatI (k + 1) (mid p q) := by
  obtain ⟨A, B, C, hF, i, j, l, i', j', l', h1, h2, h3, h4, h5, h6, s1, s2, rfl, rfl, hu⟩ := h
  refine ⟨A, B, C, hF, i + i', j + j', l + l', by omega, by omega, by omega, ?_, mid_comb hF _ _ _ _ _ _⟩
  rw [pow_succ]; omega

theorem adjI_mid_dbl {k : Nat} {a b : Pt} (h : AdjI k a b) : AdjI (k + 1) (mid a b) (dbl a) := by
  obtain ⟨A, B, C, hF, i, j, l, i', j', l', h1, h2, h3, h4, h5, h6, s1, s2, rfl, rfl, hu⟩ := h
  refine ⟨A, B, C, hF, i + i', j + j', l + l', 2 * i, 2 * j, 2 * l, by omega, by omega, by omega, by omega, by omega,
    by omega, ?_, ?_, mid_comb hF _ _ _ _ _ _, dbl_comb hF _ _ _, ?_⟩
  · rw [pow_succ]; omega
  · rw [pow_succ]; omega
  · unfold UnitStep at hu ⊢; omega

/-- every point of the finer lattice is an old point or the midpoint of an edge of the triangulation. -/
theorem latI_split {k : Nat} {x : Pt} (h : LatI (k + 1) x) :
    (∃ y, LatI k y ∧ x = dbl y) ∨ (∃ p q, AdjI k p q ∧ x = mid p q) := by
  obtain ⟨A, B, C, hF, i, j, l, h1, h2, h3, hs, rfl⟩ := h
  rw [pow_succ] at hs
  by_cases hev : i % 2 = 0 ∧ j % 2 = 0 ∧ l % 2 = 0
  · left
    refine ⟨comb A B C (i / 2) (j / 2) (l / 2), ⟨A, B, C, hF, i / 2, j / 2, l / 2, by omega, by omega, by omega,
      by omega, rfl⟩, ?_⟩
    rw [dbl_comb hF]
    congr 1 <;> omega
  · right
    -- exactly two of i j l are odd
    have hcase : (i % 2 = 1 ∧ j % 2 = 1 ∧ l % 2 = 0) ∨ (i % 2 = 1 ∧ j % 2 = 0 ∧ l % 2 = 1) ∨
        (i % 2 = 0 ∧ j % 2 = 1 ∧ l % 2 = 1) := by omega
    rcases hcase with hc | hc | hc
    · refine ⟨comb A B C (i / 2 + 1) (j / 2) (l / 2), comb A B C (i / 2) (j / 2 + 1) (l / 2),
        ⟨A, B, C, hF, i / 2 + 1, j / 2, l / 2, i / 2, j / 2 + 1, l / 2, by omega, by omega, by omega, by omega,
          by omega, by omega, by omega, by omega, rfl, rfl, by unfold UnitStep; omega⟩, ?_⟩
      rw [mid_comb hF]
      congr 1 <;> omega
    · refine ⟨comb A B C (i / 2 + 1) (j / 2) (l / 2), comb A B C (i / 2) (j / 2) (l / 2 + 1),
        ⟨A, B, C, hF, i / 2 + 1, j / 2, l / 2, i / 2, j / 2, l / 2 + 1, by omega, by omega, by omega, by omega,
          by omega, by omega, by omega, by omega, rfl, rfl, by unfold UnitStep; omega⟩, ?_⟩
      rw [mid_comb hF]
      congr 1 <;> omega
    · refine ⟨comb A B C (i / 2) (j / 2 + 1) (l / 2), comb A B C (i / 2) (j / 2) (l / 2 + 1),
        ⟨A, B, C, hF, i / 2, j / 2 + 1, l / 2, i / 2, j / 2, l / 2 + 1, by omega, by omega, by omega, by omega,
          by omega, by omega, by omega, by omega, rfl, rfl, by unfold UnitStep; omega⟩, ?_⟩
      rw [mid_comb hF]
      congr 1 <;> omega



/-! ### weights: a lattice point determines the weight of every vertex -/

/-- weight of vertex `t` in `i·A + j·B + l·C`. -/
def wts (A B C : Nat) (i j l : Int) (t : Nat) : Int :=
  (if t = A then i else 0) + (if t = B then j else 0) + (if t = C then l else 0)

/-- `Σ w(v) · vertex v`. -/
def ptwI (w : Nat → Int) : Pt :=
  [w 1 + w 3 - w 0 - w 2, w 8 + w 9 - w 10 - w 11, w 5 + w 7 - w 4 - w 6,
   w 0 + w 1 - w 2 - w 3, w 9 + w 11 - w 8 - w 10, w 4 + w 5 - w 6 - w 7]

def tot12 (w : Nat → Int) : Int := w 0 + w 1 + w 2 + w 3 + w 4 + w 5 + w 6 + w 7 + w 8 + w 9 + w 10 + w 11

theorem all_lt12 (P : Nat → Prop) : (∀ t, t < 12 → P t) ↔
    P 0 ∧ P 1 ∧ P 2 ∧ P 3 ∧ P 4 ∧ P 5 ∧ P 6 ∧ P 7 ∧ P 8 ∧ P 9 ∧ P 10 ∧ P 11 := by
  constructor
  · intro h
    exact ⟨h 0 (by omega), h 1 (by omega), h 2 (by omega), h 3 (by omega), h 4 (by omega), h 5 (by omega),
      h 6 (by omega), h 7 (by omega), h 8 (by omega), h 9 (by omega), h 10 (by omega), h 11 (by omega)⟩
  · rintro ⟨h0, h1, h2, h3, h4, h5, h6, h7, h8, h9, h10, h11⟩ t ht
    match t, ht with
    | 0, _ => exact h0
    | 1, _ => exact h1
    | 2, _ => exact h2
    | 3, _ => exact h3
    | 4, _ => exact h4
    | 5, _ => exact h5
    | 6, _ => exact h6
    | 7, _ => exact h7
    | 8, _ => exact h8
    | 9, _ => exact h9
    | 10, _ => exact h10
    | 11, _ => exact h11

/-- non-negative weights, and within each of the three rectangles of vertices only one short side is used
(true of every weight vector supported on a face). -/
def FC (w : Nat → Int) : Prop :=
  (∀ t, t < 12 → 0 ≤ w t) ∧ ((w 0 = 0 ∧ w 1 = 0) ∨ (w 2 = 0 ∧ w 3 = 0)) ∧
    ((w 4 = 0 ∧ w 5 = 0) ∨ (w 6 = 0 ∧ w 7 = 0)) ∧ ((w 8 = 0 ∧ w 9 = 0) ∨ (w 10 = 0 ∧ w 11 = 0))

theorem uniq_weights (w w' : Nat → Int) (h : FC w) (h' : FC w') (he : ptwI w = ptwI w') :
    ∀ t, t < 12 → w t = w' t := by
  obtain ⟨hn, g1, g2, g3⟩ := h
  obtain ⟨hn', g1', g2', g3'⟩ := h'
  rw [all_lt12] at hn hn' ⊢
  simp only [ptwI, List.cons.injEq, and_true] at he
  obtain ⟨e1, e2, e3, e4, e5, e6⟩ := he
  refine ⟨?_, ?_, ?_, ?_, ?_, ?_, ?_, ?_, ?_, ?_, ?_, ?_⟩ <;> omega


theorem isFace_cases {A B C : Nat} (h : IsFace A B C) (P : Nat → Nat → Nat → Prop)
    (hP : P 0 11 5 ∧ P 0 5 1 ∧ P 0 1 7 ∧ P 0 7 10 ∧ P 0 10 11 ∧ P 1 5 9 ∧ P 5 11 4 ∧ P 11 10 2 ∧ P 10 7 6 ∧
      P 7 1 8 ∧ P 3 9 4 ∧ P 3 4 2 ∧ P 3 2 6 ∧ P 3 6 8 ∧ P 3 8 9 ∧ P 4 9 5 ∧ P 2 4 11 ∧ P 6 2 10 ∧ P 8 6 7 ∧
      P 9 8 1) : P A B C := by
  unfold IsFace icoFaces at h
  simp only [List.mem_cons, List.cons.injEq, and_true, List.not_mem_nil, or_false] at h
  obtain ⟨p1, p2, p3, p4, p5, p6, p7, p8, p9, p10, p11, p12, p13, p14, p15, p16, p17, p18, p19, p20⟩ := hP
  rcases h with ⟨rfl, rfl, rfl⟩ | ⟨rfl, rfl, rfl⟩ | ⟨rfl, rfl, rfl⟩ | ⟨rfl, rfl, rfl⟩ | ⟨rfl, rfl, rfl⟩ |
    ⟨rfl, rfl, rfl⟩ | ⟨rfl, rfl, rfl⟩ | ⟨rfl, rfl, rfl⟩ | ⟨rfl, rfl, rfl⟩ | ⟨rfl, rfl, rfl⟩ | ⟨rfl, rfl, rfl⟩ |
    ⟨rfl, rfl, rfl⟩ | ⟨rfl, rfl, rfl⟩ | ⟨rfl, rfl, rfl⟩ | ⟨rfl, rfl, rfl⟩ | ⟨rfl, rfl, rfl⟩ | ⟨rfl, rfl, rfl⟩ |
    ⟨rfl, rfl, rfl⟩ | ⟨rfl, rfl, rfl⟩ | ⟨rfl, rfl, rfl⟩ <;> assumption

theorem face_weights {A B C : Nat} (h : IsFace A B C) (i j l : Int) (hi : 0 ≤ i) (hj : 0 ≤ j) (hl : 0 ≤ l) :
    ptwI (wts A B C i j l) = comb A B C i j l ∧ FC (wts A B C i j l) ∧ tot12 (wts A B C i j l) = i + j + l := by
  refine isFace_cases h (fun A B C => ptwI (wts A B C i j l) = comb A B C i j l ∧ FC (wts A B C i j l) ∧
    tot12 (wts A B C i j l) = i + j + l) ?_
  refine ⟨?_, ?_, ?_, ?_, ?_, ?_, ?_, ?_, ?_, ?_, ?_, ?_, ?_, ?_, ?_, ?_, ?_, ?_, ?_, ?_⟩ <;>
  (refine ⟨?_, ⟨?_, ?_, ?_, ?_⟩, ?_⟩
   · simp [ptwI, wts, comb, add3, smul, vtx, icoVertices] <;> omega
   · (rw [all_lt12]; simp [wts]; omega)
   · simp [wts]
   · simp [wts]
   · simp [wts]
   · simp [tot12, wts] <;> omega)



theorem wts_self {A B C : Nat} (h : IsFace A B C) (i j l : Int) :
    wts A B C i j l A = i ∧ wts A B C i j l B = j ∧ wts A B C i j l C = l := by
  obtain ⟨_, _, _, h1, h2, h3⟩ := isFace_lt h
  have h1' := h1.symm; have h2' := h2.symm; have h3' := h3.symm
  simp [wts, h1, h2, h3, h1', h2', h3']

theorem wts_off (A B C : Nat) (i j l : Int) (t : Nat) (hA : t ≠ A) (hB : t ≠ B) (hC : t ≠ C) :
    wts A B C i j l t = 0 := by simp [wts, hA, hB, hC]

theorem wts_add (A B C : Nat) (i j l i' j' l' : Int) (t : Nat) :
    wts A B C (i + i') (j + j') (l + l') t = wts A B C i j l t + wts A B C i' j' l' t := by
  unfold wts; split <;> split <;> split <;> omega

theorem wts_two (A B C : Nat) (i j l : Int) (t : Nat) :
    wts A B C (2 * i) (2 * j) (2 * l) t = 2 * wts A B C i j l t := by
  unfold wts; split <;> split <;> split <;> omega

theorem wts_nonneg (A B C : Nat) (i j l : Int) (hi : 0 ≤ i) (hj : 0 ≤ j) (hl : 0 ≤ l) (t : Nat) :
    0 ≤ wts A B C i j l t := by
  unfold wts; split <;> split <;> split <;> omega

theorem ptwI_congr (w w' : Nat → Int) (h : ∀ t, t < 12 → w t = w' t) : ptwI w = ptwI w' := by
  rw [all_lt12] at h
  obtain ⟨h0, h1, h2, h3, h4, h5, h6, h7, h8, h9, h10, h11⟩ := h
  simp only [ptwI, h0, h1, h2, h3, h4, h5, h6, h7, h8, h9, h10, h11]

theorem tot12_congr (w w' : Nat → Int) (h : ∀ t, t < 12 → w t = w' t) : tot12 w = tot12 w' := by
  rw [all_lt12] at h
  obtain ⟨h0, h1, h2, h3, h4, h5, h6, h7, h8, h9, h10, h11⟩ := h
  simp only [tot12, h0, h1, h2, h3, h4, h5, h6, h7, h8, h9, h10, h11]

/-- the same point on two faces carries the same weight at every vertex. -/
theorem cross_uniq {A B C A' B' C' : Nat} (h : IsFace A B C) (h' : IsFace A' B' C') {i j l i' j' l' : Int}
    (hi : 0 ≤ i) (hj : 0 ≤ j) (hl : 0 ≤ l) (hi' : 0 ≤ i') (hj' : 0 ≤ j') (hl' : 0 ≤ l')
    (he : comb A B C i j l = comb A' B' C' i' j' l') :
    ∀ t, t < 12 → wts A B C i j l t = wts A' B' C' i' j' l' t := by
  obtain ⟨e1, f1, _⟩ := face_weights h i j l hi hj hl
  obtain ⟨e2, f2, _⟩ := face_weights h' i' j' l' hi' hj' hl'
  exact uniq_weights _ _ f1 f2 (by rw [e1, e2, he])

/-- a point of one face whose weights vanish off another face is a point of that face, with the same weights. -/
theorem reexpr {A B C A' B' C' : Nat} (h : IsFace A B C) (h' : IsFace A' B' C') {i j l : Int}
    (hi : 0 ≤ i) (hj : 0 ≤ j) (hl : 0 ≤ l)
    (hoff : ∀ t, t < 12 → t ≠ A' → t ≠ B' → t ≠ C' → wts A B C i j l t = 0) :
    comb A B C i j l = comb A' B' C' (wts A B C i j l A') (wts A B C i j l B') (wts A B C i j l C') ∧
      wts A B C i j l A' + wts A B C i j l B' + wts A B C i j l C' = i + j + l := by
  have hn := wts_nonneg A B C i j l hi hj hl
  obtain ⟨s1, s2, s3⟩ := wts_self h' (wts A B C i j l A') (wts A B C i j l B') (wts A B C i j l C')
  have hw : ∀ t, t < 12 → wts A B C i j l t =
      wts A' B' C' (wts A B C i j l A') (wts A B C i j l B') (wts A B C i j l C') t := by
    intro t ht
    by_cases hA : t = A'
    · rw [hA, s1]
    · by_cases hB : t = B'
      · rw [hB, s2]
      · by_cases hC : t = C'
        · rw [hC, s3]
        · rw [hoff t ht hA hB hC, wts_off _ _ _ _ _ _ t hA hB hC]
  obtain ⟨e1, _, t1⟩ := face_weights h i j l hi hj hl
  obtain ⟨e2, _, t2⟩ := face_weights h' _ _ _ (hn A') (hn B') (hn C')
  exact ⟨by rw [← e1, ← e2]; exact ptwI_congr _ _ hw, by rw [← t2, ← t1]; exact (tot12_congr _ _ hw).symm⟩

/-- the midpoint of an edge of the triangulation is never an old lattice point. -/
theorem mid_ne_dbl_I {k : Nat} {p q c : Pt} (h : AdjI k p q) (hc : LatI k c) : mid p q ≠ dbl c := by
  obtain ⟨A, B, C, hF, i, j, l, i', j', l', h1, h2, h3, h4, h5, h6, s1, s2, rfl, rfl, hu⟩ := h
  obtain ⟨A', B', C', hF', a, b, e, g1, g2, g3, s3, rfl⟩ := hc
  rw [mid_comb hF, dbl_comb hF']
  intro he
  have hw := cross_uniq hF hF' (by omega) (by omega) (by omega) (by omega) (by omega) (by omega) he
  obtain ⟨hA, hB, hC, _⟩ := isFace_lt hF
  obtain ⟨w1, w2, w3⟩ := wts_self hF (i + i') (j + j') (l + l')
  have eA := hw A hA; have eB := hw B hB; have eC := hw C hC
  rw [wts_two] at eA eB eC
  rw [w1] at eA; rw [w2] at eB; rw [w3] at eC
  unfold UnitStep at hu
  omega

/-- a neighbour `y` of an old point `2c` in the finer triangulation is the midpoint of an edge at `c`. -/
theorem adjI_dbl_split {k : Nat} {c y : Pt} (hc : LatI k c) (h : AdjI (k + 1) (dbl c) y) :
    ∃ c', AdjI k c c' ∧ y = mid c c' := by
  obtain ⟨A', B', C', hF', a, b, e, g1, g2, g3, s3, rfl⟩ := hc
  obtain ⟨A, B, C, hF, i, j, l, i', j', l', h1, h2, h3, h4, h5, h6, s1, s2, hd, rfl, hu⟩ := h
  rw [dbl_comb hF'] at hd
  have hw := cross_uniq hF' hF (by omega) (by omega) (by omega) h1 h2 h3 hd
  obtain ⟨hA, hB, hC, _⟩ := isFace_lt hF
  obtain ⟨w1, w2, w3⟩ := wts_self hF i j l
  have eA := hw A hA; have eB := hw B hB; have eC := hw C hC
  rw [wts_two] at eA eB eC
  rw [w1] at eA; rw [w2] at eB; rw [w3] at eC
  have hoff : ∀ t, t < 12 → t ≠ A → t ≠ B → t ≠ C → wts A' B' C' a b e t = 0 := by
    intro t ht tA tB tC
    have := hw t ht
    rw [wts_two, wts_off _ _ _ _ _ _ t tA tB tC] at this
    omega
  obtain ⟨hre, hsum⟩ := reexpr hF' hF g1 g2 g3 hoff
  have hn := wts_nonneg A' B' C' a b e g1 g2 g3
  have nA := hn A; have nB := hn B; have nC := hn C
  rw [pow_succ] at s1 s2
  unfold UnitStep at hu
  refine ⟨comb A B C (i' - wts A' B' C' a b e A) (j' - wts A' B' C' a b e B) (l' - wts A' B' C' a b e C),
    ⟨A, B, C, hF, _, _, _, _, _, _, nA, nB, nC, by omega, by omega, by omega, by omega, by omega, hre, rfl, ?_⟩, ?_⟩
  · unfold UnitStep; omega
  · rw [hre, mid_comb hF]
    congr 1 <;> omega

end Molgri.Polytope
