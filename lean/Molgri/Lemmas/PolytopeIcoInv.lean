/-
The icosahedron induction of C18: faces, the ℤ[φ] edge-length test, the invariant `GeoI` of the completed graph, its
base case (finite tables, `decide +kernel`), the induction step `geoI_step` and the statements for every level.
-/
import Molgri.Lemmas.PolytopeIco
import Mathlib.Tactic.Ring
import Mathlib.Tactic.Linarith
namespace Molgri.Polytope

/-! ### faces of the icosahedron -/

/-- the point lies on face number `f` (as a frequency-`2^k` lattice point of that triangle). -/
def OnFI (k f : Nat) (p : Pt) : Prop :=
  ∃ A B C, icoFaces[f]? = some [A, B, C] ∧ ∃ i j l : Int, 0 ≤ i ∧ 0 ≤ j ∧ 0 ≤ l ∧ i + j + l = 2 ^ k ∧
    p = comb A B C i j l

def FaceOKI (k : Nat) (nd : Node) : Prop := ∀ f, f ∈ nd.face ↔ OnFI k f nd.pt

theorem isFace_of_getElem? {f A B C : Nat} (h : icoFaces[f]? = some [A, B, C]) : IsFace A B C :=
  List.mem_of_getElem? h

theorem face_dbl_I {k f : Nat} {p : Pt} (hp : LatI k p) : OnFI (k + 1) f (dbl p) ↔ OnFI k f p := by
  constructor
  · rintro ⟨A, B, C, hf, i, j, l, h1, h2, h3, hs, hd⟩
    have hF := isFace_of_getElem? hf
    obtain ⟨A', B', C', hF', a, b, e, g1, g2, g3, s3, rfl⟩ := hp
    rw [dbl_comb hF'] at hd
    have hw := cross_uniq hF' hF (by omega) (by omega) (by omega) h1 h2 h3 hd
    have hoff : ∀ t, t < 12 → t ≠ A → t ≠ B → t ≠ C → wts A' B' C' a b e t = 0 := by
      intro t ht tA tB tC
      have := hw t ht
      rw [wts_two, wts_off _ _ _ _ _ _ t tA tB tC] at this
      omega
    obtain ⟨hre, hsum⟩ := reexpr hF' hF g1 g2 g3 hoff
    have hn := wts_nonneg A' B' C' a b e g1 g2 g3
    exact ⟨A, B, C, hf, _, _, _, hn A, hn B, hn C, by omega, hre⟩
  · rintro ⟨A, B, C, hf, i, j, l, h1, h2, h3, hs, rfl⟩
    have hF := isFace_of_getElem? hf
    exact ⟨A, B, C, hf, 2 * i, 2 * j, 2 * l, by omega, by omega, by omega, by rw [pow_succ]; omega, dbl_comb hF i j l⟩

theorem face_mid_I {k f : Nat} {a b : Pt} (h : AdjI k a b) :
    OnFI (k + 1) f (mid a b) ↔ OnFI k f a ∧ OnFI k f b := by
  constructor
  · rintro ⟨A, B, C, hf, i, j, l, h1, h2, h3, hs, hm⟩
    have hF := isFace_of_getElem? hf
    obtain ⟨A', B', C', hF', u1, u2, u3, v1, v2, v3, g1, g2, g3, g4, g5, g6, s1, s2, rfl, rfl, hu⟩ := h
    rw [mid_comb hF'] at hm
    have hw := cross_uniq hF' hF (by omega) (by omega) (by omega) h1 h2 h3 hm
    have nu := wts_nonneg A' B' C' u1 u2 u3 g1 g2 g3
    have nv := wts_nonneg A' B' C' v1 v2 v3 g4 g5 g6
    have hoff : ∀ t, t < 12 → t ≠ A → t ≠ B → t ≠ C →
        wts A' B' C' u1 u2 u3 t = 0 ∧ wts A' B' C' v1 v2 v3 t = 0 := by
      intro t ht tA tB tC
      have := hw t ht
      rw [wts_add, wts_off _ _ _ _ _ _ t tA tB tC] at this
      have := nu t; have := nv t
      omega
    obtain ⟨hre1, hsum1⟩ := reexpr hF' hF g1 g2 g3 (fun t ht tA tB tC => (hoff t ht tA tB tC).1)
    obtain ⟨hre2, hsum2⟩ := reexpr hF' hF g4 g5 g6 (fun t ht tA tB tC => (hoff t ht tA tB tC).2)
    exact ⟨⟨A, B, C, hf, _, _, _, nu A, nu B, nu C, by omega, hre1⟩,
      ⟨A, B, C, hf, _, _, _, nv A, nv B, nv C, by omega, hre2⟩⟩
  · rintro ⟨⟨A, B, C, hf, i, j, l, h1, h2, h3, hs, rfl⟩, ⟨A', B', C', hf', i', j', l', h1', h2', h3', hs', rfl⟩⟩
    rw [hf] at hf'
    simp only [Option.some.injEq, List.cons.injEq, and_true] at hf'
    obtain ⟨rfl, rfl, rfl⟩ := hf'
    have hF := isFace_of_getElem? hf
    exact ⟨A, B, C, hf, i + i', j + j', l + l', by omega, by omega, by omega, by rw [pow_succ]; omega,
      mid_comb hF _ _ _ _ _ _⟩

/-! ### the edge-length test in ℤ[φ] -/

theorem phiNormSq_zip_comm : ∀ p q : Pt, phiNormSq (List.zipWith (· - ·) p q) = phiNormSq (List.zipWith (· - ·) q p)
  | [], _ => by cases ‹Pt› <;> simp [phiNormSq]
  | [_], [] => by simp [phiNormSq]
  | [_], [_] => by simp [phiNormSq]
  | [_], _ :: _ :: _ => by simp [phiNormSq]
  | _ :: _ :: _, [] => by simp [phiNormSq]
  | _ :: _ :: _, [_] => by simp [phiNormSq]
  | a :: b :: t, a' :: b' :: t' => by
    have ih := phiNormSq_zip_comm t t'
    simp only [List.zipWith_cons_cons, phiNormSq, ih, Prod.mk.injEq]
    constructor <;> ring

theorem isPhiLen_symm (p q : Pt) : isPhiLen p q = isPhiLen q p := by
  unfold isPhiLen phiSqd
  rw [phiNormSq_zip_comm]

theorem sub_comb {A B C : Nat} (h : IsFace A B C) (i j l i' j' l' : Int) :
    sub (comb A B C i j l) (comb A B C i' j' l') = comb A B C (i - i') (j - j') (l - l') := by
  have hl : (comb A B C i j l).length = (comb A B C i' j' l').length := by rw [len_comb h, len_comb h]
  apply comb_ext h
  · simp [sub, len_comb h]
  · intro t _
    rw [co_sub _ _ _ hl, co_comb h, co_comb h]; ring

/-- squared length (in ℤ[φ]) of a lattice vector of a face: `4 (a² + ab + b²)`, no `φ` part. -/
theorem phiNormSq_comb {A B C : Nat} (h : IsFace A B C) (a b : Int) :
    phiNormSq (comb A B C a b (-a - b)) = (4 * (a * a + a * b + b * b), 0) := by
  refine isFace_cases h (fun A B C => phiNormSq (comb A B C a b (-a - b)) = (4 * (a * a + a * b + b * b), 0)) ?_
  refine ⟨?_, ?_, ?_, ?_, ?_, ?_, ?_, ?_, ?_, ?_, ?_, ?_, ?_, ?_, ?_, ?_, ?_, ?_, ?_, ?_⟩ <;>
  (simp only [comb, add3, smul, vtx, icoVertices, List.getD_cons_zero, List.getD_cons_succ, List.map_cons, List.map_nil,
      List.zipWith_cons_cons, List.zipWith_nil_right, phiNormSq, Prod.mk.injEq]
   constructor <;> ring)

theorem unitStep_of_norm (a b : Int) (h : 4 * (a * a + a * b + b * b) = 4) : UnitStep a b (-a - b) := by
  have ha : -1 ≤ a ∧ a ≤ 1 := by constructor <;> nlinarith [sq_nonneg (2 * b + a), sq_nonneg a]
  have hb : -1 ≤ b ∧ b ≤ 1 := by constructor <;> nlinarith [sq_nonneg (2 * a + b), sq_nonneg b]
  have ha' : a = -1 ∨ a = 0 ∨ a = 1 := by omega
  have hb' : b = -1 ∨ b = 0 ∨ b = 1 := by omega
  unfold UnitStep
  rcases ha' with rfl | rfl | rfl <;> rcases hb' with rfl | rfl | rfl <;> simp at h ⊢

theorem norm_of_unitStep (a b c : Int) (h : UnitStep a b c) : c = -a - b ∧ 4 * (a * a + a * b + b * b) = 4 := by
  unfold UnitStep at h
  have ha' : a = -1 ∨ a = 0 ∨ a = 1 := by omega
  have hb' : b = -1 ∨ b = 0 ∨ b = 1 := by omega
  refine ⟨by omega, ?_⟩
  rcases ha' with rfl | rfl | rfl <;> rcases hb' with rfl | rfl | rfl <;> simp at h ⊢ <;> omega

/-- the test `|p - q| = 2·side_len` of the pre-division pass, for two points of one face: one lattice step. -/
theorem isPhiLen_comb {A B C : Nat} (h : IsFace A B C) (i j l i' j' l' : Int) (hs : i + j + l = i' + j' + l') :
    isPhiLen (comb A B C i j l) (comb A B C i' j' l') = true ↔ UnitStep (i' - i) (j' - j) (l' - l) := by
  unfold isPhiLen phiSqd
  rw [show List.zipWith (· - ·) (comb A B C i j l) (comb A B C i' j' l') =
    sub (comb A B C i j l) (comb A B C i' j' l') from rfl, sub_comb h]
  have hc : l - l' = -(i - i') - (j - j') := by omega
  rw [hc, phiNormSq_comb h, beq_iff_eq, Prod.mk.injEq]
  constructor
  · rintro ⟨h1, _⟩
    have := unitStep_of_norm (i - i') (j - j') h1
    unfold UnitStep at this ⊢; omega
  · intro hu
    have hu' : UnitStep (i - i') (j - j') (l - l') := by unfold UnitStep at hu ⊢; omega
    exact ⟨(norm_of_unitStep _ _ _ hu').2, rfl⟩



/-! ### the icosahedron invariant -/

/-- invariant of the *completed* icosahedron graph (the graph after the pre-division pass of `divide_edges`): the
nodes are the frequency-`2^k` lattice of the faces and the edges its full triangulation. -/
structure GeoI (k : Nat) (s : St) : Prop where
  lvl : ∀ nd ∈ s.nodes, nd.level < s.cur
  nodup : (s.nodes.map (·.pt)).Nodup
  nodes : ∀ p, p ∈ s.nodes.map (·.pt) ↔ LatI k p
  edges : ∀ p q, E s p q ↔ AdjI k p q
  faces : ∀ nd ∈ s.nodes, FaceOKI k nd

theorem GeoI.fresh {k : Nat} {s : St} (h : GeoI k s) : Fresh s := by
  intro e he nd hnd
  have hadj : AdjI k e.1 e.2 := (h.edges e.1 e.2).1 (Or.inl he)
  exact mid_ne_dbl_I hadj ((h.nodes nd.pt).1 (List.mem_map_of_mem hnd))

theorem GeoI.mem_new_iff {k : Nat} {s : St} (h : GeoI k s) (p : Pt) :
    p ∈ (extraNodes s).map (·.pt) ↔ ∃ a b, AdjI k a b ∧ p = mid a b := by
  rw [(extraNodes_spec s).2.1 p]
  constructor
  · rintro ⟨e, he, rfl⟩
    exact ⟨e.1, e.2, (h.edges e.1 e.2).1 (Or.inl he), rfl⟩
  · rintro ⟨a, b, hab, rfl⟩
    rcases (h.edges a b).2 hab with he | he
    · exact ⟨(a, b), he, rfl⟩
    · exact ⟨(b, a), he, mid_comm a b⟩

theorem GeoI.mem_old_iff {k : Nat} {s : St} (h : GeoI k s) (p : Pt) :
    p ∈ (s.nodes.map dblNode).map (·.pt) ↔ ∃ c, LatI k c ∧ p = dbl c := by
  simp only [List.map_map, List.mem_map, Function.comp]
  constructor
  · rintro ⟨nd, hnd, rfl⟩
    exact ⟨nd.pt, (h.nodes nd.pt).1 (List.mem_map_of_mem hnd), rfl⟩
  · rintro ⟨c, hc, rfl⟩
    obtain ⟨nd, hnd, rfl⟩ := List.mem_map.1 ((h.nodes c).2 hc)
    exact ⟨nd, hnd, rfl⟩

/-- two nodes with a common face attribute at the tested distance are neighbours in the triangulation, and
conversely. -/
theorem elig_iff_adjI {k : Nat} {a b : Node} (ha : FaceOKI k a) (hb : FaceOKI k b) :
    ((∃ f, f ∈ a.face ∧ f ∈ b.face) ∧ isPhiLen a.pt b.pt = true) ↔ AdjI k a.pt b.pt := by
  constructor
  · rintro ⟨⟨f, h1, h2⟩, ht⟩
    obtain ⟨A, B, C, hf, i, j, l, g1, g2, g3, s1, e1⟩ := (ha f).1 h1
    obtain ⟨A', B', C', hf', i', j', l', g4, g5, g6, s2, e2⟩ := (hb f).1 h2
    rw [hf] at hf'
    simp only [Option.some.injEq, List.cons.injEq, and_true] at hf'
    obtain ⟨rfl, rfl, rfl⟩ := hf'
    have hF := isFace_of_getElem? hf
    rw [e1, e2, isPhiLen_comb hF _ _ _ _ _ _ (by omega)] at ht
    exact ⟨A, B, C, hF, i, j, l, i', j', l', g1, g2, g3, g4, g5, g6, s1, s2, e1, e2, ht⟩
  · rintro ⟨A, B, C, hF, i, j, l, i', j', l', g1, g2, g3, g4, g5, g6, s1, s2, e1, e2, hu⟩
    obtain ⟨f, hf⟩ := List.mem_iff_getElem?.1 hF
    refine ⟨⟨f, (ha f).2 ⟨A, B, C, hf, i, j, l, g1, g2, g3, s1, e1⟩, (hb f).2 ⟨A, B, C, hf, i', j', l', g4, g5, g6, s2, e2⟩⟩, ?_⟩
    rw [e1, e2, isPhiLen_comb hF _ _ _ _ _ _ (by omega)]
    exact hu

/-- **Induction step (icosahedron).**  Midpoint insertion on the completed graph of level `k`, then the pass that adds
the edges among the new nodes, gives the completed graph of level `k + 1`. -/
theorem geoI_step (σ : Nat → Nat → Nat → Nat) {k : Nat} {s : St} (h : GeoI k s) :
    GeoI (k + 1) (addEdgesOfLen isPhiLen s.cur true (endOfDivision σ (addMidEdgeNodes s))) := by
  have hf := h.fresh
  obtain ⟨hnodes, _⟩ := divided_nodes σ s hf h.lvl
  obtain ⟨hex1, hex2, hex3⟩ := extraNodes_spec s
  have hcur : (endOfDivision σ (addMidEdgeNodes s)).cur = s.cur + 1 := rfl
  have hedges : ∀ p q, E (endOfDivision σ (addMidEdgeNodes s)) p q ↔ E (addMidEdgeNodes s) p q := fun _ _ => Iff.rfl
  have hpts : (endOfDivision σ (addMidEdgeNodes s)).nodes.map (·.pt) =
      (s.nodes.map dblNode).map (·.pt) ++ (extraNodes s).map (·.pt) := by
    rw [hnodes, List.map_append, assignGo_map_pt]
  have hN : ∀ p, p ∈ (endOfDivision σ (addMidEdgeNodes s)).nodes.map (·.pt) ↔ LatI (k + 1) p := by
    intro p
    rw [hpts, List.mem_append, h.mem_old_iff, h.mem_new_iff]
    constructor
    · rintro (⟨c, hc, rfl⟩ | ⟨a, b, hab, rfl⟩)
      · exact latI_dbl hc
      · exact latI_mid hab
    · intro hp
      rcases latI_split hp with ⟨y, hy, rfl⟩ | ⟨a, b, hab, rfl⟩
      · exact Or.inl ⟨y, hy, rfl⟩
      · exact Or.inr ⟨a, b, hab, rfl⟩
  have hLold : ∀ nd ∈ s.nodes.map dblNode, nd.level < s.cur := by
    intro nd hnd
    obtain ⟨n, hn', rfl⟩ := List.mem_map.1 hnd
    exact h.lvl n hn'
  have hLnew : ∀ x ∈ assignGo (σ s.cur (extraNodes s).length) s.cur s.maxCi (extraNodes s) 0,
      x.level = s.cur ∧ ∃ nd ∈ extraNodes s, x.pt = nd.pt ∧ x.face = nd.face := by
    intro x hx
    obtain ⟨nd, hnd, h1, h2, h3, _⟩ := mem_assignGo _ _ _ _ _ _ hx
    exact ⟨by rw [h2]; exact (hex1 nd hnd).1, nd, hnd, h1, h3⟩
  have hF : ∀ nd ∈ (endOfDivision σ (addMidEdgeNodes s)).nodes, FaceOKI (k + 1) nd := by
    intro nd hnd
    rw [hnodes] at hnd
    rcases List.mem_append.1 hnd with hnd | hnd
    · obtain ⟨n, hn', rfl⟩ := List.mem_map.1 hnd
      intro f
      rw [show (dblNode n).face = n.face from rfl, show (dblNode n).pt = dbl n.pt from rfl,
        face_dbl_I ((h.nodes n.pt).1 (List.mem_map_of_mem hn'))]
      exact h.faces n hn' f
    · obtain ⟨_, x, hx, hp, hfc⟩ := hLnew nd hnd
      obtain ⟨_, _, e, he, hpe, hfe⟩ := hex1 x hx
      have hadj : AdjI k e.1 e.2 := (h.edges e.1 e.2).1 (Or.inl he)
      obtain ⟨A, hA, hAp⟩ := List.mem_map.1 ((h.nodes e.1).2 hadj.left)
      obtain ⟨B, hB, hBp⟩ := List.mem_map.1 ((h.nodes e.2).2 hadj.right)
      have fA := faceOf_spec s.nodes A hA h.nodup
      have fB := faceOf_spec s.nodes B hB h.nodup
      rw [hAp] at fA; rw [hBp] at fB
      intro f
      rw [hfc, hfe, fA, fB, interFace_mem, hp, hpe, face_mid_I hadj, h.faces A hA f, h.faces B hB f, hAp, hBp]
  constructor
  · intro nd hnd
    rw [addEdgesOfLen_nodes, hnodes] at hnd
    rw [addEdgesOfLen_cur, hcur]
    rcases List.mem_append.1 hnd with hnd | hnd
    · have := hLold nd hnd; omega
    · have := (hLnew nd hnd).1; omega
  · rw [addEdgesOfLen_nodes, hpts, List.nodup_append]
    refine ⟨?_, hex3, ?_⟩
    · rw [List.map_map]
      have : ((fun nd : Node => nd.pt) ∘ dblNode) = (dbl ∘ fun nd : Node => nd.pt) := rfl
      rw [this, ← List.map_map]
      exact List.Nodup.map (fun _ _ hh => dbl_inj hh) h.nodup
    · intro a ha b hb hab
      subst hab
      obtain ⟨c, hc, rfl⟩ := (h.mem_old_iff a).1 ha
      obtain ⟨p, q, hpq, he⟩ := (h.mem_new_iff _).1 hb
      exact mid_ne_dbl_I hpq hc he.symm
  · intro p; rw [addEdgesOfLen_nodes]; exact hN p
  · intro x y
    constructor
    · intro hE
      rcases E_addEdgesOfLen_elim isPhiLen isPhiLen_symm s.cur true _ x y hE with h1 | ⟨a, b, ha, hb, _, _, rfl, rfl, hel⟩
      · rw [hedges, E_addMid] at h1
        obtain ⟨a, b, hab, (⟨rfl, rfl⟩ | ⟨rfl, rfl⟩)⟩ := h1
        · exact adjI_mid_dbl ((h.edges a b).1 hab)
        · exact (adjI_mid_dbl ((h.edges a b).1 hab)).symm
      · exact (elig_iff_adjI (hF a ha) (hF b hb)).1 ⟨hel.1 rfl, hel.2⟩
    · intro hadj
      have hx := (hN x).2 hadj.left
      have hy := (hN y).2 hadj.right
      rw [hpts, List.mem_append] at hx hy
      rcases hx with hx | hx
      · obtain ⟨c, hc, rfl⟩ := (h.mem_old_iff x).1 hx
        obtain ⟨c', h1, h2⟩ := adjI_dbl_split hc hadj
        apply E_addEdgesOfLen_mono
        rw [hedges, E_addMid]
        exact ⟨c, c', (h.edges _ _).2 h1, Or.inr ⟨h2, rfl⟩⟩
      · rcases hy with hy | hy
        · obtain ⟨c, hc, rfl⟩ := (h.mem_old_iff y).1 hy
          obtain ⟨c', h1, h2⟩ := adjI_dbl_split hc hadj.symm
          apply E_addEdgesOfLen_mono
          rw [hedges, E_addMid]
          exact ⟨c, c', (h.edges _ _).2 h1, Or.inl ⟨h2, rfl⟩⟩
        · rw [← assignGo_map_pt (σ s.cur (extraNodes s).length) s.cur s.maxCi (extraNodes s) 0] at hx hy
          obtain ⟨a, ha, rfl⟩ := List.mem_map.1 hx
          obtain ⟨b, hb, rfl⟩ := List.mem_map.1 hy
          have ha' : a ∈ (endOfDivision σ (addMidEdgeNodes s)).nodes := by rw [hnodes]; exact List.mem_append_right _ ha
          have hb' : b ∈ (endOfDivision σ (addMidEdgeNodes s)).nodes := by rw [hnodes]; exact List.mem_append_right _ hb
          have hel := (elig_iff_adjI (hF a ha') (hF b hb')).2 hadj
          have hne : a.pt ≠ b.pt := by
            intro he
            obtain ⟨A, B, C, hFc, i, j, l, i', j', l', _, _, _, _, _, _, _, _, e1, e2, hu⟩ := hadj
            rw [e1, e2] at he
            have hw := cross_uniq hFc hFc (by assumption) (by assumption) (by assumption) (by assumption)
              (by assumption) (by assumption) he
            obtain ⟨hA, hB, hC, _⟩ := isFace_lt hFc
            obtain ⟨w1, w2, w3⟩ := wts_self hFc i j l
            obtain ⟨w1', w2', w3'⟩ := wts_self hFc i' j' l'
            have eA := hw A hA; have eB := hw B hB
            rw [w1, w1'] at eA; rw [w2, w2'] at eB
            unfold UnitStep at hu; omega
          exact E_addEdgesOfLen_intro isPhiLen isPhiLen_symm s.cur true _ a b ha' hb' (hLnew a ha).1 (hLnew b hb).1
            hne ⟨fun _ => hel.1, hel.2⟩
  · intro nd hnd
    rw [addEdgesOfLen_nodes] at hnd
    exact hF nd hnd



/-- the pass adds nothing to a completed graph (every eligible pair is already an edge). -/
theorem geoI_pass {k : Nat} {s : St} (h : GeoI k s) (lvl : Nat) : GeoI k (addEdgesOfLen isPhiLen lvl true s) := by
  constructor
  · exact h.lvl
  · exact h.nodup
  · exact h.nodes
  · intro p q
    constructor
    · intro hE
      rcases E_addEdgesOfLen_elim isPhiLen isPhiLen_symm lvl true s p q hE with h1 | ⟨a, b, ha, hb, _, _, rfl, rfl, hel⟩
      · exact (h.edges p q).1 h1
      · exact (elig_iff_adjI (h.faces a ha) (h.faces b hb)).1 ⟨hel.1 rfl, hel.2⟩
    · intro hadj
      exact E_addEdgesOfLen_mono _ _ _ _ _ _ ((h.edges p q).2 hadj)
  · exact h.faces

/-! ### base case: the twelve vertices -/

theorem comb_unit {A B C : Nat} (h : IsFace A B C) :
    comb A B C 1 0 0 = vtx A ∧ comb A B C 0 1 0 = vtx B ∧ comb A B C 0 0 1 = vtx C := by
  obtain ⟨hA, hB, hC, _⟩ := isFace_lt h
  refine ⟨?_, ?_, ?_⟩ <;> (symm; apply comb_ext h _ _ _ _ (by simp [vtx_len, hA, hB, hC]); intro t _; ring)

/-- two different vertices of one face. -/
def adjV (u v : Nat) : Bool := decide (u ≠ v) && icoFaces.any (fun F => F.contains u && F.contains v)

theorem adjV_of_face {A B C u v : Nat} (hF : IsFace A B C) (hu : u = A ∨ u = B ∨ u = C) (hv : v = A ∨ v = B ∨ v = C)
    (hne : u ≠ v) : adjV u v = true := by
  unfold adjV
  simp only [Bool.and_eq_true, decide_eq_true_eq, List.any_eq_true]
  refine ⟨hne, [A, B, C], hF, ?_, ?_⟩
  · rcases hu with rfl | rfl | rfl <;> simp
  · rcases hv with rfl | rfl | rfl <;> simp

theorem latI_zero (p : Pt) : LatI 0 p ↔ ∃ v, v < 12 ∧ p = vtx v := by
  constructor
  · rintro ⟨A, B, C, hF, i, j, l, h1, h2, h3, hs, rfl⟩
    obtain ⟨hA, hB, hC, _⟩ := isFace_lt hF
    obtain ⟨u1, u2, u3⟩ := comb_unit hF
    simp only [pow_zero] at hs
    have : (i = 1 ∧ j = 0 ∧ l = 0) ∨ (i = 0 ∧ j = 1 ∧ l = 0) ∨ (i = 0 ∧ j = 0 ∧ l = 1) := by omega
    rcases this with ⟨rfl, rfl, rfl⟩ | ⟨rfl, rfl, rfl⟩ | ⟨rfl, rfl, rfl⟩
    · exact ⟨A, hA, u1⟩
    · exact ⟨B, hB, u2⟩
    · exact ⟨C, hC, u3⟩
  · rintro ⟨v, hv, rfl⟩
    have htab : ∀ v, v < 12 → ∃ F ∈ icoFaces, F.contains v = true := by decide
    obtain ⟨F, hF, hc⟩ := htab v hv
    have hwf := List.all_eq_true.1 (show icoFaces.all faceWf = true by decide) F hF
    match F, hF, hc, hwf with
    | [A, B, C], hF, hc, _ =>
      have hF' : IsFace A B C := hF
      obtain ⟨u1, u2, u3⟩ := comb_unit hF'
      simp only [List.contains_cons, List.contains_nil, Bool.or_false, Bool.or_eq_true, beq_iff_eq] at hc
      rcases hc with rfl | rfl | rfl
      · exact ⟨_, _, _, hF', 1, 0, 0, by omega, by omega, by omega, by simp, u1.symm⟩
      · exact ⟨_, _, _, hF', 0, 1, 0, by omega, by omega, by omega, by simp, u2.symm⟩
      · exact ⟨_, _, _, hF', 0, 0, 1, by omega, by omega, by omega, by simp, u3.symm⟩

theorem adjI_zero (p q : Pt) : AdjI 0 p q ↔ ∃ u v, u < 12 ∧ v < 12 ∧ adjV u v = true ∧ p = vtx u ∧ q = vtx v := by
  constructor
  · rintro ⟨A, B, C, hF, i, j, l, i', j', l', h1, h2, h3, h4, h5, h6, s1, s2, rfl, rfl, hu⟩
    obtain ⟨hA, hB, hC, nAB, nAC, nBC⟩ := isFace_lt hF
    obtain ⟨u1, u2, u3⟩ := comb_unit hF
    simp only [pow_zero] at s1 s2
    unfold UnitStep at hu
    have c1 : (i = 1 ∧ j = 0 ∧ l = 0) ∨ (i = 0 ∧ j = 1 ∧ l = 0) ∨ (i = 0 ∧ j = 0 ∧ l = 1) := by omega
    have c2 : (i' = 1 ∧ j' = 0 ∧ l' = 0) ∨ (i' = 0 ∧ j' = 1 ∧ l' = 0) ∨ (i' = 0 ∧ j' = 0 ∧ l' = 1) := by omega
    rcases c1 with ⟨rfl, rfl, rfl⟩ | ⟨rfl, rfl, rfl⟩ | ⟨rfl, rfl, rfl⟩ <;>
      rcases c2 with ⟨rfl, rfl, rfl⟩ | ⟨rfl, rfl, rfl⟩ | ⟨rfl, rfl, rfl⟩
    · omega
    · exact ⟨A, B, hA, hB, adjV_of_face hF (by simp) (by simp) nAB, u1, u2⟩
    · exact ⟨A, C, hA, hC, adjV_of_face hF (by simp) (by simp) nAC, u1, u3⟩
    · exact ⟨B, A, hB, hA, adjV_of_face hF (by simp) (by simp) nAB.symm, u2, u1⟩
    · omega
    · exact ⟨B, C, hB, hC, adjV_of_face hF (by simp) (by simp) nBC, u2, u3⟩
    · exact ⟨C, A, hC, hA, adjV_of_face hF (by simp) (by simp) nAC.symm, u3, u1⟩
    · exact ⟨C, B, hC, hB, adjV_of_face hF (by simp) (by simp) nBC.symm, u3, u2⟩
    · omega
  · rintro ⟨u, v, hu, hv, hadj, rfl, rfl⟩
    simp only [adjV, Bool.and_eq_true, decide_eq_true_eq, List.any_eq_true] at hadj
    obtain ⟨hne, F, hF, hcu, hcv⟩ := hadj
    have hwf := List.all_eq_true.1 (show icoFaces.all faceWf = true by decide) F hF
    match F, hF, hcu, hcv, hwf with
    | [A, B, C], hF, hcu, hcv, _ =>
      have hF' : IsFace A B C := hF
      obtain ⟨u1, u2, u3⟩ := comb_unit hF'
      simp only [List.contains_cons, List.contains_nil, Bool.or_false, Bool.or_eq_true, beq_iff_eq] at hcu hcv
      have key : ∀ (i j l i' j' l' : Int), 0 ≤ i → 0 ≤ j → 0 ≤ l → 0 ≤ i' → 0 ≤ j' → 0 ≤ l' → i + j + l = 1 →
          i' + j' + l' = 1 → vtx u = comb A B C i j l → vtx v = comb A B C i' j' l' →
          UnitStep (i' - i) (j' - j) (l' - l) → AdjI 0 (vtx u) (vtx v) := by
        intro i j l i' j' l' g1 g2 g3 g4 g5 g6 s1 s2 e1 e2 hs
        exact ⟨A, B, C, hF', i, j, l, i', j', l', g1, g2, g3, g4, g5, g6, by simpa using s1, by simpa using s2, e1, e2, hs⟩
      rcases hcu with rfl | rfl | rfl <;> rcases hcv with rfl | rfl | rfl
      · exact absurd rfl hne
      · exact key 1 0 0 0 1 0 (by omega) (by omega) (by omega) (by omega) (by omega) (by omega) (by omega) (by omega)
          u1.symm u2.symm (by unfold UnitStep; omega)
      · exact key 1 0 0 0 0 1 (by omega) (by omega) (by omega) (by omega) (by omega) (by omega) (by omega) (by omega)
          u1.symm u3.symm (by unfold UnitStep; omega)
      · exact key 0 1 0 1 0 0 (by omega) (by omega) (by omega) (by omega) (by omega) (by omega) (by omega) (by omega)
          u2.symm u1.symm (by unfold UnitStep; omega)
      · exact absurd rfl hne
      · exact key 0 1 0 0 0 1 (by omega) (by omega) (by omega) (by omega) (by omega) (by omega) (by omega) (by omega)
          u2.symm u3.symm (by unfold UnitStep; omega)
      · exact key 0 0 1 1 0 0 (by omega) (by omega) (by omega) (by omega) (by omega) (by omega) (by omega) (by omega)
          u3.symm u1.symm (by unfold UnitStep; omega)
      · exact key 0 0 1 0 1 0 (by omega) (by omega) (by omega) (by omega) (by omega) (by omega) (by omega) (by omega)
          u3.symm u2.symm (by unfold UnitStep; omega)
      · exact absurd rfl hne

theorem onFI_zero (f : Nat) (p : Pt) : OnFI 0 f p ↔ ∃ v, (icoFaces[f]?.getD []).contains v = true ∧ p = vtx v := by
  constructor
  · rintro ⟨A, B, C, hf, i, j, l, h1, h2, h3, hs, rfl⟩
    have hF := isFace_of_getElem? hf
    obtain ⟨u1, u2, u3⟩ := comb_unit hF
    simp only [pow_zero] at hs
    have : (i = 1 ∧ j = 0 ∧ l = 0) ∨ (i = 0 ∧ j = 1 ∧ l = 0) ∨ (i = 0 ∧ j = 0 ∧ l = 1) := by omega
    rcases this with ⟨rfl, rfl, rfl⟩ | ⟨rfl, rfl, rfl⟩ | ⟨rfl, rfl, rfl⟩
    · exact ⟨A, by simp [hf], u1⟩
    · exact ⟨B, by simp [hf], u2⟩
    · exact ⟨C, by simp [hf], u3⟩
  · rintro ⟨v, hc, rfl⟩
    cases hf : icoFaces[f]? with
    | none => simp [hf] at hc
    | some F =>
      have hF : F ∈ icoFaces := List.mem_of_getElem? hf
      have hwf := List.all_eq_true.1 (show icoFaces.all faceWf = true by decide) F hF
      simp only [hf, Option.getD_some] at hc
      match F, hF, hc, hwf, hf with
      | [A, B, C], hF, hc, _, hf =>
        have hF' : IsFace A B C := hF
        obtain ⟨u1, u2, u3⟩ := comb_unit hF'
        simp only [List.contains_cons, List.contains_nil, Bool.or_false, Bool.or_eq_true, beq_iff_eq] at hc
        rcases hc with rfl | rfl | rfl
        · exact ⟨_, _, _, hf, 1, 0, 0, by omega, by omega, by omega, by simp, u1.symm⟩
        · exact ⟨_, _, _, hf, 0, 1, 0, by omega, by omega, by omega, by simp, u2.symm⟩
        · exact ⟨_, _, _, hf, 0, 0, 1, by omega, by omega, by omega, by simp, u3.symm⟩



/-- finite facts about the level-0 icosahedron graph (twelve vertices, thirty edges, twenty faces). -/
theorem ico_pre_tables :
    (pre .ico).cur = 0 ∧ (pre .ico).maxCi = 0 ∧ (∀ nd ∈ (pre .ico).nodes, nd.level = 0) ∧
    ((pre .ico).nodes.map (·.pt)).Nodup ∧
    (∀ p ∈ (pre .ico).nodes.map (·.pt), ∃ v, v < 12 ∧ p = vtx v) ∧
    (∀ v, v < 12 → vtx v ∈ (pre .ico).nodes.map (·.pt)) ∧
    (∀ e ∈ (pre .ico).edges, ∃ u, u < 12 ∧ ∃ v, v < 12 ∧ adjV u v = true ∧ e.1 = vtx u ∧ e.2 = vtx v) ∧
    (∀ u, u < 12 → ∀ v, v < 12 → adjV u v = true → E (pre .ico) (vtx u) (vtx v)) ∧
    (∀ nd ∈ (pre .ico).nodes, (∀ f ∈ nd.face, f < 20) ∧
      ∀ f, f < 20 → (f ∈ nd.face ↔ ∃ v, v < 12 ∧ (icoFaces[f]?.getD []).contains v = true ∧ nd.pt = vtx v)) := by
  refine ⟨rfl, rfl, by decide +kernel, by decide +kernel, by decide +kernel, by decide +kernel, by decide +kernel,
    by decide +kernel, by decide +kernel⟩

theorem geoI_create (σ : Nat → Nat → Nat → Nat) : GeoI 0 (create σ .ico) := by
  rw [create_eq]
  obtain ⟨hc, hm, hl, hd, hlat, hcomp, hadj, hedges, hfaces⟩ := ico_pre_tables
  obtain ⟨hn, _⟩ := endOfDivision_nodes σ (pre .ico) [] (pre .ico).nodes (by simp) (by simp) (by
    intro nd hnd; rw [hc]; exact hl nd hnd)
  rw [List.nil_append] at hn
  have hpts : (endOfDivision σ (pre .ico)).nodes.map (·.pt) = (pre .ico).nodes.map (·.pt) := by
    rw [hn, assignGo_map_pt]
  have hE : ∀ p q, E (endOfDivision σ (pre .ico)) p q ↔ E (pre .ico) p q := fun _ _ => Iff.rfl
  constructor
  · intro nd hnd
    rw [hn] at hnd
    obtain ⟨n, hn', _, h2, _⟩ := mem_assignGo _ _ _ _ _ _ hnd
    rw [h2, hl n hn']
    show 0 < (pre .ico).cur + 1
    omega
  · rw [hpts]; exact hd
  · intro p
    rw [hpts, latI_zero]
    constructor
    · exact hlat p
    · rintro ⟨v, hv, rfl⟩; exact hcomp v hv
  · intro p q
    rw [hE, adjI_zero]
    constructor
    · rintro (h | h)
      · obtain ⟨u, hu, v, hv, ha, e1, e2⟩ := hadj _ h
        exact ⟨u, v, hu, hv, ha, e1, e2⟩
      · obtain ⟨u, hu, v, hv, ha, e1, e2⟩ := hadj _ h
        have ha' : adjV v u = true := by
          simp only [adjV, Bool.and_eq_true, decide_eq_true_eq, List.any_eq_true] at ha ⊢
          obtain ⟨hne, F, hF, h1, h2⟩ := ha
          exact ⟨fun h => hne h.symm, F, hF, h2, h1⟩
        exact ⟨v, u, hv, hu, ha', e2, e1⟩
    · rintro ⟨u, v, hu, hv, ha, rfl, rfl⟩
      exact hedges u hu v hv ha
  · intro nd hnd
    rw [hn] at hnd
    obtain ⟨n, hn', h1, _, h3, _⟩ := mem_assignGo _ _ _ _ _ _ hnd
    obtain ⟨hlt, hiff⟩ := hfaces n hn'
    intro f
    rw [h3, h1, onFI_zero]
    by_cases hf : f < 20
    · rw [hiff f hf]
      constructor
      · rintro ⟨v, _, hc', hp⟩; exact ⟨v, hc', hp⟩
      · rintro ⟨v, hc', hp⟩
        refine ⟨v, ?_, hc', hp⟩
        have hF : (icoFaces[f]?.getD []) ∈ icoFaces := by
          have : f < icoFaces.length := by simpa [icoFaces] using hf
          rw [List.getElem?_eq_getElem this]; simp
        have hwf := List.all_eq_true.1 (show icoFaces.all faceWf = true by decide) _ hF
        revert hc' hwf
        generalize icoFaces[f]?.getD [] = F
        intro hc' hwf
        match F, hc', hwf with
        | [A, B, C], hc', hwf =>
          simp only [faceWf, Bool.and_eq_true, decide_eq_true_eq] at hwf
          simp only [List.contains_cons, List.contains_nil, Bool.or_false, Bool.or_eq_true, beq_iff_eq] at hc'
          omega
    · constructor
      · intro hm'; exact absurd (hlt f hm') hf
      · rintro ⟨v, hc', _⟩
        have : icoFaces[f]? = none := by
          rw [List.getElem?_eq_none]; simp [icoFaces]; omega
        simp [this] at hc'

/-- the completed graph after `k` divisions: `iter` followed by the pass that the next `divide_edges` starts with. -/
def icoCompleted (σ : Nat → Nat → Nat → Nat) (k : Nat) : St :=
  addEdgesOfLen isPhiLen ((iter σ .ico k).cur - 1) true (iter σ .ico k)

theorem iter_ico_succ (σ : Nat → Nat → Nat → Nat) (k : Nat) :
    iter σ .ico (k + 1) = endOfDivision σ (addMidEdgeNodes (icoCompleted σ k)) := rfl

theorem geoI_completed (σ : Nat → Nat → Nat → Nat) (k : Nat) : GeoI k (icoCompleted σ k) := by
  induction k with
  | zero => exact geoI_pass (geoI_create σ) _
  | succ k ih =>
    unfold icoCompleted
    rw [iter_ico_succ]
    show GeoI (k + 1) (addEdgesOfLen isPhiLen ((icoCompleted σ k).cur + 1 - 1) true _)
    rw [Nat.add_sub_cancel]
    exact geoI_step σ ih

theorem good_iter_ico (σ : Nat → Nat → Nat → Nat) (hσ : PermFam σ) (k : Nat) : Good (iter σ .ico k) := by
  induction k with
  | zero =>
    show Good (create σ .ico)
    rw [create_eq]
    obtain ⟨hc, hm, hl, hd, _⟩ := ico_pre_tables
    exact good_base σ hσ _ hc hm hl hd
  | succ k ih =>
    rw [iter_ico_succ]
    exact good_step σ hσ _ (good_of_eq ih rfl rfl rfl) (geoI_completed σ k).fresh

theorem keeps_iter_ico (σ : Nat → Nat → Nat → Nat) (k m : Nat) (nd : Node) (hnd : nd ∈ (iter σ .ico k).nodes) :
    ∃ nd' ∈ (iter σ .ico (k + m)).nodes, nd'.pt = smul ((2 : Int) ^ m) nd.pt ∧ nd'.idx = nd.idx ∧
      nd'.level = nd.level ∧ nd'.face = nd.face := by
  induction m with
  | zero => exact ⟨nd, hnd, by simp [smul_one], rfl, rfl, rfl⟩
  | succ m ih =>
    obtain ⟨nd', hnd', h1, h2, h3, h4⟩ := ih
    refine ⟨dblNode nd', ?_, ?_, h2, h3, h4⟩
    · show dblNode nd' ∈ (iter σ .ico (k + m + 1)).nodes
      rw [iter_ico_succ]
      have hg := geoI_completed σ (k + m)
      exact step_keeps σ _ hg.fresh hg.lvl nd' hnd'
    · show dbl nd'.pt = _
      rw [h1, dbl_smul, pow_succ, mul_comm]

end Molgri.Polytope
