/-
The `only_seconds` search filter of `_add_edges_of_len` (not part of the model) excludes no pair that a pass connects.
-/
import Molgri.Lemmas.PolytopeSpec
namespace Molgri.Polytope

/-! ### the `only_seconds` search filter of `_add_edges_of_len` excludes nothing

The model does not contain the filter.  These lemmas show that it is vacuous: every pair of new nodes that a pass of
`divide_edges` connects already has a common neighbour in the graph the pass starts from (so it is among the
"second neighbours" the implementation searches). -/

/-- `a` and `b` have a common neighbour. -/
def Second (s : St) (a b : Pt) : Prop := ∃ c, E s a c ∧ E s c b

/-- a corner of the coarse lattice next to both halves of two neighbouring fine coordinates. -/
def cc (W a b : Int) : Int :=
  if (a / 2) % 2 = W % 2 then a / 2 else if (b / 2) % 2 = W % 2 then b / 2 else a / 2 - 1

theorem co_zipWith (f : Int → Int → Int) (p q : Pt) (i : Nat) (h1 : i < p.length) (h2 : i < q.length) :
    co (List.zipWith f p q) i = f (co p i) (co q i) := by
  unfold co
  induction p generalizing q i with
  | nil => simp at h1
  | cons a t ih =>
    cases q with
    | nil => simp at h2
    | cons b u =>
      cases i with
      | zero => simp
      | succ n => simpa using ih u n (by simpa using h1) (by simpa using h2)

/-- two neighbouring new points of the fine lattice have a common old neighbour. -/
theorem common_corner {d : Nat} {W : Int} {x y : Pt} (h : Adj d (2 * W) x y) :
    ∃ c, Lat d W c ∧ (dbl c = x ∨ Adj d (2 * W) (dbl c) x) ∧ (dbl c = y ∨ Adj d (2 * W) (dbl c) y) := by
  obtain ⟨hx, hy, hne, hd, j, hj, hj1, hj2⟩ := h
  have hlx := hx.1; have hly := hy.1
  have hco : ∀ i, i < d → co (List.zipWith (cc W) x y) i = cc W (co x i) (co y i) :=
    fun i hi => co_zipWith _ _ _ _ (by omega) (by omega)
  have hc : Lat d W (List.zipWith (cc W) x y) := by
    refine ⟨by simp [hlx, hly], ?_, j, hj, ?_⟩
    · intro i hi
      have := hx.2.1 i hi; have := hy.2.1 i hi; have := hd i hi
      rw [hco i hi]; unfold cc; split
      · omega
      · split <;> omega
    · have := hx.2.1 j hj; have := hy.2.1 j hj
      rw [hco j hj]; unfold cc; split
      · omega
      · split <;> omega
  have hdc : Lat d (2 * W) (dbl (List.zipWith (cc W) x y)) := lat_dbl hc
  refine ⟨_, hc, ?_, ?_⟩
  · by_cases he : dbl (List.zipWith (cc W) x y) = x
    · exact Or.inl he
    · right
      refine ⟨hdc, hx, he, ?_, j, hj, ?_, ?_⟩
      · intro i hi
        have := hx.2.1 i hi; have := hy.2.1 i hi; have := hd i hi
        rw [co_dbl, hco i hi]; unfold cc; split
        · omega
        · split <;> omega
      · have := hx.2.1 j hj; have := hy.2.1 j hj
        rw [co_dbl, hco j hj]; unfold cc; split
        · omega
        · split <;> omega
      · have := hx.2.1 j hj; have := hy.2.1 j hj
        rw [co_dbl, hco j hj]; unfold cc; split
        · omega
        · split <;> omega
  · by_cases he : dbl (List.zipWith (cc W) x y) = y
    · exact Or.inl he
    · right
      refine ⟨hdc, hy, he, ?_, j, hj, ?_, ?_⟩
      · intro i hi
        have := hx.2.1 i hi; have := hy.2.1 i hi; have := hd i hi
        rw [co_dbl, hco i hi]; unfold cc; split
        · omega
        · split <;> omega
      · have := hx.2.1 j hj; have := hy.2.1 j hj
        rw [co_dbl, hco j hj]; unfold cc; split
        · omega
        · split <;> omega
      · have := hx.2.1 j hj; have := hy.2.1 j hj
        rw [co_dbl, hco j hj]; unfold cc; split
        · omega
        · split <;> omega

/-- cube / hypercube: right after the midpoint insertion of a division, any two new nodes that the following passes
connect have a common (old) neighbour. -/
theorem cube_seconds_complete {d : Nat} {tab : FaceTab} (σ : Nat → Nat → Nat → Nat) {W : Int} {s : St}
    (h : Geo d tab W s) (x y : Pt) (hx : x ∈ (extraNodes s).map (·.pt)) (hy : y ∈ (extraNodes s).map (·.pt))
    (hadj : Adj d (2 * W) x y) : Second (endOfDivision σ (addMidEdgeNodes s)) x y := by
  have hedges : ∀ p q, E (endOfDivision σ (addMidEdgeNodes s)) p q ↔ E (addMidEdgeNodes s) p q := fun _ _ => Iff.rfl
  obtain ⟨c, hc, h1, h2⟩ := common_corner hadj
  have notold : ∀ z, z ∈ (extraNodes s).map (·.pt) → dbl c ≠ z := by
    intro z hz he
    obtain ⟨a, b, hab, rfl⟩ := (h.mem_new_iff z).1 hz
    exact mid_ne_dbl hab hc he.symm
  have key : ∀ z, Adj d (2 * W) (dbl c) z → E (endOfDivision σ (addMidEdgeNodes s)) z (dbl c) := by
    intro z hz
    obtain ⟨g1, g2⟩ := adj_dbl_split hc hz
    rw [hedges, E_addMid]
    exact ⟨c, sub z c, (h.edges _ _).2 g1, Or.inl ⟨g2, rfl⟩⟩
  rcases h1 with h1 | h1
  · exact absurd h1 (notold x hx)
  · rcases h2 with h2 | h2
    · exact absurd h2 (notold y hy)
    · exact ⟨dbl c, key x h1, E_symm (key y h2)⟩


theorem ico_corner_helper {k A B C : Nat} (hF : IsFace A B C) (i j l i' j' l' m1 m2 m3 : Int)
    (g1 : 0 ≤ i) (g2 : 0 ≤ j) (g3 : 0 ≤ l) (g4 : 0 ≤ i') (g5 : 0 ≤ j') (g6 : 0 ≤ l')
    (s1 : i + j + l = 2 ^ (k + 1)) (s2 : i' + j' + l' = 2 ^ (k + 1))
    (e1 : m1 % 2 = 0) (e2 : m2 % 2 = 0) (e3 : m3 % 2 = 0) (n1 : 0 ≤ m1) (n2 : 0 ≤ m2) (n3 : 0 ≤ m3)
    (sm : m1 + m2 + m3 = 2 ^ (k + 1))
    (h1 : UnitStep (i - m1) (j - m2) (l - m3)) (h2 : UnitStep (i' - m1) (j' - m2) (l' - m3)) :
    ∃ c, LatI k c ∧ AdjI (k + 1) (dbl c) (comb A B C i j l) ∧ AdjI (k + 1) (dbl c) (comb A B C i' j' l') := by
  have hd : dbl (comb A B C (m1 / 2) (m2 / 2) (m3 / 2)) = comb A B C m1 m2 m3 := by
    rw [dbl_comb hF]; congr 1 <;> omega
  rw [pow_succ] at sm
  refine ⟨comb A B C (m1 / 2) (m2 / 2) (m3 / 2), ⟨A, B, C, hF, _, _, _, by omega, by omega, by omega, by omega, rfl⟩,
    ?_, ?_⟩
  · rw [hd]
    exact ⟨A, B, C, hF, m1, m2, m3, i, j, l, n1, n2, n3, g1, g2, g3, by rw [pow_succ]; omega, s1, rfl, rfl, h1⟩
  · rw [hd]
    exact ⟨A, B, C, hF, m1, m2, m3, i', j', l', n1, n2, n3, g4, g5, g6, by rw [pow_succ]; omega, s2, rfl, rfl, h2⟩

/-- two neighbouring new points of the finer triangulation have a common old neighbour. -/
theorem ico_common_corner {k : Nat} {x y : Pt} (h : AdjI (k + 1) x y)
    (hx : ∀ c, LatI k c → dbl c ≠ x) (hy : ∀ c, LatI k c → dbl c ≠ y) :
    ∃ c, LatI k c ∧ AdjI (k + 1) (dbl c) x ∧ AdjI (k + 1) (dbl c) y := by
  obtain ⟨A, B, C, hF, i, j, l, i', j', l', g1, g2, g3, g4, g5, g6, s1, s2, rfl, rfl, hu⟩ := h
  -- neither point has all coefficients even
  have hxo : ¬ (i % 2 = 0 ∧ j % 2 = 0 ∧ l % 2 = 0) := by
    rintro ⟨p1, p2, p3⟩
    apply hx (comb A B C (i / 2) (j / 2) (l / 2))
      ⟨A, B, C, hF, _, _, _, by omega, by omega, by omega, by rw [pow_succ] at s1; omega, rfl⟩
    rw [dbl_comb hF]; congr 1 <;> omega
  have hyo : ¬ (i' % 2 = 0 ∧ j' % 2 = 0 ∧ l' % 2 = 0) := by
    rintro ⟨p1, p2, p3⟩
    apply hy (comb A B C (i' / 2) (j' / 2) (l' / 2))
      ⟨A, B, C, hF, _, _, _, by omega, by omega, by omega, by rw [pow_succ] at s2; omega, rfl⟩
    rw [dbl_comb hF]; congr 1 <;> omega
  have hpow : (2 : Int) ^ (k + 1) % 2 = 0 := by rw [pow_succ]; omega
  unfold UnitStep at hu
  have ha : i' - i = -1 ∨ i' - i = 0 ∨ i' - i = 1 := by omega
  have hb : j' - j = -1 ∨ j' - j = 0 ∨ j' - j = 1 := by omega
  have hpi : i % 2 = 0 ∨ i % 2 = 1 := by omega
  have hpj : j % 2 = 0 ∨ j % 2 = 1 := by omega
  rcases ha with ha | ha | ha <;> rcases hb with hb | hb | hb <;> rcases hpi with hpi | hpi <;>
    rcases hpj with hpj | hpj
  · exfalso; omega
  · exfalso; omega
  · exfalso; omega
  · exfalso; omega
  · exfalso; omega
  · exact ico_corner_helper hF i j l i' j' l' i (j - 1) (l + 1) g1 g2 g3 g4 g5 g6 s1 s2 (by omega) (by omega) (by omega) (by omega) (by omega) (by omega) (by omega) (by unfold UnitStep; omega) (by unfold UnitStep; omega)
  · exfalso; omega
  · exact ico_corner_helper hF i j l i' j' l' (i - 1) (j + 1) l g1 g2 g3 g4 g5 g6 s1 s2 (by omega) (by omega) (by omega) (by omega) (by omega) (by omega) (by omega) (by unfold UnitStep; omega) (by unfold UnitStep; omega)
  · exfalso; omega
  · exact ico_corner_helper hF i j l i' j' l' i (j + 1) (l - 1) g1 g2 g3 g4 g5 g6 s1 s2 (by omega) (by omega) (by omega) (by omega) (by omega) (by omega) (by omega) (by unfold UnitStep; omega) (by unfold UnitStep; omega)
  · exact ico_corner_helper hF i j l i' j' l' (i - 1) j (l + 1) g1 g2 g3 g4 g5 g6 s1 s2 (by omega) (by omega) (by omega) (by omega) (by omega) (by omega) (by omega) (by unfold UnitStep; omega) (by unfold UnitStep; omega)
  · exfalso; omega
  · exfalso; omega
  · exfalso; omega
  · exact ico_corner_helper hF i j l i' j' l' (i - 1) j (l + 1) g1 g2 g3 g4 g5 g6 s1 s2 (by omega) (by omega) (by omega) (by omega) (by omega) (by omega) (by omega) (by unfold UnitStep; omega) (by unfold UnitStep; omega)
  · exact ico_corner_helper hF i j l i' j' l' (i + 1) (j - 1) l g1 g2 g3 g4 g5 g6 s1 s2 (by omega) (by omega) (by omega) (by omega) (by omega) (by omega) (by omega) (by unfold UnitStep; omega) (by unfold UnitStep; omega)
  · exfalso; omega
  · exfalso; omega
  · exfalso; omega
  · exfalso; omega
  · exfalso; omega
  · exfalso; omega
  · exact ico_corner_helper hF i j l i' j' l' (i + 1) j (l - 1) g1 g2 g3 g4 g5 g6 s1 s2 (by omega) (by omega) (by omega) (by omega) (by omega) (by omega) (by omega) (by unfold UnitStep; omega) (by unfold UnitStep; omega)
  · exact ico_corner_helper hF i j l i' j' l' (i - 1) (j + 1) l g1 g2 g3 g4 g5 g6 s1 s2 (by omega) (by omega) (by omega) (by omega) (by omega) (by omega) (by omega) (by unfold UnitStep; omega) (by unfold UnitStep; omega)
  · exfalso; omega
  · exact ico_corner_helper hF i j l i' j' l' i (j - 1) (l + 1) g1 g2 g3 g4 g5 g6 s1 s2 (by omega) (by omega) (by omega) (by omega) (by omega) (by omega) (by omega) (by unfold UnitStep; omega) (by unfold UnitStep; omega)
  · exact ico_corner_helper hF i j l i' j' l' (i + 1) j (l - 1) g1 g2 g3 g4 g5 g6 s1 s2 (by omega) (by omega) (by omega) (by omega) (by omega) (by omega) (by omega) (by unfold UnitStep; omega) (by unfold UnitStep; omega)
  · exfalso; omega
  · exfalso; omega
  · exact ico_corner_helper hF i j l i' j' l' i (j + 1) (l - 1) g1 g2 g3 g4 g5 g6 s1 s2 (by omega) (by omega) (by omega) (by omega) (by omega) (by omega) (by omega) (by unfold UnitStep; omega) (by unfold UnitStep; omega)
  · exfalso; omega
  · exact ico_corner_helper hF i j l i' j' l' (i + 1) (j - 1) l g1 g2 g3 g4 g5 g6 s1 s2 (by omega) (by omega) (by omega) (by omega) (by omega) (by omega) (by omega) (by unfold UnitStep; omega) (by unfold UnitStep; omega)
  · exfalso; omega
  · exfalso; omega
  · exfalso; omega
  · exfalso; omega

/-- icosahedron: right after the midpoint insertion of a division, any two new nodes that the pre-division pass of
the NEXT `divide_edges` connects have a common (old) neighbour. -/
theorem ico_seconds_complete (σ : Nat → Nat → Nat → Nat) {k : Nat} {s : St} (h : GeoI k s) (x y : Pt)
    (hx : x ∈ (extraNodes s).map (·.pt)) (hy : y ∈ (extraNodes s).map (·.pt)) (hadj : AdjI (k + 1) x y) :
    Second (endOfDivision σ (addMidEdgeNodes s)) x y := by
  have hedges : ∀ p q, E (endOfDivision σ (addMidEdgeNodes s)) p q ↔ E (addMidEdgeNodes s) p q := fun _ _ => Iff.rfl
  have notold : ∀ z, z ∈ (extraNodes s).map (·.pt) → ∀ c, LatI k c → dbl c ≠ z := by
    intro z hz c hc he
    obtain ⟨a, b, hab, rfl⟩ := (h.mem_new_iff z).1 hz
    exact mid_ne_dbl_I hab hc he.symm
  obtain ⟨c, hc, h1, h2⟩ := ico_common_corner hadj (notold x hx) (notold y hy)
  have key : ∀ z, AdjI (k + 1) (dbl c) z → E (endOfDivision σ (addMidEdgeNodes s)) z (dbl c) := by
    intro z hz
    obtain ⟨c', g1, g2⟩ := adjI_dbl_split hc hz
    rw [hedges, E_addMid]
    exact ⟨c, c', (h.edges _ _).2 g1, Or.inl ⟨g2, rfl⟩⟩
  exact ⟨dbl c, key x h1, E_symm (key y h2)⟩


/-- new nodes of a division are the nodes of the newest level. -/
theorem new_of_level (σ : Nat → Nat → Nat → Nat) (s : St) (hf : Fresh s) (hl : ∀ nd ∈ s.nodes, nd.level < s.cur)
    (a : Node) (ha : a ∈ (endOfDivision σ (addMidEdgeNodes s)).nodes) (hla : a.level = s.cur) :
    a.pt ∈ (extraNodes s).map (·.pt) := by
  rw [(divided_nodes σ s hf hl).1] at ha
  rcases List.mem_append.1 ha with ha | ha
  · obtain ⟨n, hn, rfl⟩ := List.mem_map.1 ha
    have := hl n hn
    rw [show (dblNode n).level = n.level from rfl] at hla
    omega
  · rw [← assignGo_map_pt (σ s.cur (extraNodes s).length) s.cur s.maxCi (extraNodes s) 0]
    exact List.mem_map_of_mem ha

/-- level 0 of the cube: the face-diagonal pass of `_create_level0` (`only_seconds=True`) starts from the graph with
the twelve straight edges; the end points of every face diagonal have a common neighbour there. -/
theorem cube3_seconds_level0 :
    ∀ p ∈ cube3Vertices, ∀ q ∈ cube3Vertices, isLen 8 p q = true →
      ∃ c ∈ cube3Vertices, E (addEdgesOfLen (isLen 4) 0 false (emptySt (mkVertices cube3Vertices cube3Faces))) p c ∧
        E (addEdgesOfLen (isLen 4) 0 false (emptySt (mkVertices cube3Vertices cube3Faces))) c q := by
  decide +kernel

end Molgri.Polytope
