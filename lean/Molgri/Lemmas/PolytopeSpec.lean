/-
Link between the predicates of the C18 theorems (`Lat`, `LatI`) and the executable ideal lattices of the model
(`cubeLattice`, `icoLattice`, which the harness compares with the oracle's own lattices on every run); closure of the
icosahedron lattice under negation.
-/
import Molgri.Lemmas.PolytopeIcoInv
namespace Molgri.Polytope
set_option linter.unreachableTactic false
set_option linter.unusedTactic false
/-- the executable ideal lattice (`icoLattice`, compared with the oracle's own construction on every run) lists
exactly the points of `LatI`. -/
theorem mem_icoLattice (k : Nat) (p : Pt) : p ∈ icoLattice k ↔ LatI k p := by
  unfold icoLattice
  rw [List.mem_flatMap]
  constructor
  · rintro ⟨F, hF, hp⟩
    have hwf := List.all_eq_true.1 (show icoFaces.all faceWf = true by decide) F hF
    match F, hF, hp, hwf with
    | [A, B, C], hF, hp, _ =>
      simp only [triLattice, List.mem_flatMap, List.mem_map, List.mem_range] at hp
      obtain ⟨i, hi, j, hj, rfl⟩ := hp
      refine ⟨A, B, C, hF, (i : Int), (j : Int), ((2 ^ k - i - j : Nat) : Int), by omega, by omega, by omega, ?_, rfl⟩
      have : i + j + (2 ^ k - i - j) = 2 ^ k := by omega
      have h2 : ((i + j + (2 ^ k - i - j) : Nat) : Int) = ((2 ^ k : Nat) : Int) := by rw [this]
      push_cast at h2
      exact h2
  · rintro ⟨A, B, C, hF, i, j, l, h1, h2, h3, hs, rfl⟩
    refine ⟨[A, B, C], hF, ?_⟩
    simp only [triLattice, List.mem_flatMap, List.mem_map, List.mem_range]
    have hs' : ((i.toNat + j.toNat + l.toNat : Nat) : Int) = ((2 ^ k : Nat) : Int) := by
      push_cast
      omega
    have hs'' : i.toNat + j.toNat + l.toNat = 2 ^ k := by exact_mod_cast hs'
    refine ⟨i.toNat, by omega, j.toNat, by omega, ?_⟩
    have e1 : Int.ofNat i.toNat = i := by simp [h1]
    have e2 : Int.ofNat j.toNat = j := by simp [h2]
    have e3 : Int.ofNat (2 ^ k - i.toNat - j.toNat) = l := by
      have : 2 ^ k - i.toNat - j.toNat = l.toNat := by omega
      rw [this]; simp [h3]
    rw [e1, e2, e3]
    rfl



theorem forall_mem_iff_co (P : Int → Prop) (p : Pt) : (∀ x ∈ p, P x) ↔ ∀ i, i < p.length → P (co p i) := by
  induction p with
  | nil => simp
  | cons a t ih =>
    simp only [List.mem_cons, forall_eq_or_imp, List.length_cons, ih]
    constructor
    · rintro ⟨h0, h1⟩ i hi
      cases i with
      | zero => simpa [co] using h0
      | succ n => simpa [co] using h1 n (by omega)
    · intro h
      refine ⟨by simpa [co] using h 0 (by omega), fun i hi => ?_⟩
      simpa [co] using h (i + 1) (by omega)

theorem exists_mem_iff_co (P : Int → Prop) (p : Pt) : (∃ x ∈ p, P x) ↔ ∃ i, i < p.length ∧ P (co p i) := by
  induction p with
  | nil => simp
  | cons a t ih =>
    simp only [List.mem_cons, exists_eq_or_imp, List.length_cons, ih]
    constructor
    · rintro (h0 | ⟨i, hi, h1⟩)
      · exact ⟨0, by omega, by simpa [co] using h0⟩
      · exact ⟨i + 1, by omega, by simpa [co] using h1⟩
    · rintro ⟨i, hi, h⟩
      cases i with
      | zero => left; simpa [co] using h
      | succ n => right; exact ⟨n, by omega, by simpa [co] using h⟩

theorem mem_axisVals (w : Nat) (x : Int) : x ∈ axisVals w ↔ -(w : Int) ≤ x ∧ x ≤ w ∧ x % 2 = (w : Int) % 2 := by
  unfold axisVals
  simp only [List.mem_map, List.mem_range]
  constructor
  · rintro ⟨i, hi, rfl⟩; omega
  · rintro ⟨h1, h2, h3⟩
    refine ⟨((x + w) / 2).toNat, by omega, by omega⟩

theorem mem_boxPts (d w : Nat) (p : Pt) : p ∈ boxPts d w ↔ p.length = d ∧ ∀ x ∈ p, x ∈ axisVals w := by
  induction d generalizing p with
  | zero =>
    simp only [boxPts, List.mem_singleton]
    constructor
    · rintro rfl; simp
    · rintro ⟨h, _⟩; exact List.length_eq_zero_iff.1 h
  | succ d ih =>
    simp only [boxPts, List.mem_flatMap, List.mem_map]
    constructor
    · rintro ⟨x, hx, q, hq, rfl⟩
      obtain ⟨h1, h2⟩ := (ih q).1 hq
      refine ⟨by simp [h1], ?_⟩
      intro y hy
      rcases List.mem_cons.1 hy with rfl | hy
      · exact hx
      · exact h2 y hy
    · rintro ⟨hl, hall⟩
      cases p with
      | nil => simp at hl
      | cons a t =>
        refine ⟨a, hall a (by simp), t, (ih t).2 ⟨by simpa using hl, fun y hy => hall y (by simp [hy])⟩, rfl⟩

/-- the executable ideal lattice of the cube (`cubeLattice`, compared with the oracle's own construction on every
run) lists exactly the points of `Lat`. -/
theorem mem_cubeLattice (d k : Nat) (p : Pt) : p ∈ cubeLattice d k ↔ Lat d ((2 : Int) ^ k) p := by
  unfold cubeLattice Lat
  rw [List.mem_filter, mem_boxPts, List.any_eq_true]
  have hc : ((2 ^ k : Nat) : Int) = (2 : Int) ^ k := by push_cast; rfl
  constructor
  · rintro ⟨⟨hl, hall⟩, hany⟩
    refine ⟨hl, ?_, ?_⟩
    · have := (forall_mem_iff_co (fun x => x ∈ axisVals (2 ^ k)) p).1 hall
      intro i hi
      have h1 := (mem_axisVals _ _).1 (this i (by omega))
      rw [hc] at h1
      exact h1
    · have : ∃ x ∈ p, x.natAbs = 2 ^ k := by
        obtain ⟨x, hx, h⟩ := hany
        exact ⟨x, hx, by simpa using h⟩
      obtain ⟨i, hi, h⟩ := (exists_mem_iff_co (fun x => x.natAbs = 2 ^ k) p).1 this
      refine ⟨i, by omega, ?_⟩
      rw [← hc]; omega
  · rintro ⟨hl, hall, i, hi, h⟩
    refine ⟨⟨hl, ?_⟩, ?_⟩
    · apply (forall_mem_iff_co (fun x => x ∈ axisVals (2 ^ k)) p).2
      intro j hj
      rw [mem_axisVals, hc]
      exact hall j (by omega)
    · have hna : (co p i).natAbs = 2 ^ k := by
        rw [← hc] at h
        rcases h with h | h <;> rw [h] <;> simp
      obtain ⟨x, hx, h'⟩ := (exists_mem_iff_co (fun x => x.natAbs = 2 ^ k) p).2 ⟨i, by omega, hna⟩
      exact ⟨x, hx, by simpa using h'⟩


/-- the antipode of a lattice point of a face is a lattice point of the opposite face. -/
theorem latI_neg {k : Nat} {p : Pt} (h : LatI k p) : LatI k (neg p) := by
  obtain ⟨A, B, C, hF, i, j, l, h1, h2, h3, hs, rfl⟩ := h
  refine isFace_cases hF (fun A B C => LatI k (neg (comb A B C i j l))) ?_
  refine ⟨?_, ?_, ?_, ?_, ?_, ?_, ?_, ?_, ?_, ?_, ?_, ?_, ?_, ?_, ?_, ?_, ?_, ?_, ?_, ?_⟩
  · exact ⟨3, 6, 8, (by unfold IsFace; decide), i, l, j, by omega, by omega, by omega, by omega, by
       simp [comb, add3, smul, vtx, icoVertices, neg] <;> omega⟩
  · exact ⟨3, 2, 6, (by unfold IsFace; decide), i, l, j, by omega, by omega, by omega, by omega, by
       simp [comb, add3, smul, vtx, icoVertices, neg] <;> omega⟩
  · exact ⟨3, 4, 2, (by unfold IsFace; decide), i, l, j, by omega, by omega, by omega, by omega, by
       simp [comb, add3, smul, vtx, icoVertices, neg] <;> omega⟩
  · exact ⟨3, 9, 4, (by unfold IsFace; decide), i, l, j, by omega, by omega, by omega, by omega, by
       simp [comb, add3, smul, vtx, icoVertices, neg] <;> omega⟩
  · exact ⟨3, 8, 9, (by unfold IsFace; decide), i, l, j, by omega, by omega, by omega, by omega, by
       simp [comb, add3, smul, vtx, icoVertices, neg] <;> omega⟩
  · exact ⟨6, 2, 10, (by unfold IsFace; decide), j, i, l, by omega, by omega, by omega, by omega, by
       simp [comb, add3, smul, vtx, icoVertices, neg] <;> omega⟩
  · exact ⟨8, 6, 7, (by unfold IsFace; decide), j, i, l, by omega, by omega, by omega, by omega, by
       simp [comb, add3, smul, vtx, icoVertices, neg] <;> omega⟩
  · exact ⟨9, 8, 1, (by unfold IsFace; decide), j, i, l, by omega, by omega, by omega, by omega, by
       simp [comb, add3, smul, vtx, icoVertices, neg] <;> omega⟩
  · exact ⟨4, 9, 5, (by unfold IsFace; decide), j, i, l, by omega, by omega, by omega, by omega, by
       simp [comb, add3, smul, vtx, icoVertices, neg] <;> omega⟩
  · exact ⟨2, 4, 11, (by unfold IsFace; decide), j, i, l, by omega, by omega, by omega, by omega, by
       simp [comb, add3, smul, vtx, icoVertices, neg] <;> omega⟩
  · exact ⟨0, 7, 10, (by unfold IsFace; decide), i, l, j, by omega, by omega, by omega, by omega, by
       simp [comb, add3, smul, vtx, icoVertices, neg] <;> omega⟩
  · exact ⟨0, 1, 7, (by unfold IsFace; decide), i, l, j, by omega, by omega, by omega, by omega, by
       simp [comb, add3, smul, vtx, icoVertices, neg] <;> omega⟩
  · exact ⟨0, 5, 1, (by unfold IsFace; decide), i, l, j, by omega, by omega, by omega, by omega, by
       simp [comb, add3, smul, vtx, icoVertices, neg] <;> omega⟩
  · exact ⟨0, 11, 5, (by unfold IsFace; decide), i, l, j, by omega, by omega, by omega, by omega, by
       simp [comb, add3, smul, vtx, icoVertices, neg] <;> omega⟩
  · exact ⟨0, 10, 11, (by unfold IsFace; decide), i, l, j, by omega, by omega, by omega, by omega, by
       simp [comb, add3, smul, vtx, icoVertices, neg] <;> omega⟩
  · exact ⟨10, 7, 6, (by unfold IsFace; decide), j, i, l, by omega, by omega, by omega, by omega, by
       simp [comb, add3, smul, vtx, icoVertices, neg] <;> omega⟩
  · exact ⟨7, 1, 8, (by unfold IsFace; decide), j, i, l, by omega, by omega, by omega, by omega, by
       simp [comb, add3, smul, vtx, icoVertices, neg] <;> omega⟩
  · exact ⟨1, 5, 9, (by unfold IsFace; decide), j, i, l, by omega, by omega, by omega, by omega, by
       simp [comb, add3, smul, vtx, icoVertices, neg] <;> omega⟩
  · exact ⟨5, 11, 4, (by unfold IsFace; decide), j, i, l, by omega, by omega, by omega, by omega, by
       simp [comb, add3, smul, vtx, icoVertices, neg] <;> omega⟩
  · exact ⟨11, 10, 2, (by unfold IsFace; decide), j, i, l, by omega, by omega, by omega, by omega, by
       simp [comb, add3, smul, vtx, icoVertices, neg] <;> omega⟩

end Molgri.Polytope
