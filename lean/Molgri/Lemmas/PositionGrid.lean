/-
Helper lemmas for C05 (spherical-shell position grid).  Property theorems are in `Molgri/Props/C05.lean`.

Contents: list indexing of `flatMap ∘ map`; COO matrices (`dense`, `cooOfDense`, `canon`); `scipy.sparse.diags` as modelled
(cut / broadcast / too short); block diagonal + per-shell scaling loop; `get_increments` / `get_between_radii`
(values, interleaving `r_k < R_k < r_{k+1}`); volumes; assembly of the three matrices (`nnPosition_ok`, `dense_nnOfSel`).
-/
import Molgri.Model.PositionGrid
import Mathlib.Algebra.Order.Field.Basic
import Mathlib.Algebra.BigOperators.Group.List.Basic
import Mathlib.Tactic.Ring
import Mathlib.Tactic.Linarith
import Mathlib.Tactic.FieldSimp
import Mathlib.Data.List.ProdSigma
import Mathlib.Data.List.Nodup

set_option linter.unusedSectionVars false

namespace Molgri.PositionGrid

/-! ### list indexing -/
section lists
variable {α β γ : Type}

theorem getElem?_flatMap_map (g : β → α → γ) (o : List α) (t : List β) (k i : Nat) (hi : i < o.length) :
    (t.flatMap fun tv => o.map (g tv))[k * o.length + i]? = (t[k]?).bind fun tv => (o[i]?).map (g tv) := by
  induction t generalizing k with
  | nil => simp
  | cons a t ih =>
    rw [List.flatMap_cons]
    cases k with
    | zero =>
      rw [List.getElem?_append_left (by simpa using hi)]
      simp
    | succ k =>
      rw [List.getElem?_append_right (by simp [Nat.succ_mul]; omega)]
      have : (k + 1) * o.length + i - (List.map (g a) o).length = k * o.length + i := by
        simp [Nat.succ_mul]; omega
      rw [this, ih]
      simp

theorem length_flatMap_map (g : β → α → γ) (o : List α) (t : List β) :
    (t.flatMap fun tv => o.map (g tv)).length = t.length * o.length := by
  induction t with
  | nil => simp
  | cons a t ih => simp [List.flatMap_cons, ih, Nat.succ_mul, Nat.add_comm]

end lists

section sparse
variable {K : Type} [Field K] [DecidableEq K]

/-! ### COO matrices -/

theorem dense_nil (i j : Nat) : dense ([] : Coo K) i j = 0 := rfl

theorem dense_append (A B : Coo K) (i j : Nat) : dense (A ++ B) i j = dense A i j + dense B i j := by
  simp [dense, List.filter_append, List.map_append, List.sum_append]

theorem dense_flatMap {α : Type} (l : List α) (f : α → Coo K) (i j : Nat) :
    dense (l.flatMap f) i j = (l.map fun a => dense (f a) i j).sum := by
  induction l with
  | nil => rfl
  | cons a l ih => rw [List.flatMap_cons, dense_append, ih]; simp

theorem sum_range_ite_eq (m i0 : Nat) (c : Nat → K) :
    ((List.range m).map fun i => if i = i0 then c i else 0).sum = if i0 < m then c i0 else 0 := by
  induction m with
  | zero => simp
  | succ m ih =>
    rw [List.range_succ, List.map_append, List.sum_append, ih]
    by_cases h1 : i0 < m
    · have : m ≠ i0 := by omega
      simp [h1, this, Nat.lt_succ_of_lt h1]
    · by_cases h2 : m = i0
      · subst h2; simp
      · have : ¬ i0 < m + 1 := by omega
        simp [h1, h2, this]

theorem sum_range_zero (m : Nat) (c : Nat → K) (h : ∀ i, i < m → c i = 0) :
    ((List.range m).map c).sum = 0 := by
  apply List.sum_eq_zero
  intro x hx
  obtain ⟨i, hi, rfl⟩ := List.mem_map.mp hx
  exact h i (List.mem_range.mp hi)

/-- Entries generated from a range, zero values dropped: the matrix value is the sum of the values whose position hits. -/
theorem dense_range_filterMap (m : Nat) (pos : Nat → Nat × Nat) (g : Nat → K) (p q : Nat) :
    dense ((List.range m).filterMap fun i => if g i = 0 then none else some ((pos i).1, (pos i).2, g i)) p q
      = ((List.range m).map fun i => if pos i = (p, q) then g i else 0).sum := by
  induction m with
  | zero => rfl
  | succ m ih =>
    rw [List.range_succ, List.filterMap_append, dense_append, ih, List.map_append, List.sum_append]
    congr 1
    by_cases hg : g m = 0
    · simp [hg, dense]
    · by_cases hp : pos m = (p, q)
      · have h1 : (pos m).1 = p := by rw [hp]
        have h2 : (pos m).2 = q := by rw [hp]
        simp [hg, dense, hp]
      · have : ¬ ((pos m).1 = p ∧ (pos m).2 = q) := by
          intro ⟨h1, h2⟩; exact hp (Prod.ext h1 h2)
        simp [hg, dense, hp, this]

theorem dense_cooOfDense (n : Nat) (f : Nat → Nat → K) (p q : Nat) :
    dense (cooOfDense n f) p q = if p < n ∧ q < n then f p q else 0 := by
  unfold cooOfDense
  rw [dense_flatMap]
  have inner : ∀ i, dense ((List.range n).filterMap fun j => if f i j = 0 then none else some (i, j, f i j)) p q
      = if i = p then (if q < n then f p q else 0) else 0 := by
    intro i
    have := dense_range_filterMap n (fun j => (i, j)) (fun j => f i j) p q
    simp only at this
    rw [this]
    by_cases hi : i = p
    · subst hi
      rw [if_pos rfl, ← sum_range_ite_eq n q (fun j => f i j)]
      congr 1; apply List.map_congr_left; intro j _
      by_cases hj : j = q <;> simp [hj]
    · rw [if_neg hi]
      apply sum_range_zero; intro j _
      have : (i, j) ≠ (p, q) := by intro h; exact hi (Prod.ext_iff.mp h).1
      simp [this]
  simp only [inner]
  rw [sum_range_ite_eq n p (fun _ => if q < n then f p q else 0)]
  by_cases h1 : p < n <;> by_cases h2 : q < n <;> simp [h1, h2]

theorem canon_eq (n : Nat) (M : Coo K) : canon n M = cooOfDense n (dense M) := by
  unfold canon cooOfDense
  have h : ∀ i j, dense (M.filter fun e => decide (e.1 = i)) i j = dense M i j := by
    intro i j
    unfold dense
    rw [List.filter_filter]
    congr 2
    apply List.filter_congr
    intro e _
    by_cases h1 : e.1 = i <;> simp [h1]
  simp only [h]

theorem dense_canon (n : Nat) (M : Coo K) (p q : Nat) :
    dense (canon n M) p q = if p < n ∧ q < n then dense M p q else 0 := by
  rw [canon_eq, dense_cooOfDense]

theorem mem_cooOfDense (n : Nat) (f : Nat → Nat → K) (p q : Nat) (v : K) :
    (p, q, v) ∈ cooOfDense n f ↔ p < n ∧ q < n ∧ v = f p q ∧ v ≠ 0 := by
  unfold cooOfDense
  simp only [List.mem_flatMap, List.mem_range, List.mem_filterMap]
  constructor
  · rintro ⟨i, hi, j, hj, h⟩
    by_cases h0 : f i j = 0
    · simp [h0] at h
    · simp only [h0, if_false, Option.some.injEq, Prod.mk.injEq] at h
      obtain ⟨rfl, rfl, rfl⟩ := h
      exact ⟨hi, hj, rfl, h0⟩
  · rintro ⟨hp, hq, rfl, h0⟩
    exact ⟨p, hp, q, hq, by simp [h0]⟩


theorem cooOfDense_positions (n : Nat) (f : Nat → Nat → K) :
    (cooOfDense n f).map (fun e => (e.1, e.2.1))
      = ((List.range n).product (List.range n)).filter (fun p => decide (f p.1 p.2 ≠ 0)) := by
  unfold cooOfDense List.product
  rw [List.map_flatMap, List.filter_flatMap]
  apply List.flatMap_congr
  intro i _
  generalize List.range n = l
  induction l with
  | nil => rfl
  | cons j l ih =>
    by_cases h : f i j = 0
    · simp [h, ih]
    · simp [h, ih]

/-- A canonical matrix stores each position at most once. -/
theorem cooOfDense_nodup (n : Nat) (f : Nat → Nat → K) :
    ((cooOfDense n f).map (fun e => (e.1, e.2.1))).Nodup := by
  rw [cooOfDense_positions]
  exact (List.Nodup.product List.nodup_range List.nodup_range).filter _

theorem canon_nodup (n : Nat) (M : Coo K) : ((canon n M).map (fun e => (e.1, e.2.1))).Nodup := by
  rw [canon_eq]; exact cooOfDense_nodup n _


/-! ### `scipy.sparse.diags` -/

/-- The entries `diags` emits for the filled diagonal `d`. -/
def diagEntries (d : List K) (off : Nat) (lower : Bool) (len : Nat) : Coo K :=
  (List.range len).filterMap fun i =>
    let v := d.getD i 0
    if v = 0 then none else some (if lower then (i + off, i, v) else (i, i + off, v))

/-- An over-long (or exactly fitting) diagonal is cut to its first `n - off` values. -/
theorem diagsCoo_cut (vals : List K) (off n : Nat) (lower : Bool) (h1 : off ≤ n) (h2 : n - off ≤ vals.length) :
    diagsCoo vals off lower n = .ok (diagEntries (vals.take (n - off)) off lower (n - off)) := by
  unfold diagsCoo diagEntries
  have hl : (vals.take (n - off)).length = n - off := by simp [h2]
  simp [Nat.not_lt.mpr h1, hl, pure, Except.pure]

/-- A length-one diagonal is broadcast. -/
theorem diagsCoo_broadcast (v : K) (off n : Nat) (lower : Bool) (h1 : off ≤ n) :
    diagsCoo [v] off lower n = .ok (diagEntries (List.replicate (n - off) v) off lower (n - off)) := by
  unfold diagsCoo diagEntries
  rcases Nat.lt_trichotomy (n - off) 1 with h | h | h
  · have h0 : n - off = 0 := by omega
    simp [Nat.not_lt.mpr h1, h0, pure, Except.pure]
  · simp [Nat.not_lt.mpr h1, h, pure, Except.pure]
  · have hne : ¬ (1 = n - off) := by omega
    have ht : List.take (n - off) [v] = [v] := by
      rw [List.take_of_length_le]; simp; omega
    simp [Nat.not_lt.mpr h1, ht, hne, pure, Except.pure]

/-- A shorter diagonal (other than length one) is rejected. -/
theorem diagsCoo_short (vals : List K) (off n : Nat) (lower : Bool) (h2 : vals.length < n - off) (h3 : vals.length ≠ 1) :
    diagsCoo vals off lower n = .error "ValueError" := by
  unfold diagsCoo
  have h1 : ¬ n < off := by omega
  have ht : List.take (n - off) vals = vals := List.take_of_length_le (by omega)
  have hne : ¬ vals.length = n - off := by omega
  rw [if_neg h1]
  simp only [ht, hne, if_false]
  match vals, h3 with
  | [], _ => rfl
  | [a], h3 => simp at h3
  | a :: b :: t, _ => rfl

theorem dense_diagEntries (d : List K) (off : Nat) (lower : Bool) (len p q : Nat) :
    dense (diagEntries d off lower len) p q =
      if lower then (if p = q + off ∧ q < len then d.getD q 0 else 0)
      else (if q = p + off ∧ p < len then d.getD p 0 else 0) := by
  unfold diagEntries
  have := dense_range_filterMap len (fun i => if lower then (i + off, i) else (i, i + off)) (fun i => d.getD i 0) p q
  cases lower with
  | false =>
    simp only [Bool.false_eq_true, if_false] at this ⊢
    rw [this]
    by_cases hq : q = p + off
    · subst hq
      have e : ∀ i, (if (i, i + off) = (p, p + off) then d.getD i 0 else 0) = if i = p then d.getD i 0 else 0 := by
        intro i; by_cases hi : i = p <;> simp [hi]
      simp only [e, sum_range_ite_eq]
      by_cases hp : p < len <;> simp [hp]
    · rw [if_neg (by tauto)]
      apply sum_range_zero; intro i _
      have : (i, i + off) ≠ (p, q) := by
        intro h; have h' := Prod.ext_iff.mp h; simp at h'; omega
      simp [this]
  | true =>
    simp only [if_true] at this ⊢
    rw [this]
    by_cases hp : p = q + off
    · subst hp
      have e : ∀ i, (if (i + off, i) = (q + off, q) then d.getD i 0 else 0) = if i = q then d.getD i 0 else 0 := by
        intro i; by_cases hi : i = q <;> simp [hi]
      simp only [e, sum_range_ite_eq]
      by_cases hq : q < len <;> simp [hq]
    · rw [if_neg (by tauto)]
      apply sum_range_zero; intro i _
      have : (i + off, i) ≠ (p, q) := by
        intro h; have h' := Prod.ext_iff.mp h; simp at h'; omega
      simp [this]


/-! ### block diagonal and the per-shell scaling loop -/

theorem decomp_unique {n k k' a b : Nat} (ha : a < n) (hb : b < n) (h : k * n + a = k' * n + b) : k = k' ∧ a = b := by
  rcases Nat.lt_trichotomy k k' with hk | hk | hk
  · have := Nat.mul_le_mul_right n (show k + 1 ≤ k' from hk)
    rw [Nat.succ_mul] at this; omega
  · subst hk; exact ⟨rfl, by omega⟩
  · have := Nat.mul_le_mul_right n (show k' + 1 ≤ k from hk)
    rw [Nat.succ_mul] at this; omega

theorem inBlock_shift {n_o k k' a : Nat} (ha : a < n_o) : inBlock n_o k' (k * n_o + a) = decide (k' = k) := by
  unfold inBlock
  by_cases h : k' = k
  · subst h
    have : k' * n_o + a < (k' + 1) * n_o := by rw [Nat.succ_mul]; omega
    simp [this]
  · rcases Nat.lt_or_gt_of_ne h with hk | hk
    · have := Nat.mul_le_mul_right n_o (show k' + 1 ≤ k from hk)
      have h2 : ¬ (k * n_o + a < (k' + 1) * n_o) := by omega
      simp [h, h2]
    · have := Nat.mul_le_mul_right n_o (show k + 1 ≤ k' from hk)
      rw [Nat.succ_mul] at this
      have h2 : ¬ (k' * n_o ≤ k * n_o + a) := by omega
      simp [h, h2]

/-- Entry-level action of one pass of the scaling loop. -/
def scaleE (n_o k : Nat) (m : K) (e : Nat × Nat × K) : Nat × Nat × K :=
  if inBlock n_o k e.1 && inBlock n_o k e.2.1 then (e.1, e.2.1, e.2.2 * m) else e

theorem foldl_scaleShell (n_o : Nat) (ks : List Nat) (mult : Nat → K) (M : Coo K) :
    ks.foldl (fun M k => scaleShell n_o M k (mult k)) M
      = M.map fun e => ks.foldl (fun e k => scaleE n_o k (mult k) e) e := by
  induction ks generalizing M with
  | nil => simp
  | cons k ks ih =>
    rw [List.foldl_cons, ih]
    unfold scaleShell
    rw [List.map_map]
    rfl

theorem foldl_scaleE_shift (n_o : Nat) (ks : List Nat) (mult : Nat → K) (k a b : Nat) (v : K) (ha : a < n_o)
    (hb : b < n_o) :
    ks.foldl (fun e k' => scaleE n_o k' (mult k') e) (k * n_o + a, k * n_o + b, v)
      = (k * n_o + a, k * n_o + b, v * mult k ^ ks.count k) := by
  induction ks generalizing v with
  | nil => simp
  | cons k' ks ih =>
    rw [List.foldl_cons]
    have step : scaleE n_o k' (mult k') (k * n_o + a, k * n_o + b, v)
        = if k' = k then (k * n_o + a, k * n_o + b, v * mult k') else (k * n_o + a, k * n_o + b, v) := by
      unfold scaleE
      simp only [inBlock_shift ha, inBlock_shift hb, Bool.and_self, decide_eq_true_eq]
    rw [step]
    by_cases h : k' = k
    · subst h
      rw [if_pos rfl, ih, List.count_cons_self]; congr 2; ring
    · rw [if_neg h, ih, List.count_cons_of_ne (by simpa using h)]

/-- The within-shell matrix after the loop, written out. -/
def scaledBlocks (n_o n_t : Nat) (neig : Nat → Nat → K) (mult : Nat → K) : Coo K :=
  (List.range n_t).flatMap fun k =>
    (cooOfDense n_o neig).map fun e => (k * n_o + e.1, k * n_o + e.2.1, e.2.2 * mult k)

theorem sameRadius_eq (n_o n_t : Nat) (neig : Nat → Nat → K) (multiply : List K) (hnt : 0 < n_t) :
    sameRadius n_o n_t neig multiply = scaledBlocks n_o n_t neig (fun k => multiply.getD k 0) := by
  unfold sameRadius scaledBlocks
  by_cases h : n_t > 1
  · rw [if_pos h, foldl_scaleShell n_o (List.range n_t) (fun k => multiply.getD k 0)]
    unfold blockDiag
    rw [List.map_flatMap]
    apply List.flatMap_congr
    intro k hk
    rw [List.map_map]
    apply List.map_congr_left
    intro e he
    obtain ⟨i, j, v⟩ := e
    obtain ⟨hi, hj, _, _⟩ := (mem_cooOfDense n_o neig i j v).mp he
    simp only [Function.comp]
    rw [foldl_scaleE_shift n_o _ _ k i j v hi hj, List.count_range, if_pos (List.mem_range.mp hk), pow_one]
  · have : n_t = 1 := by omega
    subst this
    rw [if_neg h]
    simp

theorem dense_cons (e : Nat × Nat × K) (M : Coo K) (p q : Nat) :
    dense (e :: M) p q = (if e.1 = p ∧ e.2.1 = q then e.2.2 else 0) + dense M p q := by
  unfold dense
  by_cases h1 : e.1 = p <;> by_cases h2 : e.2.1 = q <;> simp [h1, h2]

theorem dense_map_shift (n_o kk k k' o o' : Nat) (c : K) (blk : Coo K)
    (hb : ∀ e ∈ blk, e.1 < n_o ∧ e.2.1 < n_o) (ho : o < n_o) (ho' : o' < n_o) :
    dense (blk.map fun e => (kk * n_o + e.1, kk * n_o + e.2.1, e.2.2 * c)) (k * n_o + o) (k' * n_o + o')
      = if kk = k ∧ kk = k' then dense blk o o' * c else 0 := by
  induction blk with
  | nil => simp [dense_nil]
  | cons e blk ih =>
    rw [List.map_cons, dense_cons, ih (fun e he => hb e (List.mem_cons_of_mem _ he)), dense_cons]
    obtain ⟨h1, h2⟩ := hb e List.mem_cons_self
    by_cases hk : kk = k ∧ kk = k'
    · obtain ⟨rfl, rfl⟩ := hk
      simp only [and_self, if_true, Nat.add_left_cancel_iff]
      by_cases he : e.1 = o ∧ e.2.1 = o'
      · rw [if_pos he, if_pos he]; ring
      · rw [if_neg he, if_neg he]; ring
    · simp only [if_neg hk]
      have : ¬ (kk * n_o + e.1 = k * n_o + o ∧ kk * n_o + e.2.1 = k' * n_o + o') := by
        rintro ⟨e1, e2⟩
        exact hk ⟨(decomp_unique h1 ho e1).1, (decomp_unique h2 ho' e2).1⟩
      rw [if_neg this]; ring

theorem dense_scaledBlocks (n_o n_t : Nat) (neig : Nat → Nat → K) (mult : Nat → K) (k k' o o' : Nat)
    (hk : k < n_t) (ho : o < n_o) (ho' : o' < n_o) :
    dense (scaledBlocks n_o n_t neig mult) (k * n_o + o) (k' * n_o + o')
      = if k = k' then neig o o' * mult k else 0 := by
  unfold scaledBlocks
  rw [dense_flatMap]
  have hb : ∀ e ∈ cooOfDense n_o neig, e.1 < n_o ∧ e.2.1 < n_o := by
    rintro ⟨i, j, v⟩ he
    obtain ⟨hi, hj, _, _⟩ := (mem_cooOfDense n_o neig i j v).mp he
    exact ⟨hi, hj⟩
  simp only [dense_map_shift n_o _ k k' o o' _ _ hb ho ho', dense_cooOfDense, ho, ho', and_self, if_true]
  by_cases h : k = k'
  · subst h
    rw [if_pos rfl]
    have e : ∀ kk, (if kk = k ∧ kk = k then neig o o' * mult kk else 0) = if kk = k then neig o o' * mult kk else 0 := by
      intro kk; by_cases hkk : kk = k <;> simp [hkk]
    simp only [e, sum_range_ite_eq, hk, if_true]
  · rw [if_neg h]
    apply sum_range_zero; intro kk _
    rw [if_neg]; rintro ⟨rfl, rfl⟩; exact h rfl


end sparse

section radii
variable {K : Type} [Field K] [LinearOrder K] [IsStrictOrderedRing K]

/-- `r[k]` with the irrelevant default 0. -/
abbrev rad (r : List K) (k : Nat) : K := r.getD k 0

theorem incrementsOf_length (r : List K) : (incrementsOf r).length = r.length := by
  cases r with
  | nil => rfl
  | cons a t => simp [incrementsOf]

theorem incrementsOf_zero (r : List K) : (incrementsOf r).getD 0 0 = rad r 0 := by
  cases r with
  | nil => rfl
  | cons a t => simp [incrementsOf, rad]

theorem incrementsOf_succ (r : List K) (k : Nat) (hk : k + 1 < r.length) :
    (incrementsOf r).getD (k + 1) 0 = rad r (k + 1) - rad r k := by
  cases r with
  | nil => simp at hk
  | cons a t =>
    simp only [List.length_cons] at hk
    have h1 : k < t.length := by omega
    simp only [incrementsOf, rad, List.getD_eq_getElem?_getD, List.getElem?_cons_succ, List.getElem?_zipWith]
    have h2 : k < (a :: t).length := by simp; omega
    rw [List.getElem?_eq_getElem h1, List.getElem?_eq_getElem h2]
    simp


/-- The quantifier of C05 on radial grids: non-empty, positive, strictly increasing. -/
structure ValidRadii (r : List K) : Prop where
  nonempty : 0 < r.length
  pos : 0 < rad r 0
  incr : ∀ k, k + 1 < r.length → rad r k < rad r (k + 1)

theorem ValidRadii.all_pos {r : List K} (h : ValidRadii r) : ∀ k, k < r.length → 0 < rad r k := by
  intro k
  induction k with
  | zero => intro _; exact h.pos
  | succ k ih => intro hk; exact lt_trans (ih (by omega)) (h.incr k hk)

/-- What `get_increments` accepts: non-empty, first radius not negative, strictly increasing (a zero first radius is
accepted since fix cae935f, as the parser accepts it). -/
structure AcceptedRadii (r : List K) : Prop where
  nonempty : 0 < r.length
  nonneg : 0 ≤ rad r 0
  incr : ∀ k, k + 1 < r.length → rad r k < rad r (k + 1)

theorem ValidRadii.accepted {r : List K} (h : ValidRadii r) : AcceptedRadii r :=
  ⟨h.nonempty, le_of_lt h.pos, h.incr⟩

theorem tail_getD_incrementsOf (r : List K) (i : Nat) (hi : i < (incrementsOf r).tail.length) :
    (incrementsOf r).tail[i] = rad r (i + 1) - rad r i := by
  have hl : (incrementsOf r).tail.length = r.length - 1 := by simp [incrementsOf_length]
  have h1 : i + 1 < r.length := by omega
  have h2 : i + 1 < (incrementsOf r).length := by rw [incrementsOf_length]; exact h1
  rw [List.getElem_tail, ← incrementsOf_succ r i h1, List.getD_eq_getElem?_getD, List.getElem?_eq_getElem h2]
  rfl

theorem incrementsOk_iff (r : List K) (hne : 0 < r.length) :
    incrementsOk (incrementsOf r) = true ↔ AcceptedRadii r := by
  unfold incrementsOk
  rw [Bool.and_eq_true, incrementsOf_zero, List.all_eq_true]
  simp only [Bool.not_eq_eq_eq_not, Bool.not_true, decide_eq_false_iff_not, not_lt, decide_eq_true_eq]
  have hl : (incrementsOf r).tail.length = r.length - 1 := by simp [incrementsOf_length]
  constructor
  · rintro ⟨h0, ht⟩
    refine ⟨hne, h0, ?_⟩
    intro k hk
    have hk' : k < (incrementsOf r).tail.length := by omega
    have := ht _ (List.getElem_mem hk')
    rw [tail_getD_incrementsOf r k hk'] at this
    exact sub_pos.mp this
  · intro h
    refine ⟨h.nonneg, ?_⟩
    intro x hx
    obtain ⟨i, hi, rfl⟩ := List.getElem_of_mem hx
    rw [tail_getD_incrementsOf r i hi]
    exact sub_pos.mpr (h.incr i (by omega))

theorem getIncrements_ok {r : List K} (h : AcceptedRadii r) : getIncrements r = .ok (incrementsOf r) := by
  unfold getIncrements
  have hne : r.isEmpty = false := by
    cases r with
    | nil => exact absurd h.nonempty (by simp)
    | cons a t => rfl
  simp [hne, (incrementsOk_iff r h.nonempty).mpr h, pure, Except.pure]

/-- The error clause: what `get_increments` rejects. -/
theorem getIncrements_error_of_not_accepted {r : List K} (h : ¬ AcceptedRadii r) :
    getIncrements r = .error "IndexError" ∨ getIncrements r = .error "AssertionError" := by
  unfold getIncrements
  by_cases he : r.isEmpty = true
  · left; simp [he, throw, throwThe, MonadExceptOf.throw]
  · right
    have hlen : 0 < r.length := by
      cases r with
      | nil => simp at he
      | cons a t => simp
    have hall : ¬ incrementsOk (incrementsOf r) = true := fun hh => h ((incrementsOk_iff r hlen).mp hh)
    simp [he, hall, throw, throwThe, MonadExceptOf.throw]

/-! ### between radii -/

theorem halfIncrements_length (inc : List K) : (halfIncrements inc).length = inc.length := by
  unfold halfIncrements
  split
  · rename_i h
    cases inc with
    | nil => simp at h
    | cons a t =>
      simp only [List.length_cons] at h
      cases t with
      | nil => simp at h
      | cons b t' => simp
  · rfl


theorem halfIncrements_getD (inc : List K) (hL : 1 < inc.length) (k : Nat) (hk : k < inc.length) :
    (halfIncrements inc).getD k 0 = (if k + 1 < inc.length then inc.getD (k + 1) 0 else inc.getD k 0) / 2 := by
  unfold halfIncrements
  rw [if_pos hL]
  simp only [List.getD_eq_getElem?_getD, List.getElem?_map]
  by_cases h : k + 1 < inc.length
  · rw [if_pos h, List.getElem?_append_left (by simp; omega), List.getElem?_tail,
      List.getElem?_eq_getElem h]
    simp
  · rw [if_neg h, List.getElem?_append_right (by simp; omega), List.getLast?_eq_getElem?, List.getElem?_tail]
    have e1 : inc.tail.length - 1 + 1 = k := by simp; omega
    have e2 : k - inc.tail.length = 0 := by simp; omega
    rw [e1, e2, List.getElem?_eq_getElem hk]
    simp

/-- The value `get_between_radii` returns on a valid radial grid. -/
def betweenOf (r : List K) : List K := List.zipWith (· + ·) r (halfIncrements (incrementsOf r))

theorem getBetweenRadii_ok {r : List K} (h : AcceptedRadii r) : getBetweenRadii r = .ok (betweenOf r) := by
  unfold getBetweenRadii betweenOf
  rw [getIncrements_ok h]
  rfl

theorem betweenOf_length (r : List K) : (betweenOf r).length = r.length := by
  simp [betweenOf, halfIncrements_length, incrementsOf_length]

/-- `R_k`, the boundary above shell `k` (0-based). -/
abbrev Rab (r : List K) (k : Nat) : K := (betweenOf r).getD k 0

/-- The boundary below shell `k`: entry `k` of `concatenate(([0], radius_above[:-1]))`. -/
abbrev Rbe (r : List K) (k : Nat) : K := ((0 : K) :: (betweenOf r).dropLast).getD k 0

theorem betweenOf_getD (r : List K) (k : Nat) (hk : k < r.length) :
    Rab r k = rad r k + (halfIncrements (incrementsOf r)).getD k 0 := by
  have h2 : k < (halfIncrements (incrementsOf r)).length := by
    rw [halfIncrements_length, incrementsOf_length]; exact hk
  simp only [Rab, rad, betweenOf, List.getD_eq_getElem?_getD, List.getElem?_zipWith,
    List.getElem?_eq_getElem hk, List.getElem?_eq_getElem h2]
  simp

/-- "shell boundaries R_k lie midway between consecutive radii" -/
theorem between_inner (r : List K) (k : Nat) (hk : k + 1 < r.length) :
    Rab r k = (rad r k + rad r (k + 1)) / 2 := by
  rw [betweenOf_getD r k (by omega), halfIncrements_getD _ (by rw [incrementsOf_length]; omega) k
    (by rw [incrementsOf_length]; omega), incrementsOf_length, if_pos hk, incrementsOf_succ r k hk]
  ring

/-- "the last boundary extends half the last increment" -/
theorem between_last (r : List K) (k : Nat) (hk : k + 2 = r.length) :
    Rab r (k + 1) = rad r (k + 1) + (rad r (k + 1) - rad r k) / 2 := by
  rw [betweenOf_getD r (k + 1) (by omega), halfIncrements_getD _ (by rw [incrementsOf_length]; omega) (k + 1)
    (by rw [incrementsOf_length]; omega), incrementsOf_length, if_neg (by omega), incrementsOf_succ r k (by omega)]

/-- "a single radius r gives R = 2r" -/
theorem between_single (a : K) : betweenOf [a] = [2 * a] := by
  simp [betweenOf, incrementsOf, halfIncrements]; ring

theorem Rbe_zero (r : List K) : Rbe r 0 = 0 := rfl

theorem Rbe_succ (r : List K) (k : Nat) (hk : k + 1 < r.length) : Rbe r (k + 1) = Rab r k := by
  simp only [Rbe, Rab, List.getD_eq_getElem?_getD, List.getElem?_cons_succ, List.getElem?_dropLast, betweenOf_length]
  rw [if_pos (by omega)]


/-! ### interleaving `r_k < R_k < r_{k+1}` -/

theorem rad_lt_Rab {r : List K} (h : ValidRadii r) (k : Nat) (hk : k < r.length) : rad r k < Rab r k := by
  by_cases h1 : k + 1 < r.length
  · rw [between_inner r k h1]
    have := h.incr k h1
    linarith
  · cases k with
    | zero =>
      have hl : r.length = 1 := by omega
      rw [betweenOf_getD r 0 hk]
      have : halfIncrements (incrementsOf r) = incrementsOf r := by
        unfold halfIncrements; rw [if_neg (by rw [incrementsOf_length]; omega)]
      rw [this, incrementsOf_zero]
      have := h.pos
      linarith
    | succ k =>
      rw [between_last r k (by omega)]
      have := h.incr k hk
      linarith

theorem Rab_lt_rad_succ {r : List K} (h : ValidRadii r) (k : Nat) (hk : k + 1 < r.length) :
    Rab r k < rad r (k + 1) := by
  rw [between_inner r k hk]
  have := h.incr k hk
  linarith

theorem Rbe_lt_Rab {r : List K} (h : ValidRadii r) (k : Nat) (hk : k < r.length) : Rbe r k < Rab r k := by
  cases k with
  | zero => rw [Rbe_zero]; exact lt_trans h.pos (rad_lt_Rab h 0 hk)
  | succ k =>
    rw [Rbe_succ r k hk]
    exact lt_trans (Rab_lt_rad_succ h k hk) (rad_lt_Rab h (k + 1) hk)

theorem Rab_pos {r : List K} (h : ValidRadii r) (k : Nat) (hk : k < r.length) : 0 < Rab r k :=
  lt_trans (h.all_pos k hk) (rad_lt_Rab h k hk)

theorem Rbe_nonneg {r : List K} (h : ValidRadii r) (k : Nat) (hk : k < r.length) : 0 ≤ Rbe r k := by
  cases k with
  | zero => rw [Rbe_zero]
  | succ k => rw [Rbe_succ r k hk]; exact le_of_lt (Rab_pos h k (by omega))

theorem shell_factor_pos {r : List K} (h : ValidRadii r) (k : Nat) (hk : k < r.length) :
    0 < sq (Rab r k) / 2 - sq (Rbe r k) / 2 := by
  have h1 := Rbe_lt_Rab h k hk
  have h2 := Rbe_nonneg h k hk
  unfold sq
  nlinarith


/-! ### the boundaries as one sequence (for the telescoping volume sum) -/

/-- The boundaries as one sequence `0 = B_0 < B_1 < … < B_T` (`B_k` below shell `k`, `B_{k+1}` above it). -/
def bnd (r : List K) (k : Nat) : K := if k = 0 then 0 else Rab r (k - 1)

theorem bnd_below (r : List K) (k : Nat) (hk : k < r.length) : bnd r k = Rbe r k := by
  cases k with
  | zero => rfl
  | succ k => unfold bnd; rw [if_neg (by omega), Rbe_succ r k hk]; rfl

theorem bnd_above (r : List K) (k : Nat) : bnd r (k + 1) = Rab r k := by
  unfold bnd; rw [if_neg (by omega)]; rfl

/-! ### volumes -/

/-- The value `get_all_position_volumes` returns on a valid radial grid. -/
def volumesOf (r area : List K) : List K :=
  List.zipWith (· - ·) (tAndO (area.map (· / 3)) ((betweenOf r).map cube))
    (tAndO (area.map (· / 3)) (((0 : K) :: (betweenOf r).dropLast).map cube))

theorem volumes_ok {r : List K} (h : AcceptedRadii r) (area : List K) : volumes r area = .ok (volumesOf r area) := by
  unfold volumes volumesOf
  rw [getBetweenRadii_ok h]
  rfl

theorem tAndO_getElem? (o t : List K) (k i : Nat) (hi : i < o.length) :
    (tAndO o t)[k * o.length + i]? = (t[k]?).bind fun tv => (o[i]?).map fun ov => ov * tv :=
  getElem?_flatMap_map (fun tv ov => ov * tv) o t k i hi

theorem tAndO_length (o t : List K) : (tAndO o t).length = t.length * o.length :=
  length_flatMap_map (fun tv ov => ov * tv) o t

theorem volumesOf_length (r area : List K) (hr : 0 < r.length) :
    (volumesOf r area).length = r.length * area.length := by
  simp only [volumesOf, List.length_zipWith, tAndO_length, List.length_map, betweenOf_length, List.length_cons,
    List.length_dropLast]
  have : r.length - 1 + 1 = r.length := by omega
  rw [this]; simp

theorem volumesOf_getD (r area : List K) (k o : Nat) (hk : k < r.length) (ho : o < area.length) :
    (volumesOf r area).getD (k * area.length + o) 0
      = area.getD o 0 / 3 * cube (Rab r k) - area.getD o 0 / 3 * cube (Rbe r k) := by
  have hl : (area.map (· / 3)).length = area.length := by simp
  have ho' : o < (area.map (· / 3)).length := by rw [hl]; exact ho
  have e1 := tAndO_getElem? (area.map (· / 3)) ((betweenOf r).map cube) k o ho'
  have e2 := tAndO_getElem? (area.map (· / 3)) (((0 : K) :: (betweenOf r).dropLast).map cube) k o ho'
  rw [hl] at e1 e2
  have hk1 : k < (betweenOf r).length := by rw [betweenOf_length]; exact hk
  have hk2 : k < ((0 : K) :: (betweenOf r).dropLast).length := by
    simp [betweenOf_length]; omega
  simp only [volumesOf, Rab, Rbe, List.getD_eq_getElem?_getD, List.getElem?_zipWith, e1, e2, List.getElem?_map,
    List.getElem?_eq_getElem hk1, List.getElem?_eq_getElem hk2, List.getElem?_eq_getElem ho]
  simp


end radii

/-! ### assembly of `_get_N_N_position_array` -/

section assembly
variable {K : Type} [Field K] [LinearOrder K] [IsStrictOrderedRing K]

theorem pos_lt {n_o n_t k o : Nat} (hk : k < n_t) (ho : o < n_o) : k * n_o + o < n_o * n_t := by
  have := Nat.mul_le_mul_right n_o (show k + 1 ≤ n_t from hk)
  rw [Nat.succ_mul, Nat.mul_comm n_t n_o] at this; omega

/-- The matrix `_get_N_N_position_array` assembles from a filled diagonal `d`, the unit-sphere block and `multiply`. -/
def nnOf (d : List K) (n_o n_t : Nat) (neig : Nat → Nat → K) (mult : List K) : Coo K :=
  canon (n_o * n_t)
    (canon (n_o * n_t) (diagEntries d n_o false (n_o * n_t - n_o) ++ diagEntries d n_o true (n_o * n_t - n_o))
      ++ scaledBlocks n_o n_t neig (fun k => mult.getD k 0))

theorem dense_nnOf (d : List K) (n_o n_t : Nat) (neig : Nat → Nat → K) (mult : List K) (k k' o o' : Nat)
    (hk : k < n_t) (hk' : k' < n_t) (ho : o < n_o) (ho' : o' < n_o) :
    dense (nnOf d n_o n_t neig mult) (k * n_o + o) (k' * n_o + o')
      = (if k' = k + 1 ∧ o' = o then d.getD (k * n_o + o) 0 else 0)
        + (if k = k' + 1 ∧ o = o' then d.getD (k' * n_o + o') 0 else 0)
        + (if k = k' then neig o o' * mult.getD k 0 else 0) := by
  unfold nnOf
  have hp := pos_lt hk ho
  have hq := pos_lt hk' ho'
  rw [dense_canon, if_pos ⟨hp, hq⟩, dense_append, dense_canon, if_pos ⟨hp, hq⟩, dense_append,
    dense_diagEntries, dense_diagEntries, dense_scaledBlocks _ _ _ _ _ _ _ _ hk ho ho']
  simp only [Bool.false_eq_true, if_false, if_true]
  congr 1
  congr 1
  · by_cases h : k' = k + 1 ∧ o' = o
    · obtain ⟨rfl, rfl⟩ := h
      have h1 : (k + 1) * n_o + o' = k * n_o + o' + n_o := by rw [Nat.succ_mul]; omega
      have h2 : k * n_o + o' < n_o * n_t - n_o := by omega
      rw [if_pos ⟨h1, h2⟩, if_pos ⟨rfl, rfl⟩]
    · rw [if_neg h, if_neg]
      rintro ⟨h1, _⟩
      have h3 : k' * n_o + o' = (k + 1) * n_o + o := by rw [Nat.succ_mul]; omega
      exact h (decomp_unique ho' ho h3)
  · by_cases h : k = k' + 1 ∧ o = o'
    · obtain ⟨rfl, rfl⟩ := h
      have h1 : (k' + 1) * n_o + o = k' * n_o + o + n_o := by rw [Nat.succ_mul]; omega
      have h2 : k' * n_o + o < n_o * n_t - n_o := by omega
      rw [if_pos ⟨h1, h2⟩, if_pos ⟨rfl, rfl⟩]
    · rw [if_neg h, if_neg]
      rintro ⟨h1, _⟩
      have h3 : k * n_o + o = (k' + 1) * n_o + o' := by rw [Nat.succ_mul]; omega
      exact h (decomp_unique ho ho' h3)

/-- What a canonical matrix stores: exactly the non-zero values. -/
theorem mem_canon (n : Nat) (M : Coo K) (p q : Nat) (v : K) :
    (p, q, v) ∈ canon n M ↔ p < n ∧ q < n ∧ v = dense (canon n M) p q ∧ v ≠ 0 := by
  rw [dense_canon, canon_eq, mem_cooOfDense]
  constructor
  · rintro ⟨hp, hq, hv, h0⟩
    exact ⟨hp, hq, by rw [if_pos ⟨hp, hq⟩]; exact hv, h0⟩
  · rintro ⟨hp, hq, hv, h0⟩
    rw [if_pos ⟨hp, hq⟩] at hv
    exact ⟨hp, hq, hv, h0⟩

theorem mem_nnOf (d : List K) (n_o n_t : Nat) (neig : Nat → Nat → K) (mult : List K) (p q : Nat) (v : K) :
    (p, q, v) ∈ nnOf d n_o n_t neig mult ↔
      p < n_o * n_t ∧ q < n_o * n_t ∧ v = dense (nnOf d n_o n_t neig mult) p q ∧ v ≠ 0 :=
  mem_canon _ _ p q v

/-! ### the three selections -/

/-- `my_diags` before `diags` cuts / broadcasts it. -/
def rawDiag (sel : Sel) (n_o : Nat) (r area : List K) : List K :=
  match sel with
  | .adjacency => [1]
  | .borderLen => (betweenOf r).dropLast.flatMap fun radius => area.map fun a => a * sq radius
  | .centerDistances =>
      tAndO (List.replicate n_o 1)
        (if (incrementsOf r).tail.length > 0 then (incrementsOf r).tail ++ (incrementsOf r).tail.getLast?.toList
         else (incrementsOf r).tail)

theorem myDiags_ok {r : List K} (h : AcceptedRadii r) (sel : Sel) (n_o : Nat) (area : List K) :
    myDiags sel n_o r area (betweenOf r) = .ok (rawDiag sel n_o r area) := by
  cases sel with
  | adjacency => rfl
  | borderLen => rfl
  | centerDistances =>
    unfold myDiags rawDiag
    simp only
    rw [getIncrements_ok h]
    rfl

/-- The diagonal as `diags` fills it (length `n_o*n_t - n_o`). -/
def filledDiag (sel : Sel) (n_o : Nat) (r area : List K) : List K :=
  match sel with
  | .adjacency => List.replicate (n_o * r.length - n_o) 1
  | _ => (rawDiag sel n_o r area).take (n_o * r.length - n_o)

theorem rawDiag_border_length (n_o : Nat) (r area : List K) (harea : area.length = n_o) :
    (rawDiag .borderLen n_o r area).length = n_o * r.length - n_o := by
  unfold rawDiag
  simp only
  rw [length_flatMap_map (fun radius a => a * sq radius) area (betweenOf r).dropLast, List.length_dropLast,
    betweenOf_length, harea, Nat.mul_comm, Nat.mul_sub_one]

theorem rawDiag_dist_length (n_o : Nat) (r : List K) (area : List K) :
    n_o * r.length - n_o ≤ (rawDiag .centerDistances n_o r area).length := by
  unfold rawDiag
  simp only
  rw [tAndO_length, List.length_replicate]
  have hl : (incrementsOf r).tail.length = r.length - 1 := by simp [incrementsOf_length]
  by_cases h : (incrementsOf r).tail.length > 0
  · rw [if_pos h]
    have : ((incrementsOf r).tail ++ (incrementsOf r).tail.getLast?.toList).length ≥ r.length - 1 := by
      rw [List.length_append, hl]; omega
    calc n_o * r.length - n_o = (r.length - 1) * n_o := by rw [Nat.sub_one_mul, Nat.mul_comm]
      _ ≤ _ := Nat.mul_le_mul_right n_o this
  · rw [if_neg h, hl]
    rw [hl] at h
    have : r.length - 1 = 0 := by omega
    rw [this]
    have : r.length ≤ 1 := by omega
    have h2 : n_o * r.length ≤ n_o := by
      calc n_o * r.length ≤ n_o * 1 := Nat.mul_le_mul_left n_o this
        _ = n_o := Nat.mul_one _
    omega

/-- The model's own matrix on a valid radial grid. -/
def nnOfSel (sel : Sel) (n_o : Nat) (r area : List K) (neig : Nat → Nat → K) : Coo K :=
  nnOf (filledDiag sel n_o r area) n_o r.length neig (multiplyOf sel r (betweenOf r))

theorem nnPosition_ok {r : List K} (h : AcceptedRadii r) (sel : Sel) (n_o : Nat) (area : List K) (neig : Nat → Nat → K)
    (harea : area.length = n_o) :
    nnPosition sel n_o r area neig = .ok (nnOfSel sel n_o r area neig) := by
  unfold nnPosition
  rw [getBetweenRadii_ok h]
  simp only [bind, Except.bind]
  rw [myDiags_ok h]
  simp only
  have hoff : n_o ≤ n_o * r.length := Nat.le_mul_of_pos_right _ h.nonempty
  have hd : ∀ lower, diagsCoo (rawDiag sel n_o r area) n_o lower (n_o * r.length)
      = .ok (diagEntries (filledDiag sel n_o r area) n_o lower (n_o * r.length - n_o)) := by
    intro lower
    cases sel with
    | adjacency => exact diagsCoo_broadcast 1 n_o _ lower hoff
    | borderLen => exact diagsCoo_cut _ n_o _ lower hoff (le_of_eq (rawDiag_border_length n_o r area harea).symm)
    | centerDistances => exact diagsCoo_cut _ n_o _ lower hoff (rawDiag_dist_length n_o r area)
  rw [hd false, hd true]
  simp only [pure, Except.pure]
  unfold nnOfSel nnOf
  rw [sameRadius_eq _ _ _ _ h.nonempty]


/-- Value of the radial-neighbour diagonal at cell (shell `k`, direction `o`): what is shared with / the distance to
the cell radially above. -/
def diagVal (sel : Sel) (r area : List K) (k o : Nat) : K :=
  match sel with
  | .adjacency => 1
  | .borderLen => area.getD o 0 * sq (Rab r k)
  | .centerDistances => rad r (k + 1) - rad r k

/-- The factor of the unit-sphere block in shell `k`. -/
def multVal (sel : Sel) (r : List K) (k : Nat) : K :=
  match sel with
  | .adjacency => 1
  | .borderLen => sq (Rab r k) / 2 - sq (Rbe r k) / 2
  | .centerDistances => rad r k

theorem filledDiag_getD (sel : Sel) (n_o : Nat) (r area : List K) (harea : area.length = n_o) (k o : Nat)
    (hk : k + 1 < r.length) (ho : o < n_o) :
    (filledDiag sel n_o r area).getD (k * n_o + o) 0 = diagVal sel r area k o := by
  have hp : k * n_o + o < n_o * r.length - n_o := by
    have := pos_lt (n_t := r.length - 1) (show k < r.length - 1 by omega) ho
    rwa [Nat.mul_sub_one] at this
  cases sel with
  | adjacency =>
    simp only [filledDiag, diagVal, List.getD_eq_getElem?_getD, List.getElem?_replicate, hp, if_true, Option.getD_some]
  | borderLen =>
    subst harea
    simp only [filledDiag, diagVal, rawDiag, List.getD_eq_getElem?_getD, List.getElem?_take, hp, if_true]
    rw [getElem?_flatMap_map (fun radius a => a * sq radius) area (betweenOf r).dropLast k o ho,
      List.getElem?_dropLast, betweenOf_length, if_pos (by omega),
      List.getElem?_eq_getElem (show k < (betweenOf r).length by rw [betweenOf_length]; omega),
      List.getElem?_eq_getElem ho]
    simp
  | centerDistances =>
    simp only [filledDiag, diagVal, rawDiag, List.getD_eq_getElem?_getD, List.getElem?_take, hp, if_true]
    have hl : (incrementsOf r).tail.length = r.length - 1 := by simp [incrementsOf_length]
    have hrep : (List.replicate n_o (1 : K)).length = n_o := List.length_replicate
    have e := tAndO_getElem? (List.replicate n_o (1 : K))
      (if (incrementsOf r).tail.length > 0 then (incrementsOf r).tail ++ (incrementsOf r).tail.getLast?.toList
       else (incrementsOf r).tail) k o (by rw [hrep]; exact ho)
    rw [hrep] at e
    rw [e, if_pos (by rw [hl]; omega), List.getElem?_append_left (by rw [hl]; omega), List.getElem?_tail,
      List.getElem?_replicate, if_pos ho]
    have := incrementsOf_succ r k hk
    rw [List.getD_eq_getElem?_getD] at this
    have hk2 : k + 1 < (incrementsOf r).length := by rw [incrementsOf_length]; exact hk
    rw [List.getElem?_eq_getElem hk2] at this ⊢
    simp only [Option.getD_some] at this
    simp [this, rad]

theorem multiplyOf_getD (sel : Sel) (r : List K) (k : Nat) (hk : k < r.length) :
    (multiplyOf sel r (betweenOf r)).getD k 0 = multVal sel r k := by
  cases sel with
  | adjacency =>
    simp only [multiplyOf, multVal, List.getD_eq_getElem?_getD, List.getElem?_replicate, hk, if_true, Option.getD_some]
  | borderLen =>
    have h1 : k < (betweenOf r).length := by rw [betweenOf_length]; exact hk
    have h2 : k < ((0 : K) :: (betweenOf r).dropLast).length := by simp [betweenOf_length]; omega
    simp only [multiplyOf, multVal, Rab, Rbe, List.getD_eq_getElem?_getD, List.getElem?_zipWith,
      List.getElem?_eq_getElem h1, List.getElem?_eq_getElem h2]
    simp
  | centerDistances => rfl

theorem multiplyOf_length (sel : Sel) (r : List K) : (multiplyOf sel r (betweenOf r)).length = r.length := by
  cases sel with
  | adjacency => simp [multiplyOf]
  | borderLen =>
    simp only [multiplyOf, List.length_zipWith, betweenOf_length, List.length_cons, List.length_dropLast]
    omega
  | centerDistances => rfl

/-- **Every entry** of the matrix on a valid radial grid, cells written as `p = k*n_o + o`. -/
theorem dense_nnOfSel (sel : Sel) (n_o : Nat) (r area : List K) (neig : Nat → Nat → K) (harea : area.length = n_o)
    (k k' o o' : Nat) (hk : k < r.length) (hk' : k' < r.length) (ho : o < n_o) (ho' : o' < n_o) :
    dense (nnOfSel sel n_o r area neig) (k * n_o + o) (k' * n_o + o')
      = if k' = k + 1 ∧ o' = o then diagVal sel r area k o
        else if k = k' + 1 ∧ o = o' then diagVal sel r area k' o'
        else if k = k' then neig o o' * multVal sel r k
        else 0 := by
  unfold nnOfSel
  rw [dense_nnOf _ _ _ _ _ k k' o o' hk hk' ho ho', multiplyOf_getD sel r k hk]
  by_cases h1 : k' = k + 1 ∧ o' = o
  · obtain ⟨rfl, rfl⟩ := h1
    rw [filledDiag_getD sel n_o r area harea k o' hk' ho]
    have h2 : ¬ (k = k + 1 + 1) := by omega
    have h3 : ¬ (k = k + 1) := by omega
    simp [h2]
  · by_cases h2 : k = k' + 1 ∧ o = o'
    · obtain ⟨rfl, rfl⟩ := h2
      rw [filledDiag_getD sel n_o r area harea k' o hk ho]
      have h3 : ¬ (k' + 1 = k') := by omega
      have h4 : ¬ (k' = k' + 1 + 1) := by omega
      simp [h4]
    · simp [h1, h2]

end assembly

end Molgri.PositionGrid
