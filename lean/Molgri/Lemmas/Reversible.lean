/-
Matrix-level lemmas for C14: reversible generators (detailed balance + zero row sums) on the index set `{0,…,n-1}`.
Matrices are functions `Nat → Nat → K`, vectors `Nat → K`; only indices `< n` matter.
Property theorems are in `Molgri/Props/C14.lean`.
-/
import Mathlib.Algebra.BigOperators.Group.Finset.Basic
import Mathlib.Algebra.BigOperators.Ring.Finset
import Mathlib.Algebra.Order.BigOperators.Group.Finset
import Mathlib.Algebra.Order.Field.Basic
import Mathlib.Logic.Relation
import Mathlib.Tactic.Ring
import Mathlib.Tactic.Linarith
import Mathlib.Tactic.FieldSimp

namespace Molgri.Reversible
open Finset

section field
variable {K : Type} [Field K]

/-- detailed balance of `Q` with respect to `π` on `{0,…,n-1}` -/
def DB (n : Nat) (π : Nat → K) (Q : Nat → Nat → K) : Prop :=
  ∀ i < n, ∀ j < n, π i * Q i j = π j * Q j i

/-- every row of `Q` sums to zero -/
def RowSumZero (n : Nat) (Q : Nat → Nat → K) : Prop :=
  ∀ i < n, ∑ j ∈ range n, Q i j = 0

/-- `(Q f)_i` -/
def apply (n : Nat) (Q : Nat → Nat → K) (f : Nat → K) (i : Nat) : K := ∑ j ∈ range n, Q i j * f j

/-- `(x Q)_j`, i.e. `(Qᵀ x)_j` -/
def applyLeft (n : Nat) (Q : Nat → Nat → K) (x : Nat → K) (j : Nat) : K := ∑ i ∈ range n, x i * Q i j

/-- `π`-weighted inner product -/
def inner (n : Nat) (π f g : Nat → K) : K := ∑ i ∈ range n, π i * f i * g i

theorem stationary_of_db {n : Nat} {π : Nat → K} {Q : Nat → Nat → K} (hdb : DB n π Q) (hrs : RowSumZero n Q) :
    ∀ j < n, applyLeft n Q π j = 0 := by
  intro j hj
  unfold applyLeft
  calc ∑ i ∈ range n, π i * Q i j
      = ∑ i ∈ range n, π j * Q j i := sum_congr rfl (fun i hi => hdb i (mem_range.mp hi) j hj)
    _ = π j * ∑ i ∈ range n, Q j i := by rw [mul_sum]
    _ = 0 := by rw [hrs j hj, mul_zero]

/-- the constant vector is a right null vector -/
theorem apply_const {n : Nat} {Q : Nat → Nat → K} (hrs : RowSumZero n Q) (c : K) :
    ∀ i < n, apply n Q (fun _ => c) i = 0 := by
  intro i hi
  unfold apply
  rw [← sum_mul, hrs i hi, zero_mul]

/-- `Q` is self-adjoint for the `π`-weighted inner product -/
theorem selfadjoint_of_db {n : Nat} {π : Nat → K} {Q : Nat → Nat → K} (hdb : DB n π Q) (f g : Nat → K) :
    inner n π f (apply n Q g) = inner n π (apply n Q f) g := by
  unfold inner apply
  have h1 : ∑ i ∈ range n, π i * f i * ∑ j ∈ range n, Q i j * g j
      = ∑ i ∈ range n, ∑ j ∈ range n, π i * Q i j * (f i * g j) := by
    refine sum_congr rfl (fun i _ => ?_)
    rw [mul_sum]
    exact sum_congr rfl (fun j _ => by ring)
  have h2 : ∑ i ∈ range n, π i * (∑ j ∈ range n, Q i j * f j) * g i
      = ∑ i ∈ range n, ∑ j ∈ range n, π i * Q i j * (f j * g i) := by
    refine sum_congr rfl (fun i _ => ?_)
    rw [mul_sum, sum_mul]
    exact sum_congr rfl (fun j _ => by ring)
  rw [h1, h2, sum_comm]
  refine sum_congr rfl (fun j hj => sum_congr rfl (fun i hi => ?_))
  rw [hdb i (mem_range.mp hi) j (mem_range.mp hj)]

/-- the Dirichlet form: `2·⟨f, Q f⟩_π = − Σ_i Σ_j π_i Q_ij (f_i − f_j)²` -/
theorem dirichlet_form {n : Nat} {π : Nat → K} {Q : Nat → Nat → K} (hdb : DB n π Q) (hrs : RowSumZero n Q)
    (f : Nat → K) :
    2 * inner n π f (apply n Q f) = - ∑ i ∈ range n, ∑ j ∈ range n, π i * Q i j * (f i - f j) ^ 2 := by
  have e : ∀ i j, π i * Q i j * (f i - f j) ^ 2
      = π i * f i ^ 2 * Q i j - 2 * (π i * f i * (Q i j * f j)) + π i * Q i j * f j ^ 2 := by
    intro i j; ring
  simp only [e, sum_add_distrib, sum_sub_distrib]
  have t1 : ∑ i ∈ range n, ∑ j ∈ range n, π i * f i ^ 2 * Q i j = 0 := by
    apply sum_eq_zero
    intro i hi
    rw [← mul_sum, hrs i (mem_range.mp hi), mul_zero]
  have t3 : ∑ i ∈ range n, ∑ j ∈ range n, π i * Q i j * f j ^ 2 = 0 := by
    rw [sum_comm]
    apply sum_eq_zero
    intro j hj
    have : ∑ i ∈ range n, π i * Q i j * f j ^ 2 = ∑ i ∈ range n, π j * f j ^ 2 * Q j i := by
      refine sum_congr rfl (fun i hi => ?_)
      rw [hdb i (mem_range.mp hi) j (mem_range.mp hj)]; ring
    rw [this, ← mul_sum, hrs j (mem_range.mp hj), mul_zero]
  have t2 : ∑ i ∈ range n, ∑ j ∈ range n, 2 * (π i * f i * (Q i j * f j)) = 2 * inner n π f (apply n Q f) := by
    unfold inner apply
    rw [mul_sum]
    refine sum_congr rfl (fun i _ => ?_)
    rw [← mul_sum, ← mul_sum]
  rw [t1, t3, t2]
  ring

end field

section ordered
variable {F : Type} [Field F] [LinearOrder F] [IsStrictOrderedRing F]

theorem inner_self_nonneg {n : Nat} {π : Nat → F} (hπ : ∀ i < n, 0 < π i) (f : Nat → F) : 0 ≤ inner n π f f := by
  unfold inner
  apply sum_nonneg
  intro i hi
  have := hπ i (mem_range.mp hi)
  rw [mul_assoc]
  exact mul_nonneg this.le (mul_self_nonneg _)

theorem inner_self_pos {n : Nat} {π : Nat → F} (hπ : ∀ i < n, 0 < π i) (f : Nat → F) (hf : ∃ i < n, f i ≠ 0) :
    0 < inner n π f f := by
  obtain ⟨k, hk, hfk⟩ := hf
  unfold inner
  apply sum_pos'
  · intro i hi
    have := hπ i (mem_range.mp hi)
    rw [mul_assoc]
    exact mul_nonneg this.le (mul_self_nonneg _)
  · refine ⟨k, mem_range.mpr hk, ?_⟩
    rw [mul_assoc]
    exact mul_pos (hπ k hk) (mul_self_pos.mpr hfk)

/-- every term of the Dirichlet sum is non-negative when `π > 0` and the off-diagonal of `Q` is non-negative -/
theorem dirichlet_term_nonneg {n : Nat} {π : Nat → F} {Q : Nat → Nat → F} (hπ : ∀ i < n, 0 < π i)
    (hQ : ∀ i < n, ∀ j < n, i ≠ j → 0 ≤ Q i j) (f : Nat → F) {i j : Nat} (hi : i < n) (hj : j < n) :
    0 ≤ π i * Q i j * (f i - f j) ^ 2 := by
  by_cases h : i = j
  · subst h; simp
  · exact mul_nonneg (mul_nonneg (hπ i hi).le (hQ i hi j hj h)) (sq_nonneg _)

/-- a real eigenvalue of a reversible generator is not positive -/
theorem eigenvalue_nonpos {n : Nat} {π : Nat → F} {Q : Nat → Nat → F} (hdb : DB n π Q) (hrs : RowSumZero n Q)
    (hπ : ∀ i < n, 0 < π i) (hQ : ∀ i < n, ∀ j < n, i ≠ j → 0 ≤ Q i j)
    (f : Nat → F) (lam : F) (heig : ∀ i < n, apply n Q f i = lam * f i) (hf : ∃ i < n, f i ≠ 0) :
    lam ≤ 0 := by
  have hd := dirichlet_form hdb hrs f
  have hS := inner_self_pos hπ f hf
  have hl : inner n π f (apply n Q f) = lam * inner n π f f := by
    unfold inner
    rw [mul_sum]
    refine sum_congr rfl (fun i hi => ?_)
    rw [heig i (mem_range.mp hi)]; ring
  have hnn : 0 ≤ ∑ i ∈ range n, ∑ j ∈ range n, π i * Q i j * (f i - f j) ^ 2 :=
    sum_nonneg (fun i hi => sum_nonneg (fun j hj =>
      dirichlet_term_nonneg hπ hQ f (mem_range.mp hi) (mem_range.mp hj)))
  rw [hl] at hd
  by_contra hc
  rw [not_le] at hc
  have : 0 < 2 * (lam * inner n π f f) := by positivity
  linarith

/-- a complex eigenvalue `a + i b` (eigenvector `u + i v`) of a reversible matrix is real: `b = 0` -/
theorem eigenvalue_real {n : Nat} {π : Nat → F} {Q : Nat → Nat → F} (hdb : DB n π Q)
    (hπ : ∀ i < n, 0 < π i) (u v : Nat → F) (a b : F)
    (hu : ∀ i < n, apply n Q u i = a * u i - b * v i)
    (hv : ∀ i < n, apply n Q v i = b * u i + a * v i)
    (hne : (∃ i < n, u i ≠ 0) ∨ (∃ i < n, v i ≠ 0)) :
    b = 0 := by
  have hs := selfadjoint_of_db hdb u v
  have h1 : inner n π u (apply n Q v) = b * inner n π u u + a * inner n π u v := by
    unfold inner
    rw [mul_sum, mul_sum, ← sum_add_distrib]
    refine sum_congr rfl (fun i hi => ?_)
    rw [hv i (mem_range.mp hi)]; ring
  have h2 : inner n π (apply n Q u) v = a * inner n π u v - b * inner n π v v := by
    unfold inner
    rw [mul_sum, mul_sum, ← sum_sub_distrib]
    refine sum_congr rfl (fun i hi => ?_)
    rw [hu i (mem_range.mp hi)]; ring
  rw [h1, h2] at hs
  have hb : b * (inner n π u u + inner n π v v) = 0 := by linarith
  have hpos : 0 < inner n π u u + inner n π v v := by
    rcases hne with h | h
    · have := inner_self_pos hπ u h
      have := inner_self_nonneg hπ v
      linarith
    · have := inner_self_pos hπ v h
      have := inner_self_nonneg hπ u
      linarith
  rcases mul_eq_zero.mp hb with h | h
  · exact h
  · exact absurd h hpos.ne'

/-- a right null vector of a reversible generator is constant along every edge `Q i j > 0` -/
theorem null_const_on_edges {n : Nat} {π : Nat → F} {Q : Nat → Nat → F} (hdb : DB n π Q) (hrs : RowSumZero n Q)
    (hπ : ∀ i < n, 0 < π i) (hQ : ∀ i < n, ∀ j < n, i ≠ j → 0 ≤ Q i j)
    (f : Nat → F) (hnull : ∀ i < n, apply n Q f i = 0) {i j : Nat} (hi : i < n) (hj : j < n) (hij : 0 < Q i j) :
    f i = f j := by
  have hd := dirichlet_form hdb hrs f
  have h0 : inner n π f (apply n Q f) = 0 := by
    unfold inner
    apply sum_eq_zero
    intro k hk
    rw [hnull k (mem_range.mp hk), mul_zero]
  rw [h0, mul_zero] at hd
  have hsum : ∑ i ∈ range n, ∑ j ∈ range n, π i * Q i j * (f i - f j) ^ 2 = 0 := by linarith
  have hrow := (sum_eq_zero_iff_of_nonneg (fun i hi => sum_nonneg (fun j hj =>
      dirichlet_term_nonneg hπ hQ f (mem_range.mp hi) (mem_range.mp hj)))).mp hsum i (mem_range.mpr hi)
  have hterm := (sum_eq_zero_iff_of_nonneg (fun j hj =>
      dirichlet_term_nonneg hπ hQ f hi (mem_range.mp hj))).mp hrow j (mem_range.mpr hj)
  have hpq : π i * Q i j ≠ 0 := (mul_pos (hπ i hi) hij).ne'
  have hsq : (f i - f j) ^ 2 = 0 := by
    rcases mul_eq_zero.mp hterm with h | h
    · exact absurd h hpq
    · exact h
  have := pow_eq_zero_iff (two_ne_zero) |>.mp hsq
  linarith

/-- edge relation of the graph of `Q` on `{0,…,n-1}` -/
def Edge (n : Nat) (Q : Nat → Nat → F) (a b : Nat) : Prop := a < n ∧ b < n ∧ 0 < Q a b

/-- the graph of `Q` is connected -/
def Connected (n : Nat) (Q : Nat → Nat → F) : Prop := ∀ i < n, ∀ j < n, Relation.ReflTransGen (Edge n Q) i j

/-- **simple zero eigenvalue**: for a connected reversible generator every left null vector is a multiple of `π` -/
theorem left_null_proportional {n : Nat} {π : Nat → F} {Q : Nat → Nat → F} (hdb : DB n π Q) (hrs : RowSumZero n Q)
    (hπ : ∀ i < n, 0 < π i) (hQ : ∀ i < n, ∀ j < n, i ≠ j → 0 ≤ Q i j) (hconn : Connected n Q)
    (x : Nat → F) (hx : ∀ j < n, applyLeft n Q x j = 0) :
    ∀ i < n, ∀ j < n, x i * π j = x j * π i := by
  -- f = x / π is a right null vector
  set f : Nat → F := fun i => x i / π i with hf
  have hnull : ∀ i < n, apply n Q f i = 0 := by
    intro i hi
    have hpi := (hπ i hi).ne'
    have : apply n Q f i = (1 / π i) * applyLeft n Q x i := by
      unfold apply applyLeft
      rw [mul_sum]
      refine sum_congr rfl (fun j hj => ?_)
      have hpj := (hπ j (mem_range.mp hj)).ne'
      have hd := hdb i hi j (mem_range.mp hj)
      -- Q i j = π j * Q j i / π i
      have : Q i j = π j * Q j i / π i := by field_simp; linarith
      rw [this, hf]; field_simp
    rw [this, hx i hi, mul_zero]
  have hedge : ∀ a b, Edge n Q a b → f a = f b := fun a b h =>
    null_const_on_edges hdb hrs hπ hQ f hnull h.1 h.2.1 h.2.2
  intro i hi j hj
  have hwalk : ∀ k, Relation.ReflTransGen (Edge n Q) i k → f i = f k := by
    intro k hk
    induction hk with
    | refl => rfl
    | tail _ hbc ih => exact ih.trans (hedge _ _ hbc)
  have hpath : f i = f j := hwalk j (hconn i hi j hj)
  have hpi := (hπ i hi).ne'
  have hpj := (hπ j hj).ne'
  simp only [hf] at hpath
  field_simp at hpath
  linarith


/-- left action through the right action of `x / π`: `(x Q)_j = π_j · (Q (x/π))_j` -/
theorem applyLeft_eq_apply {n : Nat} {π : Nat → F} {Q : Nat → Nat → F} (hdb : DB n π Q) (hπ : ∀ i < n, 0 < π i)
    (x : Nat → F) {j : Nat} (hj : j < n) :
    applyLeft n Q x j = π j * apply n Q (fun i => x i / π i) j := by
  unfold applyLeft apply
  rw [mul_sum]
  refine sum_congr rfl (fun i hi => ?_)
  have hpi := (hπ i (mem_range.mp hi)).ne'
  have hd := hdb i (mem_range.mp hi) j hj
  calc x i * Q i j = (x i / π i) * (π i * Q i j) := by field_simp
    _ = (x i / π i) * (π j * Q j i) := by rw [hd]
    _ = π j * (Q j i * (x i / π i)) := by ring

/-- a complex *left* eigenvalue of a reversible matrix is real -/
theorem left_eigenvalue_real {n : Nat} {π : Nat → F} {Q : Nat → Nat → F} (hdb : DB n π Q)
    (hπ : ∀ i < n, 0 < π i) (u w : Nat → F) (a b : F)
    (hu : ∀ j < n, applyLeft n Q u j = a * u j - b * w j)
    (hw : ∀ j < n, applyLeft n Q w j = b * u j + a * w j)
    (hne : (∃ i < n, u i ≠ 0) ∨ (∃ i < n, w i ≠ 0)) :
    b = 0 := by
  refine eigenvalue_real hdb hπ (fun i => u i / π i) (fun i => w i / π i) a b ?_ ?_ ?_
  · intro j hj
    have hp := (hπ j hj).ne'
    have h := applyLeft_eq_apply hdb hπ u hj
    rw [hu j hj] at h
    have : apply n Q (fun i => u i / π i) j = (a * u j - b * w j) / π j := by
      rw [h]; field_simp
    rw [this]; field_simp
  · intro j hj
    have hp := (hπ j hj).ne'
    have h := applyLeft_eq_apply hdb hπ w hj
    rw [hw j hj] at h
    have : apply n Q (fun i => w i / π i) j = (b * u j + a * w j) / π j := by
      rw [h]; field_simp
    rw [this]; field_simp
  · rcases hne with ⟨i, hi, h⟩ | ⟨i, hi, h⟩
    · exact Or.inl ⟨i, hi, div_ne_zero h (hπ i hi).ne'⟩
    · exact Or.inr ⟨i, hi, div_ne_zero h (hπ i hi).ne'⟩

/-- a real *left* eigenvalue of a reversible generator is not positive -/
theorem left_eigenvalue_nonpos {n : Nat} {π : Nat → F} {Q : Nat → Nat → F} (hdb : DB n π Q) (hrs : RowSumZero n Q)
    (hπ : ∀ i < n, 0 < π i) (hQ : ∀ i < n, ∀ j < n, i ≠ j → 0 ≤ Q i j)
    (x : Nat → F) (lam : F) (heig : ∀ j < n, applyLeft n Q x j = lam * x j) (hx : ∃ i < n, x i ≠ 0) :
    lam ≤ 0 := by
  refine eigenvalue_nonpos hdb hrs hπ hQ (fun i => x i / π i) lam ?_ ?_
  · intro j hj
    have hp := (hπ j hj).ne'
    have h := applyLeft_eq_apply hdb hπ x hj
    rw [heig j hj] at h
    have : apply n Q (fun i => x i / π i) j = (lam * x j) / π j := by
      rw [h]; field_simp
    rw [this]; field_simp
  · obtain ⟨i, hi, h⟩ := hx
    exact ⟨i, hi, div_ne_zero h (hπ i hi).ne'⟩

end ordered

end Molgri.Reversible
