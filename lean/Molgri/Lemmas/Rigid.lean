/-
Specification vocabulary and helper lemmas for C10 (rigid placement).  Property theorems are in `Molgri/Props/C10.lean`.
-/
import Molgri.Model.Rigid
import Mathlib.Tactic.Ring
import Mathlib.Tactic.FieldSimp
import Mathlib.Tactic.Linarith
import Mathlib.Algebra.Order.Field.Basic

namespace Molgri.Rigid

/-! ### specification vocabulary (not part of the model of the code) -/
section spec
variable {K : Type} [Add K] [Sub K] [Mul K] [Div K] [Neg K] [Zero K]

/-- `M · v` for a column vector. -/
def Mat3.mulVec (M : Mat3 K) (v : V3 K) : V3 K := ⟨M.r0.dot v, M.r1.dot v, M.r2.dot v⟩

def V3.smul (s : K) (v : V3 K) : V3 K := ⟨s * v.x, s * v.y, s * v.z⟩

def Mat3.det (M : Mat3 K) : K :=
  M.r0.x * (M.r1.y * M.r2.z - M.r1.z * M.r2.y) - M.r0.y * (M.r1.x * M.r2.z - M.r1.z * M.r2.x)
    + M.r0.z * (M.r1.x * M.r2.y - M.r1.y * M.r2.x)

/-- Hamilton product, components `(x, y, z, w)` with the scalar last. -/
def Quat.mul (a b : Quat K) : Quat K :=
  ⟨a.w * b.x + a.x * b.w + a.y * b.z - a.z * b.y,
   a.w * b.y - a.x * b.z + a.y * b.w + a.z * b.x,
   a.w * b.z + a.x * b.y - a.y * b.x + a.z * b.w,
   a.w * b.w - a.x * b.x - a.y * b.y - a.z * b.z⟩

def Quat.conj (q : Quat K) : Quat K := ⟨-q.x, -q.y, -q.z, q.w⟩
def Quat.ofVec (v : V3 K) : Quat K := ⟨v.x, v.y, v.z, 0⟩
def Quat.smul (s : K) (q : Quat K) : Quat K := ⟨s * q.x, s * q.y, s * q.z, s * q.w⟩

/-- The prescribed position of one atom: rotate about `c` by the rotation of the row's quaternion, then shift by the
row's position:  `R(q)·(x − c) + c + t`. -/
def placeAtom (c : V3 K) (r : Row K) (a : Atom K) : Atom K :=
  a.setPos ((((rotMat r.q).mulVec (a.pos.sub c)).add c).add r.t)

/-- The rigid placement of a molecule prescribed by one grid row (rotation about ITS centre of mass). -/
def place (start : List (Atom K)) (r : Row K) : List (Atom K) :=
  start.map (placeAtom (com start) r)

end spec

variable {K : Type} [Field K]

omit [Field K] in
theorem V3.ext' {a b : V3 K} (hx : a.x = b.x) (hy : a.y = b.y) (hz : a.z = b.z) : a = b := by
  cases a; cases b; simp_all

/-! ### row-vector times transposed matrix is matrix times column vector -/

theorem vecMul_transpose (v : V3 K) (M : Mat3 K) : vecMul v M.transpose = M.mulVec v := by
  apply V3.ext' <;> simp only [vecMul, Mat3.transpose, Mat3.mulVec, V3.dot] <;> ring

/-! ### the three MDAnalysis steps collapse to the placement formula -/

theorem translate_translate (s t : V3 K) (as : List (Atom K)) :
    translate t (translate s as) = as.map fun a => a.setPos ((a.pos.add s).add t) := by
  simp [translate, List.map_map, Function.comp_def, Atom.setPos]

theorem rotate_translate_eq (R : Mat3 K) (c t : V3 K) (as : List (Atom K)) :
    translate t (rotate R c as) = as.map fun a => a.setPos (((R.mulVec (a.pos.sub c)).add c).add t) := by
  simp only [rotate, translate, List.map_map]
  apply List.map_congr_left
  intro a _
  simp only [Function.comp_def, Atom.setPos, vecMul_transpose]
  congr 2
  congr 1
  apply V3.ext' <;> simp only [V3.add, V3.sub, V3.neg, Mat3.mulVec, V3.dot] <;> ring

/-! ### sums -/

theorem totalMass_cons (a : Atom K) (as : List (Atom K)) : totalMass (a :: as) = a.mass + totalMass as := by
  simp [totalMass]

theorem totalMass_map_setPos (f : Atom K → V3 K) (as : List (Atom K)) :
    totalMass (as.map fun a => a.setPos (f a)) = totalMass as := by
  simp [totalMass, List.map_map, Function.comp_def, Atom.setPos]

/-- mass moment of an affinely transformed molecule: `Σ m (A x + b) = A (Σ m x) + (Σ m) b`. -/
theorem massMoment_affine (A : Mat3 K) (b : V3 K) (as : List (Atom K)) :
    massMoment (as.map fun a => a.setPos ((A.mulVec a.pos).add b))
      = (A.mulVec (massMoment as)).add (V3.smul (totalMass as) b) := by
  induction as with
  | nil => apply V3.ext' <;> simp [massMoment, totalMass, Mat3.mulVec, V3.dot, V3.add, V3.smul]
  | cons a as ih =>
    have hx := congrArg V3.x ih
    have hy := congrArg V3.y ih
    have hz := congrArg V3.z ih
    simp only [massMoment, Mat3.mulVec, V3.dot, V3.add, V3.smul, Atom.setPos, List.map_map, Function.comp_def] at hx hy hz
    apply V3.ext'
    · simp only [massMoment, totalMass, Mat3.mulVec, V3.dot, V3.add, V3.smul, Atom.setPos, List.map_cons, List.sum_cons,
        List.map_map, Function.comp_def] at hx ⊢
      rw [hx]; ring
    · simp only [massMoment, totalMass, Mat3.mulVec, V3.dot, V3.add, V3.smul, Atom.setPos, List.map_cons, List.sum_cons,
        List.map_map, Function.comp_def] at hy ⊢
      rw [hy]; ring
    · simp only [massMoment, totalMass, Mat3.mulVec, V3.dot, V3.add, V3.smul, Atom.setPos, List.map_cons, List.sum_cons,
        List.map_map, Function.comp_def] at hz ⊢
      rw [hz]; ring

/-! ### centre of mass under affine maps -/

def Mat3.one : Mat3 K := ⟨⟨1, 0, 0⟩, ⟨0, 1, 0⟩, ⟨0, 0, 1⟩⟩

theorem Mat3.one_mulVec (v : V3 K) : (Mat3.one : Mat3 K).mulVec v = v := by
  apply V3.ext' <;> simp [Mat3.one, Mat3.mulVec, V3.dot]

theorem com_affine (A : Mat3 K) (b : V3 K) (as : List (Atom K)) (hM : totalMass as ≠ 0) :
    com (as.map fun a => a.setPos ((A.mulVec a.pos).add b)) = (A.mulVec (com as)).add b := by
  unfold com
  simp only [totalMass_map_setPos (fun a => (A.mulVec a.pos).add b), massMoment_affine]
  apply V3.ext' <;> simp only [Mat3.mulVec, V3.dot, V3.add, V3.smul] <;> field_simp

theorem translate_eq_affine (t : V3 K) (as : List (Atom K)) :
    translate t as = as.map fun a => a.setPos (((Mat3.one : Mat3 K).mulVec a.pos).add t) := by
  simp [translate, Mat3.one_mulVec]

theorem com_translate (t : V3 K) (as : List (Atom K)) (hM : totalMass as ≠ 0) :
    com (translate t as) = (com as).add t := by
  rw [translate_eq_affine, com_affine _ _ _ hM, Mat3.one_mulVec]

theorem totalMass_translate (t : V3 K) (as : List (Atom K)) : totalMass (translate t as) = totalMass as :=
  totalMass_map_setPos (fun a => a.pos.add t) as

/-- the placement written as one affine map `x ↦ R x + (c − R c + t)`. -/
theorem placeAtom_affine (c : V3 K) (r : Row K) (a : Atom K) :
    placeAtom c r a
      = a.setPos (((rotMat r.q).mulVec a.pos).add ((c.sub ((rotMat r.q).mulVec c)).add r.t)) := by
  unfold placeAtom
  congr 1
  apply V3.ext' <;> simp only [Mat3.mulVec, V3.dot, V3.add, V3.sub] <;> ring


/-! ### the rotation matrix without its denominator -/

/-- numerators of `rotMat q` (the matrix of the unnormalised quaternion; equals `|q|²·R(q)`). -/
def rotNum (q : Quat K) : Mat3 K :=
  ⟨⟨q.x * q.x - q.y * q.y - q.z * q.z + q.w * q.w, dbl (q.x * q.y - q.z * q.w), dbl (q.x * q.z + q.y * q.w)⟩,
   ⟨dbl (q.x * q.y + q.z * q.w), -(q.x * q.x) + q.y * q.y - q.z * q.z + q.w * q.w, dbl (q.y * q.z - q.x * q.w)⟩,
   ⟨dbl (q.x * q.z - q.y * q.w), dbl (q.y * q.z + q.x * q.w), -(q.x * q.x) - q.y * q.y + q.z * q.z + q.w * q.w⟩⟩

omit [Field K] in
theorem Quat.ext' {a b : Quat K} (hx : a.x = b.x) (hy : a.y = b.y) (hz : a.z = b.z) (hw : a.w = b.w) : a = b := by
  cases a; cases b; simp_all

omit [Field K] in
theorem Mat3.ext' {A B : Mat3 K} (h0 : A.r0 = B.r0) (h1 : A.r1 = B.r1) (h2 : A.r2 = B.r2) : A = B := by
  cases A; cases B; simp_all

theorem rotMat_mulVec (q : Quat K) (v : V3 K) :
    (rotMat q).mulVec v = V3.smul (q.normSq)⁻¹ ((rotNum q).mulVec v) := by
  apply V3.ext' <;> simp only [rotMat, rotNum, Mat3.mulVec, V3.dot, V3.smul, div_eq_mul_inv] <;> ring

theorem rotNum_conj (q : Quat K) (v : V3 K) :
    (q.mul (Quat.ofVec v)).mul q.conj = Quat.ofVec ((rotNum q).mulVec v) := by
  apply Quat.ext' <;> simp only [Quat.mul, Quat.conj, Quat.ofVec, rotNum, Mat3.mulVec, V3.dot, dbl] <;> ring

theorem rotNum_dot (q : Quat K) (u v : V3 K) :
    ((rotNum q).mulVec u).dot ((rotNum q).mulVec v) = q.normSq * q.normSq * u.dot v := by
  simp only [rotNum, Mat3.mulVec, V3.dot, dbl, Quat.normSq]; ring

theorem rotNum_det (q : Quat K) : (rotNum q).det = q.normSq * q.normSq * q.normSq := by
  simp only [rotNum, Mat3.det, dbl, Quat.normSq]; ring

theorem rotMat_det (q : Quat K) :
    (rotMat q).det = (q.normSq)⁻¹ * (q.normSq)⁻¹ * (q.normSq)⁻¹ * (rotNum q).det := by
  simp only [rotMat, rotNum, Mat3.det, div_eq_mul_inv]; ring

theorem normSq_mul (p q : Quat K) : (p.mul q).normSq = p.normSq * q.normSq := by
  simp only [Quat.mul, Quat.normSq]; ring

theorem rotNum_mul (p q : Quat K) (v : V3 K) :
    (rotNum (p.mul q)).mulVec v = (rotNum p).mulVec ((rotNum q).mulVec v) := by
  apply V3.ext' <;> simp only [rotNum, Quat.mul, Mat3.mulVec, V3.dot, dbl] <;> ring

theorem mulVec_smul (M : Mat3 K) (s : K) (v : V3 K) : M.mulVec (V3.smul s v) = V3.smul s (M.mulVec v) := by
  apply V3.ext' <;> simp only [Mat3.mulVec, V3.dot, V3.smul] <;> ring

theorem mulVec_sub (M : Mat3 K) (u v : V3 K) : M.mulVec (u.sub v) = (M.mulVec u).sub (M.mulVec v) := by
  apply V3.ext' <;> simp only [Mat3.mulVec, V3.dot, V3.sub] <;> ring

/-! ### the generator loop -/

/-- frames the statement prescribes: number `k₀, k₀+1, …`, atoms `static ++ place start row`. -/
def specFrames (static start : List (Atom K)) : Nat → List (Row K) → List (Frame K)
  | _, [] => []
  | k, r :: rs => ⟨k, static ++ place start r⟩ :: specFrames static start (k + 1) rs

/-- positions of the moving molecule after the loop: the placement of the LAST row (unchanged for no rows). -/
def finalMoving (start : List (Atom K)) : List (Atom K) → List (Row K) → List (Atom K)
  | cur, [] => cur
  | _, r :: rs => finalMoving start (place start r) rs

theorem specFrames_length (s st : List (Atom K)) (k : Nat) (rows : List (Row K)) :
    (specFrames s st k rows).length = rows.length := by
  induction rows generalizing k with
  | nil => rfl
  | cons r rs ih => simp [specFrames, ih]

theorem specFrames_getElem? (s st : List (Atom K)) (k i : Nat) (rows : List (Row K)) :
    (specFrames s st k rows)[i]? = rows[i]?.map fun r => ⟨k + i, s ++ place st r⟩ := by
  induction rows generalizing k i with
  | nil => simp [specFrames]
  | cons r rs ih =>
    cases i with
    | zero => simp [specFrames]
    | succ i => simp only [specFrames, List.getElem?_cons_succ, ih]; congr; funext r; congr 1; omega

theorem finalMoving_eq (start cur : List (Atom K)) (rows : List (Row K)) :
    finalMoving start cur rows = (rows.getLast?.map (place start)).getD cur := by
  induction rows generalizing cur with
  | nil => rfl
  | cons r rs ih =>
    rw [finalMoving, ih]
    cases rs with
    | nil => simp
    | cons r' rs' =>
      rw [List.getLast?_cons_cons]
      obtain ⟨x, hx⟩ : ∃ x, (r' :: rs').getLast? = some x :=
        Option.isSome_iff_exists.mp (by simp)
      simp [hx]

theorem step_eq_place (start : List (Atom K)) (r : Row K) :
    translate r.t (rotate (rotMat r.q) (com start) start) = place start r := by
  rw [rotate_translate_eq]; rfl

/-- positions of the frames of a fresh object: frame `k` = molecule 1 followed by the placement of row `k`. -/
def specPositions (mol1 mol2 : List (Atom K)) (rows : List (Row K)) : List (List (V3 K)) :=
  rows.map fun r => (mol1 ++ place mol2 r).map (·.pos)

theorem specFrames_positions (s st : List (Atom K)) (k : Nat) (rows : List (Row K)) :
    (specFrames s st k rows).map (fun f => f.atoms.map fun a => a.pos) = specPositions s st rows := by
  induction rows generalizing k with
  | nil => rfl
  | cons r rs ih => simp only [specFrames, List.map_cons, ih, specPositions]

section gen
variable [DecidableEq K]

theorem genLoop_ok (start : List (Atom K)) (rows : List (Row K)) (st : PtState K)
    (hq : ∀ r ∈ rows, r.q.normSq ≠ 0) :
    genLoop start rows st
      = .ok (⟨st.static, finalMoving start st.moving rows, st.currentFrame + rows.length, st.pt⟩,
             specFrames st.static start st.currentFrame rows) := by
  induction rows generalizing st with
  | nil => simp [genLoop, finalMoving, specFrames]
  | cons r rs ih =>
    have h0 : r.q.normSq ≠ 0 := hq r (by simp)
    have hrs : ∀ r ∈ rs, r.q.normSq ≠ 0 := fun r' h' => hq r' (by simp [h'])
    simp only [genLoop, if_neg h0, step_eq_place]
    rw [ih _ hrs]
    simp only [finalMoving, specFrames, List.length_cons]
    congr 3
    omega

theorem genLoop_error (start : List (Atom K)) (rows : List (Row K)) (st : PtState K)
    (hq : ∃ r ∈ rows, r.q.normSq = 0) :
    genLoop start rows st = .error "ValueError" := by
  induction rows generalizing st with
  | nil => simp at hq
  | cons r rs ih =>
    by_cases h0 : r.q.normSq = 0
    · simp [genLoop, h0]
    · have hrs : ∃ r ∈ rs, r.q.normSq = 0 := by
        obtain ⟨r', hmem, hz⟩ := hq
        rcases List.mem_cons.mp hmem with rfl | h
        · exact absurd hz h0
        · exact ⟨r', h, hz⟩
      simp only [genLoop, if_neg h0]
      rw [ih _ hrs]

end gen

end Molgri.Rigid
