/-
Helper lemmas for C01 (SqRA rate matrix).  Property theorems are in `Molgri/Props/C01.lean`.
-/
import Molgri.Model.Sqra
import Mathlib.Algebra.BigOperators.Group.Finset.Basic
import Mathlib.Algebra.BigOperators.Ring.Finset
import Mathlib.Algebra.Field.Basic
import Mathlib.Data.List.Sort
import Mathlib.Tactic.Ring
import Mathlib.Tactic.FieldSimp
import Mathlib.Tactic.Linarith
import Mathlib.Algebra.Order.Field.Basic

namespace Molgri.Sqra

variable {K : Type} [Field K]

/-- selector of the entries stored at position `(i, j)` -/
abbrev sel (i j : Nat) : Ent K → Bool := fun e => e.row == i && e.col == j

/-- index pair of an entry -/
abbrev ix : Ent K → Nat × Nat := fun e => (e.row, e.col)

/-! ### conditional sums in storage order -/

theorem foldl_condAdd (p : Ent K → Bool) (l : List (Ent K)) (a : K) :
    l.foldl (fun acc e => if p e then acc + e.val else acc) a
      = a + l.foldl (fun acc e => if p e then acc + e.val else acc) 0 := by
  induction l generalizing a with
  | nil => simp
  | cons e l ih =>
    simp only [List.foldl_cons]
    rw [ih, ih (if p e = true then 0 + e.val else 0)]
    cases p e <;> simp [add_assoc]

@[simp] theorem condSum_nil (p : Ent K → Bool) : condSum p ([] : List (Ent K)) = 0 := rfl

theorem condSum_cons (p : Ent K → Bool) (e : Ent K) (l : List (Ent K)) :
    condSum p (e :: l) = (if p e then e.val else 0) + condSum p l := by
  unfold condSum
  rw [List.foldl_cons, foldl_condAdd]
  cases p e <;> simp

theorem condSum_eq_zero {p : Ent K → Bool} {l : List (Ent K)} (h : ∀ e ∈ l, p e = false) :
    condSum p l = 0 := by
  induction l with
  | nil => rfl
  | cons e l ih =>
    rw [condSum_cons, ih (fun x hx => h x (List.mem_cons_of_mem _ hx)), h e List.mem_cons_self]
    simp

theorem dense_eq_zero_of_not_mem {l : List (Ent K)} {i j : Nat} (h : (i, j) ∉ l.map ix) :
    condSum (sel i j) l = 0 := by
  apply condSum_eq_zero
  intro e he
  by_contra hc
  apply h
  simp only [Bool.not_eq_false, Bool.and_eq_true, beq_iff_eq] at hc
  exact List.mem_map.mpr ⟨e, he, by simp [hc.1, hc.2]⟩

/-- a row sum (`coo @ ones`) is the sum of the dense entries of that row, when all columns are `< n` -/
theorem rowSum_eq_sum_dense (l : List (Ent K)) (n i : Nat) (hc : ∀ e ∈ l, e.col < n) :
    condSum (fun e => e.row == i) l = ∑ j ∈ Finset.range n, condSum (sel i j) l := by
  induction l with
  | nil => simp
  | cons e l ih =>
    have hcl : ∀ x ∈ l, x.col < n := fun x hx => hc x (List.mem_cons_of_mem _ hx)
    have he : e.col < n := hc e List.mem_cons_self
    rw [condSum_cons, ih hcl]
    simp only [condSum_cons, Finset.sum_add_distrib]
    congr 1
    by_cases hr : e.row = i
    · simp [hr, he]
    · simp [hr]

/-! ### the pipeline as one zip -/

section pipeline
variable [LT K] [DecidableLT K]

/-- value written at an entry with row `r`, column `c`, surface value `s`, distance value `x` -/
def entryVal (exp rnd : K → K) (kB NA T D : K) (V E : Nat → K) (r c : Nat) (s x : K) : K :=
  D * s / x / V r * exp (piExponent rnd kB NA T (capf (E r - E c)))

theorem offDiag_entries (exp rnd : K → K) (kB NA T D : K) (S : Coo K) (hd : List K) (V E : Nat → K) :
    (offDiag exp rnd kB NA T D S hd V E).entries
      = List.zipWith (fun a x => ⟨a.row, a.col, entryVal exp rnd kB NA T D V E a.row a.col a.val x⟩)
          S.entries hd := by
  simp [offDiag, offDiagFrom, mulBoltz, divVol, divData, Coo.smul, List.map_zipWith, List.zipWith_map_left,
    entryVal]

end pipeline

omit [Field K] in
/-- every entry of a zip carries the index of an entry of the left list -/
theorem mem_zipWith_ix {w : Nat → Nat → K → K → K} {A : List (Ent K)} {xs : List K} {e : Ent K}
    (he : e ∈ List.zipWith (fun a x => (⟨a.row, a.col, w a.row a.col a.val x⟩ : Ent K)) A xs) :
    ∃ a ∈ A, e.row = a.row ∧ e.col = a.col := by
  induction A generalizing xs with
  | nil => simp at he
  | cons a A ih =>
    cases xs with
    | nil => simp at he
    | cons x xs =>
      simp only [List.zipWith_cons_cons, List.mem_cons] at he
      rcases he with h | h
      · exact ⟨a, List.mem_cons_self, by simp [h]⟩
      · obtain ⟨b, hb, hh⟩ := ih h
        exact ⟨b, List.mem_cons_of_mem _ hb, hh⟩

omit [Field K] in
/-- every entry of a zip is built from an entry of the left list and an element of the right list -/
theorem mem_zipWith_ent {w : Nat → Nat → K → K → K} {A : List (Ent K)} {xs : List K} {e : Ent K}
    (he : e ∈ List.zipWith (fun a x => (⟨a.row, a.col, w a.row a.col a.val x⟩ : Ent K)) A xs) :
    ∃ a ∈ A, ∃ x ∈ xs, e = ⟨a.row, a.col, w a.row a.col a.val x⟩ := by
  induction A generalizing xs with
  | nil => simp at he
  | cons a A ih =>
    cases xs with
    | nil => simp at he
    | cons x xs =>
      simp only [List.zipWith_cons_cons, List.mem_cons] at he
      rcases he with h | h
      · exact ⟨a, List.mem_cons_self, x, List.mem_cons_self, h⟩
      · obtain ⟨b, hb, y, hy, hh⟩ := ih h
        exact ⟨b, List.mem_cons_of_mem _ hb, y, List.mem_cons_of_mem _ hy, hh⟩

/-- **Alignment lemma.**  If the two entry lists carry the same index sequence without repetition, zipping
their data computes, at every position of the pattern, `w` of the two matrix values there. -/
theorem dense_zipWith (w : Nat → Nat → K → K → K) (i j : Nat) :
    ∀ (A B : List (Ent K)), A.map ix = B.map ix → (A.map ix).Nodup →
      condSum (sel i j) (List.zipWith (fun a x => (⟨a.row, a.col, w a.row a.col a.val x⟩ : Ent K)) A (B.map (·.val)))
        = if (i, j) ∈ A.map ix then w i j (condSum (sel i j) A) (condSum (sel i j) B) else 0 := by
  intro A
  induction A with
  | nil => intro B _ _; simp
  | cons a A ih =>
    intro B hB hnd
    cases B with
    | nil => simp at hB
    | cons b B =>
      simp only [List.map_cons, List.cons.injEq] at hB
      obtain ⟨hab, hAB⟩ := hB
      simp only [List.map_cons, List.nodup_cons] at hnd
      obtain ⟨hna, hndA⟩ := hnd
      have hnb : ix b ∉ B.map ix := by rw [← hAB, ← hab]; exact hna
      simp only [List.map_cons, List.zipWith_cons_cons]
      rw [condSum_cons, ih B hAB hndA, condSum_cons, condSum_cons]
      have hbr : b.row = a.row := by have := congrArg Prod.fst hab; simpa using this.symm
      have hbc : b.col = a.col := by have := congrArg Prod.snd hab; simpa using this.symm
      by_cases h : a.row = i ∧ a.col = j
      · obtain ⟨h1, h2⟩ := h
        have hA0 : (i, j) ∉ A.map ix := by
          intro hm; apply hna; simpa [ix, h1, h2] using hm
        have hB0 : (i, j) ∉ B.map ix := by rw [← hAB]; exact hA0
        rw [dense_eq_zero_of_not_mem hA0, dense_eq_zero_of_not_mem hB0]
        simp [hbr, hbc, h1, h2, hA0]
      · have hs : sel i j a = false := by
          simp only [sel, Bool.and_eq_false_iff, beq_eq_false_iff_ne]
          by_cases h1 : a.row = i
          · exact Or.inr (fun h2 => h ⟨h1, h2⟩)
          · exact Or.inl h1
        have hsb : sel i j b = false := by simpa [sel, hbr, hbc] using hs
        have hne : (i, j) ≠ ix a := by
          intro he
          apply h
          simp only [ix, Prod.mk.injEq] at he
          exact ⟨he.1.symm, he.2.symm⟩
        have hs' : sel i j (⟨a.row, a.col, w a.row a.col a.val b.val⟩ : Ent K) = false := hs
        simp only [hs', hsb, Bool.false_eq_true, if_false, zero_add, List.mem_cons, hne, false_or]

/-- conditional sums (selector depending on the position only) commute with a common left factor -/
theorem condSum_zipWith_mul (q : Nat → Nat → Bool) (D : K) (w : Nat → Nat → K → K → K) (A : List (Ent K)) (xs : List K) :
    condSum (fun e => q e.row e.col)
        (List.zipWith (fun a x => (⟨a.row, a.col, D * w a.row a.col a.val x⟩ : Ent K)) A xs)
      = D * condSum (fun e => q e.row e.col)
        (List.zipWith (fun a x => (⟨a.row, a.col, w a.row a.col a.val x⟩ : Ent K)) A xs) := by
  induction A generalizing xs with
  | nil => simp
  | cons a A ih =>
    cases xs with
    | nil => simp
    | cons x xs =>
      simp only [List.zipWith_cons_cons, condSum_cons, ih, mul_add]
      congr 1
      cases q a.row a.col <;> simp

/-! ### signs (ordered fields) -/

section order
variable {F : Type} [Field F] [LinearOrder F] [IsStrictOrderedRing F]

theorem condSum_nonneg (p : Ent F → Bool) (l : List (Ent F)) (h : ∀ e ∈ l, 0 ≤ e.val) : 0 ≤ condSum p l := by
  induction l with
  | nil => simp
  | cons e l ih =>
    rw [condSum_cons]
    have h1 := ih (fun x hx => h x (List.mem_cons_of_mem _ hx))
    have h2 := h e List.mem_cons_self
    cases p e <;> simp <;> linarith

theorem condSum_pos (p : Ent F → Bool) (l : List (Ent F)) (h : ∀ e ∈ l, 0 < e.val) (hm : ∃ e ∈ l, p e = true) :
    0 < condSum p l := by
  induction l with
  | nil => simp at hm
  | cons e l ih =>
    rw [condSum_cons]
    have hnn := condSum_nonneg p l (fun x hx => le_of_lt (h x (List.mem_cons_of_mem _ hx)))
    have h2 := h e List.mem_cons_self
    obtain ⟨x, hx, hpx⟩ := hm
    rcases List.mem_cons.mp hx with rfl | hx'
    · rw [hpx]; simp; linarith
    · have := ih (fun y hy => h y (List.mem_cons_of_mem _ hy)) ⟨x, hx', hpx⟩
      cases p e <;> simp <;> linarith

end order

/-! ### storage order: `csr.tocoo()`, scaling, canonical form -/

section storage
variable {A : Type}

theorem rowEntries_row (a : Csr A) (i : Nat) : ∀ e ∈ a.rowEntries i, e.row = i := by
  intro e he
  unfold Csr.rowEntries at he
  simp only [List.mem_map] at he
  obtain ⟨p, _, rfl⟩ := he
  rfl

/-- `csr.tocoo()` is row-major: the row indices are non-decreasing along the storage order. -/
theorem tocoo_rowMajor (a : Csr A) : (a.tocoo.entries.map (·.row)).Pairwise (· ≤ ·) := by
  unfold Csr.tocoo
  simp only [List.map_flatMap]
  rw [List.pairwise_flatMap]
  constructor
  · intro i _
    rw [List.pairwise_map]
    apply List.pairwise_of_forall_mem_list  -- all rows of this block are equal to i
    intro x hx y hy
    rw [rowEntries_row a i x hx, rowEntries_row a i y hy]
  · have : (List.range a.n).Pairwise (· < ·) := List.pairwise_lt_range
    refine this.imp ?_
    intro i k hik x hx y hy
    simp only [List.mem_map] at hx hy
    obtain ⟨e, he, rfl⟩ := hx
    obtain ⟨f, hf, rfl⟩ := hy
    rw [rowEntries_row a i e he, rowEntries_row a k f hf]
    exact Nat.le_of_lt hik

theorem rowEntries_smul [Mul A] (D : A) (a : Csr A) (i : Nat) :
    (a.smul D).rowEntries i = (a.rowEntries i).map (fun e => ⟨e.row, e.col, D * e.val⟩) := by
  unfold Csr.rowEntries Csr.smul
  simp only [List.zip_map_right, List.map_drop, List.map_take, List.map_map]
  rfl

/-- scaling the data commutes with `.tocoo()`, for both storage forms -/
theorem tocoo_smul [Mul A] (D : A) (s : Sp A) : (s.smul D).tocoo = s.tocoo.smul D := by
  cases s with
  | coo a => rfl
  | csr a =>
    simp only [Sp.smul, Sp.tocoo, Csr.tocoo, Coo.smul, List.map_flatMap]
    congr 1
    apply List.flatMap_congr
    intro i _
    exact rowEntries_smul D a i

/-- two csr matrices with the same `indptr` and `indices` expand to the same index sequence, whatever the
(possibly unsorted) column order is -/
theorem tocoo_idx_of_same_structure {B : Type} (a : Csr A) (b : Csr B) (hn : a.n = b.n) (hp : a.indptr = b.indptr)
    (hi : a.indices = b.indices) (ha : a.indices.length ≤ a.data.length) (hb : b.indices.length ≤ b.data.length) :
    a.tocoo.idx = b.tocoo.idx := by
  unfold Csr.tocoo Coo.idx
  simp only [List.map_flatMap, hn]
  apply List.flatMap_congr
  intro i _
  unfold Csr.rowEntries
  simp only [List.map_map, ← hp]
  have e1 : ∀ (l : List (Nat × A)), l.map ((fun e : Ent A => (e.row, e.col)) ∘ fun p => ⟨i, p.1, p.2⟩)
      = (l.map Prod.fst).map (fun c => (i, c)) := by intro l; simp
  have e2 : ∀ (l : List (Nat × B)), l.map ((fun e : Ent B => (e.row, e.col)) ∘ fun p => ⟨i, p.1, p.2⟩)
      = (l.map Prod.fst).map (fun c => (i, c)) := by intro l; simp
  rw [e1, e2]
  congr 1
  rw [List.map_take, List.map_take, List.map_drop, List.map_drop, List.map_fst_zip ha,
    List.map_fst_zip hb, hi]

/-- strict lexicographic (row-major, then column) order on positions: the order of a canonical csr and of
`coo_array(dense)` -/
def lexLt (p q : Nat × Nat) : Prop := p.1 < q.1 ∨ (p.1 = q.1 ∧ p.2 < q.2)

instance : Std.Irrefl lexLt := ⟨fun p h => by unfold lexLt at h; omega⟩
instance : Std.Antisymm lexLt := ⟨fun p q h1 h2 => by unfold lexLt at h1 h2; omega⟩

/-- The canonical (row-major, columns ascending, no repetition) index sequence of a pattern is unique: two
matrices in canonical order with the same pattern store their entries in the same order. -/
theorem idx_unique_of_lexSorted (S : Coo A) {B : Type} (h : Coo B) (hS : S.idx.Pairwise lexLt)
    (hh : h.idx.Pairwise lexLt) (hm : ∀ p, p ∈ S.idx ↔ p ∈ h.idx) : S.idx = h.idx :=
  List.Pairwise.eq_of_mem_iff hS hh hm

theorem nodup_of_lexSorted (S : Coo A) (hS : S.idx.Pairwise lexLt) : S.idx.Nodup :=
  hS.imp (fun {p q} hpq heq => by subst heq; exact (Std.Irrefl.irrefl (r := lexLt) p) hpq)

/-- a csr matrix whose rows store strictly ascending column indices (scipy: `has_canonical_format`) -/
def Csr.Canonical (a : Csr A) : Prop := ∀ i < a.n, ((a.rowEntries i).map (·.col)).Pairwise (· < ·)

/-- `.tocoo()` of a canonical csr matrix is in canonical (lexicographic) order. -/
theorem tocoo_lexSorted (a : Csr A) (hc : a.Canonical) : a.tocoo.idx.Pairwise lexLt := by
  unfold Csr.tocoo Coo.idx
  simp only [List.map_flatMap]
  rw [List.pairwise_flatMap]
  constructor
  · intro i hi
    have := hc i (List.mem_range.mp hi)
    rw [List.pairwise_map] at this ⊢
    refine this.imp_of_mem ?_
    intro x y hx hy hxy
    right
    exact ⟨by rw [rowEntries_row a i x hx, rowEntries_row a i y hy], hxy⟩
  · have : (List.range a.n).Pairwise (· < ·) := List.pairwise_lt_range
    refine this.imp ?_
    intro i k hik x hx y hy
    simp only [List.mem_map] at hx hy
    obtain ⟨e, he, rfl⟩ := hx
    obtain ⟨f, hf, rfl⟩ := hy
    left
    show e.row < f.row
    rw [rowEntries_row a i e he, rowEntries_row a k f hf]
    exact hik

end storage

end Molgri.Sqra
