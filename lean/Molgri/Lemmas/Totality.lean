/-
Helper lemmas for C19 (abstract interpreter of the getter call graph).  Property theorems are in
`Molgri/Props/C19.lean`.
-/
import Molgri.Model.Totality
import Mathlib.Algebra.Order.Field.Rat
import Mathlib.Tactic.Linarith
import Mathlib.Tactic.Ring

namespace Molgri.Totality

/-! ### cell models -/

/-- what a method returns for a cell model over `n` points -/
def cellShape (m : Meth) (n : Nat) : Shape :=
  match m with
  | .volumes => .vec n
  | _ => .mat n n

theorem cellCall_rotobj3 (n u : Nat) (m : Meth) (kw : Kw) :
    cellCall current FUEL ⟨.rotobj, 3, n, u, true⟩ m kw = .ok (cellShape m n) := by
  cases m <;> simp [cellCall, FUEL, resolve, mro, defines, current, Cell.nCenters, cellShape, pure, Except.pure]

theorem cellCall_mikro (d n u : Nat) (m : Meth) (kw : Kw) :
    cellCall current FUEL ⟨.mikro, d, n, u, false⟩ m kw = .ok (cellShape m n) := by
  cases m <;> simp [cellCall, FUEL, resolve, mro, defines, current, Cell.nCenters, cellShape, pure, Except.pure]

theorem cellCall_half (n : Nat) (m : Meth) (hm : m = .calcNN ∨ m = .volumes) :
    cellCall current FUEL ⟨.half, 4, 2 * n, n, true⟩ m {} = .ok (cellShape m n) := by
  rcases hm with rfl | rfl <;>
    simp [cellCall, FUEL, resolve, mro, defines, current, Cell.nCenters, cellShape, pure, Except.pure, Cell.full, bind, Except.bind]
  omega

/-! ### radial grid -/
theorem diffs_pos (x : Rat) (xs : List Rat) (h : ascFrom x xs = true) :
    (List.zipWith (fun start stop => stop - start) (x :: xs) xs).all (fun d => decide (0 < d)) = true := by
  induction xs generalizing x with
  | nil => simp
  | cons y ys ih =>
    simp only [ascFrom, Bool.and_eq_true, decide_eq_true_eq] at h
    simp only [List.zipWith_cons_cons, List.all_cons, Bool.and_eq_true, decide_eq_true_eq]
    exact ⟨by linarith [h.1], ih y h.2⟩

theorem getIncrements_ok {r : List Rat} (h : RadiiOk r) :
    ∃ inc, getIncrements r = .ok inc ∧ inc.length = r.length := by
  obtain ⟨hne, hasc⟩ := h
  cases r with
  | nil => exact absurd rfl hne
  | cons x xs =>
    simp only [ascFrom, Bool.and_eq_true, decide_eq_true_eq] at hasc
    have hall := diffs_pos x xs hasc.2
    refine ⟨x :: List.zipWith (fun start stop => stop - start) (x :: xs) xs, ?_, ?_⟩
    · simp only [getIncrements, hall, Bool.and_true, decide_eq_true_eq]
      rw [if_pos (le_of_lt hasc.1)]; rfl
    · simp

theorem getBetweenRadii_ok {r : List Rat} (h : RadiiOk r) :
    ∃ br, getBetweenRadii r = .ok br ∧ br.length = r.length := by
  obtain ⟨inc, hinc, hlen⟩ := getIncrements_ok h
  have hpos : 0 < r.length := List.length_pos_iff.mpr h.1
  unfold getBetweenRadii
  rw [hinc]
  simp only [bind, Except.bind]
  by_cases h1 : inc.length > 1
  · rw [if_pos h1]
    have htl : inc.tail ≠ [] := by
      intro hc
      have : inc.tail.length = 0 := by rw [hc]; rfl
      rw [List.length_tail] at this; omega
    obtain ⟨l, hl⟩ : ∃ l, inc.tail.getLast? = some l := by
      cases hq : inc.tail.getLast? with
      | none => exact absurd (List.getLast?_eq_none_iff.mp hq) htl
      | some l => exact ⟨l, rfl⟩
    rw [hl]
    simp only [pure, Except.pure]
    have hl2 : (List.map (fun v => v / 2) (inc.tail ++ [l])).length = r.length := by
      simp [List.length_tail]; omega
    refine ⟨List.zipWith (fun a b => a + b) r (List.map (fun v => v / 2) (inc.tail ++ [l])), ?_, ?_⟩
    · unfold npBin; rw [if_pos hl2.symm]; rfl
    · rw [List.length_zipWith, hl2]; simp
  · rw [if_neg h1]
    simp only [pure, Except.pure]
    refine ⟨List.zipWith (fun a b => a + b) r inc, ?_, ?_⟩
    · unfold npBin; rw [if_pos hlen.symm]; rfl
    · simp [List.length_zipWith, hlen]


/-! ### scipy / numpy helpers -/

theorem diagsOne_ok (dlen nO k : Nat) (h : dlen = 1 ∨ nO * k ≤ dlen) :
    diagsOne dlen nO (nO * (k + 1)) = .ok (.mat (nO * (k + 1)) (nO * (k + 1))) := by
  unfold diagsOne
  have e : nO * (k + 1) = nO * k + nO := Nat.mul_succ nO k
  rw [e]
  have h1 : ¬ (nO > nO * k + nO) := by omega
  rw [if_neg h1]
  have h2 : min dlen (nO * k + nO - nO) = nO * k + nO - nO ∨ min dlen (nO * k + nO - nO) = 1 := by
    rcases h with h | h <;> omega
  simp only [h2, if_true]; rfl

theorem sparseAdd_self (a : Shape) : sparseAdd a a = .ok a := by simp [sparseAdd]; rfl

theorem sameRadius_ok (nO k : Nat) :
    sameRadius (k + 1) (Shape.mat nO nO) (k + 1) = .ok (.mat (nO * (k + 1)) (nO * (k + 1))) := by
  unfold sameRadius
  by_cases hk : k + 1 > 1
  · rw [if_pos hk]
    simp [bmatDiag, bind, Except.bind, pure, Except.pure, Nat.mul_comm]
  · rw [if_neg hk]
    have : k = 0 := by omega
    subst this
    simp [sparseTimesVec, pure, Except.pure]

/-! ### position grid -/

/-- A 3-D sphere grid with `n` points all of whose forwarded cell methods work. -/
structure Good3 (g : SphereGrid) (n : Nat) : Prop where
  dim : g.dim = 3
  rows : g.rows = n
  call : ∀ m kw, g.fwd current m kw = .ok (cellShape m n)

theorem Good3.getN {g n} (h : Good3 g n) : g.getN = n := by
  simp [SphereGrid.getN, h.dim, h.rows]

theorem selParts_ok (pg : PositionGrid) (nO k : Nat) (sel : Sel) (br : List Rat) (ho : Good3 pg.o nO)
    (hr : RadiiOk pg.radii) (hk : pg.radii.length = k + 1) (hbr : br.length = k + 1) :
    ∃ dlen, selParts current pg br sel = .ok (dlen, .mat nO nO, k + 1) ∧ (dlen = 1 ∨ nO * k ≤ dlen) := by
  obtain ⟨inc, hinc, hincl⟩ := getIncrements_ok hr
  have hc := ho.call
  have hN := ho.getN
  cases sel
  · exact ⟨1, by simp [selParts, hc, cellShape, PositionGrid.nT, hk, bind, Except.bind, pure, Except.pure], Or.inl rfl⟩
  · refine ⟨(k + 1 - 1) * nO, ?_, Or.inr (by rw [Nat.mul_comm]; simp)⟩
    have e1 : bcast1 (k + 1) (1 + (k + 1 - 1)) = .ok (k + 1) := by
      have : 1 + (k + 1 - 1) = k + 1 := by omega
      rw [this]; simp [bcast1]; rfl
    simp only [selParts, hc, cellShape, hbr, e1, bind, Except.bind, pure, Except.pure]
  · have hit : inc.tail.length = k := by rw [List.length_tail]; omega
    refine ⟨nO * (if k > 0 then k + 1 else k), ?_, Or.inr ?_⟩
    · have hg : current.singleRadiusGuard = true := rfl
      simp [selParts, hinc, hg, hit, hc, cellShape, hN, t2o, PositionGrid.nT, hk, bind, Except.bind, pure, Except.pure]
    · apply Nat.mul_le_mul_left; split <;> omega

theorem positionNNSph_ok (pg : PositionGrid) (nO : Nat) (sel : Sel) (ho : Good3 pg.o nO)
    (hr : RadiiOk pg.radii) :
    positionNNSph current pg sel = .ok (.mat (nO * pg.radii.length) (nO * pg.radii.length)) := by
  obtain ⟨br, hbr, hbrl⟩ := getBetweenRadii_ok hr
  have hpos : 0 < pg.radii.length := List.length_pos_iff.mpr hr.1
  obtain ⟨k, hk⟩ : ∃ k, pg.radii.length = k + 1 := ⟨pg.radii.length - 1, by omega⟩
  obtain ⟨dlen, hparts, hd⟩ := selParts_ok pg nO k sel br ho hr hk (hbrl.trans hk)
  unfold positionNNSph
  simp only [PositionGrid.arrayRows, PositionGrid.nT, t2o, hbr, ho.getN, ho.rows, if_true, bind, Except.bind,
    pure, Except.pure, hparts, hk, diagsOne_ok dlen nO k hd, sparseAdd_self, sameRadius_ok]

/-! ### names and factories -/

theorem resolveName_err {role4 : Bool} {s : Scan} {e : Err} (h : resolveName role4 s = .error e) :
    e = .valueError := by
  rcases s with ⟨z, algo, num⟩
  cases role4 <;> cases z <;> rcases algo with _ | al <;> rcases num with _ | _ | _ | k <;>
    first
    | (cases al <;> simp [resolveName, Alg.inRole, pure, Except.pure, throw, throwThe, MonadExceptOf.throw] at h <;>
        exact h.symm)
    | (simp [resolveName, Alg.inRole, pure, Except.pure, throw, throwThe, MonadExceptOf.throw] at h <;> exact h.symm)

/-- the zero algorithm of a role -/
def zeroAlg (role4 : Bool) : Alg := if role4 then .zero4D else .zero3D

theorem resolveName_ok {role4 : Bool} {s : Scan} {a : Alg} {n : Nat} (h : resolveName role4 s = .ok (a, n)) :
    (a = zeroAlg role4 ∧ n = 1) ∨ (a.inRole role4 = true ∧ 2 ≤ n) := by
  rcases s with ⟨z, algo, num⟩
  cases role4 <;> cases z <;> rcases algo with _ | al <;> rcases num with _ | _ | _ | k <;>
    first
    | (cases al <;> simp [resolveName, Alg.inRole, zeroAlg, pure, Except.pure, throw, throwThe, MonadExceptOf.throw] at h ⊢ <;>
        (obtain ⟨rfl, rfl⟩ := h; simp [Alg.inRole]))
    | (simp [resolveName, Alg.inRole, zeroAlg, pure, Except.pure, throw, throwThe, MonadExceptOf.throw] at h ⊢ <;>
        (obtain ⟨rfl, rfl⟩ := h; simp [Alg.inRole]))

theorem genGrid3_good (n : Nat) : ∃ g, genGrid 3 n n = .ok g ∧ Good3 g n := by
  by_cases h4 : n ≥ 4
  · refine ⟨⟨3, n, n, ⟨.rotobj, 3, n, upperCount n, true⟩⟩, ?_, ⟨rfl, rfl, ?_⟩⟩
    · simp [genGrid, h4, bind, Except.bind, pure, Except.pure]
    · intro m kw; exact cellCall_rotobj3 n _ m kw
  · refine ⟨⟨3, n, n, ⟨.mikro, 3, n, 0, false⟩⟩, ?_, ⟨rfl, rfl, ?_⟩⟩
    · simp [genGrid, h4, bind, Except.bind, pure, Except.pure]
    · intro m kw; exact cellCall_mikro 3 n 0 m kw

/-- A 4-D sphere grid with `n` rotations: the two cell methods `FullGrid` calls on it work. -/
structure Good4 (g : SphereGrid) (n : Nat) : Prop where
  dim : g.dim = 4
  rows : g.rows = 2 * n
  calcNN : cellCall current FUEL g.cell .calcNN {} = .ok (.mat n n)
  volumes : cellCall current FUEL g.cell .volumes {} = .ok (.vec n)

theorem Good4.getN {g n} (h : Good4 g n) : g.getN = n := by
  simp [SphereGrid.getN, h.dim, h.rows, upperCount]

theorem genGrid4_good (n : Nat) : ∃ g, genGrid 4 n (2 * n) = .ok g ∧ Good4 g n := by
  have hu : upperCount (2 * n) = n := by simp [upperCount]
  by_cases h4 : n ≥ 4
  · refine ⟨⟨4, n, 2 * n, ⟨.half, 4, 2 * n, n, true⟩⟩, ?_, ⟨rfl, rfl, ?_, ?_⟩⟩
    · simp [genGrid, h4, hu, bind, Except.bind, pure, Except.pure]
    · exact cellCall_half n .calcNN (Or.inl rfl)
    · exact cellCall_half n .volumes (Or.inr rfl)
  · refine ⟨⟨4, n, 2 * n, ⟨.mikro, 4, n, 0, false⟩⟩, ?_, ⟨rfl, rfl, ?_, ?_⟩⟩
    · simp [genGrid, h4, hu, bind, Except.bind, pure, Except.pure]
    · exact cellCall_mikro 4 n 0 .calcNN {}
    · exact cellCall_mikro 4 n 0 .volumes {}

theorem create3D_good {s : Scan} {a : Alg} {n : Nat} (h : resolveName false s = .ok (a, n)) :
    1 ≤ n ∧ ∃ g, create3D a n = .ok g ∧ Good3 g n := by
  rcases resolveName_ok h with ⟨rfl, rfl⟩ | ⟨hr, hn⟩
  · exact ⟨le_refl 1, genGrid3_good 1⟩
  · refine ⟨by omega, ?_⟩
    cases a <;> simp [Alg.inRole] at hr <;> exact genGrid3_good n

theorem create4D_cases {s : Scan} {a : Alg} {n : Nat} (h : resolveName true s = .ok (a, n)) :
    1 ≤ n ∧ (create4D a n = .error .valueError ∨ ∃ g, create4D a n = .ok g ∧ Good4 g n) := by
  rcases resolveName_ok h with ⟨rfl, rfl⟩ | ⟨hr, hn⟩
  · exact ⟨le_refl 1, Or.inr (genGrid4_good 1)⟩
  · refine ⟨by omega, ?_⟩
    cases a <;> simp [Alg.inRole] at hr
    · exact Or.inr (genGrid4_good n)
    · exact Or.inr (genGrid4_good n)
    · by_cases hf : n = 8 ∨ n = 40 ∨ n = 272 ∨ n = 2080
      · right; simp only [create4D, hf, if_true]; exact genGrid4_good n
      · left; simp only [create4D, hf, if_false]; rfl

/-- `fulldiv` is the only source of a ValueError in the 4-D factory. -/
theorem create4D_ok_of_ne_fulldiv {s : Scan} {a : Alg} {n : Nat} (h : resolveName true s = .ok (a, n))
    (hf : a ≠ .fulldiv) : ∃ g, create4D a n = .ok g ∧ Good4 g n := by
  rcases resolveName_ok h with ⟨rfl, rfl⟩ | ⟨hr, hn⟩
  · exact genGrid4_good 1
  · cases a <;> simp [Alg.inRole] at hr hf <;> exact genGrid4_good n

/-! ### construction -/

theorem getLast?_some_of_length_pos {α} (l : List α) (h : 0 < l.length) : ∃ x, l.getLast? = some x := by
  cases hq : l.getLast? with
  | none => rw [List.getLast?_eq_none_iff] at hq; subst hq; simp at h
  | some x => exact ⟨x, rfl⟩

/-- a successfully constructed position grid -/
structure GoodPos (pg : PositionGrid) (nO : Nat) (radii : List Rat) (cart : Bool) (ext : Ext) : Prop where
  ho : Good3 pg.o nO
  hradii : pg.radii = radii
  hcart : pg.cartesian = cart
  hvor : cart = true → pg.vorPoints = nO * (radii.length + 1) ∧ pg.closed = ext.closed ∧ pg.hullFails = ext.hullFails

theorem mkPositionGrid_of_resolved {oScan : Scan} {a : Alg} {nO : Nat}
    (hres : resolveName false oScan = .ok (a, nO)) (radii : List Rat) (cart : Bool) (ext : Ext)
    (hr : RadiiOk radii) :
    (cart = true ∧ ext.qhullOk = false ∧ mkPositionGrid oScan radii cart ext = .error .qhullError) ∨
     ((cart = false ∨ ext.qhullOk = true) ∧
        ∃ pg, mkPositionGrid oScan radii cart ext = .ok pg ∧ GoodPos pg nO radii cart ext) := by
  obtain ⟨h1, g, hg, hgood⟩ := create3D_good hres
  cases cart with
  | false =>
    right; refine ⟨Or.inl rfl, ⟨g, radii, false, 0, [], []⟩, ?_, ⟨hgood, rfl, rfl, by simp⟩⟩
    simp [mkPositionGrid, hres, hg, bind, Except.bind, pure, Except.pure]
  | true =>
    obtain ⟨inc, hinc, hincl⟩ := getIncrements_ok hr
    have hpos : 0 < radii.length := List.length_pos_iff.mpr hr.1
    obtain ⟨x, hx⟩ := getLast?_some_of_length_pos radii hpos
    obtain ⟨y, hy⟩ := getLast?_some_of_length_pos inc (by omega)
    cases hq : ext.qhullOk with
    | false =>
      left; refine ⟨rfl, rfl, ?_⟩
      simp [mkPositionGrid, hres, hg, hinc, hx, hy, t2o, hq, bind, Except.bind, pure, Except.pure]
      rfl
    | true =>
      right; refine ⟨Or.inr rfl, ⟨g, radii, true, g.rows * (radii.length + 1), ext.closed, ext.hullFails⟩, ?_,
        ⟨hgood, rfl, rfl, fun _ => ⟨by simp [hgood.rows], rfl, rfl⟩⟩⟩
      simp [mkPositionGrid, hres, hg, hinc, hx, hy, t2o, hq, bind, Except.bind, pure, Except.pure]

theorem mkPositionGrid_cases (oScan : Scan) (radii : List Rat) (cart : Bool) (ext : Ext) (hr : RadiiOk radii) :
    mkPositionGrid oScan radii cart ext = .error .valueError ∨
    ∃ a nO, resolveName false oScan = .ok (a, nO) ∧ 1 ≤ nO ∧
      ((cart = true ∧ ext.qhullOk = false ∧ mkPositionGrid oScan radii cart ext = .error .qhullError) ∨
       ((cart = false ∨ ext.qhullOk = true) ∧
          ∃ pg, mkPositionGrid oScan radii cart ext = .ok pg ∧ GoodPos pg nO radii cart ext)) := by
  cases hres : resolveName false oScan with
  | error e =>
    left; rw [resolveName_err hres] at hres
    simp [mkPositionGrid, hres, bind, Except.bind]
  | ok p =>
    obtain ⟨a, nO⟩ := p
    exact Or.inr ⟨a, nO, rfl, (create3D_good hres).1, mkPositionGrid_of_resolved hres radii cart ext hr⟩

/-! ### position-grid getters -/

theorem arrayRows_ok {pg nO radii cart ext} (h : GoodPos pg nO radii cart ext) :
    pg.arrayRows = .ok (nO * radii.length) := by
  simp [PositionGrid.arrayRows, t2o, h.ho.rows, PositionGrid.nT, h.hradii, pure, Except.pure]

theorem positionNN_ok {pg nO radii cart ext} (h : GoodPos pg nO radii cart ext) (hr : RadiiOk radii) (sel : Sel) :
    positionNN current pg sel = .ok (.mat (nO * radii.length) (nO * radii.length)) := by
  have hsph : ∀ sel, positionNNSph current pg sel = .ok (.mat (nO * radii.length) (nO * radii.length)) := by
    intro sel
    have := positionNNSph_ok pg nO sel h.ho (h.hradii ▸ hr)
    rwa [h.hradii] at this
  unfold positionNN
  by_cases hc : pg.cartesian = true
  · have hcart : cart = true := h.hcart ▸ hc
    obtain ⟨hv, _⟩ := h.hvor hcart
    have hle : nO * radii.length ≤ nO * (radii.length + 1) := Nat.mul_le_mul_left _ (by omega)
    cases sel
    · simp [hc, hsph]
    · simp [hc, cartesianSurfaces, hsph, hv, bind, Except.bind, pure, Except.pure]
      omega
    · simp [hc, cartesianDistances, hsph, arrayRows_ok h, bind, Except.bind, pure, Except.pure]
  · simp [hc, hsph]

theorem volLoop_cases (n : Nat) (hf closed : List Nat) (hclosed : ∀ i ∈ closed, i < n) :
    volLoop n hf closed = .ok () ∨
    (volLoop n hf closed = .error .qhullError ∧ ∃ i ∈ closed, i ∈ hf) := by
  induction closed with
  | nil => left; rfl
  | cons idx rest ih =>
    have hi : idx < n := hclosed idx (by simp)
    have hrest : ∀ i ∈ rest, i < n := fun i h => hclosed i (by simp [h])
    unfold volLoop
    by_cases hc : hf.contains idx = true
    · right; rw [if_pos hc]
      exact ⟨rfl, idx, by simp, by simpa using hc⟩
    · rw [if_neg hc, if_neg (by omega)]
      rcases ih hrest with h | ⟨h, i, hi1, hi2⟩
      · exact Or.inl h
      · exact Or.inr ⟨h, i, by simp [hi1], hi2⟩

theorem volLoop_ok (n : Nat) (hf closed : List Nat) (hclosed : ∀ i ∈ closed, i < n)
    (hhull : ∀ i ∈ closed, ¬ i ∈ hf) : volLoop n hf closed = .ok () := by
  rcases volLoop_cases n hf closed hclosed with h | ⟨_, i, h1, h2⟩
  · exact h
  · exact absurd h2 (hhull i h1)

/-- the position volumes: the demanded length, or (Cartesian mode only) the hull of a closed cell failed. -/
theorem positionVolumes_cases {pg nO radii cart ext} (h : GoodPos pg nO radii cart ext) (hr : RadiiOk radii)
    (hclosed : cart = true → ∀ i ∈ ext.closed, i < nO * radii.length) :
    positionVolumes current pg = .ok (nO * radii.length) ∨
    (cart = true ∧ (∃ i ∈ ext.closed, i ∈ ext.hullFails) ∧ positionVolumes current pg = .error .qhullError) := by
  unfold positionVolumes
  by_cases hc : pg.cartesian = true
  · have hcart : cart = true := h.hcart ▸ hc
    obtain ⟨_, hcl, hhf⟩ := h.hvor hcart
    rcases volLoop_cases (nO * radii.length) ext.hullFails ext.closed (hclosed hcart) with hv | ⟨hv, hex⟩
    · left; simp [hc, arrayRows_ok h, hcl, hhf, hv, bind, Except.bind, pure, Except.pure]
    · right; refine ⟨hcart, hex, ?_⟩
      simp [hc, arrayRows_ok h, hcl, hhf, hv, bind, Except.bind]
  · left
    obtain ⟨br, hbr, hbrl⟩ := getBetweenRadii_ok hr
    have hpos : 0 < radii.length := List.length_pos_iff.mpr hr.1
    have e1 : 1 + (radii.length - 1) = radii.length := by omega
    simp [hc, h.hradii, hbr, hbrl, h.ho.call, cellShape, t2o, e1, bcast1, bind, Except.bind, pure, Except.pure]

/-! ### full grid -/

/-- a successfully constructed full grid -/
structure GoodFull (fg : FullGrid) (nB nO : Nat) (radii : List Rat) (cart : Bool) (ext : Ext) : Prop where
  hb : Good4 fg.b nB
  hpos : GoodPos fg.pos nO radii cart ext

theorem mkFullGrid_of_resolved {s : Spec} {ab ao : Alg} {nB nO : Nat} {g : SphereGrid}
    (hb : resolveName true s.b = .ok (ab, nB)) (hg : create4D ab nB = .ok g) (hgood : Good4 g nB)
    (ho : resolveName false s.o = .ok (ao, nO)) (ext : Ext) (hr : RadiiOk s.radii) :
    (s.cartesian = true ∧ ext.qhullOk = false ∧ mkFullGrid s ext = .error .qhullError) ∨
     ((s.cartesian = false ∨ ext.qhullOk = true) ∧
        ∃ fg, mkFullGrid s ext = .ok fg ∧ GoodFull fg nB nO s.radii s.cartesian ext) := by
  rcases mkPositionGrid_of_resolved ho s.radii s.cartesian ext hr with ⟨hc, hq, hp⟩ | ⟨hc, pg, hp, hgp⟩
  · left; refine ⟨hc, hq, ?_⟩
    simp [mkFullGrid, hb, hg, hp, bind, Except.bind]
  · right; refine ⟨hc, ⟨g, pg⟩, ?_, ⟨hgood, hgp⟩⟩
    simp [mkFullGrid, hb, hg, hp, bind, Except.bind, pure, Except.pure]

theorem mkFullGrid_cases (s : Spec) (ext : Ext) (hr : RadiiOk s.radii) :
    mkFullGrid s ext = .error .valueError ∨
    ∃ ab nB ao nO, resolveName true s.b = .ok (ab, nB) ∧ resolveName false s.o = .ok (ao, nO) ∧ 1 ≤ nB ∧ 1 ≤ nO ∧
      ((s.cartesian = true ∧ ext.qhullOk = false ∧ mkFullGrid s ext = .error .qhullError) ∨
       ((s.cartesian = false ∨ ext.qhullOk = true) ∧
          ∃ fg, mkFullGrid s ext = .ok fg ∧ GoodFull fg nB nO s.radii s.cartesian ext)) := by
  cases hres : resolveName true s.b with
  | error e =>
    left; rw [resolveName_err hres] at hres
    simp [mkFullGrid, hres, bind, Except.bind]
  | ok p =>
    obtain ⟨ab, nB⟩ := p
    obtain ⟨h1, hc⟩ := create4D_cases hres
    rcases hc with hc | ⟨g, hg, hgood⟩
    · left; simp [mkFullGrid, hres, hc, bind, Except.bind]
    · cases hro : resolveName false s.o with
      | error e =>
        left; rw [resolveName_err hro] at hro
        simp [mkFullGrid, hres, hg, mkPositionGrid, hro, bind, Except.bind]
      | ok q =>
        obtain ⟨ao, nO⟩ := q
        exact Or.inr ⟨ab, nB, ao, nO, rfl, rfl, h1, (create3D_good hro).1,
          mkFullGrid_of_resolved hres hg hgood hro ext hr⟩

theorem getFullGridAsArray_ok {fg nB nO radii cart ext} (h : GoodFull fg nB nO radii cart ext) :
    getFullGridAsArray fg = .ok (.mat (radii.length * nO * nB) 7) := by
  have hlen : fg.len = radii.length * nO * nB := by
    simp [FullGrid.len, PositionGrid.len, h.hb.getN, h.hpos.ho.getN, PositionGrid.nT, h.hpos.hradii]; ring
  have hq : upperCount fg.b.rows = nB := by simp [upperCount, h.hb.rows]
  have hle : ¬ (nO * radii.length * nB > radii.length * nO * nB) := by
    have : nO * radii.length * nB = radii.length * nO * nB := by ring
    omega
  simp [getFullGridAsArray, hlen, arrayRows_ok h.hpos, hq, hle, bind, Except.bind, pure, Except.pure]

theorem getTotalVolumes_cases {fg nB nO radii cart ext} (h : GoodFull fg nB nO radii cart ext) (hr : RadiiOk radii)
    (hclosed : cart = true → ∀ i ∈ ext.closed, i < nO * radii.length) :
    getTotalVolumes current fg = .ok (.vec (radii.length * nO * nB)) ∨
    (cart = true ∧ (∃ i ∈ ext.closed, i ∈ ext.hullFails) ∧ getTotalVolumes current fg = .error .qhullError) := by
  have e : nO * radii.length * nB = radii.length * nO * nB := by ring
  rcases positionVolumes_cases h.hpos hr hclosed with hv | ⟨hc, hex, hv⟩
  · left; simp [getTotalVolumes, hv, h.hb.volumes, e, bind, Except.bind, pure, Except.pure]
  · right; exact ⟨hc, hex, by simp [getTotalVolumes, hv, bind, Except.bind]⟩

theorem getNN_ok {fg nB nO radii cart ext} (h : GoodFull fg nB nO radii cart ext) (hr : RadiiOk radii)
    (hB : 1 ≤ nB) (hO : 1 ≤ nO) (sel : Sel) :
    getNN current fg sel = .ok (.mat (radii.length * nO * nB) (radii.length * nO * nB)) := by
  have hpos : 0 < radii.length := List.length_pos_iff.mpr hr.1
  have hori : orientationNN current fg = .ok (.mat nB nB) := by
    unfold orientationNN
    rw [h.hb.getN]
    by_cases h1 : nB > 1
    · rw [if_pos h1]; exact h.hb.calcNN
    · rw [if_neg h1]; have : nB = 1 := by omega
      subst this; rfl
  have hfit : ¬ (nB * (nO * radii.length) > radii.length * nO * nB) := by
    have : nB * (nO * radii.length) = radii.length * nO * nB := by ring
    omega
  have hcomb : combineNN (radii.length * nO) (.mat nB nB)
      (.mat (radii.length * nO * nB) (radii.length * nO * nB))
      = .ok (.mat (radii.length * nO * nB) (radii.length * nO * nB)) := by
    unfold combineNN
    by_cases hbig : radii.length * nO > 1
    · rw [if_pos hbig]
      simp [bmatDiag, sparseAdd, bind, Except.bind, pure, Except.pure]
    · rw [if_neg hbig]
      have h1 : radii.length * nO = 1 := by
        have : 1 ≤ radii.length * nO := Nat.mul_pos hpos hO
        omega
      simp [h1, pure, Except.pure]
  unfold getNN
  simp only [getFullGridAsArray_ok h, h.hb.getN, h.hpos.ho.getN, PositionGrid.nT, h.hpos.hradii,
    positionNN_ok h.hpos hr, hori, sameOrientation, hfit, or_self, if_false, hcomb, bind, Except.bind, pure, Except.pure]

/-- all five getters of a well-constructed full grid: the demanded shape, or (volumes in the Cartesian mode only)
the library's error when the hull of a closed cell cannot be computed. -/
theorem getter_cases {fg nB nO radii cart ext} (h : GoodFull fg nB nO radii cart ext) (hr : RadiiOk radii)
    (hB : 1 ≤ nB) (hO : 1 ≤ nO) (hclosed : cart = true → ∀ i ∈ ext.closed, i < nO * radii.length) (g : Getter) :
    getter current fg g = .ok (expected g (radii.length * nO * nB)) ∨
    (g = .volumes ∧ cart = true ∧ (∃ i ∈ ext.closed, i ∈ ext.hullFails) ∧
      getter current fg g = .error .qhullError) := by
  cases g
  · exact Or.inl (getFullGridAsArray_ok h)
  · rcases getTotalVolumes_cases h hr hclosed with hv | ⟨hc, hex, hv⟩
    · exact Or.inl hv
    · exact Or.inr ⟨rfl, hc, hex, hv⟩
  · exact Or.inl (getNN_ok h hr hB hO _)
  · exact Or.inl (getNN_ok h hr hB hO _)
  · exact Or.inl (getNN_ok h hr hB hO _)

theorem getter_ok {fg nB nO radii cart ext} (h : GoodFull fg nB nO radii cart ext) (hr : RadiiOk radii)
    (hB : 1 ≤ nB) (hO : 1 ≤ nO) (hclosed : cart = true → ∀ i ∈ ext.closed, i < nO * radii.length)
    (hhull : ∀ i ∈ ext.closed, ¬ i ∈ ext.hullFails) (g : Getter) :
    getter current fg g = .ok (expected g (radii.length * nO * nB)) := by
  rcases getter_cases h hr hB hO hclosed g with hv | ⟨_, _, ⟨i, h1, h2⟩, _⟩
  · exact hv
  · exact absurd h2 (hhull i h1)

theorem resolveName_bare (role4 : Bool) (n : Nat) (hn : 1 ≤ n) :
    ∃ a, resolveName role4 (Scan.bare n) = .ok (a, n) ∧ a ≠ .fulldiv := by
  rcases n with _ | _ | k
  · omega
  · cases role4 <;> simp [resolveName, Scan.bare, pure, Except.pure]
  · cases role4 <;> simp [resolveName, Scan.bare, pure, Except.pure]

end Molgri.Totality
