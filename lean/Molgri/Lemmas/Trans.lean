/-
Helper lemmas for C16 (`Molgri.Trans`): sorting, `finish`, arithmetic progressions, `getIncrements`,
`getBetweenRadii`.
-/
import Molgri.Model.Trans
import Mathlib.Algebra.Order.Field.Rat
import Mathlib.Data.Rat.Floor
import Mathlib.Tactic.Linarith
import Mathlib.Tactic.Ring
import Mathlib.Tactic.FieldSimp

namespace Molgri.Trans

/-! ### sorting -/

theorem leB_trans : ∀ (a b c : Rat), decide (a ≤ b) = true → decide (b ≤ c) = true → decide (a ≤ c) = true := by
  intro a b c h1 h2
  simp only [decide_eq_true_eq] at *
  exact le_trans h1 h2

theorem leB_total : ∀ (a b : Rat), (decide (a ≤ b) || decide (b ≤ a)) = true := by
  intro a b
  simp only [Bool.or_eq_true, decide_eq_true_eq]
  exact le_total a b

theorem sortAsc_sorted (xs : List Rat) : (sortAsc xs).Pairwise (· ≤ ·) := by
  have h := List.pairwise_mergeSort leB_trans leB_total xs
  unfold sortAsc
  simpa only [decide_eq_true_eq] using h

theorem sortAsc_perm (xs : List Rat) : (sortAsc xs).Perm xs := List.mergeSort_perm xs _

theorem mem_sortAsc {xs : List Rat} {x : Rat} : x ∈ sortAsc xs ↔ x ∈ xs := (sortAsc_perm xs).mem_iff

theorem length_sortAsc (xs : List Rat) : (sortAsc xs).length = xs.length := (sortAsc_perm xs).length_eq

/-- A sorted list is a fixed point of the sort. -/
theorem sortAsc_of_sorted {xs : List Rat} (h : xs.Pairwise (· ≤ ·)) : sortAsc xs = xs := by
  apply List.mergeSort_of_pairwise
  simpa only [decide_eq_true_eq] using h

/-- Two sorted lists with the same elements (with multiplicity) are equal. -/
theorem eq_of_perm_of_sorted {l₁ l₂ : List Rat} (hp : l₁.Perm l₂) (h₁ : l₁.Pairwise (· ≤ ·))
    (h₂ : l₂.Pairwise (· ≤ ·)) : l₁ = l₂ :=
  List.Perm.eq_of_pairwise (fun _ _ _ _ hab hba => le_antisymm hab hba) h₁ h₂ hp

/-- The sort only depends on the multiset of its input. -/
theorem sortAsc_congr {xs ys : List Rat} (h : xs.Perm ys) : sortAsc xs = sortAsc ys :=
  eq_of_perm_of_sorted ((sortAsc_perm xs).trans (h.trans (sortAsc_perm ys).symm)) (sortAsc_sorted xs) (sortAsc_sorted ys)

/-- Sorting a descending list reverses it. -/
theorem sortAsc_of_antitone {xs : List Rat} (h : xs.Pairwise (· ≥ ·)) : sortAsc xs = xs.reverse := by
  apply eq_of_perm_of_sorted ((sortAsc_perm xs).trans (List.reverse_perm xs).symm) (sortAsc_sorted xs)
  rw [List.pairwise_reverse]
  exact h

/-! ### `finish` -/

theorem finish_ok_iff {v g : List Rat} :
    finish v = .ok g ↔ (∀ x ∈ v, 0 ≤ x) ∧ g = (sortAsc v).map (· * 10) := by
  unfold finish nm2angstrom
  simp only
  split
  · rename_i h
    simp only [List.all_eq_true, decide_eq_true_eq] at h
    constructor
    · intro hg
      refine ⟨fun x hx => h x (mem_sortAsc.mpr hx), ?_⟩
      cases hg; rfl
    · rintro ⟨_, rfl⟩; rfl
  · rename_i h
    simp only [List.all_eq_true, decide_eq_true_eq, not_forall] at h
    obtain ⟨x, hx, hneg⟩ := h
    constructor
    · intro hg; cases hg
    · rintro ⟨hall, _⟩
      exact absurd (hall x (mem_sortAsc.mp hx)) hneg

theorem finish_err_iff {v : List Rat} {e : Err} :
    finish v = .error e ↔ (∃ x ∈ v, x < 0) ∧ e = .assertionError := by
  unfold finish
  simp only
  split
  · rename_i h
    simp only [List.all_eq_true, decide_eq_true_eq] at h
    constructor
    · intro hg; cases hg
    · rintro ⟨⟨x, hx, hneg⟩, _⟩
      exact absurd (h x (mem_sortAsc.mpr hx)) (not_le.mpr hneg)
  · rename_i h
    simp only [List.all_eq_true, decide_eq_true_eq, not_forall] at h
    obtain ⟨x, hx, hneg⟩ := h
    constructor
    · intro hg
      refine ⟨⟨x, mem_sortAsc.mp hx, not_le.mp hneg⟩, ?_⟩
      cases hg; rfl
    · rintro ⟨_, rfl⟩; rfl

theorem sorted_map_mul10 {l : List Rat} (h : l.Pairwise (· ≤ ·)) : (l.map (· * 10)).Pairwise (· ≤ ·) := by
  rw [List.pairwise_map]
  exact h.imp (fun hab => by linarith)

/-! ### arithmetic progressions, `linspace`, `arange` -/

/-- `a, a+d, …, a+(N-1)d`. -/
def prog (a d : Rat) (N : Nat) : List Rat := (List.range N).map fun (k : Nat) => a + (k : Rat) * d

@[simp] theorem length_prog (a d : Rat) (N : Nat) : (prog a d N).length = N := by simp [prog]

theorem getElem_prog (a d : Rat) (N k : Nat) (h : k < (prog a d N).length) : (prog a d N)[k] = a + (k : Rat) * d := by
  simp [prog]

theorem mem_prog {a d x : Rat} {N : Nat} : x ∈ prog a d N ↔ ∃ k : Nat, k < N ∧ x = a + (k : Rat) * d := by
  simp only [prog, List.mem_map, List.mem_range]
  constructor
  · rintro ⟨k, hk, rfl⟩; exact ⟨k, hk, rfl⟩
  · rintro ⟨k, hk, rfl⟩; exact ⟨k, hk, rfl⟩

theorem prog_sorted {a d : Rat} (N : Nat) (hd : 0 ≤ d) : (prog a d N).Pairwise (· ≤ ·) := by
  unfold prog
  rw [List.pairwise_map]
  refine List.Pairwise.imp ?_ (List.pairwise_lt_range (n := N))
  intro i j hij
  have : (i : Rat) ≤ (j : Rat) := by exact_mod_cast hij.le
  nlinarith

theorem prog_antitone {a d : Rat} (N : Nat) (hd : d ≤ 0) : (prog a d N).Pairwise (· ≥ ·) := by
  unfold prog
  rw [List.pairwise_map]
  refine List.Pairwise.imp ?_ (List.pairwise_lt_range (n := N))
  intro i j hij
  have : (i : Rat) ≤ (j : Rat) := by exact_mod_cast hij.le
  show a + (j : Rat) * d ≤ a + (i : Rat) * d
  nlinarith

theorem prog_strict {a d : Rat} (N : Nat) (hd : 0 < d) : (prog a d N).Pairwise (· < ·) := by
  unfold prog
  rw [List.pairwise_map]
  refine List.Pairwise.imp ?_ (List.pairwise_lt_range (n := N))
  intro i j hij
  have : (i : Rat) < (j : Rat) := by exact_mod_cast hij
  nlinarith

/-- A progression read backwards is the progression from its last element with the opposite step. -/
theorem prog_reverse (a d : Rat) (N : Nat) : (prog a d N).reverse = prog (a + ((N : Rat) - 1) * d) (-d) N := by
  apply List.ext_getElem
  · simp
  · intro k h1 h2
    simp only [List.length_reverse, length_prog] at h1
    rw [List.getElem_reverse, getElem_prog, getElem_prog]
    simp only [length_prog]
    have : ((N - 1 - k : Nat) : Rat) = (N : Rat) - 1 - (k : Rat) := by
      rw [Nat.cast_sub (by omega), Nat.cast_sub (by omega)]; simp
    rw [this]; ring

theorem sortAsc_prog_of_nonneg {a d : Rat} (N : Nat) (hd : 0 ≤ d) : sortAsc (prog a d N) = prog a d N :=
  sortAsc_of_sorted (prog_sorted N hd)

theorem sortAsc_prog_of_nonpos {a d : Rat} (N : Nat) (hd : d ≤ 0) :
    sortAsc (prog a d N) = prog (a + ((N : Rat) - 1) * d) (-d) N := by
  rw [sortAsc_of_antitone (prog_antitone N hd), prog_reverse]

/-- `np.linspace` is an arithmetic progression with step `(stop-start)/div` (Lean's `x / 0 = 0` covers `div = 0`). -/
theorem linspace_eq_prog (a b : Rat) (n : Int) (ep : Bool) (hn : 0 ≤ n) :
    linspace a b n ep = .ok (prog a ((b - a) / ((if ep then n.toNat - 1 else n.toNat : Nat) : Rat)) n.toNat) := by
  unfold linspace prog
  rw [if_neg (by omega)]
  simp only
  congr 1
  apply List.map_congr_left
  intro k _
  by_cases h : (if ep then n.toNat - 1 else n.toNat) = 0
  · rw [if_pos h]; simp [h]
  · rw [if_neg h]

theorem linspace_neg (a b : Rat) (n : Int) (ep : Bool) (hn : n < 0) : linspace a b n ep = .error .valueError := by
  unfold linspace; rw [if_pos hn]

theorem ceilRat_eq (q : Rat) : ceilRat q = ⌈q⌉ := by
  unfold ceilRat; rw [Rat.ceil_def']

/-- number of elements of `np.arange(a, b, s)` -/
def arangeLen (a b s : Rat) : Nat := (⌈(b - a) / s⌉).toNat

theorem arange_eq_prog (a b s : Rat) (hs : s ≠ 0) : arange a b s = .ok (prog a s (arangeLen a b s)) := by
  unfold arange prog arangeLen
  rw [if_neg hs, ceilRat_eq]

theorem arange_zero_step (a b : Rat) : arange a b 0 = .error .zeroDivisionError := by
  unfold arange; simp

/-- With a positive step exactly the `a + k s < b` are produced … -/
theorem arangeLen_spec_pos {a b s : Rat} (hs : 0 < s) (k : Nat) : k < arangeLen a b s ↔ a + (k : Rat) * s < b := by
  unfold arangeLen
  rw [Int.lt_toNat, Int.lt_ceil]
  rw [lt_div_iff₀ hs]
  push_cast
  constructor <;> intro h <;> linarith

/-- … and with a negative step exactly the `a + k s > b`. -/
theorem arangeLen_spec_neg {a b s : Rat} (hs : s < 0) (k : Nat) : k < arangeLen a b s ↔ b < a + (k : Rat) * s := by
  unfold arangeLen
  rw [Int.lt_toNat, Int.lt_ceil]
  rw [lt_div_iff_of_neg hs]
  push_cast
  constructor <;> intro h <;> linarith

/-! ### `getIncrements` -/

/-- consecutive differences `r₁-r₀, r₂-r₁, …` -/
def diffs : List Rat → List Rat
  | [] => []
  | r0 :: rs => List.zipWith (fun a b => b - a) (r0 :: rs) rs

theorem length_diffs (r : List Rat) : (diffs r).length = r.length - 1 := by
  cases r with
  | nil => rfl
  | cons r0 rs => simp [diffs]

theorem getElem_diffs (r : List Rat) (k : Nat) (h : k < (diffs r).length) :
    (diffs r)[k] = r[k + 1]'(by rw [length_diffs] at h; omega) - r[k]'(by rw [length_diffs] at h; omega) := by
  cases r with
  | nil => simp [diffs] at h
  | cons r0 rs => simp [diffs]

theorem diffs_pos_iff (r : List Rat) : (∀ x ∈ diffs r, 0 < x) ↔ r.Pairwise (· < ·) := by
  rw [← List.isChain_iff_pairwise]
  cases r with
  | nil => simp [diffs]
  | cons r0 rs =>
    induction rs generalizing r0 with
    | nil => simp [diffs]
    | cons r1 rs ih =>
      have := ih r1
      simp only [diffs, List.zipWith_cons_cons, List.mem_cons, forall_eq_or_imp, List.isChain_cons_cons] at this ⊢
      rw [this]
      constructor
      · rintro ⟨h1, h2⟩; exact ⟨by linarith, h2⟩
      · rintro ⟨h1, h2⟩; exact ⟨by linarith, h2⟩

theorem getIncrements_nil : getIncrements [] = .error .indexError := rfl

theorem getIncrements_cons (r0 : Rat) (rs : List Rat) :
    getIncrements (r0 :: rs) =
      if 0 ≤ r0 ∧ (r0 :: rs).Pairwise (· < ·) then .ok (r0 :: diffs (r0 :: rs)) else .error .assertionError := by
  unfold getIncrements
  simp only
  have key : (decide (0 ≤ r0) && (r0 :: List.zipWith (fun a b => b - a) (r0 :: rs) rs).tail.all
        fun x => decide (0 < x)) = true ↔ (0 ≤ r0 ∧ (r0 :: rs).Pairwise (· < ·)) := by
    rw [← diffs_pos_iff]
    simp [diffs]
  by_cases h : 0 ≤ r0 ∧ (r0 :: rs).Pairwise (· < ·)
  · rw [if_pos (key.mpr h), if_pos h]; rfl
  · rw [if_neg (fun hh => h (key.mp hh)), if_neg h]

/-! ### `getBetweenRadii` -/

/-- the boundaries for at least two radii: `r + (diffs ++ [last diff]) / 2` -/
def betweenList (r : List Rat) : List Rat :=
  List.zipWith (· + ·) r ((diffs r ++ [(diffs r).getLastD 0]).map (· / 2))

theorem length_betweenList (r : List Rat) (h : r ≠ []) : (betweenList r).length = r.length := by
  unfold betweenList
  simp only [List.length_zipWith, List.length_map, List.length_append, length_diffs, List.length_cons, List.length_nil]
  have : 0 < r.length := List.length_pos_iff.mpr h
  omega

theorem getElem_betweenList_inner (r : List Rat) (k : Nat) (hk : k + 1 < r.length)
    (h : k < (betweenList r).length) :
    (betweenList r)[k] = r[k] + (r[k + 1] - r[k]) / 2 := by
  have hd : k < (diffs r).length := by rw [length_diffs]; omega
  simp only [betweenList, List.getElem_zipWith, List.getElem_map, List.getElem_append_left hd, getElem_diffs]

theorem getElem_betweenList_last (r : List Rat) (hT : 2 ≤ r.length)
    (h : r.length - 1 < (betweenList r).length) :
    (betweenList r)[r.length - 1] = r[r.length - 1] + (r[r.length - 1] - r[r.length - 2]) / 2 := by
  have hd : (diffs r).length = r.length - 1 := length_diffs r
  have hne : diffs r ≠ [] := by
    intro h0; rw [h0] at hd; simp at hd; omega
  have hge : (diffs r).length ≤ r.length - 1 := by omega
  have hlast : (diffs r).getLastD 0 = r[r.length - 1] - r[r.length - 2] := by
    rw [List.getLastD_eq_getLast?, List.getLast?_eq_some_getLast hne, Option.getD_some, List.getLast_eq_getElem,
      getElem_diffs]
    congr 2 <;> (simp only [hd]; omega)
  simp only [betweenList, List.getElem_zipWith, List.getElem_map, List.getElem_append_right hge, hd, Nat.sub_self,
    List.getElem_cons_zero, hlast]

theorem getBetweenRadii_single (r0 : Rat) (z : Bool) (h0 : 0 ≤ r0) :
    getBetweenRadii [r0] z = .ok (if z then [0, 2 * r0] else [2 * r0]) := by
  unfold getBetweenRadii
  rw [getIncrements_cons, if_pos ⟨h0, by simp⟩]
  simp only [diffs, List.zipWith_nil_right]
  show (pure _ : M _) = _
  have : r0 + r0 = 2 * r0 := by ring
  cases z <;> simp [pure, Except.pure, this]

theorem getBetweenRadii_many (r0 r1 : Rat) (rs : List Rat) (z : Bool) (h0 : 0 ≤ r0)
    (hs : (r0 :: r1 :: rs).Pairwise (· < ·)) :
    getBetweenRadii (r0 :: r1 :: rs) z =
      .ok (if z then 0 :: betweenList (r0 :: r1 :: rs) else betweenList (r0 :: r1 :: rs)) := by
  unfold getBetweenRadii
  rw [getIncrements_cons, if_pos ⟨h0, hs⟩]
  show (pure _ : M _) = _
  have hl : (r0 :: diffs (r0 :: r1 :: rs)).length > 1 := by
    simp [length_diffs]
  simp only [hl, if_true, List.tail_cons]
  rfl

theorem getBetweenRadii_err (r : List Rat) (z : Bool) (e : Err) (h : getIncrements r = .error e) :
    getBetweenRadii r z = .error e := by
  unfold getBetweenRadii; rw [h]; rfl

theorem prog_map_mul10 (a d : Rat) (N : Nat) : (prog a d N).map (· * 10) = prog (10 * a) (10 * d) N := by
  unfold prog
  rw [List.map_map]
  apply List.map_congr_left
  intro k _
  simp only [Function.comp]
  ring

/-! ## The reader: rendering of decimal literals and the scanner

Spec side of the round-trip theorems of `Props/C16.lean`: how a decimal, a signed decimal with blanks, and a
comma-separated sequence of them are *written*; the lemmas say the scanner / parser of the model read them back. -/

def digitChar (d : Fin 10) : Char := Char.ofNat (48 + d.val)

theorem digitVal_digitChar : ∀ d : Fin 10, digitVal (digitChar d) = some d.val := by decide

/-- digits (most significant first) to the number they spell, continuing from `acc` -/
def natOfAcc (acc : Nat) (ds : List (Fin 10)) : Nat := ds.foldl (fun a d => 10 * a + d.val) acc

def natOf (ds : List (Fin 10)) : Nat := natOfAcc 0 ds

theorem natOfAcc_append (acc : Nat) (a b : List (Fin 10)) : natOfAcc acc (a ++ b) = natOfAcc (natOfAcc acc a) b := by
  simp [natOfAcc, List.foldl_append]

theorem natOf_cons (d : Fin 10) (ds : List (Fin 10)) : natOf (d :: ds) = natOfAcc d.val ds := by
  simp [natOf, natOfAcc]

/-- an unsigned decimal literal as written: digits, optionally a point and more digits (`12`, `12.`, `12.50`, `.5`) -/
structure DecLit where
  ip : List (Fin 10)
  fp : Option (List (Fin 10))

def DecLit.chars (d : DecLit) : List Char :=
  d.ip.map digitChar ++ (match d.fp with | none => [] | some f => '.' :: f.map digitChar)

/-- Python accepts it: some digit is present; an integer literal has no superfluous leading zero (unless it is zero). -/
def DecLit.Valid (d : DecLit) : Prop :=
  match d.fp with
  | none => d.ip ≠ [] ∧ (d.ip.head? = some 0 → 1 < d.ip.length → natOf d.ip = 0)
  | some f => d.ip ≠ [] ∨ f ≠ []

/-- the number it denotes: all digits read as one integer, divided by ten to the number of fractional digits -/
def DecLit.value (d : DecLit) : Rat :=
  match d.fp with
  | none => (natOf d.ip : Rat)
  | some f => (natOf (d.ip ++ f) : Rat) / (10 : Rat) ^ f.length

def DecLit.isInt (d : DecLit) : Bool := d.fp.isNone

theorem lex_idle_digit (d : Fin 10) (cs : List Char) :
    lex .idle (digitChar d :: cs) = lex (.int d.val 1 (d.val = 0)) cs := by
  rw [lex, digitVal_digitChar]

theorem lex_int_digits (m nd : Nat) (l : Bool) (ds : List (Fin 10)) (rest : List Char) :
    lex (.int m nd l) (ds.map digitChar ++ rest) = lex (.int (natOfAcc m ds) (nd + ds.length) l) rest := by
  induction ds generalizing m nd with
  | nil => rfl
  | cons d ds ih =>
    simp only [List.map_cons, List.cons_append]
    rw [lex, digitVal_digitChar]
    simp only
    rw [ih]
    simp only [natOfAcc, List.foldl_cons, List.length_cons]
    congr 2; omega

theorem lex_frac_digits (m fd : Nat) (ds : List (Fin 10)) (rest : List Char) :
    lex (.frac m fd) (ds.map digitChar ++ rest) = lex (.frac (natOfAcc m ds) (fd + ds.length)) rest := by
  induction ds generalizing m fd with
  | nil => rfl
  | cons d ds ih =>
    simp only [List.map_cons, List.cons_append]
    rw [lex, digitVal_digitChar]
    simp only
    rw [ih]
    simp only [natOfAcc, List.foldl_cons, List.length_cons]
    congr 2; omega

theorem lex_int_dot (m nd : Nat) (l : Bool) (cs : List Char) : lex (.int m nd l) ('.' :: cs) = lex (.frac m 0) cs := rfl

theorem lex_idle_dot (cs : List Char) : lex .idle ('.' :: cs) = lex .dot0 cs := rfl

theorem lex_dot0_digit (d : Fin 10) (cs : List Char) : lex .dot0 (digitChar d :: cs) = lex (.frac d.val 1) cs := by
  simp only [lex, digitVal_digitChar]

/-- characters that end a number and that the scanner then handles from its idle state -/
def isTermChar (c : Char) : Bool := isBlank c || c = ',' || c = ']' || c = ')'

/-- the rest of the text lets a number end here -/
def Term (rest : List Char) : Prop := rest = [] ∨ ∃ c cs, rest = c :: cs ∧ isTermChar c = true

theorem isTermChar_cases {c : Char} (h : isTermChar c = true) : c = ' ' ∨ c = '\t' ∨ c = ',' ∨ c = ']' ∨ c = ')' := by
  simp only [isTermChar, isBlank, Bool.or_eq_true, decide_eq_true_eq] at h
  tauto

theorem lex_idle_blank (c : Char) (hc : isBlank c = true) (cs : List Char) : lex .idle (c :: cs) = lex .idle cs := by
  have : c = ' ' ∨ c = '\t' := by simpa [isBlank] using hc
  rcases this with rfl | rfl
  · show (do let t ← flush .idle; let rest ← lex .idle cs; pure (t.toList ++ rest)) = _
    cases lex .idle cs <;> rfl
  · show (do let t ← flush .idle; let rest ← lex .idle cs; pure (t.toList ++ rest)) = _
    cases lex .idle cs <;> rfl

theorem lex_idle_blanks (ws : List Char) (h : ∀ c ∈ ws, isBlank c = true) (rest : List Char) :
    lex .idle (ws ++ rest) = lex .idle rest := by
  induction ws with
  | nil => rfl
  | cons c ws ih =>
    rw [List.cons_append, lex_idle_blank c (h c (by simp)), ih (fun c hc => h c (by simp [hc]))]

/-- A number is complete when the text ends or a blank, comma or closing bracket follows: its token is emitted
and scanning continues from the idle state. -/
theorem lex_flush_int (m nd : Nat) (l : Bool) (t : Option Tok) (hf : flush (.int m nd l) = .ok t) (rest : List Char)
    (hr : Term rest) : lex (.int m nd l) rest = (lex .idle rest).map (t.toList ++ ·) := by
  rcases hr with rfl | ⟨c, cs, rfl, hc⟩
  · show (do let t ← flush (.int m nd l); pure t.toList) = _
    rw [hf]; simp [lex, flush, Except.map, pure, Except.pure, bind, Except.bind]
  · rcases isTermChar_cases hc with rfl | rfl | rfl | rfl | rfl
    · show (do let t ← flush (.int m nd l); let rest ← lex .idle cs; pure (t.toList ++ rest)) = _
      rw [hf, lex_idle_blank _ rfl]; cases lex .idle cs <;> rfl
    · show (do let t ← flush (.int m nd l); let rest ← lex .idle cs; pure (t.toList ++ rest)) = _
      rw [hf, lex_idle_blank _ rfl]; cases lex .idle cs <;> rfl
    · show (do let t ← flush (.int m nd l); let rest ← lex .idle cs; pure (t.toList ++ Tok.comma :: rest)) =
        Except.map _ (do let t ← flush .idle; let rest ← lex .idle cs; pure (t.toList ++ Tok.comma :: rest))
      rw [hf]; cases lex .idle cs <;> rfl
    · show (do let t ← flush (.int m nd l); let rest ← lex .idle cs; pure (t.toList ++ Tok.rbr :: rest)) =
        Except.map _ (do let t ← flush .idle; let rest ← lex .idle cs; pure (t.toList ++ Tok.rbr :: rest))
      rw [hf]; cases lex .idle cs <;> rfl
    · show (do let t ← flush (.int m nd l); let rest ← lex .idle cs; pure (t.toList ++ Tok.rpar :: rest)) =
        Except.map _ (do let t ← flush .idle; let rest ← lex .idle cs; pure (t.toList ++ Tok.rpar :: rest))
      rw [hf]; cases lex .idle cs <;> rfl

theorem lex_flush_frac (m fd : Nat) (t : Option Tok) (hf : flush (.frac m fd) = .ok t) (rest : List Char)
    (hr : Term rest) : lex (.frac m fd) rest = (lex .idle rest).map (t.toList ++ ·) := by
  rcases hr with rfl | ⟨c, cs, rfl, hc⟩
  · show (do let t ← flush (.frac m fd); pure t.toList) = _
    rw [hf]; simp [lex, flush, Except.map, pure, Except.pure, bind, Except.bind]
  · rcases isTermChar_cases hc with rfl | rfl | rfl | rfl | rfl
    · show (do let t ← flush (.frac m fd); let rest ← lex .idle cs; pure (t.toList ++ rest)) = _
      rw [hf, lex_idle_blank _ rfl]; cases lex .idle cs <;> rfl
    · show (do let t ← flush (.frac m fd); let rest ← lex .idle cs; pure (t.toList ++ rest)) = _
      rw [hf, lex_idle_blank _ rfl]; cases lex .idle cs <;> rfl
    · show (do let t ← flush (.frac m fd); let rest ← lex .idle cs; pure (t.toList ++ Tok.comma :: rest)) =
        Except.map _ (do let t ← flush .idle; let rest ← lex .idle cs; pure (t.toList ++ Tok.comma :: rest))
      rw [hf]; cases lex .idle cs <;> rfl
    · show (do let t ← flush (.frac m fd); let rest ← lex .idle cs; pure (t.toList ++ Tok.rbr :: rest)) =
        Except.map _ (do let t ← flush .idle; let rest ← lex .idle cs; pure (t.toList ++ Tok.rbr :: rest))
      rw [hf]; cases lex .idle cs <;> rfl
    · show (do let t ← flush (.frac m fd); let rest ← lex .idle cs; pure (t.toList ++ Tok.rpar :: rest)) =
        Except.map _ (do let t ← flush .idle; let rest ← lex .idle cs; pure (t.toList ++ Tok.rpar :: rest))
      rw [hf]; cases lex .idle cs <;> rfl

theorem sciValue_zero_exp (m fd : Nat) : sciValue m fd false 0 = (m : Rat) / (10 : Rat) ^ fd := by
  simp [sciValue, Rat.mkRat_eq_div]

/-- **The scanner reads a decimal literal back**: followed by the end of the text, a blank, a comma or a closing
bracket, the characters of a valid literal give one number token carrying its value and int-ness. -/
theorem lex_lit (d : DecLit) (hv : d.Valid) (rest : List Char) (hr : Term rest) :
    lex .idle (d.chars ++ rest) = (lex .idle rest).map (Tok.num d.value d.isInt :: ·) := by
  obtain ⟨ip, fp⟩ := d
  cases fp with
  | none =>
    simp only [DecLit.Valid] at hv
    obtain ⟨hne, hz⟩ := hv
    cases ip with
    | nil => exact absurd rfl hne
    | cons d0 ip' =>
      simp only [DecLit.chars, List.map_cons, List.append_nil, List.cons_append]
      rw [lex_idle_digit, lex_int_digits]
      have hf : flush (.int (natOfAcc d0.val ip') (1 + ip'.length) (decide (d0.val = 0))) =
          .ok (some (.num ((natOf (d0 :: ip') : Nat) : Rat) true)) := by
        rw [natOf_cons]
        simp only [flush]
        rw [if_neg]
        rintro ⟨h1, h2, h3⟩
        apply h3
        rw [← natOf_cons]
        apply hz
        · have : d0 = 0 := Fin.ext (by simpa using h1)
          simp [this]
        · simp only [List.length_cons]; omega
      rw [lex_flush_int _ _ _ _ hf rest hr]
      rfl
  | some f =>
    simp only [DecLit.Valid] at hv
    cases ip with
    | nil =>
      cases f with
      | nil => simp at hv
      | cons d0 f' =>
        simp only [DecLit.chars, List.map_nil, List.nil_append, List.map_cons, List.cons_append]
        rw [lex_idle_dot, lex_dot0_digit, lex_frac_digits]
        have hf : flush (.frac (natOfAcc d0.val f') (1 + f'.length)) =
            .ok (some (.num (DecLit.value ⟨[], some (d0 :: f')⟩) false)) := by
          simp only [flush]
          rw [sciValue_zero_exp]
          simp only [DecLit.value, List.nil_append, natOf_cons, List.length_cons]
          rw [Nat.add_comm]
        rw [lex_flush_frac _ _ _ hf rest hr]
        rfl
    | cons d0 ip' =>
      simp only [DecLit.chars, List.map_cons, List.cons_append, List.append_assoc]
      rw [lex_idle_digit, lex_int_digits, lex_int_dot, lex_frac_digits]
      have hf : flush (.frac (natOfAcc (natOfAcc d0.val ip') f) (0 + f.length)) =
          .ok (some (.num (DecLit.value ⟨d0 :: ip', some f⟩) false)) := by
        simp only [flush]
        rw [sciValue_zero_exp]
        simp only [DecLit.value, Nat.zero_add]
        rw [show natOf (d0 :: ip' ++ f) = natOfAcc (natOfAcc d0.val ip') f by
          rw [natOf, natOfAcc_append, ← natOf, natOf_cons]]
      rw [lex_flush_frac _ _ _ hf rest hr]
      rfl

/-! ### signed elements with blanks, comma-separated sequences -/

/-- a list element as written: blanks, an optional sign (`some true` = `-`, `some false` = `+`), blanks, the
literal, blanks -/
structure Item where
  pre : List Char
  sign : Option Bool
  gap : List Char
  lit : DecLit
  post : List Char

def signChars : Option Bool → List Char
  | none => []
  | some false => ['+']
  | some true => ['-']

def signToks : Option Bool → List Tok
  | none => []
  | some false => [.plus]
  | some true => [.minus]

def AllBlank (ws : List Char) : Prop := ∀ c ∈ ws, isBlank c = true

def Item.chars (it : Item) : List Char := it.pre ++ (signChars it.sign ++ (it.gap ++ (it.lit.chars ++ it.post)))

def Item.Valid (it : Item) : Prop := AllBlank it.pre ∧ AllBlank it.gap ∧ AllBlank it.post ∧ it.lit.Valid

def Item.toks (it : Item) : List Tok := signToks it.sign ++ [.num it.lit.value it.lit.isInt]

/-- the number the element denotes -/
def Item.value (it : Item) : Rat :=
  match it.sign with
  | some true => - it.lit.value
  | _ => it.lit.value

def Item.num (it : Item) : Num := ⟨it.value, it.lit.isInt⟩

theorem exmap_id {α : Type} (x : M (List α)) : x.map ([] ++ ·) = x := by
  cases x <;> rfl

theorem exmap_map {α : Type} (x : M (List α)) (a b : List α) : (x.map (b ++ ·)).map (a ++ ·) = x.map ((a ++ b) ++ ·) := by
  cases x <;> simp [Except.map]

theorem lex_idle_plus (cs : List Char) : lex .idle ('+' :: cs) = (lex .idle cs).map ([Tok.plus] ++ ·) := by
  show (do let t ← flush .idle; let rest ← lex .idle cs; pure (t.toList ++ Tok.plus :: rest)) = _
  cases lex .idle cs <;> rfl

theorem lex_idle_minus (cs : List Char) : lex .idle ('-' :: cs) = (lex .idle cs).map ([Tok.minus] ++ ·) := by
  show (do let t ← flush .idle; let rest ← lex .idle cs; pure (t.toList ++ Tok.minus :: rest)) = _
  cases lex .idle cs <;> rfl

theorem lex_idle_comma (cs : List Char) : lex .idle (',' :: cs) = (lex .idle cs).map ([Tok.comma] ++ ·) := by
  show (do let t ← flush .idle; let rest ← lex .idle cs; pure (t.toList ++ Tok.comma :: rest)) = _
  cases lex .idle cs <;> rfl

theorem lex_idle_lbr (cs : List Char) : lex .idle ('[' :: cs) = (lex .idle cs).map ([Tok.lbr] ++ ·) := by
  show (do let t ← flush .idle; let rest ← lex .idle cs; pure (t.toList ++ Tok.lbr :: rest)) = _
  cases lex .idle cs <;> rfl

theorem lex_idle_rbr (cs : List Char) : lex .idle (']' :: cs) = (lex .idle cs).map ([Tok.rbr] ++ ·) := by
  show (do let t ← flush .idle; let rest ← lex .idle cs; pure (t.toList ++ Tok.rbr :: rest)) = _
  cases lex .idle cs <;> rfl

theorem lex_idle_sign (sg : Option Bool) (cs : List Char) :
    lex .idle (signChars sg ++ cs) = (lex .idle cs).map (signToks sg ++ ·) := by
  match sg with
  | none => exact (exmap_id _).symm
  | some false => exact lex_idle_plus cs
  | some true => exact lex_idle_minus cs

theorem term_blank_append {ws rest : List Char} (hw : AllBlank ws) (hr : Term rest) : Term (ws ++ rest) := by
  cases ws with
  | nil => exact hr
  | cons c ws => exact Or.inr ⟨c, ws ++ rest, rfl, by simp [isTermChar, hw c (by simp)]⟩

theorem term_comma (cs : List Char) : Term (',' :: cs) := Or.inr ⟨',', cs, rfl, rfl⟩
theorem term_rbr (cs : List Char) : Term (']' :: cs) := Or.inr ⟨']', cs, rfl, rfl⟩
theorem term_rpar (cs : List Char) : Term (')' :: cs) := Or.inr ⟨')', cs, rfl, rfl⟩

/-- The scanner reads a written element back as its sign token (if any) and its number token. -/
theorem lex_item (it : Item) (hv : it.Valid) (rest : List Char) (hr : Term rest) :
    lex .idle (it.chars ++ rest) = (lex .idle rest).map (it.toks ++ ·) := by
  obtain ⟨hpre, hgap, hpost, hlit⟩ := hv
  simp only [Item.chars, List.append_assoc]
  rw [lex_idle_blanks _ hpre, lex_idle_sign, lex_idle_blanks _ hgap,
    lex_lit _ hlit _ (term_blank_append hpost hr), lex_idle_blanks _ hpost]
  cases lex .idle rest <;> simp [Except.map, Item.toks]

def seqChars : List Item → List Char
  | [] => []
  | [x] => x.chars
  | x :: y :: xs => x.chars ++ ',' :: seqChars (y :: xs)

def seqToks : List Item → List Tok
  | [] => []
  | [x] => x.toks
  | x :: y :: xs => x.toks ++ Tok.comma :: seqToks (y :: xs)

theorem lex_seq (xs : List Item) (hv : ∀ it ∈ xs, it.Valid) (rest : List Char) (hr : Term rest) :
    lex .idle (seqChars xs ++ rest) = (lex .idle rest).map (seqToks xs ++ ·) := by
  induction xs with
  | nil => exact (exmap_id _).symm
  | cons x xs ih =>
    cases xs with
    | nil => exact lex_item x (hv x (by simp)) rest hr
    | cons y xs =>
      simp only [seqChars, seqToks, List.append_assoc, List.cons_append]
      rw [lex_item x (hv x (by simp)) _ (term_comma _), lex_idle_comma,
        ih (fun it hit => hv it (by simp [hit]))]
      cases lex .idle rest <;> simp [Except.map]

/-! ### the parser on such token sequences -/

def signList : Option Bool → List Bool
  | none => []
  | some b => [b]

/-- the expression tree of a written element -/
def Item.ast (it : Item) : Ast := applySigns (signList it.sign) (.num it.lit.value it.lit.isInt)

theorem parse_item (il sc : Bool) (items : List Ast) (stack : List Frame) (it : Item) (rest : List Tok) :
    parseToks ⟨il, items, sc, [], true⟩ stack (it.toks ++ rest) =
      parseToks ⟨il, it.ast :: items, sc, [], false⟩ stack rest := by
  obtain ⟨pre, sg, gap, lit, post⟩ := it
  match sg with
  | none => simp [Item.toks, signToks, parseToks, Frame.push, applySigns, Item.ast, signList]
  | some false => simp [Item.toks, signToks, parseToks, Frame.push, applySigns, Item.ast, signList]
  | some true => simp [Item.toks, signToks, parseToks, Frame.push, applySigns, Item.ast, signList]

theorem parse_seq (il sc : Bool) (items : List Ast) (stack : List Frame) (xs : List Item) (hne : xs ≠ [])
    (rest : List Tok) :
    parseToks ⟨il, items, sc, [], true⟩ stack (seqToks xs ++ rest) =
      parseToks ⟨il, (xs.map Item.ast).reverse ++ items, sc || decide (1 < xs.length), [], false⟩ stack rest := by
  induction xs generalizing items sc with
  | nil => exact absurd rfl hne
  | cons x xs ih =>
    cases xs with
    | nil =>
      simp only [seqToks, List.map_cons, List.map_nil, List.reverse_cons, List.reverse_nil, List.nil_append,
        List.singleton_append, List.length_cons, List.length_nil]
      rw [parse_item]
      simp
    | cons y xs =>
      simp only [seqToks, List.append_assoc, List.cons_append]
      rw [parse_item]
      rw [parseToks]
      simp only [Bool.false_eq_true, if_false]
      rw [ih _ _ (by simp)]
      simp

theorem conv_num_ast : ∀ it : Item, conv it.ast = .ok (.num it.num) := by
  intro it
  obtain ⟨pre, sg, gap, lit, post⟩ := it
  match sg with
  | none => simp [Item.ast, signList, applySigns, conv, Item.num, Item.value]
  | some false => simp [Item.ast, signList, applySigns, conv, Item.num, Item.value]
  | some true => simp [Item.ast, signList, applySigns, conv, Item.num, Item.value]

theorem convList_items (xs : List Item) : convList (xs.map Item.ast) = .ok (xs.map fun it => Val.num it.num) := by
  induction xs with
  | nil => rfl
  | cons x xs ih =>
    simp only [List.map_cons, convList, conv_num_ast, ih]
    rfl

theorem shapes_nums (ns : List Num) : shapes (ns.map Val.num) = some (List.replicate ns.length []) := by
  induction ns with
  | nil => rfl
  | cons n ns ih => simp [shapes, shape, ih, List.replicate_succ]

theorem flatList_nums (ns : List Num) : flatList (ns.map Val.num) = ns.map (·.q) := by
  induction ns with
  | nil => rfl
  | cons n ns ih => simp [flatList, flat, ih]

theorem npArray_nums (ns : List Num) : npArray (.seq (ns.map Val.num)) = .ok (ns.map (·.q)) := by
  unfold npArray
  have hs : shape (.seq (ns.map Val.num)) ≠ none := by
    rw [shape, shapes_nums]
    cases ns with
    | nil => simp
    | cons n ns => simp [List.replicate_succ]
  cases h : shape (.seq (ns.map Val.num)) with
  | none => exact absurd h hs
  | some sh => simp [flat, flatList_nums]

/-! ### characters of the rendering -/

/-- characters that occur in a written list of decimals -/
def plainChar (c : Char) : Bool := (digitVal c).isSome || c = '.' || isBlank c || c = ',' || c = '+' || c = '-'

theorem plainChar_digit : ∀ d : Fin 10, plainChar (digitChar d) = true := by decide

theorem plain_supported {c : Char} (h : plainChar c = true) : supportedChar c = true := by
  simp only [plainChar, Bool.or_eq_true, decide_eq_true_eq] at h
  rcases h with ((((h | h) | h) | h) | h) | h
  · simp [supportedChar, h]
  · subst h; rfl
  · simp [supportedChar, h]
  · subst h; rfl
  · subst h; rfl
  · subst h; rfl

theorem plain_ne {c : Char} (h : plainChar c = true) : c ≠ 'l' ∧ c ≠ 'r' ∧ c ≠ '(' ∧ c ≠ ')' ∧ c ≠ '[' ∧ c ≠ ']' := by
  refine ⟨?_, ?_, ?_, ?_, ?_, ?_⟩ <;> (rintro rfl; revert h; decide)

theorem plain_blank {ws : List Char} (h : AllBlank ws) : ∀ c ∈ ws, plainChar c = true := by
  intro c hc; simp [plainChar, h c hc]

theorem plain_lit (d : DecLit) : ∀ c ∈ d.chars, plainChar c = true := by
  intro c hc
  simp only [DecLit.chars, List.mem_append, List.mem_map] at hc
  rcases hc with ⟨d', _, rfl⟩ | hc
  · exact plainChar_digit d'
  · cases hfp : d.fp with
    | none => simp [hfp] at hc
    | some f =>
      simp only [hfp, List.mem_cons, List.mem_map] at hc
      rcases hc with rfl | ⟨d', _, rfl⟩
      · rfl
      · exact plainChar_digit d'

theorem plain_item (it : Item) (hv : it.Valid) : ∀ c ∈ it.chars, plainChar c = true := by
  obtain ⟨hpre, hgap, hpost, _⟩ := hv
  intro c hc
  simp only [Item.chars, List.mem_append] at hc
  rcases hc with hc | hc | hc | hc | hc
  · exact plain_blank hpre c hc
  · match hs : it.sign with
    | none => simp [hs, signChars] at hc
    | some false => simp only [hs, signChars, List.mem_singleton] at hc; subst hc; rfl
    | some true => simp only [hs, signChars, List.mem_singleton] at hc; subst hc; rfl
  · exact plain_blank hgap c hc
  · exact plain_lit _ c hc
  · exact plain_blank hpost c hc

theorem plain_seq (xs : List Item) (hv : ∀ it ∈ xs, it.Valid) : ∀ c ∈ seqChars xs, plainChar c = true := by
  induction xs with
  | nil => intro c hc; simp [seqChars] at hc
  | cons x xs ih =>
    cases xs with
    | nil => exact plain_item x (hv x (by simp))
    | cons y xs =>
      intro c hc
      simp only [seqChars, List.mem_append, List.mem_cons] at hc
      rcases hc with hc | rfl | hc
      · exact plain_item x (hv x (by simp)) c hc
      · rfl
      · exact ih (fun it hit => hv it (by simp [hit])) c hc

/-- a word cannot occur in a text that lacks its first letter -/
theorem isInfix_false_of_not_mem (c : Char) (pat s : List Char) (h : c ∉ s) : isInfix (c :: pat) s = false := by
  induction s with
  | nil => rfl
  | cons x xs ih =>
    simp only [List.mem_cons, not_or] at h
    rw [isInfix, ih h.2]
    simp only [List.isPrefixOf, Bool.or_false, Bool.and_eq_false_imp, beq_iff_eq]
    intro hcx; exact absurd hcx h.1

theorem afterFirst_append (c : Char) (p rest : List Char) (h : c ∉ p) : afterFirst c (p ++ c :: rest) = some rest := by
  induction p with
  | nil => simp [afterFirst]
  | cons x xs ih =>
    simp only [List.mem_cons, not_or] at h
    simp only [List.cons_append, afterFirst]
    rw [if_neg (fun hx => h.1 hx.symm), ih h.2]

theorem beforeFirst_append (c : Char) (p rest : List Char) (h : c ∉ p) : beforeFirst c (p ++ c :: rest) = p := by
  induction p with
  | nil => simp [beforeFirst]
  | cons x xs ih =>
    simp only [List.mem_cons, not_or] at h
    simp only [List.cons_append, beforeFirst]
    rw [if_neg (fun hx => h.1 hx.symm), ih h.2]

/-! ### whole texts: a bracketed list, a bare comma-separated sequence -/

/-- a list as written: blanks, `[`, the elements separated by commas, optionally a trailing comma, blanks, `]`, blanks -/
structure ListText where
  pre : List Char
  items : List Item
  trailing : Bool
  inner : List Char
  post : List Char

def ListText.chars (t : ListText) : List Char :=
  t.pre ++ '[' :: (seqChars t.items ++ ((if t.trailing then [','] else []) ++ (t.inner ++ ']' :: t.post)))

def ListText.Valid (t : ListText) : Prop :=
  AllBlank t.pre ∧ AllBlank t.inner ∧ AllBlank t.post ∧ (∀ it ∈ t.items, it.Valid) ∧ (t.trailing = true → t.items ≠ [])

def ListText.toks (t : ListText) : List Tok :=
  Tok.lbr :: (seqToks t.items ++ ((if t.trailing then [Tok.comma] else []) ++ [Tok.rbr]))

theorem lex_listText (t : ListText) (hv : t.Valid) : lex .idle t.chars = .ok t.toks := by
  obtain ⟨hpre, hinner, hpost, hitems, _⟩ := hv
  have hend : lex .idle (t.inner ++ ']' :: t.post) = .ok [Tok.rbr] := by
    rw [lex_idle_blanks _ hinner, lex_idle_rbr]
    have : lex .idle t.post = .ok [] := by
      have := lex_idle_blanks t.post hpost []
      rw [List.append_nil] at this
      rw [this]; rfl
    rw [this]; rfl
  unfold ListText.chars ListText.toks
  rw [lex_idle_blanks _ hpre, lex_idle_lbr]
  cases t.trailing with
  | false =>
    simp only [Bool.false_eq_true, if_false, List.nil_append]
    rw [lex_seq _ hitems _ (term_blank_append hinner (term_rbr _)), hend]
    rfl
  | true =>
    simp only [if_true, List.singleton_append]
    rw [lex_seq _ hitems _ (term_comma _), lex_idle_comma, hend]
    rfl

theorem parse_listText (t : ListText) (hv : t.Valid) :
    parseToks (Frame.new false) [] t.toks = .ok (.seq (t.items.map Item.ast)) := by
  obtain ⟨_, _, _, _, htr⟩ := hv
  unfold ListText.toks
  rw [parseToks]
  simp only [Frame.new, if_true]
  by_cases hne : t.items = []
  · have : t.trailing = false := by
      cases h : t.trailing with
      | false => rfl
      | true => exact absurd hne (htr h)
    simp [hne, this, seqToks, parseToks, Frame.close, Frame.push, applySigns]
    rfl
  · rw [parse_seq _ _ _ _ _ hne]
    cases t.trailing with
    | false => simp [parseToks, Frame.close, Frame.push, applySigns]; rfl
    | true => simp [parseToks, Frame.close, Frame.push, applySigns]; rfl

theorem supported_listText (t : ListText) (hv : t.Valid) : t.chars.all supportedChar = true := by
  obtain ⟨hpre, hinner, hpost, hitems, _⟩ := hv
  rw [List.all_eq_true]
  intro c hc
  simp only [ListText.chars, List.mem_append, List.mem_cons] at hc
  rcases hc with hc | rfl | hc | hc | hc | rfl | hc
  · exact plain_supported (plain_blank hpre c hc)
  · rfl
  · exact plain_supported (plain_seq _ hitems c hc)
  · cases htr : t.trailing with
    | false => simp [htr] at hc
    | true => simp only [htr, if_true, List.mem_singleton] at hc; subst hc; rfl
  · exact plain_supported (plain_blank hinner c hc)
  · rfl
  · exact plain_supported (plain_blank hpost c hc)

theorem no_letter_listText (t : ListText) (hv : t.Valid) : 'l' ∉ t.chars ∧ 'r' ∉ t.chars := by
  obtain ⟨hpre, hinner, hpost, hitems, _⟩ := hv
  have key : ∀ c ∈ t.chars, c ≠ 'l' ∧ c ≠ 'r' := by
    intro c hc
    simp only [ListText.chars, List.mem_append, List.mem_cons] at hc
    rcases hc with hc | rfl | hc | hc | hc | rfl | hc
    · exact ⟨(plain_ne (plain_blank hpre c hc)).1, (plain_ne (plain_blank hpre c hc)).2.1⟩
    · decide
    · exact ⟨(plain_ne (plain_seq _ hitems c hc)).1, (plain_ne (plain_seq _ hitems c hc)).2.1⟩
    · cases htr : t.trailing with
      | false => simp [htr] at hc
      | true => simp only [htr, if_true, List.mem_singleton] at hc; subst hc; decide
    · exact ⟨(plain_ne (plain_blank hinner c hc)).1, (plain_ne (plain_blank hinner c hc)).2.1⟩
    · decide
    · exact ⟨(plain_ne (plain_blank hpost c hc)).1, (plain_ne (plain_blank hpost c hc)).2.1⟩
  exact ⟨fun h => (key _ h).1 rfl, fun h => (key _ h).2 rfl⟩

/-- `literal_eval` of a written list is the list of its numbers. -/
theorem literalEval_listText (t : ListText) (hv : t.Valid) :
    literalEval t.chars = .ok (.seq (t.items.map fun it => Val.num it.num)) := by
  unfold literalEval
  rw [supported_listText t hv]
  simp only [Bool.not_true, Bool.false_eq_true, if_false, bind, Except.bind]
  rw [lex_listText t hv]
  simp only
  rw [parse_listText t hv]
  simp only [conv, convList_items, bind, Except.bind]
  rfl

/-- the bare sequence `a, b, c` (the argument text of linspace / range) at top level:
one element is that number, several are a tuple -/
theorem parse_bare (xs : List Item) (hne : xs ≠ []) :
    parseToks (Frame.new false) [] (seqToks xs) =
      .ok (match xs with | [x] => x.ast | _ => .seq (xs.map Item.ast)) := by
  have := parse_seq false false [] [] xs hne []
  rw [List.append_nil] at this
  unfold Frame.new
  rw [this]
  match xs, hne with
  | [x], _ => simp [parseToks, Frame.close]
  | x :: y :: xs, _ =>
    simp only [parseToks, Frame.close]
    simp

theorem lex_bare (xs : List Item) (hv : ∀ it ∈ xs, it.Valid) : lex .idle (seqChars xs) = .ok (seqToks xs) := by
  have := lex_seq xs hv [] (Or.inl rfl)
  rw [List.append_nil] at this
  rw [this]
  simp [lex, flush, Except.map, pure, Except.pure, bind, Except.bind]

/-- `_read_within_brackets` on `prefix(a, b, …)suffix`: the written numbers, in order, with their int-ness. -/
theorem readWithinBrackets_call (pfx sfx : List Char) (xs : List Item) (hne : xs ≠ []) (hv : ∀ it ∈ xs, it.Valid)
    (hp : '(' ∉ pfx) :
    readWithinBrackets (pfx ++ '(' :: (seqChars xs ++ ')' :: sfx)) = .ok (xs.map Item.num) := by
  unfold readWithinBrackets
  rw [afterFirst_append _ _ _ hp]
  simp only
  rw [beforeFirst_append _ _ _ (fun h => (plain_ne (plain_seq xs hv _ h)).2.2.2.1 rfl)]
  unfold literalEval
  have hsup : (seqChars xs).all supportedChar = true := by
    rw [List.all_eq_true]; intro c hc; exact plain_supported (plain_seq xs hv c hc)
  rw [hsup]
  simp only [Bool.not_true, Bool.false_eq_true, if_false, bind, Except.bind]
  rw [lex_bare xs hv]
  simp only
  rw [parse_bare xs hne]
  match xs, hne with
  | [x], _ => simp [conv_num_ast]
  | x :: y :: xs, _ =>
    simp only [conv, convList_items, bind, Except.bind]
    have : ∀ l : List Item, (l.map fun it => Val.num it.num).mapM asNum = (.ok (l.map Item.num) : M _) := by
      intro l
      induction l with
      | nil => rfl
      | cons a l ih => simp [List.mapM_cons, asNum, ih, bind, Except.bind, pure, Except.pure]
    exact this _

/-- an unsigned (or `+`) integer literal: what `num` of linspace has to be -/
def IsCount (n : Item) (N : Nat) : Prop := n.lit.fp = none ∧ n.sign ≠ some true ∧ natOf n.lit.ip = N

theorem count_num (n : Item) (N : Nat) (h : IsCount n N) : n.num = ⟨(N : Rat), true⟩ := by
  obtain ⟨h1, h2, h3⟩ := h
  match hs : n.sign with
  | none => simp only [Item.num, Item.value, DecLit.value, DecLit.isInt, h1, h3, hs, Option.isNone_none]
  | some false => simp only [Item.num, Item.value, DecLit.value, DecLit.isInt, h1, h3, hs, Option.isNone_none]
  | some true => exact absurd hs h2

/-! ### tuples: `(a, b)`, `(a,)`, `(a)`, `()`, and the bare forms `a, b` / `a,` / `a` -/

/-- a tuple or a parenthesised / bare number as written; `paren = false` is the bare form (no brackets at all) -/
structure TupleText where
  paren : Bool
  pre : List Char
  items : List Item
  trailing : Bool
  inner : List Char
  post : List Char

def TupleText.chars (t : TupleText) : List Char :=
  t.pre ++ ((if t.paren then ['('] else []) ++ (seqChars t.items ++ ((if t.trailing then [','] else []) ++
    (t.inner ++ ((if t.paren then [')'] else []) ++ t.post)))))

def TupleText.Valid (t : TupleText) : Prop :=
  AllBlank t.pre ∧ AllBlank t.inner ∧ AllBlank t.post ∧ (∀ it ∈ t.items, it.Valid) ∧
  (t.trailing = true → t.items ≠ []) ∧ (t.paren = false → t.items ≠ [])

def TupleText.toks (t : TupleText) : List Tok :=
  (if t.paren then [Tok.lpar] else []) ++ (seqToks t.items ++ ((if t.trailing then [Tok.comma] else []) ++
    (if t.paren then [Tok.rpar] else [])))

/-- what `literal_eval` returns: `(x)` and bare `x` are the number itself, everything else a tuple -/
def TupleText.val (t : TupleText) : Val :=
  match t.items, t.trailing with
  | [x], false => .num x.num
  | _, _ => .seq (t.items.map fun it => Val.num it.num)

theorem lex_idle_lpar (cs : List Char) : lex .idle ('(' :: cs) = (lex .idle cs).map ([Tok.lpar] ++ ·) := by
  show (do let t ← flush .idle; let rest ← lex .idle cs; pure (t.toList ++ Tok.lpar :: rest)) = _
  cases lex .idle cs <;> rfl

theorem lex_idle_rpar (cs : List Char) : lex .idle (')' :: cs) = (lex .idle cs).map ([Tok.rpar] ++ ·) := by
  show (do let t ← flush .idle; let rest ← lex .idle cs; pure (t.toList ++ Tok.rpar :: rest)) = _
  cases lex .idle cs <;> rfl

theorem lex_blanks_end (ws : List Char) (h : AllBlank ws) : lex .idle ws = .ok [] := by
  have := lex_idle_blanks ws h []
  rw [List.append_nil] at this
  rw [this]; rfl

theorem lex_tupleText (t : TupleText) (hv : t.Valid) : lex .idle t.chars = .ok t.toks := by
  obtain ⟨hpre, hinner, hpost, hitems, _, _⟩ := hv
  unfold TupleText.chars TupleText.toks
  rw [lex_idle_blanks _ hpre]
  cases t.paren with
  | true =>
    have hend : lex .idle (t.inner ++ ([')'] ++ t.post)) = .ok [Tok.rpar] := by
      rw [lex_idle_blanks _ hinner, List.singleton_append, lex_idle_rpar, lex_blanks_end _ hpost]; rfl
    simp only [if_true, List.singleton_append]
    rw [lex_idle_lpar]
    cases t.trailing with
    | false =>
      simp only [Bool.false_eq_true, if_false, List.nil_append]
      rw [lex_seq _ hitems _ (term_blank_append hinner (term_rpar _))]
      rw [show t.inner ++ ')' :: t.post = t.inner ++ ([')'] ++ t.post) by simp, hend]
      rfl
    | true =>
      simp only [if_true, List.singleton_append]
      rw [lex_seq _ hitems _ (term_comma _), lex_idle_comma]
      rw [show t.inner ++ ')' :: t.post = t.inner ++ ([')'] ++ t.post) by simp, hend]
      rfl
  | false =>
    have hb : AllBlank (t.inner ++ t.post) := fun c hc => by
      rcases List.mem_append.mp hc with h | h
      · exact hinner c h
      · exact hpost c h
    have hend : lex .idle (t.inner ++ t.post) = .ok [] := lex_blanks_end _ hb
    have ht : Term (t.inner ++ t.post) := by
      have := term_blank_append hb (Or.inl rfl : Term [])
      simpa using this
    simp only [Bool.false_eq_true, if_false, List.nil_append, List.append_nil]
    cases t.trailing with
    | false =>
      simp only [Bool.false_eq_true, if_false, List.nil_append, List.append_nil]
      rw [lex_seq _ hitems _ ht, hend]
      simp [Except.map]
    | true =>
      simp only [if_true, List.singleton_append]
      rw [lex_seq _ hitems _ (term_comma _), lex_idle_comma, hend]
      rfl

theorem parse_tupleText (t : TupleText) (hv : t.Valid) :
    (parseToks (Frame.new false) [] t.toks >>= conv) = .ok t.val := by
  obtain ⟨_, _, _, _, htr, hbare⟩ := hv
  unfold TupleText.toks TupleText.val
  by_cases hne : t.items = []
  · have h1 : t.trailing = false := by
      cases h : t.trailing with
      | false => rfl
      | true => exact absurd hne (htr h)
    have h2 : t.paren = true := by
      cases h : t.paren with
      | true => rfl
      | false => exact absurd hne (hbare h)
    simp [hne, h1, h2, seqToks, parseToks, Frame.new, Frame.close, Frame.push, applySigns, bind, Except.bind, conv,
      convList, pure, Except.pure]
  · cases hp : t.paren with
    | true =>
      simp only [if_true, List.singleton_append]
      rw [parseToks]
      simp only [Frame.new, if_true]
      rw [parse_seq _ _ _ _ _ hne]
      match hi : t.items, hne with
      | [x], _ =>
        cases t.trailing with
        | false =>
          simp [parseToks, Frame.close, Frame.push, applySigns, bind, Except.bind, conv_num_ast]
        | true =>
          simp [parseToks, Frame.close, Frame.push, applySigns, bind, Except.bind, conv, convList, conv_num_ast, pure, Except.pure]
      | x :: y :: xs, _ =>
        have hc := convList_items (x :: y :: xs)
        simp only [List.map_cons] at hc
        cases t.trailing with
        | false =>
          simp [parseToks, Frame.close, Frame.push, applySigns, bind, Except.bind, conv, hc, pure, Except.pure]
        | true =>
          simp [parseToks, Frame.close, Frame.push, applySigns, bind, Except.bind, conv, hc, pure, Except.pure]
    | false =>
      simp only [Bool.false_eq_true, if_false, List.nil_append, List.append_nil]
      unfold Frame.new
      rw [parse_seq _ _ _ _ _ hne]
      match hi : t.items, hne with
      | [x], _ =>
        cases t.trailing with
        | false =>
          simp [parseToks, Frame.close, bind, Except.bind, conv_num_ast]
        | true =>
          simp [parseToks, Frame.close, bind, Except.bind, conv, convList, conv_num_ast, pure, Except.pure]
      | x :: y :: xs, _ =>
        have hc := convList_items (x :: y :: xs)
        simp only [List.map_cons] at hc
        cases t.trailing with
        | false =>
          simp [parseToks, Frame.close, bind, Except.bind, conv, hc, pure, Except.pure]
        | true =>
          simp [parseToks, Frame.close, bind, Except.bind, conv, hc, pure, Except.pure]

theorem plain_tupleText (t : TupleText) (hv : t.Valid) :
    ∀ c ∈ t.chars, plainChar c = true ∨ c = '(' ∨ c = ')' := by
  obtain ⟨hpre, hinner, hpost, hitems, _, _⟩ := hv
  intro c hc
  simp only [TupleText.chars, List.mem_append] at hc
  rcases hc with hc | hc | hc | hc | hc | hc | hc
  · exact Or.inl (plain_blank hpre c hc)
  · cases hp : t.paren with
    | false => simp [hp] at hc
    | true => simp only [hp, if_true, List.mem_singleton] at hc; exact Or.inr (Or.inl hc)
  · exact Or.inl (plain_seq _ hitems c hc)
  · cases htr : t.trailing with
    | false => simp [htr] at hc
    | true => simp only [htr, if_true, List.mem_singleton] at hc; subst hc; exact Or.inl rfl
  · exact Or.inl (plain_blank hinner c hc)
  · cases hp : t.paren with
    | false => simp [hp] at hc
    | true => simp only [hp, if_true, List.mem_singleton] at hc; exact Or.inr (Or.inr hc)
  · exact Or.inl (plain_blank hpost c hc)

theorem literalEval_tupleText (t : TupleText) (hv : t.Valid) : literalEval t.chars = .ok t.val := by
  unfold literalEval
  have hsup : t.chars.all supportedChar = true := by
    rw [List.all_eq_true]
    intro c hc
    rcases plain_tupleText t hv c hc with h | rfl | rfl
    · exact plain_supported h
    · rfl
    · rfl
  rw [hsup]
  simp only [Bool.not_true, Bool.false_eq_true, if_false, bind, Except.bind]
  rw [lex_tupleText t hv]
  simp only
  exact parse_tupleText t hv

theorem no_letter_tupleText (t : TupleText) (hv : t.Valid) : 'l' ∉ t.chars ∧ 'r' ∉ t.chars := by
  have key : ∀ c ∈ t.chars, c ≠ 'l' ∧ c ≠ 'r' := by
    intro c hc
    rcases plain_tupleText t hv c hc with h | rfl | rfl
    · exact ⟨(plain_ne h).1, (plain_ne h).2.1⟩
    · decide
    · decide
  exact ⟨fun h => (key _ h).1 rfl, fun h => (key _ h).2 rfl⟩

theorem npArray_tupleVal (t : TupleText) : npArray t.val = .ok (t.items.map Item.value) := by
  unfold TupleText.val
  have hseq : npArray (.seq (t.items.map fun it => Val.num it.num)) = .ok (t.items.map Item.value) := by
    have : (t.items.map fun it => Val.num it.num) = (t.items.map Item.num).map Val.num := by simp
    rw [this, npArray_nums]
    simp [Item.num]
  split
  · rename_i x h1 _
    simp [npArray, shape, flat, h1, Item.num]
  · exact hseq

end Molgri.Trans
