/-
Helper lemmas for C03 (direction-grid Voronoi logic).  Property theorems are in `Molgri/Props/C03.lean`.
-/
import Molgri.Model.Voronoi
import Mathlib.Data.List.Nodup
import Mathlib.Data.List.Forall2
import Mathlib.Tactic.Ring
import Mathlib.Tactic.Linarith
import Mathlib.Tactic.LinearCombination
import Mathlib.Algebra.Order.Field.Basic
import Mathlib.Algebra.Order.Field.Rat

namespace Molgri.Voronoi

/-! ### `mapE` -/

theorem mapE_ok_iff {ε α β : Type} (f : α → Except ε β) (l : List α) (r : List β) :
    mapE f l = .ok r ↔ List.Forall₂ (fun a b => f a = .ok b) l r := by
  induction l generalizing r with
  | nil =>
    cases r with
    | nil => simp [mapE]
    | cons b bs => simp [mapE]
  | cons a l ih =>
    unfold mapE
    cases hfa : f a with
    | error e =>
      simp only [reduceCtorEq, false_iff]
      intro h
      cases h with
      | cons h1 _ => rw [hfa] at h1; cases h1
    | ok b =>
      cases hm : mapE f l with
      | error e =>
        simp only [reduceCtorEq, false_iff]
        intro h
        cases h with
        | cons _ h2 => rw [← ih, hm] at h2; cases h2
      | ok bs =>
        simp only [Except.ok.injEq]
        constructor
        · rintro rfl
          exact List.Forall₂.cons hfa ((ih bs).1 hm)
        · intro h
          cases h with
          | cons h1 h2 =>
            rw [hfa] at h1
            cases h1
            rw [← ih, hm] at h2
            cases h2
            rfl

theorem mapE_error {ε α β : Type} (f : α → Except ε β) (l : List α) (e : ε) :
    mapE f l = .error e → ∃ a ∈ l, f a = .error e := by
  induction l with
  | nil => simp [mapE]
  | cons a l ih =>
    unfold mapE
    cases hfa : f a with
    | error e' =>
      intro h
      cases h
      exact ⟨a, List.mem_cons_self, hfa⟩
    | ok b =>
      cases hm : mapE f l with
      | error e' =>
        intro h
        cases h
        obtain ⟨a', ha', h'⟩ := ih hm
        exact ⟨a', List.mem_cons_of_mem _ ha', h'⟩
      | ok bs => intro h; cases h

theorem mapE_total {ε α β : Type} (f : α → Except ε β) (l : List α)
    (h : ∀ a ∈ l, ∃ b, f a = .ok b) : ∃ r, mapE f l = .ok r := by
  cases hm : mapE f l with
  | ok r => exact ⟨r, rfl⟩
  | error e =>
    obtain ⟨a, ha, hfa⟩ := mapE_error f l e hm
    obtain ⟨b, hb⟩ := h a ha
    rw [hfa] at hb
    cases hb

/-! ### `Forall₂` membership -/

theorem forall₂_mem_right {α β : Type} {R : α → β → Prop} {l₁ : List α} {l₂ : List β}
    (h : List.Forall₂ R l₁ l₂) {b : β} (hb : b ∈ l₂) : ∃ a ∈ l₁, R a b := by
  induction h with
  | nil => cases hb
  | cons hab _ ih =>
    rcases List.mem_cons.1 hb with rfl | hb'
    · exact ⟨_, List.mem_cons_self, hab⟩
    · obtain ⟨a, ha, hr⟩ := ih hb'
      exact ⟨a, List.mem_cons_of_mem _ ha, hr⟩

theorem forall₂_mem_left {α β : Type} {R : α → β → Prop} {l₁ : List α} {l₂ : List β}
    (h : List.Forall₂ R l₁ l₂) {a : α} (ha : a ∈ l₁) : ∃ b ∈ l₂, R a b := by
  induction h with
  | nil => cases ha
  | cons hab _ ih =>
    rcases List.mem_cons.1 ha with rfl | ha'
    · exact ⟨_, List.mem_cons_self, hab⟩
    · obtain ⟨b, hb, hr⟩ := ih ha'
      exact ⟨b, List.mem_cons_of_mem _ hb, hr⟩

theorem nodup_getElem?_inj {α : Type} {l : List α} (h : l.Nodup) {i j : Nat} {o : α}
    (hi : l[i]? = some o) (hj : l[j]? = some o) : i = j := by
  obtain ⟨hi', ei⟩ := List.getElem?_eq_some_iff.1 hi
  obtain ⟨hj', ej⟩ := List.getElem?_eq_some_iff.1 hj
  exact (List.Nodup.getElem_inj_iff h).1 (ei.trans ej.symm)

/-! ### `dedupFirst` -/

section dedup
variable {α : Type} [DecidableEq α]

theorem mem_dedupFirst {a : α} {l : List α} : a ∈ dedupFirst l ↔ a ∈ l := by
  induction l with
  | nil => simp [dedupFirst]
  | cons b l ih =>
    simp only [dedupFirst, List.mem_cons, List.mem_filter, decide_eq_true_eq, ih]
    by_cases h : a = b
    · simp [h]
    · simp [h]

theorem nodup_dedupFirst (l : List α) : (dedupFirst l).Nodup := by
  induction l with
  | nil => simp [dedupFirst]
  | cons b l ih =>
    simp only [dedupFirst, List.nodup_cons, List.mem_filter, decide_eq_true_eq]
    exact ⟨fun h => h.2 rfl, ih.filter _⟩

theorem dedupFirst_sublist (l : List α) : (dedupFirst l).Sublist l := by
  induction l with
  | nil => simp [dedupFirst]
  | cons b l ih =>
    simp only [dedupFirst]
    exact List.Sublist.cons_cons _ (List.filter_sublist.trans ih)

theorem dedupFirst_of_nodup {l : List α} (h : l.Nodup) : dedupFirst l = l := by
  induction l with
  | nil => simp [dedupFirst]
  | cons b l ih =>
    rw [List.nodup_cons] at h
    simp only [dedupFirst, ih h.2]
    congr 1
    rw [List.filter_eq_self]
    intro a ha
    simp only [decide_eq_true_eq]
    rintro rfl
    exact h.1 ha

end dedup

/-! ### `combos2` -/

theorem mem_combos2 {n i j : Nat} : (i, j) ∈ combos2 n ↔ i < j ∧ j < n := by
  unfold combos2
  simp only [List.mem_flatMap, List.mem_range, List.mem_map, List.mem_filter, decide_eq_true_eq,
    Prod.mk.injEq]
  constructor
  · rintro ⟨a, _, b, ⟨hb, hab⟩, rfl, rfl⟩
    exact ⟨hab, hb⟩
  · rintro ⟨h1, h2⟩
    exact ⟨i, by omega, j, ⟨h2, h1⟩, rfl, rfl⟩

theorem nodup_combos2 (n : Nat) : (combos2 n).Nodup := by
  unfold combos2
  rw [List.nodup_flatMap]
  constructor
  · intro i _
    refine List.Nodup.map ?_ (List.nodup_range.filter _)
    intro a b h
    simpa using h
  · refine List.Pairwise.imp_of_mem ?_ (List.nodup_range (n := n))
    intro a b _ _ hab
    simp only [Function.onFun, List.disjoint_left, List.mem_map, List.mem_filter, List.mem_range,
      decide_eq_true_eq, not_exists, not_and]
    rintro ⟨p1, p2⟩ ⟨x, _, hx⟩ y _ hy
    simp only [Prod.mk.injEq] at hx hy
    exact hab (hx.1.trans hy.1.symm)

/-! ### `sharedIdx`, `isAdj` -/

theorem mem_sharedIdx {a : Nat} {r1 r2 : List Nat} : a ∈ sharedIdx r1 r2 ↔ a ∈ r1 ∧ a ∈ r2 := by
  unfold sharedIdx
  simp [List.mem_filter, mem_dedupFirst]

theorem nodup_sharedIdx (r1 r2 : List Nat) : (sharedIdx r1 r2).Nodup :=
  (nodup_dedupFirst r1).filter _

theorem sharedIdx_perm (r1 r2 : List Nat) : (sharedIdx r1 r2).Perm (sharedIdx r2 r1) := by
  rw [List.perm_ext_iff_of_nodup (nodup_sharedIdx _ _) (nodup_sharedIdx _ _)]
  intro a
  simp only [mem_sharedIdx]
  exact and_comm

theorem sharedIdx_length_comm (r1 r2 : List Nat) :
    (sharedIdx r1 r2).length = (sharedIdx r2 r1).length :=
  (sharedIdx_perm r1 r2).length_eq

theorem isAdj_comm (dim : Nat) (R : List (List Nat)) (i j : Nat) : isAdj dim R i j = isAdj dim R j i := by
  unfold isAdj
  rw [sharedIdx_length_comm]

/-- a duplicate-free list with at least two members has two different members -/
theorem two_distinct_of_nodup {l : List Nat} (h : l.Nodup) (h2 : 2 ≤ l.length) :
    ∃ a b, a ∈ l ∧ b ∈ l ∧ a ≠ b := by
  match l, h, h2 with
  | a :: b :: _, h, _ =>
    refine ⟨a, b, by simp, by simp, ?_⟩
    rw [List.nodup_cons] at h
    intro hab
    exact h.1 (by simp [hab])

/-! ### `adjPairs`, `nnPattern`, `nnEntries` -/

theorem mem_adjPairs {dim : Nat} {R : List (List Nat)} {i j : Nat} :
    (i, j) ∈ adjPairs dim R ↔ i < j ∧ j < R.length ∧ isAdj dim R i j = true := by
  unfold adjPairs
  simp only [List.mem_filter, mem_combos2]
  tauto

theorem nodup_adjPairs (dim : Nat) (R : List (List Nat)) : (adjPairs dim R).Nodup :=
  (nodup_combos2 _).filter _

theorem mem_nnPattern {dim : Nat} {R : List (List Nat)} {i j : Nat} :
    (i, j) ∈ nnPattern dim R ↔ i ≠ j ∧ i < R.length ∧ j < R.length ∧ isAdj dim R i j = true := by
  unfold nnPattern
  simp only [List.mem_flatMap, List.mem_cons, Prod.mk.injEq, List.not_mem_nil, or_false, Prod.exists]
  constructor
  · rintro ⟨a, b, hab, (⟨rfl, rfl⟩ | ⟨rfl, rfl⟩)⟩
    · obtain ⟨h1, h2, h3⟩ := mem_adjPairs.1 hab
      exact ⟨by omega, by omega, h2, h3⟩
    · obtain ⟨h1, h2, h3⟩ := mem_adjPairs.1 hab
      exact ⟨by omega, h2, by omega, by rw [isAdj_comm]; exact h3⟩
  · rintro ⟨hne, hi, hj, hadj⟩
    rcases Nat.lt_or_gt_of_ne hne with h | h
    · exact ⟨i, j, mem_adjPairs.2 ⟨h, hj, hadj⟩, Or.inl ⟨rfl, rfl⟩⟩
    · exact ⟨j, i, mem_adjPairs.2 ⟨h, hi, by rw [isAdj_comm]; exact hadj⟩, Or.inr ⟨rfl, rfl⟩⟩

theorem nodup_nnPattern (dim : Nat) (R : List (List Nat)) : (nnPattern dim R).Nodup := by
  unfold nnPattern
  rw [List.nodup_flatMap]
  constructor
  · rintro ⟨a, b⟩ hab
    have h := (mem_adjPairs.1 hab).1
    simp only [List.nodup_cons, List.mem_cons, Prod.mk.injEq, List.not_mem_nil, or_false,
      not_false_eq_true, List.nodup_nil, and_true]
    omega
  · refine List.Pairwise.imp_of_mem ?_ (nodup_adjPairs dim R)
    rintro ⟨a, b⟩ ⟨c, d⟩ hab hcd hne
    have h1 := (mem_adjPairs.1 hab).1
    have h2 := (mem_adjPairs.1 hcd).1
    have hne' : ¬(a = c ∧ b = d) := fun h => hne (by rw [h.1, h.2])
    simp only [Function.onFun, List.disjoint_left, List.mem_cons, List.not_mem_nil,
      or_false, not_or]
    rintro ⟨x, y⟩ (h | h) <;> simp only [Prod.mk.injEq] at h <;> obtain ⟨rfl, rfl⟩ := h <;>
      simp only [Prod.mk.injEq] <;> constructor <;> intro h3 <;> first | exact hne' h3 | exact hne' ⟨h3.2, h3.1⟩ | omega

/-- the blocks that `nnEntries` concatenates -/
theorem nnEntries_ok_iff {β : Type} (dim : Nat) (R : List (List Nat)) (val : Nat → Nat → Except String β)
    (es : List (Nat × Nat × β)) :
    nnEntries dim R val = .ok es ↔
      ∃ bs, List.Forall₂ (fun p b => ∃ v, val p.1 p.2 = .ok v ∧ b = block p v) (adjPairs dim R) bs ∧
        es = bs.flatten := by
  unfold nnEntries
  constructor
  · intro h
    split at h
    · cases h
    · rename_i bs hbs
      cases h
      refine ⟨bs, ?_, rfl⟩
      rw [mapE_ok_iff] at hbs
      refine hbs.imp ?_
      intro p b hpb
      unfold blockE at hpb
      cases hv : val p.1 p.2 with
      | error e => rw [hv] at hpb; cases hpb
      | ok v => rw [hv] at hpb; cases hpb; exact ⟨v, rfl, rfl⟩
  · rintro ⟨bs, hbs, rfl⟩
    have : mapE (blockE val) (adjPairs dim R) = .ok bs := by
      rw [mapE_ok_iff]
      refine hbs.imp ?_
      rintro p b ⟨v, hv, rfl⟩
      simp only [blockE, hv]
    rw [this]

theorem pattern_flatten_blocks {β : Type} {val : Nat → Nat → Except String β} {l : List (Nat × Nat)}
    {bs : List (List (Nat × Nat × β))}
    (h : List.Forall₂ (fun p b => ∃ v, val p.1 p.2 = .ok v ∧ b = block p v) l bs) :
    pattern bs.flatten = l.flatMap fun p => [(p.1, p.2), (p.2, p.1)] := by
  induction h with
  | nil => simp [pattern]
  | cons hpb _ ih =>
    obtain ⟨v, _, rfl⟩ := hpb
    simp only [List.flatten_cons, List.flatMap_cons]
    unfold pattern at ih ⊢
    rw [List.map_append, ih]
    simp [block]

theorem mem_flatten_blocks {β : Type} {val : Nat → Nat → Except String β} {l : List (Nat × Nat)}
    {bs : List (List (Nat × Nat × β))}
    (h : List.Forall₂ (fun p b => ∃ v, val p.1 p.2 = .ok v ∧ b = block p v) l bs) (e : Nat × Nat × β) :
    e ∈ bs.flatten ↔ ∃ p ∈ l, ∃ v, val p.1 p.2 = .ok v ∧ (e = (p.1, p.2, v) ∨ e = (p.2, p.1, v)) := by
  induction h with
  | nil => simp
  | cons hpb _ ih =>
    obtain ⟨v, hv, rfl⟩ := hpb
    simp only [List.flatten_cons, List.mem_append, ih, List.mem_cons, exists_eq_or_imp]
    constructor
    · rintro (h | h)
      · left
        refine ⟨v, hv, ?_⟩
        simpa [block] using h
      · right; exact h
    · rintro (⟨v', hv', h⟩ | h)
      · left
        rw [hv] at hv'
        cases hv'
        simpa [block] using h
      · right; exact h

theorem cooShape_ok {β : Type} {N : Nat} {es es' : List (Nat × Nat × β)} (h : cooShape N es = .ok es') :
    es' = es ∧ ∀ e ∈ es, e.1 < N ∧ e.2.1 < N := by
  unfold cooShape at h
  split at h
  · rename_i hall
    cases h
    refine ⟨rfl, ?_⟩
    intro e he
    have := List.all_eq_true.1 hall e he
    simpa using this
  · cases h

theorem nnArray_ok {β : Type} {dim N : Nat} {R : List (List Nat)} {val : Nat → Nat → Except String β}
    {es : List (Nat × Nat × β)} (h : nnArray dim N R val = .ok es) :
    nnEntries dim R val = .ok es ∧ ∀ e ∈ es, e.1 < N ∧ e.2.1 < N := by
  unfold nnArray at h
  split at h
  · cases h
  · rename_i es0 h0
    obtain ⟨rfl, h2⟩ := cooShape_ok h
    exact ⟨h0, h2⟩

/-! ### `borderVal` -/

section border
variable {K : Type} [Add K] [Sub K] [Mul K] [OfNat K 0] [DecidableEq K]

omit [Add K] [Sub K] [Mul K] [OfNat K 0] [DecidableEq K] in
theorem getVertex_ok {nv : List (V3 K)} {a : Nat} {v : V3 K} (h : getVertex nv a = .ok v) : nv[a]? = some v := by
  unfold getVertex at h
  cases hg : nv[a]? with
  | none => rw [hg] at h; cases h
  | some w => rw [hg] at h; cases h; rfl

theorem borderVal_ok {nv : List (V3 K)} {nr : List (List Nat)} {i j : Nat} {d : CosData K}
    (h : borderVal nv nr i j = .ok d) :
    ∃ a b rest va vb, sharedIdx (nr.getD i []) (nr.getD j []) = a :: b :: rest ∧
      nv[a]? = some va ∧ nv[b]? = some vb ∧ d = cosData va vb := by
  unfold borderVal at h
  simp only at h
  cases hvs : mapE (getVertex nv) (sharedIdx (nr.getD i []) (nr.getD j [])) with
  | error e => rw [hvs] at h; cases h
  | ok vs =>
    rw [hvs] at h
    simp only at h
    have hf := (mapE_ok_iff _ _ _).1 hvs
    by_cases hr : rankIs2 vs = true
    · rw [if_pos hr] at h
      match vs, hf, h with
      | va :: vb :: _, hf, h =>
        simp only [Except.ok.injEq] at h
        obtain ⟨a, u, h1, hf', hu⟩ := List.forall₂_cons_right_iff.1 hf
        obtain ⟨b, u', h2, _, hu'⟩ := List.forall₂_cons_right_iff.1 hf'
        exact ⟨a, b, u', va, vb, by rw [hu, hu'], getVertex_ok h1, getVertex_ok h2, h.symm⟩
      | [_], _, h => cases h
      | [], _, h => cases h
    · rw [if_neg hr] at h
      cases h

end border

/-! ### vectors -/

section field
variable {K : Type} [Field K]

theorem dot_comm (a b : V3 K) : dot a b = dot b a := by
  unfold dot; ring

theorem dot_vadd_left (a b c : V3 K) : dot (vadd a b) c = dot a c + dot b c := by
  unfold dot vadd; ring

theorem dot_smul_left (t : K) (a c : V3 K) : dot (smul t a) c = t * dot a c := by
  unfold dot smul; ring

theorem dot_vsub_self (x c : V3 K) :
    dot (vsub x c) (vsub x c) = dot x x - 2 * dot x c + dot c c := by
  unfold dot vsub; ring

end field

/-! ### `isclose` -/

theorem absQ_nonneg (x : Rat) : 0 ≤ absQ x := by
  unfold absQ
  split <;> linarith

theorem isclose_self (a : Rat) : isclose a a = true := by
  unfold isclose
  simp only [sub_self, decide_eq_true_eq]
  have h1 : absQ 0 = 0 := by unfold absQ; simp
  rw [h1]
  have := absQ_nonneg a
  positivity

theorem closeRow_self (v : V3 Rat) : closeRow v v = true := by
  unfold closeRow
  simp [isclose_self]

/-! ### the fast certificate is the certificate -/

section fast
variable {K : Type} [Add K] [Mul K] [LE K] [DecidableLE K]

theorem regionsCertifiedFast_eq (P nv : List (V3 K)) (nr : List (List Nat)) (ε : K) :
    regionsCertifiedFast P nv nr ε = regionsCertifiedB P nv nr ε := by
  unfold regionsCertifiedFast regionsCertifiedB
  simp only []
  congr 1
  funext i
  congr 1
  funext a
  rw [List.getElem?_map]
  cases hv : nv[a]? with
  | none => cases P[i]? <;> simp
  | some v =>
    simp only [Option.map_some]
    unfold certRowB dotRow
    rw [List.getElem?_map]
    cases hc : P[i]? with
    | none => simp
    | some c =>
      simp only [Option.map_some, certEpsB, List.all_map]
      rfl

end fast

end Molgri.Voronoi
