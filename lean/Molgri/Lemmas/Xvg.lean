/-
Helper lemmas for C20 (energy tables, grid files).  Property theorems are in `Molgri/Props/C20.lean`.
-/
import Molgri.Model.Xvg
import Molgri.Model.GridFiles
import Mathlib.Data.List.Basic
import Mathlib.Data.List.Induction
import Mathlib.Data.List.Nodup

namespace Molgri.Xvg

/-! ### `str.split` and `[-2]` -/

theorem splitOn_not_mem {c : Char} {l : List Char} (h : c ∉ l) : splitOn c l = [l] := by
  induction l with
  | nil => rfl
  | cons x xs ih =>
    have hx : x ≠ c := fun e => h (by simp [e])
    have hxs : c ∉ xs := fun e => h (by simp [e])
    simp [splitOn, hx, ih hxs]

theorem splitOn_append {c : Char} {a : List Char} (b : List Char) (h : c ∉ a) :
    splitOn c (a ++ c :: b) = a :: splitOn c b := by
  induction a with
  | nil => simp [splitOn]
  | cons x xs ih =>
    have hx : x ≠ c := fun e => h (by simp [e])
    have hxs : c ∉ xs := fun e => h (by simp [e])
    simp [splitOn, hx, ih hxs]

/-- the text between the last two quotes of `pre"text"tail` -/
theorem penultimate_split_quoted {pre t tail : List Char} (hp : '"' ∉ pre) (ht : '"' ∉ t) (hl : '"' ∉ tail) :
    penultimate (splitOn '"' (pre ++ '"' :: (t ++ '"' :: tail))) = some t := by
  rw [splitOn_append _ hp, splitOn_append _ ht, splitOn_not_mem hl]
  rfl

/-! ### legend prefixes -/

theorem digitChar_inj : ∀ i : Fin 10, ∀ k : Fin 10, digitChar i = digitChar k → i = k := by decide

theorem digitChar_ne_quote : ∀ i : Fin 10, digitChar i ≠ '"' := by decide

theorem legendPrefix_length (i : Nat) : (legendPrefix i).length = 11 := rfl

theorem startsWith_iff {p l : List Char} : startsWith p l = true ↔ p <+: l := by
  unfold startsWith; exact List.isPrefixOf_iff_prefix

theorem startsWith_legendPrefix_self (k : Nat) (rest : List Char) :
    startsWith (legendPrefix k) (legendPrefix k ++ rest) = true :=
  startsWith_iff.mpr (List.prefix_append _ _)

theorem startsWith_legendPrefix_ne {i k : Nat} (hi : i < 10) (hk : k < 10) (hik : i ≠ k) (rest : List Char) :
    startsWith (legendPrefix i) (legendPrefix k ++ rest) = false := by
  rw [Bool.eq_false_iff]
  intro h
  rw [startsWith_iff] at h
  obtain ⟨t, ht⟩ := h
  have h2 : legendPrefix i = legendPrefix k := (List.append_inj ht (by simp [legendPrefix_length])).1
  have h3 : digitChar i = digitChar k := by
    simp only [legendPrefix, List.cons.injEq] at h2
    exact h2.2.2.2.1
  have := digitChar_inj ⟨i, hi⟩ ⟨k, hk⟩ h3
  exact hik (by simpa using this)

/-- a line that does not begin with `@` matches no legend prefix -/
theorem startsWith_legendPrefix_of_head {l : Line} (h : startsWith ['@'] l = false) (i : Nat) :
    startsWith (legendPrefix i) l = false := by
  cases l with
  | nil => rfl
  | cons c cs =>
    simp only [startsWith, List.isPrefixOf, legendPrefix, Bool.and_eq_false_imp, Bool.and_true] at h ⊢
    intro hc
    simp [hc] at h

/-! ### `scanLegend`, `scanLines` -/

theorem scanLegend_none {line : Line} {is : List Nat} (acc : List Field)
    (h : ∀ i ∈ is, startsWith (legendPrefix i) line = false) : scanLegend line is acc = .ok acc := by
  induction is generalizing acc with
  | nil => rfl
  | cons i is ih =>
    have hi := h i (by simp)
    simp only [scanLegend, hi]
    exact ih acc (fun j hj => h j (by simp [hj]))

theorem scanLegend_append (line : Line) (is₁ is₂ : List Nat) (acc : List Field) :
    scanLegend line (is₁ ++ is₂) acc =
      match scanLegend line is₁ acc with
      | .ok acc' => scanLegend line is₂ acc'
      | .error e => .error e := by
  induction is₁ generalizing acc with
  | nil => rfl
  | cons i is ih =>
    simp only [List.cons_append, scanLegend]
    split
    · split
      · exact ih _
      · rfl
    · exact ih _

theorem range_ten_split : ∀ k : Fin 10,
    List.range 10 = List.range k.val ++ k.val :: List.range' (k.val + 1) (9 - k.val) := by decide

/-- the inner loop on a series-legend line `@ s<k> legend<pre>"<text>"<tail>` appends exactly `<text>` -/
theorem scanLegend_legend {k : Nat} (hk : k < 10) {pre t tail : List Char} (acc : List Field)
    (hp : '"' ∉ pre) (ht : '"' ∉ t) (hl : '"' ∉ tail) :
    scanLegend (legendPrefix k ++ pre ++ '"' :: (t ++ '"' :: tail)) (List.range 10) acc = .ok (acc ++ [t]) := by
  have hpre : '"' ∉ legendPrefix k ++ pre := by
    have := digitChar_ne_quote ⟨k, hk⟩
    simp only [legendPrefix, List.cons_append, List.nil_append, List.mem_cons, not_or]
    refine ⟨by decide, by decide, by decide, fun e => this e.symm, by decide, by decide, by decide, by decide, by decide,
      by decide, by decide, hp⟩
  rw [range_ten_split ⟨k, hk⟩, scanLegend_append]
  rw [scanLegend_none]
  · simp only [scanLegend]
    rw [List.append_assoc, startsWith_legendPrefix_self, if_pos rfl, ← List.append_assoc,
      penultimate_split_quoted hpre ht hl]
    simp only []
    rw [scanLegend_none]
    intro i hi
    rw [List.append_assoc]
    simp only [List.mem_range'_1] at hi
    exact startsWith_legendPrefix_ne (by omega) hk (by omega) _
  · intro i hi
    rw [List.append_assoc]
    simp only [List.mem_range] at hi
    exact startsWith_legendPrefix_ne (by omega) hk (by omega) _

theorem scanLegend_of_not_at {l : Line} (h : startsWith ['@'] l = false) (acc : List Field) :
    scanLegend l (List.range 10) acc = .ok acc :=
  scanLegend_none acc (fun i _ => startsWith_legendPrefix_of_head h i)

/-- lines that do not begin with `@` never add a name, whether or not the scan stops at one of them -/
theorem scanLines_no_at {ls : List Line} (h : ∀ l ∈ ls, startsWith ['@'] l = false) (acc : List Field) :
    scanLines ls acc = .ok acc := by
  induction ls with
  | nil => rfl
  | cons l ls ih =>
    simp only [scanLines, scanLegend_of_not_at (h l (by simp))]
    split
    · exact ih (fun x hx => h x (by simp [hx]))
    · rfl

theorem scanLines_header_cons {l : Line} {ls : List Line} {acc acc' : List Field}
    (h1 : scanLegend l (List.range 10) acc = .ok acc') (h2 : isHeaderLine l = true) :
    scanLines (l :: ls) acc = scanLines ls acc' := by
  simp [scanLines, h1, h2]

/-- `#` lines are passed over -/
theorem scanLines_hashes {hs : List Line} (h : ∀ l ∈ hs, startsWith ['#'] l = true) (rest : List Line)
    (acc : List Field) : scanLines (hs ++ rest) acc = scanLines rest acc := by
  induction hs with
  | nil => rfl
  | cons l ls ih =>
    have hl := h l (by simp)
    have hat : startsWith ['@'] l = false := by
      cases l with
      | nil => rfl
      | cons c cs =>
        simp only [startsWith, List.isPrefixOf, Bool.and_true, beq_iff_eq] at hl ⊢
        subst hl; decide
    rw [List.cons_append, scanLines_header_cons (scanLegend_of_not_at hat acc) (by simp [isHeaderLine, hl])]
    exact ih (fun x hx => h x (by simp [hx]))

/-! ### skipped rows -/

theorem skipStep_noQuote {s : SkipSt} {c : Char} (hs : s ≠ .inQuoted) (hc : c ≠ '"') :
    skipStep s c ≠ .inQuoted := by
  cases s <;> simp [skipStep, hc] at hs ⊢ <;> split <;> simp

theorem foldl_skipStep_noQuote {l : List Char} {s : SkipSt} (hs : s ≠ .inQuoted) (hl : '"' ∉ l) :
    l.foldl skipStep s ≠ .inQuoted := by
  induction l generalizing s with
  | nil => exact hs
  | cons c cs ih =>
    have hc : c ≠ '"' := fun e => hl (by simp [e])
    exact ih (skipStep_noQuote hs hc) (fun e => hl (by simp [e]))

theorem foldl_skipStep_inQuoted {l : List Char} (hl : '"' ∉ l) : l.foldl skipStep .inQuoted = .inQuoted := by
  induction l with
  | nil => rfl
  | cons c cs ih =>
    have hc : c ≠ '"' := fun e => hl (by simp [e])
    simp only [List.foldl_cons, skipStep, hc, if_false]
    exact ih (fun e => hl (by simp [e]))

theorem skipStep_blank {s : SkipSt} {b : Char} (hs : s ≠ .inQuoted) (hb : isBlank b = true) :
    skipStep s b = .startField := by
  have hq : b ≠ '"' := by
    intro e; subst e; simp [isBlank] at hb
  cases s <;> simp [skipStep, hb, hq] at hs ⊢

/-- a line without quotes ends its row -/
theorem skipEnd_noQuote {l : Line} (h : '"' ∉ l) : skipEnd l ≠ .inQuoted := by
  cases l with
  | nil => simp [skipEnd]
  | cons c cs =>
    have hc : c ≠ '"' := fun e => h (by simp [e])
    have : skipFirst c ≠ .inQuoted := by simp [skipFirst, hc]
    exact foldl_skipStep_noQuote this (fun e => h (by simp [e]))

/-- `pre␣"text"tail` (a quoted word after a blank, `pre` not empty): the quote opens and closes on the line -/
theorem skipEnd_quoted {pre t tail : List Char} {b : Char} (hne : pre ≠ []) (hp : '"' ∉ pre) (hb : isBlank b = true)
    (ht : '"' ∉ t) (hl : '"' ∉ tail) : skipEnd (pre ++ b :: '"' :: (t ++ '"' :: tail)) ≠ .inQuoted := by
  cases pre with
  | nil => exact absurd rfl hne
  | cons c cs =>
    have hc : c ≠ '"' := fun e => hp (by simp [e])
    have h0 : skipFirst c ≠ .inQuoted := by simp [skipFirst, hc]
    have h1 : cs.foldl skipStep (skipFirst c) ≠ .inQuoted :=
      foldl_skipStep_noQuote h0 (fun e => hp (by simp [e]))
    simp only [skipEnd, List.cons_append, List.foldl_append, List.foldl_cons]
    rw [skipStep_blank h1 hb]
    have h2 : skipStep .startField '"' = .inQuoted := by simp [skipStep]
    rw [h2, foldl_skipStep_inQuoted ht]
    have h3 : skipStep .inQuoted '"' = .quoteInQuoted := by simp [skipStep]
    rw [h3]
    exact foldl_skipStep_noQuote (by simp) hl

theorem skipRow_closed {l : Line} (ls : List Line) (h : skipEnd l ≠ .inQuoted) : skipRow (l :: ls) = ls := by
  simp [skipRow, h]

theorem skipRows_closed : ∀ (n : Nat) (hd rest : List Line), n ≤ hd.length →
    (∀ l ∈ hd.take n, skipEnd l ≠ .inQuoted) → skipRows n (hd ++ rest) = hd.drop n ++ rest
  | 0, hd, rest, _, _ => rfl
  | n + 1, [], rest, h, _ => by simp at h
  | n + 1, l :: ls, rest, h, hc => by
    have hl : skipEnd l ≠ .inQuoted := hc l (by simp)
    rw [List.cons_append, skipRows, skipRow_closed _ hl, List.drop_succ_cons]
    exact skipRows_closed n ls rest (by simpa using h) (fun x hx => hc x (by simp [hx]))

/-! ### data rows -/

/-- characters of a field: not a blank, not the comment character -/
def FieldChar (c : Char) : Prop := isBlank c = false ∧ c ≠ '@'

instance : DecidablePred FieldChar := fun c => inferInstanceAs (Decidable (isBlank c = false ∧ c ≠ '@'))

theorem tok_inField_chars {u : List Char} (hu : ∀ c ∈ u, FieldChar c) (cur : Field) (fs : List Field)
    (rest : List Char) : tok (.inField cur) fs (u ++ rest) = tok (.inField (cur ++ u)) fs rest := by
  induction u generalizing cur with
  | nil => simp
  | cons c cs ih =>
    obtain ⟨h1, h2⟩ := hu c (by simp)
    simp only [List.cons_append, tok, h1, h2, if_false]
    rw [ih (fun x hx => hu x (by simp [hx]))]
    simp

theorem tok_eatWs_blanks {w : List Char} (hw : ∀ c ∈ w, isBlank c = true) (fs : List Field) (rest : List Char) :
    tok .eatWs fs (w ++ rest) = tok .eatWs fs rest := by
  induction w with
  | nil => rfl
  | cons c cs ih =>
    simp only [List.cons_append, tok, hw c (by simp), if_true]
    exact ih (fun x hx => hw x (by simp [hx]))

/-! ### specification vocabulary for data lines (used by the statements in `Props/C20.lean`) -/

/-- a token: a non-empty run of characters that are neither blank nor `@`, not beginning with a double quote -/
def IsToken (t : Field) : Prop := t ≠ [] ∧ t.head? ≠ some '"' ∧ ∀ x ∈ t, FieldChar x

instance (t : Field) : Decidable (IsToken t) :=
  inferInstanceAs (Decidable (t ≠ [] ∧ t.head? ≠ some '"' ∧ ∀ x ∈ t, FieldChar x))

theorem IsToken.form {t : Field} (h : IsToken t) : (∃ c cs, t = c :: cs ∧ c ≠ '"') ∧ ∀ x ∈ t, FieldChar x := by
  obtain ⟨h1, h2, h3⟩ := h
  cases t with
  | nil => exact absurd rfl h1
  | cons c cs => exact ⟨⟨c, cs, rfl, fun e => h2 (by simp [e])⟩, h3⟩

/-- tokens, each followed by its run of blanks -/
def dataBody (cells : List (Field × List Char)) : List Char := cells.flatMap (fun p => p.1 ++ p.2)

/-- a data line: blanks, then the tokens each followed by blanks -/
def dataLine (lead : List Char) (cells : List (Field × List Char)) : Line := lead ++ dataBody cells

/-- every token but the last is followed by at least one blank -/
def SepsOk : List (Field × List Char) → Prop
  | [] => True
  | [_] => True
  | p :: q :: r => p.2 ≠ [] ∧ SepsOk (q :: r)

structure DataOk (lead : List Char) (cells : List (Field × List Char)) : Prop where
  lead_blank : ∀ c ∈ lead, isBlank c = true
  nonempty : cells ≠ []
  tokens : ∀ p ∈ cells, IsToken p.1
  seps_blank : ∀ p ∈ cells, ∀ c ∈ p.2, isBlank c = true
  seps : SepsOk cells

theorem SepsOk.tail {p : Field × List Char} {r : List (Field × List Char)} (h : SepsOk (p :: r)) : SepsOk r := by
  cases r with
  | nil => trivial
  | cons q r => exact h.2

theorem blank_ne_at {b : Char} (hb : isBlank b = true) : b ≠ '@' := by
  intro e; subst e; simp [isBlank] at hb

theorem blank_ne_quote {b : Char} (hb : isBlank b = true) : b ≠ '"' := by
  intro e; subst e; simp [isBlank] at hb

theorem tok_eatWs_nil (fs : List Field) : tok .eatWs fs [] = .ok fs := rfl

theorem tok_inField_nil (cur : Field) (fs : List Field) : tok (.inField cur) fs [] = .ok (fs ++ [cur]) := rfl

theorem tok_eatWs_start {c : Char} (h1 : isBlank c = false) (h2 : c ≠ '@') (h3 : c ≠ '"') (fs : List Field)
    (rest : List Char) : tok .eatWs fs (c :: rest) = tok (.inField [c]) fs rest := by
  simp [tok, h1, h2, h3]

theorem tok_inField_blank {b : Char} (hb : isBlank b = true) (cur : Field) (fs : List Field) (rest : List Char) :
    tok (.inField cur) fs (b :: rest) = tok .eatWs (fs ++ [cur]) rest := by
  simp [tok, hb]

/-- from inside the first character of a cell to the end of the line -/
theorem tok_cell {c : Char} {cs sep : List Char} {r : List (Field × List Char)} {fs out : List Field}
    (hcs : ∀ x ∈ cs, FieldChar x) (hsep : ∀ x ∈ sep, isBlank x = true) (hend : sep = [] → r = [])
    (ih : tok .eatWs (fs ++ [c :: cs]) (dataBody r) = .ok out) :
    tok (.inField [c]) fs (cs ++ (sep ++ dataBody r)) = .ok out := by
  rw [tok_inField_chars hcs]
  cases sep with
  | nil =>
    rw [hend rfl] at ih ⊢
    simpa [dataBody, tok_inField_nil, tok_eatWs_nil] using ih
  | cons b sep' =>
    simp only [List.cons_append, List.nil_append]
    rw [tok_inField_blank (hsep b (by simp)), tok_eatWs_blanks (fun x hx => hsep x (by simp [hx]))]
    exact ih

theorem dataBody_cons (t : Field) (sep : List Char) (r : List (Field × List Char)) :
    dataBody ((t, sep) :: r) = t ++ (sep ++ dataBody r) := by
  simp [dataBody]

theorem SepsOk.end {t : Field} {sep : List Char} {r : List (Field × List Char)} (h : SepsOk ((t, sep) :: r)) :
    sep = [] → r = [] := by
  intro hs
  cases r with
  | nil => rfl
  | cons q r => exact absurd hs h.1

theorem tok_body : ∀ (cells : List (Field × List Char)) (fs : List Field),
    (∀ p ∈ cells, IsToken p.1) → (∀ p ∈ cells, ∀ c ∈ p.2, isBlank c = true) → SepsOk cells →
    tok .eatWs fs (dataBody cells) = .ok (fs ++ cells.map (·.1))
  | [], fs, _, _, _ => by simp [dataBody, tok_eatWs_nil]
  | (t, sep) :: r, fs, ht, hs, hok => by
    have htok := (ht (t, sep) (by simp)).form
    obtain ⟨⟨c, cs, rfl, hq⟩, hchars⟩ := htok
    have hc := hchars c (by simp)
    have hcs : ∀ x ∈ cs, FieldChar x := fun x hx => hchars x (by simp [hx])
    have ih := tok_body r (fs ++ [c :: cs]) (fun p hp => ht p (by simp [hp])) (fun p hp => hs p (by simp [hp])) hok.tail
    rw [dataBody_cons, List.cons_append, tok_eatWs_start hc.1 hc.2 hq,
      tok_cell hcs (hs (c :: cs, sep) (by simp)) hok.end ih]
    simp

theorem tokLine_at {l : Line} (h : startsWith ['@'] l = true) : tokLine l = .ok none := by
  cases l with
  | nil => simp [startsWith, List.isPrefixOf] at h
  | cons c cs =>
    simp only [startsWith, List.isPrefixOf, Bool.and_true, beq_iff_eq] at h
    subst h
    simp [tokLine, pure, Except.pure]

theorem dataBody_not_all_blank {cells : List (Field × List Char)} (hne : cells ≠ [])
    (ht : ∀ p ∈ cells, IsToken p.1) (w : List Char) : (w ++ dataBody cells).all isBlank = false := by
  cases cells with
  | nil => exact absurd rfl hne
  | cons p r =>
    obtain ⟨⟨c, cs, hp, _⟩, hchars⟩ := (ht p (by simp)).form
    have hc := (hchars c (by simp [hp])).1
    rw [List.all_eq_false]
    refine ⟨c, ?_, by simp [hc]⟩
    simp [dataBody, hp]

theorem tokLine_field_start {c : Char} (h1 : isBlank c = false) (h2 : c ≠ '@') (h3 : c ≠ '"') (cs : List Char)
    {out : List Field} (h : tok (.inField [c]) [] cs = .ok out) : tokLine (c :: cs) = .ok (some out) := by
  simp [tokLine, h1, h2, h3, h, pure, Except.pure]

theorem tokLine_blank_start {b : Char} (hb : isBlank b = true) {cs : List Char} (hall : cs.all isBlank = false)
    {out : List Field} (h : tok .eatWs [] cs = .ok out) : tokLine (b :: cs) = .ok (some out) := by
  simp [tokLine, hb, blank_ne_at hb, hall, h, pure, Except.pure]

/-- a data line yields exactly its tokens -/
theorem tokLine_dataLine {lead : List Char} {cells : List (Field × List Char)} (h : DataOk lead cells) :
    tokLine (dataLine lead cells) = .ok (some (cells.map (·.1))) := by
  have hb := tok_body cells [] h.tokens h.seps_blank h.seps
  cases lead with
  | nil =>
    cases cells with
    | nil => exact absurd rfl h.nonempty
    | cons p r =>
      obtain ⟨t, sep⟩ := p
      obtain ⟨⟨c, cs, rfl, hq⟩, hchars⟩ := (h.tokens (t, sep) (by simp)).form
      have hc := hchars c (by simp)
      rw [dataBody_cons, List.cons_append, tok_eatWs_start hc.1 hc.2 hq] at hb
      rw [dataLine, List.nil_append, dataBody_cons, List.cons_append]
      exact tokLine_field_start hc.1 hc.2 hq _ (by simpa using hb)
  | cons b lead' =>
    have hbl := h.lead_blank b (by simp)
    rw [dataLine, List.cons_append]
    apply tokLine_blank_start hbl (dataBody_not_all_blank h.nonempty h.tokens lead')
    rw [tok_eatWs_blanks (fun x hx => h.lead_blank x (by simp [hx]))]
    simpa using hb

theorem tokRows_at_prefix {hd : List Line} (h : ∀ l ∈ hd, startsWith ['@'] l = true) (rest : List Line) :
    tokRows (hd ++ rest) = tokRows rest := by
  induction hd with
  | nil => rfl
  | cons l ls ih =>
    simp only [List.cons_append, tokRows, tokLine_at (h l (by simp)), ih (fun x hx => h x (by simp [hx]))]
    cases tokRows rest <;> rfl

theorem tokRows_data {data : List (List Char × List (Field × List Char))} (h : ∀ d ∈ data, DataOk d.1 d.2) :
    tokRows (data.map (fun d => dataLine d.1 d.2)) = .ok (data.map (fun d => d.2.map (·.1))) := by
  induction data with
  | nil => rfl
  | cons d ds ih =>
    simp only [List.map_cons, tokRows, tokLine_dataLine (h d (by simp)), ih (fun x hx => h x (by simp [hx]))]
    rfl

/-! ### the frame -/

theorem hasDup_eq_false {names : List Field} (h : names.Nodup) : hasDup names = false := by
  induction names with
  | nil => rfl
  | cons x xs ih =>
    rw [List.nodup_cons] at h
    simp [hasDup, h.1, ih h.2]

theorem pad_full {w : Nat} {r : List Field} (h : r.length = w) : pad w r = r.map some := by
  simp [pad, h]

/-- rows that all have exactly one token per name: no implicit index, nothing padded, nothing rejected -/
theorem readTable_full {names : List Field} {file : List Line} {rows : List (List Field)}
    (hn : names.Nodup) (hrows : tokRows (skipRows 13 file) = .ok rows) (hw : ∀ r ∈ rows, r.length = names.length) :
    readTable names file = .ok { names := names, lead := 0, rows := rows.map (List.map some) } := by
  have hwidth : expectedWidth names rows = names.length := by
    cases rows with
    | nil => rfl
    | cons r rs => simp [expectedWidth, hw r (by simp)]
  have hany : rows.any (fun r => names.length < r.length) = false := by
    rw [List.any_eq_false]
    intro r hr
    simp [hw r hr]
  have hpad : rows.map (pad names.length) = rows.map (List.map some) :=
    List.map_congr_left (fun r hr => pad_full (hw r hr))
  simp only [readTable, hasDup_eq_false hn, hrows, hwidth, hany, hpad]
  simp [pure, Except.pure]

/-! ### `table[name]` -/

theorem indexOf_getElem {names : List Field} (h : names.Nodup) {k : Nat} (hk : k < names.length) :
    indexOf names[k] names = some k := by
  induction names generalizing k with
  | nil => simp at hk
  | cons x xs ih =>
    rw [List.nodup_cons] at h
    cases k with
    | zero => simp [indexOf]
    | succ k =>
      have hk' : k < xs.length := by simpa using hk
      have hne : xs[k] ≠ x := fun e => h.1 (e ▸ List.getElem_mem hk')
      simp [indexOf, hne, ih h.2 hk']

theorem indexOf_none {names : List Field} {x : Field} (h : x ∉ names) : indexOf x names = none := by
  induction names with
  | nil => rfl
  | cons y ys ih =>
    have hne : x ≠ y := fun e => h (by simp [e])
    simp [indexOf, hne, ih (fun e => h (by simp [e]))]

/-! ### specification vocabulary for headers (used by the statements in `Props/C20.lean`) -/

/-- the series-legend line gmx writes: `@ s<k> legend`, blanks, `"text"`, anything quote-free -/
def legendLine (k : Nat) (ws text tail : List Char) : Line := legendPrefix k ++ ws ++ '"' :: (text ++ '"' :: tail)

/-- an `@` line of the header: a series legend (numbered by its position among the legends) or anything else -/
inductive AtLine
  | other (l : Line)
  | legend (ws text tail : List Char)

/-- the lines, the `k`-th legend getting the series number `k` -/
def renderAts : Nat → List AtLine → List Line
  | _, [] => []
  | k, .other l :: r => l :: renderAts k r
  | k, .legend ws t tl :: r => legendLine k ws t tl :: renderAts (k + 1) r

/-- the legend texts in file order -/
def legendsOf : List AtLine → List Field
  | [] => []
  | .other _ :: r => legendsOf r
  | .legend _ t _ :: r => t :: legendsOf r

/-- `other`: begins with `@`, is not a series legend `@ s0 legend` … `@ s9 legend`;
    `legend`: at least one blank before the opening quote, no quote inside the text or after the closing quote -/
def AtOk : AtLine → Prop
  | .other l => startsWith ['@'] l = true ∧ ∀ i < 10, startsWith (legendPrefix i) l = false
  | .legend ws t tl => ws ≠ [] ∧ (∀ c ∈ ws, isBlank c = true) ∧ '"' ∉ t ∧ '"' ∉ tl

instance (a : AtLine) : Decidable (AtOk a) := by
  cases a <;> unfold AtOk <;> infer_instance

/-- the row that starts on this line ends on this line when it is skipped (no quoted field is left open) -/
abbrev RowClosed (l : Line) : Prop := skipEnd l ≠ .inQuoted

theorem startsWith_at_legendLine (k : Nat) (ws t tl : List Char) : startsWith ['@'] (legendLine k ws t tl) = true := by
  simp [legendLine, legendPrefix, startsWith, List.isPrefixOf]

theorem renderAts_at {ats : List AtLine} (h : ∀ a ∈ ats, AtOk a) (k : Nat) :
    ∀ l ∈ renderAts k ats, startsWith ['@'] l = true := by
  induction ats generalizing k with
  | nil => simp [renderAts]
  | cons a r ih =>
    have hr := fun k => ih (fun x hx => h x (by simp [hx])) k
    cases a with
    | other l0 =>
      intro l hl
      rcases List.mem_cons.mp hl with rfl | hl
      · exact (h (.other l) (by simp)).1
      · exact hr k l hl
    | legend ws t tl =>
      intro l hl
      rcases List.mem_cons.mp hl with rfl | hl
      · exact startsWith_at_legendLine _ _ _ _
      · exact hr (k + 1) l hl

theorem renderAts_length (k : Nat) (ats : List AtLine) : (renderAts k ats).length = ats.length := by
  induction ats generalizing k with
  | nil => rfl
  | cons a r ih => cases a <;> simp [renderAts, ih]

theorem isHeaderLine_of_at {l : Line} (h : startsWith ['@'] l = true) : isHeaderLine l = true := by
  simp [isHeaderLine, h]

theorem blanks_no_quote {ws : List Char} (h : ∀ c ∈ ws, isBlank c = true) : '"' ∉ ws :=
  fun hm => blank_ne_quote (h _ hm) rfl

/-- the scan over the `@` lines collects the legend texts in order; the data lines add nothing -/
theorem scanLines_ats {data : List Line} (hd : ∀ l ∈ data, startsWith ['@'] l = false) :
    ∀ (ats : List AtLine) (k : Nat) (acc : List Field), (∀ a ∈ ats, AtOk a) → k + (legendsOf ats).length ≤ 10 →
      scanLines (renderAts k ats ++ data) acc = .ok (acc ++ legendsOf ats)
  | [], _, acc, _, _ => by simpa [renderAts, legendsOf] using scanLines_no_at hd acc
  | .other l :: r, k, acc, h, hk => by
    obtain ⟨h1, h2⟩ := h (.other l) (by simp)
    have hs : scanLegend l (List.range 10) acc = .ok acc :=
      scanLegend_none acc (fun i hi => h2 i (List.mem_range.mp hi))
    rw [renderAts, List.cons_append, scanLines_header_cons hs (isHeaderLine_of_at h1)]
    simpa [legendsOf] using scanLines_ats hd r k acc (fun x hx => h x (by simp [hx])) (by simpa [legendsOf] using hk)
  | .legend ws t tl :: r, k, acc, h, hk => by
    obtain ⟨_, h2, h3, h4⟩ := h (.legend ws t tl) (by simp)
    have hk10 : k < 10 := by simp [legendsOf] at hk; omega
    have hs : scanLegend (legendLine k ws t tl) (List.range 10) acc = .ok (acc ++ [t]) :=
      scanLegend_legend hk10 acc (blanks_no_quote h2) h3 h4
    rw [renderAts, List.cons_append,
      scanLines_header_cons hs (isHeaderLine_of_at (startsWith_at_legendLine _ _ _ _))]
    have := scanLines_ats hd r (k + 1) (acc ++ [t]) (fun x hx => h x (by simp [hx]))
      (by simp [legendsOf] at hk; omega)
    simpa [legendsOf] using this

/-- a series-legend line never leaves a quoted field open -/
theorem rowClosed_legendLine {k : Nat} (hk : k < 10) {ws t tl : List Char} (h : AtOk (.legend ws t tl)) :
    RowClosed (legendLine k ws t tl) := by
  obtain ⟨h1, h2, h3, h4⟩ := h
  have hsplit : ws = ws.dropLast ++ [ws.getLast h1] := (List.dropLast_append_getLast h1).symm
  have hb : isBlank (ws.getLast h1) = true := h2 _ (List.getLast_mem h1)
  have hq : '"' ∉ legendPrefix k ++ ws.dropLast := by
    have hd := digitChar_ne_quote ⟨k, hk⟩
    have hws : '"' ∉ ws.dropLast := fun hm => blanks_no_quote h2 (List.dropLast_subset ws hm)
    simp only [legendPrefix, List.cons_append, List.nil_append, List.mem_cons, not_or]
    exact ⟨by decide, by decide, by decide, fun e => hd e.symm, by decide, by decide, by decide, by decide, by decide,
      by decide, by decide, hws⟩
  have hform : legendLine k ws t tl = (legendPrefix k ++ ws.dropLast) ++ ws.getLast h1 :: '"' :: (t ++ '"' :: tl) := by
    rw [legendLine]; conv_lhs => rw [hsplit]
    simp
  rw [RowClosed, hform]
  exact skipEnd_quoted (by simp [legendPrefix]) hq hb h3 h4

/-! ### csv -/

theorem csvTok_inQuoted_doubled (u : List Char) (cur : Field) (fs : List Field) (rest : List Char) :
    csvTok (.inQuoted cur) fs (doubleQuotes u ++ '"' :: rest) = csvTok (.quoteInQuoted (cur ++ u)) fs rest := by
  induction u generalizing cur with
  | nil => simp [doubleQuotes, csvTok]
  | cons c cs ih =>
    by_cases hc : c = '"'
    · subst hc
      simp only [doubleQuotes, if_true, List.cons_append, csvTok]
      rw [ih]; simp
    · simp only [doubleQuotes, hc, if_false, List.cons_append, csvTok]
      rw [ih]; simp

theorem csvTok_inField_chars {u : List Char} (hu : ∀ x ∈ u, x ≠ ',') (cur : Field) (fs : List Field)
    (rest : List Char) : csvTok (.inField cur) fs (u ++ rest) = csvTok (.inField (cur ++ u)) fs rest := by
  induction u generalizing cur with
  | nil => simp
  | cons c cs ih =>
    have hc := hu c (by simp)
    simp only [List.cons_append, csvTok, hc, if_false]
    rw [ih (fun x hx => hu x (by simp [hx]))]; simp

theorem needsQuote_false {f : Field} (h : needsQuote f = false) : ∀ c ∈ f, c ≠ ',' ∧ c ≠ '"' := by
  intro c hc
  have := (List.any_eq_false.mp h) c hc
  simp only [Bool.or_eq_true, decide_eq_true_eq, not_or] at this
  exact ⟨this.1.1.1, this.1.1.2⟩

/-- a written field that ends the record is read back -/
theorem csvTok_field_end (f : Field) (fs : List Field) :
    csvTok .startField fs (csvField f) = .ok (fs ++ [f]) := by
  unfold csvField
  split
  · rw [← List.cons_append]
    simp only [List.cons_append, csvTok, if_true]
    rw [csvTok_inQuoted_doubled]; simp [csvTok, pure, Except.pure]
  · rename_i h
    have hq := needsQuote_false (by simpa using h)
    cases f with
    | nil => simp [csvTok, pure, Except.pure]
    | cons c cs =>
      have hc := hq c (by simp)
      simp only [csvTok, hc.1, hc.2, if_false]
      have := csvTok_inField_chars (u := cs) (fun x hx => (hq x (by simp [hx])).1) [c] fs []
      simp only [List.append_nil] at this
      rw [this]; simp [csvTok, pure, Except.pure]

/-- a written field followed by a comma is read back and the next field starts -/
theorem csvTok_field_sep (f : Field) (fs : List Field) (more : List Char) :
    csvTok .startField fs (csvField f ++ ',' :: more) = csvTok .startField (fs ++ [f]) more := by
  unfold csvField
  split
  · simp only [List.cons_append, List.append_assoc, csvTok, if_true]
    rw [csvTok_inQuoted_doubled]; simp [csvTok]
  · rename_i h
    have hq := needsQuote_false (by simpa using h)
    cases f with
    | nil => simp [csvTok]
    | cons c cs =>
      have hc := hq c (by simp)
      simp only [List.cons_append, csvTok, hc.1, hc.2, if_false]
      rw [csvTok_inField_chars (fun x hx => (hq x (by simp [hx])).1)]
      simp [csvTok]

theorem csvTok_line : ∀ (fields : List Field), fields ≠ [] → ∀ (fs : List Field),
    csvTok .startField fs (csvLine fields) = .ok (fs ++ fields)
  | [], h, _ => absurd rfl h
  | [f], _, fs => by simp [csvLine, csvTok_field_end]
  | f :: g :: r, _, fs => by
    rw [csvLine, csvTok_field_sep, csvTok_line (g :: r) (by simp)]
    simp

/-- digits -/
def IsDigit (c : Char) : Prop := ∃ i : Fin 10, c = digitChar i

theorem IsDigit.plain {c : Char} (h : IsDigit c) : c ≠ ',' ∧ c ≠ '"' ∧ c ≠ '\n' ∧ c ≠ '\r' ∧ isBlank c = false := by
  obtain ⟨i, rfl⟩ := h
  revert i; decide

theorem natDigits_digits : ∀ (fuel n : Nat) (acc : List Char), (∀ c ∈ acc, IsDigit c) →
    ∀ c ∈ natDigits fuel n acc, IsDigit c
  | 0, _, acc, h => by simpa [natDigits] using h
  | fuel + 1, n, acc, h => by
    unfold natDigits
    split
    · rename_i hn
      intro c hc
      rcases List.mem_cons.mp hc with rfl | hc
      · exact ⟨⟨n, hn⟩, rfl⟩
      · exact h c hc
    · apply natDigits_digits
      intro c hc
      rcases List.mem_cons.mp hc with rfl | hc
      · exact ⟨⟨n % 10, Nat.mod_lt _ (by decide)⟩, rfl⟩
      · exact h c hc

theorem natDigits_ne_nil : ∀ (fuel n : Nat) (acc : List Char), (fuel ≠ 0 ∨ acc ≠ []) → natDigits fuel n acc ≠ []
  | 0, _, acc, h => by
    rcases h with h | h
    · exact absurd rfl h
    · simpa [natDigits] using h
  | fuel + 1, n, acc, _ => by
    unfold natDigits
    split
    · simp
    · exact natDigits_ne_nil fuel _ _ (Or.inr (by simp))

theorem natStr_digits (n : Nat) : ∀ c ∈ natStr n, IsDigit c :=
  natDigits_digits _ _ _ (by simp)

theorem natStr_ne_nil (n : Nat) : natStr n ≠ [] := natDigits_ne_nil _ _ _ (Or.inl (by simp))

theorem csvField_natStr (n : Nat) : csvField (natStr n) = natStr n := by
  unfold csvField
  have : needsQuote (natStr n) = false := by
    rw [needsQuote, List.any_eq_false]
    intro c hc
    have := (natStr_digits n c hc).plain
    simp [this.1, this.2.1, this.2.2.1, this.2.2.2.1]
  simp [this]

/-- a written data line is not blank -/
theorem csvLine_label_not_blank (n : Nat) (r : List Field) : isBlankLine (csvLine (natStr n :: r)) = false := by
  have hne := natStr_ne_nil n
  have hd := natStr_digits n
  cases hs : natStr n with
  | nil => exact absurd hs hne
  | cons d ds =>
    have hdd : isBlank d = false := (hd d (by simp [hs])).plain.2.2.2.2
    have hf : csvField (d :: ds) = d :: ds := by rw [← hs]; exact csvField_natStr n
    cases r with
    | nil => simp [csvLine, hf, isBlankLine, hdd]
    | cons g r => simp [csvLine, hf, isBlankLine, hdd]

theorem csvData_rows (w : Nat) : ∀ (i : Nat) (rows : List (List Field)), (∀ r ∈ rows, r.length = w) →
    csvData w (csvRows i rows) = .ok ((List.range' i rows.length).zip rows |>.map (fun p => (natStr p.1, p.2)))
  | _, [], _ => rfl
  | i, r :: rs, h => by
    have ih := csvData_rows w (i + 1) rs (fun x hx => h x (by simp [hx]))
    simp only [csvRows, csvData, csvTok_line (natStr i :: r) (by simp) [], List.nil_append, h r (by simp),
      ne_eq, not_true_eq_false, if_false, ih]
    simp [pure, Except.pure, List.range'_succ]

theorem filter_not_blank_csvRows (i : Nat) (rows : List (List Field)) :
    (csvRows i rows).filter (fun l => !isBlankLine l) = csvRows i rows := by
  induction rows generalizing i with
  | nil => rfl
  | cons r rs ih => simp [csvRows, csvLine_label_not_blank, ih]

end Molgri.Xvg

namespace Molgri.GridFiles

theorem lookup_write {A S : Type} (g : Grid A S) (fs : FS A S) (op : Save) (q : Path) :
    lookup q (write g fs op) = if q = op.target then some (op.blob g) else lookup q fs := rfl

theorem run_append {A S : Type} (g : Grid A S) (fs : FS A S) (ops : List Save) (op : Save) :
    run g fs (ops ++ [op]) = write g (run g fs ops) op := by
  simp [run, List.foldl_append]

end Molgri.GridFiles
