/-
Model of `molgri.molecules.transitions.AssignmentTool` (transitions.py:34-215) and of
`molgri.space.translations.get_increments / get_between_radii` (translations.py:94-134)   (C11).
Import-free, total, executable; exact arithmetic over `Rat` (Python floats arrive as the dyadic rationals
they are).

External calls are parameters (their results are inputs of the model):
  * MDAnalysis `AtomGroup.principal_axes()`  (3 rows = 3 axes)            -> `pa : M3`
  * `np.linalg.norm(center_of_mass)` (a square root)                       -> `d : Rat`
  * `scipy ... Rotation.magnitude()`: the rotation angle is a strictly decreasing function of the trace
    (`tr = 1 + 2 cos θ`), so `argmin magnitude` is modelled by "first index of the largest trace"
  * `cdist(..., "euclidean")`: `sqrt` is strictly increasing, so `argmin` of distances is modelled by
    `argmin` of squared distances; for `"cos"` the norms are parameters
  * `from_full_array_to_o_b_t` (fullgrid.py:34-55, property C09): its three outputs are inputs here.
-/
namespace Molgri.Assign

/-! ### np.argmin / np.argmax -/

/-- `(index, value)` of the first minimum of the non-empty list `x :: xs`. -/
def argminPair : Rat → List Rat → Nat × Rat
  | x, [] => (0, x)
  | x, y :: ys =>
    let r := argminPair y ys
    if r.2 < x then (r.1 + 1, r.2) else (0, x)

/-- `np.argmin`: index of the first occurrence of the minimum (0 for the empty list, where numpy raises;
callers guard emptiness). -/
def argminIdx : List Rat → Nat
  | [] => 0
  | x :: xs => (argminPair x xs).1

/-- `np.argmax`: first occurrence of the maximum. -/
def argmaxIdx (xs : List Rat) : Nat := argminIdx (xs.map (fun v => -v))

def absR (x : Rat) : Rat := if x < 0 then -x else x

/-! ### translations.py: increments and between-radii -/

/-- `get_increments`: `[a0, a1-a0, a2-a1, …]` (the code asserts `a0 ≥ 0` and that all differences are positive). -/
def increments : List Rat → List Rat
  | [] => []
  | a :: rest => a :: List.zipWith (fun start stop => stop - start) (a :: rest) rest

/-- `get_between_radii(my_array)` (`include_zero=False`). Empty input: `my_array[0]` raises IndexError. -/
def betweenRadii (t : List Rat) : Except String (List Rat) :=
  match t with
  | [] => throw "IndexError"
  | _ =>
    let inc := increments t
    -- assert increment_grid[0] >= 0 and np.all(increment_grid[1:] > 0)
    if decide (inc.headD 0 < 0) || (inc.drop 1).any (fun v => decide (v ≤ 0)) then throw "AssertionError" else
    let inc2 : List Rat :=
      if inc.length > 1 then
        let popped := inc.drop 1                       -- increments.pop(0)
        let app := popped ++ [popped.getLast?.getD 0]  -- increments.append(increments[-1])
        app.map (fun v => v / 2)
      else inc
    pure (List.zipWith (fun a b => a + b) t inc2)

/-! ### radial assignment (`_t_assignment_function`, transitions.py:150-159) -/

/-- `none` = NaN. `d` = `np.linalg.norm(ag.center_of_mass())`. -/
def tAssign (t : List Rat) (d : Rat) (outliers : Bool) : Except String (Option Nat) :=
  match t with
  | [] => throw "ValueError"                      -- np.argmin of an empty array
  | _ =>
    let k := argminIdx (t.map fun r => absR (r - d))
    if outliers then pure (some k) else
    match t.reverse with
    | last :: prev :: _ =>
      let outer := last + (1 / 2) * (last - prev)
      if d > outer then pure none else pure (some k)
    | _ => throw "IndexError"                     -- self.t_array[-2]

/-! ### vectors, direction assignment (`_o_assignment_function`, transitions.py:178-187) -/

structure V3 where
  x : Rat
  y : Rat
  z : Rat
deriving DecidableEq, Repr

namespace V3
def dot (a b : V3) : Rat := a.x * b.x + a.y * b.y + a.z * b.z
def sub (a b : V3) : V3 := ⟨a.x - b.x, a.y - b.y, a.z - b.z⟩
def add (a b : V3) : V3 := ⟨a.x + b.x, a.y + b.y, a.z + b.z⟩
def smul (c : Rat) (a : V3) : V3 := ⟨c * a.x, c * a.y, c * a.z⟩
def normSq (a : V3) : Rat := dot a a
end V3

/-- `normalise_vectors(c)` = `c / norm`, the norm being the external parameter `d`. -/
def normalise (c : V3) (d : Rat) : V3 := ⟨c.x / d, c.y / d, c.z / d⟩

def sqDist (a b : V3) : Rat := V3.normSq (V3.sub a b)

/-- Euclidean metric (`cartesian_grid=True`). -/
def oAssign (O : List V3) (u : V3) : Nat := argminIdx (O.map fun o => sqDist o u)

/-- Cosine metric (`cartesian_grid=False`): `1 - o·u / (|o| |u|)`; the norms are parameters. -/
def oAssignCos (O : List (V3 × Rat)) (u : V3) (nu : Rat) : Nat :=
  argminIdx (O.map fun on => 1 - V3.dot on.1 u / (on.2 * nu))

/-- `AtomGroup.center_of_mass()` = Σ mᵢ xᵢ / Σ mᵢ (field arithmetic, modelled exactly). -/
def centerOfMass (masses : List Rat) (pos : List V3) : V3 :=
  let M := masses.sum
  let s := (List.zipWith (fun m p => V3.smul m p) masses pos).foldl V3.add ⟨0, 0, 0⟩
  ⟨s.x / M, s.y / M, s.z / M⟩

/-! ### 3×3 matrices, quaternions (scalar last, as scipy) -/

structure M3 where
  r0 : V3
  r1 : V3
  r2 : V3
deriving DecidableEq, Repr

namespace M3
def transpose (m : M3) : M3 :=
  ⟨⟨m.r0.x, m.r1.x, m.r2.x⟩, ⟨m.r0.y, m.r1.y, m.r2.y⟩, ⟨m.r0.z, m.r1.z, m.r2.z⟩⟩
def mulVec (m : M3) (v : V3) : V3 := ⟨V3.dot m.r0 v, V3.dot m.r1 v, V3.dot m.r2 v⟩
def mul (a b : M3) : M3 :=
  let bt := transpose b
  ⟨⟨V3.dot a.r0 bt.r0, V3.dot a.r0 bt.r1, V3.dot a.r0 bt.r2⟩,
   ⟨V3.dot a.r1 bt.r0, V3.dot a.r1 bt.r1, V3.dot a.r1 bt.r2⟩,
   ⟨V3.dot a.r2 bt.r0, V3.dot a.r2 bt.r1, V3.dot a.r2 bt.r2⟩⟩
def trace (m : M3) : Rat := m.r0.x + m.r1.y + m.r2.z
def det (m : M3) : Rat :=
  m.r0.x * (m.r1.y * m.r2.z - m.r1.z * m.r2.y)
  - m.r0.y * (m.r1.x * m.r2.z - m.r1.z * m.r2.x)
  + m.r0.z * (m.r1.x * m.r2.y - m.r1.y * m.r2.x)
def smul (c : Rat) (m : M3) : M3 := ⟨V3.smul c m.r0, V3.smul c m.r1, V3.smul c m.r2⟩
def one : M3 := ⟨⟨1, 0, 0⟩, ⟨0, 1, 0⟩, ⟨0, 0, 1⟩⟩
/-- `np.linalg.inv` (adjugate / determinant; field arithmetic). -/
def inv (m : M3) : M3 :=
  let d := det m
  ⟨⟨(m.r1.y * m.r2.z - m.r1.z * m.r2.y) / d, (m.r0.z * m.r2.y - m.r0.y * m.r2.z) / d, (m.r0.y * m.r1.z - m.r0.z * m.r1.y) / d⟩,
   ⟨(m.r1.z * m.r2.x - m.r1.x * m.r2.z) / d, (m.r0.x * m.r2.z - m.r0.z * m.r2.x) / d, (m.r0.z * m.r1.x - m.r0.x * m.r1.z) / d⟩,
   ⟨(m.r1.x * m.r2.y - m.r1.y * m.r2.x) / d, (m.r0.y * m.r2.x - m.r0.x * m.r2.y) / d, (m.r0.x * m.r1.y - m.r0.y * m.r1.x) / d⟩⟩
end M3

structure Q4 where
  x : Rat
  y : Rat
  z : Rat
  w : Rat
deriving DecidableEq, Repr

namespace Q4
def dot (p q : Q4) : Rat := p.x * q.x + p.y * q.y + p.z * q.z + p.w * q.w
def normSq (q : Q4) : Rat := dot q q
end Q4

/-- Homogeneous rotation matrix of a quaternion: `|q|² · R(q)`. -/
def rotH (q : Q4) : M3 :=
  ⟨⟨q.w * q.w + q.x * q.x - q.y * q.y - q.z * q.z, 2 * (q.x * q.y - q.w * q.z), 2 * (q.x * q.z + q.w * q.y)⟩,
   ⟨2 * (q.x * q.y + q.w * q.z), q.w * q.w - q.x * q.x + q.y * q.y - q.z * q.z, 2 * (q.y * q.z - q.w * q.x)⟩,
   ⟨2 * (q.x * q.z - q.w * q.y), 2 * (q.y * q.z + q.w * q.x), q.w * q.w - q.x * q.x - q.y * q.y + q.z * q.z⟩⟩

/-- `Rotation(q).as_matrix()` (scipy normalises the quaternion first). -/
def rotMat (q : Q4) : M3 := M3.smul (1 / Q4.normSq q) (rotH q)

/-! ### sign fixing (`_determine_positive_directions`, transitions.py:65-88) -/

abbrev I3 := Int × Int × Int

/-- `np.sign(np.round(x, 3))`: zero iff `|x| ≤ thr` (thr = 5·10⁻⁴ Å since fix c9b2235; the rounding is the parameter
`thr`). -/
def sgnRound (thr x : Rat) : Int := if x > thr then 1 else if x < -thr then -1 else 0

/-- per atom: signs of the rounded projections on the three axes -/
def atomSigns (thr : Rat) (pa : M3) (com : V3) (p : V3) : I3 :=
  let v := V3.sub p com
  (sgnRound thr (V3.dot pa.r0 v), sgnRound thr (V3.dot pa.r1 v), sgnRound thr (V3.dot pa.r2 v))

def zeros (d : I3) : Nat :=
  (if d.1 = 0 then 1 else 0) + (if d.2.1 = 0 then 1 else 0) + (if d.2.2 = 0 then 1 else 0)

/-- The atom loop (fix c9b2235): keep the FIRST atom with the fewest unknown (zero) signs
(`if unknown < fewest_unknown: directions, fewest_unknown = candidate, unknown`); `break` at the first atom without a
zero.  Starts with `directions = [0,0,0]`, `fewest_unknown = 4`. -/
def dirLoop : List I3 → I3 → Nat → I3
  | [], best, _ => best
  | a :: rest, best, fewest =>
    let best' := if zeros a < fewest then a else best
    let fewest' := if zeros a < fewest then zeros a else fewest
    if zeros a = 0 then best' else dirLoop rest best' fewest'

def allowedRighthanded : List I3 := [(1, 1, 1), (-1, 1, -1), (1, -1, -1), (-1, -1, 1)]

/-- `np.sum(np.isclose(ar, directions))` -/
def nMatch (ar d : I3) : Nat :=
  (if ar.1 = d.1 then 1 else 0) + (if ar.2.1 = d.2.1 then 1 else 0) + (if ar.2.2 = d.2.2 then 1 else 0)

/-- the `for ar in allowed_righthanded: if … == 2: directions = ar; break` loop -/
def tableLoop : List I3 → I3 → I3
  | [], d => d
  | ar :: rest, d => if nMatch ar d = 2 then ar else tableLoop rest d

/-- after the atom loop: one unknown → table; two or three unknowns → ValueError -/
def fixDirections (d : I3) : Except String I3 :=
  if zeros d = 1 then pure (tableLoop allowedRighthanded d)
  else if zeros d > 1 then throw "ValueError"
  else pure d

def positiveDirections (signs : List I3) : Except String I3 :=
  fixDirections (dirLoop signs (0, 0, 0) 4)

/-- `np.multiply(pa.T, np.tile(dirs / ref, (3, 1)))`: column `j` of `pa.T` (= axis `j`) times `dirs[j]/ref[j]`. -/
def directionFrame (pa : M3) (dirs ref : I3) : M3 :=
  let s0 : Rat := (dirs.1 : Rat) / (ref.1 : Rat)
  let s1 : Rat := (dirs.2.1 : Rat) / (ref.2.1 : Rat)
  let s2 : Rat := (dirs.2.2 : Rat) / (ref.2.2 : Rat)
  M3.transpose ⟨V3.smul s0 pa.r0, V3.smul s1 pa.r1, V3.smul s2 pa.r2⟩

/-- one element of `np.matmul(direction_frames, inverse_pa)`, `inverse_pa = inv(reference_pa.T)` -/
def rotationFromAxes (paFrame paRef : M3) (dirs ref : I3) : M3 :=
  M3.mul (directionFrame paFrame dirs ref) (M3.inv (M3.transpose paRef))

/-! ### rotation assignment (`_get_quaternion_assignments`, transitions.py:125-148) -/

/-- the matrices `rm @ P.T` handed to `Rotation.from_matrix` -/
def relMats (B : List Q4) (P : M3) : List M3 := B.map fun q => M3.mul (rotMat q) (M3.transpose P)

/-- `argmin_i magnitude(R_i Pᵀ)` = first index of the largest trace; scipy raises ValueError for a
non-positive determinant. -/
def bAssign (B : List Q4) (P : M3) : Except String Nat :=
  let Ms := relMats B P
  if Ms.any (fun m => decide (M3.det m ≤ 0)) then throw "ValueError"
  else if Ms = [] then throw "ValueError"
  else pure (argmaxIdx (Ms.map M3.trace))

/-! ### index composition (transitions.py:205-215) -/

/-- `(t * len(o) + o) * len(b) + b`, NaN propagating from `t`. -/
def compose (t : Option Nat) (o b nO nB : Nat) : Option Nat :=
  t.map fun t => (t * nO + o) * nB + b

/-! ### one frame, end to end -/

structure Grid where
  t : List Rat
  o : List V3
  oNorm : List Rat      -- only used by the cosine metric
  b : List Q4

structure RefMol where
  masses : List Rat
  pos : List V3
  pa : M3               -- external: principal axes of the reference structure

structure Frame where
  pos : List V3         -- atoms of molecule 2 in this frame (after the centring transformation)
  pa : M3               -- external: principal axes in this frame
  d : Rat               -- external: norm of the centre of mass
  nu : Rat              -- external: norm of the normalised centre of mass (cosine metric only)

structure FrameResult where
  t : Option Nat
  o : Nat
  b : Nat
  dirs : I3
  idx : Option Nat

def refDirections (thr : Rat) (m : RefMol) : Except String I3 :=
  let com := centerOfMass m.masses m.pos
  positiveDirections (m.pos.map (atomSigns thr m.pa com))

def assignFrame (thr : Rat) (g : Grid) (m : RefMol) (refDir : I3) (outliers cartesian : Bool) (f : Frame) :
    Except String FrameResult := do
  let com := centerOfMass m.masses f.pos
  let t ← tAssign g.t f.d outliers
  let u := normalise com f.d
  let o := if cartesian then oAssign g.o u else oAssignCos (g.o.zip g.oNorm) u f.nu
  let dirs ← positiveDirections (f.pos.map (atomSigns thr f.pa com))
  let P := rotationFromAxes f.pa m.pa dirs refDir
  let b ← bAssign g.b P
  pure ⟨t, o, b, dirs, compose t o b g.o.length g.b.length⟩

/-! ### margins (used by the driver to recognise placements near a cell boundary) -/

/-- smallest `xs[j] - xs[i]` over `j ≠ i` (`none` when there is no other element) -/
def gapAt (xs : List Rat) (i : Nat) : Option Rat :=
  match xs[i]? with
  | none => none
  | some v =>
    match (xs.eraseIdx i).map (fun w => w - v) with
    | [] => none
    | g :: gs => some (gs.foldl min g)

end Molgri.Assign
