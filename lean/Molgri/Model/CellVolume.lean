/-
Model of the rotation-cell volume code anchored by C15 (import-free, executable):

* `molgri/space/voronoi.py:89-110`  `AbstractVoronoi.get_reduced_vertices_regions`
      (`np.unique(axis=0, return_index=True)`, `which_row_is_k` = `np.isclose`, region re-indexing)
* `molgri/space/voronoi.py:112-126` `AbstractVoronoi._additional_points_per_cell`
      (`np.argmin(cdist(additional, centers, metric="cos"), axis=1)`, boolean-mask selection per cell)
* `molgri/space/voronoi.py:128-153` `get_convex_hulls` (the point array handed to qhull: assigned helper points
      stacked on top of the cell's vertices when `np.any(assigned)`), `get_voronoi_volumes` (`hull.area / 2.0`)
* `molgri/space/voronoi.py:323-330, 354-364` `HalfRotobjVoronoi._get_upper_indices`, `get_voronoi_volumes`
      (volumes of the full double cover, selected at the upper indices) with `utils.q_in_upper_sphere`
* `molgri/space/voronoi.py:533-549` `MikroVoronoi.get_voronoi_volumes` (equal share)
* `molgri/space/rotobj.py:97-104`   the dispatch `N >= 4` in `SphereGridNDim.gen_grid`, `get_N`

A point is a `List K`; an array is a list of rows.  The scalar `K` is any type with the core operator classes
(the driver instantiates `Rat`: Python floats arrive as the exact dyadic rationals they are; the theorems take an
arbitrary linearly ordered field).  External library results are inputs: scipy's `SphericalVoronoi`
(`verts`, `regions`), numpy's RNG (`helpers` = the 5000 `random_quaternions` drawn after `np.random.seed(1)`),
qhull's `ConvexHull(points, 'QJ').area` (`hull : List (List K) → K`), and the float constant `pi`.
-/
namespace Molgri.CellVol

/-! ## 1. cosine-distance assignment of the helper points (`_additional_points_per_cell`) -/
section Assign
variable {K : Type} [Zero K] [Add K] [Mul K] [Neg K] [LT K] [LE K] [DecidableLT K] [DecidableLE K]

def dot : List K → List K → K
  | x :: xs, y :: ys => x * y + dot xs ys
  | _, _ => 0

def normSq (p : List K) : K := dot p p

/-- `sgn(x)·x²`: strictly increasing in `x`, so it orders numbers like `x` does without a square root. -/
def sgnSq (x : K) : K := if 0 ≤ x then x * x else -(x * x)

/-- Order-equivalent stand-in for the cosine similarity `u·c / (‖u‖‖c‖)` of one helper point `u` with a centre `c`
    (`‖u‖ > 0` is common to the whole row of `cdist`): the fraction `sgn(u·c)·(u·c)² / ‖c‖²`, kept as
    (numerator, denominator) so that no division is needed.  scipy's cosine distance is `1 - similarity`,
    hence `argmin distance = argmax key`.  A centre travels with its squared norm. -/
def cosKey (u : List K) (cn : List K × K) : K × K := (sgnSq (dot u cn.1), cn.2)

/-- `a.1/a.2 < b.1/b.2` for positive denominators, cross-multiplied. -/
def keyLt (a b : K × K) : Bool := decide (a.1 * b.2 < b.1 * a.2)

/-- `np.argmin` scan, written for `argmax` of the key: keeps the first index of the largest key. -/
def argmaxFrom : List (K × K) → Nat → Nat → K × K → Nat
  | [], _, bi, _ => bi
  | k :: ks, i, bi, bk => if keyLt bk k then argmaxFrom ks (i + 1) i k else argmaxFrom ks (i + 1) bi bk

/-- first index of the maximum (0 for the empty list; the callers exclude it). -/
def argmaxFirst : List (K × K) → Nat
  | [] => 0
  | k :: ks => argmaxFrom ks 1 0 k

/-- the centres with their squared norms (computed once per `cdist` call). -/
def withNorms (centers : List (List K)) : List (List K × K) := centers.map fun c => (c, normSq c)

/-- One row of `np.argmin(cdist(additional, centers, metric="cos"), axis=1)`. -/
def assignOne (cn : List (List K × K)) (u : List K) : Nat :=
  argmaxFirst (cn.map (cosKey u))

/-- `extra_points_belongings`; numpy raises `ValueError` for an `argmin` over an empty axis (no centres). -/
def assign (centers helpers : List (List K)) : Except String (List Nat) :=
  if centers.isEmpty then throw "ValueError" else pure (helpers.map (assignOne (withNorms centers)))

/-- `self.additional_points[extra_points_belongings == i]`: the helper rows of cell `i` with their indices,
    in the order of the helper array (boolean mask). -/
def cellHelpers (helpers : List (List K)) (asg : List Nat) (i : Nat) : List (Nat × List K) :=
  ((helpers.zip asg).zipIdx).filterMap fun (ua, h) => if ua.2 = i then some (h, ua.1) else none

end Assign

/-! ## 2. `get_reduced_vertices_regions` -/
section Reduce
variable {K : Type} [Zero K] [Add K] [Sub K] [Mul K] [Neg K] [LT K] [LE K] [DecidableLT K] [DecidableLE K]
  [DecidableEq K]

def absK (x : K) : K := if x < 0 then -x else x

/-- `np.isclose(a, b)`: `|a - b| ≤ atol + rtol·|b|` (numpy defaults `atol = 1e-8`, `rtol = 1e-5`). -/
def isclose (atol rtol a b : K) : Bool := decide (absK (a - b) ≤ atol + rtol * absK b)

/-- `np.all(np.isclose(k, row))` for two rows of the same length. -/
def rowClose (atol rtol : K) : List K → List K → Bool
  | [], [] => true
  | a :: as, b :: bs => isclose atol rtol a b && rowClose atol rtol as bs
  | _, _ => false

/-- `sorted(np.unique(vertices, axis=0, return_index=True)[1])`: the index of the first occurrence of every
    distinct row, ascending. -/
def firstOcc (vs : List (List K)) : List Nat :=
  vs.zipIdx.filterMap fun (v, i) => if (vs.take i).contains v then none else some i

/-- `new_vertices`. -/
def reducedVertices (vs : List (List K)) : List (List K) :=
  vs.zipIdx.filterMap fun (v, i) => if (vs.take i).contains v then none else some v

/-- `which_row_is_k(new_vertices, old)[0]`; an empty answer is an `IndexError`. -/
def firstClose (atol rtol : K) (new : List (List K)) (old : List K) : Except String Nat :=
  match new.findIdx? (fun r => rowClose atol rtol old r) with
  | some k => pure k
  | none => throw "IndexError"

/-- the dictionary `old2new` as a list indexed by the old vertex number. -/
def old2new (atol rtol : K) (vs : List (List K)) : Except String (List Nat) :=
  vs.mapM (firstClose atol rtol (reducedVertices vs))

/-- `new_regions`: every region re-indexed through `old2new` (`KeyError` for a vertex number that does not exist). -/
def reducedRegions (atol rtol : K) (vs : List (List K)) (regions : List (List Nat)) :
    Except String (List (List Nat)) := do
  let o2n ← old2new atol rtol vs
  regions.mapM fun region => region.mapM fun el =>
    match o2n[el]? with
    | some k => pure k
    | none => throw "KeyError"

end Reduce

/-! ## 3. the point set of each convex hull and the volumes (`get_convex_hulls`, `get_voronoi_volumes`) -/

/-- A row of the array handed to `ConvexHull`: helper point number `h` or (reduced) vertex number `v`. -/
inductive Ref where
  | helper (h : Nat)
  | vertex (v : Nat)
deriving Repr, DecidableEq

section Hull
variable {K : Type} [Zero K] [Add K] [Sub K] [Mul K] [Div K] [Neg K] [LT K] [LE K] [DecidableLT K] [DecidableLE K]
  [DecidableEq K] [NatCast K]

/-- `np.any(additional_assignments[i])`: some coordinate of some assigned helper point is non-zero
    (false for a cell without helper points). -/
def anyNonzero (rows : List (Nat × List K)) : Bool := rows.any fun r => r.2.any fun x => decide (x ≠ 0)

/-- `within_region` of cell `i`: `np.vstack([assigned helper points, all_vertices[region]])` when
    `including_additional and np.any(assigned)`, else only `all_vertices[region]`. -/
def hullInput (including : Bool) (helpers : List (List K)) (asg : List Nat) (i : Nat) (region : List Nat) :
    List Ref :=
  let hs := cellHelpers helpers asg i
  if including && anyNonzero hs then hs.map (fun r => Ref.helper r.1) ++ region.map Ref.vertex
  else region.map Ref.vertex

/-- The row a reference stands for (`IndexError` like numpy fancy indexing when it does not exist). -/
def deref (helpers rverts : List (List K)) : Ref → Except String (List K)
  | .helper h => match helpers[h]? with
    | some r => pure r
    | none => throw "IndexError"
  | .vertex v => match rverts[v]? with
    | some r => pure r
    | none => throw "IndexError"

/-- All hull inputs of `get_convex_hulls(including_additional)`, as references, together with the assignment
    vector `extra_points_belongings` they were built from (empty when there is nothing to assign). -/
def hullInputsAsg (atol rtol : K) (including : Bool) (centers verts : List (List K)) (regions : List (List Nat))
    (helpers : Option (List (List K))) : Except String (List Nat × List (List Ref)) := do
  let rregions ← reducedRegions atol rtol verts regions
  match helpers with
  | none => pure ([], rregions.map fun region => region.map Ref.vertex)       -- `additional_points is None`
  | some hp =>
    let asg ← if including then assign centers hp else pure []
    pure (asg, rregions.zipIdx.map fun (region, i) => hullInput including hp asg i region)

def hullInputs (atol rtol : K) (including : Bool) (centers verts : List (List K)) (regions : List (List Nat))
    (helpers : Option (List (List K))) : Except String (List (List Ref)) := do
  let r ← hullInputsAsg atol rtol including centers verts regions helpers
  pure r.2

/-- `get_convex_hulls(including_additional=True)` up to the call of qhull: the arrays `within_region`, one per
    centre, in the order of the centres. -/
def hullRows (atol rtol : K) (centers verts : List (List K)) (regions : List (List Nat))
    (helpers : Option (List (List K))) : Except String (List (List (List K))) := do
  let inputs ← hullInputs atol rtol true centers verts regions helpers
  inputs.mapM fun refs => refs.mapM (deref (helpers.getD []) (reducedVertices verts))

/-- `[detailed.area / 2.0 for detailed in all_hulls_detailed]`. -/
def volumesOfAreas (areas : List K) : List K := areas.map (· / ((2 : Nat) : K))

/-- `AbstractVoronoi.get_voronoi_volumes`: `hull.area / 2.0` for every cell, in the order of the centres.
    `hull` is qhull (`ConvexHull(rows, qhull_options='QJ').area`). -/
def fullVolumes (atol rtol : K) (hull : List (List K) → K) (centers verts : List (List K))
    (regions : List (List Nat)) (helpers : Option (List (List K))) : Except String (List K) := do
  let rowss ← hullRows atol rtol centers verts regions helpers
  pure (volumesOfAreas (rowss.map hull))

end Hull

/-! ## 4. the upper hemisphere and the half selection (`HalfRotobjVoronoi`) -/
section Upper
variable {K : Type} [Zero K] [Neg K] [LT K] [LE K] [DecidableLT K] [DecidableLE K]

/-- `np.allclose(x, 0)` for one float with the default `atol = 1e-8` (`rtol·|0| = 0`): `|x| ≤ tol`. -/
def small (tol x : K) : Bool := decide (-tol ≤ x) && decide (x ≤ tol)

/-- `q_in_upper_sphere(q)`:
    `for i, q_i in enumerate(q): if np.allclose(q[:i], 0) and q[i] > 0: return True` / `return False`. -/
def upper (tol : K) (q : List K) : Bool :=
  q.zipIdx.any fun (x, i) => (q.take i).all (small tol) && decide (0 < x)

/-- The same test by recursion on the coordinates (proved equal to `upper` in `Lemmas/CellVolume`). -/
def upperRec (tol : K) : List K → Bool
  | [] => false
  | x :: xs => decide (0 < x) || (small tol x && upperRec tol xs)

/-- `find_inverse_quaternion(q) = -q`. -/
def neg (q : List K) : List K := q.map (fun x => -x)

/-- `_get_upper_indices`: `sorted([i for i, point in enumerate(my_array) if q_in_upper_sphere(point)])`. -/
def upperIdx (tol : K) (grid : List (List K)) : List Nat :=
  grid.zipIdx.filterMap fun (q, i) => if upper tol q then some i else none

/-- `all_volumes[i]` (`IndexError` past the end). -/
def getIdx {α : Type} (all : List α) (i : Nat) : Except String α :=
  match all[i]? with
  | some v => pure v
  | none => throw "IndexError"

/-- `HalfRotobjVoronoi.get_voronoi_volumes`: `[all_volumes[i] for i in upper_indices]`. -/
def halfVolumes {V : Type} (tol : K) (all : List V) (grid : List (List K)) : Except String (List V) :=
  (upperIdx tol grid).mapM (getIdx all)

end Upper

/-! ## 5. tiny grids (`MikroVoronoi`) and the dispatch of `gen_grid` -/
section Mikro
variable {K : Type} [Mul K] [Div K] [NatCast K]

/-- `MikroVoronoi(dimensions, N_points).get_voronoi_volumes()`:
    `[4*pi/N]*N` for directions, `[2 * pi**2 / 2 / N]*N` for rotations; the constructor asserts the dimension,
    `N = 0` divides by zero. -/
def mikroVolumes (pi : K) (dims N : Nat) : Except String (List K) :=
  if dims ≠ 3 ∧ dims ≠ 4 then throw "AssertionError"
  else if N = 0 then throw "ZeroDivisionError"
  else if dims = 3 then pure (List.replicate N ((4 : Nat) * pi / (N : K)))
  else pure (List.replicate N ((2 : Nat) * (pi * pi) / (2 : Nat) / (N : K)))

end Mikro

/-- Which Voronoi object `SphereGridNDim.gen_grid` attaches. -/
inductive VorKind where
  | rotobj | halfRotobj | mikro
deriving Repr, DecidableEq

/-- `if dims == 3 and N >= 4: RotobjVoronoi elif dims == 4 and N >= 4: HalfRotobjVoronoi else: MikroVoronoi`. -/
def dispatch (dims N : Nat) : VorKind :=
  if dims = 3 ∧ N ≥ 4 then .rotobj else if dims = 4 ∧ N ≥ 4 then .halfRotobj else .mikro

section Top
variable {K : Type} [Zero K] [Add K] [Sub K] [Mul K] [Div K] [Neg K] [LT K] [LE K] [DecidableLT K] [DecidableLE K]
  [DecidableEq K] [NatCast K]

/-- `SphereGrid4Dim(N).get_spherical_voronoi().get_voronoi_volumes()` for a generated grid `grid` (2N rows):
    `N ≥ 4`: the full double-cover volumes (`RotobjVoronoi(grid)` with the helper points) selected at the upper
    indices; otherwise the equal share over `get_N() = len(grid[upper indices])` cells. -/
def rotationVolumes (pi tol atol rtol : K) (hull : List (List K) → K) (N : Nat) (grid verts : List (List K))
    (regions : List (List Nat)) (helpers : List (List K)) : Except String (List K) :=
  match dispatch 4 N with
  | .mikro => mikroVolumes pi 4 (upperIdx tol grid).length
  | _ => do
    let full ← fullVolumes atol rtol hull grid verts regions (some helpers)
    halfVolumes tol full grid

/-- `rotationVolumes` with the hull areas of the 2N cells already evaluated (what the driver runs; equal to
    `rotationVolumes` by `Molgri.C15.rotationVolumes_eq_ofAreas`). -/
def rotationVolumesOfAreas (pi tol : K) (N : Nat) (grid : List (List K)) (areas : List K) : Except String (List K) :=
  match dispatch 4 N with
  | .mikro => mikroVolumes pi 4 (upperIdx tol grid).length
  | _ => halfVolumes tol (volumesOfAreas areas) grid

/-- The same for a direction grid with fewer than four points (the only clause of C15 about directions). -/
def directionVolumesSmall (pi : K) (N : Nat) : Except String (List K) :=
  match dispatch 3 N with
  | .mikro => mikroVolumes pi 3 N
  | _ => throw "not modelled here (exact spherical polygon areas, property C03)"

end Top

end Molgri.CellVol
