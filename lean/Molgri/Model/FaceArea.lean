/-
Float model of the face-area computation of the rotation grids (C04), **modelled, not verified** (DESIGN §4.4):

* `molgri/space/voronoi.py:284-294`  `RotobjVoronoi._calculate_borders`, the part after the SVD projection
  (`border_full_rank_points` is the input; `scipy.linalg.svd` is external),
* `molgri/space/utils.py`  `sort_points_on_sphere_ccw`, `_get_alpha_with_spherical_cosine_law`,
  `exact_area_of_spherical_polygon`, `dist_on_sphere`, `angle_between_vectors`, `normalise_vectors`.

Import-free; IEEE doubles (`Float`).  No theorem is stated about this file: the kernel cannot see through
`Float.acos/cos/sin`.  It extends the correspondence check to the area code; the truth of the areas is checked by
the geometric oracle of the harness.
-/
namespace Molgri.FaceArea

abbrev V3 := Float × Float × Float

def pi : Float := 3.141592653589793

def add (u v : V3) : V3 := (u.1 + v.1, u.2.1 + v.2.1, u.2.2 + v.2.2)
def sub (u v : V3) : V3 := (u.1 - v.1, u.2.1 - v.2.1, u.2.2 - v.2.2)
def dot (u v : V3) : Float := u.1 * v.1 + u.2.1 * v.2.1 + u.2.2 * v.2.2
def cross (u v : V3) : V3 :=
  (u.2.1 * v.2.2 - u.2.2 * v.2.1, u.2.2 * v.1 - u.1 * v.2.2, u.1 * v.2.1 - u.2.1 * v.1)
def norm (u : V3) : Float := Float.sqrt (u.1 * u.1 + u.2.1 * u.2.1 + u.2.2 * u.2.2)

/-- `normalise_vectors(v, length)`: `length * np.divide(v, norm)`. -/
def normalise (u : V3) (length : Float := 1.0) : V3 :=
  let n := norm u
  (length * (u.1 / n), length * (u.2.1 / n), length * (u.2.2 / n))

def clip (x : Float) : Float := if x < -1.0 then -1.0 else if x > 1.0 then 1.0 else x

/-- `angle_between_vectors` for two vectors. -/
def angleBetween (u v : V3) : Float := Float.acos (clip (dot (normalise u) (normalise v)))

/-- `dist_on_sphere(u, v) = angle * norm(u)`. -/
def distOnSphere (u v : V3) : Float := angleBetween u v * norm u

/-- `np.round(x, 7)`. -/
def round7 (x : Float) : Float := Float.round (x * 10000000.0) / 10000000.0

/-- `_get_alpha_with_spherical_cosine_law(A, B, C)`: the angle at `A` of the spherical triangle `ABC`. -/
def alphaLaw (A B C : V3) : Float :=
  let A := normalise A
  let B := normalise B
  let C := normalise C
  let a := distOnSphere B C
  let b := distOnSphere C A
  let c := distOnSphere A B
  Float.acos (round7 ((Float.cos a - Float.cos b * Float.cos c) / (Float.sin b * Float.sin c)))

/-- `is_ccw(v_0, v_c, v_i)`. -/
def isCcw (v0 vc vi : V3) : Bool := dot (cross (sub vc v0) (sub vi vc)) vi < 0.0

/-- `np.average(points, axis=0)`. -/
def average (pts : List V3) : V3 :=
  let s := pts.foldl add (0.0, 0.0, 0.0)
  let n := pts.length.toFloat
  (s.1 / n, s.2.1 / n, s.2.2 / n)

/-- insertion of `(key, value)` keeping ascending keys, stable. -/
def insertKey (k : Float) (v : V3) : List (Float × V3) → List (Float × V3)
  | [] => [(k, v)]
  | (k', v') :: rest => if k < k' then (k, v) :: (k', v') :: rest else (k', v') :: insertKey k v rest

/-- `sort_points_on_sphere_ccw`: angle at the centre between the first point and each other point, measured
    counter-clockwise; `points[np.argsort(alpha)]`. -/
def sortCcw (pts : List V3) : List V3 :=
  match pts with
  | [] => []
  | p0 :: rest =>
    let vc := normalise (average pts) (norm p0)
    let keyed := rest.map fun p =>
      let a := alphaLaw vc p0 p
      ((if isCcw p0 vc p then a else 2.0 * pi - a), p)
    let sorted := keyed.foldl (fun acc kv => insertKey kv.1 kv.2 acc) [(0.0, p0)]
    sorted.map (·.2)

/-- `exact_area_of_spherical_polygon(vertices)` (`r = 1`): Girard / Todhunter. -/
def girardArea (vs : List V3) : Except String Float :=
  let n := vs.length
  let arr := vs.toArray
  let thetas := (List.range n).map fun i =>
    alphaLaw (arr.getD i (0, 0, 0)) (arr.getD ((i + n - 1) % n) (0, 0, 0)) (arr.getD ((i + 1) % n) (0, 0, 0))
  let area := (thetas.foldl (· + ·) 0.0 - (n.toFloat - 2.0) * pi)
  let area := if area > 2.0 * pi then 4.0 * pi - area else area
  if area >= 0.0 then pure area else throw "AssertionError"

/-- The tail of `_calculate_borders` in dimension 4. -/
def borderArea (projected : List V3) : Except String Float := girardArea (sortCcw projected)

/-- `_calculate_borders` from the rank assertion on: `assert np.linalg.matrix_rank(shared_vertices) == dim - 1`
    (`rank` is the external numpy result), then the area of the projected polygon. -/
def borderAreaChecked (rank dim : Nat) (projected : List V3) : Except String Float :=
  if rank = dim - 1 then borderArea projected else throw "AssertionError"

end Molgri.FaceArea
