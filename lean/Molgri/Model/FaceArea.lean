/-
Float model of the face-area computation of the rotation grids (C04), **modelled, not verified** (DESIGN §4.4):

* `molgri/space/voronoi.py:284-294`  `RotobjVoronoi._calculate_borders`, the part after the SVD projection
  (`border_full_rank_points` is the input; `scipy.linalg.svd` is external),
* `molgri/space/utils.py`  `sort_points_on_sphere_ccw`, `_get_alpha_with_spherical_cosine_law`,
  `exact_area_of_spherical_polygon`, `dist_on_sphere`, `angle_between_vectors`, `normalise_vectors`.
  Code as of the repairs a2316f0 (angles from tangent vectors, F13) and 35f2358 (rank tolerance 1e-9, F14).

Import-free; IEEE doubles (`Float`).  No theorem is stated about this file: the kernel cannot see through
`Float.acos/cos/sin`.  It extends the correspondence check to the area code; the truth of the areas is checked by
the geometric oracle of the harness.
-/
namespace Molgri.FaceArea

abbrev V3 := Float × Float × Float

def pi : Float := 3.141592653589793

def add (u v : V3) : V3 := (u.1 + v.1, u.2.1 + v.2.1, u.2.2 + v.2.2)
def sub (u v : V3) : V3 := (u.1 - v.1, u.2.1 - v.2.1, u.2.2 - v.2.2)
def dot (u v : V3) : Float := u.1 * v.1 + u.2.1 * v.2.1 + u.2.2 * v.2.2
def cross (u v : V3) : V3 :=
  (u.2.1 * v.2.2 - u.2.2 * v.2.1, u.2.2 * v.1 - u.1 * v.2.2, u.1 * v.2.1 - u.2.1 * v.1)
def norm (u : V3) : Float := Float.sqrt (u.1 * u.1 + u.2.1 * u.2.1 + u.2.2 * u.2.2)

/-- `normalise_vectors(v, length)`: `length * np.divide(v, norm)`. -/
def normalise (u : V3) (length : Float := 1.0) : V3 :=
  let n := norm u
  (length * (u.1 / n), length * (u.2.1 / n), length * (u.2.2 / n))

def clip (x : Float) : Float := if x < -1.0 then -1.0 else if x > 1.0 then 1.0 else x

/-- `angle_between_vectors` for two vectors. -/
def angleBetween (u v : V3) : Float := Float.acos (clip (dot (normalise u) (normalise v)))

/-- `dist_on_sphere(u, v) = angle * norm(u)`. -/
def distOnSphere (u v : V3) : Float := angleBetween u v * norm u

/-- `np.round(x, 7)`. -/
def round7 (x : Float) : Float := Float.round (x * 10000000.0) / 10000000.0

def smul (c : Float) (u : V3) : V3 := (c * u.1, c * u.2.1, c * u.2.2)

/-- `_get_alpha_with_spherical_cosine_law(A, B, C)`: the angle at `A` of the spherical triangle `ABC`.
    Code as it is now (repair a2316f0 of finding F13): angle between the tangent vectors at `A`,
    `u = (B - A) - ((B - A)·A) A`, `w = (C - A) - ((C - A)·A) A`, `alpha = arctan2(|u × w|, u·w)`. -/
def alphaLaw (A B C : V3) : Float :=
  let A := normalise A
  let B := normalise B
  let C := normalise C
  let u := sub (sub B A) (smul (dot (sub B A) A) A)
  let w := sub (sub C A) (smul (dot (sub C A) A) A)
  Float.atan2 (norm (cross u w)) (dot u w)

/-- Pre-repair variant (finding F13): spherical cosine law with the cosine rounded to 7 decimals.  For a tiny face
    the Girard sum built from it can be negative (`AssertionError: Area cannot be negative!`). -/
def alphaLawRounded (A B C : V3) : Float :=
  let A := normalise A
  let B := normalise B
  let C := normalise C
  let a := distOnSphere B C
  let b := distOnSphere C A
  let c := distOnSphere A B
  Float.acos (round7 ((Float.cos a - Float.cos b * Float.cos c) / (Float.sin b * Float.sin c)))

/-- `is_ccw(v_0, v_c, v_i)`. -/
def isCcw (v0 vc vi : V3) : Bool := dot (cross (sub vc v0) (sub vi vc)) vi < 0.0

/-- `np.average(points, axis=0)`. -/
def average (pts : List V3) : V3 :=
  let s := pts.foldl add (0.0, 0.0, 0.0)
  let n := pts.length.toFloat
  (s.1 / n, s.2.1 / n, s.2.2 / n)

/-- insertion of `(key, value)` keeping ascending keys, stable. -/
def insertKey (k : Float) (v : V3) : List (Float × V3) → List (Float × V3)
  | [] => [(k, v)]
  | (k', v') :: rest => if k < k' then (k, v) :: (k', v') :: rest else (k', v') :: insertKey k v rest

/-- `sort_points_on_sphere_ccw`: angle at the centre between the first point and each other point, measured
    counter-clockwise; `points[np.argsort(alpha)]`. -/
def sortCcw (pts : List V3) : List V3 :=
  match pts with
  | [] => []
  | p0 :: rest =>
    let vc := normalise (average pts) (norm p0)
    let keyed := rest.map fun p =>
      let a := alphaLaw vc p0 p
      ((if isCcw p0 vc p then a else 2.0 * pi - a), p)
    let sorted := keyed.foldl (fun acc kv => insertKey kv.1 kv.2 acc) [(0.0, p0)]
    sorted.map (·.2)

/-- `exact_area_of_spherical_polygon(vertices)` (`r = 1`): Girard / Todhunter. -/
def girardArea (vs : List V3) : Except String Float :=
  let n := vs.length
  let arr := vs.toArray
  let thetas := (List.range n).map fun i =>
    alphaLaw (arr.getD i (0, 0, 0)) (arr.getD ((i + n - 1) % n) (0, 0, 0)) (arr.getD ((i + 1) % n) (0, 0, 0))
  let area := (thetas.foldl (· + ·) 0.0 - (n.toFloat - 2.0) * pi)
  let area := if area > 2.0 * pi then 4.0 * pi - area else area
  if area >= 0.0 then pure area else throw "AssertionError"

/-- The tail of `_calculate_borders` in dimension 4. -/
def borderArea (projected : List V3) : Except String Float := girardArea (sortCcw projected)

/-- `np.linalg.matrix_rank(M, tol)`: the number of singular values above `tol` (the singular values are the
    external numpy result). -/
def rankTol (sing : List Float) (tol : Float) : Nat := (sing.filter fun s => s > tol).length

/-- The explicit tolerance of the rank assertion (repair 35f2358 of finding F14). -/
def rankTolerance : Float := 1e-9

/-- `_calculate_borders` from the rank assertion on:
    `assert np.linalg.matrix_rank(shared_vertices, tol=1e-9) == dim - 1`, then the area of the projected polygon. -/
def borderAreaChecked (sing : List Float) (dim : Nat) (projected : List V3) : Except String Float :=
  if rankTol sing rankTolerance = dim - 1 then borderArea projected else throw "AssertionError"

end Molgri.FaceArea
