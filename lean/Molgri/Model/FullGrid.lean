/-
Model of `molgri.space.fullgrid.FullGrid._get_N_N` (lines 225-282), `FullGrid.get_total_volumes`
(lines 143-156), the row enumeration of `get_full_grid_as_array` (lines 185-195) and of
`molgri.space.voronoi.HalfRotobjVoronoi._calculate_N_N_array` (lines 366-401)   (C02).

Import-free, executable, polymorphic in the scalar `K` (instantiated at `Rat` by the driver, at an arbitrary
field in the proofs).

External inputs (outputs of other subsystems, parameters here):
* `P i j`      the dense position matrix `position_grid._get_N_N_position_array(sel).toarray()`  (`nP × nP`, `nP = n_t·n_o`)
* `R k l`      the dense rotation matrix whose `coo_array` is `b_rotations.get_spherical_voronoi()._calculate_N_N_array(sel)`
               (`nB × nB`);  both sub-grid getters build their `coo_array` from a dense array, i.e. row-major, zeros skipped
* `f`          `self.factor`
* for the antipode fold: the full-sphere matrix `A` (`2N × 2N`), the table `opp` of `which_row_is_k(all_grid, -n)` and the
  list of upper indices (`q_in_upper_sphere`).

A sparse matrix is the list of its stored entries `(row, col, value)` **in storage order**.
-/
namespace Molgri.FullGrid

/-- One stored entry `(row, col, value)` of a scipy `coo_array` / `csr_array`. -/
abbrev Entry (K : Type) := Nat × Nat × K

/-- `(row, col)` of a stored entry. -/
def key {K : Type} (e : Entry K) : Nat × Nat := (e.1, e.2.1)

/-- The stored `(row, col)` sequence (what `tocoo().row, tocoo().col` show). -/
def keys {K : Type} (es : List (Entry K)) : List (Nat × Nat) := es.map key

/-- All index pairs of an `n × n` matrix in row-major order. -/
def pairs (n : Nat) : List (Nat × Nat) :=
  (List.range n).flatMap fun r => (List.range n).map fun c => (r, c)

/-- The three properties `_get_N_N` is called with. -/
inductive Sel where
  | adjacency | borders | distances
  deriving DecidableEq, Repr

section
variable {K : Type} [Add K] [Mul K] [Zero K] [One K] [DecidableEq K]

/-- Row-major scan of a dense `n × n` array keeping the non-zero cells: this is `coo_array(dense)` and also the
layout of a canonical csr result (rows ascending, columns ascending inside a row, no stored zero). -/
def scan (n : Nat) (g : Nat → Nat → K) : List (Entry K) :=
  (List.range n).flatMap fun r =>
    (List.range n).filterMap fun c => if g r c = 0 then none else some (r, c, g r c)

/-- `coo_array(M)` for a dense `n × n` array `M`. -/
def cooOfDense (n : Nat) (M : Nat → Nat → K) : List (Entry K) := scan n M

/-- Row `r` of the csr form of a coo list: its `(col, value)` pairs in storage order. -/
def rowOf (es : List (Entry K)) (r : Nat) : List (Nat × K) :=
  es.filterMap fun e => if e.1 = r then some e.2 else none

/-- Sum of the values stored for column `c` in one row (duplicates add, as in `sum_duplicates`). -/
def colSum (l : List (Nat × K)) (c : Nat) : K :=
  (l.filterMap fun e => if e.1 = c then some e.2 else none).sum

/-- `es.toarray()[r, c]`. -/
def dense (es : List (Entry K)) (r c : Nat) : K := colSum (rowOf es r) c

/-- `A + B` for two `coo_array`s of shape `n × n`: both operands become canonical csr (duplicates summed), the
result is a canonical csr: rows ascending, columns ascending, entries whose sum is zero are not stored. -/
def addCsr (n : Nat) (A B : List (Entry K)) : List (Entry K) :=
  (List.range n).flatMap fun r =>
    let a := rowOf A r
    let b := rowOf B r
    (List.range n).filterMap fun c =>
      let v := colSum a c + colSum b c
      if v = 0 then none else some (r, c, v)

/-- `my_factor` (lines 249-260): `1`, `factor**2`, `factor`. -/
def factorOf (sel : Sel) (f : K) : K :=
  match sel with
  | .adjacency => 1
  | .borders => f * f
  | .distances => f

/-- The value stored for a *kept* (truthy) position entry `el`: `v*my_factor` cast to `dtype`.
For adjacency `dtype=bool`, so every truthy value is stored as `True` (`1.0` once added to the float block matrix). -/
def posValue (sel : Sel) (f el : K) : K :=
  match sel with
  | .adjacency => 1
  | .borders => el * (f * f)
  | .distances => el * f

/-- Lines 241-247 and 262: the loop over the dense position matrix with the truthiness filter `if el:`;
rows `n_b*i+k`, columns `n_b*j+k`. -/
def posEntries (nP nB : Nat) (sel : Sel) (f : K) (P : Nat → Nat → K) : List (Entry K) :=
  (List.range nP).flatMap fun i =>
    (List.range nP).flatMap fun j =>
      let el := P i j
      if el = 0 then []
      else
        let v := posValue sel f el
        (List.range nB).map fun k => (nB * i + k, nB * j + k, v)

/-- Lines 232-235: the rotation matrix, or `coo_array([[False]])` when `n_b = 1`. -/
def rotInput (nB : Nat) (R : Nat → Nat → K) : List (Entry K) :=
  if nB > 1 then cooOfDense nB R else cooOfDense 1 (fun _ _ => 0)

/-- The same as a dense array (zero when `n_b ≤ 1`). -/
def rotDense (nB : Nat) (R : Nat → Nat → K) : Nat → Nat → K :=
  fun a b => if nB > 1 then R a b else 0

/-- Lines 266-273: `bmat` of the block-diagonal arrangement: block `p` carries the rotation matrix shifted by `n_b*p`;
storage order is block after block, inside a block the order of the rotation `coo_array`. -/
def rotEntries (nP nB : Nat) (Rc : List (Entry K)) : List (Entry K) :=
  (List.range nP).flatMap fun p => Rc.map fun e => (nB * p + e.1, nB * p + e.2.1, e.2.2)

/-- `_get_N_N(sel_property)`: the stored entries of the returned matrix in storage order. -/
def full (nP nB : Nat) (sel : Sel) (f : K) (P R : Nat → Nat → K) : List (Entry K) :=
  let Rc := rotInput nB R
  if nP > 1 then addCsr (nP * nB) (rotEntries nP nB Rc) (posEntries nP nB sel f P)
  else Rc

/-- `_get_N_N(..., only_position=True)` (sic: it returns the same-position = rotation blocks). -/
def fullOnlyPosition (nP nB : Nat) (R : Nat → Nat → K) : List (Entry K) :=
  let Rc := rotInput nB R
  if nP > 1 then rotEntries nP nB Rc else Rc

/-- `_get_N_N(..., only_orientation=True)` (sic: the same-orientation = position entries). -/
def fullOnlyOrientation (nP nB : Nat) (sel : Sel) (f : K) (P R : Nat → Nat → K) : List (Entry K) :=
  if nP > 1 then posEntries nP nB sel f P else rotInput nB R

/-- `get_total_volumes` (lines 149-156): position-major, rotation-minor, `o_rot*(factor**3)*b_rot`. -/
def totalVolumes (f : K) (Vpos Vrot : List K) : List K :=
  Vpos.flatMap fun p => Vrot.map fun b => p * (f * f * f) * b

/-- What the statement says about the pair `(a, b)`: same rotation ⇒ the (kept) position entry with its factor,
same position ⇒ the rotation entry. -/
def specVal (sel : Sel) (nB : Nat) (f : K) (P R : Nat → Nat → K) (a b : Nat) : K :=
  (if a / nB = b / nB then R (a % nB) (b % nB) else 0)
  + (if a % nB = b % nB then (if P (a / nB) (b / nB) = 0 then 0 else posValue sel f (P (a / nB) (b / nB))) else 0)

/-! ### antipode fold (`HalfRotobjVoronoi._calculate_N_N_array`) -/

/-- One step of the inner loop (lines 379-381) on the current row (a list of `m` values):
`if el and j in ind2opp_index: adj[i][opp[j]] = adj[i][j]` — the row is updated in place, later `j` see the update. -/
def foldStep (opp : Nat → Option Nat) (row : List K) (j : Nat) : List K :=
  let el := row.getD j 0
  if el = 0 then row
  else match opp j with
    | none => row
    | some o => row.set o el

/-- The inner loop over `j = 0 … m-1` for one row. -/
def foldRow (m : Nat) (opp : Nat → Option Nat) (row : List K) : List K :=
  (List.range m).foldl (foldStep opp) row

/-- Lines 370-381: every row of the `m × m` full-sphere matrix is folded (rows are independent). -/
def foldAll (m : Nat) (opp : Nat → Option Nat) (A : Nat → Nat → K) (i : Nat) : List K :=
  foldRow m opp ((List.range m).map (A i))

/-- Lines 382-400: keep the rows and columns of the upper indices (in ascending order): the dense `N × N` array that is
handed to `coo_array` at the end, as a list of rows. -/
def halfRows (m : Nat) (opp : Nat → Option Nat) (upper : List Nat) (A : Nat → Nat → K) : List (List K) :=
  upper.map fun u =>
    let row := foldAll m opp A u
    upper.map fun c => row.getD c 0

/-- The same as a function of the two half-grid indices. -/
def halfDense (m : Nat) (opp : Nat → Option Nat) (upper : List Nat) (A : Nat → Nat → K) : Nat → Nat → K :=
  fun a b => (foldAll m opp A (upper.getD a 0)).getD (upper.getD b 0) 0

/-- The returned `coo_array` of `_calculate_N_N_array(only_upper=True, include_opposing_neighbours=True)`. -/
def halfMatrix (m : Nat) (opp : Nat → Option Nat) (upper : List Nat) (A : Nat → Nat → K) : List (Entry K) :=
  cooOfDense upper.length (halfDense m opp upper A)

end

/-- `get_full_grid_as_array` (lines 189-194): for every position all quaternions. -/
def fullArray {α β : Type} (positions : List α) (quats : List β) : List (α × β) :=
  positions.flatMap fun p => quats.map fun q => (p, q)

/-- Dense view of a list of rows (used by the driver). -/
def ofRows {K : Type} [Zero K] (rows : List (List K)) : Nat → Nat → K :=
  fun i j => (rows.getD i []).getD j 0

end Molgri.FullGrid
