/-
Model of `molgri.io.GridWriter` / `GridReader` (C20): five `save_*` wrappers around `np.save` /
`scipy.sparse.save_npz` and five `load_*` wrappers around `np.load` / `scipy.sparse.load_npz`.
Import-free, executable.

numpy's and scipy's serialisation is external: an array is a value of an arbitrary type `A`, a sparse matrix a
value of an arbitrary type `S` (in the correspondence check: shape, dtype, format, `data/indices/indptr` or
`row/col/data` in storage order, compared bitwise).  What the model contains is the file-name logic of the
wrappers (`np.save` appends `.npy`, `save_npz` appends `.npz`, the loaders do not), which getter goes to which
file, overwriting, and which loader accepts which kind of file.
-/
namespace Molgri.GridFiles

abbrev Path := List Char

/-- what is in a file -/
inductive Blob (A S : Type)
  | npy (a : A)
  | npz (s : S)
  deriving DecidableEq, Repr

/-- a directory: association list, most recent write first -/
abbrev FS (A S : Type) := List (Path × Blob A S)

def extNpy : List Char := ['.', 'n', 'p', 'y']
def extNpz : List Char := ['.', 'n', 'p', 'z']

/-- `if not file.endswith(ext): file = file + ext` -/
def withExt (ext : List Char) (p : Path) : Path := if ext.isSuffixOf p then p else p ++ ext

def lookup {A S : Type} (p : Path) : FS A S → Option (Blob A S)
  | [] => none
  | (q, b) :: fs => if p = q then some b else lookup p fs

/-- the five getters of the `FullGrid` held by the writer (`np.save` stores `np.asanyarray` of the value) -/
structure Grid (A S : Type) where
  fullGrid : A
  volumes : A
  borders : S
  distances : S
  adjacency : S

/-- the five writer methods -/
inductive Save
  | fullGrid (p : Path)     -- save_full_grid
  | volumes (p : Path)      -- save_volumes
  | borders (p : Path)      -- save_borders_array
  | distances (p : Path)    -- save_distances_array
  | adjacency (p : Path)    -- save_adjacency_array
  deriving DecidableEq, Repr

/-- the file a writer call creates or replaces -/
def Save.target : Save → Path
  | .fullGrid p => withExt extNpy p
  | .volumes p => withExt extNpy p
  | .borders p => withExt extNpz p
  | .distances p => withExt extNpz p
  | .adjacency p => withExt extNpz p

/-- what it contains afterwards -/
def Save.blob {A S : Type} (g : Grid A S) : Save → Blob A S
  | .fullGrid _ => .npy g.fullGrid
  | .volumes _ => .npy g.volumes
  | .borders _ => .npz g.borders
  | .distances _ => .npz g.distances
  | .adjacency _ => .npz g.adjacency

def write {A S : Type} (g : Grid A S) (fs : FS A S) (op : Save) : FS A S := (op.target, op.blob g) :: fs

/-- any sequence of writer calls -/
def run {A S : Type} (g : Grid A S) (fs : FS A S) (ops : List Save) : FS A S := ops.foldl (write g) fs

/-- result of `np.load(path)`: an array, or an `NpzFile` when the file is an archive -/
inductive NpLoaded (A S : Type)
  | array (a : A)
  | npzFile (s : S)
  deriving DecidableEq, Repr

/-- `GridReader.load_full_grid` / `load_volumes` = `np.load(path)` (no extension is appended) -/
def npLoad {A S : Type} (fs : FS A S) (p : Path) : Except String (NpLoaded A S) :=
  match lookup p fs with
  | none => throw "other:FileNotFoundError"
  | some (.npy a) => pure (.array a)
  | some (.npz s) => pure (.npzFile s)

/-- `GridReader.load_borders_array` / `load_distances_array` / `load_adjacency_array` = `sparse.load_npz(path)`;
    an `.npy` file makes `with np.load(...) as loaded` raise `TypeError` -/
def npzLoad {A S : Type} (fs : FS A S) (p : Path) : Except String S :=
  match lookup p fs with
  | none => throw "other:FileNotFoundError"
  | some (.npy _) => throw "TypeError"
  | some (.npz s) => pure s

end Molgri.GridFiles
