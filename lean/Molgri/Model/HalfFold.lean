/-
Model of the antipode fold of the rotation-grid matrices (C04).  Import-free, executable.

* `molgri/space/voronoi.py:366-401`  `HalfRotobjVoronoi._calculate_N_N_array`
    - the antipode index map `ind2opp_index` (`which_row_is_k(all_grid, -n)`, guarded),
    - the double loop that copies every non-zero entry `A[i][j]` onto column `ind2opp_index[j]` **in place**,
      in increasing `j`,
    - the NaN-masking extraction of the rows/columns of the upper hemisphere,
    - `coo_array(dense)` (the stored pattern is the set of non-zero entries).
* `molgri/space/voronoi.py:372-377`  the guard of the antipode lookup.  The code as it is now tests
  `len(opp_ind) > 0` (`Guard.len`, repair of finding F1).  The pre-repair guard `if opp_ind:` (truth value of an
  index array) is kept as `Guard.truth` so that the regression stays recognisable (`Props/C04.lean`,
  `guard_bug_witness`).
* `molgri/space/utils.py:239-257`  `distance_between_quaternions` (sign-folded angle), `which_row_is_k`,
  `q_in_upper_sphere`.

External to the model (inputs): the full-sphere `2N × 2N` matrix produced by `RotobjVoronoi._calculate_N_N_array`
on top of scipy/qhull, `arccos`, the grid rows.  A matrix is a `List (List α)` (rows); a grid row is a `List Rat`
(Python floats arrive as the exact dyadic rationals they are).
-/
namespace Molgri.HalfFold

/-! ## 1. `np.isclose`, `which_row_is_k`, `q_in_upper_sphere` (`utils.py`) -/

def absQ (x : Rat) : Rat := if x < 0 then -x else x

/-- numpy defaults `atol = 1e-8`, `rtol = 1e-5`. -/
def atol : Rat := 1 / 100000000
def rtol : Rat := 1 / 100000

/-- `np.isclose(a, b)`: `|a - b| <= atol + rtol * |b|` (asymmetric in `a`, `b`, as in numpy). -/
def isclose (a b : Rat) : Bool := decide (absQ (a - b) ≤ atol + rtol * absQ b)

/-- `np.all(np.isclose(k, row))` for one row of the array. -/
def rowClose (k row : List Rat) : Bool := (List.zipWith isclose k row).all id

/-- `find_inverse_quaternion(q) = -q`. -/
def negRow (q : List Rat) : List Rat := q.map (fun x => -x)

/-- `which_row_is_k(my_array, k) = np.nonzero(np.all(np.isclose(k, my_array), axis=1))[0]`:
    all matching row indices, ascending. -/
def whichRowIsK (grid : List (List Rat)) (k : List Rat) : List Nat :=
  (List.range grid.length).filter fun r => rowClose k (grid.getD r [])

/-- `np.allclose(q[:i], 0)`: every entry has `|x - 0| <= atol + rtol * 0`. -/
def allSmall (l : List Rat) : Bool := l.all fun x => isclose x 0

/-- `q_in_upper_sphere(q)`: `for i, q_i in enumerate(q): if np.allclose(q[:i], 0) and q[i] > 0: return True`. -/
def qInUpper (q : List Rat) : Bool :=
  (List.range q.length).any fun i => allSmall (q.take i) && decide (0 < q.getD i 0)

/-- `_get_upper_indices`: `sorted([i for i, point in enumerate(my_array) if q_in_upper_sphere(point)])`. -/
def upperIdx (grid : List (List Rat)) : List Nat :=
  (List.range grid.length).filter fun i => qInUpper (grid.getD i [])

/-! ## 2. the guarded antipode map (`voronoi.py:372-377`) -/

/-- Which test guards `ind2opp_index[d] = opp_ind[0]`. -/
inductive Guard
  | len    -- `if len(opp_ind) > 0:`   (the code as it is now)
  | truth  -- `if opp_ind:`            (pre-repair: truth value of a numpy index array)
  deriving DecidableEq, Repr

/-- The guard applied to the index array returned by `which_row_is_k`.
    `Guard.truth`: an empty array is falsy, a one-element array has the truth value of its element (so the
    array `[0]` is **falsy**), a longer array raises `ValueError` ("truth value of an array is ambiguous"). -/
def guardOpp : Guard → List Nat → Except String (Option Nat)
  | .len, l => pure l.head?
  | .truth, [] => pure none
  | .truth, [x] => pure (if x = 0 then none else some x)
  | .truth, _ :: _ :: _ => throw "ValueError"

/-- The dictionary `ind2opp_index` as a table: entry `d` is `some k` when `d` is a key with value `k`. -/
def oppTableOf (g : Guard) (matches_ : List (List Nat)) : Except String (List (Option Nat)) :=
  matches_.mapM (guardOpp g)

/-- `for d, n in enumerate(all_grid): opp_ind = which_row_is_k(all_grid, -n); if <guard>: ind2opp_index[d] = opp_ind[0]`. -/
def ind2opp (g : Guard) (grid : List (List Rat)) : Except String (List (Option Nat)) :=
  oppTableOf g (grid.map fun n => whichRowIsK grid (negRow n))

/-- Dictionary lookup: `j in ind2opp_index.keys()` / `ind2opp_index[j]`. -/
def oppFn (tbl : List (Option Nat)) (j : Nat) : Option Nat := (tbl[j]?).join

/-! ## 3. the fold (`voronoi.py:378-381`) -/
section Fold
variable {α : Type}

/-- Body of the inner loop for column `j` of the (already partly overwritten) row `r`:
    `if el and j in ind2opp_index.keys(): adj_matrix[i][ind2opp_index[j]] = adj_matrix[i][j]`.
    `el` is read from the row **as it is at that moment** (the row is a view that is mutated in place). -/
def foldStep (truthy : α → Bool) (opp : Nat → Option Nat) (r : List α) (j : Nat) : List α :=
  match r[j]? with
  | some el => if truthy el then
                 match opp j with
                 | some k => r.set k el
                 | none => r
               else r
  | none => r

/-- The row after the columns `0 … m-1` were visited. -/
def foldUpTo (truthy : α → Bool) (opp : Nat → Option Nat) (m : Nat) (r : List α) : List α :=
  (List.range m).foldl (foldStep truthy opp) r

/-- `for j, el in enumerate(line): …` over the whole row. -/
def foldRow (truthy : α → Bool) (opp : Nat → Option Nat) (r : List α) : List α :=
  foldUpTo truthy opp r.length r

/-- `for i, line in enumerate(adj_matrix): …` — rows are independent. -/
def foldMat (truthy : α → Bool) (opp : Nat → Option Nat) (A : List (List α)) : List (List α) :=
  A.map (foldRow truthy opp)

/-! ## 4. extraction of the upper hemisphere by NaN masking (`voronoi.py:382-399`) -/

/-- `extracted_arr[:] = nan; extracted_arr[avail, :] = A[avail, :]; extracted_arr[:, avail] = A[:, avail]`:
    entry `(i, j)` survives (`some`) when `i` or `j` is available, else it is NaN (`none`). -/
def maskUpper (avail : List Nat) (A : List (List α)) : List (List (Option α)) :=
  (List.range A.length).map fun i =>
    let row := A.getD i []
    (List.range row.length).map fun j => if i ∈ avail ∨ j ∈ avail then row[j]? else none

/-- `valid_rows = np.all(~np.isnan(M), axis=1)`. -/
def validRows (M : List (List (Option α))) : List Bool := M.map fun row => row.all Option.isSome

/-- `valid_columns = np.all(~np.isnan(M), axis=0)` for a matrix with `n` columns. -/
def validCols (n : Nat) (M : List (List (Option α))) : List Bool :=
  (List.range n).map fun j => M.all fun row => ((row[j]?).join).isSome

/-- Boolean-mask indexing `l[mask]`. -/
def pick {β : Type} (mask : List Bool) (l : List β) : List β :=
  (l.zip mask).filterMap fun (x, b) => if b then some x else none

/-- `M[valid_rows, :][:, valid_columns]`, the surviving entries (none of them is NaN any more). -/
def extractUpper (avail : List Nat) (A : List (List α)) : List (List (Option α)) :=
  let M := maskUpper avail A
  let vr := validRows M
  let vc := validCols A.length M
  (pick vr M).map fun row => pick vc row

/-- The direct description of the same result: rows and columns of `A` at the available indices. -/
def submatrix (idx : List Nat) (A : List (List α)) : List (List (Option α)) :=
  idx.map fun i => idx.map fun j => ((A[i]?).bind fun row => row[j]?)

/-- `HalfRotobjVoronoi._calculate_N_N_array` on top of the full-sphere dense matrix `A`
    (`include_opposing_neighbours`, `only_upper` as in the code; `avail = _get_upper_indices()`). -/
def halfMatrix (truthy : α → Bool) (opp : Nat → Option Nat) (avail : List Nat)
    (includeOpp onlyUpper : Bool) (A : List (List α)) : List (List (Option α)) :=
  let B := if includeOpp then foldMat truthy opp A else A
  if onlyUpper then extractUpper avail B else B.map fun row => row.map some

/-- `coo_array(dense)`: the stored entries are the non-zero ones, in row-major order. -/
def pattern (truthy : α → Bool) (B : List (List (Option α))) : List (Nat × Nat) :=
  (B.zipIdx.map fun (row, i) =>
    row.zipIdx.filterMap fun (x, j) => match x with
      | some v => if truthy v then some (i, j) else none
      | none => none).flatten

end Fold

/-- The whole getter on rationals: grid rows, full-sphere matrix, flags ↦ dense half matrix.
    Shapes are checked the way numpy would fail (`IndexError` for a grid longer than the matrix). -/
def halfMatrixQ (g : Guard) (grid : List (List Rat)) (A : List (List Rat)) (includeOpp onlyUpper : Bool) :
    Except String (List (List (Option Rat))) := do
  let tbl ← if includeOpp then ind2opp g grid else pure []
  if includeOpp ∧ tbl.any (fun o => o.any fun k => decide (A.length ≤ k)) then
    throw "IndexError"
  let avail := upperIdx grid
  if onlyUpper ∧ avail.any (fun i => decide (A.length ≤ i)) then throw "IndexError"
  pure (halfMatrix (fun x => decide (x ≠ 0)) (oppFn tbl) avail includeOpp onlyUpper A)

/-! ## 4b. hypothesis validators (not code)

Executable forms of the hypotheses of the theorems in `Props/C04.lean`; the driver evaluates them on every explored
grid, `Lemmas/HalfFold.lean` proves that `true` implies the hypothesis. -/

/-- No earlier row of the grid is `isclose` to a later one. -/
def sepB (grid : List (List Rat)) : Bool :=
  (List.range grid.length).all fun a => (List.range a).all fun b => !rowClose (grid.getD a []) (grid.getD b [])

/-- Every row of `G` is in the upper hemisphere and its negative is not. -/
def hupB (G : List (List Rat)) : Bool :=
  (List.range G.length).all fun d => qInUpper (G.getD d []) && !qInUpper (negRow (G.getD d []))

/-- The grid is the double cover `G ++ -G` of its first half. -/
def coverB (grid : List (List Rat)) : Bool :=
  let N := grid.length / 2
  decide (grid.length = 2 * N) && decide (grid.drop N = (grid.take N).map negRow)

/-- Entry `(i, j)` of a rational matrix (`0` outside). -/
def entQ (A : List (List Rat)) (i j : Nat) : Rat := (A.getD i []).getD j 0

def squareB (n : Nat) (A : List (List Rat)) : Bool :=
  decide (A.length = n) && A.all fun row => decide (row.length = n)

def symB (n : Nat) (A : List (List Rat)) : Bool :=
  (List.range n).all fun a => (List.range n).all fun b => decide (entQ A a b = entQ A b a)

/-- antipodal symmetry in the layout `G ++ -G`: `A (a ± N) (b ± N) = A a b`. -/
def antiB (N : Nat) (A : List (List Rat)) : Bool :=
  (List.range (2 * N)).all fun a => (List.range (2 * N)).all fun b =>
    decide (entQ A (if a < N then a + N else a - N) (if b < N then b + N else b - N) = entQ A a b)

/-- no cell touches itself or its own antipodal copy -/
def diagB (N : Nat) (A : List (List Rat)) : Bool :=
  (List.range (2 * N)).all fun a => decide (entQ A a a = 0) && decide (entQ A a (if a < N then a + N else a - N) = 0)

/-! ## 5. the sign-folded quaternion angle (`utils.py:239-257`) -/

/-- `np.clip(x, -1, 1)`. -/
def clip {K : Type} [LT K] [DecidableLT K] (lo hi x : K) : K :=
  if x < lo then lo else if hi < x then hi else x

/-- `np.where(theta > pi / 2, pi - theta, theta)`. -/
def quatDist {K : Type} [LT K] [DecidableLT K] [Sub K] [HDiv K K K] [OfNat K 2] (pi θ : K) : K :=
  if pi / 2 < θ then pi - θ else θ

/-- `distance_between_quaternions(q1, q2)` for two unit quaternions with scalar product `x`:
    `theta = arccos(clip(x, -1, 1))` (`angle_between_vectors`), then the fold.  `arccos` is a parameter. -/
def quatDistance {K : Type} [LT K] [DecidableLT K] [Sub K] [Neg K] [HDiv K K K] [OfNat K 1] [OfNat K 2]
    (arccos : K → K) (pi x : K) : K :=
  quatDist pi (arccos (clip (-1) 1 x))

end Molgri.HalfFold
