/-
Model of the sphere-grid generation code anchored by C07 (import-free, executable):

* `molgri/space/utils.py`   : `q_in_upper_sphere`, `hemisphere_quaternion_set`, `find_inverse_quaternion`,
                               `which_row_is_k` (`np.isclose`), `random_sphere_points` (rotation of z)
* `molgri/space/rotobj.py`  : `SphereGrid4Dim._gen_grid` (double cover `[G; -G]`), `get_upper_indices`,
                               `get_grid_as_array`, the shape/norm assertions of `gen_grid`, the factory dispatch,
                               the zero grids, the `fulldiv` table, the `while len(nodes) < N: divide` loops
* `molgri/space/polytopes.py`: `get_nodes(N)` / `_check_N`, `get_half_of_hypercube`

A point / quaternion is a `List K`; a grid is a list of rows.  The scalar `K` is any type with the core operator
classes (the driver instantiates `Rat`: Python floats arrive as the exact dyadic rationals they are; the theorems
take an arbitrary linearly ordered field).  External library results (numpy's RNG, `normalise_vectors`, the
polytope's node list in central-index order) are inputs.
-/
namespace Molgri.Hemi

/-! ## 1. the canonical hemisphere (`utils.py`) -/
section Order
variable {K : Type} [Zero K] [Neg K] [LT K] [LE K] [DecidableLT K] [DecidableLE K]

/-- `np.allclose(x, 0)` for one float with the default `atol = 1e-8` (`rtol·|0| = 0`): `|x| ≤ tol`. -/
def small (tol x : K) : Bool := decide (-tol ≤ x) && decide (x ≤ tol)

/-- `np.allclose(q[:i], 0)` (true for the empty slice). -/
def smallAll (tol : K) (l : List K) : Bool := l.all (small tol)

/-- `q_in_upper_sphere(q)`:
    `for i, q_i in enumerate(q): if np.allclose(q[:i], 0) and q[i] > 0: return True` / `return False`. -/
def upper (tol : K) (q : List K) : Bool :=
  (List.range q.length).any fun i => smallAll tol (q.take i) && decide (0 < q.getD i 0)

/-- The same test written by recursion on the coordinates (proved equal to `upper` in `Lemmas/Hemisphere`). -/
def upperRec (tol : K) : List K → Bool
  | [] => false
  | x :: xs => decide (0 < x) || (small tol x && upperRec tol xs)

/-- `find_inverse_quaternion(q) = -q`. -/
def neg (q : List K) : List K := q.map (fun x => -x)

/-- One row of `hemisphere_quaternion_set(·, upper=True)`: keep `q` if the `for i in range(4)` loop breaks
    (the same test as `q_in_upper_sphere` on a row of four numbers), else append `-q`. -/
def canon (tol : K) (q : List K) : List K := if upper tol q then q else neg q

/-- `hemisphere_quaternion_set(quaternions)`; the input assertion demands an `(·, 4)` array. -/
def hemisphereSet (tol : K) (Q : List (List K)) : Except String (List (List K)) :=
  if Q.all (fun q => q.length == 4) then pure (Q.map (canon tol)) else throw "AssertionError"

/-- `SphereGrid4Dim._gen_grid`: `full[:N] = half; for i in range(N): full[N+i] = -half[i]`.
    `half` must be an `(N,4)` array; a single row is broadcast by numpy and the loop then leaves the array
    (`IndexError`) at `i = 1`; any other row count cannot be assigned (`ValueError`). -/
def doubleCover (N : Nat) (half : List (List K)) : Except String (List (List K)) :=
  if !(half.all (fun q => q.length == 4)) then throw "ValueError"
  else if half.length = N then pure (half ++ half.map neg)
  else if half.length = 1 ∧ 2 ≤ N then throw "IndexError"
  else throw "ValueError"

/-- `get_upper_indices`: `sorted([i for i, point in enumerate(grid) if q_in_upper_sphere(point)])`
    (the comprehension is already ascending). -/
def upperIdx (tol : K) (G : List (List K)) : List Nat :=
  (List.range G.length).filter fun i => upper tol (G.getD i [])

/-- `get_grid_as_array(only_upper)`: `grid[upper_indices]` or the whole array. -/
def gridAsArray (tol : K) (G : List (List K)) (onlyUpper : Bool) : List (List K) :=
  if onlyUpper then (upperIdx tol G).map (fun i => G.getD i []) else G

/-- Hypothesis validator (not code): every coordinate is exactly zero or larger than the tolerance in size.
    On such rows the tolerance test `np.allclose(·, 0)` is the exact zero test. -/
def gapOk (tol : K) (q : List K) : Bool :=
  q.all fun x => !(small tol x) || (!(decide (x < 0)) && !(decide (0 < x)))

end Order

/-! ## 2. arithmetic helpers, `np.isclose`, the assertions of `gen_grid` -/
section Arith
variable {K : Type} [Zero K] [One K] [Add K] [Sub K] [Mul K] [Neg K] [LT K] [LE K] [DecidableLT K] [DecidableLE K]

def absK (x : K) : K := if x < 0 then -x else x
def maxK (a b : K) : K := if a < b then b else a

def dot : List K → List K → K
  | x :: xs, y :: ys => x * y + dot xs ys
  | _, _ => 0

def normSq (p : List K) : K := dot p p

/-- `‖p‖∞`. -/
def supNorm : List K → K
  | [] => 0
  | x :: xs => maxK (absK x) (supNorm xs)

def scale (c : K) (p : List K) : List K := p.map (fun x => c * x)

/-- Gauge of a convex solid given by its face functionals: `max_f (n_f · p)` (the solid is `{gauge ≤ r}`).
    Cube: the normals `±e_i` give `‖p‖∞`; icosahedron: the 20 face normals. -/
def gaugeOf (normals : List (List K)) (p : List K) : K :=
  match normals with
  | [] => 0
  | n :: rest => rest.foldl (fun m n' => maxK m (dot n' p)) (dot n p)

/-- `np.isclose(a, b)`: `|a - b| ≤ atol + rtol·|b|`. -/
def isclose (atol rtol a b : K) : Bool := decide (absK (a - b) ≤ atol + rtol * absK b)

/-- `np.all(np.isclose(k, row))` for two rows of the same length. -/
def rowClose (atol rtol : K) : List K → List K → Bool
  | [], [] => true
  | a :: as, b :: bs => isclose atol rtol a b && rowClose atol rtol as bs
  | _, _ => false

/-- `which_row_is_k(my_array, k)`: indices of all rows close to `k`, ascending. -/
def whichRowIsK (atol rtol : K) (A : List (List K)) (k : List K) : List Nat :=
  (List.range A.length).filter fun i => rowClose atol rtol k (A.getD i [])

/-- The assertions of `SphereGridNDim.gen_grid` (rotobj.py:90-95): shape `(N,3)` / `(2N,4)` and
    `np.allclose(norm(row), 1, atol=1e-5)`, i.e. `lo ≤ ‖row‖² ≤ hi` with `lo = (1-2e-5)²`, `hi = (1+2e-5)²`. -/
def genCheck (dims N : Nat) (lo hi : K) (G : List (List K)) : Except String (List (List K)) :=
  let rows := if dims = 3 then N else 2 * N
  if !(dims = 3 ∨ dims = 4) then pure G       -- no shape assertion for other dimensions (unreachable via factory)
  else if G.length ≠ rows then throw "AssertionError"
  else if !(G.all fun r => r.length == dims) then throw "AssertionError"
  else if !(G.all fun r => decide (lo ≤ normSq r) && decide (normSq r ≤ hi)) then throw "AssertionError"
  else pure G

end Arith

/-! ## 3. polytope getters (`polytopes.py`) -/
section Getters
variable {K : Type} [Zero K] [One K] [Add K] [Sub K] [Mul K] [Neg K] [LT K] [LE K] [DecidableLT K] [DecidableLE K]

/-- `Polytope.get_nodes(N)`: `_check_N` (`ValueError` if more points are ordered than exist) and `[:N]` of the
    array sorted by central index (`nodes` is that array). -/
def getNodes (nodes : List (List K)) (N : Option Nat) : Except String (List (List K)) :=
  let n := N.getD nodes.length
  if n > nodes.length then throw "ValueError" else pure (nodes.take n)

/-- `which_row_is_k(projected_points, upp)[0]` (`IndexError` on an empty result). -/
def firstRowIsK (atol rtol : K) (A : List (List K)) (k : List K) : Except String Nat :=
  match whichRowIsK atol rtol A k with
  | [] => throw "IndexError"
  | i :: _ => pure i

/-- The index part of `Cube4DPolytope.get_half_of_hypercube`:
    `unique = [p for p in projected if q_in_upper_sphere(p)]`,
    `all_ci = sorted(which_row_is_k(projected, upp)[0] for upp in unique)`, the `N` check, `[:N]`. -/
def selectHalfIdx (tol atol rtol : K) (proj : List (List K)) (N : Option Nat) : Except String (List Nat) := do
  let unique := proj.filter (upper tol)
  let allCi ← unique.mapM (firstRowIsK atol rtol proj)
  let sorted := allCi.mergeSort (fun a b => decide (a ≤ b))
  let n := N.getD sorted.length
  if n > sorted.length then throw "ValueError" else pure (sorted.take n)

/-- `get_half_of_hypercube(projection, N)`: `get_nodes(projection)[all_ci][:N]`; `out` is the array the rows are
    taken from (the projections or the polytope points, both in central-index order). -/
def selectHalf (tol atol rtol : K) (proj out : List (List K)) (N : Option Nat) : Except String (List (List K)) := do
  let idx ← selectHalfIdx tol atol rtol proj N
  pure (idx.map fun i => out.getD i [])

end Getters

/-! ## 4. grid classes of `rotobj.py` -/

/-- `FullDivCube4DRotations.__init__`: `allowed = (8, 40, 272, 2080)`; number of `divide_edges()` calls
    = index of `N` in the table, otherwise `ValueError`. -/
def fulldivLevel (N : Nat) : Except String Nat :=
  match [8, 40, 272, 2080].idxOf? N with
  | some i => pure i
  | none => throw "ValueError"

/-- Number of nodes of the hypercube polytope after `L` divisions: the 16 vertices, then the boundary lattice
    `{p ∈ ℤ⁴ : ‖p‖∞ = m}`, `m = 2^(L-1)` (validated against the implementation by the correspondence check). -/
def hypercubeCount (L : Nat) : Nat :=
  if L = 0 then 16 else (2 * 2 ^ (L - 1) + 1) ^ 4 - (2 * 2 ^ (L - 1) - 1) ^ 4

/-- `while len(nodes) < N: divide_edges()` — the number of divisions performed, for a polytope whose node count
    after `ℓ` divisions is `count ℓ` (`fuel` bounds the search; the code loops forever if no level is large enough,
    which cannot happen because counts grow). -/
def divisionsNeeded (count : Nat → Nat) (N : Nat) : Nat → Nat → Nat
  | 0, ℓ => ℓ
  | fuel + 1, ℓ => if count ℓ < N then divisionsNeeded count N fuel (ℓ + 1) else ℓ

/-- `IcoAndCube3DRotations._gen_grid`: divide until enough nodes exist, then `get_nodes(N, projection=True)`.
    `projAt ℓ` = projected nodes in central-index order after `ℓ` divisions. -/
def gen3D {K : Type} (projAt : Nat → List (List K)) (N fuel : Nat) : Except String (List (List K)) :=
  let ℓ := divisionsNeeded (fun l => (projAt l).length) N fuel 0
  getNodes (projAt ℓ) (some N)

section Gen4D
variable {K : Type} [Zero K] [One K] [Add K] [Sub K] [Mul K] [Neg K] [LT K] [LE K] [DecidableLT K] [DecidableLE K]

/-- `len(self.polytope.get_half_of_hypercube())` at level `ℓ` (0 when the getter raises). -/
def halfLen (tol atol rtol : K) (projAt : Nat → List (List K)) (ℓ : Nat) : Nat :=
  match selectHalfIdx tol atol rtol (projAt ℓ) none with
  | .ok l => l.length
  | .error _ => 0

/-- `Cube4DRotations._gen_grid`: `while len(half) < N: divide`, `half(N, projection=True)`, then the double cover. -/
def genCube4D (tol atol rtol : K) (projAt : Nat → List (List K)) (N fuel : Nat) :
    Except String (List (List K)) := do
  let ℓ := divisionsNeeded (halfLen tol atol rtol projAt) N fuel 0
  let half ← selectHalf tol atol rtol (projAt ℓ) (projAt ℓ) (some N)
  doubleCover N half

/-- `FullDivCube4DRotations`: table look-up, that many divisions, the whole half, then the double cover. -/
def genFulldiv (tol atol rtol : K) (projAt : Nat → List (List K)) (N : Nat) : Except String (List (List K)) := do
  let ℓ ← fulldivLevel N
  let half ← selectHalf tol atol rtol (projAt ℓ) (projAt ℓ) none
  doubleCover N half

/-- `RandomQRotations._gen_grid`: `hemisphere_quaternion_set(random_quaternions(N))`, then the double cover. -/
def genRandomQ (tol : K) (quats : List (List K)) (N : Nat) : Except String (List (List K)) := do
  let half ← hemisphereSet tol quats
  doubleCover N half

/-- `ZeroRotations3D._gen_grid`: `[[0, 0, 1]]`, `N := 1`. -/
def zero3D : List (List K) := [[0, 0, 1]]

/-- `ZeroRotations4D._gen_grid`: the identity quaternion (scalar last) and its double cover, `N := 1`. -/
def zero4D : Except String (List (List K)) := doubleCover 1 [[(0 : K), 0, 0, 1]]

end Gen4D

/-- `SphereGridFactory.create` dispatch: which generator a `(alg_name, dimensions)` pair reaches. -/
def factoryClass (alg : String) (dims : Nat) : Except String String :=
  if dims = 3 then
    if alg = "randomS" ∨ alg = "ico" ∨ alg = "cube3D" ∨ alg = "zero3D" then pure alg else throw "ValueError"
  else if dims = 4 then
    if alg = "randomQ" ∨ alg = "cube4D" ∨ alg = "fulldiv" ∨ alg = "zero4D" then pure alg else throw "ValueError"
  else throw "ValueError"

/-- The algorithm a *named* grid reaches (`GridNameParser`, clause used by C07 only): for a known algorithm of
    the role and `N = 1` the zero algorithm is substituted. -/
def namedAlg (alg : String) (N : Nat) (dims : Nat) : String :=
  if N = 1 then (if dims = 3 then "zero3D" else "zero4D") else alg

/-! ## 5. `random_sphere_points`: rotation of the z vector by a (scalar-last) quaternion -/
section RotZ
variable {K : Type} [Zero K] [One K] [Add K] [Sub K] [Mul K] [Div K]

/-- `Rotation.from_quat(q).apply([0,0,1])` with scipy's normalisation of `q = (x, y, z, w)`:
    third column of the rotation matrix. -/
def rotZ : List K → List K
  | [x, y, z, w] =>
    let n := x * x + y * y + z * z + w * w
    [(x * z + y * w + (x * z + y * w)) / n, (y * z - x * w + (y * z - x * w)) / n, (w * w + z * z - x * x - y * y) / n]
  | _ => []

end RotZ

/-! ## 6. exact cube lattices and the separation check (integers only; executable check, not a theorem) -/

/-- All integer points of `[-m, m]^d`. -/
def boxPoints (m : Nat) : Nat → List (List Int)
  | 0 => [[]]
  | d + 1 => ((List.range (2 * m + 1)).map fun (i : Nat) => (i : Int) - (m : Int)).flatMap fun x => (boxPoints m d).map (x :: ·)

/-- `{p ∈ ℤ^d : ‖p‖∞ = m}`: the nodes of the cube (d = 3) / hypercube (d = 4) polytope after `L ≥ 1` divisions,
    `m = 2^(L-1)`, in units of the node spacing. -/
def cubeLattice (d m : Nat) : List (List Int) :=
  (boxPoints m d).filter fun p => supNorm p == (m : Int)

/-- The `2^d` vertices `(±1, …, ±1)` (level 0). -/
def cubeVertices : Nat → List (List Int)
  | 0 => [[]]
  | d + 1 => [(-1 : Int), 1].flatMap fun x => (cubeVertices d).map (x :: ·)

/-- Nearest integer to `x / h` (`h > 0`). -/
def latticeCoord (h x : Rat) : Int := (x / h + 1 / 2).floor

/-- Float node ↦ lattice point for spacing `h`. -/
def latticePoint (h : Rat) (p : List Rat) : List Int := p.map (latticeCoord h)

/-- Largest deviation `|x - n·h|` of a float node from its lattice point. -/
def latticeDev (h : Rat) (p : List Rat) : Rat :=
  supNorm (p.map fun x => x - (latticeCoord h x : Rat) * h)

/-- Does the float row `u` equal the unit vector of the integer point `p` up to `eps`
    (`sign u_i = sign p_i` and `|u_i²·‖p‖² - p_i²| ≤ eps·‖p‖²`)?  No square root needed. -/
def isUnitOf (eps : Rat) (p : List Int) (u : List Rat) : Bool :=
  let n : Rat := ((normSq p : Int) : Rat)
  p.length == u.length &&
  (List.zip p u).all fun (pi, ui) =>
    (decide (0 < pi) == decide (0 < ui)) && (decide (pi < 0) == decide (ui < 0)) &&
    decide (absK (ui * ui * n - ((pi * pi : Int) : Rat)) ≤ eps * n)

/-- A squared cosine as a fraction `num/den` (`den > 0`), `0/1` when there is no pair yet.  The scalar `R` is `Int`
    for the cubes and `ℤ[φ]` (`Model/IcoExact.lean`) for the icosahedron. -/
structure Frac (R : Type) where
  num : R
  den : R
deriving Repr, BEq

section Sep
variable {R : Type} [Zero R] [One R] [Add R] [Mul R] [LE R] [DecidableLE R]

def Frac.le (a b : Frac R) : Bool := decide (a.num * b.den ≤ b.num * a.den)
def Frac.max (a b : Frac R) : Frac R := if Frac.le a b then b else a

/-- `cos²` of the angle between two exact points, as seen by a *direction* grid: pairs at 90° or more count as 0. -/
def cosSqDir (p q : List R) : Frac R :=
  let d := dot p q
  if d ≤ 0 then ⟨0, 1⟩ else ⟨d * d, normSq p * normSq q⟩

/-- `cos²` as seen by a *rotation* grid (`q` and `-q` are the same rotation: `|cos|`). -/
def cosSqRot (p q : List R) : Frac R :=
  let d := dot p q
  ⟨d * d, normSq p * normSq q⟩

/-- Running maxima: entry `j` = largest `cos²` among the first `j+1` points (`0/1` for a single point). -/
def runningMax (c : List R → List R → Frac R) (pts : List (List R)) : List (Frac R) :=
  let step := fun (acc : List (List R) × Frac R × List (Frac R)) (p : List R) =>
    let m := acc.1.foldl (fun m q => Frac.max m (c p q)) acc.2.1
    (p :: acc.1, m, m :: acc.2.2)
  (pts.foldl step ([], ⟨0, 1⟩, [])).2.2.reverse

/-- Direction bound for the first `N` points: minimum chord `≥ 1/√N`
    ⇔ `2 - 2cos ≥ 1/N` ⇔ `cos ≤ 1 - 1/(2N)` ⇔ `cos²·(2N)² ≤ (2N-1)²` (for `cos > 0`). -/
def sepDirOk [NatCast R] (N : Nat) (c2 : Frac R) : Bool :=
  decide (c2.num * (((2 * N : Nat) : R) * ((2 * N : Nat) : R)) ≤ (((2 * N - 1 : Nat) : R) * ((2 * N - 1 : Nat) : R)) * c2.den)

end Sep

/-- Integer cube root (largest `r` with `r³ ≤ n`) by bisection. -/
def icbrtAux (n : Nat) : Nat → Nat → Nat → Nat
  | 0, lo, _ => lo
  | fuel + 1, lo, hi =>
    if hi ≤ lo + 1 then lo
    else
      let mid := (lo + hi) / 2
      if mid * mid * mid ≤ n then icbrtAux n fuel mid hi else icbrtAux n fuel lo mid

def icbrt (n : Nat) : Nat := icbrtAux n (4 * n.log2 + 8) 0 (n + 2)

/-- Rotation bound for the first `N` rows: minimum chord of the double cover `≥ 0.6/∛N`
    ⇔ `|cos| ≤ 1 - 0.18·N^(-2/3)`.  `N^(2/3)` is bracketed by rationals 10⁻³⁰ apart; the verdict is
    `some true` / `some false` when both ends of the bracket agree, `none` (undecided) otherwise. -/
def sepRotVerdict (N : Nat) (c2 : Frac Int) : Option Bool :=
  let S : Nat := 10 ^ 30
  let rlo : Rat := ((icbrt (N * N * S ^ 3) : Nat) : Rat) / (S : Rat)        -- ≤ N^(2/3)
  let rhi : Rat := rlo + 1 / (S : Rat)                                       -- > N^(2/3)
  let bhi : Rat := (18 : Rat) / 100 / rlo                                    -- ≥ 0.18 N^(-2/3)
  let blo : Rat := (18 : Rat) / 100 / rhi
  let c : Rat := (c2.num : Rat) / (c2.den : Rat)
  if bhi ≤ 1 ∧ c ≤ (1 - bhi) * (1 - bhi) then some true
  else if 1 < blo ∨ (1 - blo) * (1 - blo) < c then some false
  else none

/-- Exact upper-hemisphere half of an integer node list, in index order. -/
def exactHalf (pts : List (List Int)) : List (List Int) := pts.filter (upper (0 : Int))

end Molgri.Hemi
