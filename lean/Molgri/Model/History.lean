/-
Model of the stateful part of grid creation and of the geometry getters (C08).

Anchors (molgri/space):
* `polytopes.py`  `Polytope.__init__`, `get_nodes`, `_check_N`, `_get_attributes_array_sorted_by_index`
                  (sorted-node cache keyed by node count), `divide_edges`, `_end_of_divison`
                  (`np.random.seed(15)`, `np.random.shuffle`, permanent central index),
                  `_add_polytope_point` (networkx `add_node` = dict insert-or-update),
                  `Cube4DPolytope.get_half_of_hypercube`
* `rotobj.py`     `SphereGridNDim.gen_grid`, every `_gen_grid` (`np.random.seed(0)` for the random grids, the
                  `while … divide_edges()` loops, `G ++ -G` double cover), the two factories
* `voronoi.py`    `RotobjVoronoi.__init__` (`np.random.seed(1)`, 3000/5000 dense helper points),
                  `HalfRotobjVoronoi.__init__` (the full object is built first),
                  `HalfRotobjVoronoi._additional_points_per_cell` (helper points filtered IN PLACE), the getters

Everything numerical is a parameter (`Ext`): the networkx/numpy subdivision geometry, normalisation, the hemisphere
test, scipy's `SphericalVoronoi`/qhull-based getters.  numpy's global Mersenne Twister is a parameter (`Rng`):
`seed`, `shuffle` (returns the permutation it applies to a list of length `n`) and `draw` (a block of `k` uniforms).
Mutable state is explicit: the global generator, every live polytope (node table with level / projection / central
index, the `current_nodes` cache) and every live grid object (its array, its Voronoi object's helper points).

Import-free, total, computable.  `np.allclose`-style row matching (`which_row_is_k`) is modelled as equality of
points.  The `assert`s of `gen_grid` on shape and norm are not modelled (they do not touch state).
-/
namespace Molgri.History

/-- The three polytopes of `polytopes.py`. -/
inductive PolyKind | ico | cube3D | cube4D
  deriving DecidableEq, Repr

/-- The algorithm names of the two factories of `rotobj.py`. -/
inductive Alg | ico | cube3D | randomS | zero3D | cube4D | randomQ | fulldiv | zero4D
  deriving DecidableEq, Repr

/-- Python exceptions that the modelled code can raise (`loop` = the `while` loop of `_gen_grid` never ends,
`noObject` = the history refers to an object that was never created). -/
inductive Err | valueError | keyError | typeError | indexError | attributeError | loop | noObject
  deriving DecidableEq, Repr

/-- Which N×N array `_calculate_N_N_array` is asked for. -/
inductive Sel | adjacency | borders | distances
  deriving DecidableEq, Repr

/-- numpy's global generator. `shuffle r n` is `np.random.shuffle` of a list of length `n` in state `r`: the new state and
the permutation `σ` it applies (`result[i] = old[σ[i]]`); `draw r k` is `np.random.random(k)`. -/
structure Rng (R W : Type) where
  seed : Nat → R
  shuffle : R → Nat → R × List Nat
  draw : R → Nat → R × W

/-- External numerical code as parameters.  `Γ` = the networkx graph (edges, faces, coordinates), `Pt` = a point
(a coordinate tuple), `W` = a block of uniforms, `O` = what a getter returns. -/
structure Ext (Γ Pt W O : Type) where
  /-- `_create_level0`: the graph and the points handed to `_add_polytope_point`, in call order. -/
  init : PolyKind → Γ × List Pt
  /-- `_add_mid_edge_nodes` plus the edge bookkeeping of `divide_edges`: the new graph and the points handed to
  `_add_polytope_point`, in call order (repetitions possible: two face diagonals share their midpoint). -/
  divide : PolyKind → Γ → Γ × List Pt
  /-- `normalise_vectors`. -/
  proj : Pt → Pt
  /-- `q_in_upper_sphere` (also the test inside `hemisphere_quaternion_set`). -/
  upper : Pt → Bool
  /-- `find_inverse_quaternion` / unary minus. -/
  neg : Pt → Pt
  /-- `random_sphere_points(N)` as a function of the `3N` uniforms it draws. -/
  sphere : W → Nat → List Pt
  /-- `random_quaternions(N)` as a function of the `3N` uniforms it draws. -/
  quat : W → Nat → List Pt
  zero3 : Pt
  zero4 : Pt
  /-- `normalise_vectors(random_sphere_points(3000), length=norm(my_array[0]))`. -/
  dense3 : W → List Pt → List Pt
  /-- `random_quaternions(5000)`. -/
  dense4 : W → List Pt
  /-- the grid array as returned. -/
  arr : List Pt → O
  /-- `SphericalVoronoi(grid).calculate_areas()`. -/
  areas : List Pt → O
  /-- `AbstractVoronoi.get_voronoi_volumes` (hull area / 2) of the full Voronoi object of `grid` with the given helper
  points; `half = true`: followed by the selection of the upper indices (`HalfRotobjVoronoi.get_voronoi_volumes`). -/
  hullVol : Bool → List Pt → List Pt → O
  /-- `get_convex_hulls()` of the (half) Voronoi object of `grid` with the given helper points. -/
  hulls : Bool → List Pt → List Pt → O
  /-- `_calculate_N_N_array(sel)` of the (half) Voronoi object of `grid`. -/
  nn : Sel → Bool → List Pt → O
  /-- `MikroVoronoi` getters: `dimensions`, `N_points`. -/
  mikroVol : Nat → Nat → O
  mikroNN : Nat → O

/-! ### polytopes.py -/

/-- A node of `self.G` with the attributes the anchored code reads. -/
structure Node (Pt : Type) where
  key : Pt
  level : Nat
  proj : Pt
  ci : Option Nat
  deriving DecidableEq, Repr

/-- The mutable fields of a `Polytope`. `nodes` is `self.G.nodes` in insertion order, `cache` is `self.current_nodes`. -/
structure Poly (Γ Pt : Type) where
  kind : PolyKind
  g : Γ
  nodes : List (Node Pt)
  level : Nat
  maxCi : Nat
  cache : Option (List Pt) × Nat

variable {Γ Pt W O R : Type} [DecidableEq Pt]

/-- `self.G.add_node(tuple(point), level=…, projection=…)`: insert, or update the attributes of an existing key
(networkx keeps every other attribute, in particular `central_index`, and the position in the dict). -/
def addNode (ext : Ext Γ Pt W O) (lvl : Nat) (nodes : List (Node Pt)) (p : Pt) : List (Node Pt) :=
  if nodes.any (fun nd => nd.key == p) then
    nodes.map (fun nd => if nd.key = p then { nd with level := lvl, proj := ext.proj p } else nd)
  else nodes ++ [{ key := p, level := lvl, proj := ext.proj p, ci := none }]

/-- `self.G.nodes[tuple(n)]["central_index"] = c`. -/
def setCi (nodes : List (Node Pt)) (p : Pt) (c : Nat) : List (Node Pt) :=
  nodes.map (fun nd => if nd.key = p then { nd with ci := some c } else nd)

/-- `for i, n in enumerate(new_nodes): … = self.current_max_ci + i`. -/
def assignCi (base : Nat) : List (Node Pt) → List (Pt × Nat) → List (Node Pt)
  | nodes, [] => nodes
  | nodes, (p, i) :: rest => assignCi base (setCi nodes p (base + i)) rest

/-- Apply the permutation returned by `shuffle` to a list. -/
def applyPerm {α : Type} (σ : List Nat) (l : List α) : List α := σ.filterMap (fun i => l[i]?)

/-- `_end_of_divison`.  The incoming generator state is overwritten by `np.random.seed(15)`. -/
def endOfDivision (rng : Rng R W) (_r : R) (P : Poly Γ Pt) : R × Poly Γ Pt :=
  let new := (P.nodes.filter (fun nd => nd.level == P.level)).map (·.key)
  let r1 := rng.seed 15
  let sh := rng.shuffle r1 new.length
  let shuffled := applyPerm sh.2 new
  (sh.1, { P with nodes := assignCi P.maxCi P.nodes shuffled.zipIdx,
                  maxCi := P.maxCi + shuffled.length,
                  level := P.level + 1 })

/-- `Polytope.__init__` + `_create_level0`. -/
def newPoly (ext : Ext Γ Pt W O) (rng : Rng R W) (r : R) (k : PolyKind) : R × Poly Γ Pt :=
  let gi := ext.init k
  endOfDivision rng r { kind := k, g := gi.1, nodes := gi.2.foldl (addNode ext 0) [],
                        level := 0, maxCi := 0, cache := (none, 0) }

/-- `divide_edges`. -/
def divideEdges (ext : Ext Γ Pt W O) (rng : Rng R W) (r : R) (P : Poly Γ Pt) : R × Poly Γ Pt :=
  let gd := ext.divide P.kind P.g
  endOfDivision rng r { P with g := gd.1, nodes := gd.2.foldl (addNode ext P.level) P.nodes }

/-- Insertion into a list sorted by `key`, before the first element whose key is not smaller. -/
def insertBy {α : Type} (key : α → Nat) (a : α) : List α → List α
  | [] => [a]
  | b :: l => if key a ≤ key b then a :: b :: l else b :: insertBy key a l

/-- Stable insertion sort by `key` (Python's `sorted(…, key=…)` is stable; the result of a stable sort is unique). -/
def sortBy {α : Type} (key : α → Nat) : List α → List α
  | [] => []
  | a :: l => insertBy key a (sortBy key l)

/-- `sorted(self.G.nodes(), key=lambda n: self.G.nodes[n]['central_index'])`; a node without index is a `KeyError`. -/
def sortByCi (nodes : List (Node Pt)) : Except Err (List Pt) :=
  if nodes.all (fun nd => nd.ci.isSome) then
    .ok ((sortBy (fun nd => nd.ci.getD 0) nodes).map (·.key))
  else .error .keyError

/-- `_get_attributes_array_sorted_by_index("polytope_point")`: the sorted keys, with the cache keyed by node count. -/
def sortedNodes (P : Poly Γ Pt) : Poly Γ Pt × Except Err (List Pt) :=
  let n := P.nodes.length
  if n = 0 then (P, .ok [])
  else if P.cache.2 = n then
    match P.cache.1 with
    | some s => (P, .ok s)
    | none => (P, .error .typeError)
  else
    match sortByCi P.nodes with
    | .ok s => ({ P with cache := (some s, n) }, .ok s)
    | .error e => (P, .error e)

/-- `self.G.nodes[tuple(n)]["projection"]`. -/
def lookupProj (nodes : List (Node Pt)) (k : Pt) : Except Err Pt :=
  match nodes.find? (fun nd => nd.key == k) with
  | some nd => .ok nd.proj
  | none => .error .keyError

/-- `mapM` for `Except`, written out (structural, reduces in the kernel). -/
def mapE {α β : Type} (f : α → Except Err β) : List α → Except Err (List β)
  | [] => .ok []
  | a :: l =>
    match f a with
    | .error e => .error e
    | .ok b =>
      match mapE f l with
      | .error e => .error e
      | .ok bs => .ok (b :: bs)

/-- `get_nodes(N, projection)`. -/
def getNodes (P : Poly Γ Pt) (N : Option Nat) (proj : Bool) : Poly Γ Pt × Except Err (List Pt) :=
  let avail := P.nodes.length
  let n := N.getD avail
  if n > avail then (P, .error .valueError)
  else
    let sr := sortedNodes P
    match sr.2 with
    | .error e => (sr.1, .error e)
    | .ok s =>
      if proj then
        match mapE (lookupProj sr.1.nodes) s with
        | .error e => (sr.1, .error e)
        | .ok rows => (sr.1, .ok (rows.take n))
      else (sr.1, .ok (s.take n))

/-- `rows[all_ci]` (numpy fancy indexing; out of range is an `IndexError`). -/
def pick {α : Type} (rows : List α) (idx : List Nat) : Except Err (List α) :=
  mapE (fun i => match rows[i]? with | some a => .ok a | none => .error .indexError) idx

/-- `Cube4DPolytope.get_half_of_hypercube(projection, N)`. -/
def halfOfHypercube (ext : Ext Γ Pt W O) (P : Poly Γ Pt) (N : Option Nat) (proj : Bool) :
    Poly Γ Pt × Except Err (List Pt) :=
  if P.kind ≠ .cube4D then (P, .error .attributeError) else
  let p1 := getNodes P none true
  match p1.2 with
  | .error e => (p1.1, .error e)
  | .ok projected =>
    let uniq := projected.filter ext.upper
    -- `which_row_is_k(projected_points, upp)[0]`, then `all_ci.sort()`
    let allCi := sortBy id (uniq.map (fun u => projected.findIdx (fun q => q == u)))
    let avail := allCi.length
    let n := N.getD avail
    if n > avail then (p1.1, .error .valueError)
    else
      let p2 := getNodes p1.1 none proj
      match p2.2 with
      | .error e => (p2.1, .error e)
      | .ok rows =>
        match pick rows allCi with
        | .error e => (p2.1, .error e)
        | .ok sel => (p2.1, .ok (sel.take n))

/-! ### voronoi.py -/

inductive VorKind | rot3 | half4 | mikro
  deriving DecidableEq, Repr

/-- The state of the Voronoi object of a grid that the getters read: `my_array`, the helper points of the object
itself (`add`, filtered in place by the half object) and of its `full_voronoi` (`addFull`). -/
structure Vor (Pt : Type) where
  kind : VorKind
  dim : Nat
  grid : List Pt
  add : List Pt
  addFull : List Pt
  nPoints : Nat

/-- `RotobjVoronoi.__init__`: `np.random.seed(1)` and the dense helper points.  (`SphericalVoronoi(my_array)` is a pure
function of `my_array`; it is inside the getter parameters.)  Returns the generator state and `additional_points`. -/
def rotobjInit (ext : Ext Γ Pt W O) (rng : Rng R W) (_r : R) (dim : Nat) (grid : List Pt) : R × List Pt :=
  let r1 := rng.seed 1
  if dim = 3 then
    let d := rng.draw r1 (3000 * 3)
    (d.1, ext.dense3 d.2 grid)
  else
    let d := rng.draw r1 (5000 * 3)
    (d.1, ext.dense4 d.2)

/-- The tail of `gen_grid`: which Voronoi object is attached to the array. -/
def attachVoronoi (ext : Ext Γ Pt W O) (rng : Rng R W) (r : R) (dim N : Nat) (grid : List Pt) : R × Vor Pt :=
  if dim = 3 ∧ N ≥ 4 then
    let a := rotobjInit ext rng r 3 grid
    (a.1, { kind := .rot3, dim := 3, grid := grid, add := a.2, addFull := [], nPoints := 0 })
  else if dim = 4 ∧ N ≥ 4 then
    -- `HalfRotobjVoronoi.__init__`: `self.full_voronoi = RotobjVoronoi(…)` first, then `super().__init__`
    let f := rotobjInit ext rng r 4 grid
    let a := rotobjInit ext rng f.1 4 grid
    (a.1, { kind := .half4, dim := 4, grid := grid, add := a.2, addFull := f.2, nPoints := 0 })
  else
    -- `MikroVoronoi(dimensions, N_points=self.get_N())`; `get_N` = `len(get_grid_as_array())`, upper rows only in 4-D
    let n := if dim = 4 then (grid.filter ext.upper).length else grid.length
    (r, { kind := .mikro, dim := dim, grid := grid, add := [], addFull := [], nPoints := n })

/-! ### rotobj.py -/

/-- A live `SphereGridNDim` object. -/
structure Grid (Γ Pt : Type) where
  alg : Alg
  N : Nat
  dim : Nat
  grid : List Pt
  poly : Option (Poly Γ Pt)
  vor : Vor Pt

/-- `while len(count(polytope)) < N: polytope.divide_edges()` with explicit fuel. -/
def growUntil (ext : Ext Γ Pt W O) (rng : Rng R W)
    (count : Poly Γ Pt → Poly Γ Pt × Except Err (List Pt)) (N : Nat) :
    Nat → R → Poly Γ Pt → R × Poly Γ Pt × Except Err Unit
  | 0, r, P => (r, P, .error .loop)
  | fuel + 1, r, P =>
    let c := count P
    match c.2 with
    | .error e => (r, c.1, .error e)
    | .ok rows =>
      if rows.length < N then
        let d := divideEdges ext rng r c.1
        growUntil ext rng count N fuel d.1 d.2
      else (r, c.1, .ok ())

/-- `for i in range(k): self.polytope.divide_edges()`. -/
def divideTimes (ext : Ext Γ Pt W O) (rng : Rng R W) : Nat → R → Poly Γ Pt → R × Poly Γ Pt
  | 0, r, P => (r, P)
  | k + 1, r, P => let d := divideEdges ext rng r P; divideTimes ext rng k d.1 d.2

/-- `SphereGrid4Dim._gen_grid`: `zeros((2N,4))[:N] = half; [N+i] = -half[i]` (a length mismatch is numpy's `ValueError`). -/
def doubleCover (ext : Ext Γ Pt W O) (N : Nat) (half : List Pt) : Except Err (List Pt) :=
  if half.length = N then .ok (half ++ half.map ext.neg) else .error .valueError

def fulldivAllowed : List Nat := [8, 40, 272, 2080]

def dimOf : Alg → Nat
  | .ico | .cube3D | .randomS | .zero3D => 3
  | _ => 4

/-- The result of the algorithm-specific part of the factory: `(rng, self.N, polytope, grid array)`. -/
def genGrid (ext : Ext Γ Pt W O) (rng : Rng R W) (r : R) (alg : Alg) (N : Nat) :
    R × Except Err (Nat × Option (Poly Γ Pt) × List Pt) :=
  match alg with
  | .randomS =>
    let r1 := rng.seed 0
    let d := rng.draw r1 (N * 3)
    (d.1, .ok (N, none, ext.sphere d.2 N))
  | .randomQ =>
    let r1 := rng.seed 0
    let d := rng.draw r1 (N * 3)
    let half := (ext.quat d.2 N).map (fun q => if ext.upper q then q else ext.neg q)
    match doubleCover ext N half with
    | .ok g => (d.1, .ok (N, none, g))
    | .error e => (d.1, .error e)
  | .zero3D => (r, .ok (1, none, [ext.zero3]))
  | .zero4D =>
    match doubleCover ext 1 [ext.zero4] with
    | .ok g => (r, .ok (1, none, g))
    | .error e => (r, .error e)
  | .ico | .cube3D =>
    let p0 := newPoly ext rng r (if alg = .ico then .ico else .cube3D)
    let gr := growUntil ext rng (fun P => getNodes P none false) N (N + 1) p0.1 p0.2
    match gr.2.2 with
    | .error e => (gr.1, .error e)
    | .ok _ =>
      let res := getNodes gr.2.1 (some N) true
      match res.2 with
      | .error e => (gr.1, .error e)
      | .ok rows => (gr.1, .ok (N, some res.1, rows))
  | .cube4D =>
    let p0 := newPoly ext rng r .cube4D
    let gr := growUntil ext rng (fun P => halfOfHypercube ext P none false) N (N + 1) p0.1 p0.2
    match gr.2.2 with
    | .error e => (gr.1, .error e)
    | .ok _ =>
      let res := halfOfHypercube ext gr.2.1 (some N) true
      match res.2 with
      | .error e => (gr.1, .error e)
      | .ok rows =>
        match doubleCover ext N rows with
        | .ok g => (gr.1, .ok (N, some res.1, g))
        | .error e => (gr.1, .error e)
  | .fulldiv =>
    if N ∈ fulldivAllowed then
      let p0 := newPoly ext rng r .cube4D
      let dv := divideTimes ext rng (fulldivAllowed.idxOf N) p0.1 p0.2
      let res := halfOfHypercube ext dv.2 none true
      match res.2 with
      | .error e => (dv.1, .error e)
      | .ok rows =>
        match doubleCover ext N rows with
        | .ok g => (dv.1, .ok (N, some res.1, g))
        | .error e => (dv.1, .error e)
    else (r, .error .valueError)

/-- `SphereGrid3DFactory.create` / `SphereGrid4DFactory.create` (= constructor + `gen_grid`). -/
def createGrid (ext : Ext Γ Pt W O) (rng : Rng R W) (r : R) (alg : Alg) (N : Nat) :
    R × Except Err (Grid Γ Pt) :=
  let g := genGrid ext rng r alg N
  match g.2 with
  | .error e => (g.1, .error e)
  | .ok (n, poly, grid) =>
    let v := attachVoronoi ext rng g.1 (dimOf alg) n grid
    (v.1, .ok { alg := alg, N := n, dim := dimOf alg, grid := grid, poly := poly, vor := v.2 })

/-- The getters of a grid object that the property observes. -/
inductive Getter
  | array          -- `get_grid_as_array(only_upper=False)`
  | upper          -- `get_grid_as_array(only_upper=True)`
  | volumes        -- `get_voronoi_volumes()`
  | volumesApprox  -- `get_voronoi_volumes(approx=True)`
  | hulls          -- `get_convex_hulls()` (goes through `_additional_points_per_cell`)
  | adjacency | borders | distances
  deriving DecidableEq, Repr

/-- One getter call: new object state and the returned value. -/
def callGetter (ext : Ext Γ Pt W O) (G : Grid Γ Pt) (g : Getter) : Grid Γ Pt × Except Err O :=
  let v := G.vor
  match g with
  | .array => (G, .ok (ext.arr G.grid))
  | .upper => (G, .ok (ext.arr (G.grid.filter ext.upper)))
  | .volumes =>
    match v.kind with
    | .rot3 => (G, .ok (ext.areas v.grid))
    | .half4 => (G, .ok (ext.hullVol true v.grid v.addFull))
    | .mikro => (G, .ok (ext.mikroVol v.dim v.nPoints))
  | .volumesApprox =>
    match v.kind with
    | .rot3 => (G, .ok (ext.hullVol false v.grid v.add))
    | .half4 => (G, .ok (ext.hullVol true v.grid v.addFull))
    | .mikro => (G, .ok (ext.mikroVol v.dim v.nPoints))
  | .hulls =>
    match v.kind with
    | .rot3 => (G, .ok (ext.hulls false v.grid v.add))
    | .half4 =>
      -- `self.additional_points = np.array([ap for ap in self.additional_points if q_in_upper_sphere(ap)])`
      let add' := v.add.filter ext.upper
      ({ G with vor := { v with add := add' } }, .ok (ext.hulls true v.grid add'))
    | .mikro => (G, .error .attributeError)
  | .adjacency | .borders | .distances =>
    let sel : Sel := match g with | .adjacency => .adjacency | .borders => .borders | _ => .distances
    match v.kind with
    | .rot3 => (G, .ok (ext.nn sel false v.grid))
    | .half4 => (G, .ok (ext.nn sel true v.grid))
    | .mikro => (G, .ok (ext.mikroNN v.nPoints))

/-! ### histories -/

/-- One step of a history.  Objects are referred to by their creation number (position in `polys` / `grids`). -/
inductive Op
  | reseed (s : Nat)                                  -- `np.random.seed(s)`
  | draw (k : Nat)                                    -- `np.random.random(k)`
  | newPoly (k : PolyKind)
  | divide (h : Nat)
  | nodes (h : Nat) (N : Option Nat) (proj : Bool)
  | half (h : Nat) (N : Option Nat) (proj : Bool)
  | grid (a : Alg) (N : Nat)
  | get (h : Nat) (g : Getter)
  | regen (h : Nat)                                   -- `grid.gen_grid()` again: keeps the array, rebuilds the Voronoi object
  deriving DecidableEq, Repr

/-- What the caller sees. -/
inductive Res (Pt O : Type)
  | unit
  | handle (h : Nat)
  | pts (l : List Pt)
  | out (o : O)
  | err (e : Err)
  deriving DecidableEq, Repr

structure State (Γ Pt R : Type) where
  rng : R
  polys : List (Poly Γ Pt)
  grids : List (Grid Γ Pt)

def step (ext : Ext Γ Pt W O) (rng : Rng R W) (s : State Γ Pt R) : Op → State Γ Pt R × Res Pt O
  | .reseed k => ({ s with rng := rng.seed k }, .unit)
  | .draw k => ({ s with rng := (rng.draw s.rng k).1 }, .unit)
  | .newPoly k =>
    let p := newPoly ext rng s.rng k
    ({ s with rng := p.1, polys := s.polys ++ [p.2] }, .handle s.polys.length)
  | .divide h =>
    match s.polys[h]? with
    | none => (s, .err .noObject)
    | some P =>
      let d := divideEdges ext rng s.rng P
      ({ s with rng := d.1, polys := s.polys.set h d.2 }, .unit)
  | .nodes h N proj =>
    match s.polys[h]? with
    | none => (s, .err .noObject)
    | some P =>
      let r := getNodes P N proj
      ({ s with polys := s.polys.set h r.1 }, match r.2 with | .ok l => .pts l | .error e => .err e)
  | .half h N proj =>
    match s.polys[h]? with
    | none => (s, .err .noObject)
    | some P =>
      let r := halfOfHypercube ext P N proj
      ({ s with polys := s.polys.set h r.1 }, match r.2 with | .ok l => .pts l | .error e => .err e)
  | .grid a N =>
    let c := createGrid ext rng s.rng a N
    match c.2 with
    | .error e => ({ s with rng := c.1 }, .err e)
    | .ok G => ({ s with rng := c.1, grids := s.grids ++ [G] }, .handle s.grids.length)
  | .get h g =>
    match s.grids[h]? with
    | none => (s, .err .noObject)
    | some G =>
      let r := callGetter ext G g
      ({ s with grids := s.grids.set h r.1 }, match r.2 with | .ok o => .out o | .error e => .err e)
  | .regen h =>
    -- `gen_grid` on an object whose `self.grid` is set: no generation, but `self.spherical_voronoi` is constructed anew
    -- (in whatever state the generator is) and the array is returned
    match s.grids[h]? with
    | none => (s, .err .noObject)
    | some G =>
      let v := attachVoronoi ext rng s.rng G.dim G.N G.grid
      ({ s with rng := v.1, grids := s.grids.set h { G with vor := v.2 } }, .out (ext.arr G.grid))

/-- Run a history from generator state `r₀` with no live objects; the state after it and every output. -/
def run (ext : Ext Γ Pt W O) (rng : Rng R W) (r₀ : R) (ops : List Op) : State Γ Pt R × List (Res Pt O) :=
  ops.foldl (fun (acc : State Γ Pt R × List (Res Pt O)) op =>
      let st := step ext rng acc.1 op; (st.1, acc.2 ++ [st.2])) ({ rng := r₀, polys := [], grids := [] }, [])

end Molgri.History
