/-
Exact node lists of the icosahedron polytope for C07 (import-free apart from the C07 model, executable).

`IcosahedronPolytope` (polytopes.py:723-756): 12 vertices `(±1, ±φ, 0)` and cyclic shifts, scaled by `side_len/2`,
20 triangular faces given by vertex indices; `divide_edges` puts a node at the midpoint of every edge of the
triangulation, so after `L` divisions the nodes are the barycentric lattice points `(i·a + j·b + k·c)/2^L`,
`i + j + k = 2^L`, of every face `(a, b, c)`.  Coordinates are kept in `ℤ[φ]` (`x = a + b·φ`, `φ² = φ + 1`) in
units of `side_len/2 / 2^L`, so equality, order and the separation bound are decided exactly.

This is the list the correspondence check matches the implementation's float nodes against (each float node within
1e-12 of exactly one exact node); it is *not* a model of the graph algorithm that produces them (that is C18).
-/
import Molgri.Model.Hemisphere

namespace Molgri.IcoExact
open Molgri.Hemi

/-- `a + b·φ`, `φ = (1+√5)/2`. -/
structure Zphi where
  a : Int
  b : Int
deriving DecidableEq, Repr, BEq

namespace Zphi

instance : Zero Zphi := ⟨⟨0, 0⟩⟩
instance : One Zphi := ⟨⟨1, 0⟩⟩
instance : NatCast Zphi := ⟨fun n => ⟨n, 0⟩⟩
instance (n : Nat) : OfNat Zphi n := ⟨⟨n, 0⟩⟩
instance : Add Zphi := ⟨fun x y => ⟨x.a + y.a, x.b + y.b⟩⟩
instance : Sub Zphi := ⟨fun x y => ⟨x.a - y.a, x.b - y.b⟩⟩
instance : Neg Zphi := ⟨fun x => ⟨-x.a, -x.b⟩⟩
/-- `(a + bφ)(c + dφ) = ac + bd + (ad + bc + bd)φ`. -/
instance : Mul Zphi := ⟨fun x y => ⟨x.a * y.a + x.b * y.b, x.a * y.b + x.b * y.a + x.b * y.b⟩⟩

/-- Sign of `a + bφ = (u + v√5)/2` with `u = 2a + b`, `v = b`. -/
def sign (x : Zphi) : Int :=
  let u := 2 * x.a + x.b
  let v := x.b
  if u = 0 ∧ v = 0 then 0
  else if 0 ≤ u ∧ 0 ≤ v then 1
  else if u ≤ 0 ∧ v ≤ 0 then -1
  else if 0 < u then (if 5 * v * v < u * u then 1 else -1)      -- u > 0 > v
  else (if u * u < 5 * v * v then 1 else -1)                     -- v > 0 > u

instance : LT Zphi := ⟨fun x y => sign (y - x) = 1⟩
instance : LE Zphi := ⟨fun x y => sign (y - x) ≠ -1⟩
instance : DecidableLT Zphi := fun x y => inferInstanceAs (Decidable (sign (y - x) = 1))
instance : DecidableLE Zphi := fun x y => inferInstanceAs (Decidable (sign (y - x) ≠ -1))

def phi : Zphi := ⟨0, 1⟩
def ofInt (n : Int) : Zphi := ⟨n, 0⟩

end Zphi

open Zphi

/-- The 12 vertices in the order of the code (`polytopes.py:731-733`), in units of `side_len/2`. -/
def vertices : List (List Zphi) :=
  [[-1, phi, 0], [1, phi, 0], [-1, -phi, 0], [1, -phi, 0],
   [0, -1, phi], [0, 1, phi], [0, -1, -phi], [0, 1, -phi],
   [phi, 0, -1], [phi, 0, 1], [-phi, 0, -1], [-phi, 0, 1]]

/-- The 20 faces (`polytopes.py:726-728`). -/
def faces : List (Nat × Nat × Nat) :=
  [(0, 11, 5), (0, 5, 1), (0, 1, 7), (0, 7, 10), (0, 10, 11), (1, 5, 9), (5, 11, 4), (11, 10, 2),
   (10, 7, 6), (7, 1, 8), (3, 9, 4), (3, 4, 2), (3, 2, 6), (3, 6, 8), (3, 8, 9), (4, 9, 5), (2, 4, 11),
   (6, 2, 10), (8, 6, 7), (9, 8, 1)]

def vtx (i : Nat) : List Zphi := vertices.getD i []

def addV (p q : List Zphi) : List Zphi := List.zipWith (· + ·) p q
def smul (n : Nat) (p : List Zphi) : List Zphi := p.map (fun x => (n : Zphi) * x)

/-- Outward face functionals `n_f = a + b + c` (the face lies in the plane `n_f · x = const`). -/
def normals : List (List Zphi) := faces.map fun (a, b, c) => addV (addV (vtx a) (vtx b)) (vtx c)

/-- Barycentric lattice points of one face at level `L` (`m = 2^L`), in units of `side_len/2 / m`. -/
def faceNodes (m : Nat) (f : Nat × Nat × Nat) : List (List Zphi) :=
  (List.range (m + 1)).flatMap fun i =>
    (List.range (m + 1 - i)).map fun j =>
      addV (addV (smul i (vtx f.1)) (smul j (vtx f.2.1))) (smul (m - i - j) (vtx f.2.2))

/-- All nodes after `L` divisions, each geometric point once. -/
def nodes (L : Nat) : List (List Zphi) := (faces.flatMap (faceNodes (2 ^ L))).eraseDups

/-- `10·4^L + 2`. -/
def nodeCount (L : Nat) : Nat := 10 * 4 ^ L + 2

/-- The gauge of the icosahedron (max of the face functionals). -/
def gauge (p : List Zphi) : Zphi := gaugeOf normals p

/-- All nodes of level `L` lie on one level set of the gauge: `gauge p = 2^L · gauge v₀`. -/
def onSurface (L : Nat) (ns : List (List Zphi)) : Bool :=
  let g0 := ((2 ^ L : Nat) : Zphi) * gauge (vtx 0)
  decide (0 < g0) && ns.all fun p => gauge p == g0

end Molgri.IcoExact
