/-
Model of `molgri.molecules.rate_merger` (`merge_sublists`, `merge_matrix_cells`, `delete_rate_cells`,
`sqra_normalize`) and of `SQRA.cut_and_merge` (C13).  Import-free, executable.

Matrices are dense row-major lists of rows over an arbitrary scalar type `α` (the sparse and the dense code path
have one semantics; the correspondence check compares both).  The matrix part of the code only adds, subtracts and
uses `0`, so the model asks for the core classes `Add`, `Sub`, `Zero` only: the driver and the `decide` examples
instantiate `α := Int`, the theorems hold for every additive commutative group (`Molgri/Props/C13.lean`), in
particular for the field `K` in which C01 / the pipeline produce a rate matrix (`Molgri/Bridge/MergeRate.lean`).
An index list is a list of groups of original cells.
The model follows the repaired code (fix commits F3, F6, F8, F12 in /repo).
-/
namespace Molgri.Merge

abbrev Mat (α : Type) := List (List α)
abbrev Groups := List (List Nat)

/-! ### small list utilities -/

/-- insertion into an ascending list, keeping duplicates (Python's `list.sort`) -/
def insertAsc (x : Nat) : List Nat → List Nat
  | [] => [x]
  | y :: ys => if x ≤ y then x :: y :: ys else y :: insertAsc x ys

def sortAsc (l : List Nat) : List Nat := l.foldr insertAsc []

/-- remove duplicates from an ascending list -/
def dedupAsc : List Nat → List Nat
  | [] => []
  | [x] => [x]
  | x :: y :: ys => if x = y then dedupAsc (y :: ys) else x :: dedupAsc (y :: ys)

/-- `np.unique` / `sorted(set(..))` -/
def uniqueAsc (l : List Nat) : List Nat := dedupAsc (sortAsc l)

def entry {α : Type} [Zero α] (A : Mat α) (r s : Nat) : α := (A.getD r []).getD s 0

/-- sum in storage order, starting from `0` (the name is historical: the scalars were integers first) -/
def intSum {α : Type} [Add α] [Zero α] (l : List α) : α := l.foldl (· + ·) 0

/-! ### `merge_sublists`: connected components of the join lists -/

def intersects (a b : List Nat) : Bool := a.any (fun x => b.contains x)

/-- add one join list to a family of pairwise disjoint components -/
def addList (comps : Groups) (L : List Nat) : Groups :=
  let hit := comps.filter (intersects L)
  let miss := comps.filter (fun c => !intersects L c)
  uniqueAsc (L ++ hit.flatten) :: miss

/-- the components (each ascending, duplicate-free); their order is irrelevant downstream -/
def closure (J : Groups) : Groups := J.foldl addList []

/-! ### re-indexing through the index list -/

/-- `find_el_within_nested_list`: positions of all groups that contain `c` -/
def findIdx (il : Groups) (c : Nat) : List Nat :=
  (List.range il.length).filter (fun k => (il.getD k []).contains c)

/-- rows addressed by one list of original cells; cells no longer present contribute nothing -/
def rowsOf (il : Groups) (L : List Nat) : List Nat := uniqueAsc (L.flatMap (findIdx il))

def singletons (n : Nat) : Groups := (List.range n).map (fun i => [i])

/-! ### the merge itself -/

/-- rows merged into row `a` (including `a`): the column of the merge matrix `P` that survives as `a` -/
def grpOf (G : Groups) (a : Nat) : List Nat :=
  a :: (G.filter (fun g => g.head? = some a)).flatMap List.tail

/-- rows that disappear: all members of a row group except its first -/
def flatMerged (G : Groups) : List Nat := G.flatMap List.tail

def toKeep (n : Nat) (gone : List Nat) : List Nat := (List.range n).filter (fun r => !gone.contains r)

/-- `Pᵀ (A P)` for the 0/1 merge matrix `P` of the row groups `G` -/
def mergeMat {α : Type} [Add α] [Zero α] (A : Mat α) (G : Groups) : Mat α :=
  let keep := toKeep A.length (flatMerged G)
  keep.map fun a => keep.map fun b =>
    intSum ((grpOf G a).map fun r => intSum ((grpOf G b).map fun s => entry A r s))

/-- fold the index list: the collective row receives the cells of the merged rows (sorted), merged rows are popped -/
def mergeIdx (il : Groups) (G : Groups) : Groups :=
  let keep := toKeep il.length (flatMerged G)
  keep.map fun a => sortAsc ((grpOf G a).flatMap fun r => il.getD r [])

inductive Err | valueError | assertionError | runtimeError | indexError
  deriving DecidableEq, Repr

def Err.name : Err → String
  | .valueError => "ValueError" | .assertionError => "AssertionError"
  | .runtimeError => "other:RuntimeError" | .indexError => "IndexError"

/-- `merge_matrix_cells(my_matrix, all_to_join, index_list)` -/
def mergeCells {α : Type} [Add α] [Zero α] (A : Mat α) (J : Groups) (idx : Option Groups) :
    Except Err (Mat α × Groups) :=
  match idx with
  | none =>
    -- merge_sublists on the raw lists: an empty sub-list makes `to_edges` fail (StopIteration inside a generator)
    if J.any (·.isEmpty) then .error .runtimeError
    -- a cell that is not a row of the matrix does not fit the merge matrix
    else if J.any (fun L => L.any (fun c => decide (A.length ≤ c))) then .error .valueError
    else
      let G := closure J
      .ok (mergeMat A G, mergeIdx (singletons A.length) G)
  | some il =>
    if il.length ≠ A.length then .error .assertionError
    else
      let G := closure ((J.map (rowsOf il)).filter (fun r => !r.isEmpty))
      .ok (mergeMat A G, mergeIdx il G)

/-! ### deletion -/

/-- `sqra_normalize`: add minus the row sum to the diagonal -/
def normalize {α : Type} [Add α] [Sub α] [Zero α] (A : Mat α) : Mat α :=
  (List.range A.length).map fun i =>
    let row := A.getD i []
    (List.range row.length).map fun j => if i = j then row.getD j 0 - intSum row else row.getD j 0

def subMat {α : Type} [Zero α] (A : Mat α) (keep : List Nat) : Mat α :=
  keep.map fun a => keep.map fun b => entry A a b

/-- `delete_rate_cells(my_matrix, to_remove, index_list)` -/
def deleteCells {α : Type} [Add α] [Sub α] [Zero α] (A : Mat α) (R : List Nat) (idx : Option Groups) :
    Mat α × Groups :=
  let il := idx.getD (singletons A.length)
  let rows := match idx with
    | none => R
    | some il => rowsOf il R
  let keep := toKeep A.length rows
  (normalize (subMat A keep), keep.map fun a => il.getD a [])

/-! ### histories -/

inductive Op
  | merge (J : Groups)
  | delete (R : List Nat)
  deriving Repr

structure State (α : Type) where
  A : Mat α
  idx : Option Groups
  deriving Repr

section ops
variable {α : Type} [Add α] [Sub α] [Zero α]

def step (s : State α) : Op → Except Err (State α)
  | .merge J => do
    let (A', il') ← mergeCells s.A J s.idx
    pure ⟨A', some il'⟩
  | .delete R =>
    let (A', il') := deleteCells s.A R s.idx
    pure ⟨A', some il'⟩

def run (s : State α) : List Op → Except Err (State α)
  | [] => pure s
  | op :: ops => do
    let s' ← step s op
    run s' ops

/-! ### `SQRA.cut_and_merge`; the two selector functions are parameters (their results are inputs) -/

def cutAndMerge (Q : Mat α) (toJoin : Option Groups) (tooHigh : Option (List Nat)) :
    Except Err (Mat α × Option Groups) := do
  let (Q1, il1) ← match toJoin with
    | some J => do
      let (A, il) ← mergeCells Q J none
      pure (A, some il)
    | none => pure (Q, none)
  match tooHigh with
  | some R =>
    let (A, il) := deleteCells Q1 R il1
    pure (A, some il)
  | none => pure (Q1, il1)

end ops

end Molgri.Merge
