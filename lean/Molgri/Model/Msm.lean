/-
Model of `molgri.molecules.transitions.window / noncorr_window / MSM.get_one_tau_transition_matrix`
(C12).  Import-free, executable.

A trajectory is a list of `Option Nat` (`none` = NaN = unassigned frame).
-/
namespace Molgri.Msm

/-- Python's `range(0, n, step)` for `step ≥ 1`: 0, step, 2·step, … below `n`. -/
def pyRange (n step : Nat) : List Nat :=
  (List.range ((n + step - 1) / step)).map (· * step)

/-- One window: `seq[k : k+τ+1 : τ]`, dropped when it contains NaN (or is shorter than 2). -/
def windowAt (xs : List (Option Nat)) (τ k : Nat) : Option (Nat × Nat) :=
  match xs[k]?, xs[k + τ]? with
  | some (some a), some (some b) => some (a, b)
  | _, _ => none

/-- `window(seq, τ, step)`: `for k in range(0, len(seq) - τ, step)`. -/
def windows (xs : List (Option Nat)) (τ step : Nat) : List (Nat × Nat) :=
  (pyRange (xs.length - τ) step).filterMap (windowAt xs τ)

/-- step of the two modes: sliding = 1, non-overlapping (`noncorr_window`) = τ. -/
def stepOf (τ : Nat) (noncorr : Bool) : Nat := if noncorr then τ else 1

/-- A count matrix as a function; `bump` is `M[a, b] += 1`. -/
def bump (M : Nat → Nat → Nat) (a b : Nat) : Nat → Nat → Nat :=
  fun i j => if i = a ∧ j = b then M i j + 1 else M i j

/-- The loop body: `M[el1, el2] += 1; M[el2, el1] += 1`. -/
def addWindow (M : Nat → Nat → Nat) (w : Nat × Nat) : Nat → Nat → Nat :=
  bump (bump M w.1 w.2) w.2 w.1

/-- The symmetrised count matrix after the loop. -/
def countMat (ws : List (Nat × Nat)) : Nat → Nat → Nat :=
  ws.foldl addWindow (fun _ _ => 0)

/-- `sparse_count_matrix.sum(axis=1)` for an `n × n` matrix. -/
def rowSum (M : Nat → Nat → Nat) (n i : Nat) : Nat :=
  ((List.range n).map (M i)).sum

/-- `sums[sums == 0] = 1`. -/
def guardSum (s : Nat) : Nat := if s = 0 then 1 else s

/-- Entry of `diags(1/sums) · C`. -/
def tEntry (M : Nat → Nat → Nat) (n i j : Nat) : Rat :=
  (M i j : Rat) / (guardSum (rowSum M n i) : Rat)

/-- The whole transition matrix of `MSM.get_one_tau_transition_matrix(τ, noncorr)`. -/
def transition (xs : List (Option Nat)) (n τ : Nat) (noncorr : Bool) (i j : Nat) : Rat :=
  tEntry (countMat (windows xs τ (stepOf τ noncorr))) n i j

/-- Plain (unsymmetrised) window count `c_ij`. -/
def cnt (ws : List (Nat × Nat)) (i j : Nat) : Nat := ws.count (i, j)

/-- Dense output for the driver. -/
def transitionDense (xs : List (Option Nat)) (n τ : Nat) (noncorr : Bool) : List (List Rat) :=
  let M := countMat (windows xs τ (stepOf τ noncorr))
  (List.range n).map fun i => (List.range n).map fun j => tEntry M n i j

/-- Positions at which the symmetrised count matrix can be non-zero: both orientations of every counted window
(with repetitions; the harness sorts and de-duplicates). -/
def support (ws : List (Nat × Nat)) : List (Nat × Nat) :=
  ws.flatMap fun w => [(w.1, w.2), (w.2, w.1)]

/-- Sparse output for the driver (large cell counts): the entries at the support positions inside the `n × n`
matrix, as `(i, j, T_ij)`; every other entry of the matrix is zero (`Molgri.C12.sparse_complete`). -/
def transitionSparse (xs : List (Option Nat)) (n τ : Nat) (noncorr : Bool) : List (Nat × Nat × Rat) :=
  let ws := windows xs τ (stepOf τ noncorr)
  let M := countMat ws
  ((support ws).filter fun p => decide (p.1 < n) && decide (p.2 < n)).map fun p => (p.1, p.2, tEntry M n p.1 p.2)

end Molgri.Msm
