/-
Model of `molgri.naming.NameParser` / `GridNameParser` (molgri/naming.py:9-72, 107-173), of the algorithm
tables of `molgri/constants.py:37-46` and of the dispatch of `SphereGrid3DFactory` / `SphereGrid4DFactory`
(molgri/space/rotobj.py:338-392) (C17).  Import-free, executable.

A name is a `List Char` (the code points of the Python `str`; the driver converts with `String.toList`).

MODELLED, not verified (DESIGN §4.4): `str.isnumeric()` is read as "non-empty and only ASCII digits '0'..'9'",
and `int(fragment)` of such a fragment as its decimal value.  Names that contain a non-ASCII numeric code
point (e.g. '²', '٣', '½') are outside the model; the harness keeps them out of the correspondence and runs
only the implementation-side oracle on them.
-/
namespace Molgri.Naming

/-- a token / algorithm name -/
abbrev Tok := List Char

/-- The Python exceptions that the modelled code can raise.  `typeError` is what `None > 1` raised before the
repair `ddba0bd` (finding F7); the repaired code cannot raise it (theorem `parse_total`). -/
inductive Err where
  | valueError
  | typeError
  deriving DecidableEq, Repr

/-- `o_or_b`: `"o"` = direction grid (origin rotations, 3D); anything else = rotation grid (body rotations, 4D). -/
inductive Role where
  | o
  | b
  deriving DecidableEq, Repr

/-- The constants of `molgri/constants.py:37-46` that the parser reads. -/
structure Tables where
  /-- `GRID_ALGORITHMS_3D` -/
  set3 : List Tok
  /-- `GRID_ALGORITHMS_4D` -/
  set4 : List Tok
  /-- `ZERO_ALGORITHM_3D` -/
  zero3 : Tok
  /-- `ZERO_ALGORITHM_4D` -/
  zero4 : Tok
  /-- `DEFAULT_ALGORITHM_O` -/
  defO : Tok
  /-- `DEFAULT_ALGORITHM_B` -/
  defB : Tok

/-- `ALL_GRID_ALGORITHMS = GRID_ALGORITHMS_3D + GRID_ALGORITHMS_4D + (ZERO_ALGORITHM_3D, ZERO_ALGORITHM_4D)` -/
def Tables.all (tb : Tables) : List Tok := tb.set3 ++ tb.set4 ++ [tb.zero3, tb.zero4]

def Tables.roleSet (tb : Tables) : Role → List Tok
  | .o => tb.set3
  | .b => tb.set4

def Tables.zero (tb : Tables) : Role → Tok
  | .o => tb.zero3
  | .b => tb.zero4

def Tables.dflt (tb : Tables) : Role → Tok
  | .o => tb.defO
  | .b => tb.defB

/-- The algorithms a parsed name of role `r` may carry: the role's set and the role's zero algorithm. -/
def Tables.valid (tb : Tables) (r : Role) : List Tok := tb.roleSet r ++ [tb.zero r]

/-- The tables as shipped (constants.py:37-46), hard-wired; re-validated against the running code on every run. -/
def shipped : Tables where
  set3 := [['r','a','n','d','o','m','S'], ['c','u','b','e','3','D'], ['i','c','o']]
  set4 := [['r','a','n','d','o','m','Q'], ['c','u','b','e','4','D'], ['f','u','l','l','d','i','v']]
  zero3 := ['z','e','r','o','3','D']
  zero4 := ['z','e','r','o','4','D']
  defO := ['i','c','o']
  defB := ['c','u','b','e','4','D']

/-! ### string primitives -/

/-- `s.split("_")` (Python): never empty, `"".split("_") = [""]`, `"a__b" ↦ ["a","","b"]`. -/
def splitU : List Char → List Tok
  | [] => [[]]
  | c :: cs =>
    if c = '_' then [] :: splitU cs
    else match splitU cs with
      | [] => [[c]]
      | t :: ts => (c :: t) :: ts

/-- the literal `"zero"` of `"zero" in name_string` -/
def zeroKw : List Char := ['z','e','r','o']

/-- `pat in s` for Python strings: `pat` occurs as a contiguous substring. -/
def hasSub (pat : List Char) : List Char → Bool
  | [] => pat.isPrefixOf []
  | c :: cs => pat.isPrefixOf (c :: cs) || hasSub pat cs

/-- `fragment.isnumeric()` — MODELLED as: non-empty, ASCII digits only. -/
def isNumeric (t : Tok) : Bool := !t.isEmpty && t.all Char.isDigit

/-- `int(fragment)` of a numeric fragment (decimal value; leading zeros allowed, as in Python). -/
def pyInt (t : Tok) : Nat := Nat.ofDigitChars 10 t 0

/-- `str(N)` of a non-negative `int`. -/
def natStr (n : Nat) : Tok := Nat.toDigits 10 n

/-- `len(fragment) == 2 and fragment[-1] == "d" and fragment[0].isnumeric()` -/
def isDimTag (t : Tok) : Bool :=
  match t with
  | [a, b] => b == 'd' && a.isDigit
  | _ => false

/-- `int(fragment)` as a partial function: Python raises `ValueError` for a string that is not a number.  Only used
on dimension-tag candidates (two characters, the last one `d`), for which `int` always raises. -/
def pyIntExc (t : Tok) : Except Err Nat :=
  if isNumeric t then .ok (pyInt t) else .error .valueError

/-- The common tail of the three scans: `>1` candidates → `ValueError`, one → it, none → `None`. -/
def pick {α : Type} : List α → Except Err (Option α)
  | [] => .ok none
  | [a] => .ok (some a)
  | _ :: _ :: _ => .error .valueError

/-! ### `NameParser` (naming.py:9-72) -/

/-- `_find_a_number` -/
def findNumber (name : List Char) : Except Err (Option Nat) :=
  pick (((splitU name).filter isNumeric).map pyInt)

/-- `_find_algorithm` -/
def findAlgorithm (tb : Tables) (name : List Char) : Except Err (Option Tok) :=
  pick ((splitU name).filter (fun t => tb.all.contains t))

/-- `_find_dimensions`: `candidates.append(int(fragment))` raises for every dimension tag. -/
def findDim (name : List Char) : Except Err (Option Nat) := do
  let cands ← ((splitU name).filter isDimTag).mapM pyIntExc
  pick cands

structure Scan where
  N : Option Nat
  algo : Option Tok
  dim : Option Nat
  deriving DecidableEq, Repr

/-- `NameParser.__init__`: the three scans in the order written. -/
def nameParser (tb : Tables) (name : List Char) : Except Err Scan := do
  let n ← findNumber name
  let a ← findAlgorithm tb name
  let d ← findDim name
  pure ⟨n, a, d⟩

/-! ### `GridNameParser.__init__` (naming.py:113-160) -/

/-- One of the two textually parallel role branches, with the role's constants `set`, `zero`, `dflt`.
`eNone` is what evaluating `self.N > 1` raises when `self.N is None`: the repaired code guards the comparison
(`self.N is not None and self.N > 1`) and falls through to the final `else: raise ValueError`; before `ddba0bd`
the comparison itself raised `TypeError`. Returns the final `(self.algo, self.N)`. -/
def roleBranch (eNone : Err) (set : List Tok) (zero dflt : Tok) (zeroIn : Bool) (N : Option Nat) (algo : Option Tok) :
    Except Err (Tok × Nat) :=
  -- if "zero" in name_string:
  if zeroIn then
    match N with
    | none => .ok (zero, 1)                       -- self.N is None  -> algo = ZERO, N = 1
    | some n => if n = 1 then .ok (zero, 1)       -- self.N == 1
                else .error .valueError           -- "Zero in name but provided a number different from 1"
  else
    match algo with
    | some a =>
      -- elif self.algo in GRID_ALGORITHMS_xD:
      if set.contains a then
        match N with
        | none => .error .valueError              -- "The number of grid points not recognised"
        | some n =>
          if n = 1 then .ok (zero, n)             -- elif self.N == 1: algo = ZERO
          else if n ≤ 0 then .error .valueError   -- elif self.N <= 0
          else .ok (a, n)                         -- else: self.algo = self.algo
      else
        -- the two `self.algo is None and …` tests are false; final else
        .error .valueError
    | none =>
      match N with
      | some n =>
        if n = 1 then .ok (zero, n)               -- elif self.algo is None and self.N == 1
        else if n > 1 then .ok (dflt, n)          -- elif self.algo is None and self.N is not None and self.N > 1
        else .error .valueError                   -- final else
      | none => .error eNone                      -- `None == 1` is False; then `None > 1` / its guard

/-- `GridNameParser(name, o_or_b)`, observed through `get_alg()`, `get_N()`; parametrised by `eNone` (see `roleBranch`). -/
def parseWith (eNone : Err) (tb : Tables) (name : List Char) (role : Role) : Except Err (Tok × Nat) := do
  let s ← nameParser tb name
  match role with
  | .o => roleBranch eNone tb.set3 tb.zero3 tb.defO (hasSub zeroKw name) s.N s.algo
  | .b => roleBranch eNone tb.set4 tb.zero4 tb.defB (hasSub zeroKw name) s.N s.algo

/-- The code as it exists in `/repo` (with the F7 repair). -/
def parse (tb : Tables) (name : List Char) (role : Role) : Except Err (Tok × Nat) :=
  parseWith .valueError tb name role

/-- The code before the repair `ddba0bd` (kept only for the regression witness). -/
def parsePre (tb : Tables) (name : List Char) (role : Role) : Except Err (Tok × Nat) :=
  parseWith .typeError tb name role

/-- `get_standard_grid_name()`: `f"{self.algo}_{self.N}"`. -/
def stdName (alg : Tok) (n : Nat) : List Char := alg ++ '_' :: natStr n

/-! ### decidable side conditions on the tables -/

/-- A table entry is a single, non-numeric, non-dimension-tag token. -/
def tokOk (t : Tok) : Bool := !t.contains '_' && !isNumeric t && !isDimTag t

/-- What the theorems need from the constants (all of it holds for `shipped`, checked by evaluation, and is
re-evaluated by the driver on the tables read from the running `molgri.constants`):
defaults lie in their role's set; zero names lie in no role set; the role sets are disjoint; the two zero names
differ; every entry is one token (`tokOk`); the zero names contain the substring `zero`, the others do not. -/
def tablesOk (tb : Tables) : Bool :=
  tb.set3.contains tb.defO && tb.set4.contains tb.defB
  && !tb.set3.contains tb.zero3 && !tb.set4.contains tb.zero3
  && !tb.set3.contains tb.zero4 && !tb.set4.contains tb.zero4
  && tb.set3.all (fun a => !tb.set4.contains a)
  && tb.zero3 != tb.zero4
  && tb.all.all tokOk
  && hasSub zeroKw tb.zero3 && hasSub zeroKw tb.zero4
  && tb.set3.all (fun a => !hasSub zeroKw a) && tb.set4.all (fun a => !hasSub zeroKw a)

/-! ### factory dispatch (rotobj.py:338-392, 288-298) -/

/-- What `SphereGridFactory.create(alg_name, N, dimensions)` does before any numerics: which generator class is
chosen, or which error is raised. -/
inductive Build where
  | randomS | ico | cube3D | zero3D | randomQ | cube4D | fulldiv | zero4D
  deriving DecidableEq, Repr

/-- `allowed_num_of_orientations` of `FullDivCube4DRotations.__init__` -/
def fulldivAllowed : List Nat := [8, 40, 272, 2080]

/-- `SphereGrid3DFactory.create` (the if-chain over literal names). -/
def factory3 (alg : Tok) : Except Err Build :=
  if alg = ['r','a','n','d','o','m','S'] then .ok .randomS
  else if alg = ['i','c','o'] then .ok .ico
  else if alg = ['c','u','b','e','3','D'] then .ok .cube3D
  else if alg = ['z','e','r','o','3','D'] then .ok .zero3D
  else .error .valueError

/-- `SphereGrid4DFactory.create`; `FullDivCube4DRotations.__init__` raises for sizes that are not full subdivisions. -/
def factory4 (alg : Tok) (n : Nat) : Except Err Build :=
  if alg = ['r','a','n','d','o','m','Q'] then .ok .randomQ
  else if alg = ['c','u','b','e','4','D'] then .ok .cube4D
  else if alg = ['f','u','l','l','d','i','v'] then
    if fulldivAllowed.contains n then .ok .fulldiv else .error .valueError
  else if alg = ['z','e','r','o','4','D'] then .ok .zero4D
  else .error .valueError

/-- `SphereGridFactory.create`, `dimensions` = 3 for the direction role, 4 for the rotation role. -/
def factory (r : Role) (alg : Tok) (n : Nat) : Except Err Build :=
  match r with
  | .o => factory3 alg
  | .b => factory4 alg n

end Molgri.Naming
