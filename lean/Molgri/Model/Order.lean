/-
Model of the row order of the full grid (C09), `molgri/space/fullgrid.py`:

* `_t_and_o_2_positions`                (lines 512-538)  → `positions`
* `FullGrid.get_full_grid_as_array`     (lines 173-195)  → `fullArrayLoop` (the loop as written) and `fullArray`
* `FullGrid.get_quaternion_index`, `get_position_index` (lines 116-137) → `quaternionIndex`, `positionIndex`
* `from_full_array_to_o_b_t`            (lines 34-55)    → `decompose`
* the part of `TranslationParser.__init__` that fixes order and unit of the radii → `transGrid`

Import-free, executable.  A point / quaternion / array row is a `List K`; an array is a list of rows.
External library calls are parameters: `norm` (`np.linalg.norm` of a row), `rnd` (`np.round(·, 8)`; the
instance at `Rat` is `round8`).  Python exceptions are `Except String` carrying the exception's name.
-/
namespace Molgri.Order

/-! ### numpy building blocks -/

/-- `np.tile(l, k)` along axis 0: the whole list `k` times. -/
def tile {α} (l : List α) (k : Nat) : List α := (List.replicate k l).flatten

/-- `np.repeat(l, k)` (axis 0): every element `k` times. -/
def repeatEach {α} (l : List α) (k : Nat) : List α := l.flatMap (fun x => List.replicate k x)

/-- `a[i]` for one integer index with numpy's wrap-around of negative indices. -/
def npGet {α} (a : List α) (i : Int) : Except String α :=
  let n : Int := a.length
  let j : Int := if i < 0 then i + n else i
  if 0 ≤ j ∧ j < n then
    match a[j.toNat]? with
    | some x => .ok x
    | none => .error "IndexError"
  else .error "IndexError"

/-- `a[idx]` for an integer index array. -/
def npTake {α} (a : List α) (idx : List Int) : Except String (List α) := idx.mapM (npGet a)

/-- `np.sort` of an index array. -/
def sortNat (l : List Nat) : List Nat := l.mergeSort (fun a b => decide (a ≤ b))

/-- `np.sort` of a float array. -/
def sortK {K} [LE K] [DecidableLE K] (l : List K) : List K := l.mergeSort (fun a b => decide (a ≤ b))

/-! ### radii: order and unit (`TranslationParser.__init__`, list-literal branch) -/

/-- `np.sort`, `assert np.all(trans_grid >= 0)`, `* NM2ANGSTROM`. -/
def transGrid {K} [LE K] [DecidableLE K] [OfNat K 0] [OfNat K 10] [Mul K] (nm : List K) : Except String (List K) :=
  let s := sortK nm
  if s.all (fun x => decide ((0 : K) ≤ x)) then .ok (s.map (· * 10)) else .error "AssertionError"

/-! ### position grid: `_t_and_o_2_positions(o_property, t_property)`, coordinate branch -/

/-- `tiled_o = np.tile(o, (n_t, 1)); tiled_t = np.repeat(t, n_o)[:, newaxis]; tiled_o * tiled_t`. -/
def positions {K} [Mul K] (dirs : List (List K)) (radii : List K) : List (List K) :=
  List.zipWith (fun d t => d.map (· * t)) (tile dirs radii.length) (repeatEach radii dirs.length)

/-- the same helper for a per-direction scalar property (`len(o_property.shape) == 1` branch):
`(np.tile(o, n_t) * np.repeat(t, n_o)[newaxis, :])[0]`. -/
def positionsScalar {K} [Mul K] (o : List K) (t : List K) : List K :=
  List.zipWith (fun a b => a * b) (tile o t.length) (repeatEach t o.length)

/-! ### the full array -/

/-- What the two nested loops enumerate: for every position, for every quaternion, the row `position ++ quaternion`. -/
def fullArray {K} (pos quats : List (List K)) : List (List K) :=
  pos.flatMap (fun p => quats.map (fun q => p ++ q))

/-- One pass of the loop body: `result[current_index] = row; current_index += 1`. `none` is a row still holding NaN. -/
def writeRow {K} (st : List (Option (List K)) × Nat) (row : List K) : Except String (List (Option (List K)) × Nat) :=
  if st.2 < st.1.length then .ok (st.1.set st.2 (some row), st.2 + 1) else .error "IndexError"

/-- `get_full_grid_as_array` as written: `result = np.full((len(self), 7), nan)`, then the nested loops with a running
index.  `len` is `len(self)`. -/
def fullArrayLoop {K} (len : Nat) (pos quats : List (List K)) : Except String (List (Option (List K))) :=
  (pos.foldlM (fun st p => quats.foldlM (fun st q => writeRow st (p ++ q)) st)
      ((List.replicate len none : List (Option (List K))), 0)).map (·.1)

/-- `FullGrid.__len__`: `b_N * len(position_grid)`, the latter `o_N * N_trans`. -/
def fullLen (nb no nt : Nat) : Nat := nb * (no * nt)

/-- The whole pipeline from the three generating grids (radial grid in nm as typed by the user). -/
def fullGrid {K} [LE K] [DecidableLE K] [OfNat K 0] [OfNat K 10] [Mul K]
    (dirs quats : List (List K)) (nm : List K) : Except String (List (Option (List K))) :=
  match transGrid nm with
  | .error e => .error e
  | .ok radii => fullArrayLoop (fullLen quats.length dirs.length radii.length) (positions dirs radii) quats

/-! ### index helpers -/

/-- `get_quaternion_index(full_grid_indices)`; `none` = the argument left at `None`. -/
def quaternionIndex (nb no nt : Nat) (idx : Option (List Int)) : Except String (List Nat) :=
  let repeated := tile (List.range nb) (nt * no)
  let idx := idx.getD ((List.range (fullLen nb no nt)).map Int.ofNat)
  npTake repeated idx

/-- `get_position_index(full_grid_indices)`. -/
def positionIndex (nb no nt : Nat) (idx : Option (List Int)) : Except String (List Nat) :=
  let repeated := repeatEach (List.range (nt * no)) nb
  let idx := idx.getD ((List.range (fullLen nb no nt)).map Int.ofNat)
  npTake repeated idx

/-! ### decomposition: `from_full_array_to_o_b_t` -/

/-- Index `i` is a first occurrence: no earlier row has the same key. -/
def isFirst {κ} [DecidableEq κ] (keys : List κ) (i : Nat) : Bool :=
  match keys[i]? with
  | some k => !(keys.take i).contains k
  | none => false

/-- The first-occurrence indices, ascending. -/
def firstOcc {κ} [DecidableEq κ] (keys : List κ) : List Nat :=
  (List.range keys.length).filter (isFirst keys)

/-- `np.unique(keys, return_index=True, axis=0)[1]`: one index per distinct row, the index of its first occurrence,
listed in the sorted order of the rows (`le`). -/
def npUniqueIdx {κ} [DecidableEq κ] (le : κ → κ → Bool) (keys : List κ) : List Nat :=
  (firstOcc keys).mergeSort (fun i j =>
    match keys[i]?, keys[j]? with
    | some a, some b => le a b
    | _, _ => true)

/-- lexicographic `≤` of rows (the order `np.unique(axis=0)` sorts by). -/
def lexLe {K} [LT K] [DecidableLT K] : List K → List K → Bool
  | [], _ => true
  | _ :: _, [] => false
  | a :: as, b :: bs => if a < b then true else if b < a then false else lexLe as bs

/-- `a[idx]` for in-range natural indices. -/
def takeRows {α} (a : List α) (idx : List Nat) : List α := idx.filterMap (a[·]?)

/-- `arr[np.sort(np.unique(np.round(arr, 8), return_index=True, axis=0)[1])]`: "remove non-unicates without sorting". -/
def dedupKeepFirst {α κ} [DecidableEq κ] (le : κ → κ → Bool) (key : α → κ) (l : List α) : List α :=
  takeRows l (sortNat (npUniqueIdx le (l.map key)))

/-- drop an element equal to its predecessor (`mask[1:] = aux[1:] != aux[:-1]`). -/
def squeezeAux {α} [DecidableEq α] (prev : α) : List α → List α
  | [] => []
  | y :: r => if y = prev then squeezeAux y r else y :: squeezeAux y r

def squeeze {α} [DecidableEq α] : List α → List α
  | [] => []
  | x :: r => x :: squeezeAux x r

/-- `np.unique` of a 1-D array: sort, keep the first of every run. -/
def npUnique1 {K} [LE K] [DecidableLE K] [DecidableEq K] (l : List K) : List K := squeeze (sortK l)

/-- `normalise_vectors` of one row with the row's norm given: `1 * (x / norm)`. -/
def normaliseRow {K} [Div K] (n : K) (p : List K) : List K := p.map (· / n)

/-- `from_full_array_to_o_b_t(full_array)` → `(unique_orientations, unique_quaternions, unique_translations)`.
`norm` is `np.linalg.norm` of a row, `rnd` is `np.round(·, 8)`. -/
def decompose {K} [Div K] [LE K] [DecidableLE K] [LT K] [DecidableLT K] [DecidableEq K]
    (norm : List K → K) (rnd : K → K) (arr : List (List K)) : List (List K) × List (List K) × List K :=
  let key : List K → List K := fun r => r.map rnd
  let quaternionArray := arr.map (·.drop 3)
  let uniqueQuaternions := dedupKeepFirst lexLe key quaternionArray
  let translationLens := arr.map (fun r => norm (r.take 3))
  let uniqueTranslations := npUnique1 (translationLens.map rnd)
  let orientationArray := arr.map (fun r => normaliseRow (norm (r.take 3)) (r.take 3))
  let uniqueOrientations := dedupKeepFirst lexLe key orientationArray
  (uniqueOrientations, uniqueQuaternions, uniqueTranslations)

/-! ### `np.round(x, 8)` at `Rat` (round half to even of `x·10⁸`) -/

def roundHalfEven (q : Rat) : Int :=
  let f := q.floor
  let r := q - (f : Rat)
  if r < 1/2 then f else if 1/2 < r then f + 1 else if f % 2 = 0 then f else f + 1

def round8 (q : Rat) : Rat := (roundHalfEven (q * 100000000) : Rat) / 100000000

end Molgri.Order
