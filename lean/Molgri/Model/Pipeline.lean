/-
Model of the pipeline of C14 (saved grid geometry ⇒ rate matrix ⇒ spectral decomposition):

* `molgri/io.py:16-63`                 `GridWriter.save_*` / `GridReader.load_*`  (file-name logic of `np.save`,
                                       `scipy.sparse.save_npz`, `np.load`, `load_npz`; the serialisation itself is external)
* `molgri/space/fullgrid.py:143-156`   `FullGrid.get_total_volumes`
* `molgri/space/fullgrid.py:225-282`   `FullGrid._get_N_N`  (adjacency / borders / distances, one assembly for all three)
* `molgri/molecules/transitions.py:314-346`  `SQRA.get_rate_matrix`
* `molgri/molecules/transitions.py:375-398`  `DecompositionTool.get_decomposition` (everything after the ARPACK call: `.real`,
                                       `argsort()[::-1]` as a stable insertion sort of positions, column permutation)

Import-free, executable, polymorphic in the scalar type `K` (the driver instantiates `Rat` for the assembly and the
sorting, `Float` for the rate matrix; the proofs use an arbitrary field).

External, hence parameters: the sub-grid matrices (position grid: dense `P i j`; rotation grid: the stored entries
of its `coo_array`), the sub-grid volumes, `np.exp`, `np.round(·, 14)`, the constants `k_B`, `N_A`, and the raw
output of `scipy.sparse.linalg.eigs` (ARPACK).

A sparse matrix is the list of its stored entries `(row, col, value)` **in storage order**, i.e. what
`.tocoo().row/.col/.data` show (for a csr matrix: row-major, columns in stored order).
-/
namespace Molgri.Pipeline

/-- One stored entry `(row, col, value)`. -/
structure Ent (K : Type) where
  row : Nat
  col : Nat
  val : K

/-- Stored entries in storage order. -/
abbrev Mat (K : Type) := List (Ent K)

/-- index pair of a stored entry -/
def ix {K : Type} (e : Ent K) : Nat × Nat := (e.row, e.col)

/-- `(tocoo().row[k], tocoo().col[k])` in storage order -/
def idx {K : Type} (m : Mat K) : List (Nat × Nat) := m.map ix

/-- `tocoo().data` -/
def dataOf {K : Type} (m : Mat K) : List K := m.map (·.val)

/-- all index pairs of an `n × n` matrix in row-major order -/
def pairs (n : Nat) : List (Nat × Nat) :=
  (List.range n).flatMap fun r => (List.range n).map fun c => (r, c)

/-! ### sparse arithmetic (scipy) -/
section sparse
variable {K : Type} [Add K] [Zero K]

/-- sum of the values stored for column `c` in a list of entries (duplicates add, as in `sum_duplicates`) -/
def colSum (l : Mat K) (c : Nat) : K := ((l.filter fun e => e.col == c).map (·.val)).sum

/-- the stored entries of row `r` -/
def rowOf (m : Mat K) (r : Nat) : Mat K := m.filter fun e => e.row == r

/-- `m.toarray()[i, j]` -/
def dense (m : Mat K) (i j : Nat) : K := colSum (rowOf m i) j

/-- `m.sum(axis=1)[i]` -/
def rowSum (m : Mat K) (i : Nat) : K := ((rowOf m i).map (·.val)).sum

/-- `A + B` for two sparse matrices of shape `n × n` (`coo + coo`, `csr + csr`): both operands become canonical csr
(duplicates summed), the result is a canonical csr: rows ascending, columns ascending inside a row, and an entry
whose sum is zero is **not stored** (`csr_plus_csr` keeps `result != 0` only). -/
def addCsr [BEq K] (n : Nat) (A B : Mat K) : Mat K :=
  (List.range n).flatMap fun r =>
    let a := rowOf A r
    let b := rowOf B r
    (List.range n).filterMap fun c =>
      let v := colSum a c + colSum b c
      if v == 0 then none else some ⟨r, c, v⟩

end sparse

/-! ### `FullGrid._get_N_N` and `get_total_volumes` -/

/-- the three properties `_get_N_N` is called with -/
inductive Sel where
  | adjacency | borders | distances
  deriving DecidableEq, Repr

section assembly
variable {K : Type} [Add K] [Mul K] [Zero K] [One K] [BEq K]

/-- value stored for a kept (truthy) position entry `el`: `v * my_factor` with `my_factor = 1, factor**2, factor`
(lines 249-262); for adjacency `dtype=bool`, i.e. `True`, which is `1.0` once added to the float block matrix -/
def posValue (sel : Sel) (f el : K) : K :=
  match sel with
  | .adjacency => 1
  | .borders => el * (f * f)
  | .distances => el * f

/-- lines 241-247, 262: loop over the dense position matrix with the truthiness filter `if el:`;
rows `n_b*i+k`, columns `n_b*j+k` -/
def posEntries (nP nB : Nat) (sel : Sel) (f : K) (P : Nat → Nat → K) : Mat K :=
  (List.range nP).flatMap fun i =>
    (List.range nP).flatMap fun j =>
      let el := P i j
      if el == 0 then []
      else (List.range nB).map fun k => ⟨nB * i + k, nB * j + k, posValue sel f el⟩

/-- lines 232-235: the rotation grid's `coo_array`, or `coo_array([[False]])` (no stored entry) when `n_b = 1` -/
def rotInput (nB : Nat) (R : Mat K) : Mat K := if nB > 1 then R else []

/-- lines 266-273: `bmat` of the block-diagonal arrangement; block `p` is the rotation matrix shifted by `n_b*p` -/
def rotEntries (nP nB : Nat) (Rc : Mat K) : Mat K :=
  (List.range nP).flatMap fun p => Rc.map fun e => ⟨nB * p + e.row, nB * p + e.col, e.val⟩

/-- `_get_N_N(sel_property)`: stored entries of the returned matrix (`nP = n_t·n_o`, `nB = n_b`) -/
def full (nP nB : Nat) (sel : Sel) (f : K) (P : Nat → Nat → K) (R : Mat K) : Mat K :=
  let Rc := rotInput nB R
  if nP > 1 then addCsr (nP * nB) (rotEntries nP nB Rc) (posEntries nP nB sel f P)
  else Rc

/-- `get_total_volumes` (lines 149-156): position-major, rotation-minor, `o_rot*(factor**3)*b_rot` -/
def totalVolumes (f : K) (Vpos Vrot : List K) : List K :=
  Vpos.flatMap fun p => Vrot.map fun b => p * (f * f * f) * b

/-- `get_full_grid_as_array` (lines 189-194): for every position all quaternions, row = position ++ quaternion -/
def fullArray (positions quats : List (List K)) : List (List K) :=
  positions.flatMap fun p => quats.map fun q => p ++ q

end assembly

/-! ### files: `GridWriter` / `GridReader` -/

/-- storage format of a scipy sparse matrix (kept by `save_npz` / `load_npz`) -/
inductive Fmt where
  | coo | csr
  deriving DecidableEq, Repr

/-- a scipy sparse matrix: format, shape `n × n`, stored entries in `.tocoo()` order -/
structure Sp (K : Type) where
  fmt : Fmt
  n : Nat
  entries : Mat K

/-- a numpy array as far as the pipeline distinguishes them: 1-d (volumes) or 2-d (full grid) -/
inductive NpArray (K : Type) where
  | vec (a : List K)
  | table (a : List (List K))

/-- content of a file -/
inductive Blob (K : Type) where
  | npy (a : NpArray K)            -- written by `np.save`
  | sparse (s : Sp K)              -- `.npz` written by `save_npz`

/-- a directory: association list, most recent write first -/
abbrev FS (K : Type) := List (String × Blob K)

/-- `if not file.endswith(ext): file = file + ext` (`np.save`, `save_npz`) -/
def withExt (ext p : String) : String := if p.endsWith ext then p else p ++ ext

def FS.read {K : Type} (fs : FS K) (p : String) : Option (Blob K) :=
  match fs with
  | [] => none
  | (q, b) :: rest => if p == q then some b else FS.read rest p

def FS.write {K : Type} (fs : FS K) (p : String) (b : Blob K) : FS K := (p, b) :: fs

/-- what the five `FullGrid` getters used by `GridWriter` return -/
structure Grid (K : Type) where
  fullGrid : List (List K)
  volumes : List K
  borders : Sp K
  distances : Sp K
  adjacency : Sp K

/-- what `FullGrid.__init__` computes from the three grid names and what the getters of the sub-grids return:
`nP = n_t·n_o` position cells, `nB = n_b` rotation cells, the factor, the dense position matrices
(`_get_N_N_position_array(sel).toarray()`), the rotation grid's `coo_array`s (`_calculate_N_N_array(sel)`), the
sub-grid volumes, the position grid and the quaternions -/
structure SubGrids (K : Type) where
  nP : Nat
  nB : Nat
  f : K
  Pa : Nat → Nat → K
  Pb : Nat → Nat → K
  Pd : Nat → Nat → K
  Ra : Mat K
  Rb : Mat K
  Rd : Mat K
  Vpos : List K
  Vrot : List K
  positions : List (List K)
  quats : List (List K)

/-- storage format of what `_get_N_N` returns: the sum is csr, the `n_t·n_o = 1` shortcut returns a coo matrix -/
def fmtOf (nP : Nat) : Fmt := if nP > 1 then .csr else .coo

/-- the five getters `GridWriter` calls on its `FullGrid` -/
def SubGrids.toGrid {K : Type} [Add K] [Mul K] [Zero K] [One K] [BEq K] (s : SubGrids K) : Grid K where
  fullGrid := fullArray s.positions s.quats
  volumes := totalVolumes s.f s.Vpos s.Vrot
  borders := ⟨fmtOf s.nP, s.nP * s.nB, full s.nP s.nB .borders s.f s.Pb s.Rb⟩
  distances := ⟨fmtOf s.nP, s.nP * s.nB, full s.nP s.nB .distances s.f s.Pd s.Rd⟩
  adjacency := ⟨fmtOf s.nP, s.nP * s.nB, full s.nP s.nB .adjacency s.f s.Pa s.Ra⟩

/-- the five path arguments of the writer / reader methods -/
structure Paths where
  grid : String
  volumes : String
  borders : String
  distances : String
  adjacency : String

/-- the files the writer creates for these arguments -/
def Paths.targets (p : Paths) : Paths :=
  ⟨withExt ".npy" p.grid, withExt ".npy" p.volumes, withExt ".npz" p.borders, withExt ".npz" p.distances,
   withExt ".npz" p.adjacency⟩

section files
variable {K : Type}

def saveFullGrid (g : Grid K) (fs : FS K) (p : String) : FS K := fs.write (withExt ".npy" p) (.npy (.table g.fullGrid))
def saveVolumes (g : Grid K) (fs : FS K) (p : String) : FS K := fs.write (withExt ".npy" p) (.npy (.vec g.volumes))
def saveBorders (g : Grid K) (fs : FS K) (p : String) : FS K := fs.write (withExt ".npz" p) (.sparse g.borders)
def saveDistances (g : Grid K) (fs : FS K) (p : String) : FS K := fs.write (withExt ".npz" p) (.sparse g.distances)
def saveAdjacency (g : Grid K) (fs : FS K) (p : String) : FS K := fs.write (withExt ".npz" p) (.sparse g.adjacency)

/-- the five `save_*` calls in the order of `workflow/run_grid` -/
def writeGrid (g : Grid K) (p : Paths) (fs : FS K) : FS K :=
  saveVolumes g (saveDistances g (saveBorders g (saveAdjacency g (saveFullGrid g fs p.grid) p.adjacency) p.borders)
    p.distances) p.volumes

/-- `np.load(path)` (both `load_full_grid` and `load_volumes`): whatever array the file holds; for an `.npz` file numpy
returns an `NpzFile` object without raising, which the model reports as `other:NpzFile` -/
def loadNpy (fs : FS K) (p : String) : Except String (NpArray K) :=
  match fs.read p with
  | none => .error "other:FileNotFoundError"
  | some (.npy a) => .ok a
  | some (.sparse _) => .error "other:NpzFile"

/-- `scipy.sparse.load_npz(path)` -/
def loadSparse (fs : FS K) (p : String) : Except String (Sp K) :=
  match fs.read p with
  | none => .error "other:FileNotFoundError"
  | some (.sparse s) => .ok s
  | some _ => .error "TypeError"   -- `with np.load(file)` on an `.npy` file: ndarray is no context manager

/-- what `workflow/run_sqra` loads: volumes, borders, distances (paths are taken literally, no suffix added) -/
def readGeometry (fs : FS K) (q : Paths) : Except String (List K × Sp K × Sp K) := do
  let v ← match (← loadNpy fs q.volumes) with
    | .vec v => pure v
    | .table _ => throw "other:NotAVector"      -- model boundary: a 2-d array where the volumes are expected
  let b ← loadSparse fs q.borders
  let d ← loadSparse fs q.distances
  pure (v, b, d)

end files

/-! ### `SQRA.get_rate_matrix` -/
section sqra
variable {K : Type} [Add K] [Sub K] [Mul K] [Div K] [Neg K] [Zero K] [LT K] [DecidableLT K]
variable [OfNat K 2] [OfNat K 500] [OfNat K 1000]

/-- `np.where(diff < 5e2, diff, 5e2)` -/
def capf (x : K) : K := if x < 500 then x else 500

/-- the off-diagonal part in coo storage, line by line (`S` = `self.surfaces.tocoo()` entries, `hd` =
`self.distances.tocoo().data`); the division by the distances is a **zip over the two storage orders** -/
def offDiag (exp rnd : K → K) (kB NA T D : K) (S : Mat K) (hd : List K) (V E : Nat → K) : Mat K :=
  -- transition_matrix = (D * self.surfaces).tocoo()
  let t0 : Mat K := S.map fun e => ⟨e.row, e.col, D * e.val⟩
  -- transition_matrix.data /= self.distances.tocoo().data
  let t1 : Mat K := List.zipWith (fun e x => ⟨e.row, e.col, e.val / x⟩) t0 hd
  -- transition_matrix.data /= self.volumes[transition_matrix.row]
  let t2 : Mat K := t1.map fun e => ⟨e.row, e.col, e.val / V e.row⟩
  -- transition_matrix.data *= np.exp(np.round(capped(E[row] - E[col]), 14) * 1000 / (2 * kB * N_A * T))
  t2.map fun e => ⟨e.row, e.col, e.val * exp (rnd (capf (E e.row - E e.col)) * 1000 / (2 * kB * NA * T))⟩

/-- `coo_array((-sums, (all_i, all_i)))` -/
def diagEntries (n : Nat) (t : Mat K) : Mat K := (List.range n).map fun i => ⟨i, i, -(rowSum t i)⟩

/-- the returned csr matrix `transition_matrix.tocsr() + diagonal_array.tocsr()` -/
def rateMat [BEq K] (exp rnd : K → K) (kB NA T D : K) (n : Nat) (S : Mat K) (hd : List K) (V E : Nat → K) : Mat K :=
  let t := offDiag exp rnd kB NA T D S hd V E
  addCsr n t (diagEntries n t)

/-- the same read at `(i, j)` -/
def rate (exp rnd : K → K) (kB NA T D : K) (S : Mat K) (hd : List K) (V E : Nat → K) (i j : Nat) : K :=
  let t := offDiag exp rnd kB NA T D S hd V E
  dense t i j + (if i = j then -(rowSum t i) else 0)

/-- numpy broadcasting of `a /= d` for 1-d arrays: equal lengths, or `d` of length one -/
def broadcastData (len : Nat) (d : List K) : Option (List K) :=
  if d.length = len then some d
  else if d.length = 1 then some (List.replicate len (d.headD 0))
  else none

/-- `SQRA(energies, volumes, distances, surfaces).get_rate_matrix(D, T)` with the exceptions the code raises -/
def getRateMatrix [BEq K] (exp rnd : K → K) (kB NA : K) (E V : List K) (dist surf : Sp K) (D T : K) :
    Except String (Sp K) :=
  if E.length ≠ V.length then .error "AssertionError" else
  match broadcastData surf.entries.length (dataOf dist.entries) with
  | none => .error "ValueError"
  | some hd =>
    .ok ⟨.csr, V.length, rateMat exp rnd kB NA T D V.length surf.entries hd (fun i => V.getD i 0) (fun i => E.getD i 0)⟩

/-- the whole pipeline of `workflow/run_grid` + `workflow/run_sqra`: write the grid files, read them back, build the
rate matrix with the given energies -/
def pipeline [BEq K] (exp rnd : K → K) (kB NA : K) (g : Grid K) (p : Paths) (fs : FS K) (E : List K) (D T : K) :
    Except String (Sp K) := do
  let (v, b, d) ← readGeometry (writeGrid g p fs) p.targets
  getRateMatrix exp rnd kB NA E v d b D T

end sqra

/-! ### `DecompositionTool.get_decomposition` after the ARPACK call -/
section decomposition
variable {K : Type} [LE K] [DecidableLE K]

/-- insert position `a` before the first position whose key is not smaller (stable insertion) -/
def insertBy (le : Nat → Nat → Bool) (a : Nat) : List Nat → List Nat
  | [] => [a]
  | b :: l => if le a b then a :: b :: l else b :: insertBy le a l

/-- stable insertion sort of a list of positions -/
def isortBy (le : Nat → Nat → Bool) : List Nat → List Nat
  | [] => []
  | a :: l => insertBy le a (isortBy le l)

/-- `eigenval.argsort()` on the real parts, as a stable sort of the positions (numpy's default sort is an insertion
sort for arrays this small; for equal keys numpy's order is unspecified, the correspondence check excludes ties) -/
def argsortAsc (vals : List K) (dflt : K) : List Nat :=
  isortBy (fun a b => decide (vals.getD a dflt ≤ vals.getD b dflt)) (List.range vals.length)

/-- lines 392-397: `.real` of both arrays, `idx = eigenval.argsort()[::-1]`, `eigenval[idx]`, `eigenvec[:, idx]`.
`vals` are ARPACK's eigenvalues `(re, im)`, `cols` the columns of its eigenvector array (each a list of `(re, im)`). -/
def sortEig (dflt : K) (vals : List (K × K)) (cols : List (List (K × K))) : List K × List (List K) :=
  let re := vals.map (·.1)
  let recols := cols.map fun c => c.map (·.1)
  let idx := (argsortAsc re dflt).reverse
  (idx.map fun k => re.getD k dflt, idx.map fun k => recols.getD k [])

/-- the permutation applied -/
def sortIdx (dflt : K) (vals : List (K × K)) : List Nat := (argsortAsc (vals.map (·.1)) dflt).reverse

end decomposition

end Molgri.Pipeline
