/-
Model of the Cartesian position mode of `molgri.space.fullgrid.PositionGrid` (C06):

  `utils.order_points`        (utils.py:18-47, the code after the repair of F2 by commit 5af65de)
  `utils.get_polygon_area`    (utils.py:50-63)
  `PositionGrid.__init__` with `position_grid_cartesian=True`: the extra outer shell   (fullgrid.py:298-307)
  `_t_and_o_2_positions` for coordinates                                               (fullgrid.py:512-538)
  `get_cartesian_volumes`, `get_cartesian_distances`, `_get_coordinates_of_border_polygons`,
  `get_cartesian_surfaces`                                                             (fullgrid.py:338-384)

Import-free and executable.  Polymorphic in the scalar `K` through core operator classes: the driver instantiates
`K := Rat` (Python floats arrive as the exact rationals they are), the finite witnesses use `K := Int`, the theorems are
proved for every linearly ordered field.

External inputs (parameters of the model): scipy's `Voronoi` object (`vertices`, `regions`, `point_region` — qhull),
`ConvexHull(..).volume` of a closed region (`hullVol`), the adjacency of the position grid in COO entry order (it is the
spherical-shell adjacency of C05, not a Euclidean one), and the Euclidean norm `nrm` (`np.linalg.norm`).

How `arctan2` is modelled.  `order_points` sorts the vertices by `alpha = arctan2(C·n, (A·B)·|n|)`.  The model never
evaluates `arctan2`: it keeps the pair `(s, c) = (C·n, A·B)` and compares two pairs exactly as `arctan2` orders them
(`angLe`): by the half plane / axis they lie in (`rank`) and inside an open half plane by the sign of the 2×2
determinant.  Dropping the positive factor `|n|` of the second argument does not change the order (a positive scaling of
the x-axis preserves orientation and the branch cut).  When `n = 0` both arguments of `arctan2` are zero and every angle is
`arctan2(±0, ±0)`; the model uses the key `(0, 0)` (angle 0) for all of them — then every cross product of the fan is zero
as well and the area is 0 whatever the order.  `angLe` is proved to be the order of the real `arctan2` in
`Molgri/Props/C06Real.lean` (`angLe_iff_arctan2`).  Not modelled: the sign of a floating-point zero — for a vertex exactly
opposite the first one (`s = ±0`, `c < 0`) numpy returns `+π` or `−π` according to the sign of the zero, the model always `π`;
the two orders differ by a rotation of the same cycle (the correspondence check compares such cases up to rotation).
-/
namespace Molgri.Polygon

/-- A point / vector of ℝ³ (a row of an `(N, 3)` numpy array). -/
structure V3 (K : Type) where
  x : K
  y : K
  z : K
deriving DecidableEq, Repr

/-- insert `a` before the first element `b` with `le a b` (stable insertion). -/
def insertBy {α : Type} (le : α → α → Bool) (a : α) : List α → List α
  | [] => [a]
  | b :: t => if le a b then a :: b :: t else b :: insertBy le a t

/-- stable insertion sort. -/
def isortBy {α : Type} (le : α → α → Bool) : List α → List α
  | [] => []
  | a :: t => insertBy le a (isortBy le t)

section
variable {K : Type} [Add K] [Sub K] [Mul K] [Div K] [Neg K] [Zero K] [One K] [NatCast K]
  [LT K] [DecidableLT K] [DecidableEq K]

namespace V3
def zero : V3 K := ⟨0, 0, 0⟩
def add (a b : V3 K) : V3 K := ⟨a.x + b.x, a.y + b.y, a.z + b.z⟩
def sub (a b : V3 K) : V3 K := ⟨a.x - b.x, a.y - b.y, a.z - b.z⟩
def smul (k : K) (a : V3 K) : V3 K := ⟨k * a.x, k * a.y, k * a.z⟩
def sdiv (a : V3 K) (k : K) : V3 K := ⟨a.x / k, a.y / k, a.z / k⟩
/-- `np.cross`. -/
def cross (a b : V3 K) : V3 K := ⟨a.y * b.z - a.z * b.y, a.z * b.x - a.x * b.z, a.x * b.y - a.y * b.x⟩
/-- `np.dot`. -/
def dot (a b : V3 K) : K := a.x * b.x + a.y * b.y + a.z * b.z
/-- squared Euclidean norm. -/
def nrm2 (a : V3 K) : K := dot a a
end V3

/-- column sums of an `(N, 3)` array. -/
def vsum (ps : List (V3 K)) : V3 K := ps.foldr V3.add V3.zero

/-- `np.mean(polygon_points_3d, axis=0)`. -/
def mean (ps : List (V3 K)) : V3 K := (vsum ps).sdiv (ps.length : K)

/-! ### `order_points` -/

/-- scan of `np.argmax`: keeps the first maximum. -/
def argmaxAux (best : K) (bi i : Nat) : List K → Nat
  | [] => bi
  | a :: t => if best < a then argmaxAux a i (i + 1) t else argmaxAux best bi (i + 1) t

/-- `np.argmax` of a 1-D array: index of the first occurrence of the maximum. -/
def argmaxFirst : List K → Nat
  | [] => 0
  | a :: t => argmaxAux a 0 1 t

/-- `all_normals = np.cross(first_point - center, polygon_points_3d[1:] - center)`. -/
def allNormals (ps : List (V3 K)) : List (V3 K) :=
  match ps with
  | [] => []
  | f :: rest =>
    let c := mean ps
    let B := f.sub c
    rest.map fun p => B.cross (p.sub c)

/-- `normal_vector = all_normals[np.argmax(np.linalg.norm(all_normals, axis=1))]`; the argmax of the norms is the argmax
of the squared norms. -/
def normalVector (ps : List (V3 K)) : V3 K :=
  let ns := allNormals ps
  ns.getD (argmaxFirst (ns.map V3.nrm2)) V3.zero

/-- The two arguments of `arctan2` for one vertex, `(s, c) = (C·n, A·B)` with `A = point - center`,
`B = first_point - center`, `C = A × B` (the positive factor `|n|` of the second argument is dropped). -/
def alphaKey (n B A : V3 K) : K × K :=
  (V3.dot (V3.cross A B) n, V3.dot A B)

/-- `alphas`: `[0]` for the first vertex, then one `arctan2` per further vertex; `(0, 0)` for all if `n = 0`. -/
def alphaKeys (ps : List (V3 K)) : List (K × K) :=
  match ps with
  | [] => []
  | f :: rest =>
    let c := mean ps
    let B := f.sub c
    let n := normalVector ps
    if V3.nrm2 n = 0 then (0, 0) :: rest.map fun _ => (0, 0)
    else (0, 0) :: rest.map fun p => alphaKey n B (p.sub c)

/-- Where `arctan2(s, c)` lies: 0 = open lower half plane (−π, 0); 1 = angle 0 (`s = 0`, `c ≥ 0`, including
`arctan2(0, 0) = 0`); 2 = open upper half plane (0, π); 3 = angle π (`s = 0`, `c < 0`). -/
def rank (k : K × K) : Nat :=
  if k.1 < 0 then 0 else if 0 < k.1 then 2 else if k.2 < 0 then 3 else 1

/-- determinant of two `arctan2` argument pairs `(s, c) = (y, x)`: `x₁ y₂ − x₂ y₁`. -/
def kdet (k1 k2 : K × K) : K := k1.2 * k2.1 - k2.2 * k1.1

/-- `arctan2 k1 ≤ arctan2 k2`, decided without evaluating `arctan2`. -/
def angLe (k1 k2 : K × K) : Bool :=
  decide (rank k1 < rank k2) ||
    (rank k1 == rank k2 && (rank k1 == 1 || rank k1 == 3 || !decide (kdet k1 k2 < 0)))

/-- `np.argsort(alphas)`: vertex indices in the order of their angles (numpy's default sort is a stable insertion sort
below 17 elements; `isortBy` is that sort). -/
def argsortKeys (keys : List (K × K)) : List Nat :=
  (isortBy (fun a b => angLe a.1 b.1) keys.zipIdx).map (·.2)

/-- `order = np.argsort(alphas)`; a single point is returned as it is. -/
def orderIdx (ps : List (V3 K)) : List Nat :=
  if ps.length = 1 then [0] else argsortKeys (alphaKeys ps)

/-- `order_points(polygon_points_3d)` = `np.array([polygon_points_3d[i] for i in order])`. -/
def orderPoints (ps : List (V3 K)) : List (V3 K) :=
  (orderIdx ps).map fun i => ps.getD i V3.zero

/-- `order_points` with its failure on an empty `(0, 3)` array (`polygon_points_3d[0]`). -/
def orderPointsE (ps : List (V3 K)) : Except String (List (V3 K)) :=
  if ps.isEmpty then throw "IndexError" else pure (orderPoints ps)

/-! ### `get_polygon_area` -/

/-- the cross products of the fan: `np.cross(P[0] - P[k], P[k+1] - P[k])` for `k = 1 … n−2`. -/
def fanCrosses : List (V3 K) → List (V3 K)
  | [] => []
  | q0 :: rest => (rest.zip rest.tail).map fun qq => (q0.sub qq.1).cross (qq.2.sub qq.1)

/-- `np.abs`. -/
def absK (a : K) : K := if a < 0 then -a else a

/-- `get_polygon_area`: `Σ 0.5 * np.abs(np.linalg.norm(cross))`. -/
def fanArea (nrm : V3 K → K) (qs : List (V3 K)) : K :=
  ((fanCrosses qs).map fun v => absK (nrm v) / (1 + 1)).foldr (· + ·) 0

/-- one entry of `get_cartesian_surfaces`: `get_polygon_area(order_points(polygon)) if len(polygon) > 1 else 0`. -/
def polyArea (nrm : V3 K → K) (poly : List (V3 K)) : K :=
  if poly.length > 1 then fanArea nrm (orderPoints poly) else 0

/-! ### the extended point set and scipy's Voronoi diagram of it -/

/-- `_t_and_o_2_positions` for coordinates: all directions at the first radius, then all at the second, …;
row `k·n_o + i` is `o[i] * t[k]`. -/
def positions (o : List (V3 K)) (t : List K) : List (V3 K) :=
  t.flatMap fun r => o.map (V3.smul r)

/-- the last element of `get_increments(trans_grid)`: `t[-1] - t[-2]`, or `t[0]` for a single radius. -/
def lastIncrement : List K → Option K
  | [] => none
  | [a] => some a
  | a :: b :: t => match t with
    | [] => some (b - a)
    | _ => lastIncrement (b :: t)

/-- `get_increments` of a radial grid (needed for its assertion). -/
def incrementsOf (r : List K) : List K :=
  match r with
  | [] => []
  | a :: t => a :: List.zipWith (fun start stop => stop - start) (a :: t) t

/-- The assertion of `get_increments` (since commit cae935f): `increment_grid[0] >= 0 and np.all(increment_grid[1:] > 0)` —
the first "increment" is the first radius itself, which may be zero; the differences must be positive. -/
def incrementsOk (inc : List K) : Bool :=
  !decide (inc.getD 0 0 < 0) && inc.tail.all (fun x => decide (0 < x))

/-- `t_additional`: the radial grid with one more shell at `t[-1] + increments[-1]`
(`IndexError` on an empty grid, `AssertionError` unless the first radius is non-negative and all differences positive). -/
def extendedRadii (t : List K) : Except String (List K) :=
  match t.getLast?, lastIncrement t with
  | some l, some inc =>
    if incrementsOk (incrementsOf t) then pure (t ++ [l + inc]) else throw "AssertionError"
  | _, _ => throw "IndexError"

/-- `extended_position_grid`, the input of `scipy.spatial.Voronoi`. -/
def extendedPositions (o : List (V3 K)) (t : List K) : Except String (List (V3 K)) := do
  let te ← extendedRadii t
  pure (positions o te)

/-- What the code reads of `scipy.spatial.Voronoi`: vertex coordinates, for every region the list of its vertex indices
(`-1` = vertex at infinity) and for every input point the index of its region. -/
structure Vor (K : Type) where
  vertices : List (V3 K)
  regions : List (List Int)
  pointRegion : List Nat

/-- `regions[point_region[p]]`. -/
def regionOf (v : Vor K) (p : Nat) : Except String (List Int) :=
  match v.pointRegion[p]? with
  | none => throw "IndexError"
  | some r =>
    match v.regions[r]? with
    | none => throw "IndexError"
    | some reg => pure reg

/-- indices `i` of `enumerate(vertices)` with `i in set(row_region) ∩ set(col_region)` (ascending; `-1` never matches). -/
def sharedIdx (nV : Nat) (rr cr : List Int) : List Nat :=
  (List.range nV).filter fun i => rr.contains (i : Int) && cr.contains (i : Int)

/-- one polygon of `_get_coordinates_of_border_polygons`. -/
def borderPolygon (v : Vor K) (row col : Nat) : Except String (List (V3 K)) := do
  let rr ← regionOf v row
  let cr ← regionOf v col
  pure ((sharedIdx v.vertices.length rr cr).map fun i => v.vertices.getD i V3.zero)

/-- the loop of `_get_coordinates_of_border_polygons` / `get_cartesian_surfaces` over the entries of the adjacency matrix
(COO order) with the per-polygon computation `f` left open (the driver instantiates `f` with the exact squared norms). -/
def surfacesWith {β : Type} (f : List (V3 K) → β) (v : Vor K) (adj : List (Nat × Nat)) : Except String (List β) :=
  adj.mapM fun rc => do
    let p ← borderPolygon v rc.1 rc.2
    pure (f p)

/-- `get_cartesian_surfaces().data`: one area per entry of the adjacency matrix, in its COO order. -/
def cartesianSurfaces (nrm : V3 K → K) (v : Vor K) (adj : List (Nat × Nat)) : Except String (List K) :=
  surfacesWith (polyArea nrm) v adj

/-- the loop of `get_cartesian_distances` with the function of `points[row] - points[col]` left open. -/
def distancesWith {β : Type} (f : V3 K → β) (points : List (V3 K)) (adj : List (Nat × Nat)) : Except String (List β) :=
  adj.mapM fun rc =>
    match points[rc.1]?, points[rc.2]? with
    | some p, some q => pure (f (p.sub q))
    | _, _ => throw "IndexError"

/-- `get_cartesian_distances().data`: `np.linalg.norm(points[row] - points[col])` per entry of the adjacency matrix. -/
def cartesianDistances (nrm : V3 K → K) (points : List (V3 K)) (adj : List (Nat × Nat)) : Except String (List K) :=
  distancesWith nrm points adj

/-- a region is open when it contains the vertex at infinity. -/
def isOpen (reg : List Int) : Bool := reg.contains (-1)

/-- `get_cartesian_volumes()` with the value of an open cell (`z`) and of a closed region (`hullVol`) left open:
an array of `n` entries `z` (`n` = number of grid points without the extra shell); every input point of the diagram (the
extra shell included) whose region is closed writes `hullVol region` at its own index — `IndexError` if that index is
`≥ n`; open regions keep `z`. -/
def volumesWith {β : Type} (z : β) (hullVol : List Int → β) (v : Vor K) (n : Nat) : Except String (List β) := do
  let regs ← (List.range v.pointRegion.length).mapM (regionOf v)
  if regs.zipIdx.any (fun ri => decide (n ≤ ri.2) && !isOpen ri.1) then throw "IndexError"
  pure ((List.range n).map fun idx =>
    match regs[idx]? with
    | some reg => if isOpen reg then z else hullVol reg
    | none => z)

/-- `get_cartesian_volumes()`: zeros, overwritten by `ConvexHull(vertices[region]).volume` for closed regions. -/
def cartesianVolumes (hullVol : List Int → K) (v : Vor K) (n : Nat) : Except String (List K) :=
  volumesWith 0 hullVol v n

end

/-! ### the code before the repair (commit 5af65de), kept for the regression witnesses of F2

`normal = cross(first - center, second - center)`, `direction = np.sign(C·normal)`,
`alpha = direction * arccos(round(cos, 5))`.  `arccos` is strictly decreasing, so `alpha` is ordered like the pair
(direction, cosine); the cosine of the angle between `A` and `B` is compared through `sgn(A·B)·(A·B)²/|A|²`
(`|B|` is common to all vertices), cross-multiplied so that no division occurs (rounding to 5 decimals is not modelled:
the witnesses have well separated cosines). -/
section old
variable {K : Type} [Add K] [Sub K] [Mul K] [Div K] [Neg K] [Zero K] [One K] [NatCast K]
  [LT K] [DecidableLT K] [DecidableEq K]

/-- `np.sign`. -/
def sgn (a : K) : Int := if a < 0 then -1 else if 0 < a then 1 else 0

/-- old key of a vertex: `(direction, A·B, |A|²)`. -/
def oldKey (n B A : V3 K) : Int × K × K :=
  (sgn (V3.dot (V3.cross A B) n), V3.dot A B, V3.nrm2 A)

/-- `cos₁ < cos₂` for `cos = d / √m`, without square roots: compare `sgn(d)·d²/m`. -/
def cosLt (d1 m1 d2 m2 : K) : Bool :=
  let s (d : K) : K := if d < 0 then -(d * d) else d * d
  decide (s d1 * m2 < s d2 * m1)

/-- `alpha₁ ≤ alpha₂` for `alpha = direction · arccos(cos)`.  A direction `±1` implies `0 < arccos(cos) < π`
(`C ≠ 0`), so `alpha` has the sign of the direction. -/
def oldLe (k1 k2 : Int × K × K) : Bool :=
  if k1.1 < k2.1 then true else if k2.1 < k1.1 then false
  else if k1.1 = 0 then true
  else if 0 < k1.1 then !cosLt k1.2.1 k1.2.2 k2.2.1 k2.2.2     -- θ₁ ≤ θ₂ ⇔ cos₁ ≥ cos₂
  else !cosLt k2.2.1 k2.2.2 k1.2.1 k1.2.2                      -- −θ₁ ≤ −θ₂ ⇔ cos₁ ≤ cos₂

/-- `order_points` before the repair. -/
def orderIdxOld (ps : List (V3 K)) : List Nat :=
  match ps with
  | [] => []
  | [_] => [0]
  | f :: d :: rest =>
    let c := mean ps
    let n := (f.sub c).cross (d.sub c)
    let keys : List (Int × K × K) := (0, 1, 1) :: (d :: rest).map fun p => oldKey n (f.sub c) (p.sub c)
    (isortBy (fun a b => oldLe a.1 b.1) keys.zipIdx).map (·.2)

def orderPointsOld (ps : List (V3 K)) : List (V3 K) :=
  (orderIdxOld ps).map fun i => ps.getD i V3.zero

end old

end Molgri.Polygon
