/-
Model of `molgri/space/polytopes.py` (C18): `Polytope._add_polytope_point`, `_find_face`,
`_add_edges_of_len`, `_add_average_point_and_edges`, `_add_mid_edge_nodes`, `_end_of_divison`,
`divide_edges`, the three `_create_level0` / `divide_edges` overrides, `get_nodes`,
`Cube4DPolytope.get_half_of_hypercube` and `utils.q_in_upper_sphere`.  Import-free, executable, exact.

Coordinates.  The implementation keys nodes by float tuples; the model keys them by integer lists.
After `k` divisions the model unit is `u_k = h / 2^k`, `h` the absolute value of a level-0 vertex
coordinate (cube: `side_len/2`; icosahedron: `side_len/2`, coordinates in ℤ[φ] stored as
`[a₁,b₁,a₂,b₂,a₃,b₃]` for `(a₁+b₁φ, a₂+b₂φ, a₃+b₃φ)`), so a division doubles every old coordinate
(`dbl`) and the midpoint of `p`,`q` is `p + q` (`mid`).  In these units the spacing of the current
lattice is always `2`: the edge lengths `2·side_len`, `2·side_len·√2`, `2·side_len·√3` that the code
passes to `_add_edges_of_len` are the squared distances `4`, `8`, `12`.

External behaviour that is a parameter: the order in which networkx enumerates nodes/edges and numpy's
`shuffle` together decide which new node receives which of the new indices; the model takes the
resulting offset table `σ level n position` as an argument (theorems hold for every permutation).
The `only_seconds` search filter of `_add_edges_of_len` is not modelled (DESIGN §5.18): among candidates that are
not yet adjacent it is a pure search-space restriction, and `Molgri.C18.cube_seconds_filter_vacuous`,
`ico_seconds_filter_vacuous`, `cube3_seconds_level0` prove that it never excludes a pair the model connects;
candidates that are already adjacent are skipped here by `hasEdge` (networkx: `add_edge` on an existing edge adds
nothing).  The correspondence check compares complete edge sets at every level.
-/
namespace Molgri.Polytope

abbrev Pt := List Int

/-- `np.average([p, q], axis=0)` in the doubled unit. -/
def mid (p q : Pt) : Pt := List.zipWith (· + ·) p q
/-- change of unit at a division: an old point keeps its position, its coordinates double. -/
def dbl (p : Pt) : Pt := p.map (2 * ·)
def neg (p : Pt) : Pt := p.map (fun x => -x)

/-- squared Euclidean distance of integer points. -/
def sqd (p q : Pt) : Int := (List.zipWith (fun a b => (a - b) * (a - b)) p q).sum

/-- squared Euclidean length in ℤ[φ]³ of a flat list `[a₁,b₁,…]`: `(a+bφ)² = a²+b² + (2ab+b²)φ`. -/
def phiNormSq : Pt → Int × Int
  | a :: b :: t => let r := phiNormSq t; (a * a + b * b + r.1, 2 * a * b + b * b + r.2)
  | _ => (0, 0)
def phiSqd (p q : Pt) : Int × Int := phiNormSq (List.zipWith (· - ·) p q)

structure Node where
  pt : Pt
  level : Nat
  face : List Nat
  /-- `central_index` (meaningful from the end of the division that created the node) -/
  idx : Nat
deriving Repr, DecidableEq

structure St where
  nodes : List Node
  /-- undirected edges of `G`, each stored once -/
  edges : List (Pt × Pt)
  /-- `current_level` -/
  cur : Nat
  /-- `current_max_ci` -/
  maxCi : Nat
deriving Repr

/-- `set(a).intersection(set(b))` -/
def interFace (a b : List Nat) : List Nat := a.filter (fun f => b.contains f)

/-- `G.nodes[p]["face"]` -/
def faceOf (nodes : List Node) (p : Pt) : List Nat :=
  match nodes.find? (fun nd => nd.pt == p) with
  | some nd => nd.face
  | none => []

def hasNode (nodes : List Node) (p : Pt) : Bool := nodes.any (fun nd => nd.pt == p)

/-- `G.add_node(pt, level=…, face=…, projection=…)`: a new key is appended, an existing key has its
attributes overwritten (its `central_index`, if any, is kept). -/
def addNode (nodes : List Node) (nd : Node) : List Node :=
  if hasNode nodes nd.pt then
    nodes.map (fun n => if n.pt = nd.pt then { n with level := nd.level, face := nd.face } else n)
  else nodes ++ [nd]

def hasEdge (es : List (Pt × Pt)) (a b : Pt) : Bool :=
  es.any (fun e => (e.1 == a && e.2 == b) || (e.1 == b && e.2 == a))

/-- unordered pairs of a list, earlier element first. -/
def pairs {α : Type} : List α → List (α × α)
  | [] => []
  | a :: t => t.map (fun b => (a, b)) ++ pairs t

/-- `_add_edges_of_len(edge_len, wished_levels=[lvl, lvl], only_face=onlyFace)`: among the nodes of level
`lvl`, every pair at the given distance (`test`), on a common face when `onlyFace`, becomes an edge. -/
def addEdgesOfLen (test : Pt → Pt → Bool) (lvl : Nat) (onlyFace : Bool) (s : St) : St :=
  let sel := s.nodes.filter (fun nd => nd.level == lvl)
  let cand := (pairs sel).filter (fun ab =>
    (!onlyFace || !(interFace ab.1.face ab.2.face).isEmpty) && test ab.1.pt ab.2.pt
      && !hasEdge s.edges ab.1.pt ab.2.pt)
  { s with edges := s.edges ++ cand.map (fun ab => (ab.1.pt, ab.2.pt)) }

/-- `_add_mid_edge_nodes`: for every edge a node at its midpoint (level `cur`, face = common faces of the
end points), the two half edges, and the old edge removed; all in the doubled unit. -/
def addMidEdgeNodes (s : St) : St :=
  let nodes0 := s.nodes.map (fun nd => { nd with pt := dbl nd.pt })
  let nodes1 := s.edges.foldl (fun acc e =>
      addNode acc ⟨mid e.1 e.2, s.cur, interFace (faceOf s.nodes e.1) (faceOf s.nodes e.2), 0⟩) nodes0
  let edges1 := s.edges.flatMap (fun e => [(mid e.1 e.2, dbl e.1), (mid e.1 e.2, dbl e.2)])
  { s with nodes := nodes1, edges := edges1 }

/-- the enumerate loop of `_end_of_divison`: the `j`-th node of level `lvl` receives `base + σ j`. -/
def assignGo (σ : Nat → Nat) (lvl base : Nat) : List Node → Nat → List Node
  | [], _ => []
  | nd :: t, j =>
    if nd.level = lvl then { nd with idx := base + σ j } :: assignGo σ lvl base t (j + 1)
    else nd :: assignGo σ lvl base t j

def newCount (s : St) : Nat := (s.nodes.filter (fun nd => nd.level == s.cur)).length

/-- `_end_of_divison` with the shuffle as the parameter `σ level n`. -/
def endOfDivision (σ : Nat → Nat → Nat → Nat) (s : St) : St :=
  let n := newCount s
  { nodes := assignGo (σ s.cur n) s.cur s.maxCi s.nodes 0, edges := s.edges,
    cur := s.cur + 1, maxCi := s.maxCi + n }

inductive Kind where
  | ico | cube3 | cube4
deriving Repr, DecidableEq

def isLen (l : Int) (p q : Pt) : Bool := sqd p q == l
def isPhiLen (p q : Pt) : Bool := phiSqd p q == (4, 0)

/-- vertex table + face table → level-0 nodes (`face` = indices of the faces listing the vertex). -/
def mkVertices (vs : List Pt) (faces : List (List Nat)) : List Node :=
  vs.zipIdx.map (fun vi =>
    ⟨vi.1, 0, (faces.zipIdx.filter (fun fi => fi.1.contains vi.2)).map (·.2), 0⟩)

def cube3Vertices : List Pt :=
  [[-1, -1, -1], [-1, -1, 1], [-1, 1, -1], [1, -1, -1], [-1, 1, 1], [1, -1, 1], [1, 1, -1], [1, 1, 1]]
def cube3Faces : List (List Nat) :=
  [[0, 1, 2, 4], [0, 2, 3, 6], [0, 1, 3, 5], [3, 5, 6, 7], [1, 4, 5, 7], [2, 4, 6, 7]]

/-- `itertools.product((-h, h), repeat=4)` -/
def cube4Vertices : List Pt :=
  [-1, 1].flatMap fun a => [-1, 1].flatMap fun b => [-1, 1].flatMap fun c => [-1, 1].map fun d => [a, b, c, d]
def cube4Faces : List (List Nat) :=
  [[0, 1, 2, 3, 4, 5, 6, 7], [0, 1, 2, 3, 8, 9, 10, 11], [0, 1, 4, 5, 8, 9, 12, 13],
   [0, 2, 4, 6, 8, 10, 12, 14], [1, 3, 5, 7, 9, 11, 13, 15], [2, 3, 6, 7, 10, 11, 14, 15],
   [4, 5, 6, 7, 12, 13, 14, 15], [8, 9, 10, 11, 12, 13, 14, 15]]

/-- `(-1, φ, 0), (1, φ, 0), …` as `[a₁,b₁,a₂,b₂,a₃,b₃]` -/
def icoVertices : List Pt :=
  [[-1, 0, 0, 1, 0, 0], [1, 0, 0, 1, 0, 0], [-1, 0, 0, -1, 0, 0], [1, 0, 0, -1, 0, 0],
   [0, 0, -1, 0, 0, 1], [0, 0, 1, 0, 0, 1], [0, 0, -1, 0, 0, -1], [0, 0, 1, 0, 0, -1],
   [0, 1, 0, 0, -1, 0], [0, 1, 0, 0, 1, 0], [0, -1, 0, 0, -1, 0], [0, -1, 0, 0, 1, 0]]
def icoFaces : List (List Nat) :=
  [[0, 11, 5], [0, 5, 1], [0, 1, 7], [0, 7, 10], [0, 10, 11], [1, 5, 9], [5, 11, 4], [11, 10, 2],
   [10, 7, 6], [7, 1, 8], [3, 9, 4], [3, 4, 2], [3, 2, 6], [3, 6, 8], [3, 8, 9], [4, 9, 5], [2, 4, 11],
   [6, 2, 10], [8, 6, 7], [9, 8, 1]]

def emptySt (nodes : List Node) : St := { nodes := nodes, edges := [], cur := 0, maxCi := 0 }

/-- `_create_level0` of the three classes. -/
def create (σ : Nat → Nat → Nat → Nat) : Kind → St
  | .ico => endOfDivision σ (addEdgesOfLen isPhiLen 0 false (emptySt (mkVertices icoVertices icoFaces)))
  | .cube3 => endOfDivision σ (addEdgesOfLen (isLen 8) 0 true (addEdgesOfLen (isLen 4) 0 false
      (emptySt (mkVertices cube3Vertices cube3Faces))))
  | .cube4 => endOfDivision σ (addEdgesOfLen (isLen 12) 0 false (addEdgesOfLen (isLen 8) 0 false
      (addEdgesOfLen (isLen 4) 0 false (emptySt (mkVertices cube4Vertices cube4Faces)))))

/-- `divide_edges` of the three classes. -/
def divide (σ : Nat → Nat → Nat → Nat) (kind : Kind) (s : St) : St :=
  match kind with
  | .ico => endOfDivision σ (addMidEdgeNodes (addEdgesOfLen isPhiLen (s.cur - 1) true s))
  | .cube3 =>
    let s1 := endOfDivision σ (addMidEdgeNodes s)
    addEdgesOfLen (isLen 8) (s1.cur - 1) true (addEdgesOfLen (isLen 4) (s1.cur - 1) true s1)
  | .cube4 =>
    let s1 := endOfDivision σ (addMidEdgeNodes s)
    addEdgesOfLen (isLen 12) (s1.cur - 1) true (addEdgesOfLen (isLen 8) (s1.cur - 1) true
      (addEdgesOfLen (isLen 4) (s1.cur - 1) true s1))

/-- the polytope object after `k` calls of `divide_edges`. -/
def iter (σ : Nat → Nat → Nat → Nat) (kind : Kind) : Nat → St
  | 0 => create σ kind
  | k + 1 => divide σ kind (iter σ kind k)

/-! ### getters -/

/-- Any public read-only method of the polytope classes called between two subdivisions (`get_nodes`,
`get_neighbours_of`, `get_polytope_adj_matrix`, `get_cdist_matrix`, `get_edges_of_categories`, `get_N_element_graph`,
`get_half_of_hypercube`, `get_all_cells`, `__str__`, …): a step of a history that returns something and leaves the
object (graph, levels, faces, indices, counters) as it is.  The harness checks this on the implementation by comparing
the complete graph before and after every such call and by evaluating the statement after the whole history. -/
def observe (s : St) : St := s

def insertByIdx (nd : Node) : List Node → List Node
  | [] => [nd]
  | a :: t => if nd.idx < a.idx then nd :: a :: t else a :: insertByIdx nd t

/-- `sorted(G.nodes(), key=central_index)` (stable insertion sort). -/
def sortByIdx (l : List Node) : List Node := l.foldr insertByIdx []

/-- `get_nodes(N)`: rows in index order; `ValueError` when more rows are requested than exist. -/
def getNodes (s : St) (N : Option Nat) : Except String (List Node) :=
  let all := sortByIdx s.nodes
  match N with
  | none => .ok all
  | some n => if n > all.length then .error "ValueError" else .ok (all.take n)

/-- the test inside the loop of `q_in_upper_sphere`: `allclose(q[:i], 0) and q[i] > 0`. -/
def upperAt (q : Pt) (i : Nat) : Bool := (q.take i).all (· == 0) && decide (0 < q.getD i 0)
/-- `q_in_upper_sphere`: some position passes the test. -/
def inUpper (q : Pt) : Bool := (List.range q.length).any (upperAt q)

def insertNat (n : Nat) : List Nat → List Nat
  | [] => [n]
  | a :: t => if n < a then n :: a :: t else a :: insertNat n t
def sortNat (l : List Nat) : List Nat := l.foldr insertNat []

/-- `which_row_is_k(rows, p)[0]` -/
def rowOf (rows : List Node) (p : Pt) : Nat := rows.findIdx (fun nd => nd.pt == p)

/-- `get_half_of_hypercube(N)`: rows of `get_nodes()` in the upper half, by row number. -/
def getHalf (s : St) (N : Option Nat) : Except String (List Node) :=
  let rows := sortByIdx s.nodes
  let uniq := rows.filter (fun nd => inUpper nd.pt)
  let allCi := sortNat (uniq.map (fun nd => rowOf rows nd.pt))
  let sel := allCi.filterMap (fun i => rows[i]?)
  match N with
  | none => .ok sel
  | some n => if n > allCi.length then .error "ValueError" else .ok (sel.take n)

/-! ### the ideal lattices of the statement (executable, used by finite-level checks and the driver) -/

/-- integers `-w, -w+2, …, w` -/
def axisVals (w : Nat) : List Int := (List.range (w + 1)).map (fun (i : Nat) => 2 * (i : Int) - (w : Int))

def boxPts : Nat → Nat → List Pt
  | 0, _ => [[]]
  | d + 1, w => (axisVals w).flatMap (fun x => (boxPts d w).map (x :: ·))

/-- points of the spacing-2 lattice on the boundary of the cube of half width `2^k` (the `2^k`-per-edge lattice). -/
def cubeLattice (d k : Nat) : List Pt :=
  (boxPts d (2 ^ k)).filter (fun p => p.any (fun x => x.natAbs == 2 ^ k))

def smul (c : Int) (p : Pt) : Pt := p.map (c * ·)
def add3 (p q r : Pt) : Pt := List.zipWith (· + ·) (List.zipWith (· + ·) p q) r

/-- frequency-`n` lattice points `i·A + j·B + l·C`, `i + j + l = n`, of one flat triangle. -/
def triLattice (n : Nat) (A B C : Pt) : List Pt :=
  (List.range (n + 1)).flatMap (fun (i : Nat) => (List.range (n + 1 - i)).map (fun (j : Nat) =>
    add3 (smul (Int.ofNat i) A) (smul (Int.ofNat j) B) (smul (Int.ofNat (n - i - j)) C)))

/-- geodesic lattice of frequency `2^k` on the twenty faces (points on shared edges occur repeatedly). -/
def icoLattice (k : Nat) : List Pt :=
  icoFaces.flatMap (fun f => match f with
    | [a, b, c] => triLattice (2 ^ k) (icoVertices.getD a []) (icoVertices.getD b []) (icoVertices.getD c [])
    | _ => [])

def dedup (l : List Pt) : List Pt := l.foldl (fun acc p => if acc.contains p then acc else acc ++ [p]) []

def subsetB (a b : List Pt) : Bool := a.all (fun p => b.contains p)
def nodupB : List Pt → Bool
  | [] => true
  | a :: t => !t.contains a && nodupB t
/-- `a` lists every element of `b` exactly once and nothing else. -/
def sameSetOnce (a b : List Pt) : Bool := nodupB a && subsetB a b && subsetB b a

end Molgri.Polytope
