/-
Model of the default (spherical-shell) position grid of `molgri.space.fullgrid.PositionGrid` (C05):

  `translations.get_increments`, `translations.get_between_radii`               (translations.py:94-134)
  `fullgrid._t_and_o_2_positions` (1-D case), `get_all_position_volumes`        (fullgrid.py:386-398, 512-538)
  `PositionGrid._get_N_N_position_array` for the three properties               (fullgrid.py:401-486)
  the parts of scipy.sparse the code relies on: `diags(values, ±n_o, shape)` with truncation of an over-long diagonal
  and broadcasting of a length-one diagonal, `bmat` of a block diagonal, COO addition (canonical, zeros dropped).

Import-free and executable.  Polymorphic in the scalar `K` through core operator classes: the driver instantiates
`K := Rat`, the theorems are proved for every linearly ordered field.

External inputs (parameters of the model): the number `n_o` of directions, the unit-sphere cell areas
`area` (`SphericalVoronoi.calculate_areas`), and the dense `n_o × n_o` unit-sphere matrix `neig` (adjacency / arcs /
angles) as a function `Nat → Nat → K` (only arguments `< n_o` are ever read).
-/
namespace Molgri.PositionGrid

/-- A sparse matrix in coordinate format: `(row, column, value)` triples; the matrix is the *sum* of its triples. -/
abbrev Coo (K : Type) := List (Nat × Nat × K)

section
variable {K : Type} [Add K] [Sub K] [Mul K] [Div K] [Zero K] [One K] [OfNat K 2] [OfNat K 3] [OfNat K 10]
  [LT K] [DecidableLT K] [DecidableEq K]

/-! ### translations.py -/

/-- `TranslationParser.__init__` after the text has been read: `np.sort`, `assert all >= 0`, `* NM2ANGSTROM`. -/
def parsedRadii (xs : List K) : Except String (List K) :=
  let s := xs.mergeSort (fun a b => !decide (b < a))
  if s.any (fun x => decide (x < 0)) then throw "AssertionError" else pure (s.map (· * 10))

/-- The list built by `get_increments`: `[a[0]] ++ [stop - start for start, stop in zip(a, a[1:])]`. -/
def incrementsOf (r : List K) : List K :=
  match r with
  | [] => []
  | a :: t => a :: List.zipWith (fun start stop => stop - start) (a :: t) t

/-- The assertion of `get_increments`: `increment_grid[0] >= 0 and np.all(increment_grid[1:] > 0)` (the first
"increment" is the first radius itself, which may be zero; the differences must be positive). -/
def incrementsOk (inc : List K) : Bool :=
  !decide (inc.getD 0 0 < 0) && inc.tail.all (fun x => decide (0 < x))

/-- `get_increments`: `my_array[0]` raises `IndexError` on an empty array; then the assertion. -/
def getIncrements (r : List K) : Except String (List K) :=
  if r.isEmpty then throw "IndexError"
  else if incrementsOk (incrementsOf r) then pure (incrementsOf r)
  else throw "AssertionError"

/-- The middle of `get_between_radii`: with more than one increment `pop(0)`, `append(increments[-1])`, `/ 2`;
a single increment is kept as it is. -/
def halfIncrements (inc : List K) : List K :=
  if inc.length > 1 then
    let popped := inc.tail
    (popped ++ popped.getLast?.toList).map (· / 2)
  else inc

/-- `get_between_radii(my_array)` (`include_zero=False`): `my_array + increments`. -/
def getBetweenRadii (r : List K) : Except String (List K) := do
  let inc ← getIncrements r
  pure (List.zipWith (· + ·) r (halfIncrements inc))

/-! ### fullgrid.py: volumes -/

/-- `_t_and_o_2_positions` for 1-D properties: `np.tile(o, n_t) * np.repeat(t, n_o)`; entry `k*n_o + i` is `o[i]*t[k]`. -/
def tAndO (o t : List K) : List K := t.flatMap fun tv => o.map fun ov => ov * tv

/-- `x**2`, `x**3`. -/
def sq (x : K) : K := x * x
def cube (x : K) : K := x * x * x

/-- `get_all_position_volumes` (default mode). -/
def volumes (r area : List K) : Except String (List K) := do
  let radiusAbove ← getBetweenRadii r
  let radiusBelow := 0 :: radiusAbove.dropLast
  let a3 := area.map (· / 3)
  pure (List.zipWith (· - ·) (tAndO a3 (radiusAbove.map cube)) (tAndO a3 (radiusBelow.map cube)))

/-! ### scipy.sparse as used by the code -/

/-- Value of the matrix a COO list denotes at `(i, j)`: duplicates are summed. -/
def dense (M : Coo K) (i j : Nat) : K :=
  ((M.filter fun e => decide (e.1 = i) && decide (e.2.1 = j)).map (·.2.2)).sum

/-- `coo_array(dense n×n array)`: the non-zero entries in row-major order. -/
def cooOfDense (n : Nat) (f : Nat → Nat → K) : Coo K :=
  (List.range n).flatMap fun i => (List.range n).filterMap fun j =>
    if f i j = 0 then none else some (i, j, f i j)

/-- Canonical form of an `n × n` COO matrix (what `A + B` / `.tocsr()` / `.tocoo()` produce): row-major, duplicates
summed, zero results dropped.  (Same as `cooOfDense n (dense M)`, evaluated row by row.) -/
def canon (n : Nat) (M : Coo K) : Coo K :=
  (List.range n).flatMap fun i =>
    let row := M.filter fun e => decide (e.1 = i)
    (List.range n).filterMap fun j =>
      if dense row i j = 0 then none else some (i, j, dense row i j)

/-- `scipy.sparse.diags(vals, offsets=±off, shape=(n, n), format="coo")` for one diagonal.
`length = n - off` (negative: `ValueError`); `data[k:k+length] = vals[:length]`: an over-long diagonal is cut, a
length-one diagonal is broadcast, any other shorter one raises `ValueError`.  Entry `i` of the diagonal sits at
`(i, i+off)` (upper) or `(i+off, i)` (lower); DIA → COO drops zeros. -/
def diagsCoo (vals : List K) (off : Nat) (lower : Bool) (n : Nat) : Except String (Coo K) :=
  if n < off then throw "ValueError" else
  let len := n - off
  let cut := vals.take len
  let filled : Option (List K) :=
    if cut.length = len then some cut
    else match cut with
      | [v] => some (List.replicate len v)
      | _ => none
  match filled with
  | none => throw "ValueError"
  | some d => pure ((List.range len).filterMap fun i =>
      let v := d.getD i 0
      if v = 0 then none else some (if lower then (i + off, i, v) else (i, i + off, v)))

/-- `bmat` of the `n_t × n_t` block matrix with `blk` on the diagonal and `None` elsewhere. -/
def blockDiag (n_o n_t : Nat) (blk : Coo K) : Coo K :=
  (List.range n_t).flatMap fun k => blk.map fun e => (k * n_o + e.1, k * n_o + e.2.1, e.2.2)

/-- `ind*n_o <= x < (ind+1)*n_o`. -/
def inBlock (n_o k x : Nat) : Bool := decide (k * n_o ≤ x) && decide (x < (k + 1) * n_o)

/-- One pass of the scaling loop: `data[mask] *= multiply[ind_n_t]`. -/
def scaleShell (n_o : Nat) (M : Coo K) (k : Nat) (m : K) : Coo K :=
  M.map fun e => if inBlock n_o k e.1 && inBlock n_o k e.2.1 then (e.1, e.2.1, e.2.2 * m) else e

/-- Neighbours within a shell.  `n_t > 1`: block diagonal, then the loop over shells; otherwise
`coo_array(neig) * multiply` with a length-one `multiply`.  (`multiply` has `n_t` entries in every branch of the
caller, lemma `multiplyOf_length`, so the defaults of `getD` are never taken.) -/
def sameRadius (n_o n_t : Nat) (neig : Nat → Nat → K) (multiply : List K) : Coo K :=
  if n_t > 1 then
    (List.range n_t).foldl (fun M k => scaleShell n_o M k (multiply.getD k 0))
      (blockDiag n_o n_t (cooOfDense n_o neig))
  else
    (cooOfDense n_o neig).map fun e => (e.1, e.2.1, e.2.2 * multiply.getD 0 0)

/-! ### `_get_N_N_position_array` -/

inductive Sel where
  | adjacency | borderLen | centerDistances
  deriving DecidableEq, Repr

/-- `my_diags` of the three branches. -/
def myDiags (sel : Sel) (n_o : Nat) (r area between : List K) : Except String (List K) :=
  match sel with
  | .adjacency => pure [1]
  | .borderLen => pure (between.dropLast.flatMap fun radius => area.map fun a => a * sq radius)
  | .centerDistances => do
      let inc := (← getIncrements r).tail
      let inc := if inc.length > 0 then inc ++ inc.getLast?.toList else inc
      pure (tAndO (List.replicate n_o 1) inc)

/-- `multiply` of the three branches. -/
def multiplyOf (sel : Sel) (r between : List K) : List K :=
  match sel with
  | .adjacency => List.replicate r.length 1
  | .borderLen => List.zipWith (fun b s => sq b / 2 - sq s / 2) between (0 :: between.dropLast)
  | .centerDistances => r

/-- `PositionGrid._get_N_N_position_array(sel_property)` in the default mode, as a canonical COO matrix of shape
`(n_o*n_t, n_o*n_t)`. -/
def nnPosition (sel : Sel) (n_o : Nat) (r area : List K) (neig : Nat → Nat → K) : Except String (Coo K) := do
  let n_t := r.length
  let n := n_o * n_t
  let between ← getBetweenRadii r
  let d ← myDiags sel n_o r area between
  let up ← diagsCoo d n_o false n
  let lo ← diagsCoo d n_o true n
  let sameRay := canon n (up ++ lo)
  let sameRad := sameRadius n_o n_t neig (multiplyOf sel r between)
  pure (canon n (sameRay ++ sameRad))

end

end Molgri.PositionGrid
