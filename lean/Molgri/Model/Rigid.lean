/-
Model of `molgri.molecules.pts.Pseudotrajectory` (`generate_pseudotrajectory`, `get_pt_as_universe`),
of `molgri.io.OneMoleculeReader` (centring at the centre of mass) and of
`molgri.io.TwoMoleculeWriter._center_both_molecules` / `PtWriter.__init__` (C10).
Import-free, executable, polymorphic in the scalar (instantiated at `Rat` by the driver, at an arbitrary
field by the theorems).

External library calls are modelled by what they compute (the correspondence check compares them on every run):
* `scipy.spatial.transform.Rotation.from_quat(q).as_matrix()`  ↦ `rotMat q` (scalar-LAST quaternion, normalised;
  the entries are the usual quadratic forms divided by `|q|²`; zero norm ↦ `ValueError`);
* `AtomGroup.center_of_mass()` ↦ `com`;  `AtomGroup.translate(t)` ↦ `translate t`;
* `AtomGroup.rotate(R, point)` ↦ `rotate R point` = translate(−point); `x ← x · Rᵀ` (row vectors); translate(point);
* `MDAnalysis.Merge(a, b)` ↦ `a ++ b` (a snapshot: later mutation of the moving molecule does not change it).
Mutable state of the Python object (`moving_molecule` positions, `current_frame`, cached `pt`) is explicit.
-/
namespace Molgri.Rigid

structure V3 (K : Type) where
  x : K
  y : K
  z : K

/-- Quaternion in scipy's component order: vector part first, scalar LAST. -/
structure Quat (K : Type) where
  x : K
  y : K
  z : K
  w : K

/-- 3×3 matrix by rows. -/
structure Mat3 (K : Type) where
  r0 : V3 K
  r1 : V3 K
  r2 : V3 K

structure Atom (K : Type) where
  name : String
  type : String
  mass : K
  pos : V3 K

/-- One row of the full-grid array: `se3_coo[:3]` (position) and `se3_coo[3:]` (quaternion). -/
structure Row (K : Type) where
  t : V3 K
  q : Quat K

/-- What the generator yields: `(self.current_frame, Merge(static, moving))`. -/
structure Frame (K : Type) where
  idx : Nat
  atoms : List (Atom K)

section
variable {K : Type} [Add K] [Sub K] [Mul K] [Div K] [Neg K] [Zero K]

def V3.add (a b : V3 K) : V3 K := ⟨a.x + b.x, a.y + b.y, a.z + b.z⟩
def V3.sub (a b : V3 K) : V3 K := ⟨a.x - b.x, a.y - b.y, a.z - b.z⟩
def V3.neg (a : V3 K) : V3 K := ⟨-a.x, -a.y, -a.z⟩
def V3.zero : V3 K := ⟨0, 0, 0⟩
def V3.dot (a b : V3 K) : K := a.x * b.x + a.y * b.y + a.z * b.z
def V3.normSq (a : V3 K) : K := a.dot a

def Mat3.transpose (M : Mat3 K) : Mat3 K :=
  ⟨⟨M.r0.x, M.r1.x, M.r2.x⟩, ⟨M.r0.y, M.r1.y, M.r2.y⟩, ⟨M.r0.z, M.r1.z, M.r2.z⟩⟩

/-- `np.dot(v, M)` for one row vector `v`. -/
def vecMul (v : V3 K) (M : Mat3 K) : V3 K :=
  ⟨v.x * M.r0.x + v.y * M.r1.x + v.z * M.r2.x,
   v.x * M.r0.y + v.y * M.r1.y + v.z * M.r2.y,
   v.x * M.r0.z + v.y * M.r1.z + v.z * M.r2.z⟩

def Quat.normSq (q : Quat K) : K := q.x * q.x + q.y * q.y + q.z * q.z + q.w * q.w

/-- `a + a` (the factor 2 of the off-diagonal entries, without numerals). -/
def dbl (a : K) : K := a + a

/-- `Rotation.from_quat(q).as_matrix()`: scipy normalises `q` and fills
`[[x²−y²−z²+w², 2(xy−zw), 2(xz+yw)], [2(xy+zw), −x²+y²−z²+w², 2(yz−xw)], [2(xz−yw), 2(yz+xw), −x²−y²+z²+w²]]`;
with the normalisation folded in, every entry is divided by `|q|²`. -/
def rotMat (q : Quat K) : Mat3 K :=
  let n := q.normSq
  ⟨⟨(q.x * q.x - q.y * q.y - q.z * q.z + q.w * q.w) / n, dbl (q.x * q.y - q.z * q.w) / n, dbl (q.x * q.z + q.y * q.w) / n⟩,
   ⟨dbl (q.x * q.y + q.z * q.w) / n, (-(q.x * q.x) + q.y * q.y - q.z * q.z + q.w * q.w) / n, dbl (q.y * q.z - q.x * q.w) / n⟩,
   ⟨dbl (q.x * q.z - q.y * q.w) / n, dbl (q.y * q.z + q.x * q.w) / n, (-(q.x * q.x) - q.y * q.y + q.z * q.z + q.w * q.w) / n⟩⟩

/-! ### MDAnalysis atom-group operations -/

def Atom.setPos (a : Atom K) (p : V3 K) : Atom K := { a with pos := p }

/-- `atoms.translate(t)`: `positions += t`. -/
def translate (t : V3 K) (as : List (Atom K)) : List (Atom K) :=
  as.map fun a => a.setPos (a.pos.add t)

/-- `atoms.rotate(R, point)`: `translate(-point); x[idx] = np.dot(x[idx], R.T); translate(point)`. -/
def rotate (R : Mat3 K) (point : V3 K) (as : List (Atom K)) : List (Atom K) :=
  translate point ((translate point.neg as).map fun a => a.setPos (vecMul a.pos R.transpose))

def totalMass (as : List (Atom K)) : K := (as.map fun a => a.mass).sum

/-- `Σ mᵢ·xᵢ` by component. -/
def massMoment (as : List (Atom K)) : V3 K :=
  ⟨(as.map fun a => a.mass * a.pos.x).sum, (as.map fun a => a.mass * a.pos.y).sum, (as.map fun a => a.mass * a.pos.z).sum⟩

/-- `atoms.center_of_mass()`. -/
def com (as : List (Atom K)) : V3 K :=
  let m := totalMass as
  let s := massMoment as
  ⟨s.x / m, s.y / m, s.z / m⟩

/-- `OneMoleculeReader(path, center_com=True)`: the transformation `translate(-center_of_mass)`;
also each of the two calls in `TwoMoleculeWriter._center_both_molecules`. -/
def center (as : List (Atom K)) : List (Atom K) := translate (com as).neg as

/-! ### the Pseudotrajectory object -/

/-- Mutable state of a `Pseudotrajectory`. `pt` is the cached result of `get_pt_as_universe`
(positions of every frame). -/
structure PtState (K : Type) where
  static : List (Atom K)
  moving : List (Atom K)
  currentFrame : Nat
  pt : Option (List (List (V3 K)))

/-- `Pseudotrajectory.__init__`. -/
def PtState.init (mol1 mol2 : List (Atom K)) : PtState K := ⟨mol1, mol2, 0, none⟩

variable [DecidableEq K]

/-- The loop of `generate_pseudotrajectory` (one call of this function per remaining row; `start` is
`starting_positions`, taken once before the loop). Body, as written:
```
moving.positions = starting_positions
R = Rotation.from_quat(se3_coo[3:])                      # ValueError for a zero quaternion
moving.rotate(R.as_matrix(), point=moving.center_of_mass())
moving.translate(se3_coo[:3])
yield current_frame, Merge(static, moving);  current_frame += 1
``` -/
def genLoop (start : List (Atom K)) : List (Row K) → PtState K → Except String (PtState K × List (Frame K))
  | [], st => .ok (st, [])
  | r :: rs, st =>
    let st1 := { st with moving := start }
    if r.q.normSq = 0 then .error "ValueError" else
    let R := rotMat r.q
    let st2 := { st1 with moving := rotate R (com st1.moving) st1.moving }
    let st3 := { st2 with moving := translate r.t st2.moving }
    let frame : Frame K := ⟨st3.currentFrame, st3.static ++ st3.moving⟩
    let st4 := { st3 with currentFrame := st3.currentFrame + 1 }
    match genLoop start rs st4 with
    | .ok (st', fs) => .ok (st', frame :: fs)
    | .error e => .error e

/-- `list(self.generate_pseudotrajectory())` on the object in state `st`:
`starting_positions = self.moving_molecule.atoms.positions` is read from the CURRENT state. -/
def generate (st : PtState K) (rows : List (Row K)) : Except String (PtState K × List (Frame K)) :=
  genLoop st.moving rows st

/-- `get_pt_as_universe()`: cached; otherwise runs the generator once, `universes[0]` raises `IndexError`
for an empty grid; the result is the per-frame positions (topology = that of frame 0). -/
def getPt (st : PtState K) (rows : List (Row K)) : Except String (PtState K × List (List (V3 K))) :=
  match st.pt with
  | some p => .ok (st, p)
  | none =>
    match generate st rows with
    | .error e => .error e
    | .ok (st', fs) =>
      match fs with
      | [] => .error "IndexError"
      | _ :: _ =>
        let p := fs.map fun f => f.atoms.map fun a => a.pos
        .ok ({ st' with pt := some p }, p)

/-- `PtWriter.__init__` up to the pseudotrajectory: both molecules read through `OneMoleculeReader`
(centred), centred once more by `_center_both_molecules`, then `Pseudotrajectory(...).get_pt_as_universe()`. -/
def ptWriter (raw1 raw2 : List (Atom K)) (rows : List (Row K)) : Except String (PtState K × List (List (V3 K))) :=
  getPt (PtState.init (center (center raw1)) (center (center raw2))) rows

end

end Molgri.Rigid
