/-
Model of `molgri.molecules.transitions.SQRA.get_rate_matrix` (C01), `transitions.py:306-346`.
Import-free, executable, polymorphic in the scalar type `K` (instantiated at `Float` by the driver, at an
arbitrary field in the proofs).

Sparse storage is explicit, because the code divides the *data arrays* of two sparse matrices element by
element (`transition_matrix.data /= self.distances.tocoo().data`) and therefore relies on both matrices
storing their entries in the same order:

* `Coo`  = scipy `coo_array`: the entries in storage order;
* `Csr`  = scipy `csr_array`: `indptr`, `indices`, `data` (column indices of a row in stored order, not
  necessarily sorted);
* `Csr.tocoo` = scipy's `csr.tocoo()`: rows expanded in row-major order, columns in stored order, data
  untouched (no sorting, no summing of duplicates).

External functions are parameters: `exp` (`np.exp`), `rnd` (`np.round(·, 14)`), the constants `kB`, `NA`
(`scipy.constants.k`, `N_A`).
-/
namespace Molgri.Sqra

/-- One stored entry `(row, col, value)`. -/
structure Ent (K : Type) where
  row : Nat
  col : Nat
  val : K

/-- `coo_array` of shape `n × n`: entries in storage order. -/
structure Coo (K : Type) where
  n : Nat
  entries : List (Ent K)

/-- `csr_array` of shape `n × n`. -/
structure Csr (K : Type) where
  n : Nat
  indptr : List Nat
  indices : List Nat
  data : List K

/-- The two storage forms `get_rate_matrix` is given. -/
inductive Sp (K : Type) where
  | coo : Coo K → Sp K
  | csr : Csr K → Sp K

variable {K : Type}

/-- index sequence `(row[k], col[k])` in storage order -/
def Coo.idx (a : Coo K) : List (Nat × Nat) := a.entries.map fun e => (e.row, e.col)

/-- `.data` of a coo matrix -/
def Coo.data (a : Coo K) : List K := a.entries.map (·.val)

/-- stored entries of row `i` of a csr matrix: positions `indptr[i] … indptr[i+1]-1` -/
def Csr.rowEntries (a : Csr K) (i : Nat) : List (Ent K) :=
  let lo := a.indptr.getD i 0
  let hi := a.indptr.getD (i + 1) 0
  (((a.indices.zip a.data).drop lo).take (hi - lo)).map fun p => ⟨i, p.1, p.2⟩

/-- `csr.tocoo()`: row-major expansion, stored column order. -/
def Csr.tocoo (a : Csr K) : Coo K := ⟨a.n, (List.range a.n).flatMap a.rowEntries⟩

def Sp.n : Sp K → Nat
  | .coo a => a.n
  | .csr a => a.n

/-- `.tocoo()` (`coo.tocoo()` returns the matrix itself). -/
def Sp.tocoo : Sp K → Coo K
  | .coo a => a
  | .csr a => a.tocoo

section arith
variable [Add K] [Sub K] [Mul K] [Div K] [Neg K] [LT K] [DecidableLT K]
variable [OfNat K 0] [OfNat K 2] [OfNat K 500] [OfNat K 1000]

/-- `D * matrix` on a coo matrix: scales `.data`, keeps the storage order. -/
def Coo.smul (D : K) (a : Coo K) : Coo K := ⟨a.n, a.entries.map fun e => ⟨e.row, e.col, D * e.val⟩⟩

/-- `D * matrix` on a csr matrix: scales `.data`, keeps `indptr`/`indices`. -/
def Csr.smul (D : K) (a : Csr K) : Csr K := { a with data := a.data.map (D * ·) }

/-- `D * self.surfaces` keeps the storage format. -/
def Sp.smul (D : K) : Sp K → Sp K
  | .coo a => .coo (a.smul D)
  | .csr a => .csr (a.smul D)

/-- `transition_matrix.data /= d`: element-wise over the **storage order** of both arrays (a zip). -/
def divData (t : Coo K) (d : List K) : Coo K :=
  ⟨t.n, List.zipWith (fun e x => ⟨e.row, e.col, e.val / x⟩) t.entries d⟩

/-- `transition_matrix.data /= self.volumes[transition_matrix.row]` -/
def divVol (V : Nat → K) (t : Coo K) : Coo K :=
  ⟨t.n, t.entries.map fun e => ⟨e.row, e.col, e.val / V e.row⟩⟩

/-- `np.where(diff < 5e2, diff, 5e2)`: one-sided cap at 500 kJ/mol. -/
def capf (x : K) : K := if x < 500 then x else 500

/-- `pi_exponent = np.round(diff, 14) * 1000 / (2 * kB * N_A * T)` for one (already capped) difference -/
def piExponent (rnd : K → K) (kB NA T : K) (d : K) : K := rnd d * 1000 / (2 * kB * NA * T)

/-- `transition_matrix.data *= np.exp(pi_exponent)` with `diff = E[row] - E[col]` -/
def mulBoltz (exp rnd : K → K) (kB NA T : K) (E : Nat → K) (t : Coo K) : Coo K :=
  ⟨t.n, t.entries.map fun e =>
    ⟨e.row, e.col, e.val * exp (piExponent rnd kB NA T (capf (E e.row - E e.col)))⟩⟩

/-- the off-diagonal part, in coo storage, just before the row sums are taken
(`t0`: `(D * self.surfaces).tocoo()`, `hd`: `self.distances.tocoo().data`) -/
def offDiagFrom (exp rnd : K → K) (kB NA T : K) (t0 : Coo K) (hd : List K) (V E : Nat → K) : Coo K :=
  mulBoltz exp rnd kB NA T E (divVol V (divData t0 hd))

/-- the same with `S` = surfaces in coo storage (scaling by `D` commutes with `.tocoo()`, lemma `tocoo_smul`) -/
def offDiag (exp rnd : K → K) (kB NA T D : K) (S : Coo K) (hd : List K) (V E : Nat → K) : Coo K :=
  offDiagFrom exp rnd kB NA T (S.smul D) hd V E

/-- sum, in storage order, of the values of the entries selected by `p` (what `coo_matvec` and
`coo.tocsr()` do with the entries of one row / one position) -/
def condSum (p : Ent K → Bool) (l : List (Ent K)) : K :=
  l.foldl (fun acc e => if p e then acc + e.val else acc) 0

/-- `transition_matrix.sum(axis=1)[i]` -/
def Coo.rowSum (t : Coo K) (i : Nat) : K := condSum (fun e => e.row == i) t.entries

/-- value of the matrix at `(i, j)` (duplicates add, as in `tocsr()` / `toarray()`) -/
def Coo.dense (t : Coo K) (i j : Nat) : K := condSum (fun e => e.row == i && e.col == j) t.entries

/-- `transition_matrix.tocsr() + coo_array((-sums, (all_i, all_i))).tocsr()` read at `(i, j)` -/
def addDiag (t : Coo K) (i j : Nat) : K := t.dense i j + (if i = j then -(t.rowSum i) else 0)

/-- the returned rate matrix read at `(i, j)`; `S`, `h` are the two inputs after `.tocoo()` -/
def rate (exp rnd : K → K) (kB NA T D : K) (S h : Coo K) (V E : Nat → K) (i j : Nat) : K :=
  addDiag (offDiag exp rnd kB NA T D S h.data V E) i j

/-- numpy broadcasting of `a /= d` for 1-d arrays: same length, or `d` of length one. -/
def broadcastData (len : Nat) (d : List K) : Option (List K) :=
  if d.length = len then some d
  else if d.length = 1 then some (List.replicate len (d.headD 0))
  else none

/-- `SQRA(energies, volumes, distances, surfaces).get_rate_matrix(D, T)` with the exceptions the code raises;
the result is the dense `n × n` array of the returned csr matrix. -/
def getRateMatrix (exp rnd : K → K) (kB NA : K) (E V : List K) (dist surf : Sp K) (D T : K) :
    Except String (List (List K)) :=
  if E.length ≠ V.length then .error "AssertionError" else
  let t0 := (surf.smul D).tocoo
  match broadcastData t0.entries.length dist.tocoo.data with
  | none => .error "ValueError"
  | some hd =>
    if t0.entries.any (fun e => decide (V.length ≤ e.row)) then .error "IndexError" else
    if t0.entries.any (fun e => decide (E.length ≤ e.col)) then .error "IndexError" else
    if surf.n ≠ V.length ∨ surf.n = 1 then .error "ValueError" else
    let t := offDiagFrom exp rnd kB NA T t0 hd (fun i => V.getD i 0) (fun i => E.getD i 0)
    .ok ((List.range surf.n).map fun i => (List.range surf.n).map fun j => addDiag t i j)

end arith

end Molgri.Sqra
